#!/bin/bash
# tools/round_intake.sh <agent-out-dir> [settled-verif-copy] : confirm + keep the changes of one seed-writing
# agent, then run the property's quick check against each (framework taken from the settled copy) and
# record seeded/<n>/verdict.txt.
cd "$(dirname "$0")/.." || exit 2
OUT=$1; SRC=${2:-/tmp/verif-settled}
tools/intake_seed.sh "$OUT" | cut -c1-300
for d in "$OUT"/*/; do
  n=$(basename "$d"); id=$(echo "$n" | cut -d- -f1)
  [ -d "seeded/$n" ] || continue
  out=$(VERIF_SRC=$SRC tools/mutant_run.sh "seeded/$n/patch.diff" "$id" quick 2>&1); rc=$?
  v=$(echo "$out" | grep -E "^VIOLATION|^UNDECIDED|patch does not apply|^KNOWN-FINDING" | sort -r | head -3 | cut -c1-160 | tr '\n' ';')
  echo "rc=$rc $v" > "seeded/$n/verdict.txt"
  echo "$n: rc=$rc $v"
done
