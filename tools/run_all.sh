#!/bin/sh
# tools/run_all.sh [tier] [seeds...]  - run every claimed check, validate evidence; summary at the end.
cd "$(dirname "$0")/.." || exit 2
TIER=${1:-quick}; shift 2>/dev/null
SEEDS=${*:-0}
IDS=$(ls harness/claims | sed 's/\.json$//')
fail=0
for s in $SEEDS; do
  for id in $IDS; do
    start=$(date +%s)
    out=$(VERIF_SEED=$s ./check "$id" --tier "$TIER" 2>&1); rc=$?
    end=$(date +%s)
    ev=$(python3-vt -c "import json,jsonschema,sys; jsonschema.validate(json.load(open('evidence/$id.json')), json.load(open('/root/.vp/EVIDENCE.schema.json'))); print('evidence-ok')" 2>&1 | tail -1)
    echo "seed=$s $id rc=$rc $((end-start))s $ev | $(echo "$out" | grep -E 'VIOLATION|KNOWN-FINDING|UNDECIDED' | head -3 | tr '\n' ';')"
    [ $rc -ne 0 ] && fail=1
  done
done
exit $fail
