#!/bin/bash
# tools/seed_matrix.sh [tier] [pattern] : run every seeded change whose property has a check; verdict in seeded/<n>/verdict.txt
cd "$(dirname "$0")/.." || exit 2
TIER=${1:-quick}; PAT=${2:-}
run_one() {
  d=$1; n=$(basename $d); id=$(echo $n | cut -d- -f1)
  [ -f harness/claims/$id.json ] || { echo "$n: no check yet"; return; }
  grep -q '"retired"' $d/meta.json && { echo "$n: retired"; return; }
  out=$(tools/mutant_run.sh $d/patch.diff $id $TIER 2>&1)
  rc=$?
  v=$(echo "$out" | grep -E "^VIOLATION|^UNDECIDED|patch does not apply|^KNOWN-FINDING" | sort -r | head -3 | cut -c1-160 | tr '\n' ';')
  echo "rc=$rc $v" > $d/verdict.txt
  echo "$n: rc=$rc $v"
}
for d in seeded/*$PAT*/; do
  run_one $d &
  while [ $(jobs -r | wc -l) -ge 4 ]; do sleep 1; done
done
wait
