import AfkakProofs.Client.A5_MonWitness
open Afkak.ClientNet Afkak.ClientCache

structure G where
  s : Nat
def G.next (g : G) : G := ⟨(g.s * 6364136223846793005 + 1442695040888963407) % (2^64)⟩
def G.pick (g : G) (n : Nat) : Nat × G := let g' := g.next; ((g'.s / 65536) % (if n == 0 then 1 else n), g')

def cfg : Cfg := { timeout := 10, disconnectOnTimeout := true, bootHosts := [("a", 1), ("b", 2)] }

def brokersL : List Broker := [⟨1, "h1", 9092⟩, ⟨2, "h2", 9092⟩, ⟨3, "h3", 9092⟩]
def keysL : List TP := [("t", 0), ("t", 1), ("u", 0)]

def genMeta (g : G) : Payload × G :=
  let (nb, g) := g.pick 4
  let (l0, g) := g.pick 4
  let (l1, g) := g.pick 4
  let (l2, g) := g.pick 4
  let ld : Nat → Int := fun x => if x == 0 then -1 else x
  let (full, g) := g.pick 2
  let ts : List TopicMeta := [⟨"t", 0, [⟨0, 0, ld l0⟩, ⟨0, 1, ld l1⟩]⟩] ++ (if full == 1 then [⟨"u", 0, [⟨0, 0, ld l2⟩]⟩] else [])
  (.metadata (brokersL.take (nb.max 1)) ts, g)

def genRes (g : G) (keys : List TP) : Res × G :=
  let (c, g) := g.pick 10
  match c with
  | 0 | 1 | 2 => let (m, g) := genMeta g; (.ok m, g)
  | 3 => let (b, g) := g.pick 3; (.ok (.coord 0 (brokersL.getD b ⟨1, "h1", 9092⟩)), g)
  | 4 | 5 =>
    let (e, g) := g.pick 4
    (.ok (.items (keysL.map (fun k => (k, (if e == 0 then 6 else 0), 7)))), g)
  | 6 => (.ok .none, g)
  | 7 => (.err (.brokerError 7), g)
  | 8 => (.err .cancelled, g)
  | _ => (.ok (.simple 0), g)

def genEv (g : G) (st : St) (nextOp : Nat) : Ev × G :=
  let (c, g) := g.pick 20
  match c with
  | 0 | 1 => let (a, g) := g.pick 2; (.load nextOp (if a == 0 then [] else ["t"]), g)
  | 2 | 3 | 4 | 5 =>
    let (n, g) := g.pick 3
    let (gr, g) := g.pick 3
    let (ex, g) := g.pick 4
    let (rot, g) := g.pick 3
    (.send nextOp ((keysL.rotateLeft rot).take (n+1)) (if gr == 0 then some "g" else none) true (ex != 0), g)
  | 6 => (.cload nextOp "g", g)
  | 7 => (.srtc nextOp "g" none, g)
  | 8 => let (o, g) := g.pick (nextOp + 1); (.cancel o, g)
  | 9 => let (x, g) := g.pick 6; (if x == 0 then .close nextOp else .advance 3, g)
  | 10 | 11 | 12 | 13 | 14 =>
    let pend := st.reqs.filter (·.pending)
    let (i, g) := g.pick pend.length
    match pend[i]? with
    | some q =>
      let (x, g) := g.pick 5
      if x == 0 then (.fire q.k (.err (.brokerError 7)), g) else if x == 1 then (.fire q.k (.err .cancelled), g) else
      (match q.owner with
       | .unaware u _ =>
         (match (unawareGet st u).map (·.kind) with
          | some (UKind.coord _) =>
            let (b, g) := g.pick 3
            let (e, g) := g.pick 5
            (.fire q.k (.ok (.coord (if e == 0 then 15 else 0) (brokersL.getD b ⟨1, "h1", 9092⟩))), g)
          | _ => let (m, g) := genMeta g; (.fire q.k (.ok m), g))
       | .slot _ _ =>
         let (e, g) := g.pick 4
         let (sub, g) := g.pick 3
         (.fire q.k (.ok (.items ((keysL.drop (if sub == 0 then 1 else 0)).map (fun k => (k, (if e == 0 then 6 else if e == 1 then 15 else 0), 7))))), g)
       | .srtc _ => let (e, g) := g.pick 4; (.fire q.k (.ok (.simple (if e == 0 then 16 else 0))), g))
    | none => (.advance 1, g)
  | 15 => let (b, g) := g.pick st.bcs.length; let (v, g) := g.pick 2; (if st.bcs.isEmpty then .advance 1 else .conn b (v == 1), g)
  | 16 =>
    let (x, g) := g.pick 3
    let j := st.nBoot - 1
    (if st.nBoot == 0 then .advance 1 else if x == 0 then .bootFail j else .bootOk j, g)
  | 17 =>
    let j := st.nBoot - 1
    let (m, g) := genMeta g
    let (x, g) := g.pick 4
    (if st.nBoot == 0 then .advance 1 else if x == 0 then .bootReply j (.coord 0 ⟨2, "h2", 9092⟩) else if x == 1 then .bootLost j else .bootReply j m, g)
  | 18 => (.advance 11, g)
  | _ => let (b, g) := g.pick (st.bcs.length + 1); (.down b, g)

def genEnv (g : G) (st : St) : Env × G :=
  let nb := st.cache.brokers.length
  let (c, g) := g.pick 4
  let (r, g) := g.pick 2
  let pb := if r == 0 then List.range nb else (List.range nb).reverse
  let ph := if r == 0 then [0, 1] else [1, 0]
  let sh := match c with
    | 0 => [pb, ph]
    | 1 => [ph]
    | 2 => [pb]
    | _ => [pb, ph, pb, ph]
  ({ shuffles := sh, syncDown := if r == 0 then [] else [0, 1, 2] }, g)

def genRun (seed len : Nat) : List (Env × Ev) := Id.run do
  let mut g : G := ⟨seed⟩
  let mut st : St := {}
  let pre0 : List (Env × Ev) := [({ shuffles := [[], [0, 1]] }, .load 0 []), ({}, .bootOk 0),
    ({}, .bootReply 0 (.metadata brokersL [⟨"t", 0, [⟨0, 0, 1⟩, ⟨0, 1, 2⟩]⟩, ⟨"u", 0, [⟨0, 0, 3⟩]⟩]))]
  let mut out : List (Env × Ev) := pre0
  st := pre0.foldl (fun s e => (step cfg s e.1 e.2).1) st
  let mut nextOp := 1
  for _ in [0:len] do
    let (env, g1) := genEnv g st
    let (e, g2) := genEv g1 st nextOp
    g := g2
    if (opIdOf e).isSome then nextOp := nextOp + 1
    out := out ++ [(env, e)]
    st := (step cfg st env e).1
  return out

def wellFormed (evs : List (Env × Ev)) : Bool :=
  (traceOf cfg {} evs).all (fun it => match it with | .ob (.badOp _) => false | _ => true)

def main : IO Unit := do
  let mut wf := 0
  let mut bad := 0
  let mut shown := 0
  let mut nresp := 0
  let mut nfp := 0
  let mut nua := 0
  let mut nat := 0
  let mut ngrp := 0
  let mut nstale := 0
  for seed in [0:4000] do
    let evs := genRun (seed * 7919 + 13) 22
    -- cut at the first badOp: keep the longest well-formed prefix
    let mut pre := evs
    while !wellFormed pre && pre.length > 0 do
      pre := pre.dropLast
    if pre.length ≥ 3 then
      wf := wf + 1
      let tr := traceOfA cfg {} pre
      let r := Afkak.Monitor.C07.run cfg tr
      nresp := nresp + (tr.filter (fun it => match it with | .ob (.result _ (.responses _)) => true | _ => false)).length
      nfp := nfp + (tr.filter (fun it => match it with | .ob (.result _ (.failedPayloads _ _)) => true | _ => false)).length
      nua := nua + (tr.filter (fun it => match it with | .uattr _ _ => true | _ => false)).length
      nat := nat + (tr.filter (fun it => match it with | .attr _ _ _ => true | _ => false)).length
      ngrp := ngrp + (tr.filter (fun it => match it with | .ob (.mk _ _ _ (.group _)) => true | _ => false)).length
      nstale := nstale + (if r.staleFails.isEmpty then 0 else 1)
      if !r.fails.isEmpty then
        bad := bad + 1
        if shown < 6 then
          shown := shown + 1
          IO.println s!"seed {seed}: {r.fails}"
          IO.println (repr (pre.map (·.2))).pretty
          IO.println (repr (pre.map (·.1.shuffles))).pretty
  IO.println s!"wellformed prefixes {wf}, monitor failures {bad}; responses {nresp} failedPayloads {nfp} uattr {nua} attr {nat} group-reqs {ngrp} stale-traces {nstale}"
#eval main
