#!/bin/bash
# tools/rebase_seed.sh <seed-name> : try to re-apply a seeded patch with fuzz onto /repo HEAD; keep it if still confirmed.
n=$1; d=/verif/seeded/$n; S=/tmp/rebase-$$
git -C /repo worktree add --detach $S HEAD -q || exit 2
trap 'git -C /repo worktree remove --force $S >/dev/null 2>&1' EXIT
cd $S
if ! patch -p1 --fuzz=3 --no-backup-if-mismatch < $d/patch.diff >/tmp/rebase-$$.log 2>&1; then echo "$n: fuzz patch FAILED"; tail -3 /tmp/rebase-$$.log; exit 1; fi
find . -name '*.orig' -delete; find . -name '*.rej' -delete
git diff > /tmp/rebase-$$.diff
cd /verif
mkdir -p /tmp/rebase-$$-seed; cp $d/demo.py $d/meta.json /tmp/rebase-$$-seed/; cp /tmp/rebase-$$.diff /tmp/rebase-$$-seed/patch.diff
r=$(tools/confirm_seed.sh /tmp/rebase-$$-seed); rc=$?
echo "$n: $r" | cut -c1-220
if [ $rc -eq 0 ]; then cp -n $d/patch.diff $d/patch.pre-rebase.diff; cp /tmp/rebase-$$.diff $d/patch.diff; echo "$r" > $d/confirm.txt; echo "$n: REBASED"; else echo "$n: rebased patch no longer confirmed (rc=$rc)"; fi
rm -rf /tmp/rebase-$$-seed /tmp/rebase-$$.diff /tmp/rebase-$$.log
