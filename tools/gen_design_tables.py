#!/usr/bin/env python3
"""Regenerates the generated sections of DESIGN.md (between <!-- BEGIN x --> / <!-- END x --> markers):
findings (from known_findings.json + /repo's fix: commits), seeded-change matrix (from seeded/*/),
obligations per property (from lean/AfkakProps/*.lean)."""
import json, os, re, subprocess, glob
V = os.path.dirname(os.path.dirname(os.path.abspath(__file__)))

def findings():
    fs = json.load(open(os.path.join(V, "known_findings.json")))["findings"]
    out = ["| Prop. | Status | Commit | Tag | What failed |", "|---|---|---|---|---|"]
    for f in sorted(fs, key=lambda f: (f["property"], f["status"])):
        out.append("| %s | %s | %s | `%s` | %s |" % (f["property"], f["status"], f.get("commit", "—"), f["tag"], f["what"].replace("|", "\\|").replace("\n", " ")))
    return "\n".join(out)

def seeds():
    out = ["| Seeded change | Property | Needs (from its meta.json) | Verdict of `./check` (quick tier) |", "|---|---|---|---|"]
    for d in sorted(glob.glob(os.path.join(V, "seeded", "*"))):
        n = os.path.basename(d)
        m = json.load(open(os.path.join(d, "meta.json")))
        vp = os.path.join(d, "verdict.txt")
        v = open(vp).read().strip() if os.path.exists(vp) else "(not run yet)"
        if "no-failing-input-found" in v: vv = "exit 1, no-failing-input-found"
        elif "VIOLATION" in v: vv = "exit 1, VIOLATION with failing input"
        elif v.startswith("rc=0"): vv = "**missed** (exit 0)"
        elif v.startswith("rc=2"): vv = "**undecided** (exit 2)"
        else: vv = v[:60]
        if m.get("retired"): vv = "retired — " + m["retired"]
        note = m.get("check_verdict")
        if note: vv += " — " + note
        needs = str(m.get("needs", "")).replace("|", "\\|").replace("\n", " ")
        out.append("| `%s` | %s | %s | %s |" % (n, m.get("property", n.split("-")[0]), needs[:260], vv))
    return "\n".join(out)

def obligations():
    out = ["| Prop. | Obligations (all proved, axioms ⊆ {propext, Classical.choice, Quot.sound}) | Open statements (full strength, not proved) |", "|---|---|---|"]
    for p in sorted(glob.glob(os.path.join(V, "lean", "AfkakProps", "C*.lean"))):
        src = open(p).read(); pid = os.path.basename(p)[:-5]
        ob = re.search(r"/- OBLIGATIONS\n(.*?)-/", src, re.S); op = re.search(r"/- OPEN_STATEMENTS\n(.*?)-/", src, re.S)
        obl = [l.strip() for l in ob.group(1).splitlines() if l.strip()] if ob else []
        opn = [l.strip() for l in op.group(1).splitlines() if l.strip()] if op else []
        out.append("| %s | %d: %s | %s |" % (pid, len(obl), ", ".join("`%s`" % o for o in obl), ", ".join("`%s`" % o for o in opn) or "—"))
    return "\n".join(out)

def claims():
    out = []
    for p in sorted(glob.glob(os.path.join(V, "harness", "claims", "C*.json"))):
        pid = os.path.basename(p)[:-5]; c = json.load(open(p))
        out.append("**%s** — *%s*\n\n%s\n\n*Assumed / trusted / partial:* %s\n" % (pid, c.get("technique", ""), c["text"], c["note"]))
    return "\n".join(out)

def main():
    p = os.path.join(V, "DESIGN.md"); s = open(p).read()
    for name, fn in (("FINDINGS", findings), ("SEEDS", seeds), ("OBLIGATIONS", obligations), ("CLAIMS", claims)):
        b, e = "<!-- BEGIN %s -->" % name, "<!-- END %s -->" % name
        if b in s:
            s = s[: s.index(b) + len(b)] + "\n" + fn() + "\n" + s[s.index(e):]
    open(p, "w").write(s)

if __name__ == "__main__":
    main()
