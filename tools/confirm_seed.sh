#!/bin/sh
# tools/confirm_seed.sh <seed-dir> : confirm a seeded change independently.
#  demo passes on clean /repo HEAD, patch applies, suite unchanged (310 passed, 1 failed), demo fails with patch.
D=$(readlink -f "$1"); S=/tmp/confirm-$$
git -C /repo worktree add --detach "$S" HEAD >/dev/null 2>&1 || exit 2
trap 'git -C /repo worktree remove --force "$S" >/dev/null 2>&1; rm -rf "$S"' EXIT
cd "$S" || exit 2
/venv/bin/python "$D/demo.py" >/tmp/confirm-$$.a 2>&1; a=$?
git apply "$D/patch.diff" || { echo "PATCH DOES NOT APPLY"; exit 2; }
suite=$(/venv/bin/python -m pytest -q -p no:cacheprovider --timeout=900 2>&1 | tail -1)
/venv/bin/python "$D/demo.py" >/tmp/confirm-$$.b 2>&1; b=$?
echo "demo-clean rc=$a ($(tail -1 /tmp/confirm-$$.a | cut -c1-80)) | suite: $suite | demo-patched rc=$b ($(tail -1 /tmp/confirm-$$.b | cut -c1-100))"
rm -f /tmp/confirm-$$.a /tmp/confirm-$$.b
[ $a -eq 0 ] && [ $b -ne 0 ]
