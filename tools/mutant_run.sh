#!/bin/sh
# tools/mutant_run.sh <patch.diff> <ID> [quick|thorough]
# Runs ./check <ID> against a scratch copy of /repo with <patch.diff> applied, inside a scratch copy
# of /verif (so that regenerated constants, evidence and replays never touch the real trees).
# VERIF_SRC=<dir> takes the framework from another copy (e.g. a settled worktree of /verif's HEAD while
# people are editing /verif).  Everything is removed afterwards.  Exit code = the check's exit code.
set -u
PATCH=$(readlink -f "$1"); ID=$2; TIER=${3:-quick}
S=/tmp/mut-$$
mkdir -p "$S"
trap 'git -C /repo worktree remove --force "$S/repo" >/dev/null 2>&1; rm -rf "$S"' EXIT
git -C /repo worktree add --detach "$S/repo" HEAD >/dev/null 2>&1 || exit 2
# carry over uncommitted changes of /repo's working tree (normally none)
git -C /repo diff HEAD | (cd "$S/repo" && git apply --allow-empty 2>/dev/null)
(cd "$S/repo" && git apply "$PATCH") || { echo "patch does not apply"; exit 2; }
# snapshot under the build lock so a half-finished lake build is never copied
SRC=${VERIF_SRC:-/verif}
flock "$SRC/lean/.build.lock" rsync -a --exclude .git --exclude .work --exclude replays "$SRC/" "$S/verif/"
cd "$S/verif" || exit 2
AFKAK_REPO="$S/repo" ./check "$ID" --tier "$TIER"
rc=$?
if [ -d replays ]; then echo "--- replay files:"; ls replays; fi
exit $rc
