#!/bin/sh
# tools/prompts/redteam.sh <ID> <round> <tag> : print the brief for a seed-writing agent (it sees only the
# property text and the names of the changes already collected for it, nothing else from /verif).
# It also creates the agent's scratch worktree /tmp/seed<round>-<tag> and output dir /tmp/seed<round>-<tag>-out.
ID=$1; ROUND=$2; TAG=$3
cd "$(dirname "$0")/../.." || exit 2
WT=/tmp/seed$ROUND-$TAG; OUT=/tmp/seed$ROUND-$TAG-out
git -C /repo worktree add --detach "$WT" HEAD >/dev/null 2>&1
mkdir -p "$OUT"
PROP=$(grep "\"id\": \"$ID\"" properties.jsonl)
HAVE=$(ls seeded | grep "^$ID-" | sed "s/^$ID-//" | tr '\n' ' ')
cat <<EOF
You are testing how well a verification effort protects one semantic property of the Python library
ciena/afkak (a Twisted-native Apache Kafka client).  Your scratch git worktree of the library is
$WT (work ONLY there; never touch /repo or /verif, and do not read anything under /verif).  Python is
/venv/bin/python (the library's dependencies are installed there; no network).  The test suite is run
from the worktree with
  cd $WT && /venv/bin/python -m pytest -q -p no:cacheprovider --timeout=900 2>&1 | tail -3
and on the unchanged tree gives "1 failed, 310 passed, 47 skipped" (the one failure,
test_consumer_stop_during_initial_proc_call, is a known artefact of the Twisted version and must stay
the only failure).

The property (one record of the properties file):

$PROP

Task: write TWO different, realistic changes to the library (under $WT/afkak, not its tests) that each
BREAK this property while the library still imports and the existing test suite gives exactly the
same result as before (310 passed, the same 1 failed).  Each change must look like something a
maintainer could plausibly commit (a refactoring, an optimisation, a "simplification", a bug fix for
something else, a new small feature) - not sabotage, no dead giveaways in comments - and must need
something SPECIFIC to manifest: a particular interleaving of replies/timers/calls, a fault (lost
connection, timeout, error code) at a particular point, a multi-step sequence of operations, an
unusual input or configuration, or two cooperating sites that each look fine alone.  Changes that
ordinary use would expose at once are not wanted.  Prefer changes in code that the property's anchors
name, but a change elsewhere in the library that breaks this property is just as good (often better).
Changes already collected for this property (do something DIFFERENT in mechanism and location):
$HAVE

For each change produce a directory $OUT/$ID-<short-kebab-name>/ containing
  patch.diff  - 'git diff' of the worktree against HEAD for this change alone (must apply to a clean
                checkout with 'git apply'); revert the worktree ('git checkout -- .') before starting
                the second change;
  demo.py     - a self-contained program (run as: cd <checkout> && /venv/bin/python <path>/demo.py, it
                must import afkak from the current directory: put  import sys, os; sys.path.insert(0, os.getcwd())
                first) that exercises the library deterministically (twisted.internet.task.Clock,
                in-memory/fake transports or mock clients as the library's own tests do; no real
                network, no sleeping) and exits 0 printing PASS on the unchanged library, and exits 1
                printing FAIL with one line saying what went wrong on the changed library.  It must
                demonstrate the PROPERTY being violated in user-visible terms (what the statement
                says), not merely that some internal differs;
  meta.json   - {"property": "$ID", "summary": "<what was changed, where, and why it looks innocent>",
                "needs": "<what is needed for the violation to manifest, and what is unaffected>",
                "ran": ["<each command you ran to confirm, with its outcome>"], "round": $ROUND}
Confirm all of it yourself before you finish: on the clean worktree demo.py exits 0; with the patch
applied the suite result is unchanged and demo.py exits 1; 'git apply --check patch.diff' works on the
clean worktree.  Leave the worktree clean (git checkout -- .) when you finish.  Your final reply: the
two directory names and one sentence each.  If you cannot find a second change that meets all
conditions, deliver one.
EOF
