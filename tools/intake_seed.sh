#!/bin/sh
# tools/intake_seed.sh <out-dir-of-a-seed-writing-agent> : confirm every change in it independently
# (tools/confirm_seed.sh) and keep the confirmed ones under seeded/<name>/ (patch.diff demo.py meta.json confirm.txt).
cd "$(dirname "$0")/.." || exit 2
for d in "$1"/*/; do
  n=$(basename "$d")
  [ -f "$d/patch.diff" ] && [ -f "$d/demo.py" ] && [ -f "$d/meta.json" ] || { echo "$n: incomplete"; continue; }
  out=$(tools/confirm_seed.sh "$d" 2>&1 | grep -v -i conda | tail -1); rc=$?
  case "$out" in *"310 passed"*"1 failed"*|*"1 failed, 310 passed"*) suite=ok;; *) suite=BAD;; esac
  if echo "$out" | grep -q "demo-clean rc=0" && ! echo "$out" | grep -q "demo-patched rc=0" && [ $suite = ok ]; then
    mkdir -p "seeded/$n"; cp "$d/patch.diff" "$d/demo.py" "$d/meta.json" "seeded/$n/"; echo "$out" > "seeded/$n/confirm.txt"
    echo "$n: CONFIRMED | $out"
  else
    echo "$n: REJECTED | $out"
  fi
done
