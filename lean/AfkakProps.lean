import AfkakProps.C18
