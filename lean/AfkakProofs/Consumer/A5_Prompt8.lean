import AfkakProofs.Consumer.A5_Prompt7
import AfkakProps.Open.C02
/-!
# C02 prompt delivery (8): every event, every reachable state, the trace-level statement `C02_prompt`
-/
namespace Afkak.Proofs.Consumer.P
open Afkak.Consumer Afkak.Monitor Afkak.Consts Afkak.Proofs.Consumer

theorem req_of_guard {s : St} {k : Nat} {kind : ReqKind}
    (h : (s.requestD == .pending k kind false || s.requestD == .pending k kind true) = true) :
    ∃ c, s.requestD = .pending k kind c := by
  simp only [Bool.or_eq_true, beq_iff_eq] at h
  rcases h with h | h
  · exact ⟨false, h⟩
  · exact ⟨true, h⟩

theorem finL {a x : St} (h : LRel False False False False a x) (hst : a.stopping = false) (hex : (pm a).expect = false) : Tp x :=
  ⟨h.1, fun _ => ⟨h.2.stop hst, h.2.exp hex⟩⟩

section
variable {cfg : Cfg}

/-- the state in which the handler of an event the monitor ignores starts -/
theorem pre_noop (e : Ev) (hno : ∀ m, C02.prStep m (.ev e) = m) {s : St} (hs : Hp0 s) :
    Hp0 { s with out := .ev e :: s.out } ∧ pm { s with out := .ev e :: s.out } = pm s := by
  have e1 : pm { s with out := .ev e :: s.out } = pm s := hno (pm s)
  refine ⟨?_, e1⟩
  constructor <;> (try rw [e1]) <;>
    first | exact hs.bad | exact hs.pk | exact hs.pkb | exact hs.parkRun | exact hs.run | exact hs.runW | exact hs.shut
          | exact hs.pend | exact hs.stp | exact hs.procRun | exact hs.blockRun | exact hs.blk | exact hs.reqRun | exact hs.req
          | exact hs.park

theorem parked_none_of_req {s : St} (hs : Hp0 s) {k : Nat} {kind : ReqKind} {c : Bool} (hreq : s.requestD = .pending k kind c) :
    s.parked = none := by
  cases hp : s.parked with
  | none => rfl
  | some r =>
    obtain ⟨k', hk'⟩ := hs.pk (by rw [hp]; rfl)
    rw [hreq] at hk'; cases hk'

/-- `start(offset)` -/
theorem start_p (off : Int) {s : St} (hs : Hp0 s) (hst : s.stopping = false) (hexp : (pm s).expect = false) :
    Tp (start cfg off { s with out := .ev (.start off) :: s.out }) := by
  unfold start
  split
  · rename_i hsd
    have hsd' : s.startD ≠ .none := by simpa using hsd
    refine ⟨by hp_fields hs, fun _ => ⟨hst, ?_⟩⟩
    simpa [pm, emit, runR_cons, C02.prStep] using hexp
  · rename_i hsd
    have hsd' : s.startD = .none := by simpa using hsd
    simp only []
    have hb : Hp0 { ({ s with out := .ev (.start off) :: s.out } : St) with startD := .pending, fetchOffset := off } := by
      hp_fields hs
    have hbx : (pm { ({ s with out := .ev (.start off) :: s.out } : St) with startD := .pending, fetchOffset := off }).expect = false := by
      simpa [pm, runR_cons, C02.prStep] using hexp
    have hstA : ({ ({ s with out := .ev (.start off) :: s.out } : St) with startD := .pending, fetchOffset := off } : St).stopping = false := hst
    have hrunA : ({ ({ s with out := .ev (.start off) :: s.out } : St) with startD := .pending, fetchOffset := off } : St).startD ≠ .none := by simp
    generalize ({ ({ s with out := .ev (.start off) :: s.out } : St) with startD := .pending, fetchOffset := off } : St) = A at *
    have d := doFetch_p cfg False False False False (HRel.refl hb) hrunA
    generalize doFetch cfg A = x at *
    split
    · refine fin (a := A) ?_ hstA hbx
      pleaf d
    · exact fin d hstA hbx

theorem ev_start (off : Int) {s : St} (ht : Tp s) (hcr : s.crashed = false) (hfr : s.frame = none)
    (hpb : s.proc.isSome = true → s.msgBlock = true) (hrr : ∀ due, s.retryCall = .pending due → s.startD ≠ .none) {s' : St}
    (h : stepCore cfg { s with out := .ev (.start off) :: s.out } (.start off) = some s') : Tp s' := by
  have hin := opsN_p cfg cfg.depth
  have ht0 := ht
  obtain ⟨hs, htop⟩ := ht
  obtain ⟨hst, hexp⟩ := htop hcr
  simp only [stepCore, Option.some.injEq] at h; subst h
  exact start_p off hs hst hexp
theorem ev_stop  {s : St} (ht : Tp s) (hcr : s.crashed = false) (hfr : s.frame = none)
    (hpb : s.proc.isSome = true → s.msgBlock = true) (hrr : ∀ due, s.retryCall = .pending due → s.startD ≠ .none) {s' : St}
    (h : stepCore cfg { s with out := .ev (.stop) :: s.out } (.stop) = some s') : Tp s' := by
  have hin := opsN_p cfg cfg.depth
  have ht0 := ht
  obtain ⟨hs, htop⟩ := ht
  obtain ⟨hst, hexp⟩ := htop hcr
  obtain ⟨ha, hpm⟩ := pre_noop .stop (fun _ => rfl) hs
  simp only [stepCore, Option.some.injEq] at h; subst h
  exact fin (stop_p hin _ ha) hst (by rw [hpm]; exact hexp)
theorem ev_shutdown  {s : St} (ht : Tp s) (hcr : s.crashed = false) (hfr : s.frame = none)
    (hpb : s.proc.isSome = true → s.msgBlock = true) (hrr : ∀ due, s.retryCall = .pending due → s.startD ≠ .none) {s' : St}
    (h : stepCore cfg { s with out := .ev (.shutdown) :: s.out } (.shutdown) = some s') : Tp s' := by
  have hin := opsN_p cfg cfg.depth
  have ht0 := ht
  obtain ⟨hs, htop⟩ := ht
  obtain ⟨hst, hexp⟩ := htop hcr
  simp only [stepCore, Option.some.injEq] at h; subst h
  exact fin (shutdown_p hin (.ev .shutdown) (Or.inl rfl) hs) hst hexp
theorem ev_commit  {s : St} (ht : Tp s) (hcr : s.crashed = false) (hfr : s.frame = none)
    (hpb : s.proc.isSome = true → s.msgBlock = true) (hrr : ∀ due, s.retryCall = .pending due → s.startD ≠ .none) {s' : St}
    (h : stepCore cfg { s with out := .ev (.commit) :: s.out } (.commit) = some s') : Tp s' := by
  have hin := opsN_p cfg cfg.depth
  have ht0 := ht
  obtain ⟨hs, htop⟩ := ht
  obtain ⟨hst, hexp⟩ := htop hcr
  obtain ⟨ha, hpm⟩ := pre_noop .commit (fun _ => rfl) hs
  simp only [stepCore, Option.some.injEq] at h; subst h
  exact fin (commitUser_p cfg False False False False _ ha) hst (by rw [hpm]; exact hexp)
theorem ev_fetchOk (k : Nat) (r : Reply) {s : St} (ht : Tp s) (hcr : s.crashed = false) (hfr : s.frame = none)
    (hpb : s.proc.isSome = true → s.msgBlock = true) (hrr : ∀ due, s.retryCall = .pending due → s.startD ≠ .none) {s' : St}
    (h : stepCore cfg { s with out := .ev (.fetchOk k r) :: s.out } (.fetchOk k r) = some s') : Tp s' := by
  have hin := opsN_p cfg cfg.depth
  have ht0 := ht
  obtain ⟨hs, htop⟩ := ht
  obtain ⟨hst, hexp⟩ := htop hcr
  simp only [stepCore] at h
  split at h
  · rename_i hg
    simp only [Option.some.injEq] at h; subst h
    obtain ⟨c, hreq⟩ := req_of_guard hg
    exact fetchOk_p hin k r c ht0 hcr hfr hpb hreq
  · cases h
theorem ev_fetchErr (k : Nat) (ek : ErrKind) (tag : Nat) {s : St} (ht : Tp s) (hcr : s.crashed = false) (hfr : s.frame = none)
    (hpb : s.proc.isSome = true → s.msgBlock = true) (hrr : ∀ due, s.retryCall = .pending due → s.startD ≠ .none) {s' : St}
    (h : stepCore cfg { s with out := .ev (.fetchErr k ek tag) :: s.out } (.fetchErr k ek tag) = some s') : Tp s' := by
  have hin := opsN_p cfg cfg.depth
  have ht0 := ht
  obtain ⟨hs, htop⟩ := ht
  obtain ⟨hst, hexp⟩ := htop hcr
  obtain ⟨ha, hpm⟩ := pre_noop (.fetchErr k ek tag) (fun _ => rfl) hs
  simp only [stepCore] at h
  split at h
  · rename_i hg
    simp only [Option.some.injEq] at h; subst h
    obtain ⟨c, hreq⟩ := req_of_guard hg
    exact fin (handleFetchError_p _ (HRel.refl ha) (parked_none_of_req ha hreq)) hst (by rw [hpm]; exact hexp)
  · cases h
theorem ev_offsetOk (k : Nat) (off : Int) {s : St} (ht : Tp s) (hcr : s.crashed = false) (hfr : s.frame = none)
    (hpb : s.proc.isSome = true → s.msgBlock = true) (hrr : ∀ due, s.retryCall = .pending due → s.startD ≠ .none) {s' : St}
    (h : stepCore cfg { s with out := .ev (.offsetOk k off) :: s.out } (.offsetOk k off) = some s') : Tp s' := by
  have hin := opsN_p cfg cfg.depth
  have ht0 := ht
  obtain ⟨hs, htop⟩ := ht
  obtain ⟨hst, hexp⟩ := htop hcr
  obtain ⟨ha, hpm⟩ := pre_noop (.offsetOk k off) (fun _ => rfl) hs
  simp only [stepCore] at h
  split at h
  · rename_i hg
    simp only [Option.some.injEq] at h; subst h
    obtain ⟨c, hreq⟩ := req_of_guard hg
    exact fin (handleOffsetResponse_p _ _ (HRel.refl ha) (parked_none_of_req ha hreq)) hst (by rw [hpm]; exact hexp)
  · cases h
theorem ev_offsetErr (k : Nat) (ek : ErrKind) (tag : Nat) {s : St} (ht : Tp s) (hcr : s.crashed = false) (hfr : s.frame = none)
    (hpb : s.proc.isSome = true → s.msgBlock = true) (hrr : ∀ due, s.retryCall = .pending due → s.startD ≠ .none) {s' : St}
    (h : stepCore cfg { s with out := .ev (.offsetErr k ek tag) :: s.out } (.offsetErr k ek tag) = some s') : Tp s' := by
  have hin := opsN_p cfg cfg.depth
  have ht0 := ht
  obtain ⟨hs, htop⟩ := ht
  obtain ⟨hst, hexp⟩ := htop hcr
  obtain ⟨ha, hpm⟩ := pre_noop (.offsetErr k ek tag) (fun _ => rfl) hs
  simp only [stepCore] at h
  split at h
  · rename_i hg
    simp only [Option.some.injEq] at h; subst h
    obtain ⟨c, hreq⟩ := req_of_guard hg
    exact fin (handleOffsetError_p _ (HRel.refl ha) (parked_none_of_req ha hreq)) hst (by rw [hpm]; exact hexp)
  · cases h
theorem ev_offsetFetchOk (k : Nat) (off : Int) {s : St} (ht : Tp s) (hcr : s.crashed = false) (hfr : s.frame = none)
    (hpb : s.proc.isSome = true → s.msgBlock = true) (hrr : ∀ due, s.retryCall = .pending due → s.startD ≠ .none) {s' : St}
    (h : stepCore cfg { s with out := .ev (.offsetFetchOk k off) :: s.out } (.offsetFetchOk k off) = some s') : Tp s' := by
  have hin := opsN_p cfg cfg.depth
  have ht0 := ht
  obtain ⟨hs, htop⟩ := ht
  obtain ⟨hst, hexp⟩ := htop hcr
  obtain ⟨ha, hpm⟩ := pre_noop (.offsetFetchOk k off) (fun _ => rfl) hs
  simp only [stepCore] at h
  split at h
  · rename_i hg
    simp only [Option.some.injEq] at h; subst h
    obtain ⟨c, hreq⟩ := req_of_guard hg
    exact fin (handleOffsetResponse_p _ _ (HRel.refl ha) (parked_none_of_req ha hreq)) hst (by rw [hpm]; exact hexp)
  · cases h
theorem ev_offsetFetchErr (k : Nat) (ek : ErrKind) (tag : Nat) {s : St} (ht : Tp s) (hcr : s.crashed = false) (hfr : s.frame = none)
    (hpb : s.proc.isSome = true → s.msgBlock = true) (hrr : ∀ due, s.retryCall = .pending due → s.startD ≠ .none) {s' : St}
    (h : stepCore cfg { s with out := .ev (.offsetFetchErr k ek tag) :: s.out } (.offsetFetchErr k ek tag) = some s') : Tp s' := by
  have hin := opsN_p cfg cfg.depth
  have ht0 := ht
  obtain ⟨hs, htop⟩ := ht
  obtain ⟨hst, hexp⟩ := htop hcr
  obtain ⟨ha, hpm⟩ := pre_noop (.offsetFetchErr k ek tag) (fun _ => rfl) hs
  simp only [stepCore] at h
  split at h
  · rename_i hg
    simp only [Option.some.injEq] at h; subst h
    obtain ⟨c, hreq⟩ := req_of_guard hg
    exact fin (handleOffsetError_p _ (HRel.refl ha) (parked_none_of_req ha hreq)) hst (by rw [hpm]; exact hexp)
  · cases h
theorem ev_commitOk (k : Nat) {s : St} (ht : Tp s) (hcr : s.crashed = false) (hfr : s.frame = none)
    (hpb : s.proc.isSome = true → s.msgBlock = true) (hrr : ∀ due, s.retryCall = .pending due → s.startD ≠ .none) {s' : St}
    (h : stepCore cfg { s with out := .ev (.commitOk k) :: s.out } (.commitOk k) = some s') : Tp s' := by
  have hin := opsN_p cfg cfg.depth
  have ht0 := ht
  obtain ⟨hs, htop⟩ := ht
  obtain ⟨hst, hexp⟩ := htop hcr
  simp only [stepCore] at h
  split at h
  · rename_i r hr
    split at h
    · simp only [Option.some.injEq] at h; subst h
      have ha : Hp0 { s with out := .ev (.commitOk k) :: s.out, commitReq := none, lastCommitted := some r.off } := by hp_fields hs
      exact fin (deliver_p hin _ _ ha) hst hexp
    · cases h
  · cases h
theorem ev_commitErr (k : Nat) (ek : ErrKind) (tag : Nat) {s : St} (ht : Tp s) (hcr : s.crashed = false) (hfr : s.frame = none)
    (hpb : s.proc.isSome = true → s.msgBlock = true) (hrr : ∀ due, s.retryCall = .pending due → s.startD ≠ .none) {s' : St}
    (h : stepCore cfg { s with out := .ev (.commitErr k ek tag) :: s.out } (.commitErr k ek tag) = some s') : Tp s' := by
  have hin := opsN_p cfg cfg.depth
  have ht0 := ht
  obtain ⟨hs, htop⟩ := ht
  obtain ⟨hst, hexp⟩ := htop hcr
  simp only [stepCore] at h
  split at h
  · rename_i r hr
    split at h
    · simp only [Option.some.injEq] at h; subst h
      have ha : Hp0 { s with out := .ev (.commitErr k ek tag) :: s.out, commitReq := none } := by hp_fields hs
      exact fin (handleCommitError_p hin _ _ _ _ ha) hst hexp
    · cases h
  · cases h
theorem ev_procOk  {s : St} (ht : Tp s) (hcr : s.crashed = false) (hfr : s.frame = none)
    (hpb : s.proc.isSome = true → s.msgBlock = true) (hrr : ∀ due, s.retryCall = .pending due → s.startD ≠ .none) {s' : St}
    (h : stepCore cfg { s with out := .ev (.procOk) :: s.out } (.procOk) = some s') : Tp s' := by
  have hin := opsN_p cfg cfg.depth
  have ht0 := ht
  obtain ⟨hs, htop⟩ := ht
  obtain ⟨hst, hexp⟩ := htop hcr
  simp only [stepCore] at h
  split at h
  · rename_i g hp
    simp only [Option.some.injEq] at h; subst h
    have hp' : s.proc = some g := hp
    exact procOk_p hin g hs hp' hcr hst (hpb (by rw [hp']; rfl)) hexp
  · cases h
theorem ev_procErr (ek : ErrKind) (tag : Nat) {s : St} (ht : Tp s) (hcr : s.crashed = false) (hfr : s.frame = none)
    (hpb : s.proc.isSome = true → s.msgBlock = true) (hrr : ∀ due, s.retryCall = .pending due → s.startD ≠ .none) {s' : St}
    (h : stepCore cfg { s with out := .ev (.procErr ek tag) :: s.out } (.procErr ek tag) = some s') : Tp s' := by
  have hin := opsN_p cfg cfg.depth
  have ht0 := ht
  obtain ⟨hs, htop⟩ := ht
  obtain ⟨hst, hexp⟩ := htop hcr
  simp only [stepCore] at h
  split at h
  · rename_i g hp
    simp only [Option.some.injEq] at h; subst h
    have hp' : s.proc = some g := hp
    exact procErr_p hin g ek tag hs hp' hcr hst hexp
  · cases h
theorem ev_retryFire  {s : St} (ht : Tp s) (hcr : s.crashed = false) (hfr : s.frame = none)
    (hpb : s.proc.isSome = true → s.msgBlock = true) (hrr : ∀ due, s.retryCall = .pending due → s.startD ≠ .none) {s' : St}
    (h : stepCore cfg { s with out := .ev (.retryFire) :: s.out } (.retryFire) = some s') : Tp s' := by
  have hin := opsN_p cfg cfg.depth
  have ht0 := ht
  obtain ⟨hs, htop⟩ := ht
  obtain ⟨hst, hexp⟩ := htop hcr
  simp only [stepCore] at h
  split at h
  · rename_i due hdue
    split at h
    · simp only [Option.some.injEq] at h; subst h
      have hrun := hrr due hdue
      have ha : Hp0 { s with out := .ev .retryFire :: s.out, retryCall := .dead } := by hp_fields hs
      exact fin (doFetch_p cfg False False False False (HRel.refl ha) hrun) hst hexp
    · cases h
  · cases h
theorem ev_commitRetryFire  {s : St} (ht : Tp s) (hcr : s.crashed = false) (hfr : s.frame = none)
    (hpb : s.proc.isSome = true → s.msgBlock = true) (hrr : ∀ due, s.retryCall = .pending due → s.startD ≠ .none) {s' : St}
    (h : stepCore cfg { s with out := .ev (.commitRetryFire) :: s.out } (.commitRetryFire) = some s') : Tp s' := by
  have hin := opsN_p cfg cfg.depth
  have ht0 := ht
  obtain ⟨hs, htop⟩ := ht
  obtain ⟨hst, hexp⟩ := htop hcr
  simp only [stepCore] at h
  split at h
  · split at h
    · simp only [Option.some.injEq] at h; subst h
      have ha : Hp0 { s with out := .ev .commitRetryFire :: s.out, commitCall := .dead } := by hp_fields hs
      exact fin (sendCommitRequest_p cfg False False False False _ _ _ ha) hst hexp
    · cases h
  · cases h
theorem tick_set_p {a x : St} (h : HRel0 a x) (l' : Looper) (d : Rat) :
    HRel0 a { emit (.setTimer .loop d) x with looper := some { l' with due := some (x.now + d) } } := by
  pleaf h

theorem ev_autoCommitTick  {s : St} (ht : Tp s) (hcr : s.crashed = false) (hfr : s.frame = none)
    (hpb : s.proc.isSome = true → s.msgBlock = true) (hrr : ∀ due, s.retryCall = .pending due → s.startD ≠ .none) {s' : St}
    (h : stepCore cfg { s with out := .ev (.autoCommitTick) :: s.out } (.autoCommitTick) = some s') : Tp s' := by
  have hin := opsN_p cfg cfg.depth
  have ht0 := ht
  obtain ⟨hs, htop⟩ := ht
  obtain ⟨hst, hexp⟩ := htop hcr
  simp only [stepCore] at h
  cases hl : s.looper with
  | none => simp [hl] at h
  | some l =>
    cases hd : l.due with
    | none => simp [hl, hd] at h
    | some due =>
      simp only [hl, hd] at h
      split at h
      · have ha : Hp0 { s with out := .ev .autoCommitTick :: s.out, looper := some { l with due := none } } := by hp_fields hs
        have hq1 := (autoCommit_p cfg False False False False false) _ ha
        generalize autoCommit cfg false { s with out := .ev .autoCommitTick :: s.out, looper := some { l with due := none } } = x at h hq1
        split at h
        · simp only [Option.some.injEq] at h; subst h
          exact fin (tick_set_p hq1 _ _) hst hexp
        · simp only [Option.some.injEq] at h; subst h
          exact fin hq1 hst hexp
      · cases h
theorem ev_advance (dt : Rat) {s : St} (ht : Tp s) (hcr : s.crashed = false) (hfr : s.frame = none)
    (hpb : s.proc.isSome = true → s.msgBlock = true) (hrr : ∀ due, s.retryCall = .pending due → s.startD ≠ .none) {s' : St}
    (h : stepCore cfg { s with out := .ev (.advance dt) :: s.out } (.advance dt) = some s') : Tp s' := by
  have hin := opsN_p cfg cfg.depth
  have ht0 := ht
  obtain ⟨hs, htop⟩ := ht
  obtain ⟨hst, hexp⟩ := htop hcr
  simp only [stepCore] at h
  split at h
  · cases h
  · simp only [Option.some.injEq] at h; subst h
    exact ⟨by hp_fields hs, fun _ => ⟨hst, hexp⟩⟩
theorem ev_env (rq cm : Option (ErrKind × Nat)) {s : St} (ht : Tp s) (hcr : s.crashed = false) (hfr : s.frame = none)
    (hpb : s.proc.isSome = true → s.msgBlock = true) (hrr : ∀ due, s.retryCall = .pending due → s.startD ≠ .none) {s' : St}
    (h : stepCore cfg { s with out := .ev (.env rq cm) :: s.out } (.env rq cm) = some s') : Tp s' := by
  have hin := opsN_p cfg cfg.depth
  have ht0 := ht
  obtain ⟨hs, htop⟩ := ht
  obtain ⟨hst, hexp⟩ := htop hcr
  simp only [stepCore, Option.some.injEq] at h; subst h
  exact ⟨by hp_fields hs, fun _ => ⟨hst, hexp⟩⟩
/-- every enabled event keeps what is claimed between events -/
theorem stepCore_p (e : Ev) {s : St} (ht : Tp s) (hcr : s.crashed = false) (hfr : s.frame = none)
    (hpb : s.proc.isSome = true → s.msgBlock = true) (hrr : ∀ due, s.retryCall = .pending due → s.startD ≠ .none) {s' : St}
    (h : stepCore cfg { s with out := .ev e :: s.out } e = some s') : Tp s' := by
  cases e with
  | start off => exact ev_start off ht hcr hfr hpb hrr h
  | stop => exact ev_stop ht hcr hfr hpb hrr h
  | shutdown => exact ev_shutdown ht hcr hfr hpb hrr h
  | commit => exact ev_commit ht hcr hfr hpb hrr h
  | fetchOk k r => exact ev_fetchOk k r ht hcr hfr hpb hrr h
  | fetchErr k ek tag => exact ev_fetchErr k ek tag ht hcr hfr hpb hrr h
  | offsetOk k off => exact ev_offsetOk k off ht hcr hfr hpb hrr h
  | offsetErr k ek tag => exact ev_offsetErr k ek tag ht hcr hfr hpb hrr h
  | offsetFetchOk k off => exact ev_offsetFetchOk k off ht hcr hfr hpb hrr h
  | offsetFetchErr k ek tag => exact ev_offsetFetchErr k ek tag ht hcr hfr hpb hrr h
  | commitOk k => exact ev_commitOk k ht hcr hfr hpb hrr h
  | commitErr k ek tag => exact ev_commitErr k ek tag ht hcr hfr hpb hrr h
  | procOk => exact ev_procOk ht hcr hfr hpb hrr h
  | procErr ek tag => exact ev_procErr ek tag ht hcr hfr hpb hrr h
  | retryFire => exact ev_retryFire ht hcr hfr hpb hrr h
  | commitRetryFire => exact ev_commitRetryFire ht hcr hfr hpb hrr h
  | autoCommitTick => exact ev_autoCommitTick ht hcr hfr hpb hrr h
  | advance dt => exact ev_advance dt ht hcr hfr hpb hrr h
  | env rq cm => exact ev_env rq cm ht hcr hfr hpb hrr h

theorem step_p (e : Ev) {s : St} (ht : Tp s) (hfr : s.frame = none)
    (hpb : s.proc.isSome = true → s.msgBlock = true) (hrr : ∀ due, s.retryCall = .pending due → s.startD ≠ .none) :
    Tp (step cfg s e) := by
  have rej : Tp { s with out := .rej e :: s.out } := by
    obtain ⟨hs, htop⟩ := ht
    refine ⟨by hp_fields hs, fun hc => ?_⟩
    exact htop hc
  unfold step
  split
  · exact rej
  · rename_i hcr
    have hcr' : s.crashed = false := by simpa using hcr
    split
    · exact rej
    · rename_i s' h
      have hq := stepCore_p e ht hcr' hfr hpb hrr h
      split
      · exact hq
      · rename_i hc
        have hc' : s'.crashed = false := by simpa using hc
        obtain ⟨hs', htop'⟩ := hq
        obtain ⟨a, b⟩ := htop' hc'
        unfold probe
        refine ⟨by hp_fields hs', fun _ => ⟨a, ?_⟩⟩
        simp only [pm, emit, runR_cons, C02.prStep] at b ⊢
        simp [b]

theorem init_p (cfg : Cfg) (script : List PEntry) : Tp (init cfg script) := by
  refine ⟨?_, fun _ => ⟨rfl, rfl⟩⟩
  constructor <;> simp [init, pm]

/-- every reachable state -/
theorem run_tp (cfg : Cfg) (script : List PEntry) : ∀ (evs : List Ev), Tp (run cfg script evs) := by
  intro evs
  induction evs using List.reverseRecOn with
  | nil => exact init_p cfg script
  | append_singleton es e ih =>
    have : run cfg script (es ++ [e]) = step cfg (run cfg script es) e := by
      unfold run; rw [List.foldl_append]; rfl
    rw [this]
    refine step_p e ih (run_top0 cfg script es).2.1 (run_g1 cfg script es).procBlock (fun due hd => ?_)
    exact (run_sf cfg script es).retryRun (by rw [hd]; rfl)

end

/-- the prompt-delivery monitor never fails on a model trace -/
theorem run_p (cfg : Cfg) (script : List PEntry) (evs : List Ev) :
    (runR C02.prStep {} (run cfg script evs).out).bad = false :=
  (run_tp cfg script evs).1.bad

/-- C02: every fetched message is handed to the processor promptly -/
theorem c02_prompt : Afkak.Props.Open.C02.C02_prompt := by
  intro cfg script evs
  exact accepts_trace C02.prStep {} cfg script evs (run_p cfg script evs)

end Afkak.Proofs.Consumer.P
