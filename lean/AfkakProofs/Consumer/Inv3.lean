import AfkakProofs.Consumer.InvC
/-!
# `G` is preserved by message processing, `stop()`, `shutdown()`, and by every event
-/
namespace Afkak.Proofs.Consumer
open Afkak.Consumer Afkak.Monitor Afkak.Consts

theorem lastOff_getLast : ∀ (l : List Msg) (m : Msg), l.getLast? = some m → lastOff l = some m.off
  | [], _, h => by simp at h
  | [a], m, h => by simp at h; simp [lastOff, h]
  | a :: b :: l, m, h => by
    have : (b :: l).getLast? = some m := by simpa [List.getLast?_cons_cons] using h
    simpa [lastOff] using lastOff_getLast (b :: l) m this

/-- entering the processor call -/
theorem procEnter_g {cfg : Cfg} {s : St} (hs : G cfg s) (hp : s.proc = none) (hf : s.frame = none)
    (hb : s.msgBlock = true ∨ s.stopping = true ∨ s.startD = .none)
    (blk rest' : List Msg) (m : Msg) (hl : blk.getLast? = some m) :
    G cfg (procEnter blk rest' m.off s) := by
  have hlo := lastOff_getLast _ _ hl
  unfold procEnter
  gleaf hs

theorem procLeave_keeps (res : PRes) (rest' : List Msg) (last : Int) (s : St) :
    (procLeave res rest' last s).stopping = s.stopping ∧ (procLeave res rest' last s).msgBlock = s.msgBlock ∧
      (procLeave res rest' last s).startD = s.startD := by
  unfold procLeave emit; grind

/-- leaving the processor call -/
theorem procLeave_good {cfg : Cfg} {s0 s : St} (hs : G cfg s) (rest' : List Msg) (last : Int)
    (hf : s.frame = some { rest := rest', last := last }) (hf0 : s0.frame = none) (res : PRes) :
    Good cfg s0 (procLeave res rest' last s) ∧
      ((procLeave res rest' last s).proc.isSome → res = .defer) := by
  have hp : s.proc = none := hs.g1.frameProc (by simp [hf])
  have hb := hs.g1.frameBlock (by simp [hf])
  unfold procLeave
  cases res with
  | ok =>
    refine ⟨⟨?_, by simp [hf0]⟩, ?_⟩
    · gleaf hs
    · simp [emit, hp]
  | err k t =>
    refine ⟨⟨?_, by simp [hf0]⟩, ?_⟩
    · gleaf hs
    · simp [emit, hp]
  | defer =>
    simp only []
    split
    · refine ⟨⟨?_, by simp [hf0]⟩, ?_⟩
      · gleaf hs
      · simp
    · rename_i hc
      refine ⟨⟨?_, by simp [hf0]⟩, ?_⟩
      · gleaf hs
      · simp

section
variable {cfg : Cfg} {inner : Ops} (hin : OpsPres cfg inner) (hc : OpsPN Calm inner)
include hin

theorem procActs_good (acts : List Act) {s0 s : St} (h : Good cfg s0 s) : Good cfg s0 (procActs inner acts s) :=
  acts_good hin acts h

/-- What the processing loop needs on entry (no generator suspended or executing). -/
def LoopPre (s : St) : Prop :=
  s.proc = none ∧ s.frame = none ∧ (s.msgBlock = true ∨ s.stopping = true ∨ s.startD = .none)

/-- one iteration, given that the rest of the loop is fine -/
theorem procBody_good (k : St → St × Bool) {s0 : St}
    (hk : ∀ s', Good cfg s0 s' → LoopPre s' → Good cfg s0 (k s').1)
    (blk rest' : List Msg) (m : Msg) (hl : blk.getLast? = some m) (e : PEntry)
    {s : St} (h : Good cfg s0 s) (hpre : LoopPre s) :
    Good cfg s0 (procBody cfg inner k blk rest' m.off e s).1 := by
  obtain ⟨hp, hf, hb⟩ := hpre
  have hfr0 : s0.frame = none := by rw [← h.2]; exact hf
  have g1 := procEnter_g h.1 hp hf hb blk rest' m hl
  have g2 := procActs_good hin e.acts (Good.refl g1)
  have f2 : (procActs inner e.acts (procEnter blk rest' m.off s)).frame = some { rest := rest', last := m.off } := g2.2
  obtain ⟨g3, p3⟩ := procLeave_good g2.1 _ _ f2 hfr0 e.res
  obtain ⟨st3, mb3, sd3⟩ := procLeave_keeps e.res rest' m.off (procActs inner e.acts (procEnter blk rest' m.off s))
  have fb2 := g2.1.g1.frameBlock (by rw [f2]; rfl)
  unfold procBody
  simp only []
  generalize hs3 : procLeave e.res rest' m.off (procActs inner e.acts (procEnter blk rest' m.off s)) = s3 at *
  generalize hs2 : procActs inner e.acts (procEnter blk rest' m.off s) = s2 at *
  cases hres : e.res with
  | ok =>
    simp only []
    have p3' : s3.proc = none := by
      cases hpp : s3.proc with
      | none => rfl
      | some g => exact absurd (p3 (by rw [hpp]; rfl)) (by rw [hres]; simp)
    have g4 := (autoCommit_pres cfg true).step g3
    obtain ⟨k1, k2, k3, k4⟩ := autoCommit_keeps cfg true s3
    split
    · exact g4
    · rename_i hcont
      refine hk _ g4 ⟨k1.trans p3', by rw [g4.2]; exact hfr0, ?_⟩
      left
      grind
  | err kd t =>
    simp only []
    have p3' : s3.proc = none := by
      cases hpp : s3.proc with
      | none => rfl
      | some g => exact absurd (p3 (by rw [hpp]; rfl)) (by rw [hres]; simp)
    have g4 := (handleProcessorError_pres cfg (.ext kd t)).step g3
    obtain ⟨k1, k2, k3, k4⟩ := handleProcessorError_keeps (.ext kd t) s3
    split
    · exact g4
    · split
      · exact g4
      · rename_i hcont _
        refine hk _ g4 ⟨k1.trans p3', by rw [g4.2]; exact hfr0, ?_⟩
        left
        grind
  | defer =>
    simp only []
    split
    · exact g3
    · exact (handleProcessorError_pres cfg _).step g3

/-- The processing loop, entered with no generator suspended or executing. -/
theorem procLoop_good : ∀ (fuel : Nat) (rest : List Msg) {s0 s : St}, Good cfg s0 s → LoopPre s →
    Good cfg s0 (procLoop cfg inner fuel rest s).1 := by
  intro fuel
  induction fuel with
  | zero => intro rest s0 s h _; simpa [procLoop] using h
  | succ n ih =>
    intro rest s0 s h hpre
    unfold procLoop
    split
    · exact h
    · split
      · exact h
      · rename_i lastMsg hl
        exact procBody_good hin _ (fun s' h' p' => ih _ h' p') _ _ lastMsg hl _ h hpre

/-- `finally: … _process_messages(messages)` with no block in progress -/
theorem deliverBlock_good (msgs : List Msg) {s0 s : St} (h : Good cfg s0 s) (hp : s.proc = none) (hf : s.frame = none) :
    Good cfg s0 (deliverBlock cfg inner msgs s) := by
  have hf0 : s0.frame = none := by rw [← h.2]; exact hf
  unfold deliverBlock
  split
  · exact h
  · simp only []
    have h1 : Good cfg s0 { s with msgBlock := true } := by leaf h
    have h2 := procLoop_good hin (msgs.length + 1) msgs h1 ⟨hp, hf, Or.inl rfl⟩
    generalize (procLoop cfg inner (msgs.length + 1) msgs { s with msgBlock := true }) = res at *
    obtain ⟨s2, done⟩ := res
    simp only [] at *
    split
    · exact h2
    · rename_i hc
      have hp2 : s2.proc = none := by
        cases hpp : s2.proc with
        | none => rfl
        | some g => simp [hpp] at hc
      unfold finishSimple
      split
      · leaf h2
      · exact h2

include hc in
/-- `_handle_fetch_response` after `self._request_d = None` -/
theorem fetchTail_good (via : Bool) (r : Reply) {s0 s : St} (h : Good cfg s0 s) (hp : s.proc = none) (hf : s.frame = none)
    (hq : activeReq s.requestD = none) (hpk : s.parked = none) : Good cfg s0 (fetchTail cfg inner via r s) := by
  unfold fetchTail
  simp only []
  have h1 : Good cfg s0 { s with fetchOffset := (extract s.fetchOffset r.msgs).2 } := by leaf h
  split
  · exact (retryFetch_pres cfg _).step (deliverBlock_good hin _ h1 hp hf)
  · split
    · exact (retryFetch_pres cfg _).step (deliverBlock_good hin _ (by leaf h) hp hf)
    · have h2 := (startErrback_pres cfg .tooSmall).step h1
      obtain ⟨k1, _, _, _⟩ := startErrback_keeps .tooSmall { s with fetchOffset := (extract s.fetchOffset r.msgs).2 }
      have h3 := deliverBlock_good hin (extract s.fetchOffset r.msgs).1 h2 (k1.trans hp) (by rw [h2.2, ← h.2]; exact hf)
      split
      · have hk := startErrback_keeps .tooSmall { s with fetchOffset := (extract s.fetchOffset r.msgs).2 }
        have hcm := deliverBlock_calm (cfg := cfg) hc (extract s.fetchOffset r.msgs).1 _
          (calm_ok.upd (s := { s with fetchOffset := (extract s.fetchOffset r.msgs).2 }) ⟨hp, hq, hpk⟩ hk)
        exact handleFetchError_good cfg _ h3 hcm.1 hcm.2
      · exact h3
  · have h3 := deliverBlock_good hin (extract s.fetchOffset r.msgs).1 h1 hp hf
    split
    · exact h3
    · have hcm := deliverBlock_calm (cfg := cfg) hc (extract s.fetchOffset r.msgs).1
        { s with fetchOffset := (extract s.fetchOffset r.msgs).2 } ⟨hp, hq, hpk⟩
      exact handleFetchError_good cfg _ h3 hcm.1 hcm.2

include hc in
/-- `_handle_fetch_response` for the event `fetchOk k r` (top level: the processor is not executing) -/
theorem handleFetchResponse_good (k : Nat) (r : Reply) (c : Bool) {s : St} (hs : G cfg s) (hf : s.frame = none)
    (hlc : (runR C03.ackStep {} s.out).lc = s.lastCommitted) (hreq : s.requestD = .pending k .fetch c) :
    Good cfg s (handleFetchResponse cfg inner k r { s with out := .ev (.fetchOk k r) :: s.out }) := by
  have hx := Good.refl hs
  have hact : (runR C02.sfStep {} s.out).req = (if c then none else some k) := by
    rw [hs.sf.sfReq, hreq]; cases c <;> rfl
  unfold handleFetchResponse
  split
  · leaf hx
  · simp only []
    split
    · leaf hx
    · rename_i hb
      have hp : s.proc = none := by
        cases hpp : s.proc with
        | none => rfl
        | some g => exact absurd (hs.g1.procBlock (by rw [hpp]; rfl)) hb
      have hpk : s.parked = none := by
        cases hpp : s.parked with
        | none => rfl
        | some r' => exact absurd (hs.sf.parkedBlock (by rw [hpp]; rfl)) hb
      unfold fetchBody
      exact fetchTail_good hin hc false r (by leaf hx) hp hf rfl hpk

include hc in
/-- the end of `_process_messages` when resumed -/
theorem finishFull_good {s0 s : St} (h : Good cfg s0 s) (hp : s.proc = none) (hf : s.frame = none) :
    Good cfg s0 (finishFull cfg inner s) := by
  unfold finishFull
  split
  · have hf0 : s0.frame = none := by rw [← h.2]; exact hf
    simp only []
    split
    · rename_i r hr
      obtain ⟨kp, hpk⟩ := h.1.sf.parkedReq (by rw [hr]; rfl)
      split
      · leaf h
      · unfold fetchBody
        exact fetchTail_good hin hc true _ (by leaf h) hp hf rfl rfl
    · leaf h
  · exact h

/-- The processor's Deferred fires (`x` = the trace item that says so: the event, or `procCancel`). -/
theorem procFired_good (g : Gen) (r : Option Fail) (x : Item) {s : St} (hs : G cfg s) (hp : s.proc = some g)
    (hb : s.msgBlock = true ∨ s.stopping = true)
    (hlc : x = .ob .procCancel ∨ (runR C03.ackStep {} s.out).lc = s.lastCommitted)
    (hx : (r = none ∧ x = .ev .procOk) ∨ (r.isSome ∧ ((∃ k t, x = .ev (.procErr k t)) ∨ x = .ob .procCancel))) :
    Good cfg s (procFired cfg g r { s with out := x :: s.out }) ∧
      (procFired cfg g r { s with out := x :: s.out }).proc = none ∧
      ((procFired cfg g r { s with out := x :: s.out }).msgBlock = true ∨
        (procFired cfg g r { s with out := x :: s.out }).stopping = true) := by
  have h0 := Good.refl hs
  unfold procFired
  cases r with
  | none =>
    obtain ⟨-, rfl⟩ | ⟨h, -⟩ := hx
    · simp only []
      have hlc' : (runR C03.ackStep {} s.out).lc = s.lastCommitted := by
        rcases hlc with h | h
        · cases h
        · exact h
      have h1 : Good cfg s { ({ s with out := Item.ev Ev.procOk :: s.out } : St) with proc := none, lastProcessed := some g.last } := by leaf h0
      obtain ⟨k1, k2, k3, _⟩ := autoCommit_keeps cfg true { ({ s with out := Item.ev Ev.procOk :: s.out } : St) with proc := none, lastProcessed := some g.last }
      exact ⟨(autoCommit_pres cfg true).step h1, k1, hb.imp (fun h => k3.trans h) (fun h => k2.trans h)⟩
    · simp at h
  | some f =>
    obtain ⟨h, -⟩ | ⟨-, hx⟩ := hx
    · simp at h
    · simp only []
      have h1 : Good cfg s { ({ s with out := x :: s.out } : St) with proc := none } := by
        obtain ⟨k, t, rfl⟩ | rfl := hx
        · have hlc' : (runR C03.ackStep {} s.out).lc = s.lastCommitted := by
            rcases hlc with h | h
            · cases h
            · exact h
          leaf h0
        · leaf h0
      obtain ⟨k1, k2, k3, _⟩ := handleProcessorError_keeps f { ({ s with out := x :: s.out } : St) with proc := none }
      exact ⟨(handleProcessorError_pres cfg f).step h1, k1, hb.imp (fun h => k3.trans h) (fun h => k2.trans h)⟩

/-- `stop()`: the block is dropped and the suspended generator's Deferred cancelled, together. -/
theorem procFired_stop_good (g : Gen) (f : Fail) {s : St} (hs : G cfg s) (hp : s.proc = some g) (hst : s.stopping = true) :
    Good cfg s (procFired cfg g (some f) (emit .procCancel (stopBlock s))) ∧
      (procFired cfg g (some f) (emit .procCancel (stopBlock s))).proc = none ∧
      (procFired cfg g (some f) (emit .procCancel (stopBlock s))).stopping = true := by
  have h0 := Good.refl hs
  have hb : s.msgBlock = true := hs.g1.procBlock (by rw [hp]; rfl)
  have h1 : Good cfg s { emit .procCancel (stopBlock s) with proc := none } := by
    unfold stopBlock
    simp only [hb, if_true, emit]
    leaf h0
  obtain ⟨k1, k2, _, _⟩ := handleProcessorError_keeps f { emit .procCancel (stopBlock s) with proc := none }
  have hst' : (stopBlock s).stopping = true := by unfold stopBlock; split <;> exact hst
  exact ⟨(handleProcessorError_pres cfg f).step h1, k1, k2.trans hst'⟩

include hc in
theorem procResume_good (g : Gen) (passed : Bool) {s0 s : St} (h : Good cfg s0 s) (hp : s.proc = none)
    (hf : s.frame = none) (hb : s.msgBlock = true ∨ s.stopping = true) : Good cfg s0 (procResume cfg inner g passed s) := by
  unfold procResume
  split
  · exact h
  · simp only []
    have h3 := procLoop_good hin (g.rest.length + 1) g.rest h ⟨hp, hf, hb.imp id Or.inl⟩
    split
    · exact h3
    · rename_i hcond
      have hp3 : (procLoop cfg inner (g.rest.length + 1) g.rest s).1.proc = none := by
        cases hpp : (procLoop cfg inner (g.rest.length + 1) g.rest s).1.proc with
        | none => rfl
        | some g' => simp [hpp] at hcond
      exact finishFull_good hin hc h3 hp3 (by rw [h3.2, ← h.2]; exact hf)

include hc in
theorem procResult_good (g : Gen) (r : Option Fail) (x : Item) {s : St} (hs : G cfg s) (hp : s.proc = some g)
    (hb : s.msgBlock = true ∨ s.stopping = true)
    (hlc : x = .ob .procCancel ∨ (runR C03.ackStep {} s.out).lc = s.lastCommitted)
    (hx : (r = none ∧ x = .ev .procOk) ∨ (r.isSome ∧ ((∃ k t, x = .ev (.procErr k t)) ∨ x = .ob .procCancel))) :
    Good cfg s (procResult cfg inner g r { s with out := x :: s.out }) := by
  have hf : s.frame = none := by
    cases hff : s.frame with
    | none => rfl
    | some fr => exact absurd (hs.g1.frameProc (by rw [hff]; rfl)) (by rw [hp]; simp)
  obtain ⟨g1, p1, b1⟩ := procFired_good hin g r x hs hp hb hlc hx
  have h2 := fun p => procResume_good hin hc g p g1 p1 (by rw [g1.2]; exact hf) b1
  unfold procResult
  simp only []
  split
  · exact (commitAndStop_pres hin).step (h2 _)
  · exact h2 _

end

end Afkak.Proofs.Consumer
