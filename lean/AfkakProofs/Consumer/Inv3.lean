import AfkakProofs.Consumer.IncFacts
/-!
# `G` is preserved by message processing, `stop()`, `shutdown()`, and by every event
-/
namespace Afkak.Proofs.Consumer
open Afkak.Consumer Afkak.Monitor Afkak.Consts

variable [EnvHyp]

-- every leaf lemma checks nine invariant components on every path of a handler
set_option maxHeartbeats 800000

/-- entering the processor call: everything but the increasing-delivery part -/
theorem procEnter_g5 {cfg : Cfg} {s : St} (hs : G cfg s) (hp : s.proc = none) (hf : s.frame = none)
    (hb : s.msgBlock = true ∨ s.stopping = true ∨ s.startD = .none)
    (blk rest' : List Msg) (m : Msg) (hlo : lastOff blk = some m.off)
    (hnh : (runR C03.haltStep {} s.out).halted = false) :
    G1 (procEnter blk rest' m.off s) ∧ Gsf (procEnter blk rest' m.off s) ∧ Gres (procEnter blk rest' m.off s) ∧
      Gack (procEnter blk rest' m.off s) ∧ Gfo (procEnter blk rest' m.off s) ∧ Ggr cfg (procEnter blk rest' m.off s) ∧
      Ghalt (procEnter blk rest' m.off s) := by
  unfold procEnter
  obtain ⟨⟨h1, h2, h2c, h2b, h3, h4, h5, h6, h7, h8, h9, h10, h11, h12, h13⟩,
          ⟨k1, k2, k3, k4, k5, k6⟩, ⟨r1, r2⟩, ⟨a1, a2, a3⟩, ⟨f1, f2, f3⟩, -, ⟨w1, w2, w3⟩, ⟨u1, u2⟩, -⟩ := hs
  exact ⟨by g1_fields, by gsf_fields, by gres_fields, by gack_fields, by gfo_fields, by ggr_fields, by ghalt_fields⟩

/-- entering the processor call -/
theorem procEnter_g {cfg : Cfg} {s : St} (hs : G cfg s) (hp : s.proc = none) (hf : s.frame = none)
    (hb : s.msgBlock = true ∨ s.stopping = true ∨ s.startD = .none)
    (n : Nat) (rest : List Msg) (m : Msg) (hl : (rest.take n).getLast? = some m)
    (hli : EnvHyp.sane → LoopInc cfg rest s) (hlp : LoopPay rest s)
    (hnh : (runR C03.haltStep {} s.out).halted = false) :
    G cfg (procEnter (rest.take n) (rest.drop n) m.off s) := by
  have hlo := lastOff_getLast _ _ hl
  have hi := hs.inc
  have hpay := hs.pay
  obtain ⟨g1, g2, g3, g4, g5, g6, g7⟩ := procEnter_g5 hs hp hf hb (rest.take n) (rest.drop n) m hlo hnh
  refine ⟨g1, g2, g3, g4, g5, ?_, g6, g7, ?_⟩
  · unfold procEnter
    have hst := payStep_proc (runR C02.payStep {} s.out) (rest.take n) (fun x hx => hlp x (List.mem_of_mem_take hx))
    constructor
    · simp only [emit, runR_cons, hst]; exact hpay.payOk
    · intro fr hfr x hx
      simp only [emit, runR_cons, hst]
      simp only [Option.some.injEq] at hfr
      subst hfr
      exact hlp x (List.mem_of_mem_drop hx)
    · intro g hg
      simp only [emit] at hg
      rw [hp] at hg; cases hg
    · intro r hr x hx
      simp only [emit, runR_cons, hst]
      exact hpay.payParked r hr x hx
  clear g1 g2 g3 g4 g5 g6 g7
  unfold procEnter
  intro hP
  obtain ⟨i1, i2a, i2b, i2c, i2d, i2e, i3, i4, i5, i6, i7⟩ := hi hP
  obtain ⟨hn, hab⟩ := hli hP
  obtain ⟨t1, t2, t3⟩ := incFrom_take_drop n rest none m hn hl
  obtain ⟨st1, st2⟩ := incStep_proc cfg.reset.isSome (runR (C02.incStep cfg.reset.isSome) {} s.out) (rest.take n) m hl t1
  have key : (C02.incStep cfg.reset.isSome (runR (C02.incStep cfg.reset.isSome) {} s.out) (.ob (.proc (rest.take n)))).bad = false ∧
      (C02.incStep cfg.reset.isSome (runR (C02.incStep cfg.reset.isSome) {} s.out) (.ob (.proc (rest.take n)))).last = some m.off ∧
      ((C02.incStep cfg.reset.isSome (runR (C02.incStep cfg.reset.isSome) {} s.out) (.ob (.proc (rest.take n)))).armed =
          (runR (C02.incStep cfg.reset.isSome) {} s.out).armed ∨ NoArmNeed s) ∧
      ((C02.incStep cfg.reset.isSome (runR (C02.incStep cfg.reset.isSome) {} s.out) (.ob (.proc (rest.take n)))).armed = true ∨
          topOff m.off (rest.drop n) < s.fetchOffset) := by
    rcases hab with ⟨ha1, ha2⟩ | ⟨hb1, hb2, hb3⟩
    · rw [st1 (incFrom_take_drop n rest _ m ha1 hl).1]
      refine ⟨i1, rfl, Or.inl rfl, ?_⟩
      rcases ha2 with h | h
      · exact Or.inl h
      · exact Or.inr (h _ t3)
    · obtain ⟨q1, q2⟩ := st2 hb1
      exact ⟨q2.trans i1, q1, Or.inr hb2, Or.inr (hb3 _ t3)⟩
  have hgoal : ∀ M' : C02.IncSt, M'.bad = false → M'.last = some m.off →
      (M'.armed = (runR (C02.incStep cfg.reset.isSome) {} s.out).armed ∨ NoArmNeed s) →
      (M'.armed = true ∨ topOff m.off (rest.drop n) < s.fetchOffset) →
      incFrom (some m.off) (rest.drop n) = true →
      ∀ blk, C02.incStep cfg.reset.isSome (runR (C02.incStep cfg.reset.isSome) {} s.out) (.ob (.proc blk)) = M' →
      Ginc cfg { emit (.proc blk) s with script := s.script.tail, frame := some { rest := rest.drop n, last := m.off } } := by
    clear key st1 st2 t1 t2 t3 hn hab hli hi hlo hl hs
    intro M' q1 q2 q3 q4 q5 blk hM
    unfold NoArmNeed at q3
    generalize rest.drop n = rest' at *
    constructor <;> simp only [emit, runR_cons, hM] <;> grind
  exact hgoal _ key.1 key.2.1 key.2.2.1 key.2.2.2 t2 _ rfl

theorem procLeave_keeps (res : PRes) (rest' : List Msg) (last : Int) (s : St) :
    (procLeave res rest' last s).stopping = s.stopping ∧ (procLeave res rest' last s).msgBlock = s.msgBlock ∧
      (procLeave res rest' last s).startD = s.startD := by
  unfold procLeave emit; grind

section
variable {cfg : Cfg} {s : St} (hs : G cfg s) (rest' : List Msg) (last : Int)
  (hf : s.frame = some { rest := rest', last := last })
include hs hf

theorem procLeave_g_ok : G cfg { emit (.procRet .ok) s with frame := none, lastProcessed := some last } := by
  have hp : s.proc = none := hs.g1.frameProc (by simp [hf])
  have hb := hs.g1.frameBlock (by simp [hf])
  have hle : EnvHyp.sane → last ≤ topOff last rest' := fun hP => incFrom_le_top _ _ ((hs.inc hP).incFrame _ hf).2.1
  gleaf hs

theorem procLeave_g_err (k : ErrKind) (t : Nat) : G cfg { emit (.procRet (.err k t)) s with frame := none } := by
  have hp : s.proc = none := hs.g1.frameProc (by simp [hf])
  have hb := hs.g1.frameBlock (by simp [hf])
  have hle : EnvHyp.sane → last ≤ topOff last rest' := fun hP => incFrom_le_top _ _ ((hs.inc hP).incFrame _ hf).2.1
  gleaf hs

theorem procLeave_g_cancel : G cfg { emit .procCancel (emit (.procRet .defer) s) with frame := none } := by
  have hp : s.proc = none := hs.g1.frameProc (by simp [hf])
  have hb := hs.g1.frameBlock (by simp [hf])
  have hle : EnvHyp.sane → last ≤ topOff last rest' := fun hP => incFrom_le_top _ _ ((hs.inc hP).incFrame _ hf).2.1
  gleaf hs

theorem procLeave_g_defer (hc : ¬(s.stopping || s.startD == .none) = true) :
    G cfg { emit (.procRet .defer) s with frame := none, proc := some { rest := rest', last := last, shutWait := false } } := by
  have hp : s.proc = none := hs.g1.frameProc (by simp [hf])
  have hb := hs.g1.frameBlock (by simp [hf])
  have hle : EnvHyp.sane → last ≤ topOff last rest' := fun hP => incFrom_le_top _ _ ((hs.inc hP).incFrame _ hf).2.1
  have hpf : ∀ x ∈ rest', x ∈ (runR C02.payStep {} s.out).seen := hs.pay.payFrame _ hf
  gleaf hs

end

/-- leaving the processor call -/
theorem procLeave_good {cfg : Cfg} {s0 s : St} (hs : G cfg s) (rest' : List Msg) (last : Int)
    (hf : s.frame = some { rest := rest', last := last }) (hf0 : s0.frame = none) (res : PRes) :
    Good cfg s0 (procLeave res rest' last s) ∧
      ((procLeave res rest' last s).proc.isSome → res = .defer) ∧
      (EnvHyp.sane → LoopA cfg rest' (procLeave res rest' last s)) ∧ LoopPay rest' (procLeave res rest' last s) ∧
      ((∀ k t, res ≠ .err k t) → HaltPost (procLeave res rest' last s)) := by
  have hp : s.proc = none := hs.g1.frameProc (by simp [hf])
  have hH : ∀ x : St, KeepsH s x → x.stopping = s.stopping → x.startD = s.startD → HaltPost x := by
    intro x hk h1 h2 hh
    unfold KeepsH at hk
    rw [hk] at hh
    rcases hs.halt.haltInv hh with h | h | h
    · exact Or.inr (h2.trans h)
    · exact Or.inl (h1.trans h)
    · rw [h.2.2] at hf; cases hf
  have hfr := fun hP => (hs.inc hP).incFrame _ hf
  have hP' : ∀ x : St, KeepsP s x → LoopPay rest' x := fun x hk => LoopPay.keeps hk (hs.pay.payFrame _ hf)
  have hA : ∀ x : St, KeepsI cfg s x → EnvHyp.sane → LoopA cfg rest' x := by
    intro x hk hP
    obtain ⟨q1, q2, q3⟩ := hfr hP
    simp only [] at q1 q2 q3
    refine LoopA.keeps hk ⟨by rw [q1]; exact q2, ?_⟩
    rcases q3 with h | h
    · exact Or.inl h
    · refine Or.inr fun v hv => ?_
      simpa [topOff, hv] using h
  unfold procLeave
  cases res with
  | ok =>
    refine ⟨⟨procLeave_g_ok hs rest' last hf, by simp [hf0]⟩, ?_, ?_, ?_, ?_⟩
    · simp [emit, hp]
    · refine hA _ ⟨?_, rfl⟩
      simp only [emit, runR_cons, incStep_procRet]
    · refine hP' _ ?_
      simp only [KeepsP, emit, runR_cons, payStep_procRet]
    · exact fun _ => hH _ (by simp only [KeepsH, emit, runR_cons, haltStep_procRet_ok]) rfl rfl
  | err k t =>
    refine ⟨⟨procLeave_g_err hs rest' last hf k t, by simp [hf0]⟩, ?_, ?_, ?_, ?_⟩
    · simp [emit, hp]
    · refine hA _ ⟨?_, rfl⟩
      simp only [emit, runR_cons, incStep_procRet]
    · refine hP' _ ?_
      simp only [KeepsP, emit, runR_cons, payStep_procRet]
    · exact fun h => absurd rfl (h k t)
  | defer =>
    simp only []
    split
    · refine ⟨⟨procLeave_g_cancel hs rest' last hf, by simp [hf0]⟩, ?_, ?_, ?_, ?_⟩
      · simp
      · refine hA _ ⟨?_, rfl⟩
        simp only [emit, runR_cons, incStep_procRet, incStep_procCancel]
      · refine hP' _ ?_
        simp only [KeepsP, emit, runR_cons, payStep_procRet, payStep_procCancel]
      · exact fun _ => hH _ (by simp only [KeepsH, emit, runR_cons, haltStep_procRet_defer, haltStep_procCancel]) rfl rfl
    · rename_i hc
      refine ⟨⟨procLeave_g_defer hs rest' last hf hc, by simp [hf0]⟩, ?_, ?_, ?_, ?_⟩
      · simp
      · refine hA _ ⟨?_, rfl⟩
        simp only [emit, runR_cons, incStep_procRet]
      · refine hP' _ ?_
        simp only [KeepsP, emit, runR_cons, payStep_procRet]
      · exact fun _ => hH _ (by simp only [KeepsH, emit, runR_cons, haltStep_procRet_defer]) rfl rfl

section
variable {cfg : Cfg} {inner : Ops} (hin : OpsPres cfg inner) (hc : OpsPN Calm inner)
include hin

theorem procActs_good (acts : List Act) {s0 s : St} (h : Good cfg s0 s) : Good cfg s0 (procActs inner acts s) :=
  acts_good hin acts h

/-- What the processing loop needs on entry (no generator suspended or executing). -/
def LoopPre (s : St) : Prop :=
  s.proc = none ∧ s.frame = none ∧ (s.msgBlock = true ∨ s.stopping = true ∨ s.startD = .none)

/-- one iteration, given that the rest of the loop is fine -/
theorem procBody_good (k : St → St × Bool) {s0 : St} (n : Nat) (rest : List Msg)
    (hk : ∀ s', Good cfg s0 s' → LoopPre s' → (EnvHyp.sane → LoopInc cfg (rest.drop n) s') → LoopPay (rest.drop n) s' → LoopH s' →
      Good cfg s0 (k s').1 ∧ ((k s').2 = true → HaltPost (k s').1))
    (m : Msg) (hl : (rest.take n).getLast? = some m) (e : PEntry)
    {s : St} (h : Good cfg s0 s) (hpre : LoopPre s) (hli : EnvHyp.sane → LoopInc cfg rest s) (hlp : LoopPay rest s)
    (hnh : (runR C03.haltStep {} s.out).halted = false) :
    Good cfg s0 (procBody cfg inner k (rest.take n) (rest.drop n) m.off e s).1 ∧
      ((procBody cfg inner k (rest.take n) (rest.drop n) m.off e s).2 = true →
        HaltPost (procBody cfg inner k (rest.take n) (rest.drop n) m.off e s).1) := by
  obtain ⟨hp, hf, hb⟩ := hpre
  have hfr0 : s0.frame = none := by rw [← h.2]; exact hf
  have g1 := procEnter_g h.1 hp hf hb n rest m hl hli hlp hnh
  generalize rest.take n = blk at *
  generalize rest.drop n = rest' at *
  have g2 := procActs_good hin e.acts (Good.refl g1)
  have f2 : (procActs inner e.acts (procEnter blk rest' m.off s)).frame = some { rest := rest', last := m.off } := g2.2
  obtain ⟨g3, p3, l3, y3, z3⟩ := procLeave_good g2.1 _ _ f2 hfr0 e.res
  obtain ⟨st3, mb3, sd3⟩ := procLeave_keeps e.res rest' m.off (procActs inner e.acts (procEnter blk rest' m.off s))
  have fb2 := g2.1.g1.frameBlock (by rw [f2]; rfl)
  unfold procBody
  simp only []
  generalize hs3 : procLeave e.res rest' m.off (procActs inner e.acts (procEnter blk rest' m.off s)) = s3 at *
  generalize hs2 : procActs inner e.acts (procEnter blk rest' m.off s) = s2 at *
  cases hres : e.res with
  | ok =>
    simp only []
    have z3' : HaltPost s3 := z3 (by rw [hres]; intro k t h; cases h)
    have p3' : s3.proc = none := by
      cases hpp : s3.proc with
      | none => rfl
      | some g => exact absurd (p3 (by rw [hpp]; rfl)) (by rw [hres]; simp)
    have g4 := (autoCommit_pres cfg true).step g3
    obtain ⟨k1, k2, k3, k4⟩ := autoCommit_keeps cfg true s3
    have kh := autoCommit_keepsH cfg true s3
    split
    · rename_i hcond
      refine ⟨g4, fun _ _ => ?_⟩
      simp only [Bool.or_eq_true, beq_iff_eq] at hcond
      exact hcond
    · rename_i hcont
      simp only [Bool.or_eq_true, beq_iff_eq, not_or] at hcont
      refine hk _ g4 ⟨k1.trans p3', by rw [g4.2]; exact hfr0, ?_⟩
        (fun hP => ((l3 hP).keeps (autoCommit_keepsI cfg true s3)).loopInc) (y3.keeps (autoCommit_keepsP cfg true s3)) ?_
      · left
        grind
      · intro hh
        unfold KeepsH at kh
        rw [kh] at hh
        rcases z3' hh with h' | h'
        · exact absurd (k2.trans h') hcont.1
        · exact absurd (k4.1.2 h') hcont.2
  | err kd t =>
    simp only []
    have p3' : s3.proc = none := by
      cases hpp : s3.proc with
      | none => rfl
      | some g => exact absurd (p3 (by rw [hpp]; rfl)) (by rw [hres]; simp)
    have g4 := (handleProcessorError_pres cfg (.ext kd t) (by intro h; cases h)).step g3
    obtain ⟨k1, k2, k3, k4⟩ := handleProcessorError_keeps (.ext kd t) s3
    split
    · rename_i hcond
      refine ⟨g4, fun _ _ => ?_⟩
      simp only [Bool.or_eq_true, beq_iff_eq] at hcond
      exact hcond
    · rename_i hcont
      split
      · exact ⟨g4, fun h' => by cases h'⟩
      · rename_i hnp
        -- not reached: the failure is passed on unless a stop() is in progress
        exfalso
        simp only [Bool.or_eq_true, beq_iff_eq, not_or] at hcont
        have : s3.stopping = false := by
          cases hst : s3.stopping with
          | false => rfl
          | true => exact absurd (k2.trans hst) hcont.1
        simp [procErrPassed, this] at hnp
  | defer =>
    simp only []
    have z3' : HaltPost s3 := z3 (by rw [hres]; intro k t h; cases h)
    split
    · exact ⟨g3, fun _ => z3'⟩
    · refine ⟨(handleProcessorError_pres cfg _ (by intro h; cases h)).step g3, fun _ hh => ?_⟩
      obtain ⟨k1, k2, k3, k4⟩ := handleProcessorError_keeps (.ext .cancelled 0) s3
      have kh := handleProcessorError_keepsH (.ext .cancelled 0) s3
      unfold KeepsH at kh
      rw [kh] at hh
      rcases z3' hh with h' | h'
      · exact Or.inl (k2.trans h')
      · exact Or.inr (k4.1.2 h')

/-- The processing loop, entered with no generator suspended or executing. -/
theorem procLoop_good : ∀ (fuel : Nat) (rest : List Msg) {s0 s : St}, Good cfg s0 s → LoopPre s →
    (EnvHyp.sane → LoopInc cfg rest s) → LoopPay rest s → LoopH s →
    Good cfg s0 (procLoop cfg inner fuel rest s).1 ∧
      ((procLoop cfg inner fuel rest s).2 = true → HaltPost (procLoop cfg inner fuel rest s).1) := by
  intro fuel
  induction fuel with
  | zero =>
    intro rest s0 s h _ _ _ hlh
    simp only [procLoop]
    exact ⟨h, fun _ hh => Or.inl (hlh hh)⟩
  | succ n ih =>
    intro rest s0 s h hpre hli hlp hlh
    unfold procLoop
    split
    · exact ⟨h, fun _ hh => Or.inl (hlh hh)⟩
    · rename_i hguard
      split
      · exact ⟨h, fun _ hh => Or.inl (hlh hh)⟩
      · rename_i lastMsg hl
        have hnh : (runR C03.haltStep {} s.out).halted = false := by
          cases hh : (runR C03.haltStep {} s.out).halted with
          | false => rfl
          | true =>
            have := hlh hh
            simp [this] at hguard
        exact procBody_good hin _ _ rest (fun s' h' p' l' y' z' => ih _ h' p' l' y' z') lastMsg hl _ h hpre hli hlp hnh

/-- `finally: … _process_messages(messages)` with no block in progress -/
theorem deliverBlock_good (msgs : List Msg) {s0 s : St} (h : Good cfg s0 s) (hp : s.proc = none) (hf : s.frame = none)
    (hli : EnvHyp.sane → msgs ≠ [] → LoopInc cfg msgs s) (hlp : LoopPay msgs s) (hlh : LoopH s) :
    Good cfg s0 (deliverBlock cfg inner msgs s) := by
  have hf0 : s0.frame = none := by rw [← h.2]; exact hf
  unfold deliverBlock
  split
  · exact h
  · rename_i hne
    simp only []
    have h1 : Good cfg s0 { s with msgBlock := true } := by leaf h
    have hne' : msgs ≠ [] := by intro he; simp [he] at hne
    obtain ⟨h2, z2⟩ := procLoop_good hin (msgs.length + 1) msgs h1 ⟨hp, hf, Or.inl rfl⟩ (fun hP => hli hP hne') hlp hlh
    generalize (procLoop cfg inner (msgs.length + 1) msgs { s with msgBlock := true }) = res at *
    obtain ⟨s2, done⟩ := res
    simp only [] at *
    split
    · exact h2
    · rename_i hc
      have hpost : HaltPost s2 := z2 (by
        cases hd : done with
        | true => rfl
        | false => simp [hd] at hc)
      unfold HaltPost at hpost
      have hp2 : s2.proc = none := by
        cases hpp : s2.proc with
        | none => rfl
        | some g => simp [hpp] at hc
      unfold finishSimple
      split
      · leaf h2
      · exact h2

include hc in
/-- `_handle_fetch_response` after `self._request_d = None` -/
theorem fetchTail_good (via : Bool) (r : Reply) {s0 s : St} (h : Good cfg s0 s) (hp : s.proc = none) (hf : s.frame = none)
    (hq : activeReq s.requestD = none) (hpk : s.parked = none) (hrq : s.requestD = .none)
    (hr : EnvHyp.sane → ReplyOk r) (hrs : ∀ x ∈ r.msgs, x ∈ (runR C02.payStep {} s.out).seen)
    (hgr : (runR (C14.grStep cfg.bufMax) { buf := cfg.bufInit } s.out).buf = s.bufferSize ∧
      (r.tail = .small → 0 < (runR (C14.grStep cfg.bufMax) { buf := cfg.bufInit } s.out).credit))
    (hlh : LoopH s) :
    Good cfg s0 (fetchTail cfg inner via r s) := by
  have hge := grow_eq_spec s.bufferSize cfg.bufMax
  unfold fetchTail
  simp only []
  obtain ⟨e1, e2, e3⟩ := extract_spec r.msgs s.fetchOffset
  have hmono : s.fetchOffset ≤ (extract s.fetchOffset r.msgs).2 := by
    have := incFrom_le_top _ _ e1
    omega
  have hpos : EnvHyp.sane → (extract s.fetchOffset r.msgs).2 = s.fetchOffset ∨ 0 < (extract s.fetchOffset r.msgs).2 := by
    intro hP
    cases hm : (extract s.fetchOffset r.msgs).1 with
    | nil => left; rw [e3, hm]; simp [topOff, lastOff]
    | cons c t =>
      right
      obtain ⟨v, hv⟩ := lastOff_cons_some c t
      rw [← hm] at hv
      obtain ⟨y, hy, hyv⟩ := lastOff_mem _ _ hv
      have := (hr hP).1 y (e2 y hy)
      rw [e3]; simp only [topOff, hv, Option.getD_some]; omega
  have c2 : offsetEarliest = -2 := rfl
  have c3 : offsetLatest = -1 := rfl
  have c4 : offsetCommitted = -101 := rfl
  have hL : ∀ x : St, runR (C02.incStep cfg.reset.isSome) {} x.out = runR (C02.incStep cfg.reset.isSome) {} s.out →
      x.fetchOffset = (extract s.fetchOffset r.msgs).2 → x.requestD = .none →
      EnvHyp.sane → (extract s.fetchOffset r.msgs).1 ≠ [] → LoopInc cfg (extract s.fetchOffset r.msgs).1 x :=
    fun x h1 h2 h3 hP hne => extract_loop (h.1.inc hP) hf hp r (hr hP) h1 h2 h3 hne
  have hY : ∀ x : St, KeepsP s x → LoopPay (extract s.fetchOffset r.msgs).1 x :=
    fun x hk => LoopPay.keeps hk (fun y hy => hrs y (e2 y hy))
  clear e1 e2 e3
  generalize hfo' : (extract s.fetchOffset r.msgs).2 = fo' at *
  generalize hmsgs : (extract s.fetchOffset r.msgs).1 = msgs at *
  have h1 : Good cfg s0 { s with fetchOffset := fo' } := by leaf h
  split
  · exact (retryFetch_pres cfg _).step (deliverBlock_good hin _ h1 hp hf (hL _ rfl rfl hrq) (hY _ rfl) hlh)
  · rename_i hsmall
    have hcr := hgr.2 hsmall
    have hbuf := hgr.1
    split
    · rename_i b hb
      exact (retryFetch_pres cfg _).step (deliverBlock_good hin _ (by leaf h) hp hf (hL _ rfl rfl hrq) (hY _ rfl) hlh)
    · rename_i hb
      have h2 : Good cfg s0 (startErrback .tooSmall { s with fetchOffset := fo' }) := by
        unfold startErrback
        split
        · leaf h
        · exact h1
      have hk := startErrback_keeps .tooSmall { s with fetchOffset := fo' }
      have hki := startErrback_keepsI cfg .tooSmall { s with fetchOffset := fo' }
      have k1 := hk.1
      have h3 := deliverBlock_good hin msgs h2 (k1.trans hp) (by rw [h2.2, ← h.2]; exact hf)
        (hL _ hki.1 hki.2 (hk.2.2.2.2.2.1.trans hrq)) (hY _ (startErrback_keepsP .tooSmall _))
        (fun hh => by
          have kh := startErrback_keepsH .tooSmall { s with fetchOffset := fo' }
          unfold KeepsH at kh
          rw [kh] at hh
          exact hk.2.1.trans (hlh hh))
      split
      · have hcm := deliverBlock_calm (cfg := cfg) hc msgs _
          (calm_ok.upd (s := { s with fetchOffset := fo' }) ⟨hp, hq, hpk⟩ hk)
        exact handleFetchError_good cfg _ (by intro h; cases h) h3 hcm.1 hcm.2 (fun _ ho => by simp [Fail.isOutOfRange] at ho)
      · exact h3
  · rename_i kd t htail
    have h3 := deliverBlock_good hin msgs h1 hp hf (hL _ rfl rfl hrq) (hY _ rfl) hlh
    split
    · exact h3
    · have hcm := deliverBlock_calm (cfg := cfg) hc msgs
        { s with fetchOffset := fo' } ⟨hp, hq, hpk⟩
      refine handleFetchError_good cfg _ (by intro h; cases h) h3 hcm.1 hcm.2 (fun hP ho => ?_)
      have : kd = .outOfRange := by
        cases kd <;> simp [Fail.isOutOfRange] at ho ⊢
      subst this
      exact absurd htail ((hr hP).2 t)

include hc in
/-- `_handle_fetch_response` for the event `fetchOk k r` (top level: the processor is not executing) -/
theorem handleFetchResponse_good (k : Nat) (r : Reply) (c : Bool) {s : St} (hs : G cfg s) (hf : s.frame = none)
    (hlc : (runR C03.ackStep {} s.out).lc = s.lastCommitted) (hreq : s.requestD = .pending k .fetch c)
    (hr : EnvHyp.sane → ReplyOk r) :
    Good cfg s (handleFetchResponse cfg inner k r { s with out := .ev (.fetchOk k r) :: s.out }) := by
  have hx := Good.refl hs
  have hact : (runR C02.sfStep {} s.out).req = (if c then none else some k) := by
    rw [hs.sf.sfReq, hreq]; cases c <;> rfl
  unfold handleFetchResponse
  split
  · leaf hx
  · rename_i hrun
    simp only []
    split
    · leaf hx
    · rename_i hb
      have hlh : LoopH { ({ s with out := .ev (.fetchOk k r) :: s.out } : St) with retryDelay := cfg.retryInit, attempts := 1, requestD := .none } := by
        intro hh
        have hh' : (runR C03.haltStep {} s.out).halted = true := by simpa [runR_cons, C03.haltStep] using hh
        rcases hs.halt.haltInv hh' with h' | h' | h'
        · simp [h'] at hrun
        · exact h'
        · exact absurd h'.1 (by simpa using hb)
      have hp : s.proc = none := by
        cases hpp : s.proc with
        | none => rfl
        | some g => exact absurd (hs.g1.procBlock (by rw [hpp]; rfl)) hb
      have hpk : s.parked = none := by
        cases hpp : s.parked with
        | none => rfl
        | some r' => exact absurd (hs.sf.parkedBlock (by rw [hpp]; rfl)) hb
      unfold fetchBody
      have hsync : (runR (C14.grStep cfg.bufMax) { buf := cfg.bufInit } s.out).buf = s.bufferSize := by
        rcases hs.gr.grSync with h | h
        · exact h
        · exact absurd hreq (h.2.2.1 k c)
      exact fetchTail_good hin hc false r (by leaf hx) hp hf rfl hpk rfl hr
        (fun x hx => by simp [runR_cons, C02.payStep, hx])
        (by
          simp only [runR_cons, C14.grStep]
          split
          · exact ⟨hsync, fun _ => Nat.succ_pos _⟩
          · rename_i hns
            exact ⟨hsync, fun h => absurd (by simp [h]) hns⟩)
        hlh

include hc in
/-- the end of `_process_messages` when resumed -/
theorem finishFull_good {s0 s : St} (h : Good cfg s0 s) (hp : s.proc = none) (hf : s.frame = none) (hpost : HaltPost s) :
    Good cfg s0 (finishFull cfg inner s) := by
  unfold HaltPost at hpost
  unfold finishFull
  split
  · have hf0 : s0.frame = none := by rw [← h.2]; exact hf
    simp only []
    split
    · rename_i r hr
      obtain ⟨kp, hpk⟩ := h.1.sf.parkedReq (by rw [hr]; rfl)
      split
      · leaf h
      · rename_i hrun
        unfold fetchBody
        have hlh : LoopH { s with msgBlock := false, parked := none, retryDelay := cfg.retryInit, attempts := 1, requestD := .none } := by
          intro hh
          rcases hpost hh with h' | h'
          · exact h'
          · simp [h'] at hrun
        have hsync : (runR (C14.grStep cfg.bufMax) { buf := cfg.bufInit } s.out).buf = s.bufferSize := by
          rcases h.1.gr.grSync with h' | h'
          · exact h'
          · rw [h'.2.2.2] at hr; cases hr
        exact fetchTail_good hin hc true _ (by leaf h) hp hf rfl rfl rfl (fun hP => (h.1.inc hP).parkedNN _ hr)
          (h.1.pay.payParked _ hr) ⟨hsync, h.1.gr.grParked _ hr⟩ hlh
    · leaf h
  · exact h

/-- what the suspended generator's remaining messages look like once its Deferred has fired -/
theorem gen_loopA {s : St} (hs : G cfg s) (g : Gen) (hp : s.proc = some g) (x : St) (hk : KeepsI cfg s x) :
    EnvHyp.sane → LoopA cfg g.rest x := by
  intro hP
  obtain ⟨q1, q2, q3⟩ := (hs.inc hP).incProc g hp
  refine LoopA.keeps hk ⟨by rw [q1]; exact q2, ?_⟩
  rcases q3 with h | h
  · exact Or.inl h
  · refine Or.inr fun v hv => ?_
    simpa [topOff, hv] using h

theorem gen_loopPay {s : St} (hs : G cfg s) (g : Gen) (hp : s.proc = some g) (x : St) (hk : KeepsP s x) : LoopPay g.rest x :=
  LoopPay.keeps hk (hs.pay.payProc g hp)

/-- The processor's Deferred fires (`x` = the trace item that says so: the event, or `procCancel`). -/
theorem procFired_good (g : Gen) (r : Option Fail) (x : Item) {s : St} (hs : G cfg s) (hp : s.proc = some g)
    (hb : s.msgBlock = true ∨ s.stopping = true)
    (hlc : x = .ob .procCancel ∨ (runR C03.ackStep {} s.out).lc = s.lastCommitted)
    (hx : (r = none ∧ x = .ev .procOk) ∨ (r.isSome ∧ ((∃ k t, x = .ev (.procErr k t)) ∨ x = .ob .procCancel)))
    (hnts : ∀ f, r = some f → f ≠ .tooSmall) :
    Good cfg s (procFired cfg g r { s with out := x :: s.out }) ∧
      (procFired cfg g r { s with out := x :: s.out }).proc = none ∧
      ((procFired cfg g r { s with out := x :: s.out }).msgBlock = true ∨
        (procFired cfg g r { s with out := x :: s.out }).stopping = true) ∧
      (EnvHyp.sane → LoopA cfg g.rest (procFired cfg g r { s with out := x :: s.out })) ∧
      LoopPay g.rest (procFired cfg g r { s with out := x :: s.out }) ∧
      ((∀ f, r = some f → procErrPassed f { s with out := x :: s.out } = false) →
        LoopH (procFired cfg g r { s with out := x :: s.out })) := by
  have h0 := Good.refl hs
  have hf : s.frame = none := by
    cases hff : s.frame with
    | none => rfl
    | some fr => exact absurd (hs.g1.frameProc (by rw [hff]; rfl)) (by rw [hp]; simp)
  have hgp := gen_loopPay hin hs g hp
  have hle : EnvHyp.sane → g.last ≤ topOff g.last g.rest := fun hP => incFrom_le_top _ _ ((hs.inc hP).incProc g hp).2.1
  have hgen := gen_loopA hin hs g hp
  unfold procFired
  cases r with
  | none =>
    obtain ⟨-, rfl⟩ | ⟨h, -⟩ := hx
    · simp only []
      have hlc' : (runR C03.ackStep {} s.out).lc = s.lastCommitted := by
        rcases hlc with h | h
        · cases h
        · exact h
      have h1 : Good cfg s { ({ s with out := Item.ev Ev.procOk :: s.out } : St) with proc := none, lastProcessed := some g.last } := by leaf h0
      obtain ⟨k1, k2, k3, _⟩ := autoCommit_keeps cfg true { ({ s with out := Item.ev Ev.procOk :: s.out } : St) with proc := none, lastProcessed := some g.last }
      refine ⟨(autoCommit_pres cfg true).step h1, k1, hb.imp (fun h => k3.trans h) (fun h => k2.trans h), ?_,
        hgp _ (KeepsP.trans (b := { ({ s with out := Item.ev Ev.procOk :: s.out } : St) with proc := none, lastProcessed := some g.last })
          (by simp only [KeepsP, runR_cons, payStep_procOk]) (autoCommit_keepsP cfg true _)), ?_⟩
      rotate_left
      · intro _ hh
        have kh := autoCommit_keepsH cfg true { ({ s with out := Item.ev Ev.procOk :: s.out } : St) with proc := none, lastProcessed := some g.last }
        unfold KeepsH at kh
        rw [kh] at hh
        simp only [runR_cons, haltStep_procOk] at hh
        refine k2.trans ?_
        rcases hs.halt.haltInv hh with h' | h' | h'
        · exact absurd h' (hs.g1.procRun (by rw [hp]; rfl))
        · exact h'
        · rw [hp] at h'; cases h'.2.1
      exact hgen _ (KeepsI.trans (b := { ({ s with out := Item.ev Ev.procOk :: s.out } : St) with proc := none, lastProcessed := some g.last })
        ⟨by simp only [runR_cons, incStep_procOk], rfl⟩ (autoCommit_keepsI cfg true _))
    · simp at h
  | some f =>
    obtain ⟨h, -⟩ | ⟨-, hx⟩ := hx
    · simp at h
    · simp only []
      have h1 : Good cfg s { ({ s with out := x :: s.out } : St) with proc := none } := by
        obtain ⟨k, t, rfl⟩ | rfl := hx
        · have hlc' : (runR C03.ackStep {} s.out).lc = s.lastCommitted := by
            rcases hlc with h | h
            · cases h
            · exact h
          leaf h0
        · leaf h0
      obtain ⟨k1, k2, k3, _⟩ := handleProcessorError_keeps f { ({ s with out := x :: s.out } : St) with proc := none }
      refine ⟨(handleProcessorError_pres cfg f (hnts f rfl)).step h1, k1, hb.imp (fun h => k3.trans h) (fun h => k2.trans h), ?_,
        hgp _ (KeepsP.trans (b := { ({ s with out := x :: s.out } : St) with proc := none }) ?_ (handleProcessorError_keepsP f _)), ?_⟩
      rotate_left
      · obtain ⟨k, t, rfl⟩ | rfl := hx
        · simp only [KeepsP, runR_cons, payStep_procErr]
        · simp only [KeepsP, runR_cons, payStep_procCancel]
      · intro hnp _
        have := hnp f rfl
        simp only [procErrPassed, Bool.not_eq_false', Bool.and_eq_true] at this
        exact k2.trans this.1
      refine hgen _ (KeepsI.trans (b := { ({ s with out := x :: s.out } : St) with proc := none }) ⟨?_, rfl⟩ (handleProcessorError_keepsI cfg f _))
      obtain ⟨k, t, rfl⟩ | rfl := hx
      · simp only [runR_cons, incStep_procErr]
      · simp only [runR_cons, incStep_procCancel]

/-- `stop()`: the block is dropped and the suspended generator's Deferred cancelled, together. -/
theorem procFired_stop_good (g : Gen) (f : Fail) (hf : f ≠ .tooSmall) {s : St} (hs : G cfg s) (hp : s.proc = some g) (hst : s.stopping = true) :
    Good cfg s (procFired cfg g (some f) (emit .procCancel (stopBlock s))) ∧
      (procFired cfg g (some f) (emit .procCancel (stopBlock s))).proc = none ∧
      (procFired cfg g (some f) (emit .procCancel (stopBlock s))).stopping = true ∧
      (EnvHyp.sane → LoopA cfg g.rest (procFired cfg g (some f) (emit .procCancel (stopBlock s)))) ∧
      LoopPay g.rest (procFired cfg g (some f) (emit .procCancel (stopBlock s))) ∧
      LoopH (procFired cfg g (some f) (emit .procCancel (stopBlock s))) := by
  have h0 := Good.refl hs
  have hgp := gen_loopPay hin hs g hp
  have hb : s.msgBlock = true := hs.g1.procBlock (by rw [hp]; rfl)
  have hle : EnvHyp.sane → g.last ≤ topOff g.last g.rest := fun hP => incFrom_le_top _ _ ((hs.inc hP).incProc g hp).2.1
  have hgen := gen_loopA hin hs g hp
  have h1 : Good cfg s { emit .procCancel (stopBlock s) with proc := none } := by
    unfold stopBlock
    simp only [hb, if_true, emit]
    leaf h0
  obtain ⟨k1, k2, _, _⟩ := handleProcessorError_keeps f { emit .procCancel (stopBlock s) with proc := none }
  have hst' : (stopBlock s).stopping = true := by unfold stopBlock; split <;> exact hst
  refine ⟨(handleProcessorError_pres cfg f hf).step h1, k1, k2.trans hst', ?_,
    hgp _ (KeepsP.trans (b := { emit .procCancel (stopBlock s) with proc := none }) ?_ (handleProcessorError_keepsP f _)),
    fun _ => k2.trans hst'⟩
  rotate_left
  · unfold stopBlock; split <;> simp only [KeepsP, emit, runR_cons, payStep_procCancel]
  refine hgen _ (KeepsI.trans (b := { emit .procCancel (stopBlock s) with proc := none }) ⟨?_, ?_⟩ (handleProcessorError_keepsI cfg f _))
  · unfold stopBlock; split <;> simp only [emit, runR_cons, incStep_procCancel]
  · unfold stopBlock; split <;> rfl

include hc in
theorem procResume_good (g : Gen) (passed : Bool) {s0 s : St} (h : Good cfg s0 s) (hp : s.proc = none)
    (hf : s.frame = none) (hb : s.msgBlock = true ∨ s.stopping = true) (hli : EnvHyp.sane → LoopA cfg g.rest s)
    (hlp : LoopPay g.rest s) (hlh : passed = false → LoopH s) : Good cfg s0 (procResume cfg inner g passed s) := by
  unfold procResume
  split
  · exact h
  · rename_i hnp
    simp only []
    obtain ⟨h3, z3⟩ := procLoop_good hin (g.rest.length + 1) g.rest h ⟨hp, hf, hb.imp id Or.inl⟩ (fun hP => (hli hP).loopInc) hlp
      (hlh (by simpa using hnp))
    split
    · exact h3
    · rename_i hcond
      have hp3 : (procLoop cfg inner (g.rest.length + 1) g.rest s).1.proc = none := by
        cases hpp : (procLoop cfg inner (g.rest.length + 1) g.rest s).1.proc with
        | none => rfl
        | some g' => simp [hpp] at hcond
      exact finishFull_good hin hc h3 hp3 (by rw [h3.2, ← h.2]; exact hf) (z3 (by
        cases hd : (procLoop cfg inner (g.rest.length + 1) g.rest s).2 with
        | true => rfl
        | false => simp [hd] at hcond))

include hc in
theorem procResult_good (g : Gen) (r : Option Fail) (x : Item) {s : St} (hs : G cfg s) (hp : s.proc = some g)
    (hb : s.msgBlock = true ∨ s.stopping = true)
    (hlc : x = .ob .procCancel ∨ (runR C03.ackStep {} s.out).lc = s.lastCommitted)
    (hx : (r = none ∧ x = .ev .procOk) ∨ (r.isSome ∧ ((∃ k t, x = .ev (.procErr k t)) ∨ x = .ob .procCancel)))
    (hnts : ∀ f, r = some f → f ≠ .tooSmall) :
    Good cfg s (procResult cfg inner g r { s with out := x :: s.out }) := by
  have hf : s.frame = none := by
    cases hff : s.frame with
    | none => rfl
    | some fr => exact absurd (hs.g1.frameProc (by rw [hff]; rfl)) (by rw [hp]; simp)
  obtain ⟨g1, p1, b1, l1, y1, z1⟩ := procFired_good hin g r x hs hp hb hlc hx hnts
  have h2 : ∀ p, (p = false → ∀ f, r = some f → procErrPassed f { s with out := x :: s.out } = false) →
      Good cfg s (procResume cfg inner g p (procFired cfg g r { s with out := x :: s.out })) :=
    fun p hpz => procResume_good hin hc g p g1 p1 (by rw [g1.2]; exact hf) b1 l1 y1 (fun hp0 => z1 (hpz hp0))
  cases r with
  | none =>
    unfold procResult
    simp only []
    split
    · exact (commitAndStop_pres hin).step (h2 _ (fun _ f hf' => by cases hf'))
    · exact h2 _ (fun _ f hf' => by cases hf')
  | some f0 =>
    unfold procResult
    simp only []
    split
    · exact (commitAndStop_pres hin).step (h2 _ (fun hp0 f hf' => by cases hf'; exact hp0))
    · exact h2 _ (fun hp0 f hf' => by cases hf'; exact hp0)

end

end Afkak.Proofs.Consumer
