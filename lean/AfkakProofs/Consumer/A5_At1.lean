import AfkakProofs.Consumer.B_C14e
/-!
# C14 attempt limit at trace level (`C14.atStep`): the invariant `Ha` and the handlers that call no other handler

Same architecture as `B_C14a..e`.  The monitor counts consecutive failed fetch/offset requests (`cf`); the model counts
attempts (`attempts`, starting at 1, also incremented by the immediate refetch after a success).  The invariant is
`cf ≤ attempts`, strictly while a request or a refetch is outstanding; so when `_handle_fetch_error` /
`_handle_offset_error` decide to retry (`attempts < limit`) the monitor's count is below the limit too, and when the
monitor's count reaches the limit so has the model's, and the failure is reported on the start Deferred (`_start_d`
called ⇔ the monitor saw it fire).  For the
other half (limit 0: a retry IS scheduled) the invariant says that the monitor's `running`/`shut` flags imply the model's
`_start_d`/`_shuttingdown`, that nothing is `stopping` between events, and that no refetch timer is referenced while a
request is outstanding.
-/
namespace Afkak.Proofs.Consumer.T
open Afkak.Consumer Afkak.Monitor Afkak.Consts Afkak.Proofs.Consumer

def atm (cfg : Cfg) (s : St) : C14.AtSt := runR (C14.atStep cfg.maxAttempts cfg.reset) {} s.out

structure Ha (cfg : Cfg) (s : St) : Prop where
  reqRun : ∀ k kind c, s.requestD = .pending k kind c → s.startD ≠ .none
  parkedReq : s.parked.isSome = true → ∃ k, s.requestD = .parked k
  parkedBlock : s.parked.isSome = true → s.msgBlock = true
  ok : (atm cfg s).bad = false
  cfLe : (atm cfg s).cf ≤ s.attempts
  att1 : 1 ≤ s.attempts
  live1 : ∀ k kind c, s.requestD = .pending k kind c → (atm cfg s).cf < s.attempts
  live2 : ∀ d, s.retryCall = .pending d → (atm cfg s).cf < s.attempts
  shut : s.shuttingDown = true → (atm cfg s).shut = true
  pr : ∀ k kind c, s.requestD = .pending k kind c → s.retryCall = .none
  ex : (atm cfg s).expect = false
  park : s.parked.isSome = true → (atm cfg s).cf ≤ 1
  pr2 : s.parked.isSome = true → ∀ d, s.retryCall ≠ .pending d
  called : s.startD = .called → (atm cfg s).fired = true
  exf : (atm cfg s).expectFail = false

/-- the monitor believes the consumer runs only while `_start_d` is set (up to a crash) -/
def R (cfg : Cfg) (s : St) : Prop := s.crashed = false → (atm cfg s).running = true → s.startD ≠ .none

def NoPend (s : St) : Prop := ∀ k kind c, s.requestD ≠ .pending k kind c

/-- `x` is a good successor of `s0`: the invariant holds; the monitor's error flag is untouched; a crash stays; no
    request was issued -/
def Core (cfg : Cfg) (s0 x : St) : Prop :=
  Ha cfg x ∧ (atm cfg x).inErr = (atm cfg s0).inErr ∧ (s0.crashed = true → x.crashed = true) ∧ (NoPend s0 → NoPend x) ∧
    (s0.parked = none → x.parked = none)

def HRel (cfg : Cfg) (s0 x : St) : Prop :=
  Core cfg s0 x ∧ (s0.stopping = false → x.stopping = false) ∧ (R cfg s0 → R cfg x)

def PresH (cfg : Cfg) (h : St → St) : Prop := ∀ s, Ha cfg s → HRel cfg s (h s)

theorem Core.refl {cfg : Cfg} {s : St} (h : Ha cfg s) : Core cfg s s := ⟨h, rfl, fun h => h, fun h => h, fun h => h⟩
theorem Core.trans {cfg : Cfg} {a b c : St} (h1 : Core cfg a b) (h2 : Core cfg b c) : Core cfg a c :=
  ⟨h2.1, h2.2.1.trans h1.2.1, fun h => h2.2.2.1 (h1.2.2.1 h), fun h => h2.2.2.2.1 (h1.2.2.2.1 h),
    fun h => h2.2.2.2.2 (h1.2.2.2.2 h)⟩
theorem HRel.refl {cfg : Cfg} {s : St} (h : Ha cfg s) : HRel cfg s s := ⟨Core.refl h, fun h => h, fun h => h⟩
theorem HRel.trans {cfg : Cfg} {a b c : St} (h1 : HRel cfg a b) (h2 : HRel cfg b c) : HRel cfg a c :=
  ⟨h1.1.trans h2.1, fun h => h2.2.1 (h1.2.1 h), fun h => h2.2.2 (h1.2.2 h)⟩
theorem PresH.step {cfg : Cfg} {h : St → St} (hh : PresH cfg h) {s x : St} (hx : HRel cfg s x) :
    HRel cfg s (h x) := hx.trans (hh x hx.1.1)
theorem HRel.ha {cfg : Cfg} {a b : St} (h : HRel cfg a b) : Ha cfg b := h.1.1
theorem HRel.pk {cfg : Cfg} {a b : St} (h : HRel cfg a b) (hp : a.parked = none) : b.parked = none := h.1.2.2.2.2 hp

/-- close `Ha cfg X` for an explicit update `X` of `s`, from `hs : Ha cfg s` -/
syntax "ha_fields" ident : tactic
macro_rules
  | `(tactic| ha_fields $hs) => `(tactic|
      (obtain ⟨a1, a2, a3, a4, a5, a6, a7, a8, a9, a10, a11, a12, a13, a14, a15⟩ := $hs
       constructor <;> (simp only [atm, emit] at * <;> grind [C14.atStep, C14.atFail, runR_cons])))

/-- `Core cfg s0 X` for an explicit update `X` of `x`, from `hx : Core cfg s0 x` -/
syntax "coreleaf" ident : tactic
macro_rules
  | `(tactic| coreleaf $hx) => `(tactic|
      (obtain ⟨hs_, e1, e2, e3, e3b⟩ := $hx
       refine ⟨?_, ?_, ?_, ?_, ?_⟩
       · ha_fields hs_
       · (simp only [atm, emit] at * <;> grind [C14.atStep, C14.atFail, runR_cons])
       · first | assumption | ((simp only [emit] at *) <;> grind)
       · (simp only [NoPend, emit] at * <;> grind)
       · first | assumption | ((simp only [emit] at *) <;> grind)))

/-- `HRel cfg s0 X` for an explicit update `X` of `x`, from `hx : HRel cfg s0 x` -/
syntax "aleaf" ident : tactic
macro_rules
  | `(tactic| aleaf $hx) => `(tactic|
      (obtain ⟨hc_, e4, e5⟩ := $hx
       refine ⟨?_, ?_, ?_⟩
       · coreleaf hc_
       · first | assumption | ((simp only [emit] at *) <;> grind)
       · (simp only [R, atm, emit] at * <;> grind [C14.atStep, C14.atFail, runR_cons])))

syntax "presa_leaf" "[" ident* "]" : tactic
macro_rules
  | `(tactic| presa_leaf [$ds*]) => `(tactic|
      (intro s hs
       have hx := HRel.refl hs
       unfold $ds*
       aleaf hx))

section
variable (cfg : Cfg)

theorem crash_a (site : String) : PresH cfg (crash site) := by presa_leaf [crash]
theorem emitAct_a (a : Act) (h : a ≠ .shutdown) : PresH cfg (emit (.act a)) := by
  cases a <;> first | exact absurd rfl h | presa_leaf [emit]
theorem startErrback_a (f : Fail) : PresH cfg (startErrback f) := by presa_leaf [startErrback]
theorem looperReset_a : PresH cfg (looperReset cfg) := by presa_leaf [looperReset]
theorem stopRetry_a : PresH cfg stopRetry := by presa_leaf [stopRetry]
theorem stopTimers_a : PresH cfg stopTimers := by presa_leaf [stopTimers]
theorem sendCommitRequest_a (d : Option Rat) (a : Option Nat) : PresH cfg (sendCommitRequest cfg d a) := by
  presa_leaf [sendCommitRequest crash]

/-- what `shutdown()` may assume of the monitor: it has just seen the call -/
def ShutPre (cfg : Cfg) (s : St) : Prop :=
  (atm cfg s).shut = true ∧ (s.shuttingDown = true → (atm cfg s).savedShut = true)

/-- the processor calls `shutdown()`: the monitor saves its `shut` flag -/
theorem emitShutdown_a (s : St) (hs : Ha cfg s) :
    HRel cfg s (emit (.act .shutdown) s) ∧ ShutPre cfg (emit (.act .shutdown) s) := by
  refine ⟨?_, ?_, ?_⟩
  · have hx := HRel.refl hs
    unfold emit
    aleaf hx
  · simp [atm, emit, runR_cons, C14.atStep]
  · intro h
    have := hs.shut (by simpa [emit] using h)
    simpa [atm, emit, runR_cons, C14.atStep] using this

theorem handleAutoCommitError_a (f : Fail) : PresH cfg (handleAutoCommitError f) := by
  intro s hs
  unfold handleAutoCommitError
  repeat' split
  all_goals first | exact HRel.refl hs | exact startErrback_a cfg f s hs

theorem handleProcessorError_a (f : Fail) : PresH cfg (handleProcessorError f) := by
  intro s hs
  unfold handleProcessorError
  split
  · exact HRel.refl hs
  · exact startErrback_a cfg f s hs

theorem commitState_a (w : Who) : PresH cfg (commitState cfg w) := by
  intro s hs
  have hx := HRel.refl hs
  unfold commitState
  split
  · exact hx
  · split
    · exact hx
    · split
      · cases w <;> simp only [] <;> aleaf hx
      · simp only []
        exact (looperReset_a cfg).step ((sendCommitRequest_a cfg none none).step (by aleaf hx))

theorem autoCommit_a (b : Bool) : PresH cfg (autoCommit cfg b) := by
  intro s hs
  have hx := HRel.refl hs
  have hc := (commitState_a cfg .auto).step hx
  unfold autoCommit
  simp only []
  repeat' split
  all_goals first
    | exact hx
    | exact hc
    | exact (handleAutoCommitError_a cfg _).step hc
    | aleaf hx

theorem commitUser_a : PresH cfg (commitUser cfg) := by
  intro s hs
  have hc := (commitState_a cfg .user).step (HRel.refl hs)
  unfold commitUser
  simp only []
  split
  · aleaf hc
  · aleaf hc

end

section
variable {cfg : Cfg}

/-- `_retry_fetch`: only with no request outstanding; inside failure handling only below the attempt limit -/
theorem retryFetch_a (after : Option Rat) {s0 s : St} (hx : HRel cfg s0 s)
    (hnp : NoPend s) (hpk : s.parked = none)
    (hsafe : (atm cfg s).inErr = true → cfg.maxAttempts ≠ 0 → s.attempts < cfg.maxAttempts) :
    HRel cfg s0 (retryFetch cfg after s) := by
  unfold retryFetch
  have hcf := hx.1.1.cfLe
  have hsafe' : (runR (C14.atStep cfg.maxAttempts cfg.reset) {} s.out).inErr = true → cfg.maxAttempts ≠ 0 →
      (runR (C14.atStep cfg.maxAttempts cfg.reset) {} s.out).cf < cfg.maxAttempts := by
    intro h1 h2
    have := hsafe h1 h2
    simp only [atm] at hcf
    omega
  simp only [NoPend] at hnp
  split
  · exact hx
  · split
    · cases after with
      | some d =>
        simp only [Option.getD_some, Option.isNone_some, Bool.false_eq_true, if_false]
        aleaf hx
      | none =>
        simp only [Option.getD_none, Option.isNone_none, if_true]
        aleaf hx
    · exact hx

end
end Afkak.Proofs.Consumer.T
