import AfkakProofs.Consumer.Trace
/-!
# C02 "every fetched message is handed to the processor promptly" (`C02.prStep`), at trace level (1):
the invariant `Hp`, the relations a handler keeps, and the handlers that call no other handler

`Hp wR wS wB wP s` relates the monitor state `pm s = runR prStep {} s.out` to the model state.  Everything but the
error flag is claimed of states that have not crashed (after a crash the handler runs on, but no probe follows and
every later event is rejected).  Four windows relax one field each:
* `wR`: `stop()`'s body has just cleared `_start_d`, the item that tells the monitor (`stopReturned` /
  `shutdownFired`) is about to be emitted;
* `wS`: `stop()` has set `_stopping` and has not yet cancelled the processor's Deferred;
* `wB`: inside `_process_messages` between two processor calls (the block flag is set, nobody holds it);
* `wP`: the parked reply has been taken off `_msg_block_d` and its first block has not been handed over yet.
-/
namespace Afkak.Proofs.Consumer.P
open Afkak.Consumer Afkak.Monitor Afkak.Consts Afkak.Proofs.Consumer

def pm (s : St) : C02.PrSt := runR C02.prStep {} s.out

/-- offset of the first message at or above `fo` (what the monitor remembers of a reply that is parked) -/
def headFrom (fo : Int) (ms : List Msg) : Option Int := (ms.filter (fun x => decide (fo ≤ x.off))).head?.map (·.off)

structure Hp (wR wS wB wP : Prop) (s : St) : Prop where
  bad : (pm s).bad = false
  pk : s.parked.isSome = true → ∃ k, s.requestD = .parked k
  pkb : s.parked.isSome = true → s.msgBlock = true
  parkRun : (pm s).running = false → (pm s).parked = none
  run : s.crashed = false → (pm s).running = true → wR ∨ s.startD ≠ .none
  runW : s.crashed = false → wR → s.startD = .none
  shut : s.crashed = false → (pm s).shut = false → s.shuttingDown = false
  pend : s.crashed = false → (pm s).pending = s.proc.isSome
  stp : s.crashed = false → s.stopping = true → wS ∨ s.proc = none
  procRun : s.crashed = false → s.proc.isSome = true → s.startD ≠ .none
  blockRun : s.crashed = false → s.msgBlock = true → s.startD ≠ .none
  blk : s.crashed = false → s.msgBlock = true →
    wB ∨ s.frame.isSome = true ∨ s.proc.isSome = true ∨ (pm s).halted = true
  reqRun : s.crashed = false → ∀ k kind c, s.requestD = .pending k kind c → s.startD ≠ .none
  req : s.crashed = false → ∀ k c, s.requestD = .pending k .fetch c →
    (pm s).offs.lookup k = some s.fetchOffset ∧ (c = true → k ∈ (pm s).cancelled)
  park : s.crashed = false → ∀ po, (pm s).parked = some po → (pm s).running = true → (pm s).shut = false →
    (pm s).halted = false → s.stopping = false → s.startD ≠ .none →
    wP ∨ ∃ r, s.parked = some r ∧ headFrom s.fetchOffset r.msgs = some po

/-- what every handler keeps (also the ones that may leave a generator suspended) -/
structure LFr (s0 x : St) : Prop where
  exp : (pm s0).expect = false → (pm x).expect = false
  stop : s0.stopping = false → x.stopping = false
  pkd : s0.parked = none → x.parked = none
  mpk : (pm s0).parked = none → (pm x).parked = none
  cr : s0.crashed = true → x.crashed = true

/-- … and what the handlers that never run the processing loop keep on top of that -/
structure Fr (s0 x : St) : Prop where
  l : LFr s0 x
  proc : s0.proc = none → x.proc = none
  mb : s0.msgBlock = false → x.msgBlock = false

theorem LFr.refl (s : St) : LFr s s := ⟨id, id, id, id, id⟩
theorem LFr.trans {a b c : St} (h1 : LFr a b) (h2 : LFr b c) : LFr a c :=
  ⟨fun h => h2.exp (h1.exp h), fun h => h2.stop (h1.stop h), fun h => h2.pkd (h1.pkd h), fun h => h2.mpk (h1.mpk h),
    fun h => h2.cr (h1.cr h)⟩
theorem Fr.refl (s : St) : Fr s s := ⟨LFr.refl s, id, id⟩
theorem Fr.trans {a b c : St} (h1 : Fr a b) (h2 : Fr b c) : Fr a c :=
  ⟨h1.l.trans h2.l, fun h => h2.proc (h1.proc h), fun h => h2.mb (h1.mb h)⟩

def HRel (wR wS wB wP : Prop) (s0 x : St) : Prop := Hp wR wS wB wP x ∧ Fr s0 x
def LRel (wR wS wB wP : Prop) (s0 x : St) : Prop := Hp wR wS wB wP x ∧ LFr s0 x
def PresH (wR wS wB wP : Prop) (h : St → St) : Prop := ∀ s, Hp wR wS wB wP s → HRel wR wS wB wP s (h s)
/-- the tight invariant -/
abbrev Hp0 (s : St) : Prop := Hp False False False False s
abbrev HRel0 (s0 x : St) : Prop := HRel False False False False s0 x
abbrev PresH0 (h : St → St) : Prop := PresH False False False False h

section
variable {wR wS wB wP : Prop}
theorem HRel.refl {s : St} (h : Hp wR wS wB wP s) : HRel wR wS wB wP s s := ⟨h, Fr.refl s⟩
theorem HRel.trans {a b c : St} (h1 : HRel wR wS wB wP a b) (h2 : HRel wR wS wB wP b c) : HRel wR wS wB wP a c :=
  ⟨h2.1, h1.2.trans h2.2⟩
theorem PresH.step {h : St → St} (hh : PresH wR wS wB wP h) {s x : St} (hx : HRel wR wS wB wP s x) :
    HRel wR wS wB wP s (h x) := hx.trans (hh x hx.1)
theorem HRel.toL {a b : St} (h : HRel wR wS wB wP a b) : LRel wR wS wB wP a b := ⟨h.1, h.2.l⟩
theorem LRel.refl {s : St} (h : Hp wR wS wB wP s) : LRel wR wS wB wP s s := ⟨h, LFr.refl s⟩
theorem LRel.trans {a b c : St} (h1 : LRel wR wS wB wP a b) (h2 : LRel wR wS wB wP b c) : LRel wR wS wB wP a c :=
  ⟨h2.1, h1.2.trans h2.2⟩
theorem PresH.stepL {h : St → St} (hh : PresH wR wS wB wP h) {s x : St} (hx : LRel wR wS wB wP s x) :
    LRel wR wS wB wP s (h x) := hx.trans (hh x hx.1).toL

/-- opening windows -/
theorem Hp.mono {wR' wS' wB' wP' : Prop} {s : St} (h : Hp wR wS wB wP s) (hR : wR → wR') (hS : wS → wS') (hB : wB → wB')
    (hP : wP → wP') (hRn : s.crashed = false → wR' → s.startD = .none) : Hp wR' wS' wB' wP' s :=
  ⟨h.bad, h.pk, h.pkb, h.parkRun, fun c r => (h.run c r).imp hR id, hRn, h.shut, h.pend, fun c r => (h.stp c r).imp hS id,
    h.procRun, h.blockRun, fun c r => (h.blk c r).imp hB id, h.reqRun, h.req,
    fun c po a1 a2 a3 a4 a5 a6 => (h.park c po a1 a2 a3 a4 a5 a6).imp hP id⟩
end

/-! items the monitor ignores -/
section
variable (m : C02.PrSt)
theorem pr_offsets (k : Nat) (t : Int) : C02.prStep m (.ob (.offsets k t)) = m := rfl
theorem pr_offsetFetch (k : Nat) : C02.prStep m (.ob (.offsetFetch k)) = m := rfl
theorem pr_commitReq (k : Nat) (o : Int) : C02.prStep m (.ob (.commitReq k o)) = m := rfl
theorem pr_procRetOk : C02.prStep m (.ob (.procRet .ok)) = m := rfl
theorem pr_actCommit : C02.prStep m (.ob (.act .commit)) = m := rfl
theorem pr_startFired (r : DRes) : C02.prStep m (.ob (.startFired r)) = m := rfl
theorem pr_commitFired (c : Nat) (r : DRes) : C02.prStep m (.ob (.commitFired c r)) = m := rfl
theorem pr_waiterFired (c : Nat) (r : DRes) : C02.prStep m (.ob (.waiterFired c r)) = m := rfl
theorem pr_setTimer (k : TimerKind) (d : Rat) : C02.prStep m (.ob (.setTimer k d)) = m := rfl
theorem pr_cancelTimer (k : TimerKind) : C02.prStep m (.ob (.cancelTimer k)) = m := rfl
theorem pr_raisedRestop : C02.prStep m (.ob .raisedRestop) = m := rfl
theorem pr_crash (site : String) : C02.prStep m (.ob (.crash site)) = m := rfl
theorem pr_rej (e : Ev) : C02.prStep m (.rej e) = m := rfl
theorem pr_evStop : C02.prStep m (.ev .stop) = m := rfl
theorem pr_evCommit : C02.prStep m (.ev .commit) = m := rfl
theorem pr_evFetchErr (k : Nat) (ek : ErrKind) (t : Nat) : C02.prStep m (.ev (.fetchErr k ek t)) = m := rfl
theorem pr_evOffsetOk (k : Nat) (o : Int) : C02.prStep m (.ev (.offsetOk k o)) = m := rfl
theorem pr_evOffsetErr (k : Nat) (ek : ErrKind) (t : Nat) : C02.prStep m (.ev (.offsetErr k ek t)) = m := rfl
theorem pr_evOffsetFetchOk (k : Nat) (o : Int) : C02.prStep m (.ev (.offsetFetchOk k o)) = m := rfl
theorem pr_evOffsetFetchErr (k : Nat) (ek : ErrKind) (t : Nat) : C02.prStep m (.ev (.offsetFetchErr k ek t)) = m := rfl
theorem pr_evCommitOk (k : Nat) : C02.prStep m (.ev (.commitOk k)) = m := rfl
theorem pr_evCommitErr (k : Nat) (ek : ErrKind) (t : Nat) : C02.prStep m (.ev (.commitErr k ek t)) = m := rfl
theorem pr_evRetryFire : C02.prStep m (.ev .retryFire) = m := rfl
theorem pr_evCommitRetryFire : C02.prStep m (.ev .commitRetryFire) = m := rfl
theorem pr_evAutoCommitTick : C02.prStep m (.ev .autoCommitTick) = m := rfl
theorem pr_evAdvance (d : Rat) : C02.prStep m (.ev (.advance d)) = m := rfl
theorem pr_evEnv (a b : Option (ErrKind × Nat)) : C02.prStep m (.ev (.env a b)) = m := rfl
end

/-- normalise the monitor state over items it ignores -/
macro "pr_norm" : tactic => `(tactic|
  try simp only [runR_cons, pr_offsets, pr_offsetFetch, pr_commitReq, pr_procRetOk, pr_actCommit, pr_startFired, pr_commitFired,
    pr_waiterFired, pr_setTimer, pr_cancelTimer, pr_raisedRestop, pr_crash, pr_rej, pr_evStop, pr_evCommit, pr_evFetchErr,
    pr_evOffsetOk, pr_evOffsetErr, pr_evOffsetFetchOk, pr_evOffsetFetchErr, pr_evCommitOk, pr_evCommitErr, pr_evRetryFire,
    pr_evCommitRetryFire, pr_evAutoCommitTick, pr_evAdvance, pr_evEnv] at *)

/-- close `Hp … X` for an explicit update `X` of `s`, from `hs : Hp … s` -/
syntax "hp_fields" ident : tactic
macro_rules
  | `(tactic| hp_fields $hs) => `(tactic|
      (obtain ⟨bad, pk, pkb, parkRun, run, runW, shut, pend, stp, procRun, blockRun, blk, reqRun, req, park⟩ := $hs
       constructor <;> (simp only [pm, emit] at * <;> pr_norm <;> grind [C02.prStep, runR_cons, List.lookup])))

syntax "fr_fields" : tactic
macro_rules
  | `(tactic| fr_fields) => `(tactic|
      (refine ⟨⟨?_, ?_, ?_, ?_, ?_⟩, ?_, ?_⟩ <;>
        first | exact id | (simp only [pm, emit] at * <;> pr_norm <;> grind [C02.prStep, runR_cons])))

/-- `HRel … s0 X` for an explicit update `X` of `x`, from `hx : HRel … s0 x` -/
syntax "pleaf" ident : tactic
macro_rules
  | `(tactic| pleaf $hx) => `(tactic|
      (obtain ⟨hs_, ⟨⟨f1, f2, f3, f4, f5⟩, f6, f7⟩⟩ := $hx
       refine ⟨?_, ?_⟩
       · hp_fields hs_
       · refine ⟨⟨?_, ?_, ?_, ?_, ?_⟩, ?_, ?_⟩ <;>
           first | assumption | (simp only [pm, emit] at * <;> pr_norm <;> grind [C02.prStep, runR_cons])))

syntax "presp_leaf" "[" ident* "]" : tactic
macro_rules
  | `(tactic| presp_leaf [$ds*]) => `(tactic|
      (intro s hs
       have hx := HRel.refl hs
       unfold $ds*
       pleaf hx))

section
variable (cfg : Cfg) (wR wS wB wP : Prop)

theorem crash_p (site : String) : PresH wR wS wB wP (crash site) := by presp_leaf [crash]
theorem emitStop_p : PresH wR wS wB wP (emit (.act .stop)) := by presp_leaf [emit]
theorem emitCommit_p : PresH wR wS wB wP (emit (.act .commit)) := by presp_leaf [emit]
theorem startErrback_p (f : Fail) : PresH wR wS wB wP (startErrback f) := by presp_leaf [startErrback]
theorem retryFetch_p (a : Option Rat) : PresH wR wS wB wP (retryFetch cfg a) := by presp_leaf [retryFetch]
theorem looperReset_p : PresH wR wS wB wP (looperReset cfg) := by presp_leaf [looperReset]
theorem stopRetry_p : PresH wR wS wB wP stopRetry := by presp_leaf [stopRetry]
theorem stopTimers_p : PresH wR wS wB wP stopTimers := by presp_leaf [stopTimers]
theorem sendCommitRequest_p (d : Option Rat) (a : Option Nat) : PresH wR wS wB wP (sendCommitRequest cfg d a) := by
  presp_leaf [sendCommitRequest crash]
theorem doFetch_p1 {s0 s : St} (hx : HRel wR wS wB wP s0 s) (hrun : s.startD ≠ .none) (hrc : s.retryCall = .none) :
    HRel wR wS wB wP s0 (doFetch cfg s) := by
  unfold doFetch startErrback errbackRaises
  split
  · rename_i hrq
    simp only [hrc]
    (repeat' split) <;> pleaf hx
  · exact hx

theorem doFetch_p2 {s0 s : St} (hx : HRel wR wS wB wP s0 s) (hrun : s.startD ≠ .none) (due : Rat) (hrc : s.retryCall = .pending due) :
    HRel wR wS wB wP s0 (doFetch cfg s) := by
  unfold doFetch startErrback errbackRaises
  split
  · rename_i hrq
    simp only [hrc]
    (repeat' split) <;> pleaf hx
  · exact hx

theorem doFetch_p3 {s0 s : St} (hx : HRel wR wS wB wP s0 s) (hrun : s.startD ≠ .none) (hrc : s.retryCall = .dead) :
    HRel wR wS wB wP s0 (doFetch cfg s) := by
  unfold doFetch startErrback errbackRaises
  split
  · rename_i hrq
    simp only [hrc]
    (repeat' split) <;> pleaf hx
  · exact hx

/-- `_do_fetch` (only ever called while started) -/
theorem doFetch_p {s0 s : St} (hx : HRel wR wS wB wP s0 s) (hrun : s.startD ≠ .none) :
    HRel wR wS wB wP s0 (doFetch cfg s) := by
  cases hrc : s.retryCall with
  | none => exact doFetch_p1 cfg wR wS wB wP hx hrun hrc
  | pending due => exact doFetch_p2 cfg wR wS wB wP hx hrun due hrc
  | dead => exact doFetch_p3 cfg wR wS wB wP hx hrun hrc

theorem handleAutoCommitError_p (f : Fail) : PresH wR wS wB wP (handleAutoCommitError f) := by
  intro s hs
  unfold handleAutoCommitError
  repeat' split
  all_goals first | exact HRel.refl hs | exact startErrback_p wR wS wB wP f s hs

theorem handleProcessorError_p (f : Fail) : PresH wR wS wB wP (handleProcessorError f) := by
  intro s hs
  unfold handleProcessorError
  split
  · exact HRel.refl hs
  · exact startErrback_p wR wS wB wP f s hs

theorem commitState_p (w : Who) : PresH wR wS wB wP (commitState cfg w) := by
  intro s hs
  have hx := HRel.refl hs
  unfold commitState
  split
  · exact hx
  · split
    · exact hx
    · split
      · cases w <;> simp only [] <;> pleaf hx
      · simp only []
        exact (looperReset_p cfg wR wS wB wP).step ((sendCommitRequest_p cfg wR wS wB wP none none).step (by pleaf hx))

theorem autoCommit_p (b : Bool) : PresH wR wS wB wP (autoCommit cfg b) := by
  intro s hs
  have hx := HRel.refl hs
  have hc := (commitState_p cfg wR wS wB wP .auto).step hx
  unfold autoCommit
  simp only []
  repeat' split
  all_goals first
    | exact hx
    | exact hc
    | exact (handleAutoCommitError_p wR wS wB wP _).step hc
    | pleaf hx

theorem commitUser_p : PresH wR wS wB wP (commitUser cfg) := by
  intro s hs
  have hc := (commitState_p cfg wR wS wB wP .user).step (HRel.refl hs)
  unfold commitUser
  simp only []
  split
  · pleaf hc
  · pleaf hc

end
end Afkak.Proofs.Consumer.P
