import AfkakProofs.Consumer.E_1
/-!
# C03 `commit()` reports: the handlers that reach the re-entrant API, the processing loop
-/
namespace Afkak.Proofs.Consumer.E
open Afkak.Consumer Afkak.Monitor Afkak.Consts Afkak.Proofs.Consumer

/-- the re-entrant API one level down: `commit()` runs inside the window its own `act` item opens, everything else
    outside any window -/
structure OpsE (inner : Ops) : Prop where
  stop : PresH False inner.stop
  stopCore : PresH False inner.stopCore
  commit : PresH True inner.commit
  shutdown : PresH False inner.shutdown

theorem He.weaken {s : St} (h : He False s) : He True s := ⟨h.c1, h.c2, h.c3a, h.c3b, fun _ => trivial⟩
theorem HRel.weaken {s0 s : St} (h : HRel False s0 s) : HRel True s0 s := ⟨h.1.weaken, h.2.1, h.2.2⟩

section
variable {cfg : Cfg} {inner : Ops} (hin : OpsE inner)
include hin

/-- the API calls the processor makes: each `act` item closes the window of the previous call -/
theorem acts_e (acts : List Act) : ∀ {s0 s : St}, HRel True s0 s →
    HRel True s0 (acts.foldl (fun s a => runAct inner a (emit (.act a) s)) s) := by
  induction acts with
  | nil => intro s0 s h; exact h
  | cons a as ih =>
    intro s0 s h
    simp only [List.foldl_cons]
    refine ih ?_
    cases a with
    | stop =>
      have h1 : HRel False s0 (emit (.act .stop) s) := by eleaf h
      exact (hin.stop.step h1).weaken
    | commit =>
      have h1 : HRel True s0 (emit (.act .commit) s) := by eleaf h
      exact hin.commit.step h1
    | shutdown =>
      have h1 : HRel False s0 (emit (.act .shutdown) s) := by eleaf h
      exact (hin.shutdown.step h1).weaken

theorem nestedStop_e : PresH False (nestedStop inner) := by
  intro s hs
  unfold nestedStop
  split
  · exact HRel.refl hs
  · split
    · exact (crash_e False _).step (HRel.refl hs)
    · exact hin.stopCore.step (HRel.refl hs)

theorem shutdownFinish_e (r : Option Fail) : PresH False (shutdownFinish inner r) := by
  intro s hs
  have hx := HRel.refl hs
  unfold shutdownFinish
  simp only []
  have h1 : HRel False s (nestedStop inner { s with shutdownD := false }) := (nestedStop_e hin).step (by eleaf hx)
  generalize nestedStop inner { s with shutdownD := false } = s1 at h1 ⊢
  have h2 : HRel False s { s1 with shuttingDown := false } := by eleaf h1
  split
  · exact (crash_e False _).step h2
  · split
    · eleaf h2
    · eleaf h2

theorem commitAndStop_e : PresH False (commitAndStop cfg inner) := by
  intro s hs
  have hx := HRel.refl hs
  have hc := (commitState_e cfg False .shut).step hx
  unfold commitAndStop commitAndStop1
  repeat' split
  all_goals first
    | exact (shutdownFinish_e hin _).step hx
    | exact (shutdownFinish_e hin _).step hc
    | exact hc

theorem shutdownSuccess_e : PresH False (shutdownSuccess cfg inner) := by
  intro s hs
  unfold shutdownSuccess
  split
  · exact (commitAndStop_e hin).step (HRel.refl hs)
  · exact (shutdownFinish_e hin none).step (HRel.refl hs)

theorem fireWaiter_e (r : DRes) (w : Waiter) : PresH False (fun s => fireWaiter cfg inner r s w) := by
  intro s hs
  have hx := HRel.refl hs
  cases w <;> cases r <;> simp only [fireWaiter]
  all_goals first
    | exact hx
    | exact (handleAutoCommitError_e False _).step hx
    | exact (autoCommit_e cfg False _).step hx
    | exact (shutdownSuccess_e hin).step hx
    | exact (shutdownFinish_e hin _).step hx
    | exact (commitAndStop_e hin).step hx
    | eleaf hx

theorem waiters_e (r : DRes) (ws : List Waiter) : ∀ {s0 s : St}, HRel False s0 s →
    HRel False s0 (ws.foldl (fireWaiter cfg inner r) s) := by
  induction ws with
  | nil => intro s0 s h; exact h
  | cons w ws ih =>
    intro s0 s h
    simp only [List.foldl_cons]
    exact ih ((fireWaiter_e hin r w).step h)

theorem deliver_e (r : DRes) : PresH False (deliver cfg inner r) := by
  intro s hs
  have hx := HRel.refl hs
  unfold deliver
  simp only []
  exact waiters_e hin r _ (by eleaf hx)

theorem handleCommitError_e (f : Fail) (d : Rat) (a : Nat) : PresH False (handleCommitError cfg inner f d a) := by
  intro s hs
  have hx := HRel.refl hs
  unfold handleCommitError
  repeat' split
  all_goals first
    | exact (deliver_e hin _).step hx
    | (simp only []; eleaf hx)

theorem cancelWaiters_e : ∀ (fuel : Nat), PresH False (cancelWaiters cfg inner fuel) := by
  intro fuel
  induction fuel with
  | zero =>
    intro s hs
    unfold cancelWaiters
    split
    · exact HRel.refl hs
    · exact (crash_e False _).step (HRel.refl hs)
  | succ n ih =>
    intro s hs
    have hx := HRel.refl hs
    unfold cancelWaiters
    split
    · exact hx
    · simp only []
      exact (ih).step ((fireWaiter_e hin _ _).step (by eleaf hx))

theorem stopCommitReq_e : PresH False (stopCommitReq cfg inner) := by
  intro s hs
  have hx := HRel.refl hs
  unfold stopCommitReq
  split
  · simp only []
    split
    · exact (handleCommitError_e hin _ _ _).step (by eleaf hx)
    · eleaf hx
  · exact hx

/-- like `HRel`, for handlers that may leave a generator suspended -/
def LRel (s0 x : St) : Prop := He False x ∧ x.frame = s0.frame

omit hin in
theorem LRel.mk' {s x : St} (h : He False x) (hf : x.frame = s.frame) : LRel s x := ⟨h, hf⟩
omit hin in
theorem HRel.toL {a b : St} (h : HRel False a b) : LRel a b := ⟨h.1, h.2.1⟩
omit hin in
theorem LRel.trans {a b c : St} (h1 : LRel a b) (h2 : LRel b c) : LRel a c := ⟨h2.1, h2.2.trans h1.2⟩
omit hin in
theorem PresH.stepL {h : St → St} (hh : PresH False h) {s x : St} (hx : LRel s x) : LRel s (h x) :=
  hx.trans (hh x hx.1).toL

omit hin in
theorem procEnter_e {s : St} (hs : He False s) (hp : s.proc = none) (blk rest' : List Msg) (m : Msg)
    (hl : blk.getLast? = some m) : He False (procEnter blk rest' m.off s) := by
  have hlo := lastOff_getLast _ _ hl
  unfold procEnter
  he_fields hs

omit hin in
theorem procLeave_e {s : St} (hs : He True s) (rest' : List Msg) (last : Int)
    (hf : s.frame = some { rest := rest', last := last }) (hp : s.proc = none) (res : PRes) :
    He False (procLeave res rest' last s) ∧ (procLeave res rest' last s).frame = none ∧
      (res ≠ .defer → (procLeave res rest' last s).proc = none) := by
  have hcur := hs.c3a _ hf
  simp only [] at hcur
  unfold procLeave
  cases res with
  | ok =>
    dsimp only
    refine ⟨by he_fields hs, rfl, fun _ => hp⟩
  | err k t =>
    dsimp only
    refine ⟨by he_fields hs, rfl, fun _ => hp⟩
  | defer =>
    dsimp only
    split
    · refine ⟨by he_fields hs, rfl, fun h => absurd rfl h⟩
    · refine ⟨by he_fields hs, rfl, fun h => absurd rfl h⟩

theorem procBody_e (k : St → St × Bool) {s0 : St}
    (hk : ∀ s', LRel s0 s' → s'.proc = none → s'.frame = none → LRel s0 (k s').1)
    (blk rest' : List Msg) (m : Msg) (hl : blk.getLast? = some m) (e : PEntry)
    {s : St} (h : LRel s0 s) (hp : s.proc = none) (hf : s.frame = none) :
    LRel s0 (procBody cfg inner k blk rest' m.off e s).1 := by
  have hfr0 : s0.frame = none := by rw [← h.2]; exact hf
  have g1 := procEnter_e h.1 hp blk rest' m hl
  have g2 : HRel True (procEnter blk rest' m.off s) (procActs inner e.acts (procEnter blk rest' m.off s)) :=
    acts_e hin e.acts (HRel.refl g1.weaken)
  have f2 : (procActs inner e.acts (procEnter blk rest' m.off s)).frame = some { rest := rest', last := m.off } := g2.2.1
  have p2 : (procActs inner e.acts (procEnter blk rest' m.off s)).proc = none := g2.2.2 (by simpa [procEnter, emit] using hp)
  obtain ⟨g3, fr3, pn3⟩ := procLeave_e g2.1 rest' m.off f2 p2 e.res
  have r3 : LRel s0 (procLeave e.res rest' m.off (procActs inner e.acts (procEnter blk rest' m.off s))) := ⟨g3, fr3.trans hfr0.symm⟩
  unfold procBody
  simp only []
  generalize procLeave e.res rest' m.off (procActs inner e.acts (procEnter blk rest' m.off s)) = s3 at *
  clear g1 g2 f2 p2
  cases hres : e.res with
  | ok =>
    simp only []
    have p3 : s3.proc = none := pn3 (by rw [hres]; intro h; cases h)
    have r4 := (autoCommit_e cfg False true) s3 g3
    split
    · exact r3.trans r4.toL
    · exact hk _ (r3.trans r4.toL) (r4.2.2 p3) (r4.2.1.trans fr3)
  | err kd t =>
    simp only []
    have p3 : s3.proc = none := pn3 (by rw [hres]; intro h; cases h)
    have r4 := (handleProcessorError_e False (.ext kd t)) s3 g3
    split
    · exact r3.trans r4.toL
    · split
      · exact r3.trans r4.toL
      · exact hk _ (r3.trans r4.toL) (r4.2.2 p3) (r4.2.1.trans fr3)
  | defer =>
    simp only []
    split
    · exact r3
    · exact r3.trans ((handleProcessorError_e False _) s3 g3).toL

theorem procLoop_e : ∀ (fuel : Nat) (rest : List Msg) {s0 s : St}, LRel s0 s → s.proc = none → s.frame = none →
    LRel s0 (procLoop cfg inner fuel rest s).1 := by
  intro fuel
  induction fuel with
  | zero => intro rest s0 s h _ _; exact h
  | succ n ih =>
    intro rest s0 s h hp hf
    unfold procLoop
    split
    · exact h
    · split
      · exact h
      · rename_i lastMsg hl
        exact procBody_e hin _ (fun s' h' p' f' => ih _ h' p' f') _ _ lastMsg hl _ h hp hf

theorem deliverBlock_e (msgs : List Msg) {s : St} (hs : He False s) (hp : s.proc = none) (hf : s.frame = none) :
    LRel s (deliverBlock cfg inner msgs s) := by
  unfold deliverBlock
  split
  · exact ⟨hs, rfl⟩
  · simp only []
    have h1 : LRel s { s with msgBlock := true } := ⟨by he_fields hs, rfl⟩
    have h2 := procLoop_e (cfg := cfg) hin (msgs.length + 1) msgs h1 hp hf
    generalize (procLoop cfg inner (msgs.length + 1) msgs { s with msgBlock := true }) = res at *
    obtain ⟨s2, done⟩ := res
    simp only [] at *
    split
    · exact h2
    · unfold finishSimple
      split
      · have := h2.1
        exact ⟨by he_fields this, h2.2⟩
      · exact h2

omit hin in
theorem handleFetchError_e (f : Fail) : PresH False (handleFetchError cfg f) := by
  intro s hs
  have hx := HRel.refl hs
  unfold handleFetchError fetchErrorTail
  simp only []
  have hb : HRel False s { s with requestD := .none } := by eleaf hx
  split
  · exact hb
  · split
    · exact (startErrback_e False f).step hb
    · have hm : HRel False s (if f.isOutOfRange then { ({ s with requestD := .none } : St) with fetchOffset := cfg.reset.getD s.fetchOffset } else { s with requestD := .none }) := by
        split
        · eleaf hx
        · exact hb
      generalize (if f.isOutOfRange then { ({ s with requestD := .none } : St) with fetchOffset := cfg.reset.getD s.fetchOffset } else { s with requestD := .none }) = s1 at *
      repeat' split
      all_goals first
        | exact hm
        | exact (startErrback_e False f).step hm
        | exact (retryFetch_e cfg False none).step hm

omit hin in
theorem handleOffsetError_e (f : Fail) : PresH False (handleOffsetError cfg f) := by
  intro s hs
  have hx := HRel.refl hs
  unfold handleOffsetError offsetErrorTail
  have hb : HRel False s { s with requestD := .none } := by eleaf hx
  repeat' split
  all_goals first
    | exact hb
    | exact (startErrback_e False f).step hb
    | exact (retryFetch_e cfg False none).step hb

theorem fetchTail_e (via : Bool) (r : Reply) {s : St} (hs : He False s) (hp : s.proc = none) (hf : s.frame = none) :
    LRel s (fetchTail cfg inner via r s) := by
  unfold fetchTail
  simp only []
  generalize (extract s.fetchOffset r.msgs).2 = fo'
  generalize (extract s.fetchOffset r.msgs).1 = msgs
  have hb : He False { s with fetchOffset := fo' } := by he_fields hs
  have hD : ∀ y : St, He False y → y.proc = none → y.frame = none → LRel y (deliverBlock cfg inner msgs y) :=
    fun y a b c => deliverBlock_e hin msgs a b c
  split
  · exact (LRel.mk' (s := s) hb rfl).trans ((retryFetch_e cfg False _).stepL (hD _ hb hp hf))
  · split
    · rename_i bb hbb
      have hb2 : He False { s with fetchOffset := fo', bufferSize := bb } := by he_fields hs
      exact (LRel.mk' (s := s) hb2 rfl).trans ((retryFetch_e cfg False _).stepL (hD _ hb2 hp hf))
    · have h3 := (startErrback_e False .tooSmall) _ hb
      have h4 := hD _ h3.1 (h3.2.2 hp) (h3.2.1.trans hf)
      have h5 : LRel s (deliverBlock cfg inner msgs (startErrback .tooSmall { s with fetchOffset := fo' })) :=
        (LRel.mk' (s := s) hb rfl).trans (h3.toL.trans h4)
      split
      · exact (handleFetchError_e _).stepL h5
      · exact h5
  · have h5 : LRel s (deliverBlock cfg inner msgs { s with fetchOffset := fo' }) := (LRel.mk' (s := s) hb rfl).trans (hD _ hb hp hf)
    split
    · exact h5
    · exact (handleFetchError_e _).stepL h5

theorem finishFull_e {s : St} (hs : He False s) (hp : s.proc = none) (hf : s.frame = none) :
    LRel s (finishFull cfg inner s) := by
  unfold finishFull
  split
  · simp only []
    split
    · split
      · exact ⟨by he_fields hs, rfl⟩
      · unfold fetchBody
        have h4 : He False { s with msgBlock := false, parked := none, retryDelay := cfg.retryInit, attempts := 1, requestD := .none } := by
          he_fields hs
        exact (LRel.mk' (s := s) h4 rfl).trans (fetchTail_e hin true _ h4 hp hf)
    · exact ⟨by he_fields hs, rfl⟩
  · exact ⟨hs, rfl⟩

end
end Afkak.Proofs.Consumer.E
