import AfkakProofs.Consumer.A5_TwoRuns1
/-!
# C03, two runs: what the monitors `C02.gapStep`, `C03.clpStep`, `C03.resStep` say about a trace they accept
(pure trace lemmas, nothing about the model)
-/
namespace Afkak.Proofs.Consumer.A5
open Afkak.Consumer Afkak.Monitor Afkak.Consts Afkak.Props.Open.C02 Afkak.Proofs.Consumer

/-! ## Chains -/

theorem succIn_lt (log : List Msg) (l : Int) (x : Msg) (h : C02.succIn log l = some x) : l < x.off := by
  unfold C02.succIn C02.firstFrom at h
  have hm := List.mem_of_mem_head? h
  simp only [List.mem_filter, decide_eq_true_eq] at hm
  omega

theorem chainAfter_lt (log : List Msg) : ∀ (ms : List Msg) (l : Int), chainAfter log l ms = true → ∀ x ∈ ms, l < x.off
  | [], _, _, _, hx => by cases hx
  | y :: ys, l, h, x, hx => by
    simp only [chainAfter, Bool.and_eq_true, beq_iff_eq] at h
    have h1 := succIn_lt log l y h.1
    rcases List.mem_cons.mp hx with rfl | hx'
    · exact h1
    · have := chainAfter_lt log ys y.off h.2 x hx'
      omega

theorem chainAfter_append (log : List Msg) : ∀ (xs ys : List Msg) (a l : Int), C02.gapRest log a xs = some l →
    chainAfter log l ys = true → chainAfter log a (xs ++ ys) = true
  | [], ys, a, l, h, hy => by
    simp only [C02.gapRest, Option.some.injEq] at h; subst h; simpa using hy
  | x :: xs, ys, a, l, h, hy => by
    simp only [C02.gapRest] at h
    split at h
    · rename_i hs
      simp only [List.cons_append, chainAfter, hs, Bool.true_and]
      exact chainAfter_append log xs ys x.off l h hy
    · cases h

theorem chainAfter_gapRest (log : List Msg) : ∀ (xs : List Msg) (a l : Int), C02.gapRest log a xs = some l →
    chainAfter log a xs = true := by
  intro xs a l h
  have := chainAfter_append log xs [] a l h rfl
  simpa using this

theorem chainOk_iff (log : List Msg) : ∀ (y : Msg) (r : List Msg), chainOk log (y :: r) = chainAfter log y.off r
  | _, [] => rfl
  | y, z :: r => by
    simp only [chainOk, chainAfter]
    rw [chainOk_iff log z r]

theorem filter_above (log : List Msg) (s : Int) : ∀ (ms : List Msg) (l : Int), chainAfter log l ms = true → s ≤ l →
    committed s ms = [] := by
  intro ms l h hs
  have := chainAfter_lt log ms l h
  simp only [committed, List.filter_eq_nil_iff, decide_eq_true_eq]
  intro x hx
  have := this x hx
  omega

/-- the committed part of a chain that contains the stored offset, followed by a chain that starts after the stored
    offset, is a chain -/
theorem chain_join (log : List Msg) (s : Int) (e : List Msg) (he : chainAfter log s e = true) :
    ∀ (d : List Msg) (a : Int), chainAfter log a d = true → (∃ x ∈ d, x.off = s) →
      chainAfter log a (committed s d ++ e) = true
  | [], _, _, ⟨x, hx, _⟩ => by cases hx
  | y :: d, a, h, ⟨x, hx, hxs⟩ => by
    have hall := chainAfter_lt log (y :: d) a h
    simp only [chainAfter, Bool.and_eq_true, beq_iff_eq] at h
    have hlt := chainAfter_lt log d y.off h.2
    rcases List.mem_cons.mp hx with rfl | hx'
    · have hnil := filter_above log x.off d x.off h.2 (Int.le_refl _)
      simp only [committed] at hnil
      simp only [committed, List.filter_cons, hxs, Int.le_refl, decide_true, if_true]
      rw [← hxs, hnil]
      simp only [List.nil_append, List.cons_append, chainAfter, h.1, beq_self_eq_true, Bool.true_and]
      rw [hxs]; exact he
    · have hy : y.off ≤ s := by have := hlt x hx'; omega
      simp only [committed, List.filter_cons, hy, decide_true, if_true, List.cons_append, chainAfter, h.1, beq_self_eq_true,
        Bool.true_and]
      exact chain_join log s e he d y.off h.2 ⟨x, hx', hxs⟩

/-! ## The gap monitor -/

theorem gap_sticky (log : List Msg) (m : C02.GapSt) (x : Item) (h : m.bad = true) : (C02.gapStep log m x).bad = true := by
  cases x with
  | ob o =>
    cases o <;> simp only [C02.gapStep, h]
    rename_i blk
    unfold C02.gapBlock
    cases blk with
    | nil => rfl
    | cons b bs => simp only []; (repeat' split); all_goals simp [h]
  | ev e => cases e <;> simp only [C02.gapStep, h] <;> (try split) <;> simp [h]
  | rej e => simp only [C02.gapStep, h]

theorem gap_sticky_foldl (log : List Msg) : ∀ (l : List Item) (m : C02.GapSt), (l.foldl (C02.gapStep log) m).bad = false → m.bad = false
  | [], _, h => h
  | x :: l, m, h => by
    have := gap_sticky_foldl log l _ h
    cases hb : m.bad with
    | false => rfl
    | true => rw [gap_sticky log m x hb] at this; cases this

theorem gap_other (log : List Msg) (m : C02.GapSt) (x : Item) (h1 : isProc x = false) (h2 : isJump x = false) :
    C02.gapStep log m x = m := by
  cases x with
  | ob o => cases o <;> simp_all [C02.gapStep, isProc, isJump]
  | ev e => cases e <;> simp_all [C02.gapStep, isJump]
  | rej e => rfl

/-- what an accepted block says -/
theorem gapBlock_ok (log : List Msg) (m : C02.GapSt) (blk : List Msg) (h : (C02.gapBlock log m blk).bad = false) :
    ∃ b bs l, blk = b :: bs ∧ C02.gapRest log b.off bs = some l ∧ (C02.gapBlock log m blk).last = some l ∧
      (((∃ l0, m.last = some l0 ∧ C02.succIn log l0 = some b) ∧ (m.from? = none → (C02.gapBlock log m blk).from? = none)) ∨
       ((∃ f, m.from? = some f ∧ C02.firstFrom log f = some b) ∧ (C02.gapBlock log m blk).from? = none)) := by
  cases blk with
  | nil => simp [C02.gapBlock] at h
  | cons b bs =>
    cases hr : C02.gapRest log b.off bs with
    | none => simp [C02.gapBlock, hr] at h
    | some l =>
      refine ⟨b, bs, l, rfl, hr, ?_⟩
      have second : (∀ l0, m.last = some l0 → C02.succIn log l0 ≠ some b) →
          (C02.gapBlock log m (b :: bs)).last = some l ∧
          ((∃ f, m.from? = some f ∧ C02.firstFrom log f = some b) ∧ (C02.gapBlock log m (b :: bs)).from? = none) := by
        intro hno
        cases hfm : m.from? with
        | none =>
          cases hl : m.last with
          | none => simp [C02.gapBlock, hr, hl, hfm] at h
          | some l0 => have := hno l0 hl; simp [C02.gapBlock, hr, hl, hfm, this] at h
        | some f =>
          by_cases hs : C02.firstFrom log f = some b
          · cases hl : m.last with
            | none => exact ⟨by simp [C02.gapBlock, hr, hl, hfm, hs], ⟨f, rfl, hs⟩, by simp [C02.gapBlock, hr, hl, hfm, hs]⟩
            | some l0 =>
              have := hno l0 hl
              exact ⟨by simp [C02.gapBlock, hr, hl, hfm, hs, this], ⟨f, rfl, hs⟩, by simp [C02.gapBlock, hr, hl, hfm, hs, this]⟩
          · cases hl : m.last with
            | none => simp [C02.gapBlock, hr, hl, hfm, hs] at h
            | some l0 => have := hno l0 hl; simp [C02.gapBlock, hr, hl, hfm, hs, this] at h
      cases hl : m.last with
      | none =>
        obtain ⟨a1, a2⟩ := second (by intro l0 h0; rw [hl] at h0; cases h0)
        exact ⟨a1, Or.inr a2⟩
      | some l0 =>
        by_cases hs : C02.succIn log l0 = some b
        · exact ⟨by simp [C02.gapBlock, hr, hl, hs], Or.inl ⟨⟨l0, rfl, hs⟩, fun hfn => by simp [C02.gapBlock, hr, hl, hs, hfn]⟩⟩
        · obtain ⟨a1, a2⟩ := second (by intro l1 h1; rw [hl] at h1; cases h1; exact hs)
          exact ⟨a1, Or.inr a2⟩

/-- continuing: no pending (re)start, `l` was delivered last -/
theorem gap_cont (log : List Msg) : ∀ (post : List Item) (m : C02.GapSt) (l : Int), m.from? = none → m.last = some l →
    post.all (fun x => !isJump x) = true → (post.foldl (C02.gapStep log) m).bad = false →
    chainAfter log l (delivered post) = true
  | [], _, _, _, _, _, _ => rfl
  | x :: post, m, l, hf, hl, hj, hb => by
    simp only [List.all_cons, Bool.and_eq_true, Bool.not_eq_eq_eq_not, Bool.not_true] at hj
    simp only [List.foldl_cons] at hb
    cases hp : isProc x with
    | false =>
      rw [gap_other log m x hp hj.1] at hb
      rw [delivered_cons_other x post hp]
      exact gap_cont log post m l hf hl (by simpa using hj.2) hb
    | true =>
      obtain ⟨blk, rfl⟩ : ∃ blk, x = .ob (.proc blk) := by
        cases x with
        | ob o => cases o <;> simp_all [isProc]
        | _ => simp [isProc] at hp
      have hb1 := gap_sticky_foldl log post _ hb
      simp only [C02.gapStep] at hb hb1
      obtain ⟨b, bs, l', rfl, hr, hlast, hcase⟩ := gapBlock_ok log m _ hb1
      rcases hcase with ⟨⟨l0, hl0, hs⟩, hfrom⟩ | ⟨⟨f, hf', _⟩, _⟩
      · rw [hl] at hl0; cases hl0
        have ih := gap_cont log post _ l' (hfrom hf) hlast (by simpa using hj.2) hb
        rw [delivered_cons_proc]
        simp only [List.cons_append, chainAfter, hs, beq_self_eq_true, Bool.true_and]
        exact chainAfter_append log bs _ b.off l' hr ih
      · rw [hf] at hf'; cases hf'

/-- starting: nothing delivered yet in this run; the first block takes the pending start position -/
theorem gap_first (log : List Msg) : ∀ (post : List Item) (m : C02.GapSt), m.last = none →
    post.all (fun x => !isJump x) = true → (post.foldl (C02.gapStep log) m).bad = false →
    ∀ y rest, delivered post = y :: rest → ∃ f, m.from? = some f ∧ C02.firstFrom log f = some y ∧ chainAfter log y.off rest = true
  | [], _, _, _, _, y, rest, hd => by simp [delivered] at hd
  | x :: post, m, hl, hj, hb, y, rest, hd => by
    simp only [List.all_cons, Bool.and_eq_true, Bool.not_eq_eq_eq_not, Bool.not_true] at hj
    simp only [List.foldl_cons] at hb
    cases hp : isProc x with
    | false =>
      rw [gap_other log m x hp hj.1] at hb
      rw [delivered_cons_other x post hp] at hd
      exact gap_first log post m hl (by simpa using hj.2) hb y rest hd
    | true =>
      obtain ⟨blk, rfl⟩ : ∃ blk, x = .ob (.proc blk) := by
        cases x with
        | ob o => cases o <;> simp_all [isProc]
        | _ => simp [isProc] at hp
      have hb1 := gap_sticky_foldl log post _ hb
      simp only [C02.gapStep] at hb hb1
      obtain ⟨b, bs, l', rfl, hr, hlast, hcase⟩ := gapBlock_ok log m _ hb1
      rcases hcase with ⟨⟨l0, hl0, _⟩, _⟩ | ⟨⟨f, hf', hs⟩, hfrom⟩
      · rw [hl] at hl0; cases hl0
      · have ih := gap_cont log post _ l' hfrom hlast (by simpa using hj.2) hb
        rw [delivered_cons_proc] at hd
        simp only [List.cons_append, List.cons.injEq] at hd
        obtain ⟨rfl, rfl⟩ := hd
        exact ⟨f, hf', hs, chainAfter_append log bs _ b.off l' hr ih⟩

/-- before anything is delivered the monitor has no `last` (and none saved) -/
theorem gap_pre (log : List Msg) : ∀ (pre : List Item) (m : C02.GapSt), m.last = none → m.savedLast = none →
    pre.all (fun x => !isProc x) = true →
    (pre.foldl (C02.gapStep log) m).last = none ∧ (pre.foldl (C02.gapStep log) m).savedLast = none
  | [], _, h1, h2, _ => ⟨h1, h2⟩
  | x :: pre, m, h1, h2, hp => by
    simp only [List.all_cons, Bool.and_eq_true, Bool.not_eq_eq_eq_not, Bool.not_true] at hp
    simp only [List.foldl_cons]
    refine gap_pre log pre _ ?_ ?_ (by simpa using hp.2)
    · cases x with
      | ob o => cases o <;> simp_all [C02.gapStep, isProc]
      | ev e => cases e <;> simp only [C02.gapStep] <;> (try split) <;> simp_all
      | rej e => exact h1
    · cases x with
      | ob o => cases o <;> simp_all [C02.gapStep, isProc]
      | ev e => cases e <;> simp only [C02.gapStep] <;> (try split) <;> simp_all
      | rej e => exact h2

end Afkak.Proofs.Consumer.A5
