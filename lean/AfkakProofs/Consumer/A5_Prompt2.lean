import AfkakProofs.Consumer.A5_Prompt1
/-!
# C02 prompt delivery (2): the handlers that reach the re-entrant API (commit results, `shutdown()`'s continuations)
-/
namespace Afkak.Proofs.Consumer.P
open Afkak.Consumer Afkak.Monitor Afkak.Consts Afkak.Proofs.Consumer

/-- the re-entrant API one level down.  `stopCore` leaves window `wR` open (its caller emits `stopReturned` /
    `shutdownFired`); `shutdown()` is taken together with the `act shutdown` item that announces it (the monitor saves
    and restores `shut` around a rejected call). -/
structure OpsP (inner : Ops) : Prop where
  stop : PresH0 inner.stop
  stopCore : ∀ s, Hp0 s → HRel True False False False s (inner.stopCore s)
  commit : PresH0 inner.commit
  shutdown : ∀ s, Hp0 s → HRel0 s (inner.shutdown (emit (.act .shutdown) s))

/-- after a crash nothing but the error flag is claimed -/
theorem Hp.of_crashed {a b c d a' b' c' d' : Prop} {x : St} (h : Hp a b c d x) (hc : x.crashed = true) : Hp a' b' c' d' x := by
  refine ⟨h.bad, h.pk, h.pkb, h.parkRun, ?_, ?_, ?_, ?_, ?_, ?_, ?_, ?_, ?_, ?_, ?_⟩ <;> (intro hn; rw [hc] at hn; cases hn)

section
variable {cfg : Cfg} {inner : Ops} (hin : OpsP inner)
include hin

theorem acts_p (acts : List Act) : ∀ {s0 s : St}, HRel0 s0 s →
    HRel0 s0 (acts.foldl (fun s a => runAct inner a (emit (.act a) s)) s) := by
  induction acts with
  | nil => intro s0 s h; exact h
  | cons a as ih =>
    intro s0 s h
    simp only [List.foldl_cons]
    refine ih ?_
    cases a with
    | stop => exact hin.stop.step ((emitStop_p False False False False).step h)
    | commit => exact hin.commit.step ((emitCommit_p False False False False).step h)
    | shutdown => exact h.trans (hin.shutdown s h.1)

theorem shutdownFinish_p (r : Option Fail) : PresH0 (shutdownFinish inner r) := by
  intro s hs
  have hx := HRel.refl hs
  unfold shutdownFinish
  simp only []
  have h0 : HRel0 s { s with shutdownD := false } := by pleaf hx
  have h1 : (HRel0 s (nestedStop inner { s with shutdownD := false }) ∧
        ((nestedStop inner { s with shutdownD := false }).crashed = false → (nestedStop inner { s with shutdownD := false }).proc = none)) ∨
      HRel True False False False s (nestedStop inner { s with shutdownD := false }) := by
    unfold nestedStop
    split
    · rename_i hst
      refine Or.inl ⟨h0, fun hc => ?_⟩
      rcases h0.1.stp hc hst with h | h
      · exact h.elim
      · exact h
    · split
      · refine Or.inl ⟨(crash_p False False False False _).step h0, fun hc => ?_⟩
        simp [crash] at hc
      · exact Or.inr (⟨(hin.stopCore _ h0.1).1, h0.2.trans (hin.stopCore _ h0.1).2⟩)
  generalize nestedStop inner { s with shutdownD := false } = s1 at h1 ⊢
  rcases h1 with ⟨h1, hpn⟩ | h1
  · have h2 : HRel0 s { s1 with shuttingDown := false } := by pleaf h1
    split
    · exact (crash_p False False False False _).step h2
    · split
      · pleaf h2
      · pleaf h2
  · have h2 : HRel True False False False s { s1 with shuttingDown := false } := by pleaf h1
    split
    · have h3 := (crash_p True False False False "shutdown: _shutdown_d is None").step h2
      exact ⟨h3.1.of_crashed (by simp [crash]), h3.2⟩
    · split
      · pleaf h2
      · pleaf h2

theorem commitAndStop_p : PresH0 (commitAndStop cfg inner) := by
  intro s hs
  have hx := HRel.refl hs
  have hc := (commitState_p cfg False False False False .shut).step hx
  unfold commitAndStop commitAndStop1
  repeat' split
  all_goals first
    | exact (shutdownFinish_p hin _).step hx
    | exact (shutdownFinish_p hin _).step hc
    | exact hc

theorem shutdownSuccess_p : PresH0 (shutdownSuccess cfg inner) := by
  intro s hs
  unfold shutdownSuccess
  split
  · exact (commitAndStop_p hin).step (HRel.refl hs)
  · exact (shutdownFinish_p hin none).step (HRel.refl hs)

theorem fireWaiter_p (r : DRes) (w : Waiter) : PresH0 (fun s => fireWaiter cfg inner r s w) := by
  intro s hs
  have hx := HRel.refl hs
  cases w <;> cases r <;> simp only [fireWaiter]
  all_goals first
    | exact hx
    | exact (handleAutoCommitError_p False False False False _).step hx
    | exact (autoCommit_p cfg False False False False _).step hx
    | exact (shutdownSuccess_p hin).step hx
    | exact (shutdownFinish_p hin _).step hx
    | exact (commitAndStop_p hin).step hx
    | pleaf hx

theorem waiters_p (r : DRes) (ws : List Waiter) : ∀ {s0 s : St}, HRel0 s0 s →
    HRel0 s0 (ws.foldl (fireWaiter cfg inner r) s) := by
  induction ws with
  | nil => intro s0 s h; exact h
  | cons w ws ih =>
    intro s0 s h
    simp only [List.foldl_cons]
    exact ih ((fireWaiter_p hin r w).step h)

theorem deliver_p (r : DRes) : PresH0 (deliver cfg inner r) := by
  intro s hs
  have hx := HRel.refl hs
  unfold deliver
  simp only []
  exact waiters_p hin r _ (by pleaf hx)

theorem handleCommitError_p (f : Fail) (d : Rat) (a : Nat) : PresH0 (handleCommitError cfg inner f d a) := by
  intro s hs
  have hx := HRel.refl hs
  unfold handleCommitError
  repeat' split
  all_goals first
    | exact (deliver_p hin _).step hx
    | (simp only []; pleaf hx)

theorem cancelWaiters_p : ∀ (fuel : Nat), PresH0 (cancelWaiters cfg inner fuel) := by
  intro fuel
  induction fuel with
  | zero =>
    intro s hs
    unfold cancelWaiters
    split
    · exact HRel.refl hs
    · exact (crash_p False False False False _).step (HRel.refl hs)
  | succ n ih =>
    intro s hs
    have hx := HRel.refl hs
    unfold cancelWaiters
    split
    · exact hx
    · simp only []
      exact (ih).step ((fireWaiter_p hin _ _).step (by pleaf hx))

theorem stopCommitReq_p : PresH0 (stopCommitReq cfg inner) := by
  intro s hs
  have hx := HRel.refl hs
  unfold stopCommitReq
  split
  · simp only []
    split
    · exact (handleCommitError_p hin _ _ _).step (by pleaf hx)
    · pleaf hx
  · exact hx

end
end Afkak.Proofs.Consumer.P
