import AfkakProofs.Consumer.A_Gap3
/-!
# No gap, no duplicate (C02): the processing loop, fetch replies, the processor's result
-/
namespace Afkak.Proofs.Consumer.A
open Afkak.Consumer Afkak.Monitor Afkak.Consts Afkak.Props.Open.C02 Afkak.Proofs.Consumer

/-- like `HRel`, for handlers that may leave a generator suspended -/
def LRel (log : List Msg) (s0 x : St) : Prop :=
  Hg log x ∧ x.frame = s0.frame ∧ (s0.parked = none → x.parked = none)

theorem HRel.toL {log : List Msg} {a b : St} (h : HRel log a b) : LRel log a b := ⟨h.1, h.2.1, h.2.2.1⟩
theorem LRel.refl {log : List Msg} {s : St} (h : Hg log s) : LRel log s s := ⟨h, rfl, fun h => h⟩
theorem LRel.trans {log : List Msg} {a b c : St} (h1 : LRel log a b) (h2 : LRel log b c) : LRel log a c :=
  ⟨h2.1, h2.2.1.trans h1.2.1, fun hp => h2.2.2 (h1.2.2 hp)⟩
theorem PresH.stepL {log : List Msg} {h : St → St} (hh : PresH log h) {s x : St} (hx : LRel log s x) : LRel log s (h x) :=
  hx.trans (hh x hx.1).toL

section
variable {log : List Msg} {cfg : Cfg} {inner : Ops} (hin : OpsH log inner)
include hin

/-- one iteration, given that the rest of the loop is fine -/
theorem procBody_h (k : St → St × Bool) {s0 : St} (n : Nat) (rest : List Msg)
    (hk : ∀ s', LRel log s0 s' → s'.proc = none → s'.frame = none →
      (s'.msgBlock = true ∨ s'.startD = .none ∨ s'.stopping = true) → LoopG log (rest.drop n) s' →
      LRel log s0 (k s').1 ∧ ((k s').2 = true → (k s').1.proc = none → Post log (k s').1))
    (m : Msg) (hl : (rest.take n).getLast? = some m) (e : PEntry)
    {s : St} (h : LRel log s0 s) (hp : s.proc = none) (hf : s.frame = none)
    (hb : s.msgBlock = true ∨ s.startD = .none ∨ s.stopping = true) (hlg : LoopG log rest s) :
    LRel log s0 (procBody cfg inner k (rest.take n) (rest.drop n) m.off e s).1 ∧
      ((procBody cfg inner k (rest.take n) (rest.drop n) m.off e s).2 = true →
        (procBody cfg inner k (rest.take n) (rest.drop n) m.off e s).1.proc = none →
        Post log (procBody cfg inner k (rest.take n) (rest.drop n) m.off e s).1) := by
  have hfr0 : s0.frame = none := by rw [← h.2.1]; exact hf
  have g1 := procEnter_h h.1 hp hf hb n rest m hl hlg
  generalize rest.take n = blk at *
  generalize rest.drop n = rest' at *
  have g2 : HRel log (procEnter blk rest' m.off s) (procActs inner e.acts (procEnter blk rest' m.off s)) :=
    acts_h hin e.acts (HRel.refl g1)
  have f2 : (procActs inner e.acts (procEnter blk rest' m.off s)).frame = some { rest := rest', last := m.off } := g2.2.1
  have p2 : (procActs inner e.acts (procEnter blk rest' m.off s)).proc = none := g2.2.2.2 (by simpa [procEnter, emit] using hp)
  obtain ⟨g3, fr3, pk3, pn3, dd3, l3, b3⟩ := procLeave_h g2.1 rest' m.off f2 p2 e.res
  have r3 : LRel log s0 (procLeave e.res rest' m.off (procActs inner e.acts (procEnter blk rest' m.off s))) := by
    refine ⟨g3, fr3.trans hfr0.symm, fun h0 => ?_⟩
    exact pk3.trans (g2.2.2.1 (by simpa [procEnter, emit] using h.2.2 h0))
  unfold procBody
  simp only []
  generalize procLeave e.res rest' m.off (procActs inner e.acts (procEnter blk rest' m.off s)) = s3 at *
  clear g1 g2 f2 p2
  cases hres : e.res with
  | ok =>
    simp only []
    have p3 : s3.proc = none := pn3 (by rw [hres]; intro h; cases h)
    obtain ⟨k1, k2, k3, k4, k5, k6, k7, k8, k9, k10⟩ := autoCommit_k log cfg true s3 g3
    have r4 : LRel log s0 (autoCommit cfg true s3) := r3.trans ⟨k1, k2, fun hh => k3.trans hh⟩
    split
    · rename_i hcond
      refine ⟨r4, fun _ _ => Or.inl ?_⟩
      simp only [Bool.or_eq_true, beq_iff_eq] at hcond
      unfold DeadS
      rcases hcond with hc | hc
      · exact Or.inr (Or.inl hc)
      · exact Or.inl hc
    · exact hk _ r4 (k6.trans p3) (k2.trans fr3) (by rw [k9, k7]; rcases b3 with b | b | b; exact Or.inl b; exact Or.inr (Or.inl (k10.2 b)); exact Or.inr (Or.inr b))
        (l3.keeps k4 k5)
  | err kd t =>
    simp only []
    have p3 : s3.proc = none := pn3 (by rw [hres]; intro h; cases h)
    obtain ⟨k1, k2, k3, k4, k5, k6, k7, k8, k9, k10⟩ := handleProcessorError_k log (.ext kd t) s3 g3
    have r4 : LRel log s0 (handleProcessorError (.ext kd t) s3) := r3.trans ⟨k1, k2, fun hh => k3.trans hh⟩
    split
    · rename_i hcond
      refine ⟨r4, fun _ _ => Or.inl ?_⟩
      simp only [Bool.or_eq_true, beq_iff_eq] at hcond
      unfold DeadS
      rcases hcond with hc | hc
      · exact Or.inr (Or.inl hc)
      · exact Or.inl hc
    · split
      · exact ⟨r4, fun h' => by cases h'⟩
      · exact hk _ r4 (k6.trans p3) (k2.trans fr3) (by rw [k9, k7]; rcases b3 with b | b | b; exact Or.inl b; exact Or.inr (Or.inl (k10.2 b)); exact Or.inr (Or.inr b))
          (l3.keeps k4 k5)
  | defer =>
    simp only []
    split
    · rename_i hsome
      refine ⟨r3, fun _ hn => ?_⟩
      rw [hn] at hsome; cases hsome
    · rename_i hnone
      have p3 : s3.proc = none := by
        cases hpp : s3.proc with
        | none => rfl
        | some g => rw [hpp] at hnone; exact absurd rfl hnone
      obtain ⟨k1, k2, k3, k4, k5, k6, k7, k8, k9, k10⟩ := handleProcessorError_k log (.ext .cancelled 0) s3 g3
      refine ⟨r3.trans ⟨k1, k2, fun hh => k3.trans hh⟩, fun _ _ => Or.inl ?_⟩
      unfold DeadS
      rcases dd3 hres p3 with d | d
      · exact Or.inl (k10.2 d)
      · exact Or.inr (Or.inl (k7.trans d))

omit hin in
theorem take_nonempty (n : Nat) (rest : List Msg) (m : Msg) (hl : (rest.take n).getLast? = some m) :
    (rest.drop n).length < rest.length := by
  have hn : n ≠ 0 := by intro h; subst h; simp at hl
  have hr : rest ≠ [] := by intro h; subst h; simp at hl
  have : 0 < rest.length := List.length_pos_iff.2 hr
  simp only [List.length_drop]
  omega

/-- The processing loop, entered with no generator suspended or executing. -/
theorem procLoop_h : ∀ (fuel : Nat) (rest : List Msg) {s0 s : St}, LRel log s0 s → s.proc = none → s.frame = none →
    (s.msgBlock = true ∨ s.startD = .none ∨ s.stopping = true) → rest.length < fuel →
    (s.stopping = false → s.shuttingDown = false → LoopG log rest s) →
    LRel log s0 (procLoop cfg inner fuel rest s).1 ∧
      ((procLoop cfg inner fuel rest s).2 = true → (procLoop cfg inner fuel rest s).1.proc = none →
        Post log (procLoop cfg inner fuel rest s).1) := by
  intro fuel
  induction fuel with
  | zero => intro rest s0 s _ _ _ _ hlen; exact absurd hlen (Nat.not_lt_zero _)
  | succ n ih =>
    intro rest s0 s h hp hf hb hlen hlg
    unfold procLoop
    split
    · rename_i hguard
      refine ⟨h, fun _ _ => ?_⟩
      simp only [Bool.or_eq_true, List.isEmpty_iff] at hguard
      by_cases hst : s.stopping = true
      · exact Or.inl (Or.inr (Or.inl hst))
      by_cases hsh : s.shuttingDown = true
      · exact Or.inl (Or.inr (Or.inr hsh))
      have hre : rest = [] := by
        rcases hguard with (hg | hg) | hg
        · exact hg
        · exact absurd hg hsh
        · exact absurd hg hst
      subst hre
      right
      have := hlg (by simpa using hst) (by simpa using hsh)
      unfold LoopG Pos3 at this
      rcases this with ⟨l, h1, _, h3⟩ | ⟨x, xs, h1, _⟩
      · unfold IdlePos
        rcases h3 with h3 | h3 | h3
        · exact Or.inl h3
        · exact Or.inr (Or.inl h3)
        · right; right
          rw [h1, h3, topOff_nil]; congr 1; omega
      · cases h1
    · rename_i hguard
      simp only [Bool.or_eq_true, not_or, Bool.not_eq_true] at hguard
      split
      · rename_i hnone
        -- not reached: a non-empty list has a non-empty first block
        exfalso
        have hr : rest ≠ [] := by intro h'; subst h'; simp at hguard
        have hlen' : 0 < rest.length := List.length_pos_iff.2 hr
        have hbs : blockSize cfg rest.length ≠ 0 := by
          unfold blockSize; split
          · rename_i ha; simpa using ha
          · omega
        cases hrest : rest with
        | nil => exact hr hrest
        | cons a t =>
          rw [hrest] at hnone
          cases hb' : blockSize cfg (a :: t).length with
          | zero => rw [hrest] at hbs; exact hbs hb'
          | succ j => rw [hb'] at hnone; simp [List.take_succ_cons] at hnone
      · rename_i lastMsg hl
        exact procBody_h hin _ _ rest
          (fun s' h' p' f' b' l' => ih _ h' p' f' b' (by have := take_nonempty _ rest lastMsg hl; omega) (fun _ _ => l'))
          lastMsg hl _ h hp hf hb (hlg hguard.2 hguard.1.2)

/-- `finally: … _process_messages(messages)` with no block in progress; `msgs` was extracted just now and the fetch
    position moved past it. -/
theorem deliverBlock_h (msgs : List Msg) (fo' : Int) {s : St} (hs : Hg log s) (hp : s.proc = none) (hf : s.frame = none)
    (hpk : s.parked = none) (hrq : ∀ k c, s.requestD ≠ .pending k .fetch c)
    (hT : (msgs = [] ∧ fo' = s.fetchOffset) ∨
      (∃ x xs, msgs = x :: xs ∧ chainFrom log x.off xs ∧ (s.stopping = false → s.shuttingDown = false → Acc log (gm log s) x) ∧
        fo' = topOff x.off xs + 1)) :
    LRel log s (deliverBlock cfg inner msgs { s with fetchOffset := fo' }) := by
  have hx := LRel.refl hs
  unfold deliverBlock
  rcases hT with ⟨h1, h2⟩ | ⟨x, xs, h1, h2, h3, h4⟩
  · subst h1 h2
    simp only [List.isEmpty_nil, if_true]
    exact hx
  · subst h1
    simp only [List.isEmpty_cons, Bool.false_eq_true, if_false]
    have h1 : LRel log s { s with fetchOffset := fo', msgBlock := true } := by
      obtain ⟨hs_, e1, e2⟩ := hx
      refine ⟨?_, rfl, fun _ => hpk⟩
      hg_fields hs_
    obtain ⟨h2', z2⟩ := procLoop_h hin ((x :: xs).length + 1) (x :: xs) h1 hp hf (Or.inl rfl) (Nat.lt_succ_self _)
      (fun a b => Or.inr ⟨x, xs, rfl, by simpa [gm] using h3 a b, h2, h4⟩)
    generalize (procLoop cfg inner ((x :: xs).length + 1) (x :: xs) { s with fetchOffset := fo', msgBlock := true }) = res at *
    obtain ⟨s2, done⟩ := res
    simp only [] at *
    split
    · exact h2'
    · rename_i hc
      have hp2 : s2.proc = none := by
        cases hpp : s2.proc with
        | none => rfl
        | some g => simp [hpp] at hc
      have hpost : Post log s2 := z2 (by
        cases hd : done with
        | true => rfl
        | false => simp [hd] at hc) hp2
      have hf2 : s2.frame = none := h2'.2.1.trans hf
      unfold finishSimple
      split
      · obtain ⟨hs_, e1, e2⟩ := h2'
        refine ⟨?_, e1, fun _ => rfl⟩
        unfold Post at hpost
        hg_fields hs_
      · exact h2'

omit hin in
theorem startErrback_fo (f : Fail) (s : St) (fo' : Int) :
    startErrback f { s with fetchOffset := fo' } = { startErrback f s with fetchOffset := fo' } := by
  unfold startErrback emit
  cases h : s.startD <;> simp [h]

omit hin in
theorem acc_of_idle (x : Msg) {s : St} (h0 : 0 ≤ s.fetchOffset) (hi : IdlePos log s)
    (hx : C02.firstFrom log s.fetchOffset = some x) : Acc log (gm log s) x := by
  rcases hi with h | h | h
  · omega
  · exact Or.inr ⟨_, h, hx⟩
  · refine Or.inl ⟨_, h, ?_⟩
    unfold C02.succIn
    rw [Int.sub_add_cancel]; exact hx

/-- `_handle_fetch_response` after `self._request_d = None`, for a faithful reply -/
theorem fetchTail_h (hcfg : ∀ v, cfg.reset = some v → v < 0) (via : Bool) (r : Reply) {s : St} (hs : Hg log s)
    (hp : s.proc = none) (hf : s.frame = none) (hpk : s.parked = none) (hrq : s.requestD = .none)
    (hpos : s.stopping = true ∨ s.shuttingDown = true ∨ IdlePos log s)
    (hr : replyFaithful log s.fetchOffset r = true) : LRel log s (fetchTail cfg inner via r s) := by
  simp only [replyFaithful, Bool.and_eq_true, decide_eq_true_eq] at hr
  obtain ⟨⟨⟨h0, _⟩, hch⟩, hhead⟩ := hr
  -- what the message loop takes
  have hT : ∀ y : St, gm log y = gm log s → y.fetchOffset = s.fetchOffset → y.stopping = s.stopping → y.shuttingDown = s.shuttingDown →
      (((extract s.fetchOffset r.msgs).1 = [] ∧ (extract s.fetchOffset r.msgs).2 = y.fetchOffset) ∨
      (∃ x xs, (extract s.fetchOffset r.msgs).1 = x :: xs ∧ chainFrom log x.off xs ∧
        (y.stopping = false → y.shuttingDown = false → Acc log (gm log y) x) ∧
        (extract s.fetchOffset r.msgs).2 = topOff x.off xs + 1)) := by
    intro y e1 e2 e3 e4
    rcases extract_faithful log r.msgs s.fetchOffset hch with ⟨a1, a2, _⟩ | ⟨x, xs, a1, a2, a3, a4⟩
    · exact Or.inl ⟨a1, a2.trans e2.symm⟩
    · refine Or.inr ⟨x, xs, a1, a2, fun b1 b2 => ?_, a4⟩
      rw [a3] at hhead
      simp only [beq_iff_eq] at hhead
      rw [e1]
      rcases hpos with h | h | h
      · rw [e3] at b1; rw [h] at b1; cases b1
      · rw [e4] at b2; rw [h] at b2; cases b2
      · exact acc_of_idle x h0 h hhead
  have hD : ∀ y : St, Hg log y → y.proc = none → y.frame = none → y.parked = none → y.requestD = .none →
      gm log y = gm log s → y.fetchOffset = s.fetchOffset → y.stopping = s.stopping → y.shuttingDown = s.shuttingDown →
      LRel log y (deliverBlock cfg inner (extract s.fetchOffset r.msgs).1 { y with fetchOffset := (extract s.fetchOffset r.msgs).2 }) :=
    fun y g1 g2 g3 g4 g5 e1 e2 e3 e4 => deliverBlock_h hin _ _ g1 g2 g3 g4 (by rw [g5]; intro k c h; cases h) (hT y e1 e2 e3 e4)
  have hE : ∀ (f : Fail) {y z : St}, LRel log y z → y.parked = none → LRel log y (handleFetchError cfg f z) :=
    fun f y z h1 h2 => h1.trans (handleFetchError_h log cfg hcfg f (HRel.refl h1.1) (h1.2.2 h2)).toL
  unfold fetchTail
  simp only []
  generalize hfo' : (extract s.fetchOffset r.msgs).2 = fo' at *
  generalize hmsgs : (extract s.fetchOffset r.msgs).1 = msgs at *
  have hbase := hD s hs hp hf hpk hrq rfl rfl rfl rfl
  split
  · exact (retryFetch_k log cfg _).toH.stepL hbase
  · split
    · rename_i b hb
      have hy : Hg log { s with bufferSize := b } := by hg_fields hs
      have := hD { s with bufferSize := b } hy hp hf hpk hrq (by simp [gm]) rfl rfl rfl
      exact (retryFetch_k log cfg _).toH.stepL ⟨this.1, this.2.1, this.2.2⟩
    · obtain ⟨k1, k2, k3, k4, k5, k6, k7, k8, k9, k10⟩ := startErrback_k log .tooSmall s hs
      have h3 := hD (startErrback .tooSmall s) k1 (k6.trans hp) (k2.trans hf) (k3.trans hpk)
        (by unfold startErrback emit; split <;> simpa using hrq) k4 k5 k7 k8
      rw [startErrback_fo]
      have h3' : LRel log s (deliverBlock cfg inner msgs { startErrback .tooSmall s with fetchOffset := fo' }) :=
        LRel.trans ⟨k1, k2, fun hh => k3.trans hh⟩ h3
      split
      · exact hE _ h3' hpk
      · exact h3'
  · split
    · exact hbase
    · exact hE _ hbase hpk

end
end Afkak.Proofs.Consumer.A
