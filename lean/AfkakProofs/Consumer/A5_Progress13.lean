import AfkakProofs.Consumer.A5_ProgressZ
/-!
# C02, liveness half (13): bounded continuation from a running state whose processor result is pending
(`c02_progress_proc`, consumers without a group: the result arrives, the queued blocks are handed over, then `C02_progress`)
-/
namespace Afkak.Proofs.Consumer.L
open Afkak.Consumer Afkak.Monitor Afkak.Consts Afkak.Props.Open.C02 Afkak.Proofs.Consumer

/-- the fetch requests observed so far -/
def isFetchOb : Item → Bool
  | .ob (.fetch _ _ _) => true
  | _ => false

def fetchObs (out : List Item) : List Item := out.filter isFetchOb

theorem all_fetchObs (P : Item → Bool) (hP : ∀ i, isFetchOb i = false → P i = true) : ∀ out : List Item, out.all P = (fetchObs out).all P
  | [] => rfl
  | i :: rest => by
    have ih := all_fetchObs P hP rest
    unfold fetchObs at ih ⊢
    rw [List.filter_cons]
    cases hi : isFetchOb i
    · simp only [List.all_cons, hP i hi, Bool.true_and, Bool.false_eq_true, if_false]; exact ih
    · simp only [List.all_cons, if_true, ih]

/-- `uniqueFetch` / `freshNext` only look at the fetch observations -/
theorem uniqueFetch_congr (s s' : St) (h1 : fetchObs s'.out = fetchObs s.out) (h2 : s'.requestD = s.requestD)
    (h3 : s'.fetchOffset = s.fetchOffset) : uniqueFetch s' = uniqueFetch s := by
  unfold uniqueFetch reqIdOf
  rw [all_fetchObs _ ?_ s'.out, all_fetchObs _ ?_ s.out, h1, h2, h3]
  · intro i hi; cases i with
    | ob o => cases o <;> simp_all [isFetchOb]
    | _ => rfl
  · intro i hi; cases i with
    | ob o => cases o <;> simp_all [isFetchOb]
    | _ => rfl

theorem freshNext_congr (s s' : St) (h1 : fetchObs s'.out = fetchObs s.out) (h2 : s'.nextReq = s.nextReq) :
    freshNext s' = freshNext s := by
  unfold freshNext
  rw [all_fetchObs _ ?_ s'.out, all_fetchObs _ ?_ s.out, h1, h2]
  · intro i hi; cases i with
    | ob o => cases o <;> simp_all [isFetchOb]
    | _ => rfl
  · intro i hi; cases i with
    | ob o => cases o <;> simp_all [isFetchOb]
    | _ => rfl

/-- no fetch request was issued between `s` and `s'`, no request id was taken, nothing crashed -/
def SameF (s s' : St) : Prop := fetchObs s'.out = fetchObs s.out ∧ s'.nextReq = s.nextReq ∧ s'.crashed = s.crashed

theorem SameF.refl (s : St) : SameF s s := ⟨rfl, rfl, rfl⟩
theorem SameF.trans {a b c : St} (h1 : SameF a b) (h2 : SameF b c) : SameF a c :=
  ⟨h2.1.trans h1.1, h2.2.1.trans h1.2.1, h2.2.2.trans h1.2.2⟩

theorem autoCommit_nogroup (cfg : Cfg) (s : St) (hg : cfg.group = false ∨ cfg.autoN = 0) : autoCommit cfg true s = s := by
  unfold autoCommit
  rcases hg with hg | hg <;> simp [hg]

theorem okCall_sf (blk rest' : List Msg) (last : Int) (s : St) : SameF s (okCall blk rest' last s) := ⟨rfl, rfl, rfl⟩

theorem procLoop_sf (cfg : Cfg) (inner : Ops) (hg : cfg.group = false ∨ cfg.autoN = 0) : ∀ (fuel : Nat) (rest : List Msg) (s : St), Going s →
    SameF s (procLoop cfg inner fuel rest s).1
  | 0, _, s, _ => SameF.refl s
  | fuel + 1, rest, s, hgo => by
    unfold procLoop
    split
    · exact SameF.refl s
    split
    · exact SameF.refl s
    · rename_i lastMsg _
      rw [head_ok s hgo.2.2.2, procBody_ok cfg inner _ _ _ _ s hgo]
      have hgo2 := okCall_going cfg (rest.take (blockSize cfg rest.length)) (rest.drop (blockSize cfg rest.length)) lastMsg.off s hgo
      rw [autoCommit_nogroup cfg _ hg] at hgo2 ⊢
      exact (okCall_sf _ _ _ s).trans (procLoop_sf cfg inner hg fuel _ _ hgo2)

/-- the processor's result arrives (no group, no shutdown waiting, nothing parked, the processor returns at once from now
    on): the queued blocks are handed over, the block is cleared; no request goes out -/
theorem step_procOk (cfg : Cfg) (s : St) (g : Gen) (hg : cfg.group = false ∨ cfg.autoN = 0) (hc : s.crashed = false) (hp : s.proc = some g)
    (hsw : g.shutWait = false) (hgo : Going s) (hmb : s.msgBlock = true) (hpk : s.parked = none) :
    Going (step cfg s .procOk) ∧ (step cfg s .procOk).crashed = false ∧ (step cfg s .procOk).proc = none ∧
      (step cfg s .procOk).msgBlock = false ∧ (step cfg s .procOk).requestD = s.requestD ∧
      (step cfg s .procOk).retryCall = s.retryCall ∧ (step cfg s .procOk).fetchOffset = s.fetchOffset ∧
      fetchObs (step cfg s .procOk).out = fetchObs s.out ∧ (step cfg s .procOk).nextReq = s.nextReq ∧
      s.out <:+ (step cfg s .procOk).out := by
  have hstep : step cfg s .procOk =
      (if (procResult cfg (opsN cfg cfg.depth) g none { s with out := .ev .procOk :: s.out }).crashed = true
       then procResult cfg (opsN cfg cfg.depth) g none { s with out := .ev .procOk :: s.out }
       else probe (procResult cfg (opsN cfg cfg.depth) g none { s with out := .ev .procOk :: s.out })) := by
    simp [step, hc, stepCore, hp]
  have hgoa : Going ({ s with out := .ev .procOk :: s.out, proc := none, lastProcessed := some g.last } : St) := hgo
  have hres : procResult cfg (opsN cfg cfg.depth) g none { s with out := .ev .procOk :: s.out } =
      procResume cfg (opsN cfg cfg.depth) g false { s with out := .ev .procOk :: s.out, proc := none, lastProcessed := some g.last } := by
    unfold procResult procFired
    simp only [hsw, Bool.false_eq_true, if_false]
    rw [autoCommit_nogroup cfg _ hg]
  obtain ⟨i1, i2, i3, _⟩ := procLoop_ok cfg (opsN cfg cfg.depth) (g.rest.length + 1) g.rest
    { s with out := .ev .procOk :: s.out, proc := none, lastProcessed := some g.last } (by omega) hgoa
  have i5 := procLoop_sf cfg (opsN cfg cfg.depth) hg (g.rest.length + 1) g.rest
    { s with out := .ev .procOk :: s.out, proc := none, lastProcessed := some g.last } hgoa
  obtain ⟨k1, k2, k3, k4, k5, k6, k7, k8, k9⟩ := i3
  have hres2 : procResume cfg (opsN cfg cfg.depth) g false { s with out := .ev .procOk :: s.out, proc := none, lastProcessed := some g.last } =
      { (procLoop cfg (opsN cfg cfg.depth) (g.rest.length + 1) g.rest
          { s with out := .ev .procOk :: s.out, proc := none, lastProcessed := some g.last }).1 with msgBlock := false } := by
    unfold procResume
    generalize procLoop cfg (opsN cfg cfg.depth) (g.rest.length + 1) g.rest
      { s with out := .ev .procOk :: s.out, proc := none, lastProcessed := some g.last } = res at *
    obtain ⟨r1, r2⟩ := res
    dsimp only at i1 k1 k2 k6 ⊢
    subst i1
    have hp1 : r1.proc = none := k1
    have hm1 : r1.msgBlock = true := k2.trans hmb
    have hk1 : r1.parked = none := k6.trans hpk
    simp only [Bool.false_eq_true, if_false, hp1, Option.isSome_none, Bool.not_true, Bool.or_self]
    unfold finishFull
    simp only [hm1, if_true, hk1]
    simp [hp1]
  rw [hstep, hres, hres2]
  generalize procLoop cfg (opsN cfg cfg.depth) (g.rest.length + 1) g.rest
    { s with out := .ev .procOk :: s.out, proc := none, lastProcessed := some g.last } = res at *
  obtain ⟨r1, r2⟩ := res
  dsimp only at i2 k1 k2 k3 k4 k5 k6 k7 k8 k9 i5 ⊢
  obtain ⟨f1, f2, f3⟩ := i5
  have hcr : r1.crashed = false := f3.trans hc
  simp only [hcr, Bool.false_eq_true, if_false]
  unfold probe emit
  dsimp only
  refine ⟨i2, rfl, k1, rfl, k4, k3, k5, f1, f2, ?_⟩
  exact (List.suffix_cons _ _).trans (k9.trans (List.suffix_cons _ _))

def noShutWait : Option Gen → Bool
  | some g => !g.shutWait
  | none => false

/-- running without a consumer group (or with `auto_commit_every_n` unset), the processor's result pending (no shutdown waiting for it), no reply parked behind
    it, the processor returns at once from now on; a fetch request outstanding or the refetch timer pending -/
def ProcAt (cfg : Cfg) (s : St) : Bool :=
  (!cfg.group || cfg.autoN == 0) && Running s && noShutWait s.proc && s.msgBlock && s.parked.isNone && okScript s && decide (0 ≤ s.fetchOffset) &&
    ((fetchPending s.requestD && uniqueFetch s) || (noReq s.requestD && timerPending s.retryCall && freshNext s))

/-- the continuation: the processor's result, then `contOf` -/
def contP (log : List Msg) (cfg : Cfg) (s : St) : List Ev := .procOk :: contOf log (step cfg s .procOk)

theorem ready_after_procOk (cfg : Cfg) (s : St) (h : ProcAt cfg s = true) :
    Ready (step cfg s .procOk) = true ∧ (step cfg s .procOk).fetchOffset = s.fetchOffset ∧ s.out <:+ (step cfg s .procOk).out := by
  simp only [ProcAt, Running, Bool.and_eq_true, Bool.or_eq_true, Bool.not_eq_true', beq_iff_eq, decide_eq_true_eq, Option.isNone_iff_eq_none] at h
  obtain ⟨⟨⟨⟨⟨⟨⟨hg, ⟨⟨⟨hc, hst⟩, hsh⟩, hstop⟩⟩, hsw⟩, hmb⟩, hpk⟩, hok⟩, h0⟩, hreq⟩ := h
  obtain ⟨g, hp, hsw'⟩ : ∃ g, s.proc = some g ∧ g.shutWait = false := by
    cases hp : s.proc with
    | none => rw [hp] at hsw; cases hsw
    | some g => rw [hp] at hsw; exact ⟨g, rfl, by simpa [noShutWait] using hsw⟩
  obtain ⟨a1, a2, a3, a4, a5, a6, a7, a8, a9, a10⟩ := step_procOk cfg s g hg hc hp hsw' ⟨hstop, hsh, hst, hok⟩ hmb hpk
  refine ⟨?_, a7, a10⟩
  have hrun : Running (step cfg s .procOk) = true := by
    simp [Running, a2, a1.1, a1.2.1, a1.2.2.1]
  have huf := uniqueFetch_congr s (step cfg s .procOk) a8 a5 a7
  have hfn := freshNext_congr s (step cfg s .procOk) a8 a9
  simp only [Ready, IdleAt, WaitingAt, hrun, a5, a6, a4, a3, a1.2.2.2, a7, h0, huf, hfn, Bool.true_and, Bool.not_false,
    Option.isNone_none, decide_true]
  simpa using hreq

/-- **Progress from a running state whose processor result is pending** (no consumer group, or no count-triggered auto-commit).  The continuation `contP`
    (the processor's result, then the reply carrying the rest of the log - preceded by the timer if it had not fired yet;
    at most 4 events) keeps the environment contract and afterwards every log message at or after the fetch position has been
    handed to the processor in a block observed after `s`. -/
theorem c02_progress_proc (log : List Msg) (cfg : Cfg) (script : List PEntry) (evs : List Ev)
    (hf : FaithfulLog log cfg script evs) (hl : Ascending log) (hi : ProcAt cfg (run cfg script evs) = true) :
    FaithfulLog log cfg script (evs ++ contP log cfg (run cfg script evs)) ∧
      (contP log cfg (run cfg script evs)).length ≤ 4 ∧
      (run cfg script (evs ++ contP log cfg (run cfg script evs))).startD = .pending ∧
      ∀ m ∈ log, (run cfg script evs).fetchOffset ≤ m.off →
        ∃ blk, m ∈ blk ∧
          Fresh (run cfg script evs) (run cfg script (evs ++ contP log cfg (run cfg script evs))) (.ob (.proc blk)) := by
  have hf1 : FaithfulLog log cfg script (evs ++ [.procOk]) := faithful_snoc log cfg script evs hf _ (fun k r he => by cases he)
  obtain ⟨r1, r2, r3⟩ := ready_after_procOk cfg (run cfg script evs) hi
  rw [← run_snoc] at r1 r2 r3
  obtain ⟨p1, p2, p3, p4, p5⟩ := C02_progress log cfg script _ hf1 hl r1
  have hcont : evs ++ [.procOk] ++ contOf log (run cfg script (evs ++ [.procOk])) = evs ++ contP log cfg (run cfg script evs) := by
    unfold contP; rw [run_snoc]; simp
  rw [hcont] at p1 p4 p5
  refine ⟨p1, ?_, p4, fun m hm hge => ?_⟩
  · unfold contP
    rw [← run_snoc]
    simp only [List.length_cons]
    omega
  · obtain ⟨blk, hb1, hb2⟩ := p5 m hm (by rw [r2]; exact hge)
    exact ⟨blk, hb1, Fresh.left r3 hb2⟩

/-! Non-vacuity: log with a compaction gap; the processor returned a Deferred for [3]; the refetch went out. -/
example :
    let log : List Msg := [⟨3, 1⟩, ⟨4, 2⟩, ⟨7, 3⟩]
    let cfg : Cfg := { group := false, autoN := 0, autoS := 0, bufInit := 100, bufMax := none, retryInit := 1, retryMax := 2,
                       maxAttempts := 0, reset := none }
    let script : List PEntry := [{ acts := [], res := .defer }]
    let evs : List Ev := [.start 0, .fetchOk 0 { msgs := [⟨3, 1⟩], tail := .done }, .retryFire]
    FaithfulLog log cfg script evs ∧ Ascending log ∧ ProcAt cfg (run cfg script evs) = true ∧
      (trace cfg script (evs ++ contP log cfg (run cfg script evs))).filterMap (fun | .ob (.proc blk) => some blk | _ => none)
        = [[⟨3, 1⟩], [⟨4, 2⟩, ⟨7, 3⟩]] := by
  refine ⟨A.faithfulB_sound _ _ _ _ (by decide +kernel), by decide, by decide +kernel, by decide +kernel⟩

/-- the statement as meant for `AfkakProps/C02.lean` -/
theorem C02_progress_proc (log : List Msg) (cfg : Cfg) (script : List PEntry) (evs : List Ev)
    (hf : FaithfulLog log cfg script evs) (hl : Ascending log) (hi : ProcAt cfg (run cfg script evs) = true) :
    FaithfulLog log cfg script (evs ++ contP log cfg (run cfg script evs)) ∧
      (contP log cfg (run cfg script evs)).length ≤ 4 ∧
      (run cfg script (evs ++ contP log cfg (run cfg script evs))).startD = .pending ∧
      ∀ m ∈ log, (run cfg script evs).fetchOffset ≤ m.off →
        ∃ blk, m ∈ blk ∧
          Fresh (run cfg script evs) (run cfg script (evs ++ contP log cfg (run cfg script evs))) (.ob (.proc blk)) :=
  c02_progress_proc log cfg script evs hf hl hi

end Afkak.Proofs.Consumer.L
