import AfkakProofs.Consumer.A5_TwoRuns3
/-!
# C03, two runs: every handler only APPENDS observations to the trace, none of them a "jump" item

(`isJump`: `.ev (.start _)`, `.ob .raisedRestart`, `.ev (.offsetOk ..)`, `.ev (.offsetFetchOk ..)`; only `step` pushes `.ev`
items and only `start` emits `raisedRestart`).  Used to turn hypotheses about run 2's EVENT LIST into the trace-level
hypothesis `resumedFrom`.
-/
namespace Afkak.Proofs.Consumer.A5
open Afkak.Consumer Afkak.Monitor Afkak.Consts Afkak.Proofs.Consumer

/-- `b` extends `a` (newest first) by items none of which is a jump -/
def NJ (a b : List Item) : Prop := ∃ l, b = l ++ a ∧ l.all (fun x => !isJump x) = true

theorem NJ.refl (a : List Item) : NJ a a := ⟨[], rfl, rfl⟩
theorem NJ.cons {a b : List Item} (x : Item) (hx : isJump x = false) (h : NJ a b) : NJ a (x :: b) := by
  obtain ⟨l, rfl, hl⟩ := h
  exact ⟨x :: l, rfl, by simp [hx, hl]⟩
theorem NJ.trans {a b c : List Item} (h1 : NJ a b) (h2 : NJ b c) : NJ a c := by
  obtain ⟨l1, rfl, hl1⟩ := h1
  obtain ⟨l2, rfl, hl2⟩ := h2
  exact ⟨l2 ++ l1, by simp, by simp [hl1, hl2]⟩

def PresO (h : St → St) : Prop := ∀ s, NJ s.out (h s).out

theorem PresO.step {h : St → St} (hh : PresO h) {a : List Item} {x : St} (hx : NJ a x.out) : NJ a (h x).out :=
  hx.trans (hh x)

theorem NJ_cons (a b : List Item) (x : Item) (hx : isJump x = false) (h : NJ a b) : NJ a (x :: b) := h.cons x hx

syntax "oleaf" : tactic
macro_rules
  | `(tactic| oleaf) => `(tactic| ((try simp only [emit, crash] at *) <;> grind [NJ_cons, NJ.refl, isJump]))

syntax "preso_leaf" "[" ident* "]" : tactic
macro_rules
  | `(tactic| preso_leaf [$ds*]) => `(tactic|
      (intro a s hx
       unfold $ds*
       oleaf))

/-- in relational form: whatever base `a` the state's trace extends, the handler's result extends it too -/
def PresR (h : St → St) : Prop := ∀ (a : List Item) (s : St), NJ a s.out → NJ a (h s).out

theorem PresR.toO {h : St → St} (hh : PresR h) : PresO h := fun s => hh s.out s (NJ.refl _)
theorem PresO.toR {h : St → St} (hh : PresO h) : PresR h := fun _ _ hx => hh.step hx

section
variable (cfg : Cfg)

theorem crash_o (site : String) : PresR (crash site) := by preso_leaf [crash]
theorem startErrback_o (f : Fail) : PresR (startErrback f) := by preso_leaf [startErrback]
theorem doFetch_o : PresR (doFetch cfg) := by preso_leaf [doFetch startErrback errbackRaises]
theorem retryFetch_o (a : Option Rat) : PresR (retryFetch cfg a) := by preso_leaf [retryFetch]
theorem looperReset_o : PresR (looperReset cfg) := by preso_leaf [looperReset]
theorem stopRetry_o : PresR stopRetry := by preso_leaf [stopRetry]
theorem stopTimers_o : PresR stopTimers := by preso_leaf [stopTimers]
theorem stopFinish_o : PresR stopFinish := by preso_leaf [stopFinish crash]
theorem stopBlock_o : PresR stopBlock := by preso_leaf [stopBlock]
theorem finishSimple_o : PresR finishSimple := by preso_leaf [finishSimple]
theorem sendCommitRequest_o (d : Option Rat) (a : Option Nat) : PresR (sendCommitRequest cfg d a) := by
  preso_leaf [sendCommitRequest crash]
theorem handleAutoCommitError_o (f : Fail) : PresR (handleAutoCommitError f) := by
  preso_leaf [handleAutoCommitError startErrback]
theorem handleProcessorError_o (f : Fail) : PresR (handleProcessorError f) := by
  preso_leaf [handleProcessorError startErrback]

theorem commitState_o (w : Who) : PresR (commitState cfg w) := by
  intro a s hx
  unfold commitState
  split
  · exact hx
  · split
    · exact hx
    · split
      · cases w <;> exact hx
      · simp only []
        exact looperReset_o cfg a _ (sendCommitRequest_o cfg none none a _ hx)

theorem autoCommit_o (b : Bool) : PresR (autoCommit cfg b) := by
  intro a s hx
  have hc := commitState_o cfg .auto a s hx
  unfold autoCommit
  simp only []
  repeat' split
  all_goals first
    | exact hx
    | exact hc
    | exact handleAutoCommitError_o _ a _ hc

theorem commitUser_o : PresR (commitUser cfg) := by
  intro a s hx
  have hc := commitState_o cfg .user a s hx
  unfold commitUser
  simp only []
  split
  · exact NJ_cons _ _ _ rfl hc
  · exact hc

theorem handleFetchError_o (f : Fail) : PresR (handleFetchError cfg f) := by
  intro a s hx
  unfold handleFetchError fetchErrorTail
  simp only []
  split
  · exact hx
  · split
    · exact startErrback_o f a _ hx
    · repeat' split
      all_goals first
        | exact hx
        | exact startErrback_o f a _ hx
        | exact retryFetch_o cfg none a _ hx

theorem handleOffsetError_o (f : Fail) : PresR (handleOffsetError cfg f) := by
  intro a s hx
  unfold handleOffsetError offsetErrorTail
  repeat' split
  all_goals first
    | exact hx
    | exact startErrback_o f a _ hx
    | exact retryFetch_o cfg none a _ hx

theorem handleOffsetResponse_o (isFetch : Bool) (off : Int) : PresR (handleOffsetResponse cfg isFetch off) := by
  intro a s hx
  unfold handleOffsetResponse offsetResponseTail
  simp only []
  split
  · exact hx
  · refine doFetch_o cfg a _ ?_
    repeat' split
    all_goals exact hx

theorem stopReq_o : PresR (stopReq cfg) := by
  intro a s hx
  unfold stopReq
  split
  · simp only []
    rename_i k kind c hreq
    have hq : NJ a ({ emit (.cancelReq k) s with requestD := .pending k kind true } : St).out := NJ_cons _ _ _ rfl hx
    split
    · split
      · exact handleFetchError_o cfg _ a _ hq
      · exact handleOffsetError_o cfg _ a _ hq
    · exact hq
  · exact hx

theorem procEnter_o (blk rest' : List Msg) (last : Int) : PresR (procEnter blk rest' last) := by preso_leaf [procEnter]
theorem procLeave_o (res : PRes) (rest' : List Msg) (last : Int) : PresR (procLeave res rest' last) := by
  intro a s hx
  unfold procLeave
  cases res <;> oleaf

end

/-- the re-entrant API one level down -/
structure OpsO (inner : Ops) : Prop where
  stop : PresR inner.stop
  stopCore : PresR inner.stopCore
  commit : PresR inner.commit
  shutdown : PresR inner.shutdown

section
variable {cfg : Cfg} {inner : Ops} (hin : OpsO inner)
include hin

theorem acts_o (a : List Item) (acts : List Act) : ∀ {s : St}, NJ a s.out →
    NJ a (acts.foldl (fun s a => runAct inner a (emit (.act a) s)) s).out := by
  induction acts with
  | nil => intro s h; exact h
  | cons x as ih =>
    intro s h
    simp only [List.foldl_cons]
    refine ih ?_
    cases x with
    | stop => exact hin.stop a _ (NJ_cons _ _ _ rfl h)
    | commit => exact hin.commit a _ (NJ_cons _ _ _ rfl h)
    | shutdown => exact hin.shutdown a _ (NJ_cons _ _ _ rfl h)

theorem nestedStop_o : PresR (nestedStop inner) := by
  intro a s hx
  unfold nestedStop
  split
  · exact hx
  · split
    · exact crash_o _ a _ hx
    · exact hin.stopCore a _ hx

theorem shutdownFinish_o (r : Option Fail) : PresR (shutdownFinish inner r) := by
  intro a s hx
  unfold shutdownFinish
  simp only []
  have h1 : NJ a (nestedStop inner { s with shutdownD := false }).out := nestedStop_o hin a _ hx
  generalize nestedStop inner { s with shutdownD := false } = s1 at h1 ⊢
  split
  · exact crash_o _ a _ h1
  · split
    · exact NJ_cons _ _ _ rfl h1
    · exact NJ_cons _ _ _ rfl h1

theorem commitAndStop_o : PresR (commitAndStop cfg inner) := by
  intro a s hx
  have hc := commitState_o cfg .shut a s hx
  unfold commitAndStop commitAndStop1
  repeat' split
  all_goals first
    | exact shutdownFinish_o hin _ a _ hx
    | exact shutdownFinish_o hin _ a _ hc
    | exact hc

theorem shutdownSuccess_o : PresR (shutdownSuccess cfg inner) := by
  intro a s hx
  unfold shutdownSuccess
  split
  · exact commitAndStop_o hin a _ hx
  · exact shutdownFinish_o hin none a _ hx

theorem fireWaiter_o (r : DRes) (w : Waiter) : PresR (fun s => fireWaiter cfg inner r s w) := by
  intro a s hx
  cases w <;> cases r <;> simp only [fireWaiter]
  all_goals first
    | exact hx
    | exact handleAutoCommitError_o _ a _ hx
    | exact autoCommit_o cfg _ a _ hx
    | exact shutdownSuccess_o hin a _ hx
    | exact shutdownFinish_o hin _ a _ hx
    | exact commitAndStop_o hin a _ hx
    | exact NJ_cons _ _ _ rfl hx

theorem waiters_o (a : List Item) (r : DRes) (ws : List Waiter) : ∀ {s : St}, NJ a s.out →
    NJ a (ws.foldl (fireWaiter cfg inner r) s).out := by
  induction ws with
  | nil => intro s h; exact h
  | cons w ws ih =>
    intro s h
    simp only [List.foldl_cons]
    exact ih (fireWaiter_o hin r w a _ h)

theorem deliver_o (r : DRes) : PresR (deliver cfg inner r) := by
  intro a s hx
  unfold deliver
  simp only []
  exact waiters_o hin a r _ hx

theorem handleCommitError_o (f : Fail) (d : Rat) (n : Nat) : PresR (handleCommitError cfg inner f d n) := by
  intro a s hx
  unfold handleCommitError
  repeat' split
  all_goals first
    | exact deliver_o hin _ a _ hx
    | exact NJ_cons _ _ _ rfl hx

theorem cancelWaiters_o : ∀ (fuel : Nat), PresR (cancelWaiters cfg inner fuel) := by
  intro fuel
  induction fuel with
  | zero =>
    intro a s hx
    unfold cancelWaiters
    split
    · exact hx
    · exact crash_o _ a _ hx
  | succ n ih =>
    intro a s hx
    unfold cancelWaiters
    split
    · exact hx
    · simp only []
      exact ih a _ (fireWaiter_o hin _ _ a _ hx)

theorem stopCommitReq_o : PresR (stopCommitReq cfg inner) := by
  intro a s hx
  unfold stopCommitReq
  split
  · simp only []
    split
    · exact handleCommitError_o hin _ _ _ a _ (NJ_cons _ _ _ rfl hx)
    · exact NJ_cons _ _ _ rfl hx
  · exact hx

theorem procBody_o (a : List Item) (k : St → St × Bool) (hk : ∀ s', NJ a s'.out → NJ a (k s').1.out)
    (blk rest' : List Msg) (last : Int) (e : PEntry) {s : St} (h : NJ a s.out) :
    NJ a (procBody cfg inner k blk rest' last e s).1.out := by
  have h3 : NJ a (procLeave e.res rest' last (procActs inner e.acts (procEnter blk rest' last s))).out :=
    procLeave_o _ _ _ a _ (acts_o hin a e.acts (procEnter_o blk rest' last a _ h))
  unfold procBody
  simp only []
  generalize procLeave e.res rest' last (procActs inner e.acts (procEnter blk rest' last s)) = s3 at *
  cases hres : e.res with
  | ok =>
    simp only []
    have r4 := autoCommit_o cfg true a s3 h3
    split
    · exact r4
    · exact hk _ r4
  | err kd t =>
    simp only []
    have r4 := handleProcessorError_o (.ext kd t) a s3 h3
    split
    · exact r4
    · split
      · exact r4
      · exact hk _ r4
  | defer =>
    simp only []
    split
    · exact h3
    · exact handleProcessorError_o _ a s3 h3

theorem procLoop_o (a : List Item) : ∀ (fuel : Nat) (rest : List Msg) {s : St}, NJ a s.out →
    NJ a (procLoop cfg inner fuel rest s).1.out := by
  intro fuel
  induction fuel with
  | zero => intro rest s h; exact h
  | succ n ih =>
    intro rest s h
    unfold procLoop
    split
    · exact h
    · split
      · exact h
      · exact procBody_o hin a _ (fun s' h' => ih _ h') _ _ _ _ h

theorem deliverBlock_o (msgs : List Msg) : PresR (deliverBlock cfg inner msgs) := by
  intro a s hx
  unfold deliverBlock
  split
  · exact hx
  · simp only []
    have h2 := procLoop_o (cfg := cfg) hin a (msgs.length + 1) msgs (s := { s with msgBlock := true }) hx
    generalize (procLoop cfg inner (msgs.length + 1) msgs { s with msgBlock := true }) = res at *
    obtain ⟨s2, done⟩ := res
    simp only [] at *
    split
    · exact h2
    · exact finishSimple_o a _ h2

theorem fetchTail_o (via : Bool) (r : Reply) : PresR (fetchTail cfg inner via r) := by
  intro a s hx
  unfold fetchTail
  simp only []
  generalize (extract s.fetchOffset r.msgs).2 = fo'
  generalize (extract s.fetchOffset r.msgs).1 = msgs
  split
  · exact retryFetch_o cfg _ a _ (deliverBlock_o hin msgs a _ hx)
  · split
    · exact retryFetch_o cfg _ a _ (deliverBlock_o hin msgs a _ hx)
    · have h5 : NJ a (deliverBlock cfg inner msgs (startErrback .tooSmall { s with fetchOffset := fo' })).out :=
        deliverBlock_o hin msgs a _ (startErrback_o _ a _ hx)
      split
      · exact handleFetchError_o cfg _ a _ h5
      · exact h5
  · have h5 : NJ a (deliverBlock cfg inner msgs { s with fetchOffset := fo' }).out := deliverBlock_o hin msgs a _ hx
    split
    · exact h5
    · exact handleFetchError_o cfg _ a _ h5

theorem handleFetchResponse_o (k : Nat) (r : Reply) : PresR (handleFetchResponse cfg inner k r) := by
  intro a s hx
  unfold handleFetchResponse
  split
  · exact hx
  · simp only []
    split
    · exact hx
    · unfold fetchBody
      exact fetchTail_o hin false r a _ hx

theorem finishFull_o : PresR (finishFull cfg inner) := by
  intro a s hx
  unfold finishFull
  split
  · simp only []
    split
    · split
      · exact hx
      · unfold fetchBody
        exact fetchTail_o hin true _ a _ hx
    · exact hx
  · exact hx

theorem procResult_o (g : Gen) (r : Option Fail) : PresR (procResult cfg inner g r) := by
  intro a s hx
  have h1 : NJ a (procFired cfg g r s).out := by
    unfold procFired
    cases r with
    | none => exact autoCommit_o cfg true a _ hx
    | some f => exact handleProcessorError_o f a _ hx
  have hres : ∀ passed, NJ a (procResume cfg inner g passed (procFired cfg g r s)).out := by
    intro passed
    unfold procResume
    split
    · exact h1
    · simp only []
      have h3 := procLoop_o (cfg := cfg) hin a (g.rest.length + 1) g.rest h1
      split
      · exact h3
      · exact finishFull_o hin a _ h3
  unfold procResult
  simp only []
  split
  · exact commitAndStop_o hin a _ (hres _)
  · exact hres _

theorem stopBlockProc_o : PresR (stopBlockProc cfg inner) := by
  intro a s hx
  have hb := stopBlock_o a s hx
  unfold stopBlockProc
  split
  · exact procResult_o hin _ _ a _ (NJ_cons _ _ _ rfl hb)
  · exact hb

theorem stopCore_o : PresR (stopCore cfg inner) := by
  intro a s hx
  unfold stopCore
  simp only []
  exact stopFinish_o a _ (stopTimers_o a _ (stopCommitReq_o hin a _ (cancelWaiters_o hin _ a _ (stopRetry_o a _
    (stopBlockProc_o hin a _ (stopReq_o cfg a _ hx))))))

theorem stop_o : PresR (stop cfg inner) := by
  intro a s hx
  unfold stop
  split
  · exact NJ_cons _ _ _ rfl hx
  · simp only []
    exact NJ_cons _ _ _ rfl (stopCore_o (cfg := cfg) hin a s hx)

theorem shutdown_o : PresR (shutdown cfg inner) := by
  intro a s hx
  unfold shutdown
  split
  · exact NJ_cons _ _ _ rfl hx
  · split
    · exact NJ_cons _ _ _ rfl hx
    · simp only []
      split
      · exact hx
      · exact commitAndStop_o hin a _ hx

theorem mkOps_o : OpsO (mkOps cfg inner) :=
  ⟨stop_o hin, stopCore_o hin, commitUser_o cfg, shutdown_o hin⟩

end

theorem opsN_o (cfg : Cfg) : ∀ n, OpsO (opsN cfg n)
  | 0 => ⟨crash_o _, crash_o _, crash_o _, crash_o _⟩
  | n + 1 => mkOps_o (opsN_o cfg n)

end Afkak.Proofs.Consumer.A5
