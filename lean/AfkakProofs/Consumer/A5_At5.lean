import AfkakProofs.Consumer.A5_At4
/-!
# C14 attempt limit at trace level: every event keeps `Top`; hence every reachable state satisfies it
-/
namespace Afkak.Proofs.Consumer.T
open Afkak.Consumer Afkak.Monitor Afkak.Consts Afkak.Proofs.Consumer

section
variable {cfg : Cfg}

theorem Top.of_rel {s x : St} (ht : Top cfg s) (h : HRel cfg s x) : Top cfg x :=
  ⟨h.ha, h.2.1 ht.2.1, h.2.2 ht.2.2⟩

theorem ev_start_top (off : Int) {s : St} (hs : Top cfg s) :
    Top cfg (start cfg off { s with out := .ev (.start off) :: s.out }) := by
  unfold start
  split
  · unfold emit; top_fields hs
  · rename_i hr
    simp only []
    have hr' : s.startD = .none := by simpa using hr
    have hq : Top cfg { ({ s with out := .ev (.start off) :: s.out } : St) with startD := .pending, fetchOffset := off } := by
      top_fields hs
    have hcf : (atm cfg { ({ s with out := .ev (.start off) :: s.out } : St) with startD := .pending, fetchOffset := off }).cf <
        ({ ({ s with out := .ev (.start off) :: s.out } : St) with startD := .pending, fetchOffset := off } : St).attempts := by
      have := hs.1.att1
      simp only [atm, runR_cons, C14.atStep]
      omega
    have h2 := doFetch_top hq (by simp) hcf
    split
    · unfold emit; top_fields h2
    · exact h2

theorem pend_pk {s : St} (hs : Ha cfg s) {k : Nat} {kind : ReqKind} {c : Bool} (hreq : s.requestD = .pending k kind c) :
    s.parked = none := by
  cases hpp : s.parked with
  | none => rfl
  | some r' =>
    obtain ⟨k', hk'⟩ := hs.parkedReq (by rw [hpp]; rfl)
    rw [hreq] at hk'; cases hk'

theorem ev_fetchOk_top (k : Nat) (r : Reply) {s : St} (hs : Top cfg s) (c : Bool)
    (hreq : s.requestD = .pending k .fetch c) :
    Top cfg (handleFetchResponse cfg (opsN cfg cfg.depth) k r { s with out := .ev (.fetchOk k r) :: s.out }) := by
  have hin := opsN_a cfg cfg.depth
  have hrun := hs.1.reqRun k .fetch c hreq
  have hpk := pend_pk hs.1 hreq
  have hrc := hs.1.pr k .fetch c hreq
  unfold handleFetchResponse
  split
  · rename_i h; exact absurd (by simpa using h) hrun
  · simp only []
    split
    · rename_i hmb
      cases htl : r.tail <;> top_fields hs
    · unfold fetchBody
      have h4 : Top cfg { ({ s with out := .ev (.fetchOk k r) :: s.out } : St) with retryDelay := cfg.retryInit, attempts := 1, requestD := .none } := by
        cases htl : r.tail <;> top_fields hs
      refine h4.of_rel (fetchTail_a hin false r h4.1 rfl hpk (fun hnr => ?_))
      cases htl : r.tail with
      | raise kd t => exact absurd htl (hnr kd t)
      | done => simp [atm, runR_cons, C14.atStep, htl]
      | small => simp [atm, runR_cons, C14.atStep, htl]

/-- `_handle_offset_error` after `self._request_d = None`, for a running consumer that is not stopping and has no refetch referenced -/
theorem offsetErrorTail_eq (f : Fail) (t : St) (h1 : t.startD ≠ .none) (h2 : t.stopping = false) (h3 : t.retryCall = .none) :
    offsetErrorTail cfg f t =
      if (cfg.maxAttempts != 0 && decide (t.attempts ≥ cfg.maxAttempts)) = true then startErrback f t
      else if t.shuttingDown = true then t
      else { emit (.setTimer .retry t.retryDelay) { t with retryDelay := nextDelay cfg.retryMax t.retryDelay } with
               attempts := t.attempts + 1, retryCall := .pending (t.now + t.retryDelay) } := by
  have h1' : (t.startD == StartD.none) = false := by simpa using h1
  unfold offsetErrorTail retryFetch
  simp only [h1', h2, h3, Bool.false_eq_true, if_false, Bool.false_or, Bool.or_false, Option.getD_none, Option.isNone_none, if_true]

/-- a failed offset look-up at top level: the retry is scheduled, or the attempt limit is reached and the failure reported -/
theorem ev_offsetFail_top (e : Ev) (k : Nat) (ek : ErrKind) (tag : Nat) (he : e = .offsetErr k ek tag ∨ e = .offsetFetchErr k ek tag)
    {s : St} (hs : Top cfg s) (hcr : s.crashed = false) (kind : ReqKind) (c : Bool) (hreq : s.requestD = .pending k kind c) :
    Top cfg (handleOffsetError cfg (.ext ek tag) { s with out := .ev e :: s.out }) := by
  have hrun := hs.1.reqRun k kind c hreq
  have hpk := pend_pk hs.1 hreq
  have hrc := hs.1.pr k kind c hreq
  have hl := hs.1.live1 k kind c hreq
  have hst := hs.2.1
  have hsd : s.startD = .pending ∨ s.startD = .called := by
    cases h : s.startD
    · exact absurd h hrun
    · exact Or.inl rfl
    · exact Or.inr rfl
  simp only [atm] at hl
  unfold handleOffsetError
  rw [offsetErrorTail_eq (cfg := cfg) _ _ (by exact hrun) (by exact hst) (by exact hrc)]
  rcases he with rfl | rfl
  · split
    · unfold startErrback emit
      split <;> top_fields hs
    · split
      · top_fields hs
      · unfold emit; top_fields hs
  · split
    · unfold startErrback emit
      split <;> top_fields hs
    · split
      · top_fields hs
      · unfold emit; top_fields hs

/-- `_handle_fetch_error` after `self._request_d = None`, likewise -/
theorem fetchErrorTail_eq (f : Fail) (t : St) (fo : Int) (h1 : t.startD ≠ .none) (h2 : t.stopping = false) (h3 : t.retryCall = .none)
    (hfo : fo = if f.isOutOfRange then cfg.reset.getD t.fetchOffset else t.fetchOffset) :
    fetchErrorTail cfg f t =
      if (f.isOutOfRange && cfg.reset.isNone) = true then startErrback f t
      else if (cfg.maxAttempts != 0 && decide (t.attempts ≥ cfg.maxAttempts)) = true then startErrback f { t with fetchOffset := fo }
      else if t.shuttingDown = true then { t with fetchOffset := fo }
      else { emit (.setTimer .retry t.retryDelay) { t with fetchOffset := fo, retryDelay := nextDelay cfg.retryMax t.retryDelay } with
               attempts := t.attempts + 1, retryCall := .pending (t.now + t.retryDelay) } := by
  have h1' : (t.startD == StartD.none) = false := by simpa using h1
  subst hfo
  unfold fetchErrorTail retryFetch
  simp only [h1', Bool.false_eq_true, if_false]
  split
  · rfl
  · cases f.isOutOfRange <;>
      simp only [h1', h2, h3, Bool.false_eq_true, if_false, Bool.false_or, Bool.or_false, Option.getD_none, Option.isNone_none, if_true] <;>
      (by_cases hA : (cfg.maxAttempts != 0 && decide (t.attempts ≥ cfg.maxAttempts)) = true
       · simp only [hA, if_true]
         first | done | rfl | (cases t; simp_all)
       · by_cases hB : t.shuttingDown = true
         · simp only [hA, hB, if_true, Bool.false_eq_true, if_false]
           first | done | rfl | (cases t; simp_all)
         · simp only [hA, hB, Bool.false_eq_true, if_false])

/-- a failed fetch request at top level -/
theorem ev_fetchErr_top (k : Nat) (ek : ErrKind) (tag : Nat)
    {s : St} (hs : Top cfg s) (hcr : s.crashed = false) (c : Bool) (hreq : s.requestD = .pending k .fetch c) :
    Top cfg (handleFetchError cfg (.ext ek tag) { s with out := .ev (.fetchErr k ek tag) :: s.out }) := by
  have hrun := hs.1.reqRun k .fetch c hreq
  have hpk := pend_pk hs.1 hreq
  have hrc := hs.1.pr k .fetch c hreq
  have hl := hs.1.live1 k .fetch c hreq
  have hst := hs.2.1
  have hsd : s.startD = .pending ∨ s.startD = .called := by
    cases h : s.startD
    · exact absurd h hrun
    · exact Or.inl rfl
    · exact Or.inr rfl
  simp only [atm] at hl
  unfold handleFetchError
  have key := fetchErrorTail_eq (cfg := cfg) (Fail.ext ek tag)
    ({ ({ s with out := .ev (.fetchErr k ek tag) :: s.out } : St) with requestD := ReqD.none })
    (if (Fail.ext ek tag).isOutOfRange then cfg.reset.getD s.fetchOffset else s.fetchOffset) hrun hst hrc rfl
  rw [key]
  generalize hfo : (if (Fail.ext ek tag).isOutOfRange then cfg.reset.getD s.fetchOffset else s.fetchOffset) = fo
  have hoor : (Fail.ext ek tag).isOutOfRange = (ek == .outOfRange) := by cases ek <;> rfl
  rw [hoor]
  simp only []
  split
  · rename_i hfat
    unfold startErrback emit
    split <;> top_fields hs
  · rename_i hfat
    split
    · unfold startErrback emit
      split <;> top_fields hs
    · split
      · top_fields hs
      · unfold emit; top_fields hs

theorem ev_offsetOk_top (k : Nat) (off : Int) {s : St} (hs : Top cfg s) (c : Bool)
    (hreq : s.requestD = .pending k .offsets c) :
    Top cfg (handleOffsetResponse cfg false off { s with out := .ev (.offsetOk k off) :: s.out }) := by
  have hrun := hs.1.reqRun k _ c hreq
  have hpk := pend_pk hs.1 hreq
  have hrc := hs.1.pr k _ c hreq
  unfold handleOffsetResponse offsetResponseTail
  simp only []
  split
  · rename_i h; exact absurd (by simpa using h) hrun
  · simp only [Bool.not_false, if_true]
    have hq : Top cfg { ({ s with out := .ev (.offsetOk k off) :: s.out } : St) with requestD := .none, retryDelay := cfg.retryInit, attempts := 1, fetchOffset := off } := by
      top_fields hs
    exact doFetch_top hq (by simpa using hrun) (by simp [atm, runR_cons, C14.atStep])

theorem ev_offsetFetchOk_top (k : Nat) (off : Int) {s : St} (hs : Top cfg s) (c : Bool)
    (hreq : s.requestD = .pending k .offsetFetch c) :
    Top cfg (handleOffsetResponse cfg true off { s with out := .ev (.offsetFetchOk k off) :: s.out }) := by
  have hrun := hs.1.reqRun k _ c hreq
  have hpk := pend_pk hs.1 hreq
  have hrc := hs.1.pr k _ c hreq
  unfold handleOffsetResponse offsetResponseTail
  simp only []
  split
  · rename_i h; exact absurd (by simpa using h) hrun
  · simp only [Bool.not_true, Bool.false_eq_true, if_false]
    split
    · have hq : Top cfg { ({ s with out := .ev (.offsetFetchOk k off) :: s.out } : St) with requestD := .none, retryDelay := cfg.retryInit, attempts := 1, fetchOffset := if cfg.reset == some offsetLatest then offsetLatest else offsetEarliest } := by
        generalize (if cfg.reset == some offsetLatest then offsetLatest else offsetEarliest) = fo
        top_fields hs
      exact doFetch_top hq (by simpa using hrun) (by simp [atm, runR_cons, C14.atStep])
    · have hq : Top cfg { ({ s with out := .ev (.offsetFetchOk k off) :: s.out } : St) with requestD := .none, retryDelay := cfg.retryInit, attempts := 1, fetchOffset := off + 1, lastCommitted := some off } := by
        top_fields hs
      exact doFetch_top hq (by simpa using hrun) (by simp [atm, runR_cons, C14.atStep])

theorem tick_set_a {s x : St} (hx : HRel cfg s x) (d : Rat) (lp : Option Looper) :
    HRel cfg s { emit (.setTimer .loop d) x with looper := lp } := by
  aleaf hx

theorem ev_advance_top (dt now' : Rat) {s : St} (hs : Top cfg s) :
    Top cfg { ({ s with out := .ev (.advance dt) :: s.out } : St) with now := now' } := by
  top_fields hs

theorem ev_env_top (rq cm : Option (ErrKind × Nat)) {s : St} (hs : Top cfg s) :
    Top cfg { ({ s with out := .ev (.env rq cm) :: s.out } : St) with envReq := rq, envCommit := cm } := by
  top_fields hs

theorem pre_0 {s : St} (hs : Top cfg s) : Top cfg ({ s with out := .ev .stop :: s.out } : St) := by
  top_fields hs

theorem pre_1 {s : St} (hs : Top cfg s) :
    Top cfg ({ s with out := .ev .shutdown :: s.out } : St) ∧ ShutPre cfg ({ s with out := .ev .shutdown :: s.out } : St) := by
  refine ⟨by top_fields hs, ?_, ?_⟩
  · simp [atm, runR_cons, C14.atStep]
  · intro h
    have := hs.1.shut h
    simpa [atm, runR_cons, C14.atStep] using this

theorem pre_2 {s : St} (hs : Top cfg s) : Top cfg ({ s with out := .ev .commit :: s.out } : St) := by
  top_fields hs

theorem pre_5 (k : Nat) (rq : CommitReq) {s : St} (hs : Top cfg s) :
    Top cfg ({ s with out := .ev (.commitOk k) :: s.out, commitReq := none, lastCommitted := some rq.off } : St) := by
  top_fields hs

theorem pre_6 (k : Nat) (ek : ErrKind) (tag : Nat) {s : St} (hs : Top cfg s) :
    Top cfg ({ s with out := .ev (.commitErr k ek tag) :: s.out, commitReq := none } : St) := by
  top_fields hs

theorem pre_7 {s : St} (hs : Top cfg s) (due : Rat) (hdue : s.retryCall = .pending due) :
    Top cfg ({ s with out := .ev .retryFire :: s.out, retryCall := .dead } : St) := by
  top_fields hs

theorem pre_8 {s : St} (hs : Top cfg s) :
    Top cfg ({ s with out := .ev .commitRetryFire :: s.out, commitCall := .dead } : St) := by
  top_fields hs

theorem pre_9 (l : Looper) {s : St} (hs : Top cfg s) :
    Top cfg ({ s with out := .ev .autoCommitTick :: s.out, looper := some { l with due := none } } : St) := by
  top_fields hs

theorem pre_10 {s : St} (hs : Top cfg s) :
    Top cfg ({ s with out := .ev .procOk :: s.out } : St) ∧ (atm cfg ({ s with out := .ev .procOk :: s.out } : St)).inErr = false := by
  exact ⟨by top_fields hs, by simp [atm, runR_cons, C14.atStep]⟩

theorem pre_11 (ek : ErrKind) (tag : Nat) {s : St} (hs : Top cfg s) :
    Top cfg ({ s with out := .ev (.procErr ek tag) :: s.out } : St) ∧
      (atm cfg ({ s with out := .ev (.procErr ek tag) :: s.out } : St)).inErr = false := by
  exact ⟨by top_fields hs, by simp [atm, runR_cons, C14.atStep]⟩

theorem stepCore_top (e : Ev) {s s' : St} (hs : Top cfg s) (ht : A.TopF s) (hcr : s.crashed = false)
    (h : stepCore cfg { s with out := .ev e :: s.out } e = some s') : Top cfg s' := by
  have hin := opsN_a cfg cfg.depth
  cases e with
  | start off => simp only [stepCore, Option.some.injEq] at h; subst h; exact ev_start_top off hs
  | stop =>
    simp only [stepCore, Option.some.injEq] at h; subst h
    have hq := pre_0 (cfg := cfg) hs
    exact hq.of_rel ((stop_a hin) _ hq.1)
  | shutdown =>
    simp only [stepCore, Option.some.injEq] at h; subst h
    obtain ⟨hq, hp⟩ := pre_1 (cfg := cfg) hs
    exact hq.of_rel (shutdown_a hin _ hq.1 hp)
  | commit =>
    simp only [stepCore, Option.some.injEq] at h; subst h
    have hq := pre_2 (cfg := cfg) hs
    exact hq.of_rel ((commitUser_a cfg) _ hq.1)
  | fetchOk k r =>
    simp only [stepCore] at h
    split at h
    · rename_i hq
      obtain ⟨c, hreq⟩ := A.req_of_guard' hq
      simp only [Option.some.injEq] at h; subst h
      exact ev_fetchOk_top k r hs c hreq
    · cases h
  | fetchErr k ek tag =>
    simp only [stepCore] at h
    split at h
    · rename_i hq
      obtain ⟨c, hreq⟩ := A.req_of_guard' hq
      simp only [Option.some.injEq] at h; subst h
      exact ev_fetchErr_top k ek tag hs hcr c hreq
    · cases h
  | offsetOk k off =>
    simp only [stepCore] at h
    split at h
    · rename_i hq
      obtain ⟨c, hreq⟩ := A.req_of_guard' hq
      simp only [Option.some.injEq] at h; subst h
      exact ev_offsetOk_top k off hs c hreq
    · cases h
  | offsetErr k ek tag =>
    simp only [stepCore] at h
    split at h
    · rename_i hq
      obtain ⟨c, hreq⟩ := A.req_of_guard' hq
      simp only [Option.some.injEq] at h; subst h
      exact ev_offsetFail_top _ k ek tag (Or.inl rfl) hs hcr _ c hreq
    · cases h
  | offsetFetchOk k off =>
    simp only [stepCore] at h
    split at h
    · rename_i hq
      obtain ⟨c, hreq⟩ := A.req_of_guard' hq
      simp only [Option.some.injEq] at h; subst h
      exact ev_offsetFetchOk_top k off hs c hreq
    · cases h
  | offsetFetchErr k ek tag =>
    simp only [stepCore] at h
    split at h
    · rename_i hq
      obtain ⟨c, hreq⟩ := A.req_of_guard' hq
      simp only [Option.some.injEq] at h; subst h
      exact ev_offsetFail_top _ k ek tag (Or.inr rfl) hs hcr _ c hreq
    · cases h
  | commitOk k =>
    simp only [stepCore] at h
    split at h
    · rename_i rq hrq
      split at h
      · simp only [Option.some.injEq] at h; subst h
        have hq := pre_5 (cfg := cfg) k rq hs
        exact hq.of_rel ((deliver_a hin _) _ hq.1)
      · cases h
    · cases h
  | commitErr k ek tag =>
    simp only [stepCore] at h
    split at h
    · rename_i rq hrq
      split at h
      · simp only [Option.some.injEq] at h; subst h
        have hq := pre_6 (cfg := cfg) k ek tag hs
        exact hq.of_rel ((handleCommitError_a hin _ _ _) _ hq.1)
      · cases h
    · cases h
  | procOk =>
    simp only [stepCore] at h
    split at h
    · rename_i g hp
      simp only [Option.some.injEq] at h; subst h
      obtain ⟨hq, hie⟩ := pre_10 (cfg := cfg) hs
      exact hq.of_rel (procResult_a hin g none hq.1 hie)
    · cases h
  | procErr ek tag =>
    simp only [stepCore] at h
    split at h
    · rename_i g hp
      simp only [Option.some.injEq] at h; subst h
      obtain ⟨hq, hie⟩ := pre_11 (cfg := cfg) ek tag hs
      exact hq.of_rel (procResult_a hin g _ hq.1 hie)
    · cases h
  | retryFire =>
    simp only [stepCore] at h
    split at h
    · rename_i due hdue
      split at h
      · simp only [Option.some.injEq] at h; subst h
        have hrun := ht.retryRun due hdue
        have hl := hs.1.live2 due hdue
        have hq := pre_7 (cfg := cfg) hs due hdue
        refine doFetch_top hq (by simpa using hrun) ?_
        simp only [atm, runR_cons, C14.atStep] at hl ⊢
        exact hl
      · cases h
    · cases h
  | commitRetryFire =>
    simp only [stepCore] at h
    split at h
    · split at h
      · simp only [Option.some.injEq] at h; subst h
        have hq := pre_8 (cfg := cfg) hs
        exact hq.of_rel ((sendCommitRequest_a cfg _ _) _ hq.1)
      · cases h
    · cases h
  | autoCommitTick =>
    simp only [stepCore] at h
    cases hl : s.looper with
    | none => simp [hl] at h
    | some l =>
      cases hd : l.due with
      | none => simp [hl, hd] at h
      | some due =>
        simp only [hl, hd] at h
        split at h
        · have hq := pre_9 (cfg := cfg) l hs
          have hq1 := (autoCommit_a cfg false) _ hq.1
          generalize autoCommit cfg false { s with out := .ev .autoCommitTick :: s.out, looper := some { l with due := none } } = x at h hq1
          split at h
          · simp only [Option.some.injEq] at h; subst h
            exact hq.of_rel (tick_set_a hq1 _ _)
          · simp only [Option.some.injEq] at h; subst h
            exact hq.of_rel hq1
        · cases h
  | advance dt =>
    simp only [stepCore] at h
    split at h
    · cases h
    · simp only [Option.some.injEq] at h; subst h
      exact ev_advance_top dt _ hs
  | env rq cm =>
    simp only [stepCore, Option.some.injEq] at h; subst h
    exact ev_env_top rq cm hs

theorem rej_top (e : Ev) {s : St} (hs : Top cfg s) : Top cfg { s with out := .rej e :: s.out } := by
  top_fields hs

theorem probe_top {s : St} (hs : Top cfg s) : Top cfg (probe s) := by
  unfold probe emit
  top_fields hs

theorem step_top (e : Ev) {s : St} (hs : Top cfg s) (ht : A.TopF s) : Top cfg (step cfg s e) := by
  unfold step
  split
  · exact rej_top e hs
  · rename_i hcr
    have hcr' : s.crashed = false := by simpa using hcr
    split
    · exact rej_top e hs
    · rename_i s' h
      have hq := stepCore_top e hs ht hcr' h
      split
      · exact hq
      · exact probe_top hq

end

theorem init_top (cfg : Cfg) (script : List PEntry) : Top cfg (init cfg script) := by
  refine ⟨?_, rfl, ?_⟩
  · constructor <;> simp [init, atm]
  · simp [R, init, atm]

/-- every reachable state satisfies `Top` -/
theorem run_a (cfg : Cfg) (script : List PEntry) : ∀ (evs : List Ev), Top cfg (run cfg script evs) := by
  intro evs
  induction evs using List.reverseRecOn with
  | nil => exact init_top cfg script
  | append_singleton es e ih =>
    have : run cfg script (es ++ [e]) = step cfg (run cfg script es) e := by
      unfold run; rw [List.foldl_append]; rfl
    rw [this]
    exact step_top e ih (A.topF_run cfg script es)

end Afkak.Proofs.Consumer.T
