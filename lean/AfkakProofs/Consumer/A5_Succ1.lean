import AfkakProofs.Consumer.B_C14e
/-!
# C03: a block is handed to the processor only when the previous block's processing SUCCEEDED, or after a (re)start

Monitor `blkStep` (proof-side definition; not yet run on implementation traces), invariant `Hb`, the handlers that do not
contain the processing loop.  Shape as `E_1.lean` .. `E_3.lean`.
-/
namespace Afkak.Proofs.Consumer.A5
open Afkak.Consumer Afkak.Monitor Afkak.Consts Afkak.Proofs.Consumer

structure BlkSt where
  opn : Bool := false      -- a block was handed to the processor and its processing has not (yet) succeeded
  saved : Bool := false    -- `opn` before the latest `start` call (restored if it raised)
  bad : Bool := false
  deriving DecidableEq, Repr

instance : HasBad BlkSt := ⟨BlkSt.bad⟩

def blkStep (m : BlkSt) : Item → BlkSt
  | .ev (.start _) => { m with opn := false, saved := m.opn }
  | .ob .raisedRestart => { m with opn := m.saved }
  | .ob (.proc _) => if m.opn then { m with bad := true } else { m with opn := true }
  | .ob (.procRet .ok) => { m with opn := false }
  | .ev .procOk => { m with opn := false }
  | _ => m

/-- every block handed to the processor follows a success of the previous one, or a `start()` -/
def blocksSucceedOk (tr : List Item) : Bool := accepts blkStep {} tr

def bm (s : St) : BlkSt := runR blkStep {} s.out

/-- why nothing more is handed to the processor as things stand -/
def Blk (s : St) : Prop :=
  s.frame.isSome = true ∨ s.proc.isSome = true ∨ s.startD = .none ∨ s.stopping = true ∨ s.msgBlock = true

structure Hb (s : St) : Prop where
  b1 : (bm s).bad = false
  b2 : (bm s).opn = true → Blk s

/-- the block of messages is still in the way, or the consumer is stopped -/
def R (s : St) : Prop := s.msgBlock = true ∨ s.startD = .none

def BRel (s0 x : St) : Prop :=
  Hb x ∧ x.frame = s0.frame ∧ (R s0 → R x) ∧ (s0.stopping = false → x.stopping = false) ∧
    ((bm s0).opn = false → (bm x).opn = false)

def PresB (h : St → St) : Prop := ∀ s, Hb s → BRel s (h s)

theorem BRel.refl {s : St} (h : Hb s) : BRel s s := ⟨h, rfl, id, id, id⟩
theorem BRel.trans {a b c : St} (h1 : BRel a b) (h2 : BRel b c) : BRel a c := by
  obtain ⟨_, f1, r1, s1, o1⟩ := h1
  obtain ⟨hc, f2, r2, s2, o2⟩ := h2
  exact ⟨hc, f2.trans f1, fun h => r2 (r1 h), fun h => s2 (s1 h), fun h => o2 (o1 h)⟩
theorem PresB.step {h : St → St} (hh : PresB h) {s x : St} (hx : BRel s x) : BRel s (h x) := hx.trans (hh x hx.1)

syntax "hb_fields" ident : tactic
macro_rules
  | `(tactic| hb_fields $hs) => `(tactic|
      (obtain ⟨b1, b2⟩ := $hs
       constructor <;> (simp only [bm, emit, Blk] at * <;> grind [blkStep, runR_cons])))

syntax "bside" : tactic
macro_rules
  | `(tactic| bside) => `(tactic|
      first | assumption | ((simp only [bm, emit, Blk, R] at *) <;> grind [blkStep, runR_cons]))

syntax "bleaf" ident : tactic
macro_rules
  | `(tactic| bleaf $hx) => `(tactic|
      (obtain ⟨hs_, e1, e2, e3, e4⟩ := $hx
       refine ⟨?_, ?_, ?_, ?_, ?_⟩
       · hb_fields hs_
       · bside
       · bside
       · bside
       · bside))

syntax "presb_leaf" "[" ident* "]" : tactic
macro_rules
  | `(tactic| presb_leaf [$ds*]) => `(tactic|
      (intro s hs
       have hx := BRel.refl hs
       unfold $ds*
       bleaf hx))

section
variable (cfg : Cfg)

theorem crash_b (site : String) : PresB (crash site) := by presb_leaf [crash]
theorem startErrback_b (f : Fail) : PresB (startErrback f) := by presb_leaf [startErrback]
theorem retryFetch_b (a : Option Rat) : PresB (retryFetch cfg a) := by presb_leaf [retryFetch]
theorem looperReset_b : PresB (looperReset cfg) := by presb_leaf [looperReset]
theorem stopRetry_b : PresB stopRetry := by presb_leaf [stopRetry]
theorem stopTimers_b : PresB stopTimers := by presb_leaf [stopTimers]
theorem sendCommitRequest_b (d : Option Rat) (a : Option Nat) : PresB (sendCommitRequest cfg d a) := by
  presb_leaf [sendCommitRequest crash]
theorem doFetch_b : PresB (doFetch cfg) := by presb_leaf [doFetch startErrback errbackRaises]

theorem handleAutoCommitError_b (f : Fail) : PresB (handleAutoCommitError f) := by
  intro s hs
  unfold handleAutoCommitError
  repeat' split
  all_goals first | exact BRel.refl hs | exact startErrback_b f s hs

theorem handleProcessorError_b (f : Fail) : PresB (handleProcessorError f) := by
  intro s hs
  unfold handleProcessorError
  split
  · exact BRel.refl hs
  · exact startErrback_b f s hs

theorem commitState_b (w : Who) : PresB (commitState cfg w) := by
  intro s hs
  have hx := BRel.refl hs
  unfold commitState
  split
  · exact hx
  · split
    · exact hx
    · split
      · cases w <;> simp only [] <;> bleaf hx
      · simp only []
        exact (looperReset_b cfg).step ((sendCommitRequest_b cfg none none).step (by bleaf hx))

theorem autoCommit_b (b : Bool) : PresB (autoCommit cfg b) := by
  intro s hs
  have hx := BRel.refl hs
  have hc := (commitState_b cfg .auto).step hx
  unfold autoCommit
  simp only []
  repeat' split
  all_goals first
    | exact hx
    | exact hc
    | exact (handleAutoCommitError_b _).step hc
    | bleaf hx

theorem commitUser_b : PresB (commitUser cfg) := by
  intro s hs
  have hc := (commitState_b cfg .user).step (BRel.refl hs)
  unfold commitUser
  simp only []
  split
  · bleaf hc
  · bleaf hc

theorem handleFetchError_b (f : Fail) : PresB (handleFetchError cfg f) := by
  intro s hs
  have hx := BRel.refl hs
  unfold handleFetchError fetchErrorTail
  simp only []
  have hb : BRel s { s with requestD := .none } := by bleaf hx
  split
  · exact hb
  · split
    · exact (startErrback_b f).step hb
    · have hm : BRel s (if f.isOutOfRange then { ({ s with requestD := .none } : St) with fetchOffset := cfg.reset.getD s.fetchOffset } else { s with requestD := .none }) := by
        split
        · bleaf hx
        · exact hb
      generalize (if f.isOutOfRange then { ({ s with requestD := .none } : St) with fetchOffset := cfg.reset.getD s.fetchOffset } else { s with requestD := .none }) = s1 at *
      repeat' split
      all_goals first
        | exact hm
        | exact (startErrback_b f).step hm
        | exact (retryFetch_b cfg none).step hm

theorem handleOffsetError_b (f : Fail) : PresB (handleOffsetError cfg f) := by
  intro s hs
  have hx := BRel.refl hs
  unfold handleOffsetError offsetErrorTail
  have hb : BRel s { s with requestD := .none } := by bleaf hx
  repeat' split
  all_goals first
    | exact hb
    | exact (startErrback_b f).step hb
    | exact (retryFetch_b cfg none).step hb

theorem handleOffsetResponse_b (isFetch : Bool) (off : Int) : PresB (handleOffsetResponse cfg isFetch off) := by
  intro s hs
  have hx := BRel.refl hs
  unfold handleOffsetResponse offsetResponseTail
  simp only []
  split
  · bleaf hx
  · refine (doFetch_b cfg).step ?_
    repeat' split
    all_goals bleaf hx

theorem stopReq_b : PresB (stopReq cfg) := by
  intro s hs
  have hx := BRel.refl hs
  unfold stopReq
  split
  · simp only []
    rename_i k kind c hreq
    have hq : BRel s { emit (.cancelReq k) s with requestD := .pending k kind true } := by bleaf hx
    split
    · split
      · exact (handleFetchError_b cfg _).step hq
      · exact (handleOffsetError_b cfg _).step hq
    · exact hq
  · exact hx

end

/-- the re-entrant API one level down -/
structure OpsB (inner : Ops) : Prop where
  stop : PresB inner.stop
  stopCore : PresB inner.stopCore
  commit : PresB inner.commit
  shutdown : PresB inner.shutdown

section
variable {cfg : Cfg} {inner : Ops} (hin : OpsB inner)
include hin

theorem acts_b (acts : List Act) : ∀ {s0 s : St}, BRel s0 s →
    BRel s0 (acts.foldl (fun s a => runAct inner a (emit (.act a) s)) s) := by
  induction acts with
  | nil => intro s0 s h; exact h
  | cons a as ih =>
    intro s0 s h
    simp only [List.foldl_cons]
    refine ih ?_
    cases a with
    | stop => exact hin.stop.step (by bleaf h)
    | commit => exact hin.commit.step (by bleaf h)
    | shutdown => exact hin.shutdown.step (by bleaf h)

theorem nestedStop_b : PresB (nestedStop inner) := by
  intro s hs
  unfold nestedStop
  split
  · exact BRel.refl hs
  · split
    · exact (crash_b _).step (BRel.refl hs)
    · exact hin.stopCore.step (BRel.refl hs)

theorem shutdownFinish_b (r : Option Fail) : PresB (shutdownFinish inner r) := by
  intro s hs
  have hx := BRel.refl hs
  unfold shutdownFinish
  simp only []
  have h1 : BRel s (nestedStop inner { s with shutdownD := false }) := (nestedStop_b hin).step (by bleaf hx)
  generalize nestedStop inner { s with shutdownD := false } = s1 at h1 ⊢
  have h2 : BRel s { s1 with shuttingDown := false } := by bleaf h1
  split
  · exact (crash_b _).step h2
  · split
    · bleaf h2
    · bleaf h2

theorem commitAndStop_b : PresB (commitAndStop cfg inner) := by
  intro s hs
  have hx := BRel.refl hs
  have hc := (commitState_b cfg .shut).step hx
  unfold commitAndStop commitAndStop1
  repeat' split
  all_goals first
    | exact (shutdownFinish_b hin _).step hx
    | exact (shutdownFinish_b hin _).step hc
    | exact hc

theorem shutdownSuccess_b : PresB (shutdownSuccess cfg inner) := by
  intro s hs
  unfold shutdownSuccess
  split
  · exact (commitAndStop_b hin).step (BRel.refl hs)
  · exact (shutdownFinish_b hin none).step (BRel.refl hs)

theorem fireWaiter_b (r : DRes) (w : Waiter) : PresB (fun s => fireWaiter cfg inner r s w) := by
  intro s hs
  have hx := BRel.refl hs
  cases w <;> cases r <;> simp only [fireWaiter]
  all_goals first
    | exact hx
    | exact (handleAutoCommitError_b _).step hx
    | exact (autoCommit_b cfg _).step hx
    | exact (shutdownSuccess_b hin).step hx
    | exact (shutdownFinish_b hin _).step hx
    | exact (commitAndStop_b hin).step hx
    | bleaf hx

theorem waiters_b (r : DRes) (ws : List Waiter) : ∀ {s0 s : St}, BRel s0 s →
    BRel s0 (ws.foldl (fireWaiter cfg inner r) s) := by
  induction ws with
  | nil => intro s0 s h; exact h
  | cons w ws ih =>
    intro s0 s h
    simp only [List.foldl_cons]
    exact ih ((fireWaiter_b hin r w).step h)

theorem deliver_b (r : DRes) : PresB (deliver cfg inner r) := by
  intro s hs
  have hx := BRel.refl hs
  unfold deliver
  simp only []
  exact waiters_b hin r _ (by bleaf hx)

theorem handleCommitError_b (f : Fail) (d : Rat) (a : Nat) : PresB (handleCommitError cfg inner f d a) := by
  intro s hs
  have hx := BRel.refl hs
  unfold handleCommitError
  repeat' split
  all_goals first
    | exact (deliver_b hin _).step hx
    | (simp only []; bleaf hx)

theorem cancelWaiters_b : ∀ (fuel : Nat), PresB (cancelWaiters cfg inner fuel) := by
  intro fuel
  induction fuel with
  | zero =>
    intro s hs
    unfold cancelWaiters
    split
    · exact BRel.refl hs
    · exact (crash_b _).step (BRel.refl hs)
  | succ n ih =>
    intro s hs
    have hx := BRel.refl hs
    unfold cancelWaiters
    split
    · exact hx
    · simp only []
      exact (ih).step ((fireWaiter_b hin _ _).step (by bleaf hx))

theorem stopCommitReq_b : PresB (stopCommitReq cfg inner) := by
  intro s hs
  have hx := BRel.refl hs
  unfold stopCommitReq
  split
  · simp only []
    split
    · exact (handleCommitError_b hin _ _ _).step (by bleaf hx)
    · bleaf hx
  · exact hx

end
end Afkak.Proofs.Consumer.A5
