import AfkakProofs.Consumer.A5_Succ3
import AfkakProofs.Consumer.A5_TwoRuns5
/-!
# C03, two runs: what run 1 delivered up to the stored offset was PROCESSED SUCCESSFULLY

Trace-level: for a trace accepted by `blkStep` (next block only after a success) and `C03.clpStep` (a commit request carries
the last successfully processed offset) that delivers in one segment: delivered = succeeded ++ (the block still open), every
committed offset is the offset of a message of a succeeded block.  With the chain property of the delivered stream: every
delivered message at or below a committed offset belongs to a block whose processing succeeded.
-/
namespace Afkak.Proofs.Consumer.A5
open Afkak.Consumer Afkak.Monitor Afkak.Consts Afkak.Props.Open.C02 Afkak.Proofs.Consumer

structure SucSt where
  cur : List Msg := []     -- the block handed to the processor last, while its processing has not succeeded
  acc : List Msg := []     -- the messages of the blocks whose processing succeeded
  deriving DecidableEq, Repr

def sucStep (m : SucSt) : Item → SucSt
  | .ob (.proc blk) => { m with cur := blk }
  | .ob (.procRet .ok) => { cur := [], acc := m.acc ++ m.cur }
  | .ev .procOk => { cur := [], acc := m.acc ++ m.cur }
  | _ => m

/-- the messages of the blocks whose processing SUCCEEDED (the processor returned, or its Deferred fired with a result) -/
def succeeded (tr : List Item) : List Msg := (tr.foldl sucStep {}).acc

def isMark : Item → Bool
  | .ob (.procRet .ok) => true
  | .ev .procOk => true
  | _ => false

def isCommitReq : Item → Bool
  | .ob (.commitReq _ _) => true
  | _ => false

theorem step_other (b : BlkSt) (c : C03.ClpSt) (m : SucSt) (x : Item) (h1 : isProc x = false) (h2 : isJump x = false)
    (h3 : isMark x = false) (h4 : isCommitReq x = false) :
    blkStep b x = b ∧ C03.clpStep c x = c ∧ sucStep m x = m ∧ delivered [x] = [] ∧ commitOffs [x] = [] := by
  cases x with
  | ob o =>
    cases o with
    | procRet r => cases r <;> simp_all [blkStep, C03.clpStep, procTrack, sucStep, delivered, commitOffs, isMark]
    | _ => simp_all [blkStep, C03.clpStep, procTrack, sucStep, delivered, commitOffs, isProc, isJump, isMark, isCommitReq]
  | ev e => cases e <;> simp_all [blkStep, C03.clpStep, procTrack, sucStep, delivered, commitOffs, isJump, isMark]
  | rej e => simp [blkStep, C03.clpStep, procTrack, sucStep, delivered, commitOffs]

theorem blk_sticky (m : BlkSt) (x : Item) (h : m.bad = true) : (blkStep m x).bad = true := by
  cases x with
  | ob o =>
    cases o with
    | proc blk => simp only [blkStep]; split <;> simp [h]
    | procRet r => cases r <;> simp [blkStep, h]
    | _ => simp [blkStep, h]
  | ev e => cases e <;> simp [blkStep, h]
  | rej e => simp [blkStep, h]

theorem blk_sticky_foldl : ∀ (l : List Item) (m : BlkSt), (l.foldl blkStep m).bad = false → m.bad = false
  | [], _, h => h
  | x :: l, m, h => by
    have := blk_sticky_foldl l _ h
    cases hb : m.bad with
    | false => rfl
    | true => rw [blk_sticky m x hb] at this; cases this

theorem clp_sticky_foldl : ∀ (l : List Item) (m : C03.ClpSt), (l.foldl C03.clpStep m).bad = false → m.bad = false
  | [], _, h => h
  | x :: l, m, h => by
    have := clp_sticky_foldl l _ h
    cases hb : m.bad with
    | false => rfl
    | true => rw [clp_sticky m x hb] at this; cases this

theorem isProc_shape (x : Item) (h : isProc x = true) : ∃ blk, x = .ob (.proc blk) := by
  cases x with
  | ob o => cases o <;> simp_all [isProc]
  | _ => simp [isProc] at h

theorem isMark_shape (x : Item) (h : isMark x = true) : x = .ob (.procRet .ok) ∨ x = .ev .procOk := by
  cases x with
  | ob o =>
    cases o with
    | procRet r => cases r <;> simp_all [isMark]
    | _ => simp [isMark] at h
  | ev e => cases e <;> simp_all [isMark]
  | rej e => simp [isMark] at h

theorem isCommitReq_shape (x : Item) (h : isCommitReq x = true) : ∃ k off, x = .ob (.commitReq k off) := by
  cases x with
  | ob o => cases o <;> simp_all [isCommitReq]
  | _ => simp [isCommitReq] at h

theorem commitOffs_cons (x : Item) (post : List Item) : commitOffs (x :: post) = commitOffs [x] ++ commitOffs post := by
  show commitOffs ([x] ++ post) = _
  simp only [commitOffs, List.filterMap_append]

theorem delivered_cons (x : Item) (post : List Item) : delivered (x :: post) = delivered [x] ++ delivered post := by
  rw [← delivered_append]; rfl

/-- the three monitors together, over a stretch without restart -/
theorem joint_post : ∀ (post : List Item) (b : BlkSt) (c : C03.ClpSt) (m : SucSt) (d : List Msg),
    post.all (fun x => !isJump x) = true →
    (post.foldl blkStep b).bad = false → (post.foldl C03.clpStep c).bad = false →
    d = m.acc ++ m.cur → (b.opn = false → m.cur = []) →
    (∀ v, c.p.cur = some v → ∃ x ∈ m.acc ++ m.cur, x.off = v) →
    (∀ v, c.p.processed = some v → ∃ x ∈ m.acc, x.off = v) →
    d ++ delivered post = (post.foldl sucStep m).acc ++ (post.foldl sucStep m).cur ∧
      (∀ off ∈ commitOffs post, ∃ x ∈ (post.foldl sucStep m).acc, x.off = off) ∧
      (∀ x ∈ m.acc, x ∈ (post.foldl sucStep m).acc)
  | [], b, c, m, d, _, _, _, hd, _, _, _ => by
    simp [delivered, commitOffs, hd]
  | x :: post, b, c, m, d, hj, hb, hc, hd, ho, hcur, hpr => by
    simp only [List.all_cons, Bool.and_eq_true, Bool.not_eq_eq_eq_not, Bool.not_true] at hj
    obtain ⟨hjx, hjp⟩ := hj
    have hjp' : post.all (fun x => !isJump x) = true := by simpa using hjp
    simp only [List.foldl_cons] at hb hc ⊢
    have hb1 := blk_sticky_foldl post _ hb
    have hc1 := clp_sticky_foldl post _ hc
    have hdel := delivered_cons x post
    have hco := commitOffs_cons x post
    -- the general continuation: new states satisfy the hypotheses, outputs compose
    have go : ∀ (b' : BlkSt) (c' : C03.ClpSt) (m' : SucSt),
        blkStep b x = b' → C03.clpStep c x = c' → sucStep m x = m' →
        d ++ delivered [x] = m'.acc ++ m'.cur → (b'.opn = false → m'.cur = []) →
        (∀ v, c'.p.cur = some v → ∃ y ∈ m'.acc ++ m'.cur, y.off = v) →
        (∀ v, c'.p.processed = some v → ∃ y ∈ m'.acc, y.off = v) →
        (∀ off ∈ commitOffs [x], ∃ y ∈ m'.acc, y.off = off) →
        (∀ y ∈ m.acc, y ∈ m'.acc) →
        d ++ delivered (x :: post) = (post.foldl sucStep (sucStep m x)).acc ++ (post.foldl sucStep (sucStep m x)).cur ∧
          (∀ off ∈ commitOffs (x :: post), ∃ y ∈ (post.foldl sucStep (sucStep m x)).acc, y.off = off) ∧
          (∀ y ∈ m.acc, y ∈ (post.foldl sucStep (sucStep m x)).acc) := by
      intro b' c' m' e1 e2 e3 n1 n2 n3 n4 n5 n6
      rw [e1] at hb; rw [e2] at hc; rw [e3]
      obtain ⟨i1, i2, i3⟩ := joint_post post b' c' m' (d ++ delivered [x]) hjp' hb hc n1 n2 n3 n4
      refine ⟨?_, ?_, fun y hy => i3 y (n6 y hy)⟩
      · rw [hdel, ← List.append_assoc]; exact i1
      · intro off hoff
        rw [hco, List.mem_append] at hoff
        rcases hoff with h | h
        · obtain ⟨y, hy, e⟩ := n5 off h
          exact ⟨y, i3 y hy, e⟩
        · exact i2 off h
    by_cases hP : isProc x = true
    · obtain ⟨blk, rfl⟩ := isProc_shape x hP
      have hopn : b.opn = false := by
        cases hbo : b.opn with
        | false => rfl
        | true => simp [blkStep, hbo] at hb1
      have hcur0 := ho hopn
      refine go { b with opn := true } { c with p := { c.p with cur := lastOff blk } } { m with cur := blk }
        (by simp [blkStep, hopn]) (by simp [C03.clpStep, procTrack]) rfl ?_ (fun h => by cases h) ?_ ?_ ?_ (fun y hy => hy)
      · simp [delivered, hd, hcur0]
      · intro v hv
        obtain ⟨y, hy, e⟩ := lastOff_mem blk v hv
        exact ⟨y, List.mem_append_right _ hy, e⟩
      · intro v hv
        exact hpr v hv
      · intro off hoff
        simp [commitOffs] at hoff
    · have hP' : isProc x = false := by simpa using hP
      by_cases hM : isMark x = true
      · have hx := isMark_shape x hM
        have common : ∀ (hbx : blkStep b x = { b with opn := false })
            (hcx : C03.clpStep c x = { c with p := { c.p with processed := c.p.cur } })
            (hmx : sucStep m x = { cur := [], acc := m.acc ++ m.cur }) (hdx : delivered [x] = []) (hcx' : commitOffs [x] = []),
            d ++ delivered (x :: post) = (post.foldl sucStep (sucStep m x)).acc ++ (post.foldl sucStep (sucStep m x)).cur ∧
              (∀ off ∈ commitOffs (x :: post), ∃ y ∈ (post.foldl sucStep (sucStep m x)).acc, y.off = off) ∧
              (∀ y ∈ m.acc, y ∈ (post.foldl sucStep (sucStep m x)).acc) := by
          intro hbx hcx hmx hdx hcx'
          refine go _ _ _ hbx hcx hmx ?_ (fun _ => rfl) ?_ ?_ ?_ (fun y hy => List.mem_append_left _ hy)
          · simp [hdx, hd]
          · intro v hv
            simpa using hcur v hv
          · intro v hv
            simpa using hcur v hv
          · intro off hoff
            rw [hcx'] at hoff; cases hoff
        rcases hx with rfl | rfl
        · exact common (by simp [blkStep]) (by simp [C03.clpStep, procTrack]) rfl (by simp [delivered]) (by simp [commitOffs])
        · exact common (by simp [blkStep]) (by simp [C03.clpStep, procTrack]) rfl (by simp [delivered]) (by simp [commitOffs])
      · have hM' : isMark x = false := by simpa using hM
        by_cases hC : isCommitReq x = true
        · obtain ⟨k, off, rfl⟩ := isCommitReq_shape x hC
          have hproc : c.p.processed = some off := by
            simp only [C03.clpStep] at hc1
            split at hc1
            · rename_i hq; simpa using hq
            · simp at hc1
          refine go b c m (by simp [blkStep]) (by simp [C03.clpStep, hproc]) rfl (by simp [delivered, hd]) ho hcur hpr ?_
            (fun y hy => hy)
          intro o' ho'
          simp [commitOffs] at ho'
          subst ho'
          exact hpr _ hproc
        · have hC' : isCommitReq x = false := by simpa using hC
          obtain ⟨e1, e2, e3, e4, e5⟩ := step_other b c m x hP' hjx hM' hC'
          refine go b c m e1 e2 e3 (by simp [e4, hd]) ho hcur hpr ?_ (fun y hy => hy)
          intro o' ho'
          rw [e5] at ho'; cases ho'

/-- before the first block: nothing is open, nothing processed, nothing succeeded, and no commit request is accepted -/
theorem pre_facts : ∀ (pre : List Item) (b : BlkSt) (c : C03.ClpSt), pre.all (fun x => !isProc x) = true →
    b.opn = false → b.saved = false → c.p.cur = none → c.p.processed = none → (pre.foldl C03.clpStep c).bad = false →
    (pre.foldl blkStep b).opn = false ∧ (pre.foldl C03.clpStep c).p.cur = none ∧
      (pre.foldl C03.clpStep c).p.processed = none ∧ pre.foldl sucStep {} = {} ∧ commitOffs pre = []
  | [], _, _, _, h1, _, h3, h4, _ => ⟨h1, h3, h4, rfl, rfl⟩
  | x :: pre, b, c, hp, h1, h2, h3, h4, hb => by
    simp only [List.all_cons, Bool.and_eq_true, Bool.not_eq_eq_eq_not, Bool.not_true] at hp
    obtain ⟨hpx, hpp⟩ := hp
    have hpp' : pre.all (fun x => !isProc x) = true := by simpa using hpp
    simp only [List.foldl_cons] at hb ⊢
    have hb1 := clp_sticky_foldl pre _ hb
    have k : (blkStep b x).opn = false ∧ (blkStep b x).saved = false ∧ (C03.clpStep c x).p.cur = none ∧
        (C03.clpStep c x).p.processed = none ∧ sucStep {} x = {} ∧ commitOffs [x] = [] := by
      cases x with
      | ob o =>
        cases o with
        | proc blk => simp [isProc] at hpx
        | procRet r => cases r <;> simp_all [blkStep, C03.clpStep, procTrack, sucStep, commitOffs]
        | commitReq k off =>
          simp only [C03.clpStep, h4] at hb1
          simp at hb1
        | _ => simp_all [blkStep, C03.clpStep, procTrack, sucStep, commitOffs]
      | ev e => cases e <;> simp_all [blkStep, C03.clpStep, procTrack, sucStep, commitOffs]
      | rej e => simp_all [blkStep, C03.clpStep, procTrack, sucStep, commitOffs]
    obtain ⟨k1, k2, k3, k4, k5, k6⟩ := k
    rw [k5]
    obtain ⟨r1, r2, r3, r4, r5⟩ := pre_facts pre _ _ hpp' k1 k2 k3 k4 hb
    refine ⟨r1, r2, r3, r4, ?_⟩
    rw [commitOffs_cons, k6, r5]; rfl

theorem chain_split (log : List Msg) : ∀ (a b : List Msg) (l : Int), chainAfter log l (a ++ b) = true →
    ∀ x ∈ a, ∀ y ∈ b, x.off < y.off
  | [], _, _, _, _, hx, _, _ => by cases hx
  | z :: a, b, l, h, x, hx, y, hy => by
    simp only [List.cons_append, chainAfter, Bool.and_eq_true, beq_iff_eq] at h
    rcases List.mem_cons.mp hx with rfl | hx'
    · exact chainAfter_lt log (a ++ b) x.off h.2 y (List.mem_append_right _ hy)
    · exact chain_split log a b z.off h.2 x hx' y hy

/-- A trace the three monitors accept, delivering in one segment: every delivered message at or below a committed offset
    belongs to a block whose processing succeeded. -/
theorem committed_succeeded_trace (log : List Msg) (tr : List Item) (hg : C02.noGapOk log tr = true)
    (hb : blocksSucceedOk tr = true) (hc : C03.commitLeProcessedOk tr = true) (h1 : oneSegment tr = true)
    (stored : Int) (hst : stored ∈ commitOffs tr) :
    ∀ y ∈ delivered tr, y.off ≤ stored → y ∈ succeeded tr := by
  have hchain := segment_chain log tr hg h1
  obtain ⟨pre, post, rfl, hpre, hpost⟩ := oneSegment_split tr h1
  simp only [blocksSucceedOk, C03.commitLeProcessedOk, accepts_foldl, List.foldl_append, Bool.not_eq_eq_eq_not,
    Bool.not_true] at hb hc
  have hcpre := clp_sticky_foldl post _ hc
  obtain ⟨p1, p2, p3, p4, p5⟩ := pre_facts pre {} {} hpre rfl rfl rfl rfl hcpre
  obtain ⟨j1, j2, _⟩ := joint_post post _ _ {} [] hpost hb hc rfl (fun _ => rfl)
    (fun v hv => by rw [p2] at hv; cases hv) (fun v hv => by rw [p3] at hv; cases hv)
  have hsucc : succeeded (pre ++ post) = (post.foldl sucStep {}).acc := by
    simp only [succeeded, List.foldl_append, p4]
  have hdel : delivered (pre ++ post) = (post.foldl sucStep {}).acc ++ (post.foldl sucStep {}).cur := by
    rw [delivered_append, delivered_noProc pre hpre]
    simpa using j1
  have hst' : stored ∈ commitOffs post := by
    have : commitOffs (pre ++ post) = commitOffs pre ++ commitOffs post := by
      simp only [commitOffs, List.filterMap_append]
    rw [this, p5] at hst
    simpa using hst
  obtain ⟨x, hx, hxs⟩ := j2 stored hst'
  intro y hy hle
  rw [hsucc]
  rw [hdel] at hy hchain
  rcases List.mem_append.mp hy with h | h
  · exact h
  · exfalso
    generalize (post.foldl sucStep {}).acc = A at *
    generalize (post.foldl sucStep {}).cur = B at *
    cases A with
    | nil => cases hx
    | cons a A' =>
      have hc' := hchain a (A' ++ B) rfl
      have : x.off < y.off := by
        rcases List.mem_cons.mp hx with rfl | hx'
        · exact chainAfter_lt log (A' ++ B) x.off hc' y (List.mem_append_right _ h)
        · exact chain_split log A' B a.off hc' x hx' y h
      omega

/-- for a run of the model against a faithful log -/
theorem committed_succeeded (log : List Msg) (cfg : Cfg) (script : List PEntry) (evs : List Ev)
    (hf : FaithfulLog log cfg script evs) (h1 : oneSegment (trace cfg script evs) = true)
    (stored : Int) (hst : stored ∈ commitOffs (trace cfg script evs)) :
    ∀ y ∈ committed stored (delivered (trace cfg script evs)), y ∈ succeeded (trace cfg script evs) := by
  intro y hy
  simp only [committed, List.mem_filter, decide_eq_true_eq] at hy
  exact committed_succeeded_trace log _ (noGap_trace log cfg script evs hf) (blocksSucceed_trace cfg script evs)
    (accepts_trace _ _ cfg script evs (run_g1 cfg script evs).clpOk) h1 stored hst y hy.1 hy.2

end Afkak.Proofs.Consumer.A5
