import AfkakProofs.Consumer.A5_At3
/-!
# C14 attempt limit at trace level: the processor's result, `stop()`, `shutdown()`, every level of the re-entrant API
-/
namespace Afkak.Proofs.Consumer.T
open Afkak.Consumer Afkak.Monitor Afkak.Consts Afkak.Proofs.Consumer

section
variable {cfg : Cfg} {inner : Ops} (hin : OpsA cfg inner)
include hin

/-- The processor's Deferred fires at top level (outside failure handling). -/
theorem procResult_a (g : Gen) (r : Option Fail) {s : St} (hs : Ha cfg s) (hie : (atm cfg s).inErr = false) :
    HRel cfg s (procResult cfg inner g r s) := by
  have hx := HRel.refl hs
  have h1 : HRel cfg s (procFired cfg g r s) := by
    unfold procFired
    cases r with
    | none => exact (autoCommit_a cfg true).step (by aleaf hx)
    | some f => exact (handleProcessorError_a cfg f).step (by aleaf hx)
  obtain ⟨s1, e1, h1⟩ : ∃ s1, procFired cfg g r s = s1 ∧ HRel cfg s s1 := ⟨_, rfl, h1⟩
  have hres : ∀ passed, HRel cfg s (procResume cfg inner g passed s1) := by
    intro passed
    unfold procResume
    split
    · exact h1
    · simp only []
      have h3 := procLoop_a hin (g.rest.length + 1) g.rest h1
      split
      · exact h3
      · exact h3.trans (finishFull_a hin h3.ha (h3.1.2.1.trans hie))
  unfold procResult
  simp only []
  rw [e1]
  split
  · exact (commitAndStop_a hin).step (hres _)
  · exact hres _

/-- `stop()`: the block is dropped and the suspended generator's Deferred cancelled. -/
theorem stopBlockProc_a {s : St} (hs : Ha cfg s) (hst : s.stopping = true) :
    HRel cfg s (stopBlockProc cfg inner s) ∧ (stopBlockProc cfg inner s).parked = none := by
  have hsb : HRel cfg s (stopBlock s) ∧ (stopBlock s).msgBlock = false ∧ (stopBlock s).stopping = true ∧
      (stopBlock s).parked = none := by
    unfold stopBlock
    split
    · refine ⟨?_, rfl, hst, rfl⟩
      have hx := HRel.refl hs
      aleaf hx
    · rename_i hmb
      refine ⟨HRel.refl hs, by simpa using hmb, hst, ?_⟩
      cases hpp : s.parked with
      | none => rfl
      | some r => exact absurd (hs.parkedBlock (by rw [hpp]; rfl)) hmb
  obtain ⟨hb, mb1, st1, pk1⟩ := hsb
  unfold stopBlockProc
  split
  · rename_i g hg
    generalize stopBlock s = t at *
    have hcancel : (Fail.ext ErrKind.cancelled 0).isCancelled = true := rfl
    have a : HRel cfg t { emit .procCancel t with proc := none } := by
      have ht := HRel.refl hb.ha
      aleaf ht
    have b := (handleProcessorError_a cfg (.ext .cancelled 0)).step a
    have hk : (handleProcessorError (.ext .cancelled 0) { emit .procCancel t with proc := none }).stopping = true ∧
        (handleProcessorError (.ext .cancelled 0) { emit .procCancel t with proc := none }).msgBlock = false ∧
        (handleProcessorError (.ext .cancelled 0) { emit .procCancel t with proc := none }).proc = none := by
      unfold handleProcessorError startErrback emit
      simp [st1, Fail.isCancelled, mb1]
    have e : procResult cfg inner g (some (.ext .cancelled 0)) (emit .procCancel t) =
        (if g.shutWait then commitAndStop cfg inner (handleProcessorError (.ext .cancelled 0) { emit .procCancel t with proc := none })
         else handleProcessorError (.ext .cancelled 0) { emit .procCancel t with proc := none }) := by
      have hpass : procErrPassed (.ext .cancelled 0) (emit .procCancel t) = false := by
        simp [procErrPassed, emit, st1, hcancel]
      unfold procResult
      simp only [hpass]
      unfold procFired
      simp only []
      rw [A.procResume_stopping cfg inner g _ hk.1 hk.2.1 hk.2.2]
    rw [e]
    split
    · have c := (commitAndStop_a hin).step b
      exact ⟨hb.trans c, c.pk pk1⟩
    · exact ⟨hb.trans b, b.pk pk1⟩
  · exact ⟨hb, pk1⟩

omit hin in
theorem stopReq_a : PresH cfg (stopReq cfg) := by
  intro s hs
  have hx := HRel.refl hs
  unfold stopReq
  split
  · simp only []
    rename_i k kind c hreq
    have hpk : s.parked = none := by
      cases hpp : s.parked with
      | none => rfl
      | some r =>
        obtain ⟨k', hk'⟩ := hs.parkedReq (by rw [hpp]; rfl)
        rw [hreq] at hk'; cases hk'
    have hq : HRel cfg s { emit (.cancelReq k) s with requestD := .pending k kind true } := by aleaf hx
    split
    · split
      · exact handleFetchError_a _ hq (by simpa [emit] using hpk)
      · exact handleOffsetError_a _ hq (by simpa [emit] using hpk)
    · exact hq
  · exact hx

omit hin in
theorem stopFinish_a {s0 s : St} (h : Core cfg s0 s) (hpk : s.parked = none) :
    Core cfg s0 (stopFinish s) ∧ (stopFinish s).stopping = false := by
  unfold stopFinish crash
  simp only []
  split
  · exact ⟨by coreleaf h, rfl⟩
  · exact ⟨by coreleaf h, rfl⟩
  · exact ⟨by coreleaf h, rfl⟩

theorem stopCore_a : PresW cfg (stopCore cfg inner) := by
  intro s hs
  have hq0 : Core cfg s { s with stopping := true } := by
    have hx := Core.refl hs
    coreleaf hx
  have hq1 := stopReq_a (cfg := cfg) { s with stopping := true } hq0.1
  have st1 : (stopReq cfg { s with stopping := true }).stopping = true := by rw [B.stopReq_stopping']
  obtain ⟨hq2, pk2⟩ := stopBlockProc_a hin hq1.ha st1
  unfold stopCore
  simp only []
  generalize stopBlockProc cfg inner (stopReq cfg { s with stopping := true }) = t at *
  have hq3 : ∀ fuel, HRel cfg t (stopTimers (stopCommitReq cfg inner (cancelWaiters cfg inner fuel (stopRetry t)))) :=
    fun fuel => (stopTimers_a cfg).step ((stopCommitReq_a hin).step ((cancelWaiters_a hin fuel).step ((stopRetry_a cfg).step (HRel.refl hq2.ha))))
  obtain ⟨f1, f2⟩ := stopFinish_a (hq0.trans (hq1.1.trans (hq2.1.trans (hq3 _).1))) ((hq3 _).pk pk2)
  exact ⟨f1, fun _ => f2⟩

theorem stop_a : PresH cfg (stop cfg inner) := by
  intro s hs
  unfold stop
  split
  · have hx := HRel.refl hs
    aleaf hx
  · simp only []
    have hq := stopCore_a hin s hs
    wleaf hq

theorem shutdown_a (s : St) (hs : Ha cfg s) (hp : ShutPre cfg s) : HRel cfg s (shutdown cfg inner s) := by
  have hx := HRel.refl hs
  obtain ⟨hp1, hp2⟩ := hp
  simp only [atm] at hp1 hp2
  unfold shutdown
  split
  · aleaf hx
  · split
    · aleaf hx
    · simp only []
      split
      · aleaf hx
      · exact (commitAndStop_a hin).step (by aleaf hx)

theorem mkOps_a : OpsA cfg (mkOps cfg inner) :=
  ⟨stop_a hin, stopCore_a hin, commitUser_a cfg, shutdown_a hin⟩

end

theorem opsN_a (cfg : Cfg) : ∀ n, OpsA cfg (opsN cfg n)
  | 0 => ⟨crash_a cfg _, fun s hs => (crash_a cfg _ s hs).w, crash_a cfg _, fun s hs _ => crash_a cfg _ s hs⟩
  | n + 1 => mkOps_a (opsN_a cfg n)

end Afkak.Proofs.Consumer.T
