import AfkakProofs.Consumer.B5_N1
/-!
# Quiescence after `stop()`: the commit-side handlers that call no re-entrant code, the offset/fetch error handlers
-/
namespace Afkak.Proofs.Consumer.BN
open Afkak.Consumer Afkak.Monitor Afkak.Consts Afkak.Proofs.Consumer

/-- the monitor accepts commit traffic now: the consumer runs, or the application committed on the stopped consumer -/
def Live (s : St) : Prop := (runR C13.qStep {} s.out).running = true ∨ (runR C13.qStep {} s.out).manual = true

theorem live_of_run {x : Nat} {s : St} (h : QG x s) (hr : s.startD ≠ .none) : Live s := Or.inl (h.run hr)

theorem looperReset_pq (cfg : Cfg) : PQ (looperReset cfg) := by
  intro x s h; unfold looperReset
  repeat' split
  all_goals qg_leaf h

set_option maxHeartbeats 1000000 in
theorem sendCommitRequest_q (cfg : Cfg) (d : Option Rat) (a : Option Nat) (x : Nat) (s : St) (h : QG x s) (hl : Live s)
    (hcp : commitPending s.commitCall = false) (hds : s.commitDs ≠ []) (hcr : s.commitReq = none)
    (hlp : s.lastProcessed.isSome = true) : QG x (sendCommitRequest cfg d a s) := by
  unfold Live at hl
  cases hlp' : s.lastProcessed with
  | none => simp [hlp'] at hlp
  | some off => cases hcc : s.commitCall <;> simp only [sendCommitRequest, hcc, hcr, hlp'] <;> qg_leaf h

theorem handleAutoCommitError_pq (f : Fail) : PQ (handleAutoCommitError f) := by
  intro x s h; unfold handleAutoCommitError
  repeat' split
  all_goals first | exact h | exact startErrback_pq f x s h

theorem handleProcessorError_pq (f : Fail) : PQ (handleProcessorError f) := by
  intro x s h; unfold handleProcessorError; split
  · exact h
  · exact startErrback_pq f x s h


theorem live_emit (o : Ob) (s : St) (hl : Live s) (ho : ∀ m, C13.qStep m (.ob o) = m) : Live (emit o s) := by
  unfold Live emit at *; simp only [runR_cons, ho]; exact hl

theorem lp_of_guard (s : St) (hn : ¬(s.lastProcessed.isNone || s.lastProcessed == s.lastCommitted) = true) :
    s.lastProcessed.isSome = true := by
  cases hq : s.lastProcessed <;> simp_all

/-- `commit()`'s effect, for a manual or automatic commit -/
theorem commitState_q (cfg : Cfg) (who : Who) (hw : who ≠ .shut) (x : Nat) (s : St) (h : QG x s) (hl : Live s)
    (hst : s.stopping = false) : QG x (commitState cfg who s) := by
  unfold commitState
  split
  · exact h
  · split
    · exact h
    · rename_i hn2
      have hlp := lp_of_guard s hn2
      split
      · cases who with
        | user => qg_leaf h
        | auto => qg_leaf h
        | shut => exact (hw rfl).elim
      · rename_i hne
        have hemp : s.commitDs = [] := by simpa using hne
        have hd := h.ds hst hemp
        simp only []
        apply looperReset_pq
        apply sendCommitRequest_q
        · cases who with
          | user => qg_leaf h
          | auto => qg_leaf h
          | shut => exact (hw rfl).elim
        · exact hl
        · exact hd.2
        · simp
        · exact hd.1
        · exact hlp

/-- `commit()`'s effect for `shutdown()`'s own commit, when it does wait for a commit: the continuation moves into
    `_commit_ds` -/
theorem commitState_shut_q (cfg : Cfg) (x : Nat) (s : St) (h : QG (x + 1) s) (hl : Live s) (hst : s.stopping = false)
    (hres : commitResult cfg .shut s = none ∨ commitResult cfg .shut s = some (.err (.opInProgress 0))) :
    QG x (commitState cfg .shut s) := by
  unfold commitResult at hres
  unfold commitState
  split
  · rename_i hg; simp [hg] at hres
  · rename_i hg
    split
    · rename_i hn; simp [hg, hn] at hres
    · rename_i hn2
      have hlp := lp_of_guard s hn2
      split
      · qg_leaf h
      · rename_i hne
        have hemp : s.commitDs = [] := by simpa using hne
        have hd := h.ds hst hemp
        simp only []
        apply looperReset_pq
        apply sendCommitRequest_q
        · qg_leaf h
        · exact hl
        · exact hd.2
        · simp
        · exact hd.1
        · exact hlp

theorem autoCommit_q (cfg : Cfg) (b : Bool) (x : Nat) (s : St) (h : QG x s) : QG x (autoCommit cfg b s) := by
  unfold autoCommit
  split
  · exact h
  · rename_i hguard
    have hst : s.stopping = false := by
      cases hq : s.stopping with
      | false => rfl
      | true => simp [hq] at hguard
    have hrun : s.startD ≠ .none := by
      intro hq; simp [hq] at hguard
    have hlp : s.lastProcessed.isSome = true := by
      cases hq : s.lastProcessed with
      | some v => rfl
      | none => simp [hq] at hguard
    have hl := live_of_run h hrun
    have hc := commitState_q cfg .auto (by decide) x s h hl hst
    simp only []
    repeat' split
    all_goals first
      | exact h
      | exact handleAutoCommitError_pq _ x _ hc
      | exact hc
      | qg_leaf h

theorem commitUser_q (cfg : Cfg) (x : Nat) (s : St) (h : QG x s) (hl : Live s) (hst : s.stopping = false) :
    QG x (commitUser cfg s) := by
  have h1 := commitState_q cfg .user (by decide) x s h hl hst
  unfold commitUser
  simp only []
  generalize commitState cfg .user s = s1 at h1
  split
  · qg_leaf h1
  · qg_leaf h1

theorem offsetResponseTail_q (cfg : Cfg) (isFetch : Bool) (off : Int) (x : Nat) (s : St) (h : QG x s) :
    QG x (offsetResponseTail cfg isFetch off s) := by
  unfold offsetResponseTail
  split
  · exact h
  · rename_i hr
    apply doFetch_q cfg
    · repeat' split
      all_goals qg_leaf h
    · repeat' split
      all_goals (simp only []; simpa using hr)

theorem offsetErrorTail_pq (cfg : Cfg) (f : Fail) : PQ (offsetErrorTail cfg f) := by
  intro x s h; unfold offsetErrorTail
  repeat' split
  all_goals first | exact h | exact startErrback_pq f x s h | exact retryFetch_pq cfg none x s h

theorem fetchErrorTail_pq (cfg : Cfg) (f : Fail) : PQ (fetchErrorTail cfg f) := by
  intro x s h; unfold fetchErrorTail
  simp only []
  have h2 : QG x { s with fetchOffset := cfg.reset.getD s.fetchOffset } := by qg_leaf h
  repeat' split
  all_goals first | exact h | exact h2 | exact startErrback_pq f x _ h | exact startErrback_pq f x _ h2 | exact retryFetch_pq cfg none x _ h | exact retryFetch_pq cfg none x _ h2

end Afkak.Proofs.Consumer.BN
