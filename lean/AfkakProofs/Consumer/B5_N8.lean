import AfkakProofs.Consumer.B5_N7
/-!
# Quiescence after `stop()`: the processor's result while the consumer runs, the re-entrant API at every depth ≥ 2
-/
namespace Afkak.Proofs.Consumer.BN
open Afkak.Consumer Afkak.Monitor Afkak.Consts Afkak.Proofs.Consumer

set_option linter.unusedSectionVars false

variable [EnvHyp]

/-! ## Handing a shutdown token over a handler that runs no re-entrant code -/

/-- what a handler that runs while a graceful shutdown is pending (and so delivers nothing) leaves alone -/
def Sh (s s' : St) : Prop :=
  s'.commitDs = s.commitDs ∧ s'.proc = s.proc ∧ s'.shutdownD = s.shutdownD ∧ s'.shuttingDown = s.shuttingDown ∧
    (s'.startD = .none ↔ s.startD = .none) ∧ s'.stopping = s.stopping

theorem Sh.refl (s : St) : Sh s s := ⟨rfl, rfl, rfl, rfl, Iff.rfl, rfl⟩
theorem Sh.trans {a b c : St} (h1 : Sh a b) (h2 : Sh b c) : Sh a c :=
  ⟨h2.1.trans h1.1, h2.2.1.trans h1.2.1, h2.2.2.1.trans h1.2.2.1, h2.2.2.2.1.trans h1.2.2.2.1,
    h2.2.2.2.2.1.trans h1.2.2.2.2.1, h2.2.2.2.2.2.trans h1.2.2.2.2.2⟩

/-- a token in hand may be dropped (the invariant only bounds them from above) -/
theorem qg_drop {x : Nat} {s : St} (h : QG (x + 1) s) : QG x s :=
  { h with
    one := by have := h.one; omega
    sd := fun hf => by have := h.sd hf; omega
    sh := fun _ => h.sh (by omega) }

/-- … and taken up again after a handler that left the shutdown's state alone -/
theorem qg_token {s s' : St} (h : QG 1 s) (h' : QG 0 s') (hsh : Sh s s') : QG 1 s' := by
  have h1 := h.one
  have h2 := h.sd
  have h3 := h.sh (by omega)
  obtain ⟨e1, e2, e3, e4, e5, e6⟩ := hsh
  exact { h' with
    one := by rw [e1, e2]; exact h1
    sd := fun hf => by rw [e3] at hf; have := h2 hf; omega
    sh := fun _ => ⟨fun hn => h3.1 (e5.mp hn), e4.trans h3.2⟩ }

theorem procLoop_shut (cfg : Cfg) (inner : Ops) (n : Nat) (rest : List Msg) (s : St) (h : s.shuttingDown = true) :
    procLoop cfg inner (n + 1) rest s = (s, true) := by
  unfold procLoop; simp [h]

theorem retryFetch_shut (cfg : Cfg) (a : Option Rat) (s : St) (h : s.shuttingDown = true) : retryFetch cfg a s = s := by
  unfold retryFetch; simp [h]

theorem startErrback_sh (f : Fail) (s : St) : Sh s (startErrback f s) := by
  unfold startErrback emit Sh
  split <;> simp_all

section
variable {cfg : Cfg} {inner : Ops}

theorem deliverBlock_sh (msgs : List Msg) (s : St) (h : s.shuttingDown = true) (hp : s.proc = none) :
    Sh s (deliverBlock cfg inner msgs s) := by
  unfold deliverBlock
  split
  · exact Sh.refl s
  · have e := procLoop_shut cfg inner msgs.length msgs { s with msgBlock := true } h
    simp only []
    rw [e]
    simp only [hp]
    unfold finishSimple Sh
    simp [hp]

/-- `_handle_fetch_response` for a parked reply while a graceful shutdown is pending: nothing is delivered -/
theorem fetchTail_sh (r : Reply) (s : St) (h : s.shuttingDown = true) (hp : s.proc = none) :
    Sh s (fetchTail cfg inner true r s) := by
  unfold fetchTail
  simp only []
  split
  · have h1 := deliverBlock_sh (cfg := cfg) (inner := inner) (extract s.fetchOffset r.msgs).1
      { s with fetchOffset := (extract s.fetchOffset r.msgs).2 } h hp
    rw [retryFetch_shut _ _ _ (h1.2.2.2.1.trans h)]
    exact h1
  · split
    · rename_i b _
      have h1 := deliverBlock_sh (cfg := cfg) (inner := inner) (extract s.fetchOffset r.msgs).1
        { s with fetchOffset := (extract s.fetchOffset r.msgs).2, bufferSize := b } h hp
      rw [retryFetch_shut _ _ _ (h1.2.2.2.1.trans h)]
      exact h1
    · have hk := startErrback_sh .tooSmall { s with fetchOffset := (extract s.fetchOffset r.msgs).2 }
      have h1 := deliverBlock_sh (cfg := cfg) (inner := inner) (extract s.fetchOffset r.msgs).1 _
        (hk.2.2.2.1.trans h) (hk.2.1.trans hp)
      simp only [Bool.not_true, Bool.and_false, Bool.false_eq_true, if_false]
      exact Sh.trans (Sh.trans ⟨rfl, rfl, rfl, rfl, Iff.rfl, rfl⟩ hk) h1
  · simp only [if_true]
    exact deliverBlock_sh (cfg := cfg) (inner := inner) (extract s.fetchOffset r.msgs).1
      { s with fetchOffset := (extract s.fetchOffset r.msgs).2 } h hp

theorem finishFull_sh (s : St) (h : s.shuttingDown = true) (hp : s.proc = none) : Sh s (finishFull cfg inner s) := by
  unfold finishFull
  split
  · simp only []
    split
    · split
      · exact ⟨rfl, rfl, rfl, rfl, Iff.rfl, rfl⟩
      · unfold fetchBody
        exact Sh.trans ⟨rfl, rfl, rfl, rfl, Iff.rfl, rfl⟩ (fetchTail_sh (cfg := cfg) (inner := inner) _ _ h hp)
    · exact ⟨rfl, rfl, rfl, rfl, Iff.rfl, rfl⟩
  · exact Sh.refl s

end

/-! ## The processor's Deferred fires while the consumer runs -/

section
variable {cfg : Cfg} {inner : Ops} (hin : OpsQ inner) (hs : OpsS inner) (hc : OpsPN Calm inner)
include hin hs hc

theorem procResult_run_q (g : Gen) (r : Option Fail) (s : St) (h : QG (gShut (some g)) { s with proc := none })
    (hst : s.stopping = false) (hrun : s.startD ≠ .none) (hmb : s.msgBlock = true) :
    QS (procResult cfg inner g r s) := by
  -- the state after the callbacks that precede the generator's own
  have h1 : QG (gShut (some g)) (procFired cfg g r s) ∧ Keeps { s with proc := none } (procFired cfg g r s) := by
    unfold procFired
    cases r with
    | none =>
      simp only []
      have h0 : QG (gShut (some g)) { s with proc := none, lastProcessed := some g.last } := by qg_leaf h
      exact ⟨autoCommit_q cfg true _ _ h0,
        Keeps.trans ⟨rfl, rfl, rfl, Iff.rfl, rfl, rfl, rfl⟩ (autoCommit_keeps cfg true _)⟩
    | some f =>
      simp only []
      exact ⟨handleProcessorError_pq f _ _ h, handleProcessorError_keeps f _⟩
  obtain ⟨h1, k1⟩ := h1
  have hp1 : (procFired cfg g r s).proc = none := k1.1
  have hst1 : (procFired cfg g r s).stopping = false := k1.2.1.trans hst
  have hmb1 : (procFired cfg g r s).msgBlock = true := k1.2.2.1.trans hmb
  have hrun1 : (procFired cfg g r s).startD ≠ .none := fun e => hrun (k1.2.2.2.1.mp e)
  suffices key : ∀ passed, QS (if g.shutWait = true then commitAndStop cfg inner (procResume cfg inner g passed (procFired cfg g r s))
      else procResume cfg inner g passed (procFired cfg g r s)) by
    unfold procResult
    simp only []
    exact key _
  generalize procFired cfg g r s = s1 at h1 hp1 hst1 hmb1 hrun1
  intro passed
  cases hsw : g.shutWait with
  | false =>
    have h1' : QG 0 s1 := by simpa [gShut, hsw] using h1
    have hn1 : QN s1 := ⟨h1', hst1, hp1, fun _ => hmb1⟩
    simp only [Bool.false_eq_true, if_false]
    unfold procResume
    split
    · exact ⟨h1', hst1⟩
    · have h3 := procLoop_q (cfg := cfg) hin (g.rest.length + 1) g.rest _ hn1 hrun1
      simp only []
      generalize procLoop cfg inner (g.rest.length + 1) g.rest s1 = res at h3
      split
      · exact h3
      · rename_i hcnd
        apply finishFull_q hin hc _ h3
        cases hq : res.1.proc with
        | none => rfl
        | some g' => simp [hq] at hcnd
  | true =>
    have h1' : QG 1 s1 := by simpa [gShut, hsw] using h1
    have hsd1 : s1.shuttingDown = true := (h1'.sh (by omega)).2
    simp only [if_true]
    have h2 : QG 1 (procResume cfg inner g passed s1) ∧ (procResume cfg inner g passed s1).stopping = false := by
      unfold procResume
      split
      · exact ⟨h1', hst1⟩
      · rw [procLoop_shut cfg inner _ _ _ hsd1]
        simp only [hp1]
        have h3 := finishFull_q (cfg := cfg) hin hc s1 ⟨qg_drop h1', hst1⟩ hp1
        have h4 := finishFull_sh (cfg := cfg) (inner := inner) s1 hsd1 hp1
        simpa using ⟨qg_token h1' h3.1 h4, h3.2⟩
    exact (commitAndStop_q (cfg := cfg) hs _ h2.1 h2.2).1

end

/-! ## The re-entrant API, at every depth -/

theorem commitUser_keeps (cfg : Cfg) (s : St) : Keeps s (commitUser cfg s) := by
  have hk := commitState_keeps cfg .user s
  unfold commitUser
  simp only []
  split
  · exact Keeps.trans hk ⟨rfl, rfl, rfl, Iff.rfl, rfl, rfl, rfl⟩
  · exact Keeps.trans hk ⟨rfl, rfl, rfl, Iff.rfl, rfl, rfl, rfl⟩

section
variable {cfg : Cfg} {inner : Ops}

theorem stop_pn (s : St) (h : QN s) : QN (stop cfg inner s) := by
  obtain ⟨a, b, c⟩ := stop_q (cfg := cfg) (inner := inner) s ⟨h.1, h.2.1⟩
  exact ⟨a.1, a.2, c h.2.2.1, fun hne => absurd b hne⟩

theorem commitUser_pn (s : St) (h : QN s) (hl : Live s) : QN (commitUser cfg s) :=
  qn_keeps (commitUser_keeps cfg s) (commitUser_q cfg 0 s h.1 hl h.2.1) h

theorem shutdown_pn (hs : OpsS inner) (s : St) (h : QN s) : QN (shutdown cfg inner s) := by
  obtain ⟨a, b, c⟩ := shutdown_q (cfg := cfg) hs s ⟨h.1, h.2.1⟩
  refine ⟨a.1, a.2, b h.2.2.1, fun hne => ?_⟩
  rcases c with c | ⟨c1, c2⟩
  · exact absurd c hne
  · rw [c2]; exact h.2.2.2 (fun e => hne (c1.mpr e))

theorem mkOps_s (cfg : Cfg) (inner : Ops) : OpsS (mkOps cfg inner) :=
  fun s h hr => stopCore_q (cfg := cfg) (inner := inner) s h hr

theorem mkOps_q (cfg : Cfg) (inner : Ops) (hs : OpsS inner) : OpsQ (mkOps cfg inner) where
  stop := stop_pn
  commit := commitUser_pn
  shutdown := shutdown_pn hs

end

theorem opsN_s (cfg : Cfg) (n : Nat) : OpsS (opsN cfg (n + 1)) := mkOps_s cfg _
theorem opsN_q (cfg : Cfg) (n : Nat) : OpsQ (opsN cfg (n + 2)) := mkOps_q cfg _ (opsN_s cfg n)

end Afkak.Proofs.Consumer.BN
