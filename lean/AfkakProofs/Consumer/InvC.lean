import AfkakProofs.Consumer.InvP
/-!
# `Quiet` and `Calm` through `stop()`, the re-entrant API and the processing loop
-/
namespace Afkak.Proofs.Consumer
open Afkak.Consumer Afkak.Monitor Afkak.Consts

variable [EnvHyp]

/-- while stopping, cancelling the request does not schedule a refetch -/
theorem stopReq_retry (cfg : Cfg) (s : St) (hst : s.stopping = true) : (stopReq cfg s).retryCall = s.retryCall := by
  unfold stopReq handleFetchError handleOffsetError fetchErrorTail offsetErrorTail startErrback retryFetch emit
  grind

/-- cancelling the request leaves no uncancelled request behind -/
theorem stopReq_calm (cfg : Cfg) (s : St) : activeReq (stopReq cfg s).requestD = none := by
  unfold stopReq handleFetchError handleOffsetError fetchErrorTail offsetErrorTail startErrback retryFetch emit activeReq
  grind

theorem stopRetry_quiet (s : St) (h : s.proc = none) : Quiet (stopRetry s) := by
  unfold Quiet stopRetry emit retryPending; grind

theorem stopRetry_calm (s : St) (h : Calm s) : Calm (stopRetry s) := by
  obtain ⟨h1, h2, h3⟩ := h
  unfold Calm CalmR stopRetry emit at *; grind

theorem stopFinish_quiet (s : St) (h : Quiet s) : Quiet (stopFinish s) := by
  obtain ⟨h1, h2⟩ := h
  unfold Quiet stopFinish crash emit at *; grind

theorem stopFinish_calm (s : St) (h : Calm s) : Calm (stopFinish s) := by
  obtain ⟨h1, h2, h3⟩ := h
  have hn : activeReq ReqD.none = none := rfl
  unfold Calm CalmR stopFinish crash emit at *; grind

/-- cancelling the request does not touch a parked reply -/
theorem stopReq_parked (cfg : Cfg) (s : St) : (stopReq cfg s).parked = s.parked := by
  unfold stopReq handleFetchError handleOffsetError fetchErrorTail offsetErrorTail startErrback retryFetch emit
  grind

/-- the block phase of `stop()` drops a parked reply together with its request -/
theorem stopBlockProc_calm (cfg : Cfg) (inner : Ops) (s : St) (hp : s.proc = none) (hq : activeReq s.requestD = none)
    (hpk : s.parked.isSome = true → s.msgBlock = true) : Calm (stopBlockProc cfg inner s) := by
  unfold stopBlockProc
  simp only [stopBlock_proc, hp]
  unfold Calm CalmR stopBlock
  cases hpp : s.parked with
  | none => split <;> simp [hq, hpp, hp]
  | some r =>
    have hb := hpk (by rw [hpp]; rfl)
    simp [hb, hpp, activeReq, hp]

section
variable {cfg : Cfg} {inner : Ops}

theorem procNone_ok : QOk (fun s => s.proc = none) := ⟨fun _ _ hk h => hk.1.trans h, fun _ h => h⟩

/-- the whole of `stop()`'s body from a state where no generator is suspended -/
theorem stopCore_quiet (hin : OpsPN Quiet inner) (s : St) (hp : s.proc = none) : Quiet (stopCore cfg inner s) := by
  have hq := quiet_ok
  have k0 := stopReq_keeps0 cfg { s with stopping := true }
  have p1 : (stopReq cfg { s with stopping := true }).proc = none := k0.1.trans hp
  have p2 := stopBlockProc_procNone (cfg := cfg) (inner := inner) procNone_ok _ p1
  have q3 := stopRetry_quiet _ p2
  unfold stopCore
  simp only []
  exact stopFinish_quiet _ (stopTail_pn hq hin q3)

theorem stopCore_calm (hin : OpsPN Calm inner) (s : St) (h : Calm s) : Calm (stopCore cfg inner s) := by
  have hq := calm_ok
  have k0 := stopReq_keeps0 cfg { s with stopping := true }
  have p1 : (stopReq cfg { s with stopping := true }).proc = none := k0.1.trans h.1
  have c2 := stopBlockProc_calm cfg inner _ p1 (stopReq_calm cfg _) (by rw [stopReq_parked]; simp [h.2.2])
  have c3 := stopRetry_calm _ c2
  unfold stopCore
  simp only []
  exact stopFinish_calm _ (stopTail_pn hq hin c3)

theorem stop_pn_quiet (hin : OpsPN Quiet inner) : PN Quiet (stop cfg inner) := by
  intro s h
  unfold stop
  split
  · exact quiet_ok.upd h ⟨rfl, rfl, rfl, Iff.rfl, rfl, rfl, rfl⟩
  · exact quiet_ok.upd (stopCore_quiet hin s h.1) ⟨rfl, rfl, rfl, Iff.rfl, rfl, rfl, rfl⟩

theorem stop_pn_calm (hin : OpsPN Calm inner) : PN Calm (stop cfg inner) := by
  intro s h
  unfold stop
  split
  · exact calm_ok.upd h ⟨rfl, rfl, rfl, Iff.rfl, rfl, rfl, rfl⟩
  · exact calm_ok.upd (stopCore_calm hin s h) ⟨rfl, rfl, rfl, Iff.rfl, rfl, rfl, rfl⟩

theorem shutdown_pn {Q : St → Prop} (hq : QOk Q) (hin : OpsPN Q inner) : PN Q (shutdown cfg inner) := by
  intro s h
  have hp := hq.procNone s h
  unfold shutdown
  split
  · exact hq.upd h ⟨rfl, rfl, rfl, Iff.rfl, rfl, rfl, rfl⟩
  · split
    · exact hq.upd h ⟨rfl, rfl, rfl, Iff.rfl, rfl, rfl, rfl⟩
    · simp only [hp]
      exact commitAndStop_pn hq hin _ (hq.upd h ⟨by simp [hp], rfl, rfl, Iff.rfl, rfl, rfl, rfl⟩)

theorem mkOps_quiet (hin : OpsPN Quiet inner) : OpsPN Quiet (mkOps cfg inner) :=
  ⟨stop_pn_quiet hin, fun s h => stopCore_quiet hin s h.1, commitUser_pn quiet_ok cfg, shutdown_pn quiet_ok hin⟩

theorem mkOps_calm (hin : OpsPN Calm inner) : OpsPN Calm (mkOps cfg inner) :=
  ⟨stop_pn_calm hin, fun s h => stopCore_calm hin s h, commitUser_pn calm_ok cfg, shutdown_pn calm_ok hin⟩

end

theorem opsN_quiet (cfg : Cfg) : ∀ n, OpsPN Quiet (opsN cfg n)
  | 0 => ⟨crash_pn quiet_ok _, crash_pn quiet_ok _, crash_pn quiet_ok _, crash_pn quiet_ok _⟩
  | n + 1 => mkOps_quiet (opsN_quiet cfg n)

theorem opsN_calm (cfg : Cfg) : ∀ n, OpsPN Calm (opsN cfg n)
  | 0 => ⟨crash_pn calm_ok _, crash_pn calm_ok _, crash_pn calm_ok _, crash_pn calm_ok _⟩
  | n + 1 => mkOps_calm (opsN_calm cfg n)

/-! ## "No generator is suspended" alone -/

def ProcNone (s : St) : Prop := s.proc = none

theorem procNone_ok' : QOk ProcNone := ⟨fun _ _ hk h => hk.1.trans h, fun _ h => h⟩

section
variable {cfg : Cfg} {inner : Ops}

theorem stopCore_procNone (hin : OpsPN ProcNone inner) (s : St) (hp : s.proc = none) : ProcNone (stopCore cfg inner s) := by
  have k0 := stopReq_keeps0 cfg { s with stopping := true }
  have p1 : (stopReq cfg { s with stopping := true }).proc = none := k0.1.trans hp
  have p2 := stopBlockProc_procNone (cfg := cfg) (inner := inner) procNone_ok' _ p1
  have p3 : ProcNone (stopRetry (stopBlockProc cfg inner (stopReq cfg { s with stopping := true }))) := by
    have : ∀ x : St, (stopRetry x).proc = x.proc := by intro x; unfold stopRetry emit; grind
    exact (this _).trans p2
  have p4 := stopTail_pn procNone_ok' hin (cfg := cfg) p3
  unfold stopCore
  simp only []
  have : ∀ x : St, (stopFinish x).proc = x.proc := by intro x; unfold stopFinish crash emit; grind
  exact (this _).trans p4

theorem mkOps_procNone (hin : OpsPN ProcNone inner) : OpsPN ProcNone (mkOps cfg inner) := by
  refine ⟨?_, fun s h => stopCore_procNone hin s h, commitUser_pn procNone_ok' cfg, shutdown_pn procNone_ok' hin⟩
  intro s h
  show ProcNone (stop cfg inner s)
  unfold stop
  split
  · exact h
  · exact stopCore_procNone hin s h

end

theorem opsN_procNone (cfg : Cfg) : ∀ n, OpsPN ProcNone (opsN cfg n)
  | 0 => ⟨crash_pn procNone_ok' _, crash_pn procNone_ok' _, crash_pn procNone_ok' _, crash_pn procNone_ok' _⟩
  | n + 1 => mkOps_procNone (opsN_procNone cfg n)

theorem stopBlock_facts (s : St) : (stopBlock s).stopping = s.stopping ∧ (stopBlock s).msgBlock = false := by
  unfold stopBlock; split <;> simp_all

/-- `stop()`'s block/processor phase leaves no generator suspended -/
theorem stopBlockProc_stopping_procNone {cfg : Cfg} {inner : Ops} (hin : OpsPN ProcNone inner) (s : St)
    (hst : s.stopping = true) : (stopBlockProc cfg inner s).proc = none := by
  obtain ⟨f1, f2⟩ := stopBlock_facts s
  unfold stopBlockProc
  generalize stopBlock s = sb at *
  split
  · rename_i g hg
    -- the cancelled generator resumes, sees `_stopping`, and ends
    unfold procResult
    simp only []
    have hk := handleProcessorError_keeps (Fail.ext ErrKind.cancelled 0) { emit Ob.procCancel sb with proc := none }
    have hfired : (procFired cfg g (some (Fail.ext ErrKind.cancelled 0)) (emit Ob.procCancel sb)).proc = none ∧
        (procFired cfg g (some (Fail.ext ErrKind.cancelled 0)) (emit Ob.procCancel sb)).stopping = true ∧
        (procFired cfg g (some (Fail.ext ErrKind.cancelled 0)) (emit Ob.procCancel sb)).msgBlock = false :=
      ⟨hk.1, hk.2.1.trans (f1.trans hst), hk.2.2.1.trans f2⟩
    generalize procFired cfg g (some (Fail.ext ErrKind.cancelled 0)) (emit Ob.procCancel sb) = s1 at *
    obtain ⟨p1, st1, mb1⟩ := hfired
    have hres : ∀ p, (procResume cfg inner g p s1).proc = none := by
      intro p
      unfold procResume
      split
      · exact p1
      · simp only []
        have hl : procLoop cfg inner (g.rest.length + 1) g.rest s1 = (s1, true) := by
          unfold procLoop; simp [st1]
        rw [hl]
        simp only [p1]
        unfold finishFull
        simp [mb1, p1]
    split
    · exact commitAndStop_pn procNone_ok' hin _ (hres _)
    · exact hres _
  · rename_i hg
    exact hg

/-- `stop()`'s block/processor phase leaves nothing requested or parked either -/
theorem stopBlockProc_stopping_calm {cfg : Cfg} {inner : Ops} (hin : OpsPN Calm inner) (hpn : OpsPN ProcNone inner) (s : St)
    (hst : s.stopping = true) (hq : activeReq s.requestD = none) (hpk : s.parked.isSome = true → s.msgBlock = true) :
    Calm (stopBlockProc cfg inner s) := by
  have hp := stopBlockProc_stopping_procNone (cfg := cfg) hpn s hst
  refine ⟨hp, ?_⟩
  obtain ⟨f1, f2⟩ := stopBlock_facts s
  have cb : CalmR (stopBlock s) := by
    unfold CalmR stopBlock
    cases hpp : s.parked with
    | none => split <;> simp [hq, hpp]
    | some r =>
      have hb := hpk (by rw [hpp]; rfl)
      simp [hb, hpp, activeReq]
  unfold stopBlockProc
  generalize stopBlock s = sb at *
  split
  · rename_i g hg
    unfold procResult
    simp only []
    have hk := handleProcessorError_keeps (Fail.ext ErrKind.cancelled 0) { emit Ob.procCancel sb with proc := none }
    have c1 : Calm (procFired cfg g (some (Fail.ext ErrKind.cancelled 0)) (emit Ob.procCancel sb)) :=
      ⟨hk.1, CalmR.of_keeps hk ⟨cb.1, cb.2⟩⟩
    have st1 : (procFired cfg g (some (Fail.ext ErrKind.cancelled 0)) (emit Ob.procCancel sb)).stopping = true :=
      hk.2.1.trans (f1.trans hst)
    have mb1 : (procFired cfg g (some (Fail.ext ErrKind.cancelled 0)) (emit Ob.procCancel sb)).msgBlock = false :=
      hk.2.2.1.trans f2
    generalize procFired cfg g (some (Fail.ext ErrKind.cancelled 0)) (emit Ob.procCancel sb) = s1 at *
    have hres : ∀ p, procResume cfg inner g p s1 = s1 := by
      intro p
      unfold procResume
      split
      · rfl
      · simp only []
        have hl : procLoop cfg inner (g.rest.length + 1) g.rest s1 = (s1, true) := by
          unfold procLoop; simp [st1]
        rw [hl]
        simp only [c1.1]
        unfold finishFull
        simp [mb1]
    rw [hres]
    split
    · exact (commitAndStop_pn calm_ok hin _ c1).2
    · exact c1.2
  · exact cb

section
variable {cfg : Cfg} {inner : Ops} (hqt : OpsPN Quiet inner) (hc : OpsPN Calm inner) (hpn : OpsPN ProcNone inner)
include hpn

include hqt in
/-- after `stop()`'s body: no generator suspended, no refetch scheduled (from ANY state) -/
theorem stopCore_quiet_any (s : St) : Quiet (stopCore cfg inner s) := by
  have k0 := stopReq_keeps0 cfg { s with stopping := true }
  have p2 := stopBlockProc_stopping_procNone (cfg := cfg) hpn (stopReq cfg { s with stopping := true }) k0.2.1
  have q3 := stopRetry_quiet _ p2
  unfold stopCore
  simp only []
  exact stopFinish_quiet _ (stopTail_pn quiet_ok hqt q3)

include hc in
/-- after `stop()`'s body: no uncancelled request outstanding, no reply parked -/
theorem stopCore_calm_any (s : St) (hpk : s.parked.isSome = true → s.msgBlock = true) : Calm (stopCore cfg inner s) := by
  have k0 := stopReq_keeps0 cfg { s with stopping := true }
  have c2 := stopBlockProc_stopping_calm (cfg := cfg) hc hpn (stopReq cfg { s with stopping := true }) k0.2.1
    (stopReq_calm cfg _) (by rw [stopReq_parked, k0.2.2.1]; exact hpk)
  have c3 := stopRetry_calm _ c2
  unfold stopCore
  simp only []
  exact stopFinish_calm _ (stopTail_pn calm_ok hc c3)

end

/-! ## The processing loop issues no request and parks no reply -/

theorem procLeave_calmR (res : PRes) (rest' : List Msg) (last : Int) (s : St) (h : CalmR s) :
    CalmR (procLeave res rest' last s) := by
  obtain ⟨h1, h2⟩ := h
  unfold CalmR procLeave emit at *; grind

section
variable {cfg : Cfg} {inner : Ops} (hc : OpsPN Calm inner)
include hc

theorem procActs_calm (acts : List Act) : ∀ (s : St), Calm s → Calm (procActs inner acts s) := by
  unfold procActs
  induction acts with
  | nil => intro s h; exact h
  | cons a as ih =>
    intro s h
    simp only [List.foldl_cons]
    refine ih _ ?_
    have h1 : Calm (emit (.act a) s) := calm_ok.upd h ⟨rfl, rfl, rfl, Iff.rfl, rfl, rfl, rfl⟩
    cases a
    · exact hc.stop _ h1
    · exact hc.commit _ h1
    · exact hc.shutdown _ h1

theorem procBody_calm (k : St → St × Bool)
    (hk : ∀ s', Calm s' → CalmR (k s').1)
    (blk rest' : List Msg) (last : Int) (e : PEntry) (s : St) (h : Calm s) :
    CalmR (procBody cfg inner k blk rest' last e s).1 := by
  have h1 : Calm (procEnter blk rest' last s) := ⟨h.1, h.2.1, h.2.2⟩
  have h2 := procActs_calm hc e.acts _ h1
  unfold procBody
  simp only []
  generalize procActs inner e.acts (procEnter blk rest' last s) = s2 at *
  cases hres : e.res with
  | ok =>
    simp only []
    have h3 : Calm (procLeave .ok rest' last s2) := ⟨h2.1, procLeave_calmR _ _ _ _ h2.2⟩
    have h4 : Calm (autoCommit cfg true (procLeave .ok rest' last s2)) := calm_ok.upd h3 (autoCommit_keeps cfg true _)
    split
    · exact h4.2
    · exact hk _ h4
  | err kd t =>
    simp only []
    have h3 : Calm (procLeave (.err kd t) rest' last s2) := ⟨h2.1, procLeave_calmR _ _ _ _ h2.2⟩
    have h4 : Calm (handleProcessorError (.ext kd t) (procLeave (.err kd t) rest' last s2)) :=
      calm_ok.upd h3 (handleProcessorError_keeps _ _)
    split
    · exact h4.2
    · split
      · exact h4.2
      · exact hk _ h4
  | defer =>
    simp only []
    have r3 := procLeave_calmR .defer rest' last s2 h2.2
    split
    · exact r3
    · exact CalmR.of_keeps (handleProcessorError_keeps _ _) r3

theorem procLoop_calm : ∀ (fuel : Nat) (rest : List Msg) (s : St), Calm s →
    CalmR (procLoop cfg inner fuel rest s).1 := by
  intro fuel
  induction fuel with
  | zero => intro rest s h; simpa [procLoop] using h.2
  | succ n ih =>
    intro rest s h
    unfold procLoop
    split
    · exact h.2
    · split
      · exact h.2
      · exact procBody_calm hc _ (fun s' h' => ih _ s' h') _ _ _ _ s h

theorem deliverBlock_calm (msgs : List Msg) (s : St) (h : Calm s) :
    CalmR (deliverBlock cfg inner msgs s) := by
  unfold deliverBlock
  split
  · exact h.2
  · simp only []
    have h2 := procLoop_calm (cfg := cfg) hc (msgs.length + 1) msgs { s with msgBlock := true } ⟨h.1, h.2.1, h.2.2⟩
    split
    · exact h2
    · unfold finishSimple
      split
      · exact ⟨h2.1, rfl⟩
      · exact h2

end

end Afkak.Proofs.Consumer
