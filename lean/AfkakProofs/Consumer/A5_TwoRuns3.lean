import AfkakProofs.Consumer.A5_TwoRuns2
/-!
# C03, two runs sharing the coordinator's offset store: the commit and resume monitors, the theorem
-/
namespace Afkak.Proofs.Consumer.A5
open Afkak.Consumer Afkak.Monitor Afkak.Consts Afkak.Props.Open.C02 Afkak.Proofs.Consumer

/-! ## Every committed offset is the offset of a delivered message (`C03.clpStep`) -/

theorem clp_sticky (m : C03.ClpSt) (x : Item) (h : m.bad = true) : (C03.clpStep m x).bad = true := by
  unfold C03.clpStep
  split
  · split <;> simp [h]
  · simp [h]

theorem clp_inv (tr : List Item) : (tr.foldl C03.clpStep {}).bad = false →
    (∀ c, (tr.foldl C03.clpStep {}).p.cur = some c → ∃ x ∈ delivered tr, x.off = c) ∧
    (∀ c, (tr.foldl C03.clpStep {}).p.processed = some c → ∃ x ∈ delivered tr, x.off = c) ∧
    (∀ off ∈ commitOffs tr, ∃ x ∈ delivered tr, x.off = off) := by
  induction tr using List.reverseRecOn with
  | nil => intro _; simp [commitOffs]
  | append_singleton es x ih =>
    simp only [List.foldl_append, List.foldl_cons, List.foldl_nil, commitOffs, List.filterMap_append, delivered_append] at *
    generalize es.foldl C03.clpStep {} = m at *
    intro hb
    have hb0 : m.bad = false := by
      cases hm : m.bad with
      | false => rfl
      | true => rw [clp_sticky m x hm] at hb; cases hb
    obtain ⟨i1, i2, i3⟩ := ih hb0
    have mono : ∀ c, (∃ y ∈ delivered es, y.off = c) → ∃ y ∈ delivered es ++ delivered [x], y.off = c :=
      fun c ⟨y, hy, e⟩ => ⟨y, List.mem_append_left _ hy, e⟩
    cases x with
    | ob o =>
      cases o with
      | commitReq k off =>
        simp only [C03.clpStep] at hb ⊢
        split at hb
        · rename_i hp
          rw [if_pos hp]
          have hp' : m.p.processed = some off := by simpa using hp
          refine ⟨fun c h => mono c (i1 c h), fun c h => mono c (i2 c h), ?_⟩
          intro o ho
          simp only [List.filterMap_cons, List.filterMap_nil, List.mem_append, List.mem_singleton] at ho
          rcases ho with ho | rfl
          · exact mono o (i3 o ho)
          · exact mono o (i2 o hp')
        · simp at hb
      | proc blk =>
        simp only [C03.clpStep, procTrack, List.filterMap_cons, List.filterMap_nil, List.append_nil]
        refine ⟨?_, fun c h => mono c (i2 c h), fun o ho => mono o (i3 o ho)⟩
        intro c hc
        obtain ⟨y, hy, e⟩ := lastOff_mem blk c hc
        exact ⟨y, List.mem_append_right _ (by simpa [delivered] using hy), e⟩
      | procRet r =>
        cases r <;>
          simp only [C03.clpStep, procTrack, List.filterMap_cons, List.filterMap_nil, List.append_nil] <;>
          exact ⟨fun c h => mono c (i1 c h), fun c h => mono c (by first | exact i2 c h | exact i1 c h), fun o ho => mono o (i3 o ho)⟩
      | _ =>
        simp only [C03.clpStep, procTrack, List.filterMap_cons, List.filterMap_nil, List.append_nil]
        exact ⟨fun c h => mono c (i1 c h), fun c h => mono c (i2 c h), fun o ho => mono o (i3 o ho)⟩
    | ev e =>
      cases e <;>
        simp only [C03.clpStep, procTrack, List.filterMap_cons, List.filterMap_nil, List.append_nil] <;>
        exact ⟨fun c h => mono c (i1 c h), fun c h => mono c (by first | exact i2 c h | exact i1 c h), fun o ho => mono o (i3 o ho)⟩
    | rej e =>
      simp only [C03.clpStep, procTrack, List.filterMap_cons, List.filterMap_nil, List.append_nil]
      exact ⟨fun c h => mono c (i1 c h), fun c h => mono c (i2 c h), fun o ho => mono o (i3 o ho)⟩

/-! ## After the coordinator's answer the next fetch is at the answer + 1 (`C03.resStep`) -/

theorem res_sticky (m : C03.ResSt) (x : Item) (h : m.bad = true) : (C03.resStep m x).bad = true := by
  cases x with
  | ob o =>
    cases o <;> simp only [C03.resStep, h]
    split
    · split <;> simp [h]
    · exact h
  | ev e => cases e <;> simp only [C03.resStep, h]
  | rej e => simp only [C03.resStep, h]

theorem res_sticky_foldl : ∀ (l : List Item) (m : C03.ResSt), (l.foldl C03.resStep m).bad = false → m.bad = false
  | [], _, h => h
  | x :: l, m, h => by
    have := res_sticky_foldl l _ h
    cases hb : m.bad with
    | false => rfl
    | true => rw [res_sticky m x hb] at this; cases this

theorem res_first : ∀ (post : List Item) (m : C03.ResSt) (e : Int), m.expect = some e →
    post.all (fun x => !isJump x) = true → (post.foldl C03.resStep m).bad = false →
    ∀ off, post.findSome? fetchOff = some off → off = e
  | [], _, _, _, _, _, off, h => by simp at h
  | x :: post, m, e, he, hj, hb, off, h => by
    simp only [List.all_cons, Bool.and_eq_true, Bool.not_eq_eq_eq_not, Bool.not_true] at hj
    simp only [List.foldl_cons] at hb
    have hb1 := res_sticky_foldl post _ hb
    cases hx : fetchOff x with
    | some o =>
      obtain ⟨k, mb, rfl⟩ : ∃ k mb, x = .ob (.fetch k o mb) := by
        cases x with
        | ob ob' => cases ob' <;> simp_all [fetchOff]
        | _ => simp [fetchOff] at hx
      simp only [List.findSome?_cons, fetchOff, Option.some.injEq] at h
      subst h
      simp only [C03.resStep, he] at hb1
      split at hb1
      · rename_i hq; simpa using hq
      · simp at hb1
    | none =>
      simp only [List.findSome?_cons, hx] at h
      have : C03.resStep m x = m := by
        cases x with
        | ob o => cases o <;> simp_all [C03.resStep, fetchOff, isJump]
        | ev e' => cases e' <;> simp_all [C03.resStep, isJump]
        | rej e' => rfl
      rw [this] at hb
      exact res_first post m e he (by simpa using hj.2) hb off h

/-! ## Splitting traces -/

theorem resumedFrom_split (stored : Int) (tr : List Item) (h : resumedFrom stored tr = true) :
    ∃ pre k post, tr = pre ++ .ev (.offsetFetchOk k stored) :: post ∧ pre.all (fun x => !isProc x) = true ∧
      post.all (fun x => !isJump x) = true ∧
      tr.dropWhile (fun x => !isAnswer x) = .ev (.offsetFetchOk k stored) :: post := by
  unfold resumedFrom at h
  split at h
  · rename_i k c post heq
    simp only [Bool.and_eq_true, beq_iff_eq] at h
    obtain ⟨⟨rfl, h2⟩, h3⟩ := h
    refine ⟨tr.takeWhile (fun x => !isAnswer x), k, post, ?_, h2, h3, heq⟩
    rw [← heq, List.takeWhile_append_dropWhile]
  · cases h

theorem oneSegment_split (tr : List Item) (h : oneSegment tr = true) :
    ∃ pre post, tr = pre ++ post ∧ pre.all (fun x => !isProc x) = true ∧ post.all (fun x => !isJump x) = true := by
  refine ⟨tr.takeWhile (fun x => !isProc x), tr.dropWhile (fun x => !isProc x), List.takeWhile_append_dropWhile.symm, ?_, h⟩
  exact List.all_takeWhile

/-! ## Two accepted traces -/

/-- a trace the gap monitor accepts, delivering in one segment: the delivered stream is a chain -/
theorem segment_chain (log : List Msg) (tr : List Item) (hg : C02.noGapOk log tr = true) (h1 : oneSegment tr = true) :
    ∀ y rest, delivered tr = y :: rest → chainAfter log y.off rest = true := by
  obtain ⟨pre, post, rfl, hpre, hpost⟩ := oneSegment_split tr h1
  intro y rest hd
  simp only [C02.noGapOk, accepts_foldl, List.foldl_append, Bool.not_eq_eq_eq_not, Bool.not_true] at hg
  have hl := (gap_pre log pre {} rfl rfl hpre).1
  rw [delivered_append, delivered_noProc pre hpre, List.nil_append] at hd
  obtain ⟨_, _, _, hc⟩ := gap_first log post _ hl hpost hg y rest hd
  exact hc

/-- a trace the gap monitor accepts, resumed from the coordinator's answer `stored`: the delivered stream is a chain that
    starts with the log entry following `stored` -/
theorem resumed_chain (log : List Msg) (stored : Int) (h0 : 0 ≤ stored) (tr : List Item) (hg : C02.noGapOk log tr = true)
    (h2 : resumedFrom stored tr = true) : chainAfter log stored (delivered tr) = true := by
  obtain ⟨pre, k, post, rfl, hpre, hpost, _⟩ := resumedFrom_split stored tr h2
  simp only [C02.noGapOk, accepts_foldl, List.foldl_append, List.foldl_cons, Bool.not_eq_eq_eq_not, Bool.not_true] at hg
  have hl := (gap_pre log pre {} rfl rfl hpre).1
  have hd : delivered (pre ++ .ev (.offsetFetchOk k stored) :: post) = delivered post := by
    rw [delivered_append, delivered_noProc pre hpre, List.nil_append, delivered_cons_other _ _ rfl]
  rw [hd]
  generalize pre.foldl (C02.gapStep log) {} = m at hl hg
  have hm : C02.gapStep log m (.ev (.offsetFetchOk k stored)) = { m with from? := some (stored + 1) } := by
    simp [C02.gapStep, h0]
  rw [hm] at hg
  cases hdp : delivered post with
  | nil => rfl
  | cons y rest =>
    obtain ⟨f, hf, hy, hc⟩ := gap_first log post { m with from? := some (stored + 1) } hl hpost hg y rest hdp
    have hf : stored + 1 = f := by simpa using hf
    subst hf
    simp only [chainAfter, C02.succIn, hy, beq_self_eq_true, Bool.true_and]
    exact hc

/-- resumed from the coordinator's answer `stored ≥ 0`: the next FetchRequest is at `stored + 1` -/
theorem resumed_fetch (stored : Int) (h0 : 0 ≤ stored) (tr : List Item) (hr : C03.resumeOk tr = true)
    (h2 : resumedFrom stored tr = true) : ∀ off, firstFetchAfterAnswer tr = some off → off = stored + 1 := by
  obtain ⟨pre, k, post, rfl, _, hpost, hdw⟩ := resumedFrom_split stored tr h2
  intro off hoff
  simp only [firstFetchAfterAnswer, hdw, List.drop_succ_cons, List.drop_zero] at hoff
  simp only [C03.resumeOk, accepts_foldl, List.foldl_append, List.foldl_cons, Bool.not_eq_eq_eq_not, Bool.not_true] at hr
  generalize pre.foldl C03.resStep {} = m at hr
  have hm : C03.resStep m (.ev (.offsetFetchOk k stored)) = { m with expect := some (stored + 1) } := by
    simp [C03.resStep, h0]
  rw [hm] at hr
  exact res_first post _ (stored + 1) rfl hpost hr off hoff

/-- The two-run theorem at trace level: `tr1`, `tr2` are traces the monitors accept (every model trace is). -/
theorem two_traces (log : List Msg) (tr1 tr2 : List Item) (stored : Int)
    (hg1 : C02.noGapOk log tr1 = true) (hc1 : C03.commitLeProcessedOk tr1 = true)
    (hg2 : C02.noGapOk log tr2 = true) (hr2 : C03.resumeOk tr2 = true)
    (h1 : oneSegment tr1 = true) (hst : stored ∈ commitOffs tr1) (h0 : 0 ≤ stored) (h2 : resumedFrom stored tr2 = true) :
    (∀ off, firstFetchAfterAnswer tr2 = some off → off = stored + 1) ∧
    (∀ y, (delivered tr2).head? = some y → C02.firstFrom log (stored + 1) = some y) ∧
    (∃ x ∈ delivered tr1, x.off = stored) ∧
    chainOk log (committed stored (delivered tr1) ++ delivered tr2) = true := by
  have hD2 := resumed_chain log stored h0 tr2 hg2 h2
  have hmem : ∃ x ∈ delivered tr1, x.off = stored := by
    simp only [C03.commitLeProcessedOk, accepts_foldl, Bool.not_eq_eq_eq_not, Bool.not_true] at hc1
    exact (clp_inv tr1 hc1).2.2 stored hst
  refine ⟨resumed_fetch stored h0 tr2 hr2 h2, ?_, hmem, ?_⟩
  · intro y hy
    cases hd : delivered tr2 with
    | nil => rw [hd] at hy; cases hy
    | cons z rest =>
      rw [hd] at hy hD2
      simp only [List.head?_cons, Option.some.injEq] at hy
      subst hy
      simp only [chainAfter, Bool.and_eq_true, beq_iff_eq] at hD2
      exact hD2.1
  · obtain ⟨x, hx, hxs⟩ := hmem
    cases hd : delivered tr1 with
    | nil => rw [hd] at hx; cases hx
    | cons y rest =>
      have hch := segment_chain log tr1 hg1 h1 y rest hd
      rw [hd] at hx
      have hlt := chainAfter_lt log rest y.off hch
      rcases List.mem_cons.mp hx with rfl | hx'
      · have hnil := filter_above log x.off rest x.off hch (Int.le_refl _)
        have e : committed stored (x :: rest) = [x] := by
          rw [← hxs]
          simp only [committed, List.filter_cons, Int.le_refl, decide_true, if_true]
          simp only [committed] at hnil
          rw [hnil]
        rw [e]
        simp only [List.cons_append, List.nil_append]
        rw [chainOk_iff, hxs]
        exact hD2
      · have hy : y.off ≤ stored := by have := hlt x hx'; omega
        have e : committed stored (y :: rest) = y :: committed stored rest := by
          simp only [committed, List.filter_cons, hy, decide_true, if_true]
        rw [e]
        simp only [List.cons_append]
        rw [chainOk_iff]
        exact chain_join log stored _ hD2 rest y.off hch ⟨x, hx', hxs⟩

/-! ## Two runs of the model -/

theorem noGap_trace (log : List Msg) (cfg : Cfg) (script : List PEntry) (evs : List Ev) (hf : FaithfulLog log cfg script evs) :
    C02.noGapOk log (trace cfg script evs) = true := by
  have h := (A.run_h log cfg script evs hf evs.length).bad
  rw [List.take_length] at h
  exact accepts_trace _ _ cfg script evs h

/-- C03, second sentence, end to end.  Run 1 (any configuration, script, event list) delivers in one segment and leaves
    `stored ≥ 0` in the coordinator's store (the offset of a commit request it issued - in particular the last one whose
    acknowledgement it took, `storeOf`); run 2 (any configuration, script, event list) resumes from the coordinator's answer
    `stored`; both see the same partition log faithfully.  Then: (a) run 2's first FetchRequest after the answer is at
    `stored + 1` and the first message it delivers is the first log entry at or after `stored + 1`; (b) `stored` is the
    offset of a message run 1 delivered (and, `C03_commit_le_processed`, processed successfully), and what run 1 delivered
    up to `stored` followed by everything run 2 delivers is the log entry by entry: no gap, no duplicate. -/
theorem two_runs (log : List Msg) (cfg1 : Cfg) (script1 : List PEntry) (evs1 : List Ev)
    (cfg2 : Cfg) (script2 : List PEntry) (evs2 : List Ev) (stored : Int)
    (hf1 : FaithfulLog log cfg1 script1 evs1) (hf2 : FaithfulLog log cfg2 script2 evs2)
    (h1 : oneSegment (trace cfg1 script1 evs1) = true)
    (hst : stored ∈ commitOffs (trace cfg1 script1 evs1)) (h0 : 0 ≤ stored)
    (h2 : resumedFrom stored (trace cfg2 script2 evs2) = true) :
    (∀ off, firstFetchAfterAnswer (trace cfg2 script2 evs2) = some off → off = stored + 1) ∧
    (∀ y, (delivered (trace cfg2 script2 evs2)).head? = some y → C02.firstFrom log (stored + 1) = some y) ∧
    (∃ x ∈ delivered (trace cfg1 script1 evs1), x.off = stored) ∧
    chainOk log (committed stored (delivered (trace cfg1 script1 evs1)) ++ delivered (trace cfg2 script2 evs2)) = true :=
  two_traces log _ _ stored (noGap_trace log cfg1 script1 evs1 hf1)
    (accepts_trace _ _ cfg1 script1 evs1 (run_g1 cfg1 script1 evs1).clpOk)
    (noGap_trace log cfg2 script2 evs2 hf2)
    (accepts_trace _ _ cfg2 script2 evs2 (run_res cfg2 script2 evs2).resOk)
    h1 hst h0 h2

end Afkak.Proofs.Consumer.A5
