import AfkakProofs.Consumer.Pure
import AfkakProofs.Consumer.Basic
/-!
# Facts about the delay monitor's acceptance test, for the invariant proofs
-/
namespace Afkak.Proofs.Consumer
open Afkak.Consumer Afkak.Monitor Afkak.Consts Afkak.Monitor.C14

theorem closeTo_self (a : Rat) : closeTo a a = true := by
  unfold closeTo
  simp only [le_refl, if_true, sub_self, zero_mul, decide_eq_true_eq]
  split <;> linarith

/-- the `k`-th delay passes the growth test of the monitor -/
theorem dlGate (init maxD : Rat) (k : Nat) (h0 : 0 ≤ init) :
    (decide (maxD < init) || grows maxD (prevOf init maxD k) (delayAt init maxD k)) = true := by
  by_cases hlt : maxD < init
  · simp [hlt]
  · have h1 : init ≤ maxD := not_lt.mp hlt
    simp only [hlt, decide_false, Bool.false_or]
    cases k with
    | zero => simp [prevOf, grows]
    | succ j =>
      obtain ⟨hm, hle⟩ := delayAt_mono init maxD h0 h1 j
      have hle' : delayAt init maxD (j + 1) ≤ maxD := (delayAt_mono init maxD h0 h1 (j + 1)).2
      simp only [prevOf, grows, Bool.and_eq_true, Bool.or_eq_true, decide_eq_true_eq]
      refine ⟨hm, ?_⟩
      rcases lt_or_eq_of_le hle' with hlt' | heq
      · rcases lt_or_eq_of_le h0 with hpos | hz
        · left; left; left; exact delayAt_strict init maxD hpos h1 j hlt'
        · left; right
          -- init = 0: every delay is 0
          have : delayAt init maxD j = 0 := by
            rw [delayAt_closed init maxD h0 h1, ← hz]; simp [min_eq_left (hz ▸ h1)]
          rw [this]
      · left; left; right; exact heq.ge

theorem nextDelay_zero (maxD : Rat) (h : 0 ≤ maxD) : nextDelay maxD 0 = 0 := by
  simp [nextDelay_eq, min_eq_left h]

theorem delayAt_succ (init maxD : Rat) (k : Nat) : delayAt init maxD (k + 1) = nextDelay maxD (delayAt init maxD k) := rfl

/-- once a delay is 0 the next one is 0 as well -/
theorem delayAt_zero_next (init maxD : Rat) (k : Nat) (h : 0 ≤ maxD) (hz : delayAt init maxD k = 0) :
    nextDelay maxD (delayAt init maxD k) = delayAt init maxD k := by
  rw [hz, nextDelay_zero maxD h]

end Afkak.Proofs.Consumer
