import AfkakProofs.Consumer.A5_Decode2
/-!
# C02: the decoded reply is faithful — the statements in the form to be copied into `AfkakProps/C02.lean`, non-vacuity

To wire in (`AfkakProps/C02.lean`): `import AfkakProofs.Consumer.A5_Decode3`, then

```
theorem C02_decoded_reply_faithful … := D.c02_decoded_reply_faithful …
theorem C02_decoded_reply_faithful_wrapped … := D.c02_decoded_reply_faithful_wrapped …
```
with the statements below verbatim (names of this file: `D.toMsg`, `D.slice`; of the crc package: `Afkak.C12.replyOf`,
`decodeSet`, `encodeSet`, `encodeEntries`, `plainEntry`, `SetEntry`), and the two `example`s.
-/
namespace Afkak.Proofs.Consumer.D
open Afkak.Consumer Afkak.Monitor Afkak.Props.Open.C02
open Afkak.WireCost Afkak.C12 Afkak.Monitor.C12

/-- Plain message sets (see `decoded_reply_faithful`): partition log `wlog` with strictly ascending offsets, plain messages of
    either format; fetch at `off ≥ 0`; answer = grammar encoding of the log from the first entry at or after `off`, cut after
    ANY number `c` of bytes; the decoder's output as the consumer's `Reply` is `replyFaithful` w.r.t. the log, and ends
    normally or with `Tail.small` and no message. -/
theorem c02_decoded_reply_faithful (gz : Gz) (depth : Nat) (pid : Int × Afkak.WireCost.Msg → Nat)
    (other : Err → ErrKind × Nat) (wlog : List (Int × Afkak.WireCost.Msg)) (off : Int) (c : Nat)
    (hasc : (wlog.map (·.1)).Pairwise (· < ·)) (hpl : ∀ om ∈ wlog, plainEntry om = true) (h0 : 0 ≤ off) :
    replyFaithful (wlog.map (toMsg pid)) off
        (replyOf pid other (decodeSet gz depth ((encodeSet (slice wlog off)).take c))) = true ∧
      ((replyOf pid other (decodeSet gz depth ((encodeSet (slice wlog off)).take c))).tail = .done ∨
       ((replyOf pid other (decodeSet gz depth ((encodeSet (slice wlog off)).take c))).tail = .small ∧
        (replyOf pid other (decodeSet gz depth ((encodeSet (slice wlog off)).take c))).msgs = [])) :=
  decoded_reply_faithful gz depth pid other wlog off c hasc hpl h0

/-- Sets with gzip wrappers of either format (see `decoded_reply_faithful_wrapped`): stored entries `before ++ after`, those of
    the answer well formed for the decompressor; what the entries yield has strictly ascending offsets; everything `before`
    yields is below `off ≥ 0`; answer = encoding of `after` (which may begin, inside a wrapper, below `off`) cut after ANY
    number `c` of bytes (also inside a wrapper). -/
theorem c02_decoded_reply_faithful_wrapped (gz : Gz) (depth : Nat) (pid : Int × Afkak.WireCost.Msg → Nat)
    (other : Err → ErrKind × Nat) (before after : List SetEntry) (off : Int) (c : Nat)
    (hwf : ∀ e ∈ after, e.WellFormed gz)
    (hasc : (((before ++ after).flatMap SetEntry.yields).map (·.1)).Pairwise (· < ·))
    (hbelow : ∀ om ∈ before.flatMap SetEntry.yields, om.1 < off) (h0 : 0 ≤ off) :
    replyFaithful (((before ++ after).flatMap SetEntry.yields).map (toMsg pid)) off
        (replyOf pid other (decodeSet gz (depth + 1) ((encodeEntries after).take c))) = true ∧
      ((replyOf pid other (decodeSet gz (depth + 1) ((encodeEntries after).take c))).tail = .done ∨
       ((replyOf pid other (decodeSet gz (depth + 1) ((encodeEntries after).take c))).tail = .small ∧
        (replyOf pid other (decodeSet gz (depth + 1) ((encodeEntries after).take c))).msgs = [])) :=
  decoded_reply_faithful_wrapped gz depth pid other before after off c hwf hasc hbelow h0

/-- Non-vacuity (wrappers): stored entries: a plain message at 3; a format-1 gzip wrapper at 105 holding inner offsets 0, 2
    (yielded as 103, 105); a plain message at 107.  A fetch at 105 is answered from the wrapper (which also carries 103,
    below the requested offset); 60 of the 64 bytes: the last message is cut.  Every hypothesis holds; the decoded reply
    is [103, 105], normal end; with 30 bytes the wrapper itself is cut: `Tail.small`, nothing. -/
example :
    let ims : List (Int × Afkak.WireCost.Msg) :=
      [(0, { magic := 1, attrs := 0, key := none, value := some [97], ts := some 1 }),
       (2, { magic := 1, attrs := 0, key := none, value := some [98], ts := some 2 })]
    let wm : Afkak.WireCost.Msg := { magic := 1, attrs := 1, key := none, value := some [31, 139, 8], ts := some 0 }
    let gz : Gz := fun v => if v = some [31, 139, 8] then .ok (encodeSet ims) else .error "BadGzipFile"
    let before : List SetEntry := [.plain (3, ⟨0, 0, none, some [1], none⟩)]
    let after : List SetEntry := [.wrapper 105 wm ims, .plain (107, ⟨0, 0, none, some [3], none⟩)]
    let pid : Int × Afkak.WireCost.Msg → Nat := fun om => match om.2.value with | some (b :: _) => b.toNat | _ => 0
    (∀ e ∈ after, e.WellFormed gz) ∧
      (((before ++ after).flatMap SetEntry.yields).map (·.1)) = [3, 103, 105, 107] ∧
      (∀ om ∈ before.flatMap SetEntry.yields, om.1 < 105) ∧
      (encodeEntries after).length = 64 ∧
      replyOf pid (fun _ => (.other, 0)) (decodeSet gz 2 ((encodeEntries after).take 60))
        = { msgs := [⟨103, 97⟩, ⟨105, 98⟩], tail := .done } ∧
      replyOf pid (fun _ => (.other, 0)) (decodeSet gz 2 ((encodeEntries after).take 30))
        = { msgs := [], tail := .small } := by
  intro ims wm gz before after pid
  refine ⟨?_, by decide +kernel, by decide +kernel, by decide +kernel, by decide +kernel, by decide +kernel⟩
  intro e he
  simp only [after, List.mem_cons, List.not_mem_nil, or_false] at he
  rcases he with rfl | rfl
  · refine ⟨by decide, by decide +kernel, by decide, by simp [gz, wm], ?_⟩
    intro om hom
    simp only [ims, List.mem_cons, List.not_mem_nil, or_false] at hom
    rcases hom with rfl | rfl <;> decide +kernel
  · show plainEntry _ = true
    decide +kernel

end Afkak.Proofs.Consumer.D
