import AfkakProofs.Consumer.A5_Progress5
/-!
# C02, liveness half (6): the invariant `Live` - a running consumer is owed a reply, a timer or a processor result -
and the handlers of fetch replies and processor results
-/
namespace Afkak.Proofs.Consumer.L
open Afkak.Consumer

/-- A running consumer (A) waits for a reply, no timer set; or (B) waits for the refetch timer, no request outstanding; or
    (C) has parked a reply (one whose iteration does not raise) behind the processor's pending result.  And a block in
    progress means a processor result is pending. -/
def Live (s : St) : Prop :=
  Running s = true →
    (s.msgBlock = true → s.proc.isSome = true) ∧
    ((reqPending s.requestD = true ∧ s.retryCall = .none ∧ s.parked = none) ∨
     (s.requestD = .none ∧ timerPending s.retryCall = true ∧ s.parked = none) ∨
     (∃ k r, s.requestD = .parked k ∧ s.parked = some r ∧ noRaiseR r = true ∧ s.retryCall = .none ∧ s.proc.isSome = true))

theorem Live.of_nr {s : St} (h : Running s = false) : Live s := by
  intro hr; rw [h] at hr; cases hr

theorem Live.of_fr {s s' : St} (h : Fr s s') (hl : Live s) : Live s' := by
  intro hr
  obtain ⟨a, b, c, d, e, f⟩ := h hr
  have := hl a
  rw [b, c, d, e, f]
  exact this

theorem Live.enabled {s : St} (hl : Live s) (hr : Running s = true) : Enabled s = true := by
  obtain ⟨_, h | h | ⟨k, r, _, _, _, _, h⟩⟩ := hl hr
  · simp [Enabled, h.1]
  · simp [Enabled, h.2.1]
  · simp [Enabled, h]

/-- nothing in the way of a freshly arrived reply -/
def Fresh0 (s : St) : Prop :=
  s.requestD = .none ∧ s.retryCall = .none ∧ s.proc = none ∧ s.msgBlock = false ∧ s.parked = none

/-- after a reply has been handled: the refetch is scheduled -/
def AfterReply (s : St) : Prop :=
  s.requestD = .none ∧ timerPending s.retryCall = true ∧ s.parked = none ∧
    ((s.proc.isSome = true ∧ s.msgBlock = true) ∨ (s.proc = none ∧ s.msgBlock = false))

theorem AfterReply.live {s : St} (h : AfterReply s) : Live s := by
  intro _
  obtain ⟨a, b, c, d⟩ := h
  refine ⟨fun hm => ?_, Or.inr (Or.inl ⟨a, b, c⟩)⟩
  rcases d with d | d
  · exact d.1
  · rw [d.2] at hm; cases hm

section
variable {cfg : Cfg} {inner : Ops} (hin : OpsFr inner)
include hin

theorem deliver_retry (msgs : List Msg) (x : St) (hx : Running x = true → Fresh0 x) :
    Running (retryFetch cfg (some 0) (deliverBlock cfg inner msgs x)) = true →
      Running x = true ∧ AfterReply (retryFetch cfg (some 0) (deliverBlock cfg inner msgs x)) := by
  obtain ⟨r1, r2, r3, r4, r5, r6⟩ := retryFetch_spec cfg (some 0) (deliverBlock cfg inner msgs x)
  have hdb := deliverBlock_db (cfg := cfg) hin msgs x
  generalize deliverBlock cfg inner msgs x = d at *
  generalize retryFetch cfg (some 0) d = y at *
  intro hr
  rw [r1] at hr
  obtain ⟨a, b, c, e⟩ := hdb hr
  obtain ⟨f1, f2, f3, f4, f5⟩ := hx a
  refine ⟨a, r2.trans (b.trans f1), r6 hr (c.trans f2), ?_, ?_⟩
  · rw [r5]
    rcases e with e | e | e
    · exact e.2.2.trans f5
    · exact e.2.2.trans f5
    · exact e.2.2
  · rw [r3, r4]
    rcases e with e | e | e
    · exact Or.inl ⟨e.1, e.2.1⟩
    · exact Or.inr ⟨e.1.trans f3, e.2.1.trans f4⟩
    · exact Or.inr ⟨e.1.trans f3, e.2.1⟩

theorem fetchTail_spec (viaBlock : Bool) (r : Reply) (s : St) (hn : Running s = true → viaBlock = true → noRaiseR r = true)
    (he : Running s = true → Fresh0 s) :
    Running (fetchTail cfg inner viaBlock r s) = true → Running s = true ∧ AfterReply (fetchTail cfg inner viaBlock r s) := by
  unfold fetchTail
  dsimp only
  split
  · exact deliver_retry hin _ { s with fetchOffset := (extract s.fetchOffset r.msgs).2 } he
  · split
    · exact deliver_retry hin _ { s with fetchOffset := (extract s.fetchOffset r.msgs).2, bufferSize := _ } he
    · intro hr
      exfalso
      have hn1 := startErrback_nr' .tooSmall { s with fetchOffset := (extract s.fetchOffset r.msgs).2 }
      have hdb := deliverBlock_db (cfg := cfg) hin (extract s.fetchOffset r.msgs).1
        (startErrback .tooSmall { s with fetchOffset := (extract s.fetchOffset r.msgs).2 })
      have hd : Running (deliverBlock cfg inner (extract s.fetchOffset r.msgs).1
          (startErrback .tooSmall { s with fetchOffset := (extract s.fetchOffset r.msgs).2 })) = false := by
        cases h : Running (deliverBlock cfg inner (extract s.fetchOffset r.msgs).1
          (startErrback .tooSmall { s with fetchOffset := (extract s.fetchOffset r.msgs).2 }))
        · rfl
        · have := (hdb h).1; rw [hn1] at this; cases this
      split at hr
      · have := (handleFetchError_spec cfg _ _ hr).1
        rw [hd] at this; cases this
      · rw [hd] at hr; cases hr
  · rename_i k t ht
    have hdb := deliverBlock_db (cfg := cfg) hin (extract s.fetchOffset r.msgs).1
      { s with fetchOffset := (extract s.fetchOffset r.msgs).2 }
    generalize deliverBlock cfg inner (extract s.fetchOffset r.msgs).1
      { s with fetchOffset := (extract s.fetchOffset r.msgs).2 } = d at hdb
    intro hr
    split at hr
    · -- a parked reply: excluded
      rename_i hv
      exfalso
      have h2 : Running s = true := (hdb hr).1
      have := hn h2 hv
      simp [noRaiseR, ht] at this
    · -- the exception reaches `_handle_fetch_error`: the retry is scheduled
      rename_i hv
      simp only [hv, Bool.false_eq_true, if_false]
      obtain ⟨a, b, c, dd, e, f⟩ := handleFetchError_spec cfg (.ext k t) d hr
      obtain ⟨a', b', c', e'⟩ := hdb a
      have a'' : Running s = true := a'
      obtain ⟨f1, f2, f3, f4, f5⟩ := he a''
      have f2' : ({ s with fetchOffset := (extract s.fetchOffset r.msgs).2 } : St).retryCall = .none := f2
      refine ⟨a'', b, f (c'.trans f2'), ?_, ?_⟩
      · rw [e]
        rcases e' with e' | e' | e'
        · exact e'.2.2.trans f5
        · exact e'.2.2.trans f5
        · exact e'.2.2
      · rw [c, dd]
        rcases e' with e' | e' | e'
        · exact Or.inl ⟨e'.1, e'.2.1⟩
        · exact Or.inr ⟨e'.1.trans f3, e'.2.1.trans f4⟩
        · exact Or.inr ⟨e'.1.trans f3, e'.2.1⟩

/-- `_handle_fetch_response` from `self._request_d = None` on -/
theorem fetchBody_live (viaBlock : Bool) (r : Reply) (s : St) (hn : Running s = true → viaBlock = true → noRaiseR r = true)
    (he : Running s = true → s.retryCall = .none ∧ s.proc = none ∧ s.msgBlock = false ∧ s.parked = none) :
    Live (fetchBody cfg inner viaBlock r s) := by
  unfold fetchBody
  have hn' : Running ({ s with requestD := .none } : St) = true → viaBlock = true → noRaiseR r = true := hn
  have he' : Running ({ s with requestD := .none } : St) = true → Fresh0 ({ s with requestD := .none } : St) := by
    intro h
    obtain ⟨a, b, c, d⟩ := he h
    exact ⟨rfl, a, b, c, d⟩
  intro hr
  exact (fetchTail_spec hin viaBlock r { s with requestD := .none } hn' he' hr).2.live hr

/-- `_handle_fetch_response` for a reply whose iteration does not raise -/
theorem handleFetchResponse_live (k : Nat) (r : Reply) (s : St) (hn : s.msgBlock = true → noRaiseR r = true) (hl : Live s)
    (hreq : reqPending s.requestD = true) (hpb : s.proc.isSome = true → s.msgBlock = true) :
    Live (handleFetchResponse cfg inner k r s) := by
  unfold handleFetchResponse
  split
  · rename_i h
    apply Live.of_nr
    simp only [beq_iff_eq] at h
    simp [Running, h]
  dsimp only
  have hA : Running s = true → s.retryCall = .none ∧ s.parked = none := by
    intro hr
    obtain ⟨_, h | h | ⟨k', r', h, _⟩⟩ := hl hr
    · exact ⟨h.2.1, h.2.2⟩
    · rw [h.1] at hreq; cases hreq
    · rw [h] at hreq; cases hreq
  split
  · rename_i hmb
    intro hr
    have hr' : Running s = true := hr
    obtain ⟨h1, h2⟩ := hA hr'
    have hp := (hl hr').1 hmb
    exact ⟨fun _ => hp, Or.inr (Or.inr ⟨k, r, rfl, rfl, hn hmb, h1, hp⟩)⟩
  · rename_i hmb
    apply fetchBody_live hin false r
    · intro _ hv; cases hv
    · intro hr
      have hr' : Running s = true := hr
      obtain ⟨h1, h2⟩ := hA hr'
      refine ⟨h1, ?_, by simpa using hmb, h2⟩
      cases hp : s.proc with
      | none => rfl
      | some g => exact absurd (hpb (by rw [hp]; rfl)) hmb

/-- the end of `_process_messages` when it was resumed by the processor's result -/
theorem finishFull_live (x : St)
    (hx : Running x = true → x.proc = none ∧ x.msgBlock = true ∧
      ((reqPending x.requestD = true ∧ x.retryCall = .none ∧ x.parked = none) ∨
       (x.requestD = .none ∧ timerPending x.retryCall = true ∧ x.parked = none) ∨
       (∃ k r, x.requestD = .parked k ∧ x.parked = some r ∧ noRaiseR r = true ∧ x.retryCall = .none))) :
    Live (finishFull cfg inner x) := by
  unfold finishFull
  split
  · dsimp only
    split
    · rename_i r hpk
      split
      · rename_i h
        apply Live.of_nr
        simp only [beq_iff_eq] at h
        simp [Running, h]
      · have hC : Running x = true → noRaiseR r = true ∧ x.retryCall = .none ∧ x.proc = none := by
          intro hr
          obtain ⟨h1, _, h | h | ⟨k', r', _, h2, h3, h4⟩⟩ := hx hr
          · rw [h.2.2] at hpk; cases hpk
          · rw [h.2.2] at hpk; cases hpk
          · rw [h2] at hpk; cases hpk; exact ⟨h3, h4, h1⟩
        apply fetchBody_live hin true r
        · intro hr _
          have hr' : Running x = true := hr
          exact (hC hr').1
        · intro hr
          have hr' : Running x = true := hr
          exact ⟨(hC hr').2.1, (hC hr').2.2, rfl, rfl⟩
    · rename_i hpk
      intro hr
      have hr' : Running x = true := hr
      obtain ⟨h1, _, h | h | ⟨k', r', _, h2, _⟩⟩ := hx hr'
      · exact ⟨fun hm => Bool.noConfusion (show false = true from hm), Or.inl h⟩
      · exact ⟨fun hm => Bool.noConfusion (show false = true from hm), Or.inr (Or.inl h)⟩
      · rw [h2] at hpk; cases hpk
  · rename_i hmb
    intro hr
    exact absurd (hx hr).2.1 hmb

/-- the processor's Deferred fires -/
theorem procResult_live (g : Gen) (r : Option Fail) (s : St) (hl : Live s) (hmb : s.msgBlock = true) :
    Live (procResult cfg inner g r s) := by
  unfold procResult
  dsimp only
  suffices h : Live (procResume cfg inner g (match r with | none => false | some f => procErrPassed f s) (procFired cfg g r s)) by
    split
    · exact Live.of_fr (commitAndStop_fr hin _) h
    · exact h
  cases r with
  | some f =>
    dsimp only
    have hn : Running (procFired cfg g (some f) s) = false := by
      unfold procFired; exact handleProcessorError_nr _ _
    generalize procFired cfg g (some f) s = s1 at hn
    unfold procResume
    split
    · exact Live.of_nr hn
    · have hpl := procLoop_pl (cfg := cfg) hin (g.rest.length + 1) g.rest s1
      generalize procLoop cfg inner (g.rest.length + 1) g.rest s1 = res at hpl
      have hn2 : Running res.1 = false := by
        cases h : Running res.1
        · rfl
        · have := (hpl h).1; rw [hn] at this; cases this
      dsimp only
      split
      · exact Live.of_nr hn2
      · exact finishFull_live hin res.1 (fun h => by rw [hn2] at h; cases h)
  | none =>
    dsimp only
    unfold procResume procFired
    simp only [Bool.false_eq_true, if_false]
    have hfr := autoCommit_fr cfg true { s with proc := none, lastProcessed := some g.last }
    generalize autoCommit cfg true { s with proc := none, lastProcessed := some g.last } = s1 at hfr
    have hpl := procLoop_pl (cfg := cfg) hin (g.rest.length + 1) g.rest s1
    generalize procLoop cfg inner (g.rest.length + 1) g.rest s1 = res at hpl
    obtain ⟨s2, done⟩ := res
    dsimp only
    -- what a running result knows
    have key : Running s2 = true → Running s = true ∧ s2.requestD = s.requestD ∧ s2.retryCall = s.retryCall ∧
        s2.msgBlock = true ∧ s2.parked = s.parked ∧ (s2.proc.isSome = true ∨ (s2.proc = none ∧ done = true)) := by
      intro hr
      obtain ⟨a, b, c, d, e, f⟩ := hpl hr
      obtain ⟨a', b', c', d', e', f'⟩ := hfr a
      have a'' : Running s = true := a'
      refine ⟨a'', b.trans b', c.trans c', (d.trans e').trans hmb, e.trans f', ?_⟩
      rcases f with f | ⟨f, g'⟩
      · exact Or.inl f
      · exact Or.inr ⟨f.trans d', g'⟩
    split
    · rename_i hc
      intro hr
      obtain ⟨a, b, c, d, e, f⟩ := key hr
      have hsome : s2.proc.isSome = true := by
        rcases f with f | ⟨f, g'⟩
        · exact f
        · subst g'
          simpa using hc
      obtain ⟨_, h⟩ := hl a
      refine ⟨fun _ => hsome, ?_⟩
      rw [b, c, e]
      rcases h with h | h | ⟨k', r', h1, h2, h3, h4, _⟩
      · exact Or.inl h
      · exact Or.inr (Or.inl h)
      · exact Or.inr (Or.inr ⟨k', r', h1, h2, h3, h4, hsome⟩)
    · rename_i hc
      simp only [Bool.or_eq_true, Bool.not_eq_true', not_or, Bool.not_eq_true, Bool.not_eq_false] at hc
      apply finishFull_live hin
      intro hr
      obtain ⟨a, b, c, d, e, f⟩ := key hr
      have hnone : s2.proc = none := by
        rcases f with f | ⟨f, _⟩
        · rw [hc.1] at f; cases f
        · exact f
      obtain ⟨_, h⟩ := hl a
      refine ⟨hnone, d, ?_⟩
      rw [b, c, e]
      rcases h with h | h | ⟨k', r', h1, h2, h3, h4, _⟩
      · exact Or.inl h
      · exact Or.inr (Or.inl h)
      · exact Or.inr (Or.inr ⟨k', r', h1, h2, h3, h4⟩)

end

end Afkak.Proofs.Consumer.L
