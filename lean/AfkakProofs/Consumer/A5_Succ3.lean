import AfkakProofs.Consumer.A5_Succ2
/-!
# C03: a block is handed over only after the previous one succeeded (or a restart): every event, every reachable state
-/
namespace Afkak.Proofs.Consumer.A5
open Afkak.Consumer Afkak.Monitor Afkak.Consts Afkak.Proofs.Consumer

/-- between two events: the invariant, and `stop()` is not executing -/
def HbTop (s : St) : Prop := Hb s ∧ s.stopping = false

/-- pushing the item of an event other than `start` / `procOk` changes nothing for the monitor -/
theorem pre_b (e : Ev) (h1 : e ≠ .procOk) (h2 : ∀ o, e ≠ .start o) {s s' : St} (hs : Hb s)
    (ho : s'.out = .ev e :: s.out) (hf : s'.frame = s.frame) (hp : s'.proc = s.proc) (hd : s'.startD = s.startD)
    (hst : s'.stopping = s.stopping) (hm : s'.msgBlock = s.msgBlock) : Hb s' := by
  obtain ⟨b1, b2⟩ := hs
  have hbm : bm s' = bm s := by
    simp only [bm, ho, runR_cons]
    cases e <;> simp only [blkStep] <;> first | rfl | exact absurd rfl h1 | exact absurd rfl (h2 _)
  constructor
  · rw [hbm]; exact b1
  · rw [hbm]; intro h; have := b2 h; simp only [Blk, hf, hp, hd, hst, hm] at *; exact this

section
variable {cfg : Cfg}

theorem ev_start_b (off : Int) {s : St} (hs : Hb s) (hst : s.stopping = false) :
    HbTop (start cfg off { s with out := .ev (.start off) :: s.out }) := by
  unfold start
  split
  · unfold emit
    refine ⟨?_, hst⟩
    obtain ⟨b1, b2⟩ := hs
    constructor <;> (simp only [bm, Blk, runR_cons, blkStep] at * <;> grind)
  · rename_i hr
    simp only []
    have h1 : Hb { ({ s with out := .ev (.start off) :: s.out } : St) with startD := .pending, fetchOffset := off } := by
      obtain ⟨b1, b2⟩ := hs
      constructor <;> (simp only [bm, Blk, runR_cons, blkStep] at * <;> grind)
    have h2 := doFetch_b cfg _ h1
    have st2 := h2.2.2.2.1 hst
    split
    · have := h2.1
      exact ⟨by unfold emit; hb_fields this, st2⟩
    · exact ⟨h2.1, st2⟩

theorem ev_fetchOk_b (hin : OpsB (opsN cfg cfg.depth)) (k : Nat) (r : Reply) {s : St} (hs : Hb s) (hst : s.stopping = false)
    (ht : A.TopF s) :
    HbTop (handleFetchResponse cfg (opsN cfg cfg.depth) k r { s with out := .ev (.fetchOk k r) :: s.out }) := by
  have h0 : Hb { s with out := .ev (.fetchOk k r) :: s.out } :=
    pre_b (.fetchOk k r) (by simp) (by simp) hs rfl rfl rfl rfl rfl rfl
  have o0 : (bm { s with out := .ev (.fetchOk k r) :: s.out }).opn = (bm s).opn := by
    simp [bm, runR_cons, blkStep]
  unfold handleFetchResponse
  split
  · exact ⟨by hb_fields h0, hst⟩
  · rename_i hsd
    simp only []
    split
    · exact ⟨by hb_fields h0, hst⟩
    · rename_i hmb
      have hmb' : s.msgBlock = false := by simpa using hmb
      have hsd' : s.startD ≠ .none := by simpa using hsd
      have hp : s.proc = none := by
        cases hpp : s.proc with
        | none => rfl
        | some g =>
          have := ht.procBlock (by rw [hpp]; rfl)
          rw [hmb'] at this; cases this
      have hopn : (bm s).opn = false := by
        cases ho : (bm s).opn with
        | false => rfl
        | true =>
          have := hs.b2 ho
          simp only [Blk, ht.frame, hp, hst, hmb'] at this
          simp at this
          exact absurd this hsd'
      unfold fetchBody
      have h4 : Hb { ({ s with out := .ev (.fetchOk k r) :: s.out } : St) with
          retryDelay := cfg.retryInit, attempts := 1, requestD := .none } := by hb_fields h0
      have hP : P { ({ s with out := .ev (.fetchOk k r) :: s.out } : St) with
          retryDelay := cfg.retryInit, attempts := 1, requestD := .none } := Or.inl (by rw [← hopn, ← o0]; rfl)
      have := fetchTail_b (cfg := cfg) hin false r h4 hP
      exact ⟨this.1, this.2 hst⟩

end

theorem stepCore_b {cfg : Cfg} (e : Ev) {s s' : St} (hs : Hb s) (hst : s.stopping = false) (ht : A.TopF s)
    (h : stepCore cfg { s with out := .ev e :: s.out } e = some s') : HbTop s' := by
  have hin := opsN_b cfg cfg.depth
  have pre : e ≠ .procOk → (∀ o, e ≠ .start o) → Hb { s with out := .ev e :: s.out } :=
    fun h1 h2 => pre_b e h1 h2 hs rfl rfl rfl rfl rfl rfl
  have fin : ∀ {x y : St}, BRel x y → x.stopping = false → HbTop y := fun r h0 => ⟨r.1, r.2.2.2.1 h0⟩
  cases e with
  | start off => simp only [stepCore, Option.some.injEq] at h; subst h; exact ev_start_b off hs hst
  | stop =>
    simp only [stepCore, Option.some.injEq] at h; subst h
    exact fin ((stop_b hin) _ (pre (by simp) (by simp))) hst
  | shutdown =>
    simp only [stepCore, Option.some.injEq] at h; subst h
    exact fin ((shutdown_b hin) _ (pre (by simp) (by simp))) hst
  | commit =>
    simp only [stepCore, Option.some.injEq] at h; subst h
    exact fin ((commitUser_b cfg) _ (pre (by simp) (by simp))) hst
  | fetchOk k r =>
    simp only [stepCore] at h
    split at h
    · simp only [Option.some.injEq] at h; subst h
      exact ev_fetchOk_b hin k r hs hst ht
    · cases h
  | fetchErr k ek tag =>
    simp only [stepCore] at h
    split at h
    · simp only [Option.some.injEq] at h; subst h
      exact fin ((handleFetchError_b cfg _) _ (pre (by simp) (by simp))) hst
    · cases h
  | offsetOk k off =>
    simp only [stepCore] at h
    split at h
    · simp only [Option.some.injEq] at h; subst h
      exact fin ((handleOffsetResponse_b cfg _ _) _ (pre (by simp) (by simp))) hst
    · cases h
  | offsetErr k ek tag =>
    simp only [stepCore] at h
    split at h
    · simp only [Option.some.injEq] at h; subst h
      exact fin ((handleOffsetError_b cfg _) _ (pre (by simp) (by simp))) hst
    · cases h
  | offsetFetchOk k off =>
    simp only [stepCore] at h
    split at h
    · simp only [Option.some.injEq] at h; subst h
      exact fin ((handleOffsetResponse_b cfg _ _) _ (pre (by simp) (by simp))) hst
    · cases h
  | offsetFetchErr k ek tag =>
    simp only [stepCore] at h
    split at h
    · simp only [Option.some.injEq] at h; subst h
      exact fin ((handleOffsetError_b cfg _) _ (pre (by simp) (by simp))) hst
    · cases h
  | commitOk k =>
    simp only [stepCore] at h
    split at h
    · rename_i rq hrq
      split at h
      · simp only [Option.some.injEq] at h; subst h
        have hq : Hb ({ s with out := .ev (.commitOk k) :: s.out, commitReq := none, lastCommitted := some rq.off } : St) :=
          pre_b (.commitOk k) (by simp) (by simp) hs rfl rfl rfl rfl rfl rfl
        exact fin ((deliver_b hin _) _ hq) hst
      · cases h
    · cases h
  | commitErr k ek tag =>
    simp only [stepCore] at h
    split at h
    · rename_i rq hrq
      split at h
      · simp only [Option.some.injEq] at h; subst h
        have hq : Hb ({ s with out := .ev (.commitErr k ek tag) :: s.out, commitReq := none } : St) :=
          pre_b (.commitErr k ek tag) (by simp) (by simp) hs rfl rfl rfl rfl rfl rfl
        exact fin ((handleCommitError_b hin _ _ _) _ hq) hst
      · cases h
    · cases h
  | procOk =>
    simp only [stepCore] at h
    split at h
    · rename_i g hp
      simp only [Option.some.injEq] at h; subst h
      have hmb := ht.procBlock (by rw [hp]; rfl)
      have := procResult_b (cfg := cfg) hin g none hs hmb hst .procOk (Or.inl ⟨rfl, rfl⟩)
      exact ⟨this.1, this.2 hst⟩
    · cases h
  | procErr ek tag =>
    simp only [stepCore] at h
    split at h
    · rename_i g hp
      simp only [Option.some.injEq] at h; subst h
      have hmb := ht.procBlock (by rw [hp]; rfl)
      have := procResult_b (cfg := cfg) hin g _ hs hmb hst (.procErr ek tag) (Or.inr ⟨ek, tag, rfl, rfl⟩)
      exact ⟨this.1, this.2 hst⟩
    · cases h
  | retryFire =>
    simp only [stepCore] at h
    split at h
    · split at h
      · simp only [Option.some.injEq] at h; subst h
        have hq : Hb ({ s with out := .ev .retryFire :: s.out, retryCall := .dead } : St) :=
          pre_b .retryFire (by simp) (by simp) hs rfl rfl rfl rfl rfl rfl
        exact fin ((doFetch_b cfg) _ hq) hst
      · cases h
    · cases h
  | commitRetryFire =>
    simp only [stepCore] at h
    split at h
    · split at h
      · simp only [Option.some.injEq] at h; subst h
        have hq : Hb ({ s with out := .ev .commitRetryFire :: s.out, commitCall := .dead } : St) :=
          pre_b .commitRetryFire (by simp) (by simp) hs rfl rfl rfl rfl rfl rfl
        exact fin ((sendCommitRequest_b cfg _ _) _ hq) hst
      · cases h
    · cases h
  | autoCommitTick =>
    simp only [stepCore] at h
    cases hl : s.looper with
    | none => simp [hl] at h
    | some l =>
      cases hd : l.due with
      | none => simp [hl, hd] at h
      | some due =>
        simp only [hl, hd] at h
        split at h
        · have hq : Hb ({ s with out := .ev .autoCommitTick :: s.out, looper := some { l with due := none } } : St) :=
            pre_b .autoCommitTick (by simp) (by simp) hs rfl rfl rfl rfl rfl rfl
          have hq1 := (autoCommit_b cfg false) _ hq
          have st1 := hq1.2.2.2.1 hst
          generalize autoCommit cfg false { s with out := .ev .autoCommitTick :: s.out, looper := some { l with due := none } } = x at h hq1 st1
          split at h
          · simp only [Option.some.injEq] at h; subst h
            have := hq1.1
            exact ⟨by unfold emit; hb_fields this, st1⟩
          · simp only [Option.some.injEq] at h; subst h
            exact ⟨hq1.1, st1⟩
        · cases h
  | advance dt =>
    simp only [stepCore] at h
    split at h
    · cases h
    · simp only [Option.some.injEq] at h; subst h
      exact ⟨pre_b (.advance dt) (by simp) (by simp) hs rfl rfl rfl rfl rfl rfl, hst⟩
  | env rq cm =>
    simp only [stepCore, Option.some.injEq] at h; subst h
    exact ⟨pre_b (.env rq cm) (by simp) (by simp) hs rfl rfl rfl rfl rfl rfl, hst⟩

theorem rej_b (e : Ev) {s : St} (hs : HbTop s) : HbTop { s with out := .rej e :: s.out } := by
  obtain ⟨⟨b1, b2⟩, hst⟩ := hs
  refine ⟨?_, hst⟩
  constructor <;> (simp only [bm, Blk, runR_cons, blkStep] at * <;> grind)

theorem probe_b {s : St} (hs : HbTop s) : HbTop (probe s) := by
  unfold probe emit
  obtain ⟨⟨b1, b2⟩, hst⟩ := hs
  refine ⟨?_, hst⟩
  constructor <;> (simp only [bm, Blk, runR_cons, blkStep] at * <;> grind)

theorem step_b {cfg : Cfg} (e : Ev) {s : St} (hs : HbTop s) (ht : A.TopF s) : HbTop (step cfg s e) := by
  unfold step
  split
  · exact rej_b e hs
  · split
    · exact rej_b e hs
    · rename_i s' h
      have hq := stepCore_b e hs.1 hs.2 ht h
      split
      · exact hq
      · exact probe_b hq

theorem init_b (cfg : Cfg) (script : List PEntry) : HbTop (init cfg script) := by
  refine ⟨?_, rfl⟩
  constructor <;> simp [init, bm]

/-- every reachable state satisfies `Hb`: in particular the monitor `blkStep` has not failed -/
theorem run_b (cfg : Cfg) (script : List PEntry) (evs : List Ev) : HbTop (run cfg script evs) := by
  induction evs using List.reverseRecOn with
  | nil => exact init_b cfg script
  | append_singleton es e ih =>
    have : run cfg script (es ++ [e]) = step cfg (run cfg script es) e := by
      unfold run; rw [List.foldl_append]; rfl
    rw [this]
    exact step_b e ih (A.topF_run cfg script es)

/-- on every trace: a block is handed to the processor only after the previous block's processing succeeded, or after a
    `start()` -/
theorem blocksSucceed_trace (cfg : Cfg) (script : List PEntry) (evs : List Ev) :
    blocksSucceedOk (trace cfg script evs) = true :=
  accepts_trace _ _ cfg script evs (run_b cfg script evs).1.b1

end Afkak.Proofs.Consumer.A5
