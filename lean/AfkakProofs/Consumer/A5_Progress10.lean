import AfkakProofs.Consumer.A5_Progress9
/-!
# C02, liveness half (10): every event keeps "a stopped consumer is clean" (`K`); `c02_never_stuck_partial`
-/
namespace Afkak.Proofs.Consumer.L
open Afkak.Consumer Afkak.Proofs.Consumer

theorem startErrback_startD (f : Fail) (x : St) (h : x.startD ≠ .none) : (startErrback f x).startD ≠ .none := by
  unfold startErrback
  split
  · simp
  · exact h

theorem retryFetch_startD (cfg : Cfg) (a : Option Rat) (x : St) : (retryFetch cfg a x).startD = x.startD := by
  unfold retryFetch
  split
  · rfl
  split
  · dsimp only; split <;> rfl
  · rfl

theorem issue_startD (cfg : Cfg) (x : St) (h : x.startD ≠ .none) : (issue cfg x).startD ≠ .none := by
  unfold issue
  split
  · exact h
  split
  · dsimp only
    split
    · split
      · exact h
      · exact startErrback_startD _ _ h
    · split
      · exact h
      · exact startErrback_startD _ _ h
  · exact h

theorem doFetch_startD (cfg : Cfg) (x : St) (h : x.startD ≠ .none) : (doFetch cfg x).startD ≠ .none := by
  by_cases hreq : x.requestD = .none
  · rw [doFetch_none cfg x hreq]
    apply issue_startD
    unfold cleared; split <;> exact h
  · have : doFetch cfg x = x := by
      unfold doFetch
      split
      · rename_i h0; exact absurd h0 hreq
      · rfl
    rw [this]; exact h

theorem fetchErrorTail_k (cfg : Cfg) (f : Fail) (x : St) (hk : K x) : K (fetchErrorTail cfg f x) := by
  unfold fetchErrorTail
  split
  · exact hk
  · rename_i hs
    have hs' : x.startD ≠ .none := by simpa using hs
    apply K.of_running
    split
    · exact startErrback_startD _ _ hs'
    dsimp only
    have key : ∀ y : St, y.startD ≠ .none →
        (if y.stopping = true then y else if (cfg.maxAttempts != 0 && decide (y.attempts ≥ cfg.maxAttempts)) = true
          then startErrback f y else retryFetch cfg none y).startD ≠ .none := by
      intro y hy
      split
      · exact hy
      split
      · exact startErrback_startD _ _ hy
      · rw [retryFetch_startD]; exact hy
    split
    · exact key _ hs'
    · exact key _ hs'

theorem handleFetchError_k (cfg : Cfg) (f : Fail) (s : St) (hk : K s) : K (handleFetchError cfg f s) := by
  unfold handleFetchError
  apply fetchErrorTail_k
  intro hs
  exact ⟨rfl, (hk hs).2⟩

theorem handleOffsetError_k (cfg : Cfg) (f : Fail) (s : St) (hk : K s) : K (handleOffsetError cfg f s) := by
  unfold handleOffsetError offsetErrorTail
  have hk0 : K { s with requestD := .none } := fun hs => ⟨rfl, (hk hs).2⟩
  split
  · exact hk0
  · rename_i hs
    have hs' : ({ s with requestD := .none } : St).startD ≠ .none := by simpa using hs
    apply K.of_running
    split
    · exact hs'
    split
    · exact startErrback_startD _ _ hs'
    · rw [retryFetch_startD]; exact hs'

theorem handleOffsetResponse_k (cfg : Cfg) (isFetch : Bool) (off : Int) (s : St) (hk : K s) :
    K (handleOffsetResponse cfg isFetch off s) := by
  unfold handleOffsetResponse offsetResponseTail
  split
  · exact fun hs => ⟨rfl, (hk hs).2⟩
  · rename_i hs
    have hs' : s.startD ≠ .none := by simpa using hs
    apply K.of_running
    apply doFetch_startD
    dsimp only
    repeat' split
    all_goals exact hs'

section
variable {cfg : Cfg} {inner : Ops} (hin : OpsCm inner)
include hin

theorem procBody_cm (k : St → St × Bool) (hk : ∀ x, Cm x (k x).1) (blk rest' : List Msg) (last : Int) (e : PEntry) (s : St) :
    Cm s (procBody cfg inner k blk rest' last e s).1 := by
  have h1 : Cm s (procEnter blk rest' last s) := by unfold procEnter; cm_close
  have h2 : Cm s (procActs inner e.acts (procEnter blk rest' last s)) := h1.trans (procActs_cm hin _ _)
  unfold procBody
  generalize procActs inner e.acts (procEnter blk rest' last s) = s2 at h2 ⊢
  cases hres : e.res with
  | ok =>
    dsimp only
    have h3 : Cm s (autoCommit cfg true (procLeave .ok rest' last s2)) :=
      (h2.trans (show Cm s2 (procLeave .ok rest' last s2) by unfold procLeave; cm_close)).trans (autoCommit_cm _ _ _)
    split
    · exact h3
    · exact h3.trans (hk _)
  | err kd t =>
    dsimp only
    have h3 : Cm s (handleProcessorError (.ext kd t) (procLeave (.err kd t) rest' last s2)) :=
      (h2.trans (show Cm s2 (procLeave (.err kd t) rest' last s2) by unfold procLeave; cm_close)).trans (handleProcessorError_cm _ _)
    split
    · exact h3
    split
    · exact h3
    · exact h3.trans (hk _)
  | defer =>
    dsimp only
    have h3 : Cm s (procLeave .defer rest' last s2) :=
      h2.trans (by unfold procLeave; dsimp only; split <;> cm_close)
    split
    · exact h3
    · exact h3.trans (handleProcessorError_cm _ _)

theorem procLoop_cm : ∀ (fuel : Nat) (rest : List Msg) (s : St), Cm s (procLoop cfg inner fuel rest s).1
  | 0, _, s => Cm.refl s
  | fuel + 1, rest, s => by
    unfold procLoop
    split
    · exact Cm.refl s
    split
    · exact Cm.refl s
    · exact procBody_cm hin _ (fun x => procLoop_cm fuel _ x) _ _ _ _ s

theorem deliverBlock_k (msgs : List Msg) (x : St) (hx : x.startD ≠ .none) : K (deliverBlock cfg inner msgs x) := by
  unfold deliverBlock
  split
  · exact K.of_running hx
  · dsimp only
    have hcm := procLoop_cm (cfg := cfg) hin (msgs.length + 1) msgs { x with msgBlock := true }
    have hk1 : K (procLoop cfg inner (msgs.length + 1) msgs { x with msgBlock := true }).1 :=
      K.of_cm (K.of_running (by exact hx)) hcm
    generalize procLoop cfg inner (msgs.length + 1) msgs { x with msgBlock := true } = res at hk1
    obtain ⟨s2, done⟩ := res
    dsimp only at hk1 ⊢
    split
    · exact hk1
    · unfold finishSimple
      split
      · intro hs; exact ⟨(hk1 hs).1, rfl⟩
      · exact hk1

theorem fetchTail_k (viaBlock : Bool) (r : Reply) (x : St) (hx : x.startD ≠ .none) : K (fetchTail cfg inner viaBlock r x) := by
  have key : ∀ (msgs : List Msg) (y : St), y.startD ≠ .none → K (retryFetch cfg (some 0) (deliverBlock cfg inner msgs y)) :=
    fun msgs y hy => K.of_cm (deliverBlock_k hin msgs y hy) (retryFetch_cm _ _ _)
  unfold fetchTail
  dsimp only
  split
  · exact key _ { x with fetchOffset := (extract x.fetchOffset r.msgs).2 } hx
  · split
    · exact key _ { x with fetchOffset := (extract x.fetchOffset r.msgs).2, bufferSize := _ } hx
    · have hd := deliverBlock_k (cfg := cfg) hin (extract x.fetchOffset r.msgs).1
        (startErrback .tooSmall { x with fetchOffset := (extract x.fetchOffset r.msgs).2 }) (startErrback_startD _ _ hx)
      split
      · exact handleFetchError_k _ _ _ hd
      · exact hd
  · have hd := deliverBlock_k (cfg := cfg) hin (extract x.fetchOffset r.msgs).1
        { x with fetchOffset := (extract x.fetchOffset r.msgs).2 } hx
    split
    · exact hd
    · exact handleFetchError_k _ _ _ hd

theorem handleFetchResponse_k (k : Nat) (r : Reply) (s : St) (hk : K s) : K (handleFetchResponse cfg inner k r s) := by
  unfold handleFetchResponse
  split
  · exact fun hs => ⟨rfl, (hk hs).2⟩
  · rename_i hs
    have hs' : s.startD ≠ .none := by simpa using hs
    dsimp only
    split
    · exact K.of_running hs'
    · unfold fetchBody
      exact fetchTail_k hin _ _ _ hs'

theorem finishFull_k (x : St) (hk : K x) : K (finishFull cfg inner x) := by
  unfold finishFull
  split
  · dsimp only
    split
    · split
      · exact fun _ => ⟨rfl, rfl⟩
      · rename_i hs
        have hs' : x.startD ≠ .none := by simpa using hs
        unfold fetchBody
        exact fetchTail_k hin _ _ _ hs'
    · exact fun hs => ⟨(hk hs).1, rfl⟩
  · exact hk

theorem procResult_k (g : Gen) (r : Option Fail) (s : St) (hk : K s) : K (procResult cfg inner g r s) := by
  unfold procResult
  dsimp only
  suffices h : ∀ passed, K (procResume cfg inner g passed (procFired cfg g r s)) by
    split
    · exact K.of_cm (h _) (commitAndStop_cm hin _)
    · exact h _
  intro passed
  have h1 : K (procFired cfg g r s) := by
    unfold procFired
    cases r with
    | none => exact K.of_cm (K.of_cm hk (show Cm s { s with proc := none, lastProcessed := some g.last } by cm_close)) (autoCommit_cm _ _ _)
    | some f => exact K.of_cm (K.of_cm hk (show Cm s { s with proc := none } by cm_close)) (handleProcessorError_cm _ _)
  generalize procFired cfg g r s = s1 at h1
  unfold procResume
  split
  · exact h1
  · have hcm := procLoop_cm (cfg := cfg) hin (g.rest.length + 1) g.rest s1
    dsimp only
    split
    · exact K.of_cm h1 hcm
    · exact finishFull_k hin _ (K.of_cm h1 hcm)

end

/-- every event keeps "a stopped consumer is clean" -/
theorem stepCore_k (cfg : Cfg) (s s' : St) (e : Ev) (hk : K s)
    (hrr : ∀ due, s.retryCall = .pending due → s.startD ≠ .none) (h : stepCore cfg s e = some s') : K s' := by
  have hin := opsN_cm cfg cfg.depth
  cases e with
  | start off =>
    simp only [stepCore, Option.some.injEq] at h; subst h
    unfold start
    split
    · exact K.of_cm hk (emit_cm _ _)
    · dsimp only
      have hd : (doFetch cfg { s with startD := .pending, fetchOffset := off }).startD ≠ .none :=
        doFetch_startD cfg _ (by simp)
      split
      · exact K.of_running hd
      · exact K.of_running hd
  | stop =>
    simp only [stepCore, Option.some.injEq] at h; subst h
    exact K.of_cm hk (stop_cm hin s)
  | shutdown =>
    simp only [stepCore, Option.some.injEq] at h; subst h
    exact K.of_cm hk (shutdown_cm hin s)
  | commit =>
    simp only [stepCore, Option.some.injEq] at h; subst h
    exact K.of_cm hk (commitUser_cm cfg s)
  | fetchOk k r =>
    simp only [stepCore] at h
    split at h
    · simp only [Option.some.injEq] at h; subst h
      exact handleFetchResponse_k hin k r s hk
    · cases h
  | fetchErr k ek tag =>
    simp only [stepCore] at h
    split at h
    · simp only [Option.some.injEq] at h; subst h
      exact handleFetchError_k cfg _ s hk
    · cases h
  | offsetOk k off =>
    simp only [stepCore] at h
    split at h
    · simp only [Option.some.injEq] at h; subst h
      exact handleOffsetResponse_k cfg false off s hk
    · cases h
  | offsetErr k ek tag =>
    simp only [stepCore] at h
    split at h
    · simp only [Option.some.injEq] at h; subst h
      exact handleOffsetError_k cfg _ s hk
    · cases h
  | offsetFetchOk k off =>
    simp only [stepCore] at h
    split at h
    · simp only [Option.some.injEq] at h; subst h
      exact handleOffsetResponse_k cfg true off s hk
    · cases h
  | offsetFetchErr k ek tag =>
    simp only [stepCore] at h
    split at h
    · simp only [Option.some.injEq] at h; subst h
      exact handleOffsetError_k cfg _ s hk
    · cases h
  | commitOk k =>
    simp only [stepCore] at h
    split at h
    · split at h
      · simp only [Option.some.injEq] at h; subst h
        exact K.of_cm hk ((show Cm s { s with commitReq := none, lastCommitted := _ } by cm_close).trans (deliver_cm hin _ _))
      · cases h
    · cases h
  | commitErr k ek tag =>
    simp only [stepCore] at h
    split at h
    · split at h
      · simp only [Option.some.injEq] at h; subst h
        exact K.of_cm hk ((show Cm s { s with commitReq := none } by cm_close).trans (handleCommitError_cm hin _ _ _ _))
      · cases h
    · cases h
  | procOk =>
    simp only [stepCore] at h
    split at h
    · simp only [Option.some.injEq] at h; subst h
      exact procResult_k hin _ none s hk
    · cases h
  | procErr ek tag =>
    simp only [stepCore] at h
    split at h
    · simp only [Option.some.injEq] at h; subst h
      exact procResult_k hin _ _ s hk
    · cases h
  | retryFire =>
    simp only [stepCore] at h
    split at h
    · rename_i due hdue
      split at h
      · simp only [Option.some.injEq] at h; subst h
        exact K.of_running (doFetch_startD cfg _ (hrr due hdue))
      · cases h
    · cases h
  | commitRetryFire =>
    simp only [stepCore] at h
    split at h
    · split at h
      · simp only [Option.some.injEq] at h; subst h
        exact K.of_cm hk ((show Cm s { s with commitCall := .dead } by cm_close).trans (sendCommitRequest_cm cfg _ _ _))
      · cases h
    · cases h
  | autoCommitTick =>
    simp only [stepCore] at h
    split at h
    · rename_i l hlp
      split at h
      · rename_i due hd
        split at h
        · have h1 : Cm s (autoCommit cfg false { s with looper := some { l with due := none } }) :=
            (show Cm s { s with looper := some { l with due := none } } by cm_close).trans (autoCommit_cm cfg false _)
          generalize autoCommit cfg false { s with looper := some { l with due := none } } = s1 at h h1
          split at h
          · simp only [Option.some.injEq] at h; subst h
            exact K.of_cm hk (h1.trans (by cm_close))
          · simp only [Option.some.injEq] at h; subst h
            exact K.of_cm hk h1
        · cases h
      · cases h
    · cases h
  | advance dt =>
    simp only [stepCore] at h
    split at h
    · cases h
    · simp only [Option.some.injEq] at h; subst h
      exact K.of_cm hk (by cm_close)
  | env rq cm =>
    simp only [stepCore, Option.some.injEq] at h; subst h
    exact K.of_cm hk (by cm_close)

end Afkak.Proofs.Consumer.L
