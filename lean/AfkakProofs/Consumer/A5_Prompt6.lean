import AfkakProofs.Consumer.A5_Prompt5
/-!
# C02 prompt delivery (6): `stop()`, `shutdown()`, every level of the re-entrant API
-/
namespace Afkak.Proofs.Consumer.P
open Afkak.Consumer Afkak.Monitor Afkak.Consts Afkak.Proofs.Consumer

section
variable {cfg : Cfg} {inner : Ops} (hin : OpsP inner)

/-- `stop()`: `_request_d.cancel()` (window `wS`: the processor's Deferred is still to be cancelled) -/
theorem stopReq_p : PresH False True False False (stopReq cfg) := by
  intro s hs
  have hx := HRel.refl hs
  unfold stopReq
  split
  · simp only []
    rename_i k kind c hreq
    have hpk : s.parked = none := by
      cases hp : s.parked with
      | none => rfl
      | some r =>
        obtain ⟨k', hk'⟩ := hs.pk (by rw [hp]; rfl)
        rw [hreq] at hk'; cases hk'
    have hq : HRel False True False False s { emit (.cancelReq k) s with requestD := .pending k kind true } := by pleaf hx
    split
    · split
      · exact handleFetchError_p _ hq hpk
      · exact handleOffsetError_p _ hq hpk
    · exact hq
  · exact hx

theorem stopBlock_p {s : St} (hs : Hp False True False False s) (hst : s.stopping = true) :
    HRel False True False False s (stopBlock s) ∧ (stopBlock s).msgBlock = false ∧ (stopBlock s).stopping = s.stopping ∧
      (stopBlock s).parked = none := by
  have hx := HRel.refl hs
  unfold stopBlock
  split
  · refine ⟨by pleaf hx, rfl, rfl, rfl⟩
  · rename_i hmb
    refine ⟨hx, by simpa using hmb, rfl, ?_⟩
    cases hp : s.parked with
    | none => rfl
    | some r => exact absurd (hs.pkb (by rw [hp]; rfl)) hmb

include hin in
/-- `stop()`: the block is dropped and the suspended generator's Deferred cancelled; afterwards nothing is pending -/
theorem stopBlockProc_p {s : St} (hs : Hp False True False False s) (hst : s.stopping = true) :
    Hp0 (stopBlockProc cfg inner s) ∧ Fr s (stopBlockProc cfg inner s) ∧
      (stopBlockProc cfg inner s).proc = none ∧ (stopBlockProc cfg inner s).msgBlock = false := by
  obtain ⟨hb, mb1, st1, _⟩ := stopBlock_p hs hst
  rw [hst] at st1
  unfold stopBlockProc
  split
  · rename_i g hg
    generalize stopBlock s = t at *
    have hcancel : (Fail.ext ErrKind.cancelled 0).isCancelled = true := rfl
    have hu : Hp0 { emit .procCancel t with proc := none } := by
      obtain ⟨hb1, hb2⟩ := hb
      hp_fields hb1
    have fu : Fr s { emit .procCancel t with proc := none } := by
      obtain ⟨hs_, ⟨⟨f1, f2, f3, f4, f5⟩, f6, f7⟩⟩ := hb
      refine ⟨⟨?_, ?_, ?_, ?_, ?_⟩, ?_, ?_⟩ <;>
        first | assumption | (simp only [pm, emit] at * <;> pr_norm <;> grind [C02.prStep, runR_cons])
    have b := handleProcessorError_p False False False False (.ext .cancelled 0) _ hu
    have hk : (handleProcessorError (.ext .cancelled 0) { emit .procCancel t with proc := none }).stopping = true ∧
        (handleProcessorError (.ext .cancelled 0) { emit .procCancel t with proc := none }).msgBlock = false ∧
        (handleProcessorError (.ext .cancelled 0) { emit .procCancel t with proc := none }).proc = none := by
      unfold handleProcessorError startErrback emit
      simp [st1, Fail.isCancelled, mb1]
    have e : procResult cfg inner g (some (.ext .cancelled 0)) (emit .procCancel t) =
        (if g.shutWait then commitAndStop cfg inner (handleProcessorError (.ext .cancelled 0) { emit .procCancel t with proc := none })
         else handleProcessorError (.ext .cancelled 0) { emit .procCancel t with proc := none }) := by
      have hpass : procErrPassed (.ext .cancelled 0) (emit .procCancel t) = false := by
        simp [procErrPassed, emit, st1, hcancel]
      unfold procResult
      simp only [hpass]
      unfold procFired
      simp only []
      rw [procResume_stopping cfg inner g _ hk.1 hk.2.1 hk.2.2]
    rw [e]
    generalize handleProcessorError (.ext .cancelled 0) { emit .procCancel t with proc := none } = v at *
    split
    · have c := commitAndStop_p (cfg := cfg) hin v b.1
      exact ⟨c.1, fu.trans (b.2.trans c.2), c.2.proc hk.2.2, c.2.mb hk.2.1⟩
    · exact ⟨b.1, fu.trans b.2, hk.2.2, hk.2.1⟩
  · rename_i hg
    exact ⟨hb.1.closeS (fun _ _ _ => hg), hb.2, hg, mb1⟩

/-- `stop()`'s last step; the item that tells the monitor is still to come (window `wR`) -/
theorem stopFinish_p {s0 x : St} (hx : HRel0 s0 x) (hpn : x.proc = none) (hmb : x.msgBlock = false) (hpk : x.parked = none) :
    HRel True False False False s0 (stopFinish x) := by
  unfold stopFinish crash
  simp only []
  split
  · pleaf hx
  · pleaf hx
  · pleaf hx

theorem stopFinish_stopping (x : St) : (stopFinish x).stopping = false := by
  unfold stopFinish crash emit
  grind

include hin in
theorem stopCore_p : ∀ s, Hp0 s → HRel True False False False s (stopCore cfg inner s) := by
  intro s hs
  have hq0 : Hp False True False False { s with stopping := true } := by
    have hs' : Hp False True False False s := hs.mono id (fun w => w.elim) id id (fun _ w => w.elim)
    hp_fields hs'
  have hq1 := stopReq_p (cfg := cfg) _ hq0
  have st1 : (stopReq cfg { s with stopping := true }).stopping = true := by rw [stopReq_stopping]
  obtain ⟨h2, f2, p2, m2⟩ := stopBlockProc_p (cfg := cfg) hin hq1.1 st1
  have k2 : (stopBlockProc cfg inner (stopReq cfg { s with stopping := true })).parked = none := by
    cases hp : (stopBlockProc cfg inner (stopReq cfg { s with stopping := true })).parked with
    | none => rfl
    | some r => have := h2.pkb (by rw [hp]; rfl); rw [m2] at this; cases this
  unfold stopCore
  simp only []
  generalize stopBlockProc cfg inner (stopReq cfg { s with stopping := true }) = t at *
  have hq3 : ∀ fuel, HRel0 t (stopTimers (stopCommitReq cfg inner (cancelWaiters cfg inner fuel (stopRetry t)))) :=
    fun fuel => (stopTimers_p False False False False).step ((stopCommitReq_p hin).step ((cancelWaiters_p hin fuel).step
      ((stopRetry_p False False False False).step (HRel.refl h2))))
  have h3 := hq3 ((stopRetry t).commitDs.length + 4)
  have h4 := stopFinish_p h3 (h3.2.proc p2) (h3.2.mb m2) (h3.2.l.pkd k2)
  have r := hq1.2.trans (f2.trans h4.2)
  exact ⟨h4.1, ⟨⟨r.l.exp, fun _ => stopFinish_stopping _, r.l.pkd, r.l.mpk, r.l.cr⟩, r.proc, r.mb⟩⟩

include hin in
theorem stop_p : PresH0 (stop cfg inner) := by
  intro s hs
  unfold stop
  split
  · have hx := HRel.refl hs
    pleaf hx
  · simp only []
    have hq := stopCore_p (cfg := cfg) hin s hs
    generalize stopCore cfg inner s = t at *
    pleaf hq

include hin in
/-- `shutdown()` together with the item that announces it -/
theorem shutdown_p (it : Item) (hit : it = .ev .shutdown ∨ it = .ob (.act .shutdown)) {s : St} (hs : Hp0 s) :
    HRel0 s (shutdown cfg inner { s with out := it :: s.out }) := by
  have hx := HRel.refl hs
  unfold shutdown
  rcases hit with rfl | rfl
  · split
    · pleaf hx
    · split
      · pleaf hx
      · simp only []
        split
        · pleaf hx
        · exact (commitAndStop_p hin).step (by pleaf hx)
  · split
    · pleaf hx
    · split
      · pleaf hx
      · simp only []
        split
        · pleaf hx
        · exact (commitAndStop_p hin).step (by pleaf hx)

include hin in
theorem mkOps_p : OpsP (mkOps cfg inner) :=
  ⟨stop_p hin, stopCore_p hin, commitUser_p cfg False False False False,
    fun _ hs => shutdown_p hin (.ob (.act .shutdown)) (Or.inr rfl) hs⟩

end

theorem opsN_p (cfg : Cfg) : ∀ n, OpsP (opsN cfg n)
  | 0 => by
    refine ⟨crash_p False False False False _, fun s hs => ?_, crash_p False False False False _, fun s hs => ?_⟩
    · have h := crash_p False False False False "re-entrancy depth" s hs
      exact ⟨h.1.of_crashed rfl, h.2⟩
    · have hx := HRel.refl hs
      show HRel0 s (crash "re-entrancy depth" (emit (.act .shutdown) s))
      unfold crash
      pleaf hx
  | n + 1 => mkOps_p (opsN_p cfg n)

end Afkak.Proofs.Consumer.P
