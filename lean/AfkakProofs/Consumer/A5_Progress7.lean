import AfkakProofs.Consumer.A5_Progress6
/-!
# C02, liveness half (7): every event keeps `Live`
-/
namespace Afkak.Proofs.Consumer.L
open Afkak.Consumer

/-- the hypothesis of the partial theorem on one event: a fetch reply's iteration does not raise -/
def noRaiseEv : Ev → Bool
  | .fetchOk _ r => noRaiseR r
  | _ => true

/-- the sharper hypothesis: a fetch reply whose iteration raises does not arrive while a block is in progress (it
    would be parked behind `_msg_block_d`, where the exception is lost) -/
def okEv (s : St) : Ev → Bool
  | .fetchOk _ r => noRaiseR r || !s.msgBlock
  | _ => true

theorem okEv_of_noRaise (s : St) (e : Ev) (h : noRaiseEv e = true) : okEv s e = true := by
  cases e <;> simp_all [okEv, noRaiseEv]

theorem live_caseA {s : St} (hl : Live s) (hreq : reqPending s.requestD = true) (hr : Running s = true) :
    s.retryCall = .none ∧ s.parked = none := by
  obtain ⟨_, h | h | ⟨k', r', h, _⟩⟩ := hl hr
  · exact ⟨h.2.1, h.2.2⟩
  · rw [h.1] at hreq; cases hreq
  · rw [h] at hreq; cases hreq

theorem live_of_err {s s' : St} (hl : Live s) (hreq : reqPending s.requestD = true)
    (h : Running s' = true → Running s = true ∧ s'.requestD = .none ∧ s'.proc = s.proc ∧ s'.msgBlock = s.msgBlock ∧
      s'.parked = s.parked ∧ (s.retryCall = .none → timerPending s'.retryCall = true)) : Live s' := by
  intro hr
  obtain ⟨a, b, c, d, e, f⟩ := h hr
  obtain ⟨h1, h2⟩ := live_caseA hl hreq a
  refine ⟨?_, Or.inr (Or.inl ⟨b, f h1, e.trans h2⟩)⟩
  rw [c, d]; exact (hl a).1

theorem live_of_doFetch (cfg : Cfg) {s x : St} (hl : Live s) (h1 : Running x = Running s) (h2 : x.requestD = .none)
    (h3 : x.proc = s.proc) (h4 : x.msgBlock = s.msgBlock) (h5 : x.parked = s.parked) (hpk : Running s = true → s.parked = none) :
    Live (doFetch cfg x) := by
  intro hr
  obtain ⟨a, b, c, d, e, f⟩ := doFetch_spec cfg x h2 hr
  have a' : Running s = true := h1 ▸ a
  refine ⟨?_, Or.inl ⟨b, c, (f.trans h5).trans (hpk a')⟩⟩
  rw [d, e, h3, h4]; exact (hl a').1

theorem reqPending_of_guard {s : St} {k : Nat} {kind : ReqKind}
    (h : (s.requestD == .pending k kind false || s.requestD == .pending k kind true) = true) : reqPending s.requestD = true := by
  simp only [Bool.or_eq_true, beq_iff_eq] at h
  rcases h with h | h <;> rw [h] <;> rfl

theorem handleOffsetResponse_live (cfg : Cfg) (isFetch : Bool) (off : Int) (s : St) (hl : Live s)
    (hreq : reqPending s.requestD = true) : Live (handleOffsetResponse cfg isFetch off s) := by
  unfold handleOffsetResponse offsetResponseTail
  split
  · rename_i h
    apply Live.of_nr
    simp only [beq_iff_eq] at h
    simp [Running, h]
  · dsimp only
    apply live_of_doFetch cfg hl
    · repeat' split
      all_goals rfl
    · repeat' split
      all_goals rfl
    · repeat' split
      all_goals rfl
    · repeat' split
      all_goals rfl
    · repeat' split
      all_goals rfl
    · exact fun hr => (live_caseA hl hreq hr).2

/-- every event that the consumer accepts keeps `Live`, provided a `start()` finds the consumer cleanly stopped -/
theorem stepCore_live (cfg : Cfg) (s s' : St) (e : Ev) (hl : Live s) (hpb : s.proc.isSome = true → s.msgBlock = true)
    (hstart : (∃ off, e = .start off) → s.startD = .none → s.requestD = .none ∧ s.msgBlock = false ∧ s.parked = none)
    (hne : okEv s e = true) (h : stepCore cfg s e = some s') : Live s' := by
  have hin := opsN_fr cfg cfg.depth
  cases e with
  | start off =>
    simp only [stepCore, Option.some.injEq] at h; subst h
    unfold start
    split
    · exact Live.of_fr (emit_fr _ _) hl
    · rename_i hsd
      have hsd' : s.startD = .none := by simpa using hsd
      obtain ⟨q1, q2, q3⟩ := hstart ⟨off, rfl⟩ hsd'
      dsimp only
      have hd : Live (doFetch cfg { s with startD := .pending, fetchOffset := off }) := by
        intro hr
        obtain ⟨a, b, c, d, e, f⟩ := doFetch_spec cfg { s with startD := .pending, fetchOffset := off } q1 hr
        refine ⟨fun hm => ?_, Or.inl ⟨b, c, f.trans q3⟩⟩
        rw [e] at hm
        rw [show ({ s with startD := StartD.pending, fetchOffset := off } : St).msgBlock = s.msgBlock from rfl, q2] at hm
        cases hm
      split
      · exact Live.of_fr (show Fr (doFetch cfg { s with startD := .pending, fetchOffset := off }) _ by fr_close) hd
      · exact hd
  | stop =>
    simp only [stepCore, Option.some.injEq] at h; subst h
    exact Live.of_fr (stop_fr s) hl
  | shutdown =>
    simp only [stepCore, Option.some.injEq] at h; subst h
    exact Live.of_fr (shutdown_fr hin s) hl
  | commit =>
    simp only [stepCore, Option.some.injEq] at h; subst h
    exact Live.of_fr (commitUser_fr cfg s) hl
  | fetchOk k r =>
    simp only [stepCore] at h
    split at h
    · rename_i hg
      simp only [Option.some.injEq] at h; subst h
      exact handleFetchResponse_live hin k r s (fun hmb => by simpa [okEv, hmb] using hne) hl (reqPending_of_guard hg) hpb
    · cases h
  | fetchErr k ek tag =>
    simp only [stepCore] at h
    split at h
    · rename_i hg
      simp only [Option.some.injEq] at h; subst h
      exact live_of_err hl (reqPending_of_guard hg) (handleFetchError_spec cfg _ s)
    · cases h
  | offsetOk k off =>
    simp only [stepCore] at h
    split at h
    · rename_i hg
      simp only [Option.some.injEq] at h; subst h
      exact handleOffsetResponse_live cfg false off s hl (reqPending_of_guard hg)
    · cases h
  | offsetErr k ek tag =>
    simp only [stepCore] at h
    split at h
    · rename_i hg
      simp only [Option.some.injEq] at h; subst h
      exact live_of_err hl (reqPending_of_guard hg) (handleOffsetError_spec cfg _ s)
    · cases h
  | offsetFetchOk k off =>
    simp only [stepCore] at h
    split at h
    · rename_i hg
      simp only [Option.some.injEq] at h; subst h
      exact handleOffsetResponse_live cfg true off s hl (reqPending_of_guard hg)
    · cases h
  | offsetFetchErr k ek tag =>
    simp only [stepCore] at h
    split at h
    · rename_i hg
      simp only [Option.some.injEq] at h; subst h
      exact live_of_err hl (reqPending_of_guard hg) (handleOffsetError_spec cfg _ s)
    · cases h
  | commitOk k =>
    simp only [stepCore] at h
    split at h
    · split at h
      · simp only [Option.some.injEq] at h; subst h
        exact Live.of_fr ((show Fr s { s with commitReq := none, lastCommitted := _ } by fr_close).trans (deliver_fr hin _ _)) hl
      · cases h
    · cases h
  | commitErr k ek tag =>
    simp only [stepCore] at h
    split at h
    · split at h
      · simp only [Option.some.injEq] at h; subst h
        exact Live.of_fr ((show Fr s { s with commitReq := none } by fr_close).trans (handleCommitError_fr hin _ _ _ _)) hl
      · cases h
    · cases h
  | procOk =>
    simp only [stepCore] at h
    split at h
    · rename_i g hg
      simp only [Option.some.injEq] at h; subst h
      exact procResult_live hin g none s hl (hpb (by rw [hg]; rfl))
    · cases h
  | procErr ek tag =>
    simp only [stepCore] at h
    split at h
    · rename_i g hg
      simp only [Option.some.injEq] at h; subst h
      exact procResult_live hin g _ s hl (hpb (by rw [hg]; rfl))
    · cases h
  | retryFire =>
    simp only [stepCore] at h
    split at h
    · rename_i due hdue
      split at h
      · simp only [Option.some.injEq] at h; subst h
        have hB : Running s = true → s.requestD = .none ∧ s.parked = none := by
          intro hr
          obtain ⟨_, hh | hh | ⟨k', r', _, _, _, hh, _⟩⟩ := hl hr
          · rw [hh.2.1] at hdue; cases hdue
          · exact ⟨hh.1, hh.2.2⟩
          · rw [hh] at hdue; cases hdue
        by_cases hreq : s.requestD = .none
        · exact live_of_doFetch cfg hl rfl hreq rfl rfl rfl (fun hr => (hB hr).2)
        · apply Live.of_nr
          have : doFetch cfg { s with retryCall := .dead } = { s with retryCall := .dead } := by
            unfold doFetch
            split
            · rename_i h0; exact absurd h0 hreq
            · rfl
          rw [this]
          cases hr : Running s
          · exact hr
          · exact absurd (hB hr).1 hreq
      · cases h
    · cases h
  | commitRetryFire =>
    simp only [stepCore] at h
    split at h
    · split at h
      · simp only [Option.some.injEq] at h; subst h
        exact Live.of_fr ((show Fr s { s with commitCall := .dead } by fr_close).trans (sendCommitRequest_fr cfg _ _ _)) hl
      · cases h
    · cases h
  | autoCommitTick =>
    simp only [stepCore] at h
    split at h
    · rename_i l hlp
      split at h
      · rename_i due hd
        split at h
        · have h1 : Fr s (autoCommit cfg false { s with looper := some { l with due := none } }) :=
            (show Fr s { s with looper := some { l with due := none } } by fr_close).trans (autoCommit_fr cfg false _)
          generalize autoCommit cfg false { s with looper := some { l with due := none } } = s1 at h h1
          split at h
          · simp only [Option.some.injEq] at h; subst h
            exact Live.of_fr (h1.trans (by fr_close)) hl
          · simp only [Option.some.injEq] at h; subst h
            exact Live.of_fr h1 hl
        · cases h
      · cases h
    · cases h
  | advance dt =>
    simp only [stepCore] at h
    split at h
    · cases h
    · simp only [Option.some.injEq] at h; subst h
      exact Live.of_fr (by fr_close) hl
  | env rq cm =>
    simp only [stepCore, Option.some.injEq] at h; subst h
    exact Live.of_fr (by fr_close) hl

end Afkak.Proofs.Consumer.L
