import AfkakProofs.Consumer.E_2
/-!
# C03 `commit()` reports: the processor's result, `stop()`, `shutdown()`, the re-entrant API, every event
-/
namespace Afkak.Proofs.Consumer.E
open Afkak.Consumer Afkak.Monitor Afkak.Consts Afkak.Proofs.Consumer

section
variable {cfg : Cfg} {inner : Ops} (hin : OpsE inner)
include hin

/-- The processor's Deferred fires at top level (`x` = the event that says so). -/
theorem procResult_e (g : Gen) (r : Option Fail) {s : St} (hs : He True s) (hp : s.proc = some g) (hf : s.frame = none) (x : Ev)
    (hx : (r = none ∧ x = .procOk) ∨ (∃ k t, r = some (.ext k t) ∧ x = .procErr k t)) :
    He False (procResult cfg inner g r { s with out := .ev x :: s.out }) := by
  have hcur := hs.c3b g hp
  have h1' : ∃ s1, procFired cfg g r { s with out := .ev x :: s.out } = s1 ∧ He False s1 ∧ s1.proc = none ∧ s1.frame = none := by
    unfold procFired
    rcases hx with ⟨rfl, rfl⟩ | ⟨k, t, rfl, rfl⟩
    · simp only []
      have a : He False { ({ s with out := Item.ev Ev.procOk :: s.out } : St) with proc := none, lastProcessed := some g.last } := by
        simp only [crm] at hcur
        he_fields hs
      have b := autoCommit_e cfg False true _ a
      exact ⟨_, rfl, b.1, b.2.2 rfl, b.2.1.trans hf⟩
    · simp only []
      have a : He False { ({ s with out := Item.ev (Ev.procErr k t) :: s.out } : St) with proc := none } := by
        he_fields hs
      have b := handleProcessorError_e False (.ext k t) _ a
      exact ⟨_, rfl, b.1, b.2.2 rfl, b.2.1.trans hf⟩
  obtain ⟨s1, e1, r1, p1, f1⟩ := h1'
  have hres : ∀ passed, LRel s1 (procResume cfg inner g passed s1) := by
    intro passed
    unfold procResume
    split
    · exact ⟨r1, rfl⟩
    · simp only []
      have h3 := procLoop_e (cfg := cfg) hin (g.rest.length + 1) g.rest (LRel.mk' (s := s1) r1 rfl) p1 f1
      split
      · exact h3
      · rename_i hcond
        have hp3 : (procLoop cfg inner (g.rest.length + 1) g.rest s1).1.proc = none := by
          cases hpp : (procLoop cfg inner (g.rest.length + 1) g.rest s1).1.proc with
          | none => rfl
          | some g' => simp [hpp] at hcond
        exact h3.trans (finishFull_e hin h3.1 hp3 (h3.2.trans f1))
  unfold procResult
  simp only []
  rw [e1]
  split
  · exact ((commitAndStop_e hin) _ (hres _).1).1
  · exact (hres _).1

/-- `stop()`: the block is dropped and the suspended generator's Deferred cancelled. -/
theorem stopBlockProc_e {s : St} (hs : He False s) (hst : s.stopping = true) :
    HRel False s (stopBlockProc cfg inner s) := by
  have hsb : HRel False s (stopBlock s) ∧ (stopBlock s).msgBlock = false ∧ (stopBlock s).stopping = true := by
    unfold stopBlock
    split
    · refine ⟨?_, rfl, hst⟩
      have hx := HRel.refl hs
      eleaf hx
    · rename_i hmb
      exact ⟨HRel.refl hs, by simpa using hmb, hst⟩
  obtain ⟨hb, mb1, st1⟩ := hsb
  unfold stopBlockProc
  split
  · rename_i g hg
    generalize stopBlock s = t at *
    have hcancel : (Fail.ext ErrKind.cancelled 0).isCancelled = true := rfl
    have a : HRel False s { emit .procCancel t with proc := none } := by eleaf hb
    have b := (handleProcessorError_e False (.ext .cancelled 0)).step a
    have hk : (handleProcessorError (.ext .cancelled 0) { emit .procCancel t with proc := none }).stopping = true ∧
        (handleProcessorError (.ext .cancelled 0) { emit .procCancel t with proc := none }).msgBlock = false ∧
        (handleProcessorError (.ext .cancelled 0) { emit .procCancel t with proc := none }).proc = none := by
      unfold handleProcessorError startErrback emit
      simp [st1, Fail.isCancelled, mb1]
    have e : procResult cfg inner g (some (.ext .cancelled 0)) (emit .procCancel t) =
        (if g.shutWait then commitAndStop cfg inner (handleProcessorError (.ext .cancelled 0) { emit .procCancel t with proc := none })
         else handleProcessorError (.ext .cancelled 0) { emit .procCancel t with proc := none }) := by
      have hpass : procErrPassed (.ext .cancelled 0) (emit .procCancel t) = false := by
        simp [procErrPassed, emit, st1, hcancel]
      unfold procResult
      simp only [hpass]
      unfold procFired
      simp only []
      rw [A.procResume_stopping cfg inner g _ hk.1 hk.2.1 hk.2.2]
    rw [e]
    have b' : HRel False s (handleProcessorError (.ext .cancelled 0) { emit .procCancel t with proc := none }) :=
      ⟨b.1, b.2.1, fun _ => hk.2.2⟩
    split
    · have c := (commitAndStop_e (cfg := cfg) hin) _ b'.1
      exact ⟨c.1, c.2.1.trans b'.2.1, fun _ => c.2.2 hk.2.2⟩
    · exact b'
  · exact hb

omit hin in
theorem stopReq_e : PresH False (stopReq cfg) := by
  intro s hs
  have hx := HRel.refl hs
  unfold stopReq
  split
  · simp only []
    rename_i k kind c hreq
    have hq : HRel False s { emit (.cancelReq k) s with requestD := .pending k kind true } := by eleaf hx
    split
    · split
      · exact (handleFetchError_e _).step hq
      · exact (handleOffsetError_e _).step hq
    · exact hq
  · exact hx

omit hin in
theorem stopFinish_e : PresH False stopFinish := by prese_leaf [stopFinish crash]

theorem stopCore_e : PresH False (stopCore cfg inner) := by
  intro s hs
  have hq0 : HRel False s { s with stopping := true } := by
    have hx := HRel.refl hs
    eleaf hx
  have hq1 := (stopReq_e (cfg := cfg)).step hq0
  have st1 : (stopReq cfg { s with stopping := true }).stopping = true := by rw [B.stopReq_stopping']
  have hq2 := stopBlockProc_e (cfg := cfg) hin hq1.1 st1
  unfold stopCore
  simp only []
  generalize stopBlockProc cfg inner (stopReq cfg { s with stopping := true }) = t at *
  have hq3 : ∀ fuel, HRel False t (stopFinish (stopTimers (stopCommitReq cfg inner (cancelWaiters cfg inner fuel (stopRetry t))))) :=
    fun fuel => stopFinish_e.step ((stopTimers_e False).step ((stopCommitReq_e hin).step ((cancelWaiters_e hin fuel).step ((stopRetry_e False).step (HRel.refl hq2.1)))))
  exact hq1.trans (hq2.trans (hq3 _))

theorem stop_e : PresH False (stop cfg inner) := by
  intro s hs
  unfold stop
  split
  · have hx := HRel.refl hs
    eleaf hx
  · simp only []
    have hq := stopCore_e (cfg := cfg) hin s hs
    eleaf hq

theorem shutdown_e : PresH False (shutdown cfg inner) := by
  intro s hs
  have hx := HRel.refl hs
  unfold shutdown
  split
  · eleaf hx
  · split
    · eleaf hx
    · simp only []
      split
      · eleaf hx
      · exact (commitAndStop_e hin).step (by eleaf hx)

theorem mkOps_e : OpsE (mkOps cfg inner) :=
  ⟨stop_e hin, stopCore_e hin, commitUser_e cfg True, shutdown_e hin⟩

end

theorem opsN_e (cfg : Cfg) : ∀ n, OpsE (opsN cfg n)
  | 0 => ⟨crash_e False _, crash_e False _, crash_e True _, crash_e False _⟩
  | n + 1 => mkOps_e (opsN_e cfg n)

end Afkak.Proofs.Consumer.E
