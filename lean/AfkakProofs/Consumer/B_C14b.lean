import AfkakProofs.Consumer.B_C14a
/-!
# C14 at trace level: requests, failures, and the handlers that reach the re-entrant API
-/
namespace Afkak.Proofs.Consumer.B
open Afkak.Consumer Afkak.Monitor Afkak.Consts Afkak.Proofs.Consumer

section
variable {cfg : Cfg} {sane : Prop}
  (hres : sane → ∀ v, cfg.reset = some v → v = offsetEarliest ∨ v = offsetLatest)

include hres in
theorem issue_offsets {t : St} (ht : Hc cfg sane t) (q1 : t.requestD = .none) (hrun : t.startD ≠ .none)
    (hfo : t.fetchOffset = offsetEarliest ∨ t.fetchOffset = offsetLatest) :
    Hc cfg sane { emit (.offsets t.nextReq t.fetchOffset) t with requestD := .pending t.nextReq .offsets false, nextReq := t.nextReq + 1 } := by
  have c2 : offsetEarliest = -2 := rfl
  have c3 : offsetLatest = -1 := rfl
  hc_fields ht

include hres in
theorem issue_offsetFetch {t : St} (ht : Hc cfg sane t) (q1 : t.requestD = .none) (hrun : t.startD ≠ .none)
    (hfo : t.fetchOffset = offsetCommitted) :
    Hc cfg sane { emit (.offsetFetch t.nextReq) t with requestD := .pending t.nextReq .offsetFetch false, nextReq := t.nextReq + 1 } := by
  have c2 : offsetEarliest = -2 := rfl
  have c3 : offsetLatest = -1 := rfl
  have c4 : offsetCommitted = -101 := rfl
  have hno : sane → (rsm cfg t).expect = none := by
    intro hP
    cases he : (rsm cfg t).expect with
    | none => rfl
    | some e =>
      obtain ⟨r2a, _, r2c⟩ := (ht.2.2.2 hP).r2 e he
      have := hres hP e r2c
      rw [← r2a, hfo, c2, c3, c4] at this
      omega
  hc_fields ht

include hres in
theorem issue_fetch {t : St} (ht : Hc cfg sane t) (q1 : t.requestD = .none) (hrun : t.startD ≠ .none)
    (h2 : t.fetchOffset ≠ offsetEarliest) (h3 : t.fetchOffset ≠ offsetLatest) (h4 : t.fetchOffset ≠ offsetCommitted) :
    Hc cfg sane { emit (.fetch t.nextReq t.fetchOffset t.bufferSize) t with requestD := .pending t.nextReq .fetch false, nextReq := t.nextReq + 1 } := by
  have c2 : offsetEarliest = -2 := rfl
  have c3 : offsetLatest = -1 := rfl
  have hno : sane → (rsm cfg t).expect = none := by
    intro hP
    cases he : (rsm cfg t).expect with
    | none => rfl
    | some e =>
      obtain ⟨r2a, _, r2c⟩ := (ht.2.2.2 hP).r2 e he
      rcases hres hP e r2c with h | h
      · exact absurd (r2a.trans h) h2
      · exact absurd (r2a.trans h) h3
  hc_fields ht

/-- the second half of `_do_fetch`: the request that goes out -/
def issue (cfg : Cfg) (s : St) : St :=
  if s.fetchOffset == offsetEarliest || s.fetchOffset == offsetLatest then
    { emit (.offsets s.nextReq s.fetchOffset) s with requestD := .pending s.nextReq .offsets false, nextReq := s.nextReq + 1 }
  else if s.fetchOffset == offsetCommitted then
    let raised := !cfg.group && errbackRaises s
    let s := if cfg.group then s else startErrback .invalidGroup s
    if raised then s else
    { emit (.offsetFetch s.nextReq) s with requestD := .pending s.nextReq .offsetFetch false, nextReq := s.nextReq + 1 }
  else
    { emit (.fetch s.nextReq s.fetchOffset s.bufferSize) s with requestD := .pending s.nextReq .fetch false, nextReq := s.nextReq + 1 }

omit hres in
theorem doFetch_unf (s : St) (h : s.requestD = .none) :
    doFetch cfg s = issue cfg (match s.retryCall with
      | .pending _ => { emit (.cancelTimer .retry) s with retryCall := .none }
      | _ => { s with retryCall := .none }) := by
  unfold doFetch issue
  simp only [h]
  cases s.retryCall <;> rfl

include hres in
theorem issue_c {t : St} (ht : Hc cfg sane t) (q1 : t.requestD = .none) (hrun' : t.startD ≠ .none) : Hc cfg sane (issue cfg t) := by
  unfold issue
  split
  · rename_i hc
    exact issue_offsets hres ht q1 hrun' (by simpa using hc)
  · rename_i hc
    simp only [Bool.or_eq_true, beq_iff_eq, not_or] at hc
    split
    · rename_i hcm
      have hcm' : t.fetchOffset = offsetCommitted := by simpa using hcm
      simp only []
      have hy : HRel cfg sane t (if cfg.group then t else startErrback .invalidGroup t) := by
        split
        · exact HRel.refl ht
        · exact startErrback_c cfg sane _ t ht
      have hy2 : (if cfg.group then t else startErrback .invalidGroup t).requestD = .none ∧
          (if cfg.group then t else startErrback .invalidGroup t).fetchOffset = t.fetchOffset ∧
          ((if cfg.group then t else startErrback .invalidGroup t).startD ≠ .none) := by
        split
        · exact ⟨q1, rfl, hrun'⟩
        · unfold startErrback emit; split <;> simp_all
      generalize (if cfg.group then t else startErrback .invalidGroup t) = u at *
      obtain ⟨u1, u2, u4⟩ := hy2
      split
      · exact hy.1
      · exact issue_offsetFetch hres hy.1 u1 u4 (u2.trans hcm')
    · rename_i hcm
      exact issue_fetch hres ht q1 hrun' hc.1 hc.2 (by simpa using hcm)

include hres in
/-- `_do_fetch` while the consumer is running (top level: the next request goes out) -/
theorem doFetch_c {s : St} (hs : Hc cfg sane s) (hrun : s.startD ≠ .none) : Hc cfg sane (doFetch cfg s) := by
  cases hreq : s.requestD with
  | none =>
    rw [doFetch_unf s hreq]
    have hx := HRel.refl hs
    split
    · exact issue_c hres (show HRel cfg sane s _ by cleaf hx).1 hreq hrun
    · exact issue_c hres (show HRel cfg sane s _ by cleaf hx).1 hreq hrun
  | pending k kind c => unfold doFetch; simp only [hreq]; exact hs
  | parked k => unfold doFetch; simp only [hreq]; exact hs

theorem offsetErrorTail_c (f : Fail) {s0 s : St} (hx : HRel cfg sane s0 s) (hpk : s.parked = none) :
    HRel cfg sane s0 (offsetErrorTail cfg f s) := by
  unfold offsetErrorTail
  repeat' split
  all_goals first
    | exact hx
    | exact (startErrback_c cfg sane f).step hx
    | exact retryFetch_c none hx (by intro h; cases h) (fun _ => hpk) (by intro d h; cases h)

theorem handleOffsetError_c (f : Fail) {s0 s : St} (hx : HRel cfg sane s0 s) (hpk : s.parked = none) :
    HRel cfg sane s0 (handleOffsetError cfg f s) := by
  unfold handleOffsetError
  exact offsetErrorTail_c f (by cleaf hx) (by simpa using hpk)

/-- `_handle_fetch_error` outside the case "out of range, no reset policy, as the failure of the request" (that one is
    the event `fetchErr … outOfRange` itself, `ev_fetchErr_fatal`) -/
theorem handleFetchError_c (f : Fail) {s0 s : St} (hx : HRel cfg sane s0 s) (hpk : s.parked = none)
    (hoor : f.isOutOfRange = true → (nsm s).expect = none ∧
      (sane → ((rsm cfg s).expect = none ∨ (rsm cfg s).expect = cfg.reset) ∧ (rsm cfg s).fetchAt = none)) :
    HRel cfg sane s0 (handleFetchError cfg f s) := by
  unfold handleFetchError fetchErrorTail
  simp only []
  have hb : HRel cfg sane s0 { s with requestD := .none } := by cleaf hx
  split
  · exact hb
  · split
    · exact (startErrback_c cfg sane f).step hb
    · have hm : HRel cfg sane s0 (if f.isOutOfRange then { ({ s with requestD := .none } : St) with fetchOffset := cfg.reset.getD s.fetchOffset } else { s with requestD := .none }) := by
        split
        · rename_i ho
          obtain ⟨ho1, ho2⟩ := hoor ho
          cases hr : cfg.reset with
          | none => simp only [Option.getD_none]; exact hb
          | some v =>
            simp only [Option.getD_some]
            rw [hr] at ho2
            cleaf hx
        · exact hb
      have hpk' : (if f.isOutOfRange then { ({ s with requestD := .none } : St) with fetchOffset := cfg.reset.getD s.fetchOffset } else { s with requestD := .none }).parked = none := by
        split <;> exact hpk
      generalize (if f.isOutOfRange then { ({ s with requestD := .none } : St) with fetchOffset := cfg.reset.getD s.fetchOffset } else { s with requestD := .none }) = s1 at *
      repeat' split
      all_goals first
        | exact hm
        | exact (startErrback_c cfg sane f).step hm
        | exact retryFetch_c none hm (by intro h; cases h) (fun _ => hpk') (by intro d h; cases h)

end
end Afkak.Proofs.Consumer.B
