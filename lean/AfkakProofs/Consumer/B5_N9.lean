import AfkakProofs.Consumer.B5_N8
/-!
# Quiescence after `stop()`: the events, the trace (with or without a consumer group, at every depth ≥ 2)
-/
namespace Afkak.Proofs.Consumer.BN
open Afkak.Consumer Afkak.Monitor Afkak.Consts Afkak.Proofs.Consumer

set_option linter.unusedSectionVars false

variable [EnvHyp]

theorem doFetch_frame (cfg : Cfg) (s : St) :
    (doFetch cfg s).looper = s.looper ∧ (doFetch cfg s).stopping = s.stopping ∧
      ((doFetch cfg s).startD = .none ↔ s.startD = .none) := by
  unfold doFetch startErrback errbackRaises emit
  simp only []
  repeat' split
  all_goals simp_all

theorem offsetResponseTail_stopping (cfg : Cfg) (isFetch : Bool) (off : Int) (s : St) :
    (offsetResponseTail cfg isFetch off s).stopping = s.stopping := by
  unfold offsetResponseTail
  split
  · rfl
  · simp only []
    rw [(doFetch_frame cfg _).2.1]
    repeat' split
    all_goals rfl

/-! the auto-commit looper while it is inside its call (`due = none`): nothing resets it -/

theorem looperReset_idle (cfg : Cfg) (s : St) (h : ∀ l0, s.looper = some l0 → l0.due = none) : looperReset cfg s = s := by
  unfold looperReset
  split
  · rename_i l hl
    split
    · rename_i d hd
      rw [h l hl] at hd; cases hd
    · rfl
  · rfl

theorem sendCommitRequest_looper (cfg : Cfg) (d : Option Rat) (a : Option Nat) (s : St) :
    (sendCommitRequest cfg d a s).looper = s.looper := by
  unfold sendCommitRequest crash emit
  simp only []
  repeat' split
  all_goals rfl

theorem commitState_looper (cfg : Cfg) (w : Who) (s : St) (h : ∀ l0, s.looper = some l0 → l0.due = none) :
    (commitState cfg w s).looper = s.looper := by
  unfold commitState
  split
  · rfl
  · split
    · rfl
    · split
      · cases w <;> rfl
      · simp only []
        have e : ∀ x : St, x.looper = s.looper → (looperReset cfg (sendCommitRequest cfg none none x)).looper = s.looper := by
          intro x hx
          rw [looperReset_idle]
          · rw [sendCommitRequest_looper]; exact hx
          · intro l0 hl0; rw [sendCommitRequest_looper, hx] at hl0; exact h l0 hl0
        exact e _ rfl

theorem autoCommit_looper (cfg : Cfg) (b : Bool) (s : St) (h : ∀ l0, s.looper = some l0 → l0.due = none) :
    (autoCommit cfg b s).looper = s.looper := by
  have hc := commitState_looper cfg .auto s h
  have he : ∀ (f : Fail) (x : St), (handleAutoCommitError f x).looper = x.looper := by
    intro f x; unfold handleAutoCommitError startErrback emit
    repeat' split
    all_goals rfl
  unfold autoCommit
  simp only []
  repeat' split
  all_goals first | rfl | exact hc | exact (he _ _).trans hc

section
variable {cfg : Cfg}

theorem ev_start_q (off : Int) (s : St) (h : QS s) : QS (start cfg off { s with out := .ev (.start off) :: s.out }) := by
  obtain ⟨h, hst⟩ := h
  unfold start
  split
  · exact ⟨by qg_leaf h, hst⟩
  · rename_i hn
    have hn' : s.startD = .none := by simpa using hn
    have hlp : s.looper = none := by
      cases hq : s.looper with
      | none => rfl
      | some l => exact absurd hn' (h.looperRun (by simp [hq]))
    have h1 : QG 0 { s with out := .ev (.start off) :: s.out, startD := .pending, fetchOffset := off } := by qg_leaf h
    have h2 := doFetch_q cfg 0 _ h1 (by simp)
    obtain ⟨f1, f2, f3⟩ := doFetch_frame cfg { s with out := .ev (.start off) :: s.out, startD := .pending, fetchOffset := off }
    have f1' : (doFetch cfg { s with out := .ev (.start off) :: s.out, startD := .pending, fetchOffset := off }).looper = none :=
      f1.trans hlp
    have f3' : (doFetch cfg { s with out := .ev (.start off) :: s.out, startD := .pending, fetchOffset := off }).startD ≠ .none :=
      fun e => by have := f3.mp e; cases this
    have f2' : (doFetch cfg { s with out := .ev (.start off) :: s.out, startD := .pending, fetchOffset := off }).stopping = false :=
      f2.trans hst
    simp only []
    generalize doFetch cfg { s with out := .ev (.start off) :: s.out, startD := .pending, fetchOffset := off } = s2 at h2 f1' f2' f3'
    split
    · exact ⟨by qg_leaf h2, f2'⟩
    · exact ⟨h2, f2'⟩

/-- the auto-commit looper fires -/
theorem ev_tick_q (l : Looper) (s : St) (h : QS s) (hl : s.looper = some l) (s1 : St)
    (hs1 : s1 = autoCommit cfg false { s with out := .ev .autoCommitTick :: s.out, looper := some { l with due := none } }) :
    QS (match s1.looper with
      | some l' => { emit (.setTimer .loop (howLong cfg.autoS l'.start s1.now)) s1 with
          looper := some { l' with due := some (s1.now + howLong cfg.autoS l'.start s1.now) } }
      | none => s1) := by
  obtain ⟨h, hst⟩ := h
  have h0 : QG 0 { s with out := .ev .autoCommitTick :: s.out, looper := some { l with due := none } } := by qg_leaf h
  have h1 : QG 0 s1 := by rw [hs1]; exact autoCommit_q cfg false 0 _ h0
  have hst1 : s1.stopping = false := by
    rw [hs1]; exact (autoCommit_keeps cfg false _).2.1.trans hst
  have hlp : s1.looper = some { l with due := none } := by
    rw [hs1]
    exact autoCommit_looper cfg false _ (by intro l0 hl0; simp only [Option.some.injEq] at hl0; rw [← hl0])
  rw [hlp]
  simp only []
  have hrun := h1.looperRun (by simp [hlp])
  exact ⟨by qg_leaf h1, hst1⟩

theorem ev_simple_q (e : Ev) (s : St) (h : QS s)
    (he : e = .stop ∨ e = .shutdown ∨ (∃ dt, e = .advance dt) ∨ (∃ a b, e = .env a b)) :
    QS { s with out := .ev e :: s.out } := by
  obtain ⟨h, hst⟩ := h
  refine ⟨?_, hst⟩
  rcases he with rfl | rfl | ⟨dt, rfl⟩ | ⟨a, b, rfl⟩ <;> qg_leaf h

theorem ev_advance_q (dt : Rat) (s : St) (h : QS s) : QS { s with out := .ev (.advance dt) :: s.out, now := s.now + dt } := by
  obtain ⟨h, hst⟩ := h
  exact ⟨by qg_leaf h, hst⟩

theorem ev_env_q (rq cm : Option (ErrKind × Nat)) (s : St) (h : QS s) :
    QS { s with out := .ev (.env rq cm) :: s.out, envReq := rq, envCommit := cm } := by
  obtain ⟨h, hst⟩ := h
  exact ⟨by qg_leaf h, hst⟩

theorem ev_commit_q (s : St) (h : QS s) : QS (commitUser cfg { s with out := .ev .commit :: s.out }) := by
  obtain ⟨h, hst⟩ := h
  refine ⟨commitUser_q cfg 0 _ (by qg_leaf h) ?_ hst, (commitUser_keeps cfg _).2.1.trans hst⟩
  unfold Live
  simp only [runR_cons, C13.qStep]
  split <;> simp_all

theorem ev_fetchErr_q (k : Nat) (ek : ErrKind) (tag : Nat) (c : Bool) (s : St) (h : QS s) (hreq : s.requestD = .pending k .fetch c) :
    QS (handleFetchError cfg (.ext ek tag) { s with out := .ev (.fetchErr k ek tag) :: s.out }) := by
  obtain ⟨h, hst⟩ := h
  refine ⟨?_, (handleFetchError_keeps0 cfg _ _).2.1.trans hst⟩
  unfold handleFetchError
  apply fetchErrorTail_pq
  cases c <;> qg_leaf h

theorem ev_offsetOk_q (k : Nat) (off : Int) (c : Bool) (s : St) (h : QS s) (hreq : s.requestD = .pending k .offsets c) :
    QS (handleOffsetResponse cfg false off { s with out := .ev (.offsetOk k off) :: s.out }) := by
  obtain ⟨h, hst⟩ := h
  unfold handleOffsetResponse
  refine ⟨?_, (offsetResponseTail_stopping cfg _ _ _).trans hst⟩
  apply offsetResponseTail_q cfg
  cases c <;> qg_leaf h

theorem ev_offsetErr_q (k : Nat) (ek : ErrKind) (tag : Nat) (c : Bool) (s : St) (h : QS s) (hreq : s.requestD = .pending k .offsets c) :
    QS (handleOffsetError cfg (.ext ek tag) { s with out := .ev (.offsetErr k ek tag) :: s.out }) := by
  obtain ⟨h, hst⟩ := h
  refine ⟨?_, (handleOffsetError_keeps0 cfg _ _).2.1.trans hst⟩
  unfold handleOffsetError
  apply offsetErrorTail_pq
  cases c <;> qg_leaf h

theorem ev_offsetFetchOk_q (k : Nat) (off : Int) (c : Bool) (s : St) (h : QS s) (hreq : s.requestD = .pending k .offsetFetch c) :
    QS (handleOffsetResponse cfg true off { s with out := .ev (.offsetFetchOk k off) :: s.out }) := by
  obtain ⟨h, hst⟩ := h
  unfold handleOffsetResponse
  refine ⟨?_, (offsetResponseTail_stopping cfg _ _ _).trans hst⟩
  apply offsetResponseTail_q cfg
  cases c <;> qg_leaf h

theorem ev_offsetFetchErr_q (k : Nat) (ek : ErrKind) (tag : Nat) (c : Bool) (s : St) (h : QS s)
    (hreq : s.requestD = .pending k .offsetFetch c) :
    QS (handleOffsetError cfg (.ext ek tag) { s with out := .ev (.offsetFetchErr k ek tag) :: s.out }) := by
  obtain ⟨h, hst⟩ := h
  refine ⟨?_, (handleOffsetError_keeps0 cfg _ _).2.1.trans hst⟩
  unfold handleOffsetError
  apply offsetErrorTail_pq
  cases c <;> qg_leaf h

theorem ev_retryFire_q (due : Rat) (s : St) (h : QS s) (hdue : s.retryCall = .pending due) :
    QS (doFetch cfg { s with out := .ev .retryFire :: s.out, retryCall := .dead }) := by
  obtain ⟨h, hst⟩ := h
  refine ⟨?_, (doFetch_frame cfg _).2.1.trans hst⟩
  apply doFetch_q cfg
  · qg_leaf h
  · exact h.retryRun (by simp [hdue, retryPending])

theorem ev_commitRetryFire_q (d dl : Rat) (a : Nat) (s : St) (h : QS s) (hcc : s.commitCall = .pending d dl a) :
    QS (sendCommitRequest cfg (some dl) (some a) { s with out := .ev .commitRetryFire :: s.out, commitCall := .dead }) := by
  obtain ⟨h, hst⟩ := h
  have hds : s.commitDs ≠ [] := fun e => by have := (h.ds hst e).2; simp [hcc, commitPending] at this
  have hl : Live { s with out := .ev .commitRetryFire :: s.out, commitCall := .dead } := by
    have := h.cm (Or.inr (by simp [hcc, commitPending]))
    unfold Live; simpa [runR_cons, C13.qStep] using this
  have hcr : s.commitReq = none := by
    cases hq : s.commitReq with
    | none => rfl
    | some r => have := h.alt (by simp [hq]); simp [hcc, commitPending] at this
  exact ⟨sendCommitRequest_q cfg _ _ 0 _ (by qg_leaf h) hl rfl hds hcr (h.lp hds), (sendCommitRequest_keeps cfg _ _ _).2.1.trans hst⟩

section
variable {inner : Ops} (hin : OpsQ inner) (hs : OpsS inner) (hc : OpsPN Calm inner)
include hs

theorem ev_commitOk_q (r : CommitReq) (s : St) (h : QS s) (hr : s.commitReq = some r) :
    QS (deliver cfg inner (.ok (some r.off))
      { s with out := .ev (.commitOk r.k) :: s.out, commitReq := none, lastCommitted := some r.off }) := by
  obtain ⟨h, hst⟩ := h
  have hcp := h.alt (by simp [hr])
  exact deliver_q hs _ _ (by qg_leaf h) hst rfl hcp

theorem ev_commitErr_q (r : CommitReq) (ek : ErrKind) (tag : Nat) (s : St) (h : QS s) (hr : s.commitReq = some r) :
    QS (handleCommitError cfg inner (.ext ek tag) r.delay r.attempt
      { s with out := .ev (.commitErr r.k ek tag) :: s.out, commitReq := none }) := by
  obtain ⟨h, hst⟩ := h
  have hcp := h.alt (by simp [hr])
  have hds : s.commitDs ≠ [] := fun e => by have := (h.ds hst e).1; simp [hr] at this
  have hl : Live { s with out := .ev (.commitErr r.k ek tag) :: s.out, commitReq := none } := by
    have := h.cm (Or.inl (by simp [hr]))
    unfold Live; simpa [runR_cons, C13.qStep] using this
  exact handleCommitError_run_q hs _ _ _ _ (by qg_leaf h) hst rfl hcp hl hds

include hin hc

theorem ev_proc_q (g : Gen) (r : Option Fail) (e : Ev) (he : e = .procOk ∨ ∃ ek tag, e = .procErr ek tag) (s : St) (h : QS s)
    (hp : s.proc = some g) : QS (procResult cfg inner g r { s with out := .ev e :: s.out }) := by
  obtain ⟨h, hst⟩ := h
  have h0 : QG (gShut (some g)) { s with out := .ev e :: s.out, proc := none } := by
    rcases he with rfl | ⟨ek, tag, rfl⟩ <;> qg_leaf h
  exact procResult_run_q hin hs hc g r _ h0 hst (h.procRun (by simp [hp])) (h.procBlock (by simp [hp]))

end

theorem stepCore_q (n : Nat) (hd : cfg.depth = n + 2) (e : Ev) (s s' : St) (h : QS s)
    (he : stepCore cfg { s with out := .ev e :: s.out } e = some s') : QS s' := by
  have hin : OpsQ (opsN cfg cfg.depth) := by rw [hd]; exact opsN_q cfg n
  have hs : OpsS (opsN cfg cfg.depth) := by rw [hd]; exact opsN_s cfg (n + 1)
  have hc : OpsPN Calm (opsN cfg cfg.depth) := opsN_calm cfg cfg.depth
  cases e with
  | start off =>
    simp only [stepCore] at he
    simp only [Option.some.injEq] at he; subst he; exact ev_start_q off s h
  | stop =>
    simp only [stepCore] at he
    simp only [Option.some.injEq] at he; subst he
    exact (stop_q (cfg := cfg) (inner := opsN cfg cfg.depth) _ (ev_simple_q .stop s h (by simp))).1
  | shutdown =>
    simp only [stepCore] at he
    simp only [Option.some.injEq] at he; subst he
    exact (shutdown_q (cfg := cfg) hs _ (ev_simple_q .shutdown s h (by simp))).1
  | commit =>
    simp only [stepCore] at he
    simp only [Option.some.injEq] at he; subst he
    exact ev_commit_q s h
  | fetchOk k r =>
    simp only [stepCore] at he
    split at he
    · rename_i hreq
      simp only [Option.some.injEq] at he; subst he
      rcases (by simpa using hreq : s.requestD = .pending k .fetch false ∨ s.requestD = .pending k .fetch true) with h' | h'
      · exact ev_fetchOk_q hin hc k r _ s h h'
      · exact ev_fetchOk_q hin hc k r _ s h h'
    · cases he
  | fetchErr k ek tag =>
    simp only [stepCore] at he
    split at he
    · rename_i hreq
      simp only [Option.some.injEq] at he; subst he
      rcases (by simpa using hreq : s.requestD = .pending k .fetch false ∨ s.requestD = .pending k .fetch true) with h' | h'
      · exact ev_fetchErr_q k ek tag _ s h h'
      · exact ev_fetchErr_q k ek tag _ s h h'
    · cases he
  | offsetOk k off =>
    simp only [stepCore] at he
    split at he
    · rename_i hreq
      simp only [Option.some.injEq] at he; subst he
      rcases (by simpa using hreq : s.requestD = .pending k .offsets false ∨ s.requestD = .pending k .offsets true) with h' | h'
      · exact ev_offsetOk_q k off _ s h h'
      · exact ev_offsetOk_q k off _ s h h'
    · cases he
  | offsetErr k ek tag =>
    simp only [stepCore] at he
    split at he
    · rename_i hreq
      simp only [Option.some.injEq] at he; subst he
      rcases (by simpa using hreq : s.requestD = .pending k .offsets false ∨ s.requestD = .pending k .offsets true) with h' | h'
      · exact ev_offsetErr_q k ek tag _ s h h'
      · exact ev_offsetErr_q k ek tag _ s h h'
    · cases he
  | offsetFetchOk k off =>
    simp only [stepCore] at he
    split at he
    · rename_i hreq
      simp only [Option.some.injEq] at he; subst he
      rcases (by simpa using hreq : s.requestD = .pending k .offsetFetch false ∨ s.requestD = .pending k .offsetFetch true) with h' | h'
      · exact ev_offsetFetchOk_q k off _ s h h'
      · exact ev_offsetFetchOk_q k off _ s h h'
    · cases he
  | offsetFetchErr k ek tag =>
    simp only [stepCore] at he
    split at he
    · rename_i hreq
      simp only [Option.some.injEq] at he; subst he
      rcases (by simpa using hreq : s.requestD = .pending k .offsetFetch false ∨ s.requestD = .pending k .offsetFetch true) with h' | h'
      · exact ev_offsetFetchErr_q k ek tag _ s h h'
      · exact ev_offsetFetchErr_q k ek tag _ s h h'
    · cases he
  | commitOk k =>
    simp only [stepCore] at he
    split at he
    · rename_i r hr
      have hr' : s.commitReq = some r := hr
      split at he
      · rename_i hk
        have hk' : r.k = k := by simpa using hk
        simp only [Option.some.injEq] at he; subst he; subst hk'
        exact ev_commitOk_q hs r s h hr'
      · cases he
    · cases he
  | commitErr k ek tag =>
    simp only [stepCore] at he
    split at he
    · rename_i r hr
      have hr' : s.commitReq = some r := hr
      split at he
      · rename_i hk
        have hk' : r.k = k := by simpa using hk
        simp only [Option.some.injEq] at he; subst he; subst hk'
        exact ev_commitErr_q hs r ek tag s h hr'
      · cases he
    · cases he
  | procOk =>
    simp only [stepCore] at he
    split at he
    · rename_i g hp
      simp only [Option.some.injEq] at he; subst he
      exact ev_proc_q hin hs hc g none .procOk (Or.inl rfl) s h hp
    · cases he
  | procErr ek tag =>
    simp only [stepCore] at he
    split at he
    · rename_i g hp
      simp only [Option.some.injEq] at he; subst he
      exact ev_proc_q hin hs hc g _ (.procErr ek tag) (Or.inr ⟨_, _, rfl⟩) s h hp
    · cases he
  | retryFire =>
    simp only [stepCore] at he
    split at he
    · rename_i due hdue
      split at he
      · simp only [Option.some.injEq] at he; subst he
        exact ev_retryFire_q due s h hdue
      · cases he
    · cases he
  | commitRetryFire =>
    simp only [stepCore] at he
    split at he
    · rename_i d dl a hcc
      split at he
      · simp only [Option.some.injEq] at he; subst he
        exact ev_commitRetryFire_q d dl a s h hcc
      · cases he
    · cases he
  | autoCommitTick =>
    simp only [stepCore] at he
    split at he
    · rename_i l hl
      have hl' : s.looper = some l := hl
      split at he
      · rename_i due hdue
        split at he
        · have key := ev_tick_q (cfg := cfg) l s h hl' _ rfl
          split at he
          · rename_i l' hl1
            simp only [Option.some.injEq] at he; subst he
            simp only [hl1] at key
            exact key
          · rename_i hl1
            simp only [Option.some.injEq] at he; subst he
            simp only [hl1] at key
            exact key
        · cases he
      · cases he
    · cases he
  | advance dt =>
    simp only [stepCore] at he
    split at he
    · cases he
    · simp only [Option.some.injEq] at he; subst he
      exact ev_advance_q dt s h
  | env rq cm =>
    simp only [stepCore] at he
    simp only [Option.some.injEq] at he; subst he
    exact ev_env_q rq cm s h

theorem step_q (n : Nat) (hd : cfg.depth = n + 2) (e : Ev) (s : St) (h : QS s) : QS (step cfg s e) := by
  unfold step
  split
  · exact ⟨by obtain ⟨h, _⟩ := h; qg_leaf h, h.2⟩
  · split
    · exact ⟨by obtain ⟨h, _⟩ := h; qg_leaf h, h.2⟩
    · rename_i s' he
      have h' := stepCore_q n hd e s s' h he
      split
      · exact h'
      · unfold probe; exact ⟨by obtain ⟨h', _⟩ := h'; qg_leaf h', h'.2⟩

theorem init_q (script : List PEntry) : QS (init cfg script) := by
  refine ⟨?_, rfl⟩
  constructor <;> simp [init, activeReq, retryPending, commitPending, looperDue, commitK, nShut, gShut]

theorem run_q (n : Nat) (hd : cfg.depth = n + 2) (script : List PEntry) (evs : List Ev) : QS (run cfg script evs) := by
  unfold run
  have : ∀ (l : List Ev) (s : St), QS s → QS (l.foldl (step cfg) s) := by
    intro l
    induction l with
    | nil => intro s h; exact h
    | cons e l ih => intro s h; exact ih _ (step_q n hd e s h)
  exact this evs _ (init_q script)

/-- no `crash` observation so far ⇒ the no-crash monitor accepts the trace -/
theorem noCrash_of (l : List Item) (h : ∀ site, Item.ob (.crash site) ∉ l) : C13.noCrashOk l.reverse = true := by
  unfold C13.noCrashOk
  rw [List.all_eq_true]
  intro x hx
  have hx' : x ∈ l := by simpa using hx
  split
  · rename_i site
    exact absurd hx' (h site)
  · rfl

end

end Afkak.Proofs.Consumer.BN
