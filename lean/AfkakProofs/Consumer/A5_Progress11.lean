import AfkakProofs.Consumer.A5_Progress10
/-!
# C02, liveness half (11): `c02_never_stuck_partial` - no reachable running state is stuck, for every configuration,
processor script and event list in which no fetch reply's iteration raises
-/
namespace Afkak.Proofs.Consumer.L
open Afkak.Consumer Afkak.Proofs.Consumer

theorem step_k (cfg : Cfg) (s : St) (e : Ev) (hk : K s) (hrr : ∀ due, s.retryCall = .pending due → s.startD ≠ .none) :
    K (step cfg s e) := by
  unfold step
  split
  · exact K.of_cm hk (by cm_close)
  · split
    · exact K.of_cm hk (by cm_close)
    · rename_i s' h
      have hk0 : K { s with out := .ev e :: s.out } := K.of_cm hk (by cm_close)
      have h1 : K s' := stepCore_k cfg _ s' e hk0 hrr h
      split
      · exact h1
      · exact K.of_cm h1 (by unfold probe; cm_close)

/-- a stopped consumer is clean, in every reachable state -/
theorem run_k (cfg : Cfg) (script : List PEntry) (evs : List Ev) : K (run cfg script evs) := by
  induction evs using List.reverseRecOn with
  | nil => intro _; exact ⟨rfl, rfl⟩
  | append_singleton es e ih =>
    have : run cfg script (es ++ [e]) = step cfg (run cfg script es) e := by
      unfold run; rw [List.foldl_append]; rfl
    rw [this]
    exact step_k cfg _ e ih (fun due hd => (run_sf cfg script es).retryRun (by rw [hd]; rfl))

/-- every `start()` is a clean start -/
theorem cleanStarts_all (cfg : Cfg) (script : List PEntry) (evs : List Ev) : CleanStarts cfg script evs := by
  intro n off _ hs
  obtain ⟨h1, h2⟩ := run_k cfg script (evs.take n) hs
  refine ⟨h1, h2, ?_⟩
  cases hp : (run cfg script (evs.take n)).parked with
  | none => rfl
  | some r =>
    have := (run_sf cfg script (evs.take n)).parkedBlock (by rw [hp]; rfl)
    rw [h2] at this; cases this

/-- **A running consumer is never stuck** - partial: for every configuration, processor script and event list in which
    no fetch reply's iteration raises (`noRaiseEv`: ConsumerFetchSizeTooSmall, which the consumer handles, is allowed).
    In every reachable running state the environment owes the consumer an event that it accepts: the reply to the
    outstanding fetch/offset request, the refetch timer, or the processor's result (`enabled_fetch`, `enabled_offsets`,
    `enabled_offsetFetch`, `enabled_timer`, `enabled_proc`). -/
theorem c02_never_stuck_partial (cfg : Cfg) (script : List PEntry) (evs : List Ev) (hn : evs.all noRaiseEv = true) :
    Running (run cfg script evs) = true → Enabled (run cfg script evs) = true := by
  have h := run_live cfg script evs
    (fun n hlt => okEv_of_noRaise _ _ (List.all_eq_true.1 hn _ (List.getElem_mem hlt))) (cleanStarts_all cfg script evs) evs.length
  rw [List.take_length] at h
  exact h.enabled

/-- the sharper hypothesis as a computation on the run: no fetch reply whose iteration raises is applied while a block of
    messages is in progress -/
def noRaiseParkedB (cfg : Cfg) (script : List PEntry) (evs : List Ev) : Bool :=
  (List.range evs.length).all fun n =>
    match evs[n]? with
    | some e => okEv (run cfg script (evs.take n)) e
    | none => true

/-- **A running consumer is never stuck** - sharp form: the ONLY way to get stuck is a fetch reply whose iteration raises
    arriving while the processor's result is pending (so that it is parked behind `_msg_block_d`).  Replies that raise at any
    other time are fine (the exception reaches `_handle_fetch_error`, which schedules the retry or reports). -/
theorem c02_never_stuck_sharp (cfg : Cfg) (script : List PEntry) (evs : List Ev) (hn : noRaiseParkedB cfg script evs = true) :
    Running (run cfg script evs) = true → Enabled (run cfg script evs) = true := by
  have h := run_live cfg script evs (fun n hlt => by
    simp only [noRaiseParkedB, List.all_eq_true, List.mem_range] at hn
    have := hn n hlt
    rw [List.getElem?_eq_getElem hlt] at this
    exact this) (cleanStarts_all cfg script evs) evs.length
  rw [List.take_length] at h
  exact h.enabled

/-! Non-vacuity of the sharp form: a reply that raises while nothing is in processing is allowed (the retry is
scheduled); the counterexample's run is excluded. -/
example :
    let evs : List Ev := [.start 0, .fetchOk 0 { msgs := [⟨0, 1⟩], tail := .raise .other 7 }]
    noRaiseParkedB cexCfg [] evs = true ∧ evs.all noRaiseEv = false ∧ Running (run cexCfg [] evs) = true ∧
      (run cexCfg [] evs).retryCall = .pending 1 := by
  decide +kernel
example : noRaiseParkedB cexCfg [{ acts := [], res := .defer }] cexEvs = false := by decide +kernel

/-! Non-vacuity: an event list without raising replies (a too-small reply, a compaction gap, a processor Deferred, a
parked reply, a fetch failure) that ends in a running state - which is enabled. -/
example :
    let cfg : Cfg := { group := false, autoN := 0, autoS := 0, bufInit := 100, bufMax := none, retryInit := 1, retryMax := 2,
                       maxAttempts := 0, reset := none }
    let script : List PEntry := [{ acts := [], res := .defer }]
    let evs : List Ev := [.start 0, .fetchOk 0 { msgs := [⟨0, 1⟩], tail := .small }, .retryFire,
      .fetchOk 1 { msgs := [⟨1, 2⟩, ⟨4, 3⟩], tail := .done }, .fetchErr 7 .kafka 1, .procOk, .retryFire, .fetchErr 2 .kafka 3]
    evs.all noRaiseEv = true ∧ Running (run cfg script evs) = true ∧ Enabled (run cfg script evs) = true := by
  decide +kernel

/-- the counterexample's event list is excluded by the hypothesis -/
example : cexEvs.all noRaiseEv = false := by decide

end Afkak.Proofs.Consumer.L
