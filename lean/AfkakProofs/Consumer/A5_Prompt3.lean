import AfkakProofs.Consumer.A5_Prompt2
/-!
# C02 prompt delivery (3): the processing loop, fetch replies, the end of `_process_messages`
-/
namespace Afkak.Proofs.Consumer.P
open Afkak.Consumer Afkak.Monitor Afkak.Consts Afkak.Proofs.Consumer

/-- the premises under which the monitor's `parked` note obliges the consumer -/
def Obl (s : St) (po : Int) : Prop :=
  s.crashed = false ∧ (pm s).parked = some po ∧ (pm s).running = true ∧ (pm s).shut = false ∧ (pm s).halted = false ∧
    s.stopping = false ∧ s.startD ≠ .none

theorem Hp.closeP {a b c wP : Prop} {s : St} (h : Hp a b c wP s) (hc : wP → ∀ po, Obl s po → False) :
    Hp a b c False s :=
  ⟨h.bad, h.pk, h.pkb, h.parkRun, h.run, h.runW, h.shut, h.pend, h.stp, h.procRun, h.blockRun, h.blk, h.reqRun, h.req,
    fun c po a1 a2 a3 a4 a5 a6 => by
      rcases h.park c po a1 a2 a3 a4 a5 a6 with w | w
      · exact (hc w po ⟨c, a1, a2, a3, a4, a5, a6⟩).elim
      · exact Or.inr w⟩

theorem Hp.closeB {a b wB d : Prop} {s : St} (h : Hp a b wB d s)
    (hc : wB → s.crashed = false → s.msgBlock = true → s.frame.isSome = true ∨ s.proc.isSome = true ∨ (pm s).halted = true) :
    Hp a b False d s :=
  ⟨h.bad, h.pk, h.pkb, h.parkRun, h.run, h.runW, h.shut, h.pend, h.stp, h.procRun, h.blockRun,
    fun c m => by
      rcases h.blk c m with w | w
      · exact Or.inr (hc w c m)
      · exact Or.inr w, h.reqRun, h.req, h.park⟩

/-! ### lists -/

theorem blockSize_pos (cfg : Cfg) (n : Nat) (hn : 0 < n) : 0 < blockSize cfg n := by
  unfold blockSize
  split
  · rename_i h
    have : cfg.autoN ≠ 0 := by simpa using h
    omega
  · exact hn

theorem take_blockSize_head (cfg : Cfg) (rest : List Msg) (x : Msg) (h : rest.head? = some x) :
    x ∈ rest.take (blockSize cfg rest.length) := by
  cases rest with
  | nil => cases h
  | cons y ys =>
    simp only [List.head?_cons, Option.some.injEq] at h
    subst h
    have hp := blockSize_pos cfg (y :: ys).length (by simp)
    obtain ⟨m, hm⟩ : ∃ m, blockSize cfg (y :: ys).length = m + 1 := ⟨blockSize cfg (y :: ys).length - 1, by omega⟩
    rw [hm]
    simp

theorem take_blockSize_last (cfg : Cfg) (rest : List Msg) (h : rest.isEmpty = false) :
    (rest.take (blockSize cfg rest.length)).getLast? ≠ none := by
  cases rest with
  | nil => cases h
  | cons y ys =>
    have hp := blockSize_pos cfg (y :: ys).length (by simp)
    obtain ⟨m, hm⟩ : ∃ m, blockSize cfg (y :: ys).length = m + 1 := ⟨blockSize cfg (y :: ys).length - 1, by omega⟩
    rw [hm]
    simp [List.getLast?_eq_none_iff]

theorem extract_head : ∀ (ms : List Msg) (fo : Int),
    (extract fo ms).1.head? = (ms.filter (fun x => decide (fo ≤ x.off))).head? := by
  intro ms
  induction ms with
  | nil => intro fo; rfl
  | cons m ms ih =>
    intro fo
    unfold extract
    by_cases h : m.off < fo
    · rw [if_pos h, ih fo]
      have : decide (fo ≤ m.off) = false := by simp; omega
      simp [List.filter_cons, this]
    · rw [if_neg h]
      have : decide (fo ≤ m.off) = true := by simp; omega
      simp [List.filter_cons, this]

theorem headFrom_extract (fo : Int) (ms : List Msg) (po : Int) (h : headFrom fo ms = some po) :
    ∃ x, (extract fo ms).1.head? = some x ∧ po ≤ x.off := by
  unfold headFrom at h
  rw [← extract_head] at h
  cases hh : (extract fo ms).1.head? with
  | none => rw [hh] at h; cases h
  | some x =>
    rw [hh] at h
    simp only [Option.map_some, Option.some.injEq] at h
    exact ⟨x, rfl, by omega⟩

/-! ### what the leaf handlers inside the loop do not touch -/

theorem startErrback_pm (f : Fail) (s : St) : pm (startErrback f s) = pm s ∧ (startErrback f s).stopping = s.stopping ∧
    (startErrback f s).shuttingDown = s.shuttingDown ∧ (startErrback f s).fetchOffset = s.fetchOffset ∧
    (startErrback f s).parked = s.parked ∧ ((startErrback f s).startD ≠ .none ↔ s.startD ≠ .none) ∧
    (startErrback f s).requestD = s.requestD ∧ (startErrback f s).msgBlock = s.msgBlock ∧ (startErrback f s).proc = s.proc := by
  unfold startErrback
  split
  · rename_i h
    simp [pm, emit, C02.prStep, h]
  · simp

theorem handleProcessorError_pm (f : Fail) (s : St) : pm (handleProcessorError f s) = pm s := by
  unfold handleProcessorError
  split
  · rfl
  · exact (startErrback_pm f s).1

section
variable {cfg : Cfg} {inner : Ops} (hin : OpsP inner)

theorem procEnter_p {wP : Prop} {s : St} (hs : Hp False False True wP s) (blk rest' : List Msg) (last : Int)
    (hP : wP → ∀ po, Obl s po → blk.any (fun x => decide (po ≤ x.off)) = true) :
    Hp0 (procEnter blk rest' last s) ∧ LFr s (procEnter blk rest' last s) ∧ (pm (procEnter blk rest' last s)).expect = false := by
  unfold Obl at hP
  unfold procEnter
  refine ⟨?_, ⟨?_, ?_, ?_, ?_, ?_⟩, ?_⟩
  · hp_fields hs
  all_goals (simp only [pm, emit] at * <;> pr_norm <;> grind [C02.prStep, runR_cons])

theorem procLeave_p {s : St} (hs : Hp0 s) (res : PRes) (rest' : List Msg) (last : Int) :
    Hp False False True False (procLeave res rest' last s) ∧ LFr s (procLeave res rest' last s) ∧
      (∀ k t, res = .err k t → (pm (procLeave res rest' last s)).halted = true) := by
  unfold procLeave
  cases res with
  | ok =>
    dsimp only
    refine ⟨by hp_fields hs, ⟨?_, ?_, ?_, ?_, ?_⟩, fun k t h => by cases h⟩
    all_goals (simp only [pm, emit] at * <;> pr_norm <;> grind [C02.prStep, runR_cons])
  | err k t =>
    dsimp only
    refine ⟨by hp_fields hs, ⟨?_, ?_, ?_, ?_, ?_⟩, fun k t h => ?_⟩
    all_goals (simp only [pm, emit] at * <;> pr_norm <;> grind [C02.prStep, runR_cons])
  | defer =>
    dsimp only
    split
    · refine ⟨by hp_fields hs, ⟨?_, ?_, ?_, ?_, ?_⟩, fun k t h => by cases h⟩
      all_goals (simp only [pm, emit] at * <;> pr_norm <;> grind [C02.prStep, runR_cons])
    · rename_i hc
      have hc1 : s.stopping = false := by
        cases h : s.stopping <;> simp [h] at hc ⊢
      have hc2 : s.startD ≠ .none := by
        intro h; simp [h] at hc
      refine ⟨by hp_fields hs, ⟨?_, ?_, ?_, ?_, ?_⟩, fun k t h => by cases h⟩
      all_goals (simp only [pm, emit] at * <;> pr_norm <;> grind [C02.prStep, runR_cons])

/-- what the loop returns: the relaxed invariant; a loop abandoned after a processor failure leaves the monitor halted -/
def LoopPost (s0 : St) (r : St × Bool) : Prop :=
  LRel False False True False s0 r.1 ∧ (r.2 = false → (pm r.1).halted = true)

include hin in
theorem procBody_p (k : St → St × Bool)
    (hk : ∀ b s', LRel False False True False b s' → LoopPost b (k s'))
    (blk rest' : List Msg) (last : Int) (e : PEntry) {wP : Prop} {s0 s : St} (h : LRel False False True wP s0 s)
    (hP : wP → ∀ po, Obl s po → blk.any (fun x => decide (po ≤ x.off)) = true) :
    LoopPost s0 (procBody cfg inner k blk rest' last e s) ∧ (pm (procBody cfg inner k blk rest' last e s).1).expect = false := by
  obtain ⟨g1, l1, x1⟩ := procEnter_p h.1 blk rest' last hP
  have g2 : HRel0 (procEnter blk rest' last s) (procActs inner e.acts (procEnter blk rest' last s)) :=
    acts_p hin e.acts (HRel.refl g1)
  obtain ⟨g3, l3, h3⟩ := procLeave_p g2.1 e.res rest' last
  have r3 : LRel False False True False (procEnter blk rest' last s)
      (procLeave e.res rest' last (procActs inner e.acts (procEnter blk rest' last s))) := ⟨g3, g2.2.l.trans l3⟩
  suffices hmain : LoopPost (procEnter blk rest' last s) (procBody cfg inner k blk rest' last e s) by
    exact ⟨⟨⟨hmain.1.1, (h.2.trans l1).trans hmain.1.2⟩, hmain.2⟩, hmain.1.2.exp x1⟩
  unfold procBody
  simp only []
  generalize procLeave e.res rest' last (procActs inner e.acts (procEnter blk rest' last s)) = s3 at *
  generalize procEnter blk rest' last s = e1 at *
  clear g2
  cases hres : e.res with
  | ok =>
    simp only []
    have r4 := (autoCommit_p cfg False False True False true).stepL r3
    split
    · exact ⟨r4, fun h => by cases h⟩
    · exact hk _ _ r4
  | err kd t =>
    simp only []
    have r4 := (handleProcessorError_p False False True False (.ext kd t)).stepL r3
    have hh : (pm (handleProcessorError (.ext kd t) s3)).halted = true := by
      rw [handleProcessorError_pm]; exact h3 kd t hres
    split
    · exact ⟨r4, fun h => by cases h⟩
    · split
      · exact ⟨r4, fun _ => hh⟩
      · exact hk _ _ r4
  | defer =>
    simp only []
    split
    · exact ⟨r3, fun h => by cases h⟩
    · exact ⟨(handleProcessorError_p False False True False _).stepL r3, fun h => by cases h⟩

include hin in
theorem procLoop_p : ∀ (fuel : Nat) (rest : List Msg) {wP : Prop} {s0 s : St}, LRel False False True wP s0 s →
    (wP → fuel ≠ 0) → (wP → ∀ po, Obl s po → ∃ x, rest.head? = some x ∧ po ≤ x.off) →
    LoopPost s0 (procLoop cfg inner fuel rest s) ∧
      (fuel ≠ 0 → rest.isEmpty = false → s.shuttingDown = false → s.stopping = false →
        (pm (procLoop cfg inner fuel rest s).1).expect = false) := by
  intro fuel
  induction fuel with
  | zero =>
    intro rest wP s0 s h hf _
    exact ⟨⟨⟨h.1.closeP (fun w => (hf w rfl).elim), h.2⟩, fun h => by cases h⟩, fun h => (h rfl).elim⟩
  | succ n ih =>
    intro rest wP s0 s h _ hP
    unfold procLoop
    split
    · rename_i hc
      refine ⟨⟨⟨h.1.closeP (fun w po ho => ?_), h.2⟩, fun h => by cases h⟩, fun _ h1 h2 h3 => ?_⟩
      · obtain ⟨x, hx, _⟩ := hP w po ho
        obtain ⟨c, _, _, o3, _, o5, _⟩ := ho
        have hne : rest.isEmpty = false := by cases rest <;> simp_all
        have hsd : s.shuttingDown = false := h.1.shut c o3
        have hst : s.stopping = false := o5
        simp [hne, hsd, hst] at hc
      · simp [h1, h2, h3] at hc
    · rename_i hc
      have hne : rest.isEmpty = false := by
        cases hr : rest.isEmpty <;> simp [hr] at hc ⊢
      split
      · rename_i hl
        exact absurd hl (take_blockSize_last cfg rest hne)
      · rename_i lastMsg hl
        have hb := procBody_p (cfg := cfg) hin (procLoop cfg inner n (rest.drop (blockSize cfg rest.length)))
          (fun b s' h' => (ih (rest.drop (blockSize cfg rest.length)) (wP := False) h' (fun w => w.elim) (fun w => w.elim)).1)
          (rest.take (blockSize cfg rest.length)) (rest.drop (blockSize cfg rest.length)) lastMsg.off
          (s.script.head?.getD { acts := [], res := .ok }) h
          (fun w po ho => by
            obtain ⟨x, hx, hle⟩ := hP w po ho
            exact List.any_eq_true.mpr ⟨x, take_blockSize_head cfg rest x hx, by simpa using hle⟩)
        exact ⟨hb.1, fun _ _ _ _ => hb.2⟩

include hin in
/-- Hand the extracted messages to `_process_messages`. -/
theorem deliverBlock_p (msgs : List Msg) {wP : Prop} {s : St} (hs : Hp False False False wP s) (hpk : s.parked = none)
    (hrun : s.startD ≠ .none) (hP : wP → ∀ po, Obl s po → ∃ x, msgs.head? = some x ∧ po ≤ x.off) :
    LRel False False False False s (deliverBlock cfg inner msgs s) ∧
      (msgs.isEmpty = false → s.shuttingDown = false → s.stopping = false → (pm (deliverBlock cfg inner msgs s)).expect = false) := by
  unfold deliverBlock
  split
  · rename_i he
    refine ⟨⟨hs.closeP (fun w po ho => ?_), LFr.refl s⟩, fun h => by rw [he] at h; cases h⟩
    obtain ⟨x, hx, _⟩ := hP w po ho
    cases msgs <;> simp_all
  · rename_i he
    have he' : msgs.isEmpty = false := by simpa using he
    simp only []
    have h1 : LRel False False True wP s { s with msgBlock := true } := by
      refine ⟨?_, ⟨?_, ?_, ?_, ?_, ?_⟩⟩
      · hp_fields hs
      all_goals exact id
    have hP' : wP → ∀ po, Obl { s with msgBlock := true } po → ∃ x, msgs.head? = some x ∧ po ≤ x.off := hP
    have h2 := procLoop_p (cfg := cfg) hin (msgs.length + 1) msgs h1 (fun _ => by omega) hP'
    generalize (procLoop cfg inner (msgs.length + 1) msgs { s with msgBlock := true }) = res at *
    obtain ⟨s2, done⟩ := res
    obtain ⟨⟨⟨g2, l2⟩, hh⟩, hx⟩ := h2
    simp only [] at *
    have hexp : s.shuttingDown = false → s.stopping = false → (pm s2).expect = false :=
      fun a b => hx (by omega) he' a b
    split
    · rename_i hc
      refine ⟨⟨g2.closeB (fun _ c m => ?_), l2⟩, fun _ a b => hexp a b⟩
      rcases (by simpa using hc : s2.proc.isSome = true ∨ done = false) with h | h
      · exact Or.inr (Or.inl h)
      · exact Or.inr (Or.inr (hh h))
    · unfold finishSimple
      split
      · have hpk2 : s2.parked = none := l2.pkd hpk
        refine ⟨⟨?_, ⟨?_, ?_, ?_, ?_, ?_⟩⟩, fun _ a b => ?_⟩
        · hp_fields g2
        · exact l2.exp
        · exact l2.stop
        · intro _; rfl
        · exact l2.mpk
        · exact l2.cr
        · exact hexp a b
      · rename_i hmb
        refine ⟨⟨g2.closeB (fun _ c m => absurd m hmb), l2⟩, fun _ a b => hexp a b⟩

end

section
variable {cfg : Cfg} {wR wS wB wP : Prop}

theorem handleFetchError_p (f : Fail) {s0 s : St} (hx : HRel wR wS wB wP s0 s) (hpk : s.parked = none) :
    HRel wR wS wB wP s0 (handleFetchError cfg f s) := by
  unfold handleFetchError fetchErrorTail
  simp only []
  have hb : HRel wR wS wB wP s0 { s with requestD := .none } := by pleaf hx
  split
  · exact hb
  · split
    · exact (startErrback_p wR wS wB wP f).step hb
    · have hm : HRel wR wS wB wP s0 (if f.isOutOfRange then { ({ s with requestD := .none } : St) with fetchOffset := cfg.reset.getD s.fetchOffset } else { s with requestD := .none }) := by
        split
        · pleaf hx
        · exact hb
      generalize (if f.isOutOfRange then { ({ s with requestD := .none } : St) with fetchOffset := cfg.reset.getD s.fetchOffset } else { s with requestD := .none }) = s1 at *
      repeat' split
      all_goals first
        | exact hm
        | exact (startErrback_p wR wS wB wP f).step hm
        | exact (retryFetch_p cfg wR wS wB wP none).step hm

theorem handleOffsetError_p (f : Fail) {s0 s : St} (hx : HRel wR wS wB wP s0 s) (hpk : s.parked = none) :
    HRel wR wS wB wP s0 (handleOffsetError cfg f s) := by
  unfold handleOffsetError offsetErrorTail
  have hb : HRel wR wS wB wP s0 { s with requestD := .none } := by pleaf hx
  repeat' split
  all_goals first
    | exact hb
    | exact (startErrback_p wR wS wB wP f).step hb
    | exact (retryFetch_p cfg wR wS wB wP none).step hb

end
end Afkak.Proofs.Consumer.P
