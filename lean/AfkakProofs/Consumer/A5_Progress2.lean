import AfkakProofs.Consumer.B_C14e
/-!
# C02, liveness half (2): what one faithful fetch reply carrying the rest of the log does - lists, `extract`, `procLoop`
-/
namespace Afkak.Proofs.Consumer.L
open Afkak.Consumer Afkak.Monitor Afkak.Consts Afkak.Props.Open.C02 Afkak.Proofs.Consumer

/-- a partition log: offsets strictly increasing -/
def Ascending (l : List Msg) : Prop := l.Pairwise (fun a b => a.off < b.off)

instance (l : List Msg) : Decidable (Ascending l) := by unfold Ascending; infer_instance

/-- the log entries from `fo` on -/
def restFrom (log : List Msg) (fo : Int) : List Msg := log.filter (fun x => decide (fo ≤ x.off))

theorem restFrom_suffix : ∀ (log : List Msg) (fo : Int), Ascending log →
    ∃ pre, log = pre ++ restFrom log fo ∧ ∀ x ∈ pre, x.off < fo
  | [], _, _ => ⟨[], rfl, by simp⟩
  | x :: l, fo, h => by
    have h' := List.pairwise_cons.1 h
    by_cases hx : fo ≤ x.off
    · refine ⟨[], ?_, by simp⟩
      have : restFrom (x :: l) fo = x :: l := by
        unfold restFrom
        rw [List.filter_eq_self]
        intro y hy
        rcases List.mem_cons.1 hy with rfl | hy
        · simpa using hx
        · have := h'.1 y hy
          simp only [decide_eq_true_eq]; omega
      rw [this]; rfl
    · obtain ⟨pre, h1, h2⟩ := restFrom_suffix l fo h'.2
      refine ⟨x :: pre, ?_, ?_⟩
      · have : restFrom (x :: l) fo = restFrom l fo := by
          unfold restFrom; rw [List.filter_cons]; simp [hx]
        rw [this, List.cons_append, ← h1]
      · intro y hy
        rcases List.mem_cons.1 hy with rfl | hy
        · omega
        · exact h2 y hy

/-- in an ascending log the entries after `a` continue the log after `a` -/
theorem chain_suffix (log : List Msg) (hl : Ascending log) : ∀ (xs pre : List Msg) (a : Msg), log = pre ++ a :: xs →
    A.chainFrom log a.off xs
  | [], _, _, _ => trivial
  | b :: t, pre, a, he => by
    refine ⟨?_, chain_suffix log hl t (pre ++ [a]) b (by rw [he]; simp)⟩
    unfold Ascending at hl
    rw [he] at hl
    have h1 := List.pairwise_append.1 hl
    have h2 := List.pairwise_cons.1 h1.2.1
    have hab : a.off < b.off := h2.1 b (by simp)
    have hpre : ∀ y ∈ pre, y.off < a.off := fun y hy => h1.2.2 y hy a (by simp)
    unfold C02.succIn C02.firstFrom
    rw [he, List.filter_append]
    have e1 : pre.filter (fun m => decide (a.off + 1 ≤ m.off)) = [] := by
      rw [List.filter_eq_nil_iff]
      intro y hy
      have := hpre y hy
      simp only [decide_eq_true_eq]; omega
    rw [e1, List.nil_append, List.filter_cons]
    have e2 : ¬ a.off + 1 ≤ a.off := by omega
    simp only [e2, decide_false, Bool.false_eq_true, if_false, List.filter_cons]
    have e3 : a.off + 1 ≤ b.off := by omega
    simp [e3]

/-- the rest of an ascending log from a Kafka offset is a faithful reply to a request there -/
theorem restFrom_faithful (log : List Msg) (fo : Int) (hl : Ascending log) (h0 : 0 ≤ fo) :
    replyFaithful log fo { msgs := restFrom log fo, tail := .done } = true := by
  unfold replyFaithful
  simp only [Bool.and_eq_true, decide_eq_true_eq]
  refine ⟨⟨⟨h0, ?_⟩, ?_⟩, ?_⟩
  · rw [List.all_eq_true]
    intro m hm
    simpa using (List.mem_filter.1 hm).1
  · obtain ⟨pre, h1, _⟩ := restFrom_suffix log fo hl
    cases hr : restFrom log fo with
    | nil => rfl
    | cons a xs =>
      rw [hr] at h1
      exact (A.chainOk_cons log xs a).2 (chain_suffix log hl xs pre a h1)
  · have : (restFrom log fo).filter (fun m => decide (fo ≤ m.off)) = restFrom log fo := by
      unfold restFrom; rw [List.filter_filter]; simp
    rw [this]
    unfold C02.firstFrom restFrom
    cases (log.filter (fun x => decide (fo ≤ x.off))).head? <;> simp

/-- the message loop takes an ascending list at or above the position whole -/
theorem extract_asc : ∀ (ms : List Msg) (fo : Int), Ascending ms → (∀ x ∈ ms, fo ≤ x.off) → (extract fo ms).1 = ms
  | [], _, _, _ => rfl
  | m :: rest, fo, h, hge => by
    have h' := List.pairwise_cons.1 h
    have hm : ¬ m.off < fo := by have := hge m (by simp); omega
    have ih := extract_asc rest (m.off + 1) h'.2 (fun x hx => by have := h'.1 x hx; omega)
    simp only [extract, hm, if_false, ih]

theorem restFrom_asc (log : List Msg) (fo : Int) (hl : Ascending log) : Ascending (restFrom log fo) :=
  List.Pairwise.sublist List.filter_sublist hl

theorem extract_restFrom (log : List Msg) (fo : Int) (hl : Ascending log) : (extract fo (restFrom log fo)).1 = restFrom log fo :=
  extract_asc _ fo (restFrom_asc log fo hl) (fun x hx => by simpa using (List.mem_filter.1 hx).2)

/-! ### The processing loop with a processor that returns at once -/

/-- the processor entry "no API call, returns successfully" -/
def okEntry : PEntry := { acts := [], res := .ok }

/-- every remaining processor invocation returns successfully at once (the empty script means exactly that) -/
def okScript (s : St) : Bool := s.script.all (fun e => e == okEntry)

theorem head_ok (s : St) (h : okScript s = true) : s.script.head?.getD { acts := [], res := .ok } = okEntry := by
  unfold okScript at h
  cases hs : s.script with
  | nil => rfl
  | cons e t => rw [hs] at h; simp only [List.all_cons, Bool.and_eq_true, beq_iff_eq] at h; simp [h.1]

/-- the consumer goes on processing: started, nothing reported, not stopping, not shutting down; the processor returns at once -/
def Going (s : St) : Prop :=
  s.stopping = false ∧ s.shuttingDown = false ∧ s.startD = .pending ∧ okScript s = true

macro "sfx" : tactic => `(tactic|
  first | exact ⟨[], rfl⟩ | exact ⟨[_], rfl⟩ | exact ⟨[_, _], rfl⟩ | exact ⟨[_, _, _], rfl⟩)

/-- `s'` differs from `s` in nothing the fetch/processing machinery looks at; observations were only added -/
def Same (s s' : St) : Prop :=
  s'.stopping = s.stopping ∧ s'.shuttingDown = s.shuttingDown ∧ s'.startD = s.startD ∧ s'.script = s.script ∧
    s'.proc = s.proc ∧ s'.msgBlock = s.msgBlock ∧ s'.retryCall = s.retryCall ∧ s'.requestD = s.requestD ∧
    s'.fetchOffset = s.fetchOffset ∧ s'.parked = s.parked ∧ s'.now = s.now ∧ s'.bufferSize = s.bufferSize ∧
    s.out <:+ s'.out

theorem Same.refl (s : St) : Same s s := ⟨rfl, rfl, rfl, rfl, rfl, rfl, rfl, rfl, rfl, rfl, rfl, rfl, List.suffix_refl _⟩
theorem Same.trans {a b c : St} (h1 : Same a b) (h2 : Same b c) : Same a c := by
  obtain ⟨a1, a2, a3, a4, a5, a6, a7, a8, a9, a10, a11, a12, a13⟩ := h1
  obtain ⟨b1, b2, b3, b4, b5, b6, b7, b8, b9, b10, b11, b12, b13⟩ := h2
  exact ⟨b1.trans a1, b2.trans a2, b3.trans a3, b4.trans a4, b5.trans a5, b6.trans a6, b7.trans a7, b8.trans a8,
    b9.trans a9, b10.trans a10, b11.trans a11, b12.trans a12, a13.trans b13⟩

macro "same_leaf" : tactic => `(tactic| exact ⟨rfl, rfl, rfl, rfl, rfl, rfl, rfl, rfl, rfl, rfl, rfl, rfl, by sfx⟩)

theorem emit_same (o : Ob) (s : St) : Same s (emit o s) := by same_leaf
theorem sendCommitRequest_same (cfg : Cfg) (d : Option Rat) (a : Option Nat) (s : St) : Same s (sendCommitRequest cfg d a s) := by
  rcases s with ⟨fo, lp, lc, stp, shd, sdD, lpr, cds, creq, sD, rD, rC, cC, mb, pk, pr, fr, rdl, att, bs, nw, nr, nc, nwt, sc, er, ec, cr, out⟩
  cases cC <;> cases creq <;> cases lp <;> same_leaf
theorem looperReset_same (cfg : Cfg) (s : St) : Same s (looperReset cfg s) := by
  rcases s with ⟨fo, lp, lc, stp, shd, sdD, lpr, cds, creq, sD, rD, rC, cC, mb, pk, pr, fr, rdl, att, bs, nw, nr, nc, nwt, sc, er, ec, cr, out⟩
  rcases lpr with _ | ⟨st, _ | due⟩ <;> same_leaf
theorem commitState_same (cfg : Cfg) (w : Who) (s : St) : Same s (commitState cfg w s) := by
  unfold commitState
  split
  · exact Same.refl _
  split
  · exact Same.refl _
  split
  · cases w <;> same_leaf
  · exact (show Same s { s with commitDs := [_] } by same_leaf).trans
      ((sendCommitRequest_same cfg none none _).trans (looperReset_same cfg _))

theorem commitResult_auto_noerr (cfg : Cfg) (s : St) (hg : cfg.group = true) (he : s.commitDs.isEmpty = true) (f : Fail) :
    commitResult cfg .auto s ≠ some (.err f) := by
  unfold commitResult
  simp only [hg, he, Bool.not_true, Bool.false_eq_true, if_false]
  split <;> simp

/-- `_auto_commit` does not touch fetching and processing -/
theorem autoCommit_same (cfg : Cfg) (b : Bool) (s : St) : Same s (autoCommit cfg b s) := by
  unfold autoCommit
  split
  · exact Same.refl _
  rename_i hg
  have hgroup : cfg.group = true := by
    cases h : cfg.group
    · simp [h] at hg
    · rfl
  repeat' ((try dsimp only); split)
  all_goals first
    | exact Same.refl _
    | same_leaf
    | exact commitState_same _ _ _
    | exact absurd ‹commitResult cfg Who.auto s = some (DRes.err _)› (commitResult_auto_noerr cfg s hgroup ‹_› _)

/-- the observation `i` was made between `s` and `s'` -/
def Fresh (s s' : St) (i : Item) : Prop := ∃ new, s'.out = new ++ s.out ∧ i ∈ new

theorem Fresh.right {s s1 s2 : St} {i : Item} (h : Fresh s s1 i) (h2 : s1.out <:+ s2.out) : Fresh s s2 i := by
  obtain ⟨new, h1, hi⟩ := h
  obtain ⟨t, ht⟩ := h2
  exact ⟨t ++ new, by rw [← ht, h1, List.append_assoc], List.mem_append_right _ hi⟩

theorem Fresh.left {s s1 s2 : St} {i : Item} (h2 : s.out <:+ s1.out) (h : Fresh s1 s2 i) : Fresh s s2 i := by
  obtain ⟨new, h1, hi⟩ := h
  obtain ⟨t, ht⟩ := h2
  exact ⟨new ++ t, by rw [h1, ← ht, List.append_assoc], List.mem_append_left _ hi⟩

/-- what the processing loop leaves alone when the processor returns at once -/
def Kept (s s' : St) : Prop :=
  s'.proc = s.proc ∧ s'.msgBlock = s.msgBlock ∧ s'.retryCall = s.retryCall ∧ s'.requestD = s.requestD ∧
    s'.fetchOffset = s.fetchOffset ∧ s'.parked = s.parked ∧ s'.now = s.now ∧ s'.bufferSize = s.bufferSize ∧ s.out <:+ s'.out

theorem Kept.trans {a b c : St} (h1 : Kept a b) (h2 : Kept b c) : Kept a c := by
  obtain ⟨a1, a2, a3, a4, a5, a6, a7, a8, a9⟩ := h1
  obtain ⟨b1, b2, b3, b4, b5, b6, b7, b8, b9⟩ := h2
  exact ⟨b1.trans a1, b2.trans a2, b3.trans a3, b4.trans a4, b5.trans a5, b6.trans a6, b7.trans a7, b8.trans a8, a9.trans b9⟩

theorem Same.kept {a b : St} (h : Same a b) : Kept a b := by
  obtain ⟨_, _, _, _, a5, a6, a7, a8, a9, a10, a11, a12, a13⟩ := h
  exact ⟨a5, a6, a7, a8, a9, a10, a11, a12, a13⟩

theorem blockSize_pos (cfg : Cfg) (n : Nat) (h : 0 < n) : 0 < blockSize cfg n := by
  unfold blockSize
  split
  · rename_i h1; simp at h1; omega
  · exact h

/-- one processor call that returns at once -/
def okCall (blk rest' : List Msg) (last : Int) (s : St) : St := procLeave .ok rest' last (procEnter blk rest' last s)

theorem okCall_eq (blk rest' : List Msg) (last : Int) (s : St) : okCall blk rest' last s =
    { emit (.procRet .ok) { emit (.proc blk) s with script := s.script.tail, frame := some { rest := rest', last := last } } with
      frame := none, lastProcessed := some last } := rfl

theorem okCall_going (cfg : Cfg) (blk rest' : List Msg) (last : Int) (s : St) (hg : Going s) :
    Going (autoCommit cfg true (okCall blk rest' last s)) := by
  obtain ⟨g1, g2, g3, g4⟩ := hg
  obtain ⟨c1, c2, c3, c4, _⟩ := autoCommit_same cfg true (okCall blk rest' last s)
  refine ⟨by rw [c1]; exact g1, by rw [c2]; exact g2, by rw [c3]; exact g3, ?_⟩
  unfold okScript at *
  rw [c4]
  show s.script.tail.all _ = true
  cases hsc : s.script with
  | nil => rfl
  | cons e t2 => rw [hsc] at g4; simp only [List.all_cons, Bool.and_eq_true] at g4; exact g4.2

theorem procBody_ok (cfg : Cfg) (inner : Ops) (k : St → St × Bool) (blk rest' : List Msg) (last : Int) (s : St) (hg : Going s) :
    procBody cfg inner k blk rest' last okEntry s = k (autoCommit cfg true (okCall blk rest' last s)) := by
  have h := okCall_going cfg blk rest' last s hg
  show (if ((autoCommit cfg true (okCall blk rest' last s)).stopping ||
      (autoCommit cfg true (okCall blk rest' last s)).startD == StartD.none) = true then _ else k _) = _
  rw [if_neg]
  · rfl
  · rw [h.1, h.2.2.1]; decide

/-- With a processor that returns at once the loop hands over the whole list, block by block, and finishes; the consumer
    goes on. -/
theorem procLoop_ok (cfg : Cfg) (inner : Ops) : ∀ (fuel : Nat) (rest : List Msg) (s : St), rest.length < fuel → Going s →
    (procLoop cfg inner fuel rest s).2 = true ∧ Going (procLoop cfg inner fuel rest s).1 ∧
      Kept s (procLoop cfg inner fuel rest s).1 ∧
      ∀ x ∈ rest, ∃ blk, x ∈ blk ∧ Fresh s (procLoop cfg inner fuel rest s).1 (.ob (.proc blk))
  | 0, _, _, h, _ => by omega
  | fuel + 1, rest, s, hlen, hg => by
    obtain ⟨g1, g2, g3, g4⟩ := hg
    cases hr : rest with
    | nil =>
      have e : procLoop cfg inner (fuel + 1) [] s = (s, true) := by simp [procLoop]
      rw [e]
      exact ⟨rfl, ⟨g1, g2, g3, g4⟩, ⟨rfl, rfl, rfl, rfl, rfl, rfl, rfl, rfl, List.suffix_refl _⟩, fun x hx => by simp at hx⟩
    | cons a tl =>
      rw [← hr]
      have hne : rest ≠ [] := by rw [hr]; simp
      have hpos : 0 < rest.length := List.length_pos_iff.2 hne
      have hbs := blockSize_pos cfg rest.length hpos
      have htake : rest.take (blockSize cfg rest.length) ≠ [] := by
        intro h0
        have := congrArg List.length h0
        simp only [List.length_take, List.length_nil] at this
        omega
      obtain ⟨lastMsg, hlast⟩ : ∃ m, (rest.take (blockSize cfg rest.length)).getLast? = some m := by
        cases h : (rest.take (blockSize cfg rest.length)).getLast? with
        | none => exact absurd (List.getLast?_eq_none_iff.1 h) htake
        | some m => exact ⟨m, rfl⟩
      have hemp : rest.isEmpty = false := by cases rest <;> simp_all
      simp only [procLoop, hemp, g1, g2, Bool.or_self, Bool.false_eq_true, if_false, hlast, head_ok s g4]
      rw [procBody_ok cfg inner _ _ _ _ s ⟨g1, g2, g3, g4⟩]
      have hgo2 := okCall_going cfg (rest.take (blockSize cfg rest.length)) (rest.drop (blockSize cfg rest.length)) lastMsg.off s ⟨g1, g2, g3, g4⟩
      have hs1' := okCall_eq (rest.take (blockSize cfg rest.length)) (rest.drop (blockSize cfg rest.length)) lastMsg.off s
      obtain ⟨c1, c2, c3, c4, c5, c6, c7, c8, c9, c10, c11, c12, c13⟩ :=
        autoCommit_same cfg true (okCall (rest.take (blockSize cfg rest.length)) (rest.drop (blockSize cfg rest.length)) lastMsg.off s)
      generalize okCall (rest.take (blockSize cfg rest.length)) (rest.drop (blockSize cfg rest.length)) lastMsg.off s = s1 at *
      have hdrop : (rest.drop (blockSize cfg rest.length)).length < fuel := by
        simp only [List.length_drop]; omega
      obtain ⟨i1, i2, i3, i4⟩ := procLoop_ok cfg inner fuel (rest.drop (blockSize cfg rest.length)) (autoCommit cfg true s1) hdrop hgo2
      have hext1 : s.out <:+ s1.out := by rw [hs1']; exact ⟨[_, _], rfl⟩
      have hfresh1 : Fresh s s1 (.ob (.proc (rest.take (blockSize cfg rest.length)))) := by
        rw [hs1']; exact ⟨[_, _], rfl, by simp⟩
      have hk1 : Kept s s1 := by rw [hs1']; exact ⟨rfl, rfl, rfl, rfl, rfl, rfl, rfl, rfl, ⟨[_, _], rfl⟩⟩
      have hsm : Same s1 (autoCommit cfg true s1) := ⟨c1, c2, c3, c4, c5, c6, c7, c8, c9, c10, c11, c12, c13⟩
      have k9 := i3.2.2.2.2.2.2.2.2
      refine ⟨i1, i2, (hk1.trans hsm.kept).trans i3, ?_⟩
      · intro x hx
        rw [← List.take_append_drop (blockSize cfg rest.length) rest] at hx
        rcases List.mem_append.1 hx with hx | hx
        · exact ⟨_, hx, (hfresh1.right c13).right k9⟩
        · obtain ⟨blk, hb1, hb2⟩ := i4 x hx
          exact ⟨blk, hb1, Fresh.left (hext1.trans c13) hb2⟩

theorem retryFetch_ext (cfg : Cfg) (a : Option Rat) (s : St) : s.out <:+ (retryFetch cfg a s).out := by
  unfold retryFetch
  split
  · exact List.suffix_refl _
  split
  · dsimp only; split <;> exact List.suffix_cons _ _
  · exact List.suffix_refl _

theorem finishSimple_out (s : St) : (finishSimple s).out = s.out := by
  unfold finishSimple; split <;> rfl

/-- `_process_messages` on a freshly extracted list, processor returning at once: everything is handed over, the block
    is cleared again -/
theorem deliverBlock_ok (cfg : Cfg) (inner : Ops) (msgs : List Msg) (s : St) (hg : Going s) (hp : s.proc = none) :
    Going (deliverBlock cfg inner msgs s) ∧ s.out <:+ (deliverBlock cfg inner msgs s).out ∧
      (deliverBlock cfg inner msgs s).proc = none ∧
      (s.msgBlock = false → (deliverBlock cfg inner msgs s).msgBlock = false) ∧
      (deliverBlock cfg inner msgs s).retryCall = s.retryCall ∧ (deliverBlock cfg inner msgs s).requestD = s.requestD ∧
      (deliverBlock cfg inner msgs s).fetchOffset = s.fetchOffset ∧ (deliverBlock cfg inner msgs s).now = s.now ∧
      ∀ x ∈ msgs, ∃ blk, x ∈ blk ∧ Fresh s (deliverBlock cfg inner msgs s) (.ob (.proc blk)) := by
  unfold deliverBlock
  split
  · rename_i he
    refine ⟨hg, List.suffix_refl _, hp, fun h => h, rfl, rfl, rfl, rfl, fun x hx => ?_⟩
    cases msgs <;> simp_all
  · dsimp only
    have hg3 : Going { s with msgBlock := true } := hg
    obtain ⟨i1, i2, i3, i4⟩ := procLoop_ok cfg inner (msgs.length + 1) msgs { s with msgBlock := true } (by omega) hg3
    obtain ⟨k1, k2, k3, k4, k5, k6, k7, k8, k9⟩ := i3
    generalize procLoop cfg inner (msgs.length + 1) msgs { s with msgBlock := true } = res at *
    obtain ⟨s4, done⟩ := res
    have i1' : done = true := i1
    subst i1'
    have hp4 : s4.proc = none := k1.trans hp
    dsimp only
    simp only [hp4, Option.isSome_none, Bool.not_true, Bool.or_self, Bool.false_eq_true, if_false]
    have hmb4 : s4.msgBlock = true := k2
    unfold finishSimple
    simp only [hmb4, if_true]
    exact ⟨i2, k9, hp4, fun _ => trivial, k3, k4, k5, k7, i4⟩

/-- A fetch reply without a raising tail, arriving while the consumer runs and no block is in progress -/
theorem step_fetch_idle (cfg : Cfg) (s : St) (k : Nat) (c : Bool) (r : Reply) (hr : r.tail = .done) (hc : s.crashed = false)
    (hreq : s.requestD = .pending k .fetch c) (hst : s.startD = .pending) (hmb : s.msgBlock = false) :
    step cfg s (.fetchOk k r) =
      (if (retryFetch cfg (some 0) (deliverBlock cfg (opsN cfg cfg.depth) (extract s.fetchOffset r.msgs).1
          { s with out := .ev (.fetchOk k r) :: s.out, retryDelay := cfg.retryInit, attempts := 1, requestD := .none,
                   fetchOffset := (extract s.fetchOffset r.msgs).2 })).crashed
       then retryFetch cfg (some 0) (deliverBlock cfg (opsN cfg cfg.depth) (extract s.fetchOffset r.msgs).1
          { s with out := .ev (.fetchOk k r) :: s.out, retryDelay := cfg.retryInit, attempts := 1, requestD := .none,
                   fetchOffset := (extract s.fetchOffset r.msgs).2 })
       else probe (retryFetch cfg (some 0) (deliverBlock cfg (opsN cfg cfg.depth) (extract s.fetchOffset r.msgs).1
          { s with out := .ev (.fetchOk k r) :: s.out, retryDelay := cfg.retryInit, attempts := 1, requestD := .none,
                   fetchOffset := (extract s.fetchOffset r.msgs).2 }))) := by
  cases c <;>
    simp [step, hc, stepCore, hreq, handleFetchResponse, hst, hmb, fetchBody, fetchTail, hr]

end Afkak.Proofs.Consumer.L
