import AfkakProofs.Consumer.B_C14e
/-!
# C02, liveness half (2): what one faithful fetch reply carrying the rest of the log does - lists, `extract`, `procLoop`
-/
namespace Afkak.Proofs.Consumer.L
open Afkak.Consumer Afkak.Monitor Afkak.Consts Afkak.Props.Open.C02 Afkak.Proofs.Consumer

/-- a partition log: offsets strictly increasing -/
def Ascending (l : List Msg) : Prop := l.Pairwise (fun a b => a.off < b.off)

instance (l : List Msg) : Decidable (Ascending l) := by unfold Ascending; infer_instance

/-- the log entries from `fo` on -/
def restFrom (log : List Msg) (fo : Int) : List Msg := log.filter (fun x => decide (fo ≤ x.off))

theorem restFrom_suffix : ∀ (log : List Msg) (fo : Int), Ascending log →
    ∃ pre, log = pre ++ restFrom log fo ∧ ∀ x ∈ pre, x.off < fo
  | [], _, _ => ⟨[], rfl, by simp⟩
  | x :: l, fo, h => by
    have h' := List.pairwise_cons.1 h
    by_cases hx : fo ≤ x.off
    · refine ⟨[], ?_, by simp⟩
      have : restFrom (x :: l) fo = x :: l := by
        unfold restFrom
        rw [List.filter_eq_self]
        intro y hy
        rcases List.mem_cons.1 hy with rfl | hy
        · simpa using hx
        · have := h'.1 y hy
          simp only [decide_eq_true_eq]; omega
      rw [this]; rfl
    · obtain ⟨pre, h1, h2⟩ := restFrom_suffix l fo h'.2
      refine ⟨x :: pre, ?_, ?_⟩
      · have : restFrom (x :: l) fo = restFrom l fo := by
          unfold restFrom; rw [List.filter_cons]; simp [hx]
        rw [this, List.cons_append, ← h1]
      · intro y hy
        rcases List.mem_cons.1 hy with rfl | hy
        · omega
        · exact h2 y hy

/-- in an ascending log the entries after `a` continue the log after `a` -/
theorem chain_suffix (log : List Msg) (hl : Ascending log) : ∀ (xs pre : List Msg) (a : Msg), log = pre ++ a :: xs →
    A.chainFrom log a.off xs
  | [], _, _, _ => trivial
  | b :: t, pre, a, he => by
    refine ⟨?_, chain_suffix log hl t (pre ++ [a]) b (by rw [he]; simp)⟩
    unfold Ascending at hl
    rw [he] at hl
    have h1 := List.pairwise_append.1 hl
    have h2 := List.pairwise_cons.1 h1.2.1
    have hab : a.off < b.off := h2.1 b (by simp)
    have hpre : ∀ y ∈ pre, y.off < a.off := fun y hy => h1.2.2 y hy a (by simp)
    unfold C02.succIn C02.firstFrom
    rw [he, List.filter_append]
    have e1 : pre.filter (fun m => decide (a.off + 1 ≤ m.off)) = [] := by
      rw [List.filter_eq_nil_iff]
      intro y hy
      have := hpre y hy
      simp only [decide_eq_true_eq]; omega
    rw [e1, List.nil_append, List.filter_cons]
    have e2 : ¬ a.off + 1 ≤ a.off := by omega
    simp only [e2, decide_false, Bool.false_eq_true, if_false, List.filter_cons]
    have e3 : a.off + 1 ≤ b.off := by omega
    simp [e3]

/-- the rest of an ascending log from a Kafka offset is a faithful reply to a request there -/
theorem restFrom_faithful (log : List Msg) (fo : Int) (hl : Ascending log) (h0 : 0 ≤ fo) :
    replyFaithful log fo { msgs := restFrom log fo, tail := .done } = true := by
  unfold replyFaithful
  simp only [Bool.and_eq_true, decide_eq_true_eq]
  refine ⟨⟨⟨h0, ?_⟩, ?_⟩, ?_⟩
  · rw [List.all_eq_true]
    intro m hm
    simpa using (List.mem_filter.1 hm).1
  · obtain ⟨pre, h1, _⟩ := restFrom_suffix log fo hl
    cases hr : restFrom log fo with
    | nil => rfl
    | cons a xs =>
      rw [hr] at h1
      exact (A.chainOk_cons log xs a).2 (chain_suffix log hl xs pre a h1)
  · have : (restFrom log fo).filter (fun m => decide (fo ≤ m.off)) = restFrom log fo := by
      unfold restFrom; rw [List.filter_filter]; simp
    rw [this]
    unfold C02.firstFrom restFrom
    cases (log.filter (fun x => decide (fo ≤ x.off))).head? <;> simp

/-- the message loop takes an ascending list at or above the position whole -/
theorem extract_asc : ∀ (ms : List Msg) (fo : Int), Ascending ms → (∀ x ∈ ms, fo ≤ x.off) → (extract fo ms).1 = ms
  | [], _, _, _ => rfl
  | m :: rest, fo, h, hge => by
    have h' := List.pairwise_cons.1 h
    have hm : ¬ m.off < fo := by have := hge m (by simp); omega
    have ih := extract_asc rest (m.off + 1) h'.2 (fun x hx => by have := h'.1 x hx; omega)
    simp only [extract, hm, if_false, ih]

theorem restFrom_asc (log : List Msg) (fo : Int) (hl : Ascending log) : Ascending (restFrom log fo) :=
  List.Pairwise.sublist List.filter_sublist hl

theorem extract_restFrom (log : List Msg) (fo : Int) (hl : Ascending log) : (extract fo (restFrom log fo)).1 = restFrom log fo :=
  extract_asc _ fo (restFrom_asc log fo hl) (fun x hx => by simpa using (List.mem_filter.1 hx).2)

/-! ### The processing loop with a processor that returns at once -/

/-- the processor entry "no API call, returns successfully" -/
def okEntry : PEntry := { acts := [], res := .ok }

/-- every remaining processor invocation returns successfully at once (the empty script means exactly that) -/
def okScript (s : St) : Bool := s.script.all (fun e => e == okEntry)

theorem head_ok (s : St) (h : okScript s = true) : s.script.head?.getD { acts := [], res := .ok } = okEntry := by
  unfold okScript at h
  cases hs : s.script with
  | nil => rfl
  | cons e t => rw [hs] at h; simp only [List.all_cons, Bool.and_eq_true, beq_iff_eq] at h; simp [h.1]

/-- the consumer goes on processing: started, nothing reported, not stopping, not shutting down; the processor returns at once -/
def Going (s : St) : Prop :=
  s.stopping = false ∧ s.shuttingDown = false ∧ s.startD = .pending ∧ okScript s = true

macro "sfx" : tactic => `(tactic|
  first | exact ⟨[], rfl⟩ | exact ⟨[_], rfl⟩ | exact ⟨[_, _], rfl⟩ | exact ⟨[_, _, _], rfl⟩)

theorem emit_ext (o : Ob) (s : St) : s.out <:+ (emit o s).out := List.suffix_cons _ _
theorem sendCommitRequest_ext (cfg : Cfg) (d : Option Rat) (a : Option Nat) (s : St) : s.out <:+ (sendCommitRequest cfg d a s).out := by
  rcases s with ⟨fo, lp, lc, stp, shd, sdD, lpr, cds, creq, sD, rD, rC, cC, mb, pk, pr, fr, rdl, att, bs, nw, nr, nc, nwt, sc, er, ec, cr, out⟩
  cases cC <;> cases creq <;> cases lp <;> sfx
theorem looperReset_ext (cfg : Cfg) (s : St) : s.out <:+ (looperReset cfg s).out := by
  rcases s with ⟨fo, lp, lc, stp, shd, sdD, lpr, cds, creq, sD, rD, rC, cC, mb, pk, pr, fr, rdl, att, bs, nw, nr, nc, nwt, sc, er, ec, cr, out⟩
  rcases lpr with _ | ⟨st, _ | due⟩ <;> sfx
theorem startErrback_ext (f : Fail) (s : St) : s.out <:+ (startErrback f s).out := by
  rcases s with ⟨fo, lp, lc, stp, shd, sdD, lpr, cds, creq, sD, rD, rC, cC, mb, pk, pr, fr, rdl, att, bs, nw, nr, nc, nwt, sc, er, ec, cr, out⟩
  cases sD <;> sfx
theorem commitState_ext (cfg : Cfg) (w : Who) (s : St) : s.out <:+ (commitState cfg w s).out := by
  unfold commitState
  split
  · exact List.suffix_refl _
  split
  · exact List.suffix_refl _
  split
  · cases w <;> exact List.suffix_refl _
  · exact (sendCommitRequest_ext cfg none none { s with commitDs := [_] }).trans (looperReset_ext cfg _)
theorem handleAutoCommitError_ext (f : Fail) (s : St) : s.out <:+ (handleAutoCommitError f s).out := by
  unfold handleAutoCommitError
  split
  · exact List.suffix_refl _
  split
  · exact startErrback_ext _ _
  · exact List.suffix_refl _
theorem autoCommit_ext (cfg : Cfg) (b : Bool) (s : St) : s.out <:+ (autoCommit cfg b s).out := by
  unfold autoCommit
  split
  · exact List.suffix_refl _
  dsimp only
  split
  · exact List.suffix_refl _
  split
  · split
    · exact (commitState_ext _ _ _).trans (handleAutoCommitError_ext _ _)
    · exact commitState_ext _ _ _
  · exact List.suffix_refl _
theorem retryFetch_ext (cfg : Cfg) (a : Option Rat) (s : St) : s.out <:+ (retryFetch cfg a s).out := by
  unfold retryFetch
  split
  · exact List.suffix_refl _
  split
  · dsimp only; split <;> exact emit_ext _ _
  · exact List.suffix_refl _

theorem autoCommit_keeps (cfg : Cfg) (b : Bool) (s : St) :
    (autoCommit cfg b s).stopping = s.stopping ∧
      (autoCommit cfg b s).shuttingDown = s.shuttingDown ∧ (autoCommit cfg b s).startD = s.startD ∧
      (autoCommit cfg b s).script = s.script ∧ (autoCommit cfg b s).proc = s.proc ∧
      (autoCommit cfg b s).msgBlock = s.msgBlock ∧ (autoCommit cfg b s).retryCall = s.retryCall ∧
      (autoCommit cfg b s).requestD = s.requestD ∧ (autoCommit cfg b s).fetchOffset = s.fetchOffset ∧
      (autoCommit cfg b s).parked = s.parked := by
  unfold autoCommit commitResult commitState handleAutoCommitError sendCommitRequest looperReset crash emit startErrback
  grind

end Afkak.Proofs.Consumer.L
