import AfkakProofs.Consumer.Inv0
/-!
# `G` is preserved by the handlers built from other handlers (no re-entrant API yet)
-/
namespace Afkak.Proofs.Consumer
open Afkak.Consumer Afkak.Monitor Afkak.Consts

theorem handleOffsetResponse_pres (cfg : Cfg) (b : Bool) (o : Int) : Pres cfg (handleOffsetResponse cfg b o) := by
  intro s hs
  have hx := Good.refl hs
  unfold handleOffsetResponse
  simp only []
  split
  · leaf hx
  · split
    · exact (doFetch_pres cfg).step (by leaf hx)
    · split
      · exact (doFetch_pres cfg).step (by leaf hx)
      · exact (doFetch_pres cfg).step (by leaf hx)

theorem handleOffsetError_pres (cfg : Cfg) (f : Fail) : Pres cfg (handleOffsetError cfg f) := by
  intro s hs
  have hx := Good.refl hs
  unfold handleOffsetError
  simp only []
  have h0 : Good cfg s { s with requestD := .none } := by leaf hx
  split
  · exact h0
  · split
    · exact h0
    · split
      · exact (startErrback_pres cfg f).step h0
      · exact (retryFetch_pres cfg none).step h0

theorem handleFetchError_pres (cfg : Cfg) (f : Fail) : Pres cfg (handleFetchError cfg f) := by
  intro s hs
  have hx := Good.refl hs
  unfold handleFetchError
  simp only []
  have h0 : Good cfg s { s with requestD := .none } := by leaf hx
  split
  · exact h0
  · split
    · exact (startErrback_pres cfg f).step h0
    · split
      · split
        · leaf hx
        · split
          · exact (startErrback_pres cfg f).step (by leaf hx)
          · exact (retryFetch_pres cfg none).step (by leaf hx)
      · split
        · exact h0
        · split
          · exact (startErrback_pres cfg f).step h0
          · exact (retryFetch_pres cfg none).step h0

/-- `commit()` -/
theorem commitState_pres (cfg : Cfg) (w : Who) : Pres cfg (commitState cfg w) := by
  intro s hs
  have hx := Good.refl hs
  unfold commitState
  split
  · exact hx
  · split
    · exact hx
    · split
      · cases w <;> simp only [] <;> leaf hx
      · simp only []
        exact (looperReset_pres cfg).step ((sendCommitRequest_pres cfg none none).step (by leaf hx))

theorem autoCommit_pres (cfg : Cfg) (b : Bool) : Pres cfg (autoCommit cfg b) := by
  intro s hs
  have hx := Good.refl hs
  have hc := (commitState_pres cfg .auto).step hx
  unfold autoCommit
  simp only []
  repeat' split
  all_goals first | exact hx | exact hc | exact (handleAutoCommitError_pres cfg _).step hc | leaf hx

theorem commitUser_pres (cfg : Cfg) : Pres cfg (commitUser cfg) := by
  intro s hs
  have hc := (commitState_pres cfg .user).step (Good.refl hs)
  unfold commitUser
  simp only []
  split
  · leaf hc
  · leaf hc

/-! What the processing loop needs to know is NOT touched by the handlers it calls between blocks. -/

/-- `s'` differs from `s` in nothing the processing loop looks at. -/
def Keeps (s s' : St) : Prop :=
  s'.proc = s.proc ∧ s'.stopping = s.stopping ∧ s'.msgBlock = s.msgBlock ∧ (s'.startD = .none ↔ s.startD = .none)

theorem Keeps.refl (s : St) : Keeps s s := ⟨rfl, rfl, rfl, Iff.rfl⟩
theorem Keeps.trans {a b c : St} (h1 : Keeps a b) (h2 : Keeps b c) : Keeps a c :=
  ⟨h2.1.trans h1.1, h2.2.1.trans h1.2.1, h2.2.2.1.trans h1.2.2.1, h2.2.2.2.trans h1.2.2.2⟩

theorem looperReset_keeps (cfg : Cfg) (s : St) : Keeps s (looperReset cfg s) := by
  unfold Keeps looperReset emit; grind
theorem sendCommitRequest_keeps (cfg : Cfg) (d : Option Rat) (a : Option Nat) (s : St) :
    Keeps s (sendCommitRequest cfg d a s) := by
  unfold Keeps sendCommitRequest crash emit; grind
theorem keeps_send (cfg : Cfg) (x s : St) (h : Keeps s x) :
    Keeps s (looperReset cfg (sendCommitRequest cfg none none x)) :=
  Keeps.trans (Keeps.trans h (sendCommitRequest_keeps cfg none none x)) (looperReset_keeps cfg _)
theorem commitState_keeps (cfg : Cfg) (w : Who) (s : St) : Keeps s (commitState cfg w s) := by
  unfold commitState
  split
  · exact Keeps.refl s
  · split
    · exact Keeps.refl s
    · split
      · cases w <;> exact ⟨rfl, rfl, rfl, Iff.rfl⟩
      · simp only []
        exact keeps_send cfg _ s ⟨rfl, rfl, rfl, Iff.rfl⟩
theorem startErrback_keeps (f : Fail) (s : St) : Keeps s (startErrback f s) := by
  unfold Keeps startErrback emit; grind
theorem handleAutoCommitError_keeps (f : Fail) (s : St) : Keeps s (handleAutoCommitError f s) := by
  unfold handleAutoCommitError
  split
  · exact Keeps.refl s
  · split
    · exact startErrback_keeps f s
    · exact Keeps.refl s
theorem autoCommit_keeps (cfg : Cfg) (b : Bool) (s : St) : Keeps s (autoCommit cfg b s) := by
  unfold autoCommit
  simp only []
  repeat' split
  all_goals first
    | exact Keeps.refl s
    | exact Keeps.trans (commitState_keeps cfg .auto s) (handleAutoCommitError_keeps _ _)
    | exact commitState_keeps cfg .auto s
    | exact ⟨rfl, rfl, rfl, Iff.rfl⟩
theorem handleProcessorError_keeps (f : Fail) (s : St) : Keeps s (handleProcessorError f s) := by
  unfold handleProcessorError
  split
  · exact Keeps.refl s
  · exact startErrback_keeps f s

end Afkak.Proofs.Consumer
