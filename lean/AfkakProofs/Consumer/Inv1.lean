import AfkakProofs.Consumer.Inv0
/-!
# `G` is preserved by the handlers built from other handlers (no re-entrant API yet)
-/
namespace Afkak.Proofs.Consumer
open Afkak.Consumer Afkak.Monitor Afkak.Consts

variable [EnvHyp]

set_option maxHeartbeats 800000 in
/-- `_do_fetch` while the consumer is running -/
theorem doFetch_good (cfg : Cfg) {s0 s : St} (h : Good cfg s0 s) (hr : s.startD ≠ .none) : Good cfg s0 (doFetch cfg s) := by
  unfold doFetch startErrback errbackRaises
  (try unfold emit)
  leaf h

/-- `_handle_offset_response` for an OffsetResponse (the OffsetFetchResponse case changes the committed
    offset and is treated with its event) -/
theorem offsetResponseTail_good (cfg : Cfg) (o : Int) {s0 s : St} (hx : Good cfg s0 s) (ha : EnvHyp.sane → Armed cfg s) :
    Good cfg s0 (offsetResponseTail cfg false o s) := by
  unfold Armed at ha
  unfold offsetResponseTail
  split
  · exact hx
  · rename_i hr
    have hr' : s.startD ≠ .none := by simpa using hr
    simp only [Bool.not_false, if_true]
    exact doFetch_good cfg (by leaf hx) hr'

/-- `_do_fetch` with no request outstanding and a numeric position: a FetchRequest goes out -/
theorem doFetch_numeric (cfg : Cfg) (s : St) (h1 : s.requestD = .none) (h2 : s.fetchOffset ≠ offsetEarliest)
    (h3 : s.fetchOffset ≠ offsetLatest) (h4 : s.fetchOffset ≠ offsetCommitted) :
    doFetch cfg s =
      (match s.retryCall with
        | .pending _ =>
          { s with out := .ob (.fetch s.nextReq s.fetchOffset s.bufferSize) :: .ob (.cancelTimer .retry) :: s.out,
                   retryCall := .none, requestD := .pending s.nextReq .fetch false, nextReq := s.nextReq + 1 }
        | _ =>
          { s with out := .ob (.fetch s.nextReq s.fetchOffset s.bufferSize) :: s.out,
                   retryCall := .none, requestD := .pending s.nextReq .fetch false, nextReq := s.nextReq + 1 }) := by
  unfold doFetch emit
  simp only [h1]
  cases hr : s.retryCall <;> simp [h2, h3, h4]

theorem commitResult_nts (cfg : Cfg) (w : Who) (s : St) (f : Fail) (h : commitResult cfg w s = some (.err f)) : f ≠ .tooSmall := by
  unfold commitResult at h
  repeat' split at h
  all_goals (cases h)
  all_goals (intro h'; cases h')

theorem offsetErrorTail_pres (cfg : Cfg) (f : Fail) (hf : f ≠ .tooSmall) : Pres cfg (offsetErrorTail cfg f) := by
  intro s hs
  have hx := Good.refl hs
  unfold offsetErrorTail
  repeat' split
  all_goals first
    | exact hx
    | exact (startErrback_pres cfg f hf).step hx
    | exact (retryFetch_pres cfg none).step hx

/-- `_handle_offset_error` for a request that is no longer counted as outstanding (cancelled) -/
theorem handleOffsetError_good (cfg : Cfg) (f : Fail) (hf : f ≠ .tooSmall) {s0 s : St} (hx : Good cfg s0 s) (hq : activeReq s.requestD = none)
    (hpk : s.parked = none) :
    Good cfg s0 (handleOffsetError cfg f s) := by
  unfold handleOffsetError
  exact (offsetErrorTail_pres cfg f hf).step (by leaf hx)

theorem fetchErrorTail_good (cfg : Cfg) (f : Fail) (hf : f ≠ .tooSmall) {s0 s : St} (hx : Good cfg s0 s)
    (ha : EnvHyp.sane → f.isOutOfRange = true → cfg.reset.isSome = true → Armed cfg s) :
    Good cfg s0 (fetchErrorTail cfg f s) := by
  unfold Armed at ha
  unfold fetchErrorTail
  simp only []
  split
  · exact hx
  · split
    · exact (startErrback_pres cfg f hf).step hx
    · rename_i hnr
      have h1 : Good cfg s0 (if f.isOutOfRange then { s with fetchOffset := cfg.reset.getD s.fetchOffset } else s) := by
        split
        · rename_i ho
          have hr : cfg.reset.isSome = true := by
            cases hc : cfg.reset with
            | none => simp [ho, hc] at hnr
            | some v => rfl
          have ha' := fun hP => ha hP ho hr
          leaf hx
        · exact hx
      generalize (if f.isOutOfRange then { s with fetchOffset := cfg.reset.getD s.fetchOffset } else s) = s1 at *
      repeat' split
      all_goals first
        | exact h1
        | exact (startErrback_pres cfg f hf).step h1
        | exact (retryFetch_pres cfg none).step h1

/-- `_handle_fetch_error` for a request that is no longer counted as outstanding -/
theorem handleFetchError_good (cfg : Cfg) (f : Fail) (hf : f ≠ .tooSmall) {s0 s : St} (hx : Good cfg s0 s) (hq : activeReq s.requestD = none)
    (hpk : s.parked = none) (ha : EnvHyp.sane → f.isOutOfRange = true → cfg.reset.isSome = true → Armed cfg s) :
    Good cfg s0 (handleFetchError cfg f s) := by
  unfold handleFetchError
  exact fetchErrorTail_good cfg f hf (by leaf hx) ha

/-- `commit()` -/
theorem commitState_pres (cfg : Cfg) (w : Who) : Pres cfg (commitState cfg w) := by
  intro s hs
  have hx := Good.refl hs
  unfold commitState
  split
  · exact hx
  · split
    · exact hx
    · split
      · cases w <;> simp only [] <;> leaf hx
      · simp only []
        exact (looperReset_pres cfg).step ((sendCommitRequest_pres cfg none none).step (by leaf hx))

theorem autoCommit_pres (cfg : Cfg) (b : Bool) : Pres cfg (autoCommit cfg b) := by
  intro s hs
  have hx := Good.refl hs
  have hc := (commitState_pres cfg .auto).step hx
  unfold autoCommit
  simp only []
  repeat' split
  all_goals first
    | exact hx
    | exact hc
    | exact (handleAutoCommitError_pres cfg _ (commitResult_nts cfg .auto s _ (by assumption))).step hc
    | leaf hx

theorem commitUser_pres (cfg : Cfg) : Pres cfg (commitUser cfg) := by
  intro s hs
  have hc := (commitState_pres cfg .user).step (Good.refl hs)
  unfold commitUser
  simp only []
  split
  · leaf hc
  · leaf hc

/-! What the processing loop needs to know is NOT touched by the handlers it calls between blocks. -/

/-- `s'` differs from `s` in nothing the processing loop looks at. -/
def Keeps (s s' : St) : Prop :=
  s'.proc = s.proc ∧ s'.stopping = s.stopping ∧ s'.msgBlock = s.msgBlock ∧ (s'.startD = .none ↔ s.startD = .none) ∧
    s'.retryCall = s.retryCall ∧ s'.requestD = s.requestD ∧ s'.parked = s.parked

/-- … except possibly the refetch timer -/
def Keeps0 (s s' : St) : Prop :=
  s'.proc = s.proc ∧ s'.stopping = s.stopping ∧ s'.msgBlock = s.msgBlock ∧ (s'.startD = .none ↔ s.startD = .none)

theorem Keeps.to0 {s s' : St} (h : Keeps s s') : Keeps0 s s' := ⟨h.1, h.2.1, h.2.2.1, h.2.2.2.1⟩
theorem Keeps0.refl (s : St) : Keeps0 s s := ⟨rfl, rfl, rfl, Iff.rfl⟩
theorem Keeps0.trans {a b c : St} (h1 : Keeps0 a b) (h2 : Keeps0 b c) : Keeps0 a c :=
  ⟨h2.1.trans h1.1, h2.2.1.trans h1.2.1, h2.2.2.1.trans h1.2.2.1, h2.2.2.2.trans h1.2.2.2⟩

theorem Keeps.refl (s : St) : Keeps s s := ⟨rfl, rfl, rfl, Iff.rfl, rfl, rfl, rfl⟩
theorem Keeps.trans {a b c : St} (h1 : Keeps a b) (h2 : Keeps b c) : Keeps a c :=
  ⟨h2.1.trans h1.1, h2.2.1.trans h1.2.1, h2.2.2.1.trans h1.2.2.1, h2.2.2.2.1.trans h1.2.2.2.1, h2.2.2.2.2.1.trans h1.2.2.2.2.1,
    h2.2.2.2.2.2.1.trans h1.2.2.2.2.2.1, h2.2.2.2.2.2.2.trans h1.2.2.2.2.2.2⟩

theorem looperReset_keeps (cfg : Cfg) (s : St) : Keeps s (looperReset cfg s) := by
  unfold Keeps looperReset emit; grind
theorem sendCommitRequest_keeps (cfg : Cfg) (d : Option Rat) (a : Option Nat) (s : St) :
    Keeps s (sendCommitRequest cfg d a s) := by
  unfold Keeps sendCommitRequest crash emit; grind
theorem keeps_send (cfg : Cfg) (x s : St) (h : Keeps s x) :
    Keeps s (looperReset cfg (sendCommitRequest cfg none none x)) :=
  Keeps.trans (Keeps.trans h (sendCommitRequest_keeps cfg none none x)) (looperReset_keeps cfg _)
theorem commitState_keeps (cfg : Cfg) (w : Who) (s : St) : Keeps s (commitState cfg w s) := by
  unfold commitState
  split
  · exact Keeps.refl s
  · split
    · exact Keeps.refl s
    · split
      · cases w <;> exact ⟨rfl, rfl, rfl, Iff.rfl, rfl, rfl, rfl⟩
      · simp only []
        exact keeps_send cfg _ s ⟨rfl, rfl, rfl, Iff.rfl, rfl, rfl, rfl⟩
theorem startErrback_keeps (f : Fail) (s : St) : Keeps s (startErrback f s) := by
  unfold Keeps startErrback emit; grind
theorem handleAutoCommitError_keeps (f : Fail) (s : St) : Keeps s (handleAutoCommitError f s) := by
  unfold handleAutoCommitError
  split
  · exact Keeps.refl s
  · split
    · exact startErrback_keeps f s
    · exact Keeps.refl s
theorem autoCommit_keeps (cfg : Cfg) (b : Bool) (s : St) : Keeps s (autoCommit cfg b s) := by
  unfold autoCommit
  simp only []
  repeat' split
  all_goals first
    | exact Keeps.refl s
    | exact Keeps.trans (commitState_keeps cfg .auto s) (handleAutoCommitError_keeps _ _)
    | exact commitState_keeps cfg .auto s
    | exact ⟨rfl, rfl, rfl, Iff.rfl, rfl, rfl, rfl⟩
theorem handleProcessorError_keeps (f : Fail) (s : St) : Keeps s (handleProcessorError f s) := by
  unfold handleProcessorError
  split
  · exact Keeps.refl s
  · exact startErrback_keeps f s

end Afkak.Proofs.Consumer
