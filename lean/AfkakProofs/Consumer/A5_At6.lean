import AfkakProofs.Consumer.A5_At5
/-!
# C14: at the attempt limit the failure is REPORTED on the start Deferred (one step, from any reachable state)
-/
namespace Afkak.Proofs.Consumer.T
open Afkak.Consumer Afkak.Monitor Afkak.Consts Afkak.Proofs.Consumer

/-- consecutive failed fetch/offset requests so far, as the attempt-limit monitor counts them -/
def failures (cfg : Cfg) (s : St) : Nat := (atm cfg s).cf

theorem guard_of_pending (s : St) (k : Nat) (kind : ReqKind) (c : Bool) (x : Item) (h : s.requestD = .pending k kind c) :
    (({ s with out := x :: s.out } : St).requestD == .pending k kind false ||
      ({ s with out := x :: s.out } : St).requestD == .pending k kind true) = true := by
  simp only [h]
  cases c <;> simp

/-- the `L`-th consecutive failure of a FETCH request, start Deferred still pending: reported, nothing retried -/
theorem step_fetchErr_limit (cfg : Cfg) (script : List PEntry) (evs : List Ev) (k : Nat) (ek : ErrKind) (tag : Nat) (c : Bool)
    (hL : cfg.maxAttempts ≠ 0) (hcr : (run cfg script evs).crashed = false)
    (hreq : (run cfg script evs).requestD = .pending k .fetch c) (hsd : (run cfg script evs).startD = .pending)
    (hcf : cfg.maxAttempts ≤ failures cfg (run cfg script evs) + 1) :
    (step cfg (run cfg script evs) (.fetchErr k ek tag)).out =
        .ob (.probe (run cfg script evs).lastProcessed (run cfg script evs).lastCommitted) ::
          .ob (.startFired (.err (.ext ek tag))) :: .ev (.fetchErr k ek tag) :: (run cfg script evs).out ∧
      (step cfg (run cfg script evs) (.fetchErr k ek tag)).startD = .called ∧
      (step cfg (run cfg script evs) (.fetchErr k ek tag)).requestD = .none ∧
      (step cfg (run cfg script evs) (.fetchErr k ek tag)).retryCall = .none := by
  have ht := run_a cfg script evs
  generalize run cfg script evs = s at *
  have hrc := ht.1.pr k .fetch c hreq
  have hl := ht.1.live1 k .fetch c hreq
  have hst := ht.2.1
  have hrun : s.startD ≠ .none := by rw [hsd]; intro h; cases h
  have hlim : (cfg.maxAttempts != 0 && decide (s.attempts ≥ cfg.maxAttempts)) = true := by
    simp only [failures] at hcf
    simp only [Bool.and_eq_true, bne_iff_ne, ne_eq, decide_eq_true_eq]
    exact ⟨hL, by omega⟩
  have key := fetchErrorTail_eq (cfg := cfg) (Fail.ext ek tag)
    ({ ({ s with out := .ev (.fetchErr k ek tag) :: s.out } : St) with requestD := ReqD.none })
    (if (Fail.ext ek tag).isOutOfRange then cfg.reset.getD s.fetchOffset else s.fetchOffset) hrun hst hrc rfl
  have hcr' : ¬ s.crashed = true := by rw [hcr]; simp
  unfold step
  rw [if_neg hcr']
  simp only [stepCore]
  rw [if_pos (guard_of_pending s k .fetch c _ hreq)]
  simp only []
  unfold handleFetchError
  rw [key]
  simp only [hlim, if_true]
  split <;> simp [startErrback, hsd, emit, probe, hcr, hrc]

/-- … and of an offset look-up (OffsetRequest or OffsetFetchRequest) -/
theorem step_offsetErr_limit (cfg : Cfg) (script : List PEntry) (evs : List Ev) (k : Nat) (ek : ErrKind) (tag : Nat) (c : Bool)
    (kind : ReqKind) (e : Ev) (he : (kind = .offsets ∧ e = .offsetErr k ek tag) ∨ (kind = .offsetFetch ∧ e = .offsetFetchErr k ek tag))
    (hL : cfg.maxAttempts ≠ 0) (hcr : (run cfg script evs).crashed = false)
    (hreq : (run cfg script evs).requestD = .pending k kind c) (hsd : (run cfg script evs).startD = .pending)
    (hcf : cfg.maxAttempts ≤ failures cfg (run cfg script evs) + 1) :
    (step cfg (run cfg script evs) e).out =
        .ob (.probe (run cfg script evs).lastProcessed (run cfg script evs).lastCommitted) ::
          .ob (.startFired (.err (.ext ek tag))) :: .ev e :: (run cfg script evs).out ∧
      (step cfg (run cfg script evs) e).startD = .called ∧
      (step cfg (run cfg script evs) e).requestD = .none ∧
      (step cfg (run cfg script evs) e).retryCall = .none := by
  have ht := run_a cfg script evs
  generalize run cfg script evs = s at *
  have hrc := ht.1.pr k kind c hreq
  have hl := ht.1.live1 k kind c hreq
  have hst := ht.2.1
  have hrun : s.startD ≠ .none := by rw [hsd]; intro h; cases h
  have hlim : (cfg.maxAttempts != 0 && decide (s.attempts ≥ cfg.maxAttempts)) = true := by
    simp only [failures] at hcf
    simp only [Bool.and_eq_true, bne_iff_ne, ne_eq, decide_eq_true_eq]
    exact ⟨hL, by omega⟩
  have key := offsetErrorTail_eq (cfg := cfg) (Fail.ext ek tag)
    ({ ({ s with out := .ev e :: s.out } : St) with requestD := ReqD.none }) hrun hst hrc
  have hcr' : ¬ s.crashed = true := by rw [hcr]; simp
  unfold step
  rw [if_neg hcr']
  rcases he with ⟨rfl, rfl⟩ | ⟨rfl, rfl⟩
  all_goals
    simp only [stepCore]
    rw [if_pos (guard_of_pending s k _ c _ hreq)]
    simp only []
    unfold handleOffsetError
    rw [key]
    simp only [hlim, if_true]
    simp [startErrback, hsd, emit, probe, hcr, hrc]

end Afkak.Proofs.Consumer.T
