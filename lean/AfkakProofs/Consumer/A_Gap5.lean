import AfkakProofs.Consumer.A_Gap4
/-!
# No gap, no duplicate (C02): the processor's result, `stop()`, `shutdown()`, every level of the re-entrant API
-/
namespace Afkak.Proofs.Consumer.A
open Afkak.Consumer Afkak.Monitor Afkak.Consts Afkak.Props.Open.C02 Afkak.Proofs.Consumer

theorem procLoop_stopping (cfg : Cfg) (inner : Ops) (fuel : Nat) (rest : List Msg) (s : St) (h : s.stopping = true) :
    procLoop cfg inner fuel rest s = (s, true) := by
  cases fuel with
  | zero => rfl
  | succ n => unfold procLoop; simp [h]

theorem procResume_stopping (cfg : Cfg) (inner : Ops) (g : Gen) (s : St) (h : s.stopping = true) (hb : s.msgBlock = false)
    (hp : s.proc = none) : procResume cfg inner g false s = s := by
  unfold procResume
  simp [procLoop_stopping cfg inner _ _ s h, hp, finishFull, hb]

theorem stopCore_startD' (cfg : Cfg) (inner : Ops) (s : St) : (stopCore cfg inner s).startD = .none := by
  unfold stopCore
  simp only []
  generalize stopTimers _ = x
  unfold stopFinish crash emit
  grind

section
variable {log : List Msg} {cfg : Cfg} {inner : Ops} (hin : OpsH log inner) (hcfg : ∀ v, cfg.reset = some v → v < 0)
include hin hcfg

/-- the end of `_process_messages` when resumed -/
theorem finishFull_h {s : St} (hs : Hg log s) (hp : s.proc = none) (hf : s.frame = none) (hpost : Post log s) :
    LRel log s (finishFull cfg inner s) := by
  have hx := LRel.refl hs
  unfold Post at hpost
  unfold finishFull
  split
  · simp only []
    split
    · rename_i r hr
      have hfaith := hs.gParked r hr
      split
      · obtain ⟨hs_, e1, e2⟩ := hx
        refine ⟨?_, rfl, fun _ => rfl⟩
        hg_fields hs_
      · rename_i hrun
        unfold fetchBody
        have h4 : Hg log { s with msgBlock := false, parked := none, retryDelay := cfg.retryInit, attempts := 1, requestD := .none } := by
          hg_fields hs
        have := fetchTail_h hin hcfg true r h4 hp hf rfl rfl (by
          simp only [Bool.not_eq_true, beq_eq_false_iff_ne, ne_eq] at hrun
          rcases hpost with (h | h | h) | h
          · exact absurd h (by simpa using hrun)
          · exact Or.inl h
          · exact Or.inr (Or.inl h)
          · exact Or.inr (Or.inr (by simpa [IdlePos, gm] using h))) hfaith
        exact ⟨this.1, this.2.1, fun _ => this.2.2 rfl⟩
    · obtain ⟨hs_, e1, e2⟩ := hx
      refine ⟨?_, rfl, fun h => h⟩
      hg_fields hs_
  · exact hx

/-- The processor's Deferred fires at top level (`x` = the event that says so). -/
theorem procResult_h (g : Gen) (r : Option Fail) (x : Item) {s : St} (hs : Hg log s) (hp : s.proc = some g) (hf : s.frame = none)
    (hb : s.msgBlock = true)
    (hx : (r = none ∧ x = .ev .procOk) ∨ (∃ k t, r = some (.ext k t) ∧ x = .ev (.procErr k t))) :
    LRel log s (procResult cfg inner g r { s with out := x :: s.out }) := by
  have hq := hs.gProc g hp
  -- the generator's Deferred has fired
  have h1 : ∃ s1, procFired cfg g r { s with out := x :: s.out } = s1 ∧ LRel log s s1 ∧ s1.proc = none ∧ s1.msgBlock = true ∧
      gm log s1 = gm log s ∧ s1.fetchOffset = s.fetchOffset := by
    unfold procFired
    rcases hx with ⟨rfl, rfl⟩ | ⟨k, t, rfl, rfl⟩
    · simp only []
      have a : Hg log { ({ s with out := Item.ev Ev.procOk :: s.out } : St) with proc := none, lastProcessed := some g.last } := by
        hg_fields hs
      obtain ⟨k1, k2, k3, k4, k5, k6, k7, k8, k9, k10⟩ := autoCommit_k log cfg true _ a
      exact ⟨_, rfl, ⟨k1, k2, fun h => k3.trans h⟩, k6, k9.trans hb, k4.trans (by simp [gm, runR_cons, C02.gapStep]), k5⟩
    · simp only []
      have a : Hg log { ({ s with out := Item.ev (Ev.procErr k t) :: s.out } : St) with proc := none } := by
        hg_fields hs
      obtain ⟨k1, k2, k3, k4, k5, k6, k7, k8, k9, k10⟩ := handleProcessorError_k log (.ext k t) _ a
      exact ⟨_, rfl, ⟨k1, k2, fun h => k3.trans h⟩, k6, k9.trans hb, k4.trans (by simp [gm, runR_cons, C02.gapStep]), k5⟩
  obtain ⟨s1, e1, r1, p1, b1, m1, f1⟩ := h1
  have hres : ∀ passed, LRel log s (procResume cfg inner g passed s1) := by
    intro passed
    unfold procResume
    split
    · exact r1
    · simp only []
      obtain ⟨h3, z3⟩ := procLoop_h hin (g.rest.length + 1) g.rest r1 p1 (r1.2.1.trans hf) (Or.inl b1) (Nat.lt_succ_self _)
        (fun _ _ => LoopG.keeps m1 f1 (Or.inl ⟨g.last, hq.1, hq.2.1, hq.2.2⟩))
      split
      · exact h3
      · rename_i hcond
        have hp3 : (procLoop cfg inner (g.rest.length + 1) g.rest s1).1.proc = none := by
          cases hpp : (procLoop cfg inner (g.rest.length + 1) g.rest s1).1.proc with
          | none => rfl
          | some g' => simp [hpp] at hcond
        exact h3.trans (finishFull_h hin hcfg h3.1 hp3 (h3.2.1.trans hf) (z3 (by
          cases hd : (procLoop cfg inner (g.rest.length + 1) g.rest s1).2 with
          | true => rfl
          | false => simp [hd] at hcond) hp3))
  unfold procResult
  simp only []
  rw [e1]
  split
  · exact (commitAndStop_h hin).stepL (hres _)
  · exact hres _

/-- `stop()`: the block is dropped and the suspended generator's Deferred cancelled. -/
theorem stopBlockProc_h {s : St} (hs : Hg log s) (hst : s.stopping = true) :
    HRel log s (stopBlockProc cfg inner s) ∧ (stopBlockProc cfg inner s).parked = none := by
  have hsb : HRel log s (stopBlock s) ∧ (stopBlock s).parked = none ∧ (stopBlock s).msgBlock = false ∧ (stopBlock s).stopping = true := by
    unfold stopBlock
    split
    · refine ⟨?_, rfl, rfl, hst⟩
      have hx := HRel.refl hs
      hleaf hx
    · rename_i hmb
      refine ⟨HRel.refl hs, ?_, by simpa using hmb, hst⟩
      cases hpk : s.parked with
      | none => rfl
      | some r => exact absurd (hs.parkedBlock (by rw [hpk]; rfl)) hmb
  obtain ⟨h1, pk1, mb1, st1⟩ := hsb
  unfold stopBlockProc
  split
  · rename_i g hg
    generalize stopBlock s = t at *
    have hcancel : (Fail.ext ErrKind.cancelled 0).isCancelled = true := rfl
    have a : Hg log { emit .procCancel t with proc := none } := by
      have ht := h1.1
      hg_fields ht
    obtain ⟨k1, k2, k3, k4, k5, k6, k7, k8, k9, k10⟩ := handleProcessorError_k log (.ext .cancelled 0) _ a
    have e : procResult cfg inner g (some (.ext .cancelled 0)) (emit .procCancel t) =
        (if g.shutWait then commitAndStop cfg inner (handleProcessorError (.ext .cancelled 0) { emit .procCancel t with proc := none })
         else handleProcessorError (.ext .cancelled 0) { emit .procCancel t with proc := none }) := by
      have hpass : procErrPassed (.ext .cancelled 0) (emit .procCancel t) = false := by
        simp [procErrPassed, emit, st1, hcancel]
      unfold procResult
      simp only [hpass]
      unfold procFired
      simp only []
      rw [procResume_stopping cfg inner g _ (by rw [k7]; simpa [emit] using st1) (by rw [k9]; simpa [emit] using mb1) k6]
    rw [e]
    have r2 : HRel log s (handleProcessorError (.ext .cancelled 0) { emit .procCancel t with proc := none }) :=
      ⟨k1, k2.trans h1.2.1, fun hh => k3.trans (by simpa [emit] using h1.2.2.1 hh), fun _ => k6⟩
    have pk2 : (handleProcessorError (.ext .cancelled 0) { emit .procCancel t with proc := none }).parked = none := k3.trans (by simpa [emit] using pk1)
    split
    · have := commitAndStop_h (cfg := cfg) hin _ r2.1
      exact ⟨r2.trans this, this.2.2.1 pk2⟩
    · exact ⟨r2, pk2⟩
  · exact ⟨h1, pk1⟩

theorem stopReq_h : PresH log (stopReq cfg) := by
  intro s hs
  have hx := HRel.refl hs
  unfold stopReq
  split
  · simp only []
    rename_i k kind c hreq
    have hpk : s.parked = none := by
      cases hpp : s.parked with
      | none => rfl
      | some r =>
        obtain ⟨k', hk'⟩ := hs.parkedReq (by rw [hpp]; rfl)
        rw [hreq] at hk'; cases hk'
    have h1 : HRel log s { emit (.cancelReq k) s with requestD := .pending k kind true } := by hleaf hx
    split
    · split
      · exact handleFetchError_h log cfg hcfg _ h1 (by simpa [emit] using hpk)
      · exact handleOffsetError_h log cfg _ h1 (by simpa [emit] using hpk)
    · exact h1
  · exact hx

theorem stopReq_stopping (s : St) : (stopReq cfg s).stopping = s.stopping := by
  unfold stopReq handleFetchError handleOffsetError fetchErrorTail offsetErrorTail startErrback retryFetch emit
  grind

theorem stopFinish_h {s0 s : St} (h : HRel log s0 s) (hpk : s.parked = none) : HRel log s0 (stopFinish s) := by
  unfold stopFinish crash
  simp only []
  split
  · hleaf h
  · hleaf h
  · hleaf h

theorem stopCore_h : PresH log (stopCore cfg inner) := by
  intro s hs
  have h0 : HRel log s { s with stopping := true } := by
    have hx := HRel.refl hs
    hleaf hx
  have h1 := (stopReq_h hin hcfg).step h0
  have st1 : (stopReq cfg { s with stopping := true }).stopping = true := by rw [stopReq_stopping hin hcfg]
  obtain ⟨h2, pk2⟩ := stopBlockProc_h hin hcfg h1.1 st1
  unfold stopCore
  simp only []
  generalize stopBlockProc cfg inner (stopReq cfg { s with stopping := true }) = t at *
  have h3 : ∀ fuel, HRel log t (stopTimers (stopCommitReq cfg inner (cancelWaiters cfg inner fuel (stopRetry t)))) :=
    fun fuel => (stopTimers_k log).toH.step ((stopCommitReq_h hin).step ((cancelWaiters_h hin fuel).step ((stopRetry_k log).toH.step (HRel.refl h2.1))))
  exact stopFinish_h hin hcfg (h1.trans (h2.trans (h3 _))) ((h3 _).2.2.1 pk2)

theorem stop_h : PresH log (stop cfg inner) := by
  intro s hs
  unfold stop
  split
  · have hx := HRel.refl hs
    hleaf hx
  · simp only []
    have h1 := stopCore_h hin hcfg s hs
    hleaf h1

theorem shutdown_h : PresH log (shutdown cfg inner) := by
  intro s hs
  have hx := HRel.refl hs
  unfold shutdown
  split
  · hleaf hx
  · split
    · hleaf hx
    · simp only []
      split
      · rename_i g hg
        hleaf hx
      · exact (commitAndStop_h hin).step (by hleaf hx)

theorem mkOps_h : OpsH log (mkOps cfg inner) :=
  ⟨stop_h hin hcfg, stopCore_h hin hcfg, (commitUser_k log cfg).toH, shutdown_h hin hcfg, fun s => Or.inl (stopCore_startD' cfg inner s)⟩

end

theorem opsN_h (log : List Msg) (cfg : Cfg) (hcfg : ∀ v, cfg.reset = some v → v < 0) : ∀ n, OpsH log (opsN cfg n)
  | 0 => ⟨(crash_k log _).toH, (crash_k log _).toH, (crash_k log _).toH, (crash_k log _).toH,
      fun s => Or.inr (by simp [opsN, DepthCrash, crash, emit])⟩
  | n + 1 => mkOps_h (opsN_h log cfg hcfg n) hcfg

end Afkak.Proofs.Consumer.A
