import AfkakProofs.Consumer.DelayFacts
/-!
# The consumer invariant `G`, the proof combinators, and the handlers that call no other handler
-/
namespace Afkak.Proofs.Consumer
open Afkak.Consumer Afkak.Monitor Afkak.Consts

variable [EnvHyp]

/-- Everything that holds of a reachable state at every point where the re-entrant API may run. -/
structure G (cfg : Cfg) (s : St) : Prop where
  g1 : G1 s
  sf : Gsf s
  res : Gres s
  ack : Gack s
  fo : Gfo s
  pay : Gpay s
  gr : Ggr cfg s
  halt : Ghalt s
  inc : EnvHyp.sane → Ginc cfg s

/-- `x` is a good successor of `s`: the invariant holds and the executing generator is untouched. -/
def Good (cfg : Cfg) (s x : St) : Prop := G cfg x ∧ x.frame = s.frame

def Pres (cfg : Cfg) (h : St → St) : Prop := ∀ s, G cfg s → Good cfg s (h s)

theorem Good.refl {cfg : Cfg} {s : St} (h : G cfg s) : Good cfg s s := ⟨h, rfl⟩

theorem Pres.step {cfg : Cfg} {h : St → St} (hh : Pres cfg h) {s x : St} (hx : Good cfg s x) :
    Good cfg s (h x) :=
  ⟨(hh x hx.1).1, (hh x hx.1).2.trans hx.2⟩

theorem Good.trans {cfg : Cfg} {s x y : St} (h1 : Good cfg s x) (h2 : Good cfg x y) : Good cfg s y :=
  ⟨h2.1, h2.2.trans h1.2⟩

/-- close `G1 X` (X an explicit update of a state whose `G1` fields are in the context) -/
macro "g1_fields" : tactic => `(tactic|
  (constructor <;> ((try unfold emit at *); (try unfold oifOf at *); grind [C02.ovStep, C03.oifStep, C03.oifDone, C03.clpStep, procTrack, runR_cons])))

/-- close `Gsf X` likewise -/
macro "gsf_fields" : tactic => `(tactic|
  (constructor <;> ((try unfold emit at *); grind [C02.sfStep, C02.sfIssue, C02.sfDone, activeReq, retryPending, runR_cons])))

/-- close `Gres X` likewise -/
macro "gres_fields" : tactic => `(tactic|
  (constructor <;> ((try unfold emit at *); grind [C03.resStep, runR_cons])))

/-- close `Gack X` likewise -/
macro "gack_fields" : tactic => `(tactic|
  (constructor <;> ((try unfold emit at *); grind [C03.ackStep, ackJ_congr, ackJ_cons, ackJ_commitOk, ackJ_offsetFetch, runR_cons])))

/-- close `Gfo X` likewise -/
macro "gfo_fields" : tactic => `(tactic|
  (constructor <;> ((try unfold emit at *); grind [C13.foStep, runR_cons])))

/-- close `Gpay X` likewise -/
macro "gpay_fields" : tactic => `(tactic|
  (constructor <;> ((try unfold emit at *); grind [C02.payStep, runR_cons])))

/-- close `Ghalt X` likewise -/
macro "ghalt_fields" : tactic => `(tactic|
  (constructor <;> ((try unfold emit at *); grind [C03.haltStep, runR_cons])))

/-- close `Ggr cfg X` likewise -/
macro "ggr_fields" : tactic => `(tactic|
  (constructor <;> ((try unfold emit at *); grind [C14.grStep, runR_cons])))

/-- close `Ginc cfg X` likewise -/
syntax "ginc_fields" ident : tactic
macro_rules
  | `(tactic| ginc_fields $hi) => `(tactic|
      (intro hP
       obtain ⟨i1, i2a, i2b, i2c, i2d, i2e, i3, i4, i5, i6, i7⟩ := $hi hP
       clear $hi
       constructor <;> ((try unfold emit at *); grind [C02.incStep, runR_cons])))

/-- `Good cfg s X` for an explicit update `X` of `x`, from `hx : Good cfg s x`. -/
syntax "leaf" ident : tactic
macro_rules
  | `(tactic| leaf $hx) => `(tactic|
      (obtain ⟨⟨⟨h1, h2, h2c, h2b, h3, h4, h5, h6, h7, h8, h9, h10, h11, h12, h13⟩,
                ⟨k1, k2, k3, k4, k5, k6⟩, ⟨r1, r2⟩, ⟨a1, a2, a3⟩, ⟨f1, f2, f3⟩, ⟨p1, p2, p3, p4⟩, ⟨w1, w2, w3⟩, ⟨u1, u2⟩, hinc⟩, hfr⟩ := $hx
       refine ⟨⟨?_, ?_, ?_, ?_, ?_, ?_, ?_, ?_, ?_⟩, ?_⟩
       · (clear hinc p1 p2 p3 p4 w1 w2 w3 u1 u2; g1_fields)
       · (clear hinc p1 p2 p3 p4 w1 w2 w3 u1 u2; gsf_fields)
       · (clear hinc p1 p2 p3 p4 w1 w2 w3 u1 u2; gres_fields)
       · (clear hinc p1 p2 p3 p4 w1 w2 w3 u1 u2; gack_fields)
       · (clear hinc p1 p2 p3 p4 w1 w2 w3 u1 u2; gfo_fields)
       · (clear hinc h1 h2 h2c h2b h3 h4 h5 h6 h7 h8 h9 h10 h11 h12 h13 k1 k2 k3 k4 a1 a2 a3 r1 r2 f1 f2 f3 w1 w2 w3 u1 u2; gpay_fields)
       · (clear hinc h1 h2 h2c h2b h3 h4 h5 h6 h7 h8 h9 h10 h11 h12 h13 k1 k2 k3 k4 a1 a2 a3 r1 r2 f1 f2 f3 p1 p2 p3 p4 u1 u2; ggr_fields)
       · (clear hinc h3 h4 h5 h6 h7 h8 h9 h10 h11 h12 h13 k1 k2 k3 k4 a1 a2 a3 r1 r2 f1 f2 f3 p1 p2 p3 p4 w1 w2 w3; ghalt_fields)
       · (clear p1 p2 p3 p4 w1 w2 w3 u1 u2; ginc_fields hinc)
       · first | exact hfr | (simp only []; exact hfr) | grind))

/-- `G cfg X` for an explicit update `X` of `x` (which may replace the frame), from `hx : G cfg x`. -/
syntax "gleaf" ident : tactic
macro_rules
  | `(tactic| gleaf $hx) => `(tactic|
      (obtain ⟨⟨h1, h2, h2c, h2b, h3, h4, h5, h6, h7, h8, h9, h10, h11, h12, h13⟩,
               ⟨k1, k2, k3, k4, k5, k6⟩, ⟨r1, r2⟩, ⟨a1, a2, a3⟩, ⟨f1, f2, f3⟩, ⟨p1, p2, p3, p4⟩, ⟨w1, w2, w3⟩, ⟨u1, u2⟩, hinc⟩ := $hx
       refine ⟨?_, ?_, ?_, ?_, ?_, ?_, ?_, ?_, ?_⟩
       · (clear hinc p1 p2 p3 p4 w1 w2 w3 u1 u2; g1_fields)
       · (clear hinc p1 p2 p3 p4 w1 w2 w3 u1 u2; gsf_fields)
       · (clear hinc p1 p2 p3 p4 w1 w2 w3 u1 u2; gres_fields)
       · (clear hinc p1 p2 p3 p4 w1 w2 w3 u1 u2; gack_fields)
       · (clear hinc p1 p2 p3 p4 w1 w2 w3 u1 u2; gfo_fields)
       · (clear hinc h1 h2 h2c h2b h3 h4 h5 h6 h7 h8 h9 h10 h11 h12 h13 k1 k2 k3 k4 a1 a2 a3 r1 r2 f1 f2 f3 w1 w2 w3 u1 u2; gpay_fields)
       · (clear hinc h1 h2 h2c h2b h3 h4 h5 h6 h7 h8 h9 h10 h11 h12 h13 k1 k2 k3 k4 a1 a2 a3 r1 r2 f1 f2 f3 p1 p2 p3 p4 u1 u2; ggr_fields)
       · (clear hinc h3 h4 h5 h6 h7 h8 h9 h10 h11 h12 h13 k1 k2 k3 k4 a1 a2 a3 r1 r2 f1 f2 f3 p1 p2 p3 p4 w1 w2 w3; ghalt_fields)
       · (clear p1 p2 p3 p4 w1 w2 w3 u1 u2; ginc_fields hinc)))

/-- `Pres cfg h` for a handler that calls no other handler: unfold and check every path. -/
syntax "pres_leaf" "[" ident* "]" : tactic
macro_rules
  | `(tactic| pres_leaf [$ds*]) => `(tactic|
      (intro s hs
       have hx := Good.refl hs
       unfold $ds*
       (try unfold emit)
       obtain ⟨⟨⟨h1, h2, h2c, h2b, h3, h4, h5, h6, h7, h8, h9, h10, h11, h12, h13⟩,
                ⟨k1, k2, k3, k4, k5, k6⟩, ⟨r1, r2⟩, ⟨a1, a2, a3⟩, ⟨f1, f2, f3⟩, ⟨p1, p2, p3, p4⟩, ⟨w1, w2, w3⟩, ⟨u1, u2⟩, hinc⟩, hfr⟩ := hx
       refine ⟨⟨?_, ?_, ?_, ?_, ?_, ?_, ?_, ?_, ?_⟩, ?_⟩
       · (clear hinc p1 p2 p3 p4 w1 w2 w3 u1 u2; g1_fields)
       · (clear hinc p1 p2 p3 p4 w1 w2 w3 u1 u2; gsf_fields)
       · (clear hinc p1 p2 p3 p4 w1 w2 w3 u1 u2; gres_fields)
       · (clear hinc p1 p2 p3 p4 w1 w2 w3 u1 u2; gack_fields)
       · (clear hinc p1 p2 p3 p4 w1 w2 w3 u1 u2; gfo_fields)
       · (clear hinc h1 h2 h2c h2b h3 h4 h5 h6 h7 h8 h9 h10 h11 h12 h13 k1 k2 k3 k4 a1 a2 a3 r1 r2 f1 f2 f3 w1 w2 w3 u1 u2; gpay_fields)
       · (clear hinc h1 h2 h2c h2b h3 h4 h5 h6 h7 h8 h9 h10 h11 h12 h13 k1 k2 k3 k4 a1 a2 a3 r1 r2 f1 f2 f3 p1 p2 p3 p4 u1 u2; ggr_fields)
       · (clear hinc h3 h4 h5 h6 h7 h8 h9 h10 h11 h12 h13 k1 k2 k3 k4 a1 a2 a3 r1 r2 f1 f2 f3 p1 p2 p3 p4 w1 w2 w3; ghalt_fields)
       · (clear p1 p2 p3 p4 w1 w2 w3 u1 u2; ginc_fields hinc)
       · grind))

/-- the outstanding fetch/offset request is never the commit request -/
theorem sf_ne_commit {cfg : Cfg} {s : St} (hs : G cfg s) (r : CommitReq) (hr : s.commitReq = some r) :
    (runR C02.sfStep {} s.out).req ≠ some r.k := by
  rw [hs.sf.sfReq]
  intro h
  cases hq : s.requestD with
  | none => rw [hq] at h; simp [activeReq] at h
  | parked k => rw [hq] at h; simp [activeReq] at h
  | pending k kind c =>
    rw [hq] at h
    cases c with
    | true => simp [activeReq] at h
    | false =>
      simp only [activeReq, Option.some.injEq] at h
      exact hs.g1.idsNe k kind false r hq hr h

theorem crash_pres (cfg : Cfg) (site : String) : Pres cfg (crash site) := by pres_leaf [crash]
theorem emitAct_pres (cfg : Cfg) (a : Act) : Pres cfg (emit (.act a)) := by pres_leaf []
theorem probe_pres (cfg : Cfg) : Pres cfg probe := by pres_leaf [probe]
theorem startErrback_pres (cfg : Cfg) (f : Fail) (hf : f ≠ .tooSmall) : Pres cfg (startErrback f) := by
  cases f with
  | tooSmall => exact absurd rfl hf
  | ext k t => pres_leaf [startErrback]
  | invalidGroup => pres_leaf [startErrback]
  | opInProgress n => pres_leaf [startErrback]
theorem retryFetch_pres (cfg : Cfg) (a : Option Rat) : Pres cfg (retryFetch cfg a) := by pres_leaf [retryFetch]
theorem looperReset_pres (cfg : Cfg) : Pres cfg (looperReset cfg) := by pres_leaf [looperReset]
theorem handleAutoCommitError_pres (cfg : Cfg) (f : Fail) (hf : f ≠ .tooSmall) : Pres cfg (handleAutoCommitError f) := by
  intro s hs
  unfold handleAutoCommitError
  split
  · exact Good.refl hs
  · split
    · exact startErrback_pres cfg f hf s hs
    · exact Good.refl hs
theorem handleProcessorError_pres (cfg : Cfg) (f : Fail) (hf : f ≠ .tooSmall) : Pres cfg (handleProcessorError f) := by
  intro s hs
  unfold handleProcessorError
  split
  · exact Good.refl hs
  · exact startErrback_pres cfg f hf s hs
theorem stopRetry_pres (cfg : Cfg) : Pres cfg stopRetry := by pres_leaf [stopRetry]
theorem stopTimers_pres (cfg : Cfg) : Pres cfg stopTimers := by pres_leaf [stopTimers]
/-- `stop()`'s last statements, once the refetch timer is gone -/
theorem stopFinish_good {cfg : Cfg} {s0 s : St} (h : Good cfg s0 s) (hq : retryPending s.retryCall = false)
    (hrq : activeReq s.requestD = none) (hpk : s.parked = none) (hp : s.proc = none) :
    Good cfg s0 (stopFinish s) := by
  unfold stopFinish crash
  simp only []
  split
  · leaf h
  · leaf h
  · leaf h
theorem sendCommitRequest_pres (cfg : Cfg) (d : Option Rat) (a : Option Nat) : Pres cfg (sendCommitRequest cfg d a) := by
  pres_leaf [sendCommitRequest crash]

end Afkak.Proofs.Consumer
