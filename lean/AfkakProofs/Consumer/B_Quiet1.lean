import AfkakProofs.Consumer.Inv1
/-!
# Quiescence after `stop()` (monitor `C13.qStep`) for a consumer WITHOUT a consumer group

The invariant `QF` ties the state of the monitor `C13.qStep` (timers armed, requests outstanding and
uncancelled, processor result pending, `running`) to the model state along every trace, for a
configuration without a consumer group (no commit traffic, no auto-commit looper: the commit side of the
consumer is dead code then, and `QF` says so).
-/
namespace Afkak.Proofs.Consumer.B
open Afkak.Consumer Afkak.Monitor Afkak.Consts Afkak.Proofs.Consumer

/-- timers the model has armed (no consumer group: only the refetch timer exists) -/
def timersOf (s : St) : List TimerKind := if retryPending s.retryCall then [.retry] else []

/-- requests outstanding and uncancelled (no consumer group: only `_request_d`) -/
def reqsOf (s : St) : List Nat :=
  match activeReq s.requestD with
  | some k => [k]
  | none => []

structure QF (s : St) : Prop where
  ds : s.commitDs = []
  cr : s.commitReq = none
  cc : ∀ d dl a, s.commitCall ≠ .pending d dl a
  lp : s.looper = none
  ok : (runR C13.qStep {} s.out).bad = false
  run : s.startD ≠ .none → (runR C13.qStep {} s.out).running = true
  tm : (runR C13.qStep {} s.out).timers = timersOf s
  rq : (runR C13.qStep {} s.out).reqs = reqsOf s
  pp : (runR C13.qStep {} s.out).procPending = s.proc.isSome
  retryRun : retryPending s.retryCall = true → s.startD ≠ .none
  reqRun : ∀ k, activeReq s.requestD = some k → s.startD ≠ .none
  procRun : s.proc.isSome = true → s.startD ≠ .none
  parkedReq : s.parked.isSome = true → ∃ k, s.requestD = .parked k
  parkedBlock : s.parked.isSome = true → s.msgBlock = true
  procBlock : s.proc.isSome = true → s.msgBlock = true

def PQ (h : St → St) : Prop := ∀ s, QF s → QF (h s)

/-- close `QF X` (X an explicit update of a state whose `QF` fields are in the context) -/
macro "qf_fields" : tactic => `(tactic|
  (constructor <;> ((try unfold emit at *); grind [C13.qStep, C13.qActive, C13.qCommitActive, C13.qQuiet, runR_cons, timersOf, reqsOf, activeReq, retryPending])))

syntax "qf_leaf" ident : tactic
macro_rules
  | `(tactic| qf_leaf $h) => `(tactic|
      (obtain ⟨q1, q2, q3, q4, q5, q6, q7, q8, q9, q10, q11, q12, q13, q14, q15⟩ := $h
       qf_fields))

theorem crash_pq (site : String) : PQ (crash site) := by
  intro s h; unfold crash; qf_leaf h

theorem startErrback_pq (f : Fail) : PQ (startErrback f) := by
  intro s h; unfold startErrback; split <;> qf_leaf h

theorem retryFetch_pq (cfg : Cfg) (a : Option Rat) : PQ (retryFetch cfg a) := by
  intro s h; unfold retryFetch; split
  · exact h
  · split <;> qf_leaf h

theorem doFetch_q (cfg : Cfg) (hg : cfg.group = false) (s : St) (h : QF s) (hr : s.startD ≠ .none) : QF (doFetch cfg s) := by
  unfold doFetch startErrback errbackRaises
  simp only [hg]
  repeat' split
  all_goals qf_leaf h


theorem offsetResponseTail_q (cfg : Cfg) (hg : cfg.group = false) (isFetch : Bool) (off : Int) (s : St) (h : QF s) :
    QF (offsetResponseTail cfg isFetch off s) := by
  unfold offsetResponseTail
  split
  · exact h
  · rename_i hr
    apply doFetch_q cfg hg
    · repeat' split
      all_goals qf_leaf h
    · repeat' split
      all_goals (simp only []; simpa using hr)

theorem offsetErrorTail_pq (cfg : Cfg) (f : Fail) : PQ (offsetErrorTail cfg f) := by
  intro s h; unfold offsetErrorTail
  repeat' split
  all_goals first | exact h | exact startErrback_pq f s h | exact retryFetch_pq cfg none s h

theorem fetchErrorTail_pq (cfg : Cfg) (f : Fail) : PQ (fetchErrorTail cfg f) := by
  intro s h; unfold fetchErrorTail
  simp only []
  have h2 : QF { s with fetchOffset := cfg.reset.getD s.fetchOffset } := by qf_leaf h
  repeat' split
  all_goals first | exact h | exact h2 | exact startErrback_pq f _ h | exact startErrback_pq f _ h2 | exact retryFetch_pq cfg none _ h | exact retryFetch_pq cfg none _ h2

theorem autoCommit_eq (cfg : Cfg) (hg : cfg.group = false) (b : Bool) (s : St) : autoCommit cfg b s = s := by
  simp [autoCommit, hg]

theorem commitUser_pq (cfg : Cfg) (hg : cfg.group = false) : PQ (commitUser cfg) := by
  intro s h
  have e1 : commitResult cfg .user s = some (.err .invalidGroup) := by simp [commitResult, hg]
  have e2 : commitState cfg .user s = s := by simp [commitState, hg]
  unfold commitUser
  simp only [e1, e2]
  qf_leaf h

theorem handleProcessorError_pq (f : Fail) : PQ (handleProcessorError f) := by
  intro s h; unfold handleProcessorError; split
  · exact h
  · exact startErrback_pq f s h

theorem startErrback_keeps' (f : Fail) (s : St) : Keeps s (startErrback f s) := by
  unfold Keeps startErrback emit; grind
theorem handleProcessorError_keeps' (f : Fail) (s : St) : Keeps s (handleProcessorError f s) := by
  unfold handleProcessorError
  split
  · exact ⟨rfl, rfl, rfl, Iff.rfl, rfl, rfl, rfl⟩
  · exact startErrback_keeps' f s
theorem startErrback_proc (f : Fail) (s : St) : (startErrback f s).proc = s.proc := by
  unfold startErrback; split <;> rfl
theorem handleProcessorError_proc (f : Fail) (s : St) : (handleProcessorError f s).proc = s.proc := by
  unfold handleProcessorError; split
  · rfl
  · exact startErrback_proc f s

/-- the invariant, at a point where the `_process_messages` generator is executing (it is not suspended; while the
    consumer runs its block of messages is in progress) -/
def QN (s : St) : Prop := QF s ∧ s.proc = none ∧ (s.startD ≠ .none → s.stopping = false → s.msgBlock = true)

theorem qn_keeps {s s' : St} (hk : Keeps s s') (hq : QF s') (h : QN s) : QN s' := by
  refine ⟨hq, hk.1.trans h.2.1, fun hs' hst' => ?_⟩
  have h1 : s.startD ≠ .none := fun e => hs' (hk.2.2.2.1.mpr e)
  have h2 : s.stopping = false := by rw [← hk.2.1]; exact hst'
  rw [hk.2.2.1]; exact h.2.2 h1 h2

def PN' (h : St → St) : Prop := ∀ s, QN s → QN (h s)

/-- the re-entrant API preserves the invariant (it is called while the generator is executing) -/
structure OpsQ (inner : Ops) : Prop where
  stop : PN' inner.stop
  stopCore : PN' inner.stopCore
  commit : PN' inner.commit
  shutdown : PN' inner.shutdown

theorem procLeave_keeps' (res : PRes) (rest' : List Msg) (last : Int) (s : St) :
    (procLeave res rest' last s).stopping = s.stopping ∧ (procLeave res rest' last s).msgBlock = s.msgBlock ∧
    (procLeave res rest' last s).startD = s.startD := by
  unfold procLeave emit
  repeat' split
  all_goals exact ⟨rfl, rfl, rfl⟩

section
variable {cfg : Cfg} (hg : cfg.group = false) {inner : Ops} (hin : OpsQ inner)
include hin

theorem procActs_pn (acts : List Act) : PN' (procActs inner acts) := by
  unfold procActs
  induction acts with
  | nil => intro s h; exact h
  | cons a as ih =>
    intro s h
    simp only [List.foldl_cons]
    apply ih
    have h1 : QN (emit (.act a) s) := ⟨by obtain ⟨h, _⟩ := h; cases a <;> qf_leaf h, h.2⟩
    cases a <;> simp only [runAct]
    · exact hin.stop _ h1
    · exact hin.commit _ h1
    · exact hin.shutdown _ h1

omit hin in
theorem procEnter_q (blk rest' : List Msg) (last : Int) (s : St) (h : QN s) (hr : s.startD ≠ .none) :
    QN (procEnter blk rest' last s) := by
  obtain ⟨h, hp⟩ := h
  refine ⟨?_, hp⟩
  unfold procEnter; qf_leaf h

omit hin in
theorem procLeave_q (res : PRes) (rest' : List Msg) (last : Int) (s : St) (h : QN s) : QF (procLeave res rest' last s) := by
  obtain ⟨h, hp, hb⟩ := h
  unfold procLeave
  repeat' split
  all_goals qf_leaf h

include hg
theorem procBody_q (k : St → St × Bool) (hk : ∀ s, QN s → s.startD ≠ .none → QF (k s).1)
    (blk rest' : List Msg) (last : Int) (e : PEntry) (s : St) (h : QN s) (hr : s.startD ≠ .none) :
    QF (procBody cfg inner k blk rest' last e s).1 := by
  have h2 : QN (procActs inner e.acts (procEnter blk rest' last s)) := procActs_pn hin _ _ (procEnter_q blk rest' last s h hr)
  have h3 := procLeave_q e.res rest' last _ h2
  have hk3 := procLeave_keeps' e.res rest' last (procActs inner e.acts (procEnter blk rest' last s))
  unfold procBody
  simp only []
  generalize procActs inner e.acts (procEnter blk rest' last s) = s2 at h2 h3 hk3
  cases hres : e.res with
  | ok =>
    rw [hres] at h3 hk3
    simp only []
    rw [autoCommit_eq cfg hg]
    have hp3 : QN (procLeave .ok rest' last s2) :=
      ⟨h3, h2.2.1, by rw [hk3.2.2, hk3.1, hk3.2.1]; exact h2.2.2⟩
    split
    · exact h3
    · rename_i hc
      apply hk _ hp3
      intro h0
      simp [h0] at hc
  | err kd t =>
    rw [hres] at h3 hk3
    simp only []
    have hp3 : QN (procLeave (.err kd t) rest' last s2) :=
      ⟨h3, h2.2.1, by rw [hk3.2.2, hk3.1, hk3.2.1]; exact h2.2.2⟩
    have h4 := handleProcessorError_pq (.ext kd t) _ h3
    have hp4 := qn_keeps (handleProcessorError_keeps' (.ext kd t) _) h4 hp3
    split
    · exact h4
    · split
      · exact h4
      · rename_i hc _
        apply hk _ hp4
        intro h0
        simp [h0] at hc
  | defer =>
    rw [hres] at h3
    simp only []
    split
    · exact h3
    · exact handleProcessorError_pq _ _ h3

theorem procLoop_q : ∀ (fuel : Nat) (rest : List Msg) (s : St), QN s → s.startD ≠ .none →
    QF (procLoop cfg inner fuel rest s).1 := by
  intro fuel
  induction fuel with
  | zero => intro rest s h _; exact h.1
  | succ n ih =>
    intro rest s h hr
    unfold procLoop
    split
    · exact h.1
    · split
      · exact h.1
      · exact procBody_q hg hin _ (fun s' h' hr' => ih _ s' h' hr') _ _ _ _ s h hr

end

end Afkak.Proofs.Consumer.B
