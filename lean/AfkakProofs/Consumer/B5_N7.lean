import AfkakProofs.Consumer.B5_N6
/-!
# Quiescence after `stop()`: `shutdown()`, its continuations, `_deliver_commit_result`
-/
namespace Afkak.Proofs.Consumer.BN
open Afkak.Consumer Afkak.Monitor Afkak.Consts Afkak.Proofs.Consumer

set_option linter.unusedSectionVars false

variable [EnvHyp]

/-- `inner.stopCore` behaves like `stop()`'s body -/
def OpsS (inner : Ops) : Prop := ∀ s, QG 0 s → s.startD ≠ .none → QS (inner.stopCore s) ∧ Stopped (inner.stopCore s)

/-- what the caller of a shutdown continuation needs to know about the state it returns -/
def After (s s' : St) : Prop :=
  (s.proc = none → s'.proc = none) ∧
    (s'.startD = .none ∨ ((s'.startD = .none ↔ s.startD = .none) ∧ s'.msgBlock = s.msgBlock))

theorem After.of_keeps {s s' : St} (hk : Keeps s s') : After s s' :=
  ⟨fun hp => hk.1.trans hp, Or.inr ⟨hk.2.2.2.1, hk.2.2.1⟩⟩

theorem commitState_of_ok (cfg : Cfg) (w : Who) (s : St) (v : Option Int) (h : commitResult cfg w s = some (.ok v)) :
    commitState cfg w s = s := by
  unfold commitResult at h
  split at h
  · cases h
  · rename_i h1
    split at h
    · rename_i h2
      unfold commitState
      simp [h1, h2]
    · split at h
      · cases w <;> cases h
      · cases h

/-- `commit()` of `shutdown()` fails at once only with OperationInProgress (the group is configured) -/
theorem commitResult_shut_err (cfg : Cfg) (s : St) (f : Fail) (hg : ¬(!cfg.group) = true)
    (h : commitResult cfg .shut s = some (.err f)) : f = .opInProgress 0 := by
  unfold commitResult at h
  rw [if_neg hg] at h
  split at h
  · cases h
  · split at h
    · simp only [Option.some.injEq, DRes.err.injEq] at h; exact h.symm
    · cases h

section
variable {cfg : Cfg} {inner : Ops} (hs : OpsS inner)
include hs

/-- the tail of the shutdown continuations, when they are NOT run by `stop()` itself; the caller holds the shutdown's token -/
theorem shutdownFinish_run_q (r : Option Fail) (s : St) (h : QG 1 s) (hst : s.stopping = false) :
    QS (shutdownFinish inner r s) ∧ After s (shutdownFinish inner r s) := by
  have hsh := h.sh (by omega)
  have h1 : QG 0 { s with shutdownD := false } := by qg_leaf h
  have e : nestedStop inner { s with shutdownD := false } = inner.stopCore { s with shutdownD := false } := by
    unfold nestedStop
    rw [if_neg (by simp [hst]), if_neg (by simpa using hsh.1)]
  have hsd : s.shutdownD = true := by
    cases hq : s.shutdownD with
    | true => rfl
    | false => have := h.sd hq; omega
  obtain ⟨a, b⟩ := hs _ h1 (by simpa using hsh.1)
  have hle := lists_empty a.1 b.retry b.ccall (by simp [looperDue, b.looper]) b.req b.creq
  have b1 := b.startD
  have b2 := b.proc
  have b3 := b.creq
  have b4 := b.ccall
  unfold shutdownFinish
  simp only [e]
  generalize inner.stopCore { s with shutdownD := false } = s2 at a b hle b1 b2 b3 b4
  obtain ⟨a, hst2⟩ := a
  obtain ⟨ht, hq⟩ := hle
  unfold crash
  split
  · rename_i hh; simp [hsd] at hh
  · split
    · exact ⟨⟨by qg_leaf a, hst2⟩, fun _ => b2, Or.inl b1⟩
    · exact ⟨⟨by qg_leaf a, hst2⟩, fun _ => b2, Or.inl b1⟩

/-- `_commit_and_stop`, holding the shutdown's token -/
theorem commitAndStop_q (s : St) (h : QG 1 s) (hst : s.stopping = false) :
    QS (commitAndStop cfg inner s) ∧ After s (commitAndStop cfg inner s) := by
  have hsh := h.sh (by omega)
  have hl : Live s := live_of_run h hsh.1
  unfold commitAndStop commitAndStop1
  rw [if_neg (by simp [hst])]
  split
  · exact shutdownFinish_run_q hs none s h hst
  · rename_i hg
    split
    · rename_i v hres
      rw [commitState_of_ok cfg .shut s v hres]
      exact shutdownFinish_run_q hs none s h hst
    · rename_i f hres
      have hf := commitResult_shut_err cfg s f hg hres
      subst hf
      rw [if_pos (by rfl)]
      have hk := commitState_keeps cfg .shut s
      exact ⟨⟨commitState_shut_q cfg 0 s h hl hst (Or.inr hres), hk.2.1.trans hst⟩, After.of_keeps hk⟩
    · rename_i hres
      have hk := commitState_keeps cfg .shut s
      exact ⟨⟨commitState_shut_q cfg 0 s h hl hst (Or.inl hres), hk.2.1.trans hst⟩, After.of_keeps hk⟩

/-- `shutdown()` -/
theorem shutdown_q (s : St) (h : QS s) : QS (shutdown cfg inner s) ∧ After s (shutdown cfg inner s) := by
  obtain ⟨h, hst⟩ := h
  unfold shutdown
  split
  · exact ⟨⟨by qg_leaf h, hst⟩, fun hp => hp, Or.inr ⟨Iff.rfl, rfl⟩⟩
  · split
    · exact ⟨⟨by qg_leaf h, hst⟩, fun hp => hp, Or.inr ⟨Iff.rfl, rfl⟩⟩
    · rename_i hrun hsd
      simp only []
      split
      · rename_i g hp
        refine ⟨⟨by qg_leaf h, hst⟩, fun hp' => ?_, Or.inr ⟨Iff.rfl, rfl⟩⟩
        simp [hp] at hp'
      · rename_i hp
        have h1 : QG 1 { s with shuttingDown := true, shutdownD := true } := by qg_leaf h
        obtain ⟨a, b, c⟩ := commitAndStop_q (cfg := cfg) hs _ h1 hst
        exact ⟨a, b, c⟩


/-- `_deliver_commit_result` fires one Deferred of `_commit_ds` (outside `stop()`) -/
theorem fireWaiter_run_q (r : DRes) (w : Waiter) (x : Nat) (s : St) (h : QG (x + bShut w) s) (hst : s.stopping = false) :
    QG x (fireWaiter cfg inner r s w) ∧ (fireWaiter cfg inner r s w).stopping = false := by
  cases w with
  | user c =>
    have h' : QG x s := by simpa [bShut, isShut] using h
    simp only [fireWaiter]
    exact ⟨by qg_leaf h', hst⟩
  | inProg n =>
    have h' : QG x s := by simpa [bShut, isShut] using h
    simp only [fireWaiter]
    exact ⟨by qg_leaf h', hst⟩
  | autoHead =>
    have h' : QG x s := by simpa [bShut, isShut] using h
    cases r with
    | ok v => simp only [fireWaiter]; exact ⟨h', hst⟩
    | err f =>
      simp only [fireWaiter]
      exact ⟨handleAutoCommitError_pq f x s h', (handleAutoCommitError_keeps f s).2.1.trans hst⟩
  | autoRetry bc =>
    have h' : QG x s := by simpa [bShut, isShut] using h
    cases r with
    | ok v =>
      simp only [fireWaiter]
      exact ⟨autoCommit_q cfg bc x s h', (autoCommit_keeps cfg bc s).2.1.trans hst⟩
    | err f => simp only [fireWaiter]; exact ⟨h', hst⟩
  | shutHead =>
    have h' : QG (x + 1) s := by simpa [bShut, isShut] using h
    have hx : x = 0 := by have := h'.one; omega
    subst hx
    cases r with
    | ok v =>
      simp only [fireWaiter, shutdownSuccess]
      split
      · obtain ⟨a, _⟩ := commitAndStop_q (cfg := cfg) hs s h' hst; exact a
      · obtain ⟨a, _⟩ := shutdownFinish_run_q hs none s h' hst; exact a
    | err f =>
      simp only [fireWaiter]
      obtain ⟨a, _⟩ := shutdownFinish_run_q hs (some f) s h' hst; exact a
  | shutInProg =>
    have h' : QG (x + 1) s := by simpa [bShut, isShut] using h
    have hx : x = 0 := by have := h'.one; omega
    subst hx
    cases r with
    | ok v =>
      simp only [fireWaiter]
      obtain ⟨a, _⟩ := commitAndStop_q (cfg := cfg) hs s h' hst; exact a
    | err f =>
      simp only [fireWaiter]
      obtain ⟨a, _⟩ := shutdownFinish_run_q hs (some f) s h' hst; exact a
  | orphan =>
    have h' : QG x s := by simpa [bShut, isShut] using h
    simp only [fireWaiter]; exact ⟨h', hst⟩

theorem waiters_q (r : DRes) : ∀ (l : List Waiter) (s : St), QG (nShut l) s → s.stopping = false →
    QS (l.foldl (fireWaiter cfg inner r) s) := by
  intro l
  induction l with
  | nil => intro s h hst; exact ⟨by simpa [nShut] using h, hst⟩
  | cons w l ih =>
    intro s h hst
    simp only [List.foldl_cons]
    have h' : QG (nShut l + bShut w) s := by simpa [nShut, bShut, List.countP_cons] using h
    obtain ⟨a, b⟩ := fireWaiter_run_q (cfg := cfg) hs r w (nShut l) s h' hst
    exact ih _ a b

/-- `_deliver_commit_result` (outside `stop()`; the commit request it reports on is gone) -/
theorem deliver_q (r : DRes) (s : St) (h : QG 0 s) (hst : s.stopping = false) (hcr : s.commitReq = none)
    (hcp : commitPending s.commitCall = false) : QS (deliver cfg inner r s) := by
  unfold deliver
  simp only []
  apply waiters_q hs
  · have e : nShut s.commitDs.reverse = nShut s.commitDs := by simp [nShut]
    rw [e]
    qg_leaf h
  · exact hst

/-- `_handle_commit_error` (outside `stop()`; `_commit_req` has been cleared) -/
theorem handleCommitError_run_q (f : Fail) (d : Rat) (a : Nat) (s : St) (h : QG 0 s) (hst : s.stopping = false)
    (hcr : s.commitReq = none) (hcp : commitPending s.commitCall = false) (hl : Live s) (hds : s.commitDs ≠ []) :
    QS (handleCommitError cfg inner f d a s) := by
  unfold handleCommitError Live at *
  rw [if_neg (by simp [hst])]
  repeat' split
  all_goals first
    | exact deliver_q hs _ s h hst hcr hcp
    | exact ⟨by qg_leaf h, hst⟩

end

end Afkak.Proofs.Consumer.BN
