import AfkakProofs.Consumer.A5_TwoRuns4
/-!
# C03, two runs: from run 2's EVENT LIST to the trace-level hypothesis `resumedFrom`

`run cfg script (.start OFFSET_COMMITTED :: .offsetFetchOk 0 stored :: evs)` with no further `start`, offset look-up answer or
coordinator answer among `evs` is a run that `resumedFrom stored`.
-/
namespace Afkak.Proofs.Consumer.A5
open Afkak.Consumer Afkak.Monitor Afkak.Consts Afkak.Props.Open.C02 Afkak.Proofs.Consumer

/-- the events whose items are jumps: `start`, the answer to an offset look-up, the coordinator's answer -/
def isJumpEv : Ev → Bool
  | .start _ => true
  | .offsetOk _ _ => true
  | .offsetFetchOk _ _ => true
  | _ => false

theorem isJump_ev (e : Ev) : isJump (.ev e) = isJumpEv e := by cases e <;> rfl

theorem stepCore_o {cfg : Cfg} (e : Ev) (he : isJumpEv e = false) {a : List Item} {s s' : St} (hx : NJ a s.out)
    (h : stepCore cfg { s with out := .ev e :: s.out } e = some s') : NJ a s'.out := by
  have hin := opsN_o cfg cfg.depth
  have hq : NJ a ({ s with out := .ev e :: s.out } : St).out := NJ_cons _ _ _ (by rw [isJump_ev]; exact he) hx
  cases e with
  | start off => cases he
  | offsetOk k off => cases he
  | offsetFetchOk k off => cases he
  | stop => simp only [stepCore, Option.some.injEq] at h; subst h; exact stop_o hin a _ hq
  | shutdown => simp only [stepCore, Option.some.injEq] at h; subst h; exact shutdown_o hin a _ hq
  | commit => simp only [stepCore, Option.some.injEq] at h; subst h; exact commitUser_o cfg a _ hq
  | fetchOk k r =>
    simp only [stepCore] at h
    split at h
    · simp only [Option.some.injEq] at h; subst h; exact handleFetchResponse_o hin k r a _ hq
    · cases h
  | fetchErr k ek tag =>
    simp only [stepCore] at h
    split at h
    · simp only [Option.some.injEq] at h; subst h; exact handleFetchError_o cfg _ a _ hq
    · cases h
  | offsetErr k ek tag =>
    simp only [stepCore] at h
    split at h
    · simp only [Option.some.injEq] at h; subst h; exact handleOffsetError_o cfg _ a _ hq
    · cases h
  | offsetFetchErr k ek tag =>
    simp only [stepCore] at h
    split at h
    · simp only [Option.some.injEq] at h; subst h; exact handleOffsetError_o cfg _ a _ hq
    · cases h
  | commitOk k =>
    simp only [stepCore] at h
    split at h
    · split at h
      · simp only [Option.some.injEq] at h; subst h; exact deliver_o hin _ a _ hq
      · cases h
    · cases h
  | commitErr k ek tag =>
    simp only [stepCore] at h
    split at h
    · split at h
      · simp only [Option.some.injEq] at h; subst h; exact handleCommitError_o hin _ _ _ a _ hq
      · cases h
    · cases h
  | procOk =>
    simp only [stepCore] at h
    split at h
    · simp only [Option.some.injEq] at h; subst h; exact procResult_o hin _ _ a _ hq
    · cases h
  | procErr ek tag =>
    simp only [stepCore] at h
    split at h
    · simp only [Option.some.injEq] at h; subst h; exact procResult_o hin _ _ a _ hq
    · cases h
  | retryFire =>
    simp only [stepCore] at h
    split at h
    · split at h
      · simp only [Option.some.injEq] at h; subst h; exact doFetch_o cfg a _ hq
      · cases h
    · cases h
  | commitRetryFire =>
    simp only [stepCore] at h
    split at h
    · split at h
      · simp only [Option.some.injEq] at h; subst h; exact sendCommitRequest_o cfg _ _ a _ hq
      · cases h
    · cases h
  | autoCommitTick =>
    simp only [stepCore] at h
    cases hl : s.looper with
    | none => simp [hl] at h
    | some l =>
      cases hd : l.due with
      | none => simp [hl, hd] at h
      | some due =>
        simp only [hl, hd] at h
        split at h
        · have hq1 : NJ a (autoCommit cfg false
              { s with out := .ev .autoCommitTick :: s.out, looper := some { l with due := none } }).out :=
            autoCommit_o cfg false a _ hq
          generalize autoCommit cfg false { s with out := .ev .autoCommitTick :: s.out, looper := some { l with due := none } } = x at h hq1
          split at h
          · simp only [Option.some.injEq] at h; subst h
            exact NJ_cons _ _ _ rfl hq1
          · simp only [Option.some.injEq] at h; subst h
            exact hq1
        · cases h
  | advance dt =>
    simp only [stepCore] at h
    split at h
    · cases h
    · simp only [Option.some.injEq] at h; subst h; exact hq
  | env rq cm =>
    simp only [stepCore, Option.some.injEq] at h; subst h; exact hq

theorem step_o {cfg : Cfg} (e : Ev) (he : isJumpEv e = false) {a : List Item} {s : St} (hx : NJ a s.out) :
    NJ a (step cfg s e).out := by
  unfold step
  split
  · exact NJ_cons _ _ _ rfl hx
  · split
    · exact NJ_cons _ _ _ rfl hx
    · rename_i s' h
      have hq := stepCore_o e he hx h
      split
      · exact hq
      · exact NJ_cons _ _ _ rfl hq

theorem foldl_o {cfg : Cfg} (a : List Item) : ∀ (evs : List Ev) (s : St), NJ a s.out →
    evs.all (fun e => !isJumpEv e) = true → NJ a (evs.foldl (step cfg) s).out
  | [], _, h, _ => h
  | e :: evs, s, h, hev => by
    simp only [List.all_cons, Bool.and_eq_true, Bool.not_eq_eq_eq_not, Bool.not_true] at hev
    exact foldl_o a evs _ (step_o e hev.1 h) (by simpa using hev.2)

/-! ## The trace of a run that starts from the committed position and gets the coordinator's answer -/

theorem resumedFrom_of_split (stored : Int) (k : Nat) (post : List Item) : ∀ (pre : List Item),
    pre.all (fun x => !isAnswer x && !isProc x) = true → post.all (fun x => !isJump x) = true →
    resumedFrom stored (pre ++ .ev (.offsetFetchOk k stored) :: post) = true := by
  intro pre hpre hpost
  have hna : ∀ x ∈ pre, (!isAnswer x) = true := by
    intro x hx
    have := List.all_eq_true.mp hpre x hx
    simp only [Bool.and_eq_true] at this
    exact this.1
  have hnp : pre.all (fun x => !isProc x) = true := by
    rw [List.all_eq_true]
    intro x hx
    have := List.all_eq_true.mp hpre x hx
    simp only [Bool.and_eq_true] at this
    exact this.2
  have hd : (pre ++ .ev (.offsetFetchOk k stored) :: post).dropWhile (fun x => !isAnswer x) =
      .ev (.offsetFetchOk k stored) :: post := by
    rw [List.dropWhile_append_of_pos hna]
    simp [isAnswer]
  have ht : (pre ++ .ev (.offsetFetchOk k stored) :: post).takeWhile (fun x => !isAnswer x) = pre := by
    rw [List.takeWhile_append_of_pos hna]
    simp [isAnswer]
  unfold resumedFrom
  rw [hd]
  simp only [ht, hnp, hpost, beq_self_eq_true, Bool.and_self]

/-- the state after `start(OFFSET_COMMITTED)` on a fresh consumer -/
theorem start_committed (cfg : Cfg) (script : List PEntry) :
    (step cfg (init cfg script) (.start offsetCommitted)).crashed = false ∧
    (step cfg (init cfg script) (.start offsetCommitted)).requestD = .pending 0 .offsetFetch false ∧
    (step cfg (init cfg script) (.start offsetCommitted)).out.all (fun x => !isAnswer x && !isProc x) = true := by
  by_cases hg : cfg.group = true <;> by_cases hl : (cfg.group && cfg.autoS != 0) = true <;>
    simp [step, stepCore, start, doFetch, init, emit, probe, startErrback, errbackRaises, offsetCommitted, offsetEarliest,
      offsetLatest, hg, hl, isAnswer, isProc] <;> simp_all [isAnswer, isProc]

theorem resumed_of_events (cfg : Cfg) (script : List PEntry) (stored : Int) (evs : List Ev)
    (hev : evs.all (fun e => !isJumpEv e) = true) :
    resumedFrom stored (trace cfg script (.start offsetCommitted :: .offsetFetchOk 0 stored :: evs)) = true := by
  obtain ⟨f1, f2, f3⟩ := start_committed cfg script
  unfold trace run
  simp only [List.foldl_cons]
  generalize step cfg (init cfg script) (.start offsetCommitted) = s1 at f1 f2 f3
  have h2 : NJ (.ev (.offsetFetchOk 0 stored) :: s1.out) (step cfg s1 (.offsetFetchOk 0 stored)).out := by
    have hsc : stepCore cfg { s1 with out := .ev (.offsetFetchOk 0 stored) :: s1.out } (.offsetFetchOk 0 stored) =
        some (handleOffsetResponse cfg true stored { s1 with out := .ev (.offsetFetchOk 0 stored) :: s1.out }) := by
      simp only [stepCore, f2, beq_self_eq_true, Bool.true_or, if_true]
    have hq : NJ (.ev (.offsetFetchOk 0 stored) :: s1.out)
        (handleOffsetResponse cfg true stored { s1 with out := .ev (.offsetFetchOk 0 stored) :: s1.out }).out :=
      handleOffsetResponse_o cfg true stored _ _ (NJ.refl _)
    unfold step
    rw [if_neg (by simp [f1]), hsc]
    simp only []
    split
    · exact hq
    · exact NJ_cons _ _ _ rfl hq
  obtain ⟨l, hl, hlj⟩ := foldl_o (cfg := cfg) _ evs _ h2 hev
  rw [hl]
  simp only [List.reverse_append, List.reverse_cons, List.append_assoc, List.singleton_append]
  refine resumedFrom_of_split stored 0 l.reverse s1.out.reverse ?_ ?_
  · simpa using f3
  · simpa using hlj

/-! ## A run that is started once, at a Kafka offset, delivers in one segment -/

theorem start_o (cfg : Cfg) (off : Int) {a : List Item} {s : St} (h : s.startD = .none) (hx : NJ a s.out) :
    NJ a (start cfg off s).out := by
  unfold start
  rw [if_neg (by simp [h])]
  simp only []
  have h2 : NJ a (doFetch cfg { s with startD := .pending, fetchOffset := off }).out := doFetch_o cfg a _ hx
  split
  · exact NJ_cons _ _ _ rfl h2
  · exact h2

theorem oneSegment_of_events (cfg : Cfg) (script : List PEntry) (off : Int) (evs : List Ev)
    (hev : evs.all (fun e => !isJumpEv e) = true) : oneSegment (trace cfg script (.start off :: evs)) = true := by
  unfold trace run
  simp only [List.foldl_cons]
  have h1 : NJ [.ev (.start off)] (step cfg (init cfg script) (.start off)).out := by
    have hsc : stepCore cfg { init cfg script with out := .ev (.start off) :: (init cfg script).out } (.start off) =
        some (start cfg off { init cfg script with out := .ev (.start off) :: (init cfg script).out }) := rfl
    have hq : NJ [.ev (.start off)] (start cfg off { init cfg script with out := .ev (.start off) :: (init cfg script).out }).out :=
      start_o cfg off rfl (NJ.refl _)
    unfold step
    rw [if_neg (by simp [init]), hsc]
    simp only []
    split
    · exact hq
    · exact NJ_cons _ _ _ rfl hq
  obtain ⟨l, hl, hlj⟩ := foldl_o (cfg := cfg) _ evs _ h1 hev
  rw [hl]
  simp only [List.reverse_append, List.reverse_cons, List.reverse_nil, List.nil_append, List.singleton_append]
  unfold oneSegment
  rw [List.all_eq_true]
  intro x hx
  have hx1 : x ∈ List.dropWhile (fun x => !isProc x) l.reverse := by
    simpa [List.dropWhile_cons, isProc] using hx
  have hx2 : x ∈ l.reverse := (List.dropWhile_suffix _).subset hx1
  exact List.all_eq_true.mp hlj x (by simpa using hx2)

/-- The two-run theorem with the hypotheses on the EVENT LISTS: run 1 is started once, at `off1`, run 2 is
    `start(OFFSET_COMMITTED)`, the coordinator's answer `stored`, then anything but a further `start`, offset look-up
    answer or coordinator answer. -/
theorem two_runs_events (log : List Msg) (cfg1 : Cfg) (script1 : List PEntry) (off1 : Int) (evs1 : List Ev)
    (cfg2 : Cfg) (script2 : List PEntry) (evs2 : List Ev) (stored : Int)
    (hf1 : FaithfulLog log cfg1 script1 (.start off1 :: evs1))
    (hf2 : FaithfulLog log cfg2 script2 (.start offsetCommitted :: .offsetFetchOk 0 stored :: evs2))
    (hev1 : evs1.all (fun e => !isJumpEv e) = true) (hev2 : evs2.all (fun e => !isJumpEv e) = true)
    (hst : stored ∈ commitOffs (trace cfg1 script1 (.start off1 :: evs1))) (h0 : 0 ≤ stored) :
    (∀ off, firstFetchAfterAnswer (trace cfg2 script2 (.start offsetCommitted :: .offsetFetchOk 0 stored :: evs2)) = some off →
      off = stored + 1) ∧
    (∀ y, (delivered (trace cfg2 script2 (.start offsetCommitted :: .offsetFetchOk 0 stored :: evs2))).head? = some y →
      C02.firstFrom log (stored + 1) = some y) ∧
    (∃ x ∈ delivered (trace cfg1 script1 (.start off1 :: evs1)), x.off = stored) ∧
    chainOk log (committed stored (delivered (trace cfg1 script1 (.start off1 :: evs1))) ++
      delivered (trace cfg2 script2 (.start offsetCommitted :: .offsetFetchOk 0 stored :: evs2))) = true :=
  two_runs log cfg1 script1 _ cfg2 script2 _ stored hf1 hf2 (oneSegment_of_events cfg1 script1 off1 evs1 hev1) hst h0
    (resumed_of_events cfg2 script2 stored evs2 hev2)

end Afkak.Proofs.Consumer.A5
