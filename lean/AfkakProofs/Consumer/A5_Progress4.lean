import AfkakProofs.Consumer.A5_Progress1
/-!
# C02, liveness half (4): the frame relation `Fr` - the commit/shutdown machinery and the re-entrant API either leave
what fetching looks at alone or leave the consumer not running
-/
namespace Afkak.Proofs.Consumer.L
open Afkak.Consumer

/-- not running for a reason that `shutdown()`'s bookkeeping does not undo -/
def Halted (s : St) : Prop := s.crashed = true ∨ s.startD ≠ .pending ∨ s.stopping = true

theorem Halted.nr {s : St} (h : Halted s) : Running s = false := by
  unfold Running
  rcases h with h | h | h
  · simp [h]
  · cases hs : s.startD <;> simp_all
  · simp [h]

/-- `s'` is not running, or it runs, `s` ran too and the fetch machinery's state is the same -/
def Fr (s s' : St) : Prop :=
  Running s' = true → Running s = true ∧ s'.requestD = s.requestD ∧ s'.retryCall = s.retryCall ∧ s'.proc = s.proc ∧
    s'.msgBlock = s.msgBlock ∧ s'.parked = s.parked

theorem Fr.refl (s : St) : Fr s s := fun h => ⟨h, rfl, rfl, rfl, rfl, rfl⟩
theorem Fr.trans {a b c : St} (h1 : Fr a b) (h2 : Fr b c) : Fr a c := by
  intro h
  obtain ⟨r, a1, a2, a3, a4, a5⟩ := h2 h
  obtain ⟨r', b1, b2, b3, b4, b5⟩ := h1 r
  exact ⟨r', a1.trans b1, a2.trans b2, a3.trans b3, a4.trans b4, a5.trans b5⟩
theorem Fr.of_nr {s s' : St} (h : Running s' = false) : Fr s s' := fun h' => by rw [h] at h'; cases h'
theorem Fr.of_halted {s s' : St} (h : Halted s') : Fr s s' := Fr.of_nr h.nr
/-- through a state that is not running nothing running is reached -/
theorem Fr.nr_left {s s' : St} (h : Fr s s') (hn : Running s = false) : Running s' = false := by
  cases hr : Running s'
  · rfl
  · have := (h hr).1; rw [hn] at this; cases this

macro "fr_close" : tactic => `(tactic|
  (intro h; first | exact ⟨h, rfl, rfl, rfl, rfl, rfl⟩ | (exfalso; simp [Running, sendCommitRequest, looperReset, stopTimers, crash, emit] at h)))

theorem emit_fr (o : Ob) (s : St) : Fr s (emit o s) := by fr_close
theorem crash_halted (site : String) (s : St) : Halted (crash site s) := Or.inl rfl
theorem crash_fr (site : String) (s : St) : Fr s (crash site s) := Fr.of_halted (crash_halted site s)
theorem startErrback_fr (f : Fail) (s : St) : Fr s (startErrback f s) := by
  unfold startErrback
  split
  · exact Fr.of_halted (Or.inr (Or.inl (by simp)))
  · exact Fr.refl s
theorem sendCommitRequest_fr (cfg : Cfg) (d : Option Rat) (a : Option Nat) (s : St) : Fr s (sendCommitRequest cfg d a s) := by
  rcases s with ⟨fo, lp, lc, stp, shd, sdD, lpr, cds, creq, sD, rD, rC, cC, mb, pk, pr, fr, rdl, att, bs, nw, nr, nc, nwt, sc, er, ec, cr, out⟩
  cases cC <;> cases creq <;> cases lp <;> fr_close
theorem looperReset_fr (cfg : Cfg) (s : St) : Fr s (looperReset cfg s) := by
  rcases s with ⟨fo, lp, lc, stp, shd, sdD, lpr, cds, creq, sD, rD, rC, cC, mb, pk, pr, fr, rdl, att, bs, nw, nr, nc, nwt, sc, er, ec, cr, out⟩
  rcases lpr with _ | ⟨st, _ | due⟩ <;> fr_close
theorem stopTimers_fr (s : St) : Fr s (stopTimers s) := by
  rcases s with ⟨fo, lp, lc, stp, shd, sdD, lpr, cds, creq, sD, rD, rC, cC, mb, pk, pr, fr, rdl, att, bs, nw, nr, nc, nwt, sc, er, ec, cr, out⟩
  cases cC <;> rcases lpr with _ | ⟨st, _ | due⟩ <;> fr_close
theorem commitState_fr (cfg : Cfg) (w : Who) (s : St) : Fr s (commitState cfg w s) := by
  unfold commitState
  split
  · exact Fr.refl _
  split
  · exact Fr.refl _
  split
  · cases w <;> fr_close
  · exact (show Fr s { s with commitDs := [_] } by fr_close).trans
      ((sendCommitRequest_fr cfg none none _).trans (looperReset_fr cfg _))
theorem handleAutoCommitError_fr (f : Fail) (s : St) : Fr s (handleAutoCommitError f s) := by
  unfold handleAutoCommitError
  split
  · exact Fr.refl _
  split
  · exact startErrback_fr _ _
  · exact Fr.refl _
theorem autoCommit_fr (cfg : Cfg) (b : Bool) (s : St) : Fr s (autoCommit cfg b s) := by
  unfold autoCommit
  repeat' ((try dsimp only); split)
  all_goals first
    | exact Fr.refl _
    | exact commitState_fr _ _ _
    | exact (commitState_fr _ _ _).trans (handleAutoCommitError_fr _ _)
    | fr_close
theorem commitUser_fr (cfg : Cfg) (s : St) : Fr s (commitUser cfg s) := by
  unfold commitUser
  dsimp only
  split
  · exact (commitState_fr cfg .user s).trans ((show Fr (commitState cfg .user s) { commitState cfg .user s with nextCommit := _ } by fr_close).trans (emit_fr _ _))
  · exact (commitState_fr cfg .user s).trans (show Fr (commitState cfg .user s) { commitState cfg .user s with nextCommit := _ } by fr_close)

theorem stopFinish_halted (s : St) : Halted (stopFinish s) := by
  unfold stopFinish
  dsimp only
  split
  · exact Or.inr (Or.inl (by simp))
  · exact Or.inr (Or.inl (by simp))
  · exact crash_halted _ _

theorem stopCore_halted (cfg : Cfg) (inner : Ops) (s : St) : Halted (stopCore cfg inner s) := by
  unfold stopCore; exact stopFinish_halted _

/-- what the proofs below need of the re-entrant API one level down -/
structure OpsFr (inner : Ops) : Prop where
  stop : ∀ s, Fr s (inner.stop s)
  stopCore : ∀ s, Halted (inner.stopCore s)
  commit : ∀ s, Fr s (inner.commit s)
  shutdown : ∀ s, Fr s (inner.shutdown s)

section
variable {cfg : Cfg} {inner : Ops} (hin : OpsFr inner)
include hin

theorem nestedStop_halted (s : St) : Halted (nestedStop inner s) := by
  unfold nestedStop
  split
  · rename_i h; exact Or.inr (Or.inr h)
  split
  · exact crash_halted _ _
  · exact hin.stopCore _

theorem shutdownFinish_halted (r : Option Fail) (s : St) : Halted (shutdownFinish inner r s) := by
  unfold shutdownFinish
  dsimp only
  have h1 := nestedStop_halted hin { s with shutdownD := false }
  have h2 : Halted { nestedStop inner { s with shutdownD := false } with shuttingDown := false } := h1
  repeat' split
  all_goals first | exact crash_halted _ _ | exact h2

theorem commitAndStop_fr (s : St) : Fr s (commitAndStop cfg inner s) := by
  unfold commitAndStop commitAndStop1
  repeat' split
  all_goals first
    | exact Fr.of_halted (shutdownFinish_halted hin _ _)
    | exact commitState_fr _ _ _

theorem shutdownSuccess_fr (s : St) : Fr s (shutdownSuccess cfg inner s) := by
  unfold shutdownSuccess
  split
  · exact commitAndStop_fr hin s
  · exact Fr.of_halted (shutdownFinish_halted hin _ _)

theorem fireWaiter_fr (r : DRes) (w : Waiter) (s : St) : Fr s (fireWaiter cfg inner r s w) := by
  cases w <;> cases r <;> simp only [fireWaiter]
  all_goals first
    | exact Fr.refl _
    | exact emit_fr _ _
    | exact handleAutoCommitError_fr _ _
    | exact autoCommit_fr _ _ _
    | exact shutdownSuccess_fr hin _
    | exact commitAndStop_fr hin _
    | exact Fr.of_halted (shutdownFinish_halted hin _ _)

theorem waiters_fr (r : DRes) : ∀ (ws : List Waiter) (s : St), Fr s (ws.foldl (fireWaiter cfg inner r) s)
  | [], s => Fr.refl s
  | w :: ws, s => (fireWaiter_fr hin r w s).trans (waiters_fr r ws _)

theorem deliver_fr (r : DRes) (s : St) : Fr s (deliver cfg inner r s) := by
  unfold deliver
  exact (show Fr s { s with commitDs := [] } by fr_close).trans (waiters_fr hin r _ _)

theorem handleCommitError_fr (f : Fail) (d : Rat) (a : Nat) (s : St) : Fr s (handleCommitError cfg inner f d a s) := by
  unfold handleCommitError
  repeat' split
  all_goals first
    | exact deliver_fr hin _ _
    | fr_close

theorem cancelWaiters_fr : ∀ (fuel : Nat) (s : St), Fr s (cancelWaiters cfg inner fuel s)
  | 0, s => by
    unfold cancelWaiters
    split
    · exact Fr.refl _
    · exact crash_fr _ _
  | n + 1, s => by
    unfold cancelWaiters
    split
    · exact Fr.refl _
    · exact (show Fr s { s with commitDs := s.commitDs.dropLast } by fr_close).trans
        ((fireWaiter_fr hin _ _ _).trans (cancelWaiters_fr n _))

theorem stopCommitReq_fr (s : St) : Fr s (stopCommitReq cfg inner s) := by
  unfold stopCommitReq
  cases hr : s.commitReq with
  | none => exact Fr.refl _
  | some r =>
    dsimp only
    have h1 : Fr s { emit (.cancelReq r.k) s with commitReq := none } := by fr_close
    split
    · exact h1.trans (handleCommitError_fr hin _ _ _ _)
    · exact h1

theorem shutdown_fr (s : St) : Fr s (shutdown cfg inner s) := by
  unfold shutdown
  split
  · exact emit_fr _ _
  split
  · exact emit_fr _ _
  dsimp only
  have hnr : Running { s with shuttingDown := true, shutdownD := true } = false := by simp [Running]
  split
  · exact Fr.of_nr (by simp [Running])
  · exact Fr.of_nr ((commitAndStop_fr hin _).nr_left hnr)

omit hin in
theorem stop_fr (s : St) : Fr s (stop cfg inner s) := by
  unfold stop
  split
  · exact emit_fr _ _
  · exact Fr.of_halted (by
      have := stopCore_halted cfg inner s
      exact this)

theorem runAct_fr (a : Act) (s : St) : Fr s (runAct inner a s) := by
  cases a
  · exact hin.stop s
  · exact hin.commit s
  · exact hin.shutdown s

theorem procActs_fr : ∀ (acts : List Act) (s : St), Fr s (procActs inner acts s)
  | [], s => Fr.refl s
  | a :: t, s => by
    unfold procActs
    simp only [List.foldl_cons]
    exact ((emit_fr (.act a) s).trans (runAct_fr hin a _)).trans (procActs_fr t _)

end

theorem mkOps_fr (cfg : Cfg) (inner : Ops) (hin : OpsFr inner) : OpsFr (mkOps cfg inner) :=
  ⟨stop_fr, stopCore_halted cfg inner, commitUser_fr cfg, shutdown_fr hin⟩

theorem opsN_fr (cfg : Cfg) : ∀ n, OpsFr (opsN cfg n)
  | 0 => ⟨fun _ => crash_fr _ _, fun _ => crash_halted _ _, fun _ => crash_fr _ _, fun _ => crash_fr _ _⟩
  | n + 1 => mkOps_fr cfg _ (opsN_fr cfg n)

end Afkak.Proofs.Consumer.L
