import AfkakProofs.Consumer.Inv4
/-!
# Every event preserves the invariant; hence every reachable state satisfies it
-/
namespace Afkak.Proofs.Consumer
open Afkak.Consumer Afkak.Monitor Afkak.Consts

variable [EnvHyp]

-- every leaf lemma checks nine invariant components on every path of a handler
set_option maxHeartbeats 800000

/-- Between events: the invariant holds and the processor is not executing. -/
def Top (cfg : Cfg) (s : St) : Prop :=
  G cfg s ∧ s.frame = none ∧ (runR C03.ackStep {} s.out).lc = s.lastCommitted

/-- what the single-fetch monitor knows about an outstanding request -/
theorem sf_active {cfg : Cfg} {s : St} (hg : G cfg s) (k : Nat) (kind : ReqKind) (c : Bool)
    (hreq : s.requestD = .pending k kind c) : (runR C02.sfStep {} s.out).req = (if c then none else some k) := by
  rw [hg.sf.sfReq, hreq]; cases c <;> rfl

theorem req_of_guard {s : St} {k : Nat} {kind : ReqKind}
    (h : (s.requestD == .pending k kind false || s.requestD == .pending k kind true) = true) :
    ∃ c, s.requestD = .pending k kind c := by
  simp only [Bool.or_eq_true, beq_iff_eq] at h
  rcases h with h | h
  · exact ⟨false, h⟩
  · exact ⟨true, h⟩

/-- what the increasing-delivery statement assumes of an event (see `EnvHyp`) -/
def EvOk : Ev → Prop
  | .fetchOk _ r => ReplyOk r
  | .env rq _ => ∀ k t, rq = some (k, t) → k ≠ .outOfRange
  | _ => True

section
variable (cfg : Cfg)

theorem ev_start (off : Int) {s : St} (hs : Top cfg s) :
    Good cfg s (start cfg off { s with out := .ev (.start off) :: s.out }) :=
  start_good cfg off hs.1 hs.2.1 hs.2.2

theorem ev_stop {s : St} (hs : Top cfg s) :
    Good cfg s (stop cfg (opsN cfg cfg.depth) { s with out := .ev .stop :: s.out }) := by
  have hx := Good.refl hs.1
  have hlc := hs.2.2
  exact (stop_pres (opsN_pres cfg _) (opsN_calm cfg _) (opsN_quiet cfg _) (opsN_procNone cfg _)).step (by leaf hx)

theorem ev_shutdown {s : St} (hs : Top cfg s) :
    Good cfg s (shutdown cfg (opsN cfg cfg.depth) { s with out := .ev .shutdown :: s.out }) := by
  have hx := Good.refl hs.1
  have hlc := hs.2.2
  exact (shutdown_pres (opsN_pres cfg _)).step (by leaf hx)

theorem ev_commit {s : St} (hs : Top cfg s) :
    Good cfg s (commitUser cfg { s with out := .ev .commit :: s.out }) := by
  have hx := Good.refl hs.1
  have hlc := hs.2.2
  exact (commitUser_pres cfg).step (by leaf hx)

theorem ev_fetchOk (k : Nat) (r : Reply) {s : St} (hs : Top cfg s) (c : Bool) (hreq : s.requestD = .pending k .fetch c)
    (hr : EnvHyp.sane → ReplyOk r) :
    Good cfg s (handleFetchResponse cfg (opsN cfg cfg.depth) k r { s with out := .ev (.fetchOk k r) :: s.out }) :=
  handleFetchResponse_good (opsN_pres cfg _) (opsN_calm cfg _) k r c hs.1 hs.2.1 hs.2.2 hreq hr

theorem ev_fetchErr (k : Nat) (ek : ErrKind) (tag : Nat) {s : St} (hs : Top cfg s) (c : Bool)
    (hreq : s.requestD = .pending k .fetch c) :
    Good cfg s (handleFetchError cfg (.ext ek tag) { s with out := .ev (.fetchErr k ek tag) :: s.out }) := by
  have hx := Good.refl hs.1
  have hlc := hs.2.2
  have ha := sf_active hs.1 k .fetch c hreq
  have hst := incStep_fetchErr cfg.reset.isSome (runR (C02.incStep cfg.reset.isSome) {} s.out) k ek tag
  unfold handleFetchError
  refine fetchErrorTail_good cfg _ (by intro h; cases h) (by leaf hx) (fun hP ho hr => ?_)
  have hek : ek = .outOfRange := by cases ek <;> simp [Fail.isOutOfRange] at ho ⊢
  subst hek
  simp [Armed, C02.incStep, hr]

theorem ev_offsetOk (k : Nat) (off : Int) {s : St} (hs : Top cfg s) (c : Bool) (hreq : s.requestD = .pending k .offsets c) :
    Good cfg s (handleOffsetResponse cfg false off { s with out := .ev (.offsetOk k off) :: s.out }) := by
  have hx := Good.refl hs.1
  have hlc := hs.2.2
  have ha := sf_active hs.1 k .offsets c hreq
  unfold handleOffsetResponse
  refine offsetResponseTail_good cfg _ (by leaf hx) (fun hP => ?_)
  have := (hs.1.inc hP).armO k c hreq
  simpa [Armed, C02.incStep] using this

theorem ev_offsetErr (k : Nat) (ek : ErrKind) (tag : Nat) {s : St} (hs : Top cfg s) (c : Bool)
    (hreq : s.requestD = .pending k .offsets c) :
    Good cfg s (handleOffsetError cfg (.ext ek tag) { s with out := .ev (.offsetErr k ek tag) :: s.out }) := by
  have hx := Good.refl hs.1
  have hlc := hs.2.2
  have ha := sf_active hs.1 k .offsets c hreq
  unfold handleOffsetError
  exact (offsetErrorTail_pres cfg _ (by intro h; cases h)).step (by leaf hx)

section OffsetFetchOk
variable (k : Nat) (off : Int) {s : St} (hs : Top cfg s) (c : Bool) (hreq : s.requestD = .pending k .offsetFetch c)
include hs hreq

theorem ev_offsetFetchOk_stopped (hstop : s.startD = .none) :
    Good cfg s { ({ s with out := .ev (.offsetFetchOk k off) :: s.out } : St) with requestD := .none } := by
  have hx := Good.refl hs.1
  have ha := sf_active hs.1 k .offsetFetch c hreq
  have hlc := hs.2.2
  leaf hx

theorem ev_offsetFetchOk_none (hrun : s.startD ≠ .none) :
    Good cfg s { ({ s with out := .ev (.offsetFetchOk k (-1)) :: s.out } : St) with requestD := .none, retryDelay := cfg.retryInit, attempts := 1, fetchOffset := if cfg.reset == some offsetLatest then offsetLatest else offsetEarliest } := by
  have hx := Good.refl hs.1
  have ha := sf_active hs.1 k .offsetFetch c hreq
  have hlc := hs.2.2
  have c1 : offsetNotCommitted = -1 := rfl
  leaf hx

theorem ev_offsetFetchOk_neg (hrun : s.startD ≠ .none) (hoff : off ≠ -1) (h0 : ¬ 0 ≤ off) :
    Good cfg s { ({ s with out := .ev (.offsetFetchOk k off) :: s.out } : St) with requestD := .none, retryDelay := cfg.retryInit, attempts := 1, fetchOffset := off + 1, lastCommitted := some off } := by
  have hx := Good.refl hs.1
  have ha := sf_active hs.1 k .offsetFetch c hreq
  have hlc := hs.2.2
  have c1 : offsetNotCommitted = -1 := rfl
  leaf hx

theorem ev_offsetFetchOk_num1 (hrun : s.startD ≠ .none) (hoff : off ≠ -1) (h0 : 0 ≤ off) (due : Rat) (hd : s.retryCall = .pending due) :
    Good cfg s { s with out := .ob (.fetch s.nextReq (off + 1) s.bufferSize) :: .ob (.cancelTimer .retry) :: .ev (.offsetFetchOk k off) :: s.out, retryCall := .none, requestD := .pending s.nextReq .fetch false, nextReq := s.nextReq + 1, retryDelay := cfg.retryInit, attempts := 1, fetchOffset := off + 1, lastCommitted := some off } := by
  have hx := Good.refl hs.1
  have ha := sf_active hs.1 k .offsetFetch c hreq
  have hlc := hs.2.2
  have c1 : offsetNotCommitted = -1 := rfl
  have c2 : offsetEarliest = -2 := rfl
  have c3 : offsetLatest = -1 := rfl
  have c4 : offsetCommitted = -101 := rfl
  leaf hx

theorem ev_offsetFetchOk_num2 (hrun : s.startD ≠ .none) (hoff : off ≠ -1) (h0 : 0 ≤ off) (hd : ∀ due, s.retryCall ≠ .pending due) :
    Good cfg s { s with out := .ob (.fetch s.nextReq (off + 1) s.bufferSize) :: .ev (.offsetFetchOk k off) :: s.out, retryCall := .none, requestD := .pending s.nextReq .fetch false, nextReq := s.nextReq + 1, retryDelay := cfg.retryInit, attempts := 1, fetchOffset := off + 1, lastCommitted := some off } := by
  have hx := Good.refl hs.1
  have hrp : retryPending s.retryCall = false := by
    cases hq : s.retryCall with
    | pending due => exact absurd hq (hd due)
    | none => rfl
    | dead => rfl
  have ha := sf_active hs.1 k .offsetFetch c hreq
  have hlc := hs.2.2
  have c1 : offsetNotCommitted = -1 := rfl
  have c2 : offsetEarliest = -2 := rfl
  have c3 : offsetLatest = -1 := rfl
  have c4 : offsetCommitted = -101 := rfl
  leaf hx

theorem ev_offsetFetchOk :
    Good cfg s (handleOffsetResponse cfg true off { s with out := .ev (.offsetFetchOk k off) :: s.out }) := by
  have c1 : offsetNotCommitted = -1 := rfl
  have c2 : offsetEarliest = -2 := rfl
  have c3 : offsetLatest = -1 := rfl
  have c4 : offsetCommitted = -101 := rfl
  unfold handleOffsetResponse offsetResponseTail
  simp only []
  split
  · -- stopped: a late reply
    rename_i hrun
    exact ev_offsetFetchOk_stopped cfg k off hs c hreq (by simpa using hrun)
  · rename_i hrun
    have hrun' : s.startD ≠ .none := by simpa using hrun
    simp only [Bool.not_true, Bool.false_eq_true, if_false]
    split
    · -- nothing committed: resolve earliest / latest
      rename_i hnc
      have hoff : off = -1 := by simpa [c1] using hnc
      subst hoff
      exact doFetch_good cfg (ev_offsetFetchOk_none cfg k hs c hreq hrun') hrun'
    · -- resume after the committed offset
      rename_i hnc
      have hoff : off ≠ -1 := by simpa [c1] using hnc
      by_cases h0 : 0 ≤ off
      · rw [doFetch_numeric cfg _ rfl (by simp only [c2]; omega) (by simp only [c3]; omega) (by simp only [c4]; omega)]
        simp only []
        split
        · rename_i due hd
          exact ev_offsetFetchOk_num1 cfg k off hs c hreq hrun' hoff h0 due hd
        · rename_i hd
          exact ev_offsetFetchOk_num2 cfg k off hs c hreq hrun' hoff h0 (fun due hdd => hd due hdd)
      · -- a negative "committed offset" other than -1 (no broker sends one): nothing is expected of the next fetch
        exact doFetch_good cfg (ev_offsetFetchOk_neg cfg k off hs c hreq hrun' hoff h0) hrun'

end OffsetFetchOk

theorem ev_offsetFetchErr (k : Nat) (ek : ErrKind) (tag : Nat) {s : St} (hs : Top cfg s) (c : Bool)
    (hreq : s.requestD = .pending k .offsetFetch c) :
    Good cfg s (handleOffsetError cfg (.ext ek tag) { s with out := .ev (.offsetFetchErr k ek tag) :: s.out }) := by
  have hx := Good.refl hs.1
  have hlc := hs.2.2
  have ha := sf_active hs.1 k .offsetFetch c hreq
  unfold handleOffsetError
  exact (offsetErrorTail_pres cfg _ (by intro h; cases h)).step (by leaf hx)

theorem ev_commitOk (k : Nat) {s : St} (hs : Top cfg s) (r : CommitReq) (hr : s.commitReq = some r) (hk : (r.k == k) = true) :
    Good cfg s (deliver cfg (opsN cfg cfg.depth) (.ok (some r.off))
      { s with out := .ev (.commitOk k) :: s.out, commitReq := none, lastCommitted := some r.off }) := by
  have hx := Good.refl hs.1
  have hlc := hs.2.2
  exact (deliver_pres (opsN_pres cfg _) _ (nts_ok _)).step (by leaf hx)

theorem ev_commitErr (k : Nat) (ek : ErrKind) (tag : Nat) {s : St} (hs : Top cfg s) (r : CommitReq)
    (hr : s.commitReq = some r) (hk : (r.k == k) = true) :
    Good cfg s (handleCommitError cfg (opsN cfg cfg.depth) (.ext ek tag) r.delay r.attempt
      { s with out := .ev (.commitErr k ek tag) :: s.out, commitReq := none }) := by
  have hx := Good.refl hs.1
  have hlc := hs.2.2
  exact (handleCommitError_pres (opsN_pres cfg _) _ (by intro h; cases h) _ _).step (by leaf hx)

theorem ev_procOk {s : St} (hs : Top cfg s) (g : Gen) (hp : s.proc = some g) :
    Good cfg s (procResult cfg (opsN cfg cfg.depth) g none { s with out := .ev .procOk :: s.out }) :=
  procResult_good (opsN_pres cfg _) (opsN_calm cfg _) g none _ hs.1 hp
    (Or.inl (hs.1.g1.procBlock (by rw [hp]; rfl))) (Or.inr hs.2.2) (Or.inl ⟨rfl, rfl⟩) (fun _ h => by cases h)

theorem ev_procErr (ek : ErrKind) (tag : Nat) {s : St} (hs : Top cfg s) (g : Gen) (hp : s.proc = some g) :
    Good cfg s (procResult cfg (opsN cfg cfg.depth) g (some (.ext ek tag)) { s with out := .ev (.procErr ek tag) :: s.out }) := by
  have hb : s.msgBlock = true := hs.1.g1.procBlock (by rw [hp]; rfl)
  have hxx : ((some (Fail.ext ek tag) : Option Fail) = none ∧ Item.ev (Ev.procErr ek tag) = .ev .procOk) ∨
      ((some (Fail.ext ek tag) : Option Fail).isSome ∧ ((∃ k t, Item.ev (Ev.procErr ek tag) = .ev (.procErr k t)) ∨ Item.ev (Ev.procErr ek tag) = .ob .procCancel)) :=
    Or.inr ⟨rfl, Or.inl ⟨ek, tag, rfl⟩⟩
  exact procResult_good (opsN_pres cfg _) (opsN_calm cfg _) g (some (.ext ek tag)) (.ev (.procErr ek tag)) hs.1 hp (Or.inl hb) (Or.inr hs.2.2) hxx
    (fun f h => by cases h; intro h'; cases h')

theorem ev_retryFire {s : St} (hs : Top cfg s) (due : Rat) (hdue : s.retryCall = .pending due) :
    Good cfg s (doFetch cfg { s with out := .ev .retryFire :: s.out, retryCall := .dead }) := by
  have hx := Good.refl hs.1
  have hlc := hs.2.2
  have hrun : s.startD ≠ .none := hs.1.sf.retryRun (by rw [hdue]; rfl)
  exact doFetch_good cfg (by leaf hx) hrun

theorem ev_commitRetryFire {s : St} (hs : Top cfg s) (d : Option Rat) (a : Option Nat) :
    Good cfg s (sendCommitRequest cfg d a { s with out := .ev .commitRetryFire :: s.out, commitCall := .dead }) := by
  have hx := Good.refl hs.1
  have hlc := hs.2.2
  exact (sendCommitRequest_pres cfg _ _).step (by leaf hx)

theorem ev_tick {s : St} (hs : Top cfg s) (l : Looper) :
    Good cfg s (autoCommit cfg false { s with out := .ev .autoCommitTick :: s.out, looper := some l }) := by
  have hx := Good.refl hs.1
  have hlc := hs.2.2
  exact (autoCommit_pres cfg false).step (by leaf hx)

end

theorem stepCore_good (cfg : Cfg) (e : Ev) {s s' : St} (hs : Top cfg s) (he : EnvHyp.sane → EvOk e)
    (h : stepCore cfg { s with out := .ev e :: s.out } e = some s') : Good cfg s s' := by
  have hx := Good.refl hs.1
  have hlc := hs.2.2
  cases e with
  | start off => simp only [stepCore, Option.some.injEq] at h; subst h; exact ev_start cfg off hs
  | stop => simp only [stepCore, Option.some.injEq] at h; subst h; exact ev_stop cfg hs
  | shutdown => simp only [stepCore, Option.some.injEq] at h; subst h; exact ev_shutdown cfg hs
  | commit => simp only [stepCore, Option.some.injEq] at h; subst h; exact ev_commit cfg hs
  | fetchOk k r =>
    simp only [stepCore] at h
    split at h
    · rename_i hq
      obtain ⟨c, hreq⟩ := req_of_guard hq
      simp only [Option.some.injEq] at h; subst h
      exact ev_fetchOk cfg k r hs c hreq he
    · cases h
  | fetchErr k ek tag =>
    simp only [stepCore] at h
    split at h
    · rename_i hq
      obtain ⟨c, hreq⟩ := req_of_guard hq
      simp only [Option.some.injEq] at h; subst h
      exact ev_fetchErr cfg k ek tag hs c hreq
    · cases h
  | offsetOk k off =>
    simp only [stepCore] at h
    split at h
    · rename_i hq
      obtain ⟨c, hreq⟩ := req_of_guard hq
      simp only [Option.some.injEq] at h; subst h
      exact ev_offsetOk cfg k off hs c hreq
    · cases h
  | offsetErr k ek tag =>
    simp only [stepCore] at h
    split at h
    · rename_i hq
      obtain ⟨c, hreq⟩ := req_of_guard hq
      simp only [Option.some.injEq] at h; subst h
      exact ev_offsetErr cfg k ek tag hs c hreq
    · cases h
  | offsetFetchOk k off =>
    simp only [stepCore] at h
    split at h
    · rename_i hq
      obtain ⟨c, hreq⟩ := req_of_guard hq
      simp only [Option.some.injEq] at h; subst h
      exact ev_offsetFetchOk cfg k off hs c hreq
    · cases h
  | offsetFetchErr k ek tag =>
    simp only [stepCore] at h
    split at h
    · rename_i hq
      obtain ⟨c, hreq⟩ := req_of_guard hq
      simp only [Option.some.injEq] at h; subst h
      exact ev_offsetFetchErr cfg k ek tag hs c hreq
    · cases h
  | commitOk k =>
    simp only [stepCore] at h
    split at h
    · rename_i r hr
      split at h
      · rename_i hk
        simp only [Option.some.injEq] at h; subst h
        exact ev_commitOk cfg k hs r hr hk
      · cases h
    · cases h
  | commitErr k ek tag =>
    simp only [stepCore] at h
    split at h
    · rename_i r hr
      split at h
      · rename_i hk
        simp only [Option.some.injEq] at h; subst h
        exact ev_commitErr cfg k ek tag hs r hr hk
      · cases h
    · cases h
  | procOk =>
    simp only [stepCore] at h
    split at h
    · rename_i g hp
      simp only [Option.some.injEq] at h; subst h
      exact ev_procOk cfg hs g hp
    · cases h
  | procErr ek tag =>
    simp only [stepCore] at h
    split at h
    · rename_i g hp
      simp only [Option.some.injEq] at h; subst h
      exact ev_procErr cfg ek tag hs g hp
    · cases h
  | retryFire =>
    simp only [stepCore] at h
    split at h
    · rename_i due hdue
      split at h
      · simp only [Option.some.injEq] at h; subst h
        exact ev_retryFire cfg hs due hdue
      · cases h
    · cases h
  | commitRetryFire =>
    simp only [stepCore] at h
    split at h
    · split at h
      · simp only [Option.some.injEq] at h; subst h
        exact ev_commitRetryFire cfg hs _ _
      · cases h
    · cases h
  | autoCommitTick =>
    simp only [stepCore] at h
    cases hl : s.looper with
    | none => simp [hl] at h
    | some l =>
      cases hd : l.due with
      | none => simp [hl, hd] at h
      | some due =>
        simp only [hl, hd] at h
        split at h
        · have h1 := ev_tick cfg hs { start := l.start, due := none }
          split at h
          · simp only [Option.some.injEq] at h; subst h
            leaf h1
          · simp only [Option.some.injEq] at h; subst h
            exact h1
        · cases h
  | advance dt =>
    simp only [stepCore] at h
    split at h
    · cases h
    · simp only [Option.some.injEq] at h; subst h
      leaf hx
  | env rq cm =>
    simp only [stepCore, Option.some.injEq] at h; subst h
    simp only [EvOk] at he
    leaf hx

theorem probe_top (cfg : Cfg) {s0 s : St} (h : Good cfg s0 s) : Good cfg s0 (probe s) ∧
    (runR C03.ackStep {} (probe s).out).lc = (probe s).lastCommitted := by
  refine ⟨(probe_pres cfg).step h, ?_⟩
  have hm := h.1.ack.ackMid
  simp only [probe, emit, runR_cons, C03.ackStep]
  split
  · rename_i he
    have : s.lastCommitted = (runR C03.ackStep {} s.out).lc := by simpa using he
    exact this.symm
  · rcases hm with hm | hm
    · rename_i he; exact absurd (by simpa using hm) he
    · simp [hm]

/-- The induction invariant over events: `Top`, except that after a crash (no probe, every later event
    rejected) the committed offset is no longer tracked. -/
def Top' (cfg : Cfg) (s : St) : Prop :=
  G cfg s ∧ s.frame = none ∧ (s.crashed = true ∨ (runR C03.ackStep {} s.out).lc = s.lastCommitted)

theorem step_top (cfg : Cfg) (e : Ev) {s : St} (hs : Top' cfg s) (he : EnvHyp.sane → EvOk e) : Top' cfg (step cfg s e) := by
  have hx := Good.refl hs.1
  unfold step
  split
  · rename_i hcr
    exact ⟨(show Good cfg s _ by leaf hx).1, hs.2.1, Or.inl hcr⟩
  · rename_i hcr
    have hlc : (runR C03.ackStep {} s.out).lc = s.lastCommitted := by
      rcases hs.2.2 with h | h
      · exact absurd h hcr
      · exact h
    have hs' : Top cfg s := ⟨hs.1, hs.2.1, hlc⟩
    split
    · exact ⟨(show Good cfg s _ by leaf hx).1, hs.2.1, Or.inr (by simpa [C03.ackStep] using hlc)⟩
    · rename_i s' h
      have h1 := stepCore_good cfg e hs' he h
      split
      · rename_i hc2
        exact ⟨h1.1, h1.2.trans hs.2.1, Or.inl hc2⟩
      · obtain ⟨h2, h3⟩ := probe_top cfg h1
        exact ⟨h2.1, h2.2.trans hs.2.1, Or.inr h3⟩

theorem init_top (cfg : Cfg) (script : List PEntry) : Top' cfg (init cfg script) := by
  refine ⟨⟨?_, ?_, ?_, ?_, ?_, ?_, ?_, ?_, fun _ => ?_⟩, rfl, Or.inr rfl⟩
  · constructor <;> simp [init, oifOf]
  · constructor <;> simp [init, activeReq, retryPending]
  · constructor <;> simp [init]
  · constructor <;> simp [init]
  · constructor <;> simp [init]
  · constructor <;> simp [init]
  · constructor <;> simp [init]
  · constructor <;> simp [init]
  · constructor <;> simp [init, offsetEarliest, offsetLatest, offsetCommitted]

theorem run_top (cfg : Cfg) (script : List PEntry) (evs : List Ev) (he : EnvHyp.sane → ∀ e ∈ evs, EvOk e) :
    Top' cfg (run cfg script evs) := by
  unfold run
  have : ∀ (evs : List Ev) (s : St), (EnvHyp.sane → ∀ e ∈ evs, EvOk e) → Top' cfg s → Top' cfg (evs.foldl (step cfg) s) := by
    intro evs
    induction evs with
    | nil => intro s _ h; exact h
    | cons e es ih =>
      intro s he h
      exact ih _ (fun hP x hx => he hP x (List.mem_cons_of_mem _ hx)) (step_top cfg e h (fun hP => he hP e List.mem_cons_self))
  exact this evs _ he (init_top cfg script)

end Afkak.Proofs.Consumer
