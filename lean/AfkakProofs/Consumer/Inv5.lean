import AfkakProofs.Consumer.Inv4
/-!
# Every event preserves the invariant; hence every reachable state satisfies it
-/
namespace Afkak.Proofs.Consumer
open Afkak.Consumer Afkak.Monitor Afkak.Consts

/-- Between events: the invariant holds and the processor is not executing. -/
def Top (cfg : Cfg) (s : St) : Prop := G cfg s ∧ s.frame = none

theorem stepCore_good (cfg : Cfg) (e : Ev) {s s' : St} (hs : Top cfg s)
    (h : stepCore cfg { s with out := .ev e :: s.out } e = some s') : Good cfg s s' := by
  obtain ⟨hg, hf⟩ := hs
  have hx := Good.refl hg
  have hin := opsN_pres cfg cfg.depth
  unfold stepCore at h
  cases e with
  | start off =>
    simp only [Option.some.injEq] at h; subst h
    have h1 : Good cfg s { s with out := .ev (.start off) :: s.out } := by leaf hx
    exact Good.trans h1 (start_good cfg off h1.1 hf)
  | stop =>
    simp only [Option.some.injEq] at h; subst h
    exact (stop_pres hin).step (by leaf hx)
  | shutdown =>
    simp only [Option.some.injEq] at h; subst h
    exact (shutdown_pres hin).step (by leaf hx)
  | commit =>
    simp only [Option.some.injEq] at h; subst h
    exact (commitUser_pres cfg).step (by leaf hx)
  | fetchOk k r =>
    simp only [] at h
    split at h
    · simp only [Option.some.injEq] at h; subst h
      have h1 : Good cfg s { s with out := .ev (.fetchOk k r) :: s.out } := by leaf hx
      exact Good.trans h1 (handleFetchResponse_good hin k r h1.1 hf)
    · cases h
  | fetchErr k ek tag =>
    simp only [] at h
    split at h
    · simp only [Option.some.injEq] at h; subst h
      exact (handleFetchError_pres cfg _).step (by leaf hx)
    · cases h
  | offsetOk k off =>
    simp only [] at h
    split at h
    · simp only [Option.some.injEq] at h; subst h
      exact (handleOffsetResponse_pres cfg _ _).step (by leaf hx)
    · cases h
  | offsetErr k ek tag =>
    simp only [] at h
    split at h
    · simp only [Option.some.injEq] at h; subst h
      exact (handleOffsetError_pres cfg _).step (by leaf hx)
    · cases h
  | offsetFetchOk k off =>
    simp only [] at h
    split at h
    · simp only [Option.some.injEq] at h; subst h
      exact (handleOffsetResponse_pres cfg _ _).step (by leaf hx)
    · cases h
  | offsetFetchErr k ek tag =>
    simp only [] at h
    split at h
    · simp only [Option.some.injEq] at h; subst h
      exact (handleOffsetError_pres cfg _).step (by leaf hx)
    · cases h
  | commitOk k =>
    simp only [] at h
    split at h
    · rename_i r hr
      split at h
      · rename_i hk
        simp only [Option.some.injEq] at h; subst h
        exact (deliver_pres hin _).step (by leaf hx)
      · cases h
    · cases h
  | commitErr k ek tag =>
    simp only [] at h
    split at h
    · rename_i r hr
      split at h
      · rename_i hk
        simp only [Option.some.injEq] at h; subst h
        exact (handleCommitError_pres hin _ _ _).step (by leaf hx)
      · cases h
    · cases h
  | procOk =>
    simp only [] at h
    split at h
    · rename_i g hp
      simp only [Option.some.injEq] at h; subst h
      exact procResult_good hin g none _ hg hp (Or.inl (hg.g1.procBlock (by rw [hp]; rfl))) (Or.inl ⟨rfl, rfl⟩)
    · cases h
  | procErr ek tag =>
    simp only [] at h
    split at h
    · rename_i g hp
      simp only [Option.some.injEq] at h; subst h
      have hb : s.msgBlock = true := hg.g1.procBlock (by rw [hp]; rfl)
      have hxx : ((some (Fail.ext ek tag) : Option Fail) = none ∧ Item.ev (Ev.procErr ek tag) = .ev .procOk) ∨
          ((some (Fail.ext ek tag) : Option Fail).isSome ∧ ((∃ k t, Item.ev (Ev.procErr ek tag) = .ev (.procErr k t)) ∨ Item.ev (Ev.procErr ek tag) = .ob .procCancel)) :=
        Or.inr ⟨rfl, Or.inl ⟨ek, tag, rfl⟩⟩
      exact procResult_good hin g (some (.ext ek tag)) (.ev (.procErr ek tag)) hg hp (Or.inl hb) hxx
    · cases h
  | retryFire =>
    simp only [] at h
    split at h
    · split at h
      · simp only [Option.some.injEq] at h; subst h
        exact (doFetch_pres cfg).step (by leaf hx)
      · cases h
    · cases h
  | commitRetryFire =>
    simp only [] at h
    split at h
    · split at h
      · simp only [Option.some.injEq] at h; subst h
        exact (sendCommitRequest_pres cfg _ _).step (by leaf hx)
      · cases h
    · cases h
  | autoCommitTick =>
    simp only [] at h
    have h1 : ∀ l' : Looper, Good cfg s (autoCommit cfg false { s with out := .ev .autoCommitTick :: s.out, looper := some l' }) :=
      fun l' => (autoCommit_pres cfg false).step (by leaf hx)
    split at h
    · split at h
      · split at h
        · split at h
          · rename_i l0 _ _ _ _ _ _ _ _
            simp only [Option.some.injEq] at h; subst h
            have h2 := h1 { start := l0.start, due := none }
            leaf h2
          · simp only [Option.some.injEq] at h; subst h
            exact h1 _
        · cases h
      · cases h
    · cases h
  | advance dt =>
    simp only [] at h
    split at h
    · cases h
    · simp only [Option.some.injEq] at h; subst h
      leaf hx
  | env rq cm =>
    simp only [Option.some.injEq] at h; subst h
    leaf hx

theorem step_top (cfg : Cfg) (e : Ev) {s : St} (hs : Top cfg s) : Top cfg (step cfg s e) := by
  have hx := Good.refl hs.1
  unfold step
  split
  · exact ⟨(show Good cfg s _ by leaf hx).1, hs.2⟩
  · split
    · exact ⟨(show Good cfg s _ by leaf hx).1, hs.2⟩
    · rename_i s' h
      have h1 := stepCore_good cfg e hs h
      split
      · exact ⟨h1.1, h1.2.trans hs.2⟩
      · have h2 := (probe_pres cfg).step h1
        exact ⟨h2.1, h2.2.trans hs.2⟩

theorem init_top (cfg : Cfg) (script : List PEntry) : Top cfg (init cfg script) := by
  refine ⟨⟨?_⟩, rfl⟩
  constructor <;> simp [init, oifOf]

theorem run_top (cfg : Cfg) (script : List PEntry) (evs : List Ev) : Top cfg (run cfg script evs) := by
  unfold run
  have : ∀ (evs : List Ev) (s : St), Top cfg s → Top cfg (evs.foldl (step cfg) s) := by
    intro evs
    induction evs with
    | nil => intro s h; exact h
    | cons e es ih => intro s h; exact ih _ (step_top cfg e h)
  exact this evs _ (init_top cfg script)

end Afkak.Proofs.Consumer
