import Afkak.Monitor.C14
/-!
# Proof infrastructure for the consumer model

* `runR` unfolds over `cons`; `emit`/`crash` only push observations.
* `G1`: the invariant relating the model state to the monitors about processing and commits
  (`C02.ovStep`, `C03.clpStep`, `C03.oifStep`), valid at every point where the re-entrant API may be
  called (in particular while the processor is executing: `frame = some _`).
-/
namespace Afkak.Proofs.Consumer
open Afkak.Consumer Afkak.Monitor Afkak.Consts

@[simp] theorem runR_nil {σ} (f : σ → Item → σ) (i : σ) : runR f i [] = i := rfl
@[simp] theorem runR_cons {σ} (f : σ → Item → σ) (i : σ) (x : Item) (l : List Item) :
    runR f i (x :: l) = f (runR f i l) x := rfl

/-- `_commit_req` as the one-in-flight monitor sees it -/
def oifOf (s : St) : Option Nat :=
  match s.commitReq with
  | some r => if r.cancelled then none else some r.k
  | none => none

structure G1 (s : St) : Prop where
  frameProc : s.frame.isSome → s.proc = none
  procBlock : s.proc.isSome → s.msgBlock = true
  procRun : s.proc.isSome → s.startD ≠ .none
  frameBlock : s.frame.isSome → s.startD ≠ .none → s.stopping = false → s.msgBlock = true
  ovOk : (runR C02.ovStep {} s.out).bad = false
  ovEq : (runR C02.ovStep {} s.out).pending = s.proc.isSome
  oifOk : (runR C03.oifStep {} s.out).bad = false
  oifEq : (runR C03.oifStep {} s.out).req = oifOf s
  reqId : ∀ k kind c, s.requestD = .pending k kind c → k < s.nextReq
  commitId : ∀ r, s.commitReq = some r → r.k < s.nextReq
  idsNe : ∀ k kind c r, s.requestD = .pending k kind c → s.commitReq = some r → k ≠ r.k
  clpOk : (runR C03.clpStep {} s.out).bad = false
  clpProcessed : (runR C03.clpStep {} s.out).p.processed = s.lastProcessed
  clpFrame : ∀ fr, s.frame = some fr → (runR C03.clpStep {} s.out).p.cur = some fr.last
  clpProc : ∀ g, s.proc = some g → (runR C03.clpStep {} s.out).p.cur = some g.last

/-- `_request_d` as the single-fetch monitor sees it: the outstanding, uncancelled request -/
def activeReq : ReqD → Option Nat
  | .pending k _ false => some k
  | _ => none

def retryPending : TRef → Bool
  | .pending _ => true
  | _ => false

/-- the previous back-off delay of the current run of failures, after `k` of them -/
def prevOf (init maxD : Rat) (k : Nat) : Option Rat :=
  match k with
  | 0 => none
  | j + 1 => some (C14.delayAt init maxD j)

theorem ackJ_congr (m m' : C03.AckSt) (lc : Option Int) (h1 : m'.cur = m.cur) (h2 : m'.reqs = m.reqs) :
    C03.ackJustified m' lc = C03.ackJustified m lc := by
  unfold C03.ackJustified; rw [h1, h2]

theorem ackJ_cons (m m' : C03.AckSt) (x : Nat × Int) (lc : Option Int) (h1 : m'.cur = m.cur) (h2 : m'.reqs = x :: m.reqs)
    (h : C03.ackJustified m lc = true) : C03.ackJustified m' lc = true := by
  unfold C03.ackJustified at *
  rw [h1, h2]
  split <;> simp_all

theorem ackJ_commitOk (m : C03.AckSt) (k : Nat) (v : Int) (h1 : m.cur = some (.commitOk k)) (h2 : (k, v) ∈ m.reqs) :
    C03.ackJustified m (some v) = true := by
  unfold C03.ackJustified; rw [h1]; simpa using h2

theorem ackJ_offsetFetch (m : C03.AckSt) (k : Nat) (off : Int) (h1 : m.cur = some (.offsetFetchOk k off))
    (h2 : off ≠ offsetNotCommitted) : C03.ackJustified m (some off) = true := by
  unfold C03.ackJustified; rw [h1]; simp [h2]

/-- single outstanding fetch / single scheduled refetch (`C02.sfStep`) -/
structure Gsf (s : St) : Prop where
  sfOk : (runR C02.sfStep {} s.out).bad = false
  sfReq : (runR C02.sfStep {} s.out).req = activeReq s.requestD
  sfTimer : (runR C02.sfStep {} s.out).timer = retryPending s.retryCall
  retryRun : retryPending s.retryCall = true → s.startD ≠ .none
  parkedReq : s.parked.isSome = true → ∃ k, s.requestD = .parked k
  parkedBlock : s.parked.isSome = true → s.msgBlock = true

/-- resume position (`C03.resStep`) -/
structure Gres (s : St) : Prop where
  resOk : (runR C03.resStep {} s.out).bad = false
  resExp : (runR C03.resStep {} s.out).expect.isSome = true → s.startD = .none

/-- the committed offset is acknowledged (`C03.ackStep`) -/
structure Gack (s : St) : Prop where
  ackOk : (runR C03.ackStep {} s.out).bad = false
  ackMid : s.lastCommitted = (runR C03.ackStep {} s.out).lc ∨
    C03.ackJustified (runR C03.ackStep {} s.out) s.lastCommitted = true
  ackReqs : ∀ r, s.commitReq = some r → (r.k, r.off) ∈ (runR C03.ackStep {} s.out).reqs

/-- the start Deferred fires at most once per run (`C13.foStep`) -/
structure Gfo (s : St) : Prop where
  foOk : (runR C13.foStep {} s.out).bad = false
  foRun : s.startD = .pending → (runR C13.foStep {} s.out).running = true ∧ (runR C13.foStep {} s.out).fired = false
  foCalled : s.startD = .called → (runR C13.foStep {} s.out).running = true ∧ (runR C13.foStep {} s.out).fired = true

/-- every delivered message is one a fetch reply carried (`C02.payStep`) -/
structure Gpay (s : St) : Prop where
  payOk : (runR C02.payStep {} s.out).bad = false
  payFrame : ∀ fr, s.frame = some fr → ∀ x ∈ fr.rest, x ∈ (runR C02.payStep {} s.out).seen
  payProc : ∀ g, s.proc = some g → ∀ x ∈ g.rest, x ∈ (runR C02.payStep {} s.out).seen
  payParked : ∀ r, s.parked = some r → ∀ x ∈ r.msgs, x ∈ (runR C02.payStep {} s.out).seen

/-- after a processor failure nothing is delivered until the next `start()` (`C03.haltStep`): the consumer is
    stopped or stopping, or the block of the failed call stays in the way for ever -/
structure Ghalt (s : St) : Prop where
  haltOk : (runR C03.haltStep {} s.out).bad = false
  haltInv : (runR C03.haltStep {} s.out).halted = true →
    s.startD = .none ∨ s.stopping = true ∨ (s.msgBlock = true ∧ s.proc = none ∧ s.frame = none)

/-- fetch sizes follow the growth rule (`C14.grStep`): the monitor's size is the consumer's, or the consumer has
    just grown its buffer for a too-small answer and has not asked again yet -/
structure Ggr (cfg : Cfg) (s : St) : Prop where
  grOk : (runR (C14.grStep cfg.bufMax) { buf := cfg.bufInit } s.out).bad = false
  grSync : (runR (C14.grStep cfg.bufMax) { buf := cfg.bufInit } s.out).buf = s.bufferSize ∨
    (0 < (runR (C14.grStep cfg.bufMax) { buf := cfg.bufInit } s.out).credit ∧
      C14.growSpec (runR (C14.grStep cfg.bufMax) { buf := cfg.bufInit } s.out).buf cfg.bufMax = some s.bufferSize ∧
      (∀ k c, s.requestD ≠ .pending k .fetch c) ∧ s.parked = none)
  grParked : ∀ r, s.parked = some r → r.tail = .small → 0 < (runR (C14.grStep cfg.bufMax) { buf := cfg.bufInit } s.out).credit

/-! ### Offsets handed to the processor increase (`C02.incStep`) -/

/-- the fetch position is a sentinel, or an offset look-up is outstanding: the next position comes from the broker -/
def needArm (s : St) : Prop :=
  s.fetchOffset = offsetEarliest ∨ s.fetchOffset = offsetLatest ∨ s.fetchOffset = offsetCommitted ∨
    (∃ k c, s.requestD = .pending k .offsets c) ∨ (∃ k c, s.requestD = .pending k .offsetFetch c)

/-- the highest offset among `last` and the increasing list `rest` -/
def topOff (last : Int) (rest : List Msg) : Int := (lastOff rest).getD last

/-- a fetch reply the statement about increasing delivery speaks of: Kafka offsets (≥ 0), and iterating its messages
    does not raise OffsetOutOfRangeError (only a fetch REQUEST fails with that) -/
def ReplyOk (r : Reply) : Prop := (∀ x ∈ r.msgs, 0 ≤ x.off) ∧ ∀ t, r.tail ≠ .raise .outOfRange t

/-- Assumption switch.  The part of the invariant about increasing delivery (`Ginc`) is claimed only under
    `EnvHyp.sane`: "every fetch reply applied so far satisfies `ReplyOk`, every synchronous cancel outcome the
    environment chose is not OffsetOutOfRange".  The theorems that do not need that assumption instantiate the
    class with `False` (so they assume nothing), `C02_increasing` instantiates it with `True` and supplies
    the facts event by event (`Inv5.EvOk`). -/
class EnvHyp where
  sane : Prop

/-- the increasing-delivery monitor has a permitted discontinuity in hand -/
def Armed (cfg : Cfg) (s : St) : Prop := (runR (C02.incStep cfg.reset.isSome) {} s.out).armed = true

structure Ginc (cfg : Cfg) (s : St) : Prop where
  incOk : (runR (C02.incStep cfg.reset.isSome) {} s.out).bad = false
  armE : s.fetchOffset = offsetEarliest → (runR (C02.incStep cfg.reset.isSome) {} s.out).armed = true
  armL : s.fetchOffset = offsetLatest → (runR (C02.incStep cfg.reset.isSome) {} s.out).armed = true
  armC : s.fetchOffset = offsetCommitted → (runR (C02.incStep cfg.reset.isSome) {} s.out).armed = true
  armO : ∀ k c, s.requestD = .pending k .offsets c → (runR (C02.incStep cfg.reset.isSome) {} s.out).armed = true
  armF : ∀ k c, s.requestD = .pending k .offsetFetch c → (runR (C02.incStep cfg.reset.isSome) {} s.out).armed = true
  incFrame : ∀ fr, s.frame = some fr → (runR (C02.incStep cfg.reset.isSome) {} s.out).last = some fr.last ∧
    incFrom (some fr.last) fr.rest = true ∧
    ((runR (C02.incStep cfg.reset.isSome) {} s.out).armed = true ∨ topOff fr.last fr.rest < s.fetchOffset)
  incProc : ∀ g, s.proc = some g → (runR (C02.incStep cfg.reset.isSome) {} s.out).last = some g.last ∧
    incFrom (some g.last) g.rest = true ∧
    ((runR (C02.incStep cfg.reset.isSome) {} s.out).armed = true ∨ topOff g.last g.rest < s.fetchOffset)
  incIdle : s.frame = none → s.proc = none → (runR (C02.incStep cfg.reset.isSome) {} s.out).armed = true ∨
    ∀ l, (runR (C02.incStep cfg.reset.isSome) {} s.out).last = some l → l < s.fetchOffset
  parkedNN : ∀ r, s.parked = some r → ReplyOk r
  envOk : ∀ k t, s.envReq = some (k, t) → k ≠ .outOfRange

/-- retry delays (`C14.dlStep`) -/
structure Gdl (cfg : Cfg) (s : St) : Prop where
  init0 : 0 ≤ cfg.retryInit
  max0 : 0 ≤ cfg.retryMax
  dlOk : (runR (C14.dlStep cfg.retryInit cfg.retryMax) {} s.out).bad = false
  dlErr : (runR (C14.dlStep cfg.retryInit cfg.retryMax) {} s.out).inErr = false
  dlEq : s.retryDelay = C14.delayAt cfg.retryInit cfg.retryMax (runR (C14.dlStep cfg.retryInit cfg.retryMax) {} s.out).k
  dlPrev : (runR (C14.dlStep cfg.retryInit cfg.retryMax) {} s.out).prev =
    prevOf cfg.retryInit cfg.retryMax (runR (C14.dlStep cfg.retryInit cfg.retryMax) {} s.out).k

/-- A handler that may run at any point (also while the processor is executing). -/
def Pres1 (h : St → St) : Prop := ∀ s, G1 s → G1 (h s) ∧ (h s).frame = s.frame

theorem Pres1.comp {f g : St → St} (hf : Pres1 f) (hg : Pres1 g) : Pres1 (fun s => g (f s)) := by
  intro s hs
  obtain ⟨h1, e1⟩ := hf s hs
  obtain ⟨h2, e2⟩ := hg (f s) h1
  exact ⟨h2, e2.trans e1⟩

theorem emit_pres1 (o : Ob)
    (h1 : ∀ m, C02.ovStep m (.ob o) = m) (h2 : ∀ m, C03.oifStep m (.ob o) = m)
    (h3 : ∀ m, C03.clpStep m (.ob o) = m) : Pres1 (emit o) := by
  intro s hs
  refine ⟨?_, rfl⟩
  constructor <;> simp only [emit, runR_cons, h1, h2, h3, oifOf] <;> first | exact hs.frameProc | exact hs.procBlock | exact hs.procRun | exact hs.frameBlock | exact hs.ovOk | exact hs.ovEq | exact hs.oifOk | exact hs.oifEq | exact hs.reqId | exact hs.commitId | exact hs.idsNe | exact hs.clpOk | exact hs.clpProcessed | exact hs.clpFrame | exact hs.clpProc

end Afkak.Proofs.Consumer
