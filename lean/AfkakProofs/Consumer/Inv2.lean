import AfkakProofs.Consumer.Inv1
/-!
# `G` is preserved by the handlers that reach the re-entrant API (`inner : Ops`)
-/
namespace Afkak.Proofs.Consumer
open Afkak.Consumer Afkak.Monitor Afkak.Consts

variable [EnvHyp]

-- every leaf lemma checks nine invariant components on every path of a handler
set_option maxHeartbeats 800000

/-- a commit result is never ConsumerFetchSizeTooSmall -/
def DRes.nts (r : DRes) : Prop := ∀ f, r = .err f → f ≠ .tooSmall

theorem nts_ok (v : Option Int) : DRes.nts (.ok v) := fun _ h => by cases h
theorem nts_err {f : Fail} (hf : f ≠ .tooSmall) : DRes.nts (.err f) := fun _ h => by cases h; exact hf


/-- The re-entrant API one level down preserves the invariant. -/
structure OpsPres (cfg : Cfg) (inner : Ops) : Prop where
  stop : Pres cfg inner.stop
  stopCore : Pres cfg inner.stopCore
  commit : Pres cfg inner.commit
  shutdown : Pres cfg inner.shutdown

section
variable {cfg : Cfg} {inner : Ops} (hin : OpsPres cfg inner)
include hin

theorem runAct_pres (a : Act) : Pres cfg (runAct inner a) := by
  cases a
  · exact hin.stop
  · exact hin.commit
  · exact hin.shutdown

theorem acts_good (acts : List Act) : ∀ {s0 s : St}, Good cfg s0 s →
    Good cfg s0 (acts.foldl (fun s a => runAct inner a (emit (.act a) s)) s) := by
  induction acts with
  | nil => intro s0 s h; exact h
  | cons a as ih =>
    intro s0 s h
    simp only [List.foldl_cons]
    exact ih ((runAct_pres hin a).step ((emitAct_pres cfg a).step h))

theorem nestedStop_pres : Pres cfg (nestedStop inner) := by
  intro s hs
  unfold nestedStop
  split
  · exact Good.refl hs
  · split
    · exact (crash_pres cfg _).step (Good.refl hs)
    · exact hin.stopCore.step (Good.refl hs)

theorem shutdownFinish_pres (r : Option Fail) : Pres cfg (shutdownFinish inner r) := by
  intro s hs
  have hx := Good.refl hs
  unfold shutdownFinish
  simp only []
  have h1 : Good cfg s (nestedStop inner { s with shutdownD := false }) := (nestedStop_pres hin).step (by leaf hx)
  generalize nestedStop inner { s with shutdownD := false } = s1 at h1 ⊢
  have h2 : Good cfg s { s1 with shuttingDown := false } := by leaf h1
  split
  · exact (crash_pres cfg _).step h2
  · split
    · leaf h2
    · leaf h2

theorem commitAndStop_pres : Pres cfg (commitAndStop cfg inner) := by
  intro s hs
  have hx := Good.refl hs
  have hc := (commitState_pres cfg .shut).step hx
  unfold commitAndStop commitAndStop1
  repeat' split
  all_goals first
    | exact (shutdownFinish_pres hin _).step hx
    | exact (shutdownFinish_pres hin _).step hc
    | exact hc

theorem shutdownSuccess_pres : Pres cfg (shutdownSuccess cfg inner) := by
  intro s hs
  unfold shutdownSuccess
  split
  · exact (commitAndStop_pres hin).step (Good.refl hs)
  · exact (shutdownFinish_pres hin none).step (Good.refl hs)

theorem fireWaiter_pres (r : DRes) (hr : DRes.nts r) (w : Waiter) : Pres cfg (fun s => fireWaiter cfg inner r s w) := by
  intro s hs
  have hx := Good.refl hs
  cases w <;> cases r <;> simp only [fireWaiter]
  all_goals first
    | exact hx
    | exact (handleAutoCommitError_pres cfg _ (hr _ rfl)).step hx
    | exact (autoCommit_pres cfg _).step hx
    | exact (shutdownSuccess_pres hin).step hx
    | exact (shutdownFinish_pres hin _).step hx
    | exact (commitAndStop_pres hin).step hx
    | leaf hx

theorem waiters_good (r : DRes) (hr : DRes.nts r) (ws : List Waiter) : ∀ {s0 s : St}, Good cfg s0 s →
    Good cfg s0 (ws.foldl (fireWaiter cfg inner r) s) := by
  induction ws with
  | nil => intro s0 s h; exact h
  | cons w ws ih =>
    intro s0 s h
    simp only [List.foldl_cons]
    exact ih ((fireWaiter_pres hin r hr w).step h)

theorem deliver_pres (r : DRes) (hr : DRes.nts r) : Pres cfg (deliver cfg inner r) := by
  intro s hs
  have hx := Good.refl hs
  unfold deliver
  simp only []
  exact waiters_good hin r hr _ (by leaf hx)

theorem handleCommitError_pres (f : Fail) (hf : f ≠ .tooSmall) (d : Rat) (a : Nat) : Pres cfg (handleCommitError cfg inner f d a) := by
  intro s hs
  have hx := Good.refl hs
  unfold handleCommitError
  repeat' split
  all_goals first
    | exact (deliver_pres hin _ (nts_ok _)).step hx
    | exact (deliver_pres hin _ (nts_err hf)).step hx
    | (simp only []; leaf hx)

theorem cancelWaiters_pres : ∀ (fuel : Nat), Pres cfg (cancelWaiters cfg inner fuel) := by
  intro fuel
  induction fuel with
  | zero =>
    intro s hs
    unfold cancelWaiters
    split
    · exact Good.refl hs
    · exact (crash_pres cfg _).step (Good.refl hs)
  | succ n ih =>
    intro s hs
    have hx := Good.refl hs
    unfold cancelWaiters
    split
    · exact hx
    · simp only []
      exact (ih).step ((fireWaiter_pres hin _ (nts_err (by intro h; cases h)) _).step (by leaf hx))

end

end Afkak.Proofs.Consumer
