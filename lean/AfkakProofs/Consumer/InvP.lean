import AfkakProofs.Consumer.Inv2
/-!
# Frame facts: what `stop()`'s later phases and the re-entrant API leave alone

`PN h`: `h` never creates a suspended generator out of nothing (`proc = none` is preserved).
-/
namespace Afkak.Proofs.Consumer
open Afkak.Consumer Afkak.Monitor Afkak.Consts

variable [EnvHyp]

theorem retryFetch_keeps0 (cfg : Cfg) (a : Option Rat) (s : St) : Keeps0 s (retryFetch cfg a s) := by
  unfold Keeps0 retryFetch emit; grind
theorem handleFetchError_keeps0 (cfg : Cfg) (f : Fail) (s : St) : Keeps0 s (handleFetchError cfg f s) := by
  unfold handleFetchError fetchErrorTail
  simp only []
  repeat' split
  all_goals first
    | exact ⟨rfl, rfl, rfl, Iff.rfl⟩
    | exact Keeps0.trans (b := { s with requestD := .none }) ⟨rfl, rfl, rfl, Iff.rfl⟩ (startErrback_keeps _ _).to0
    | exact Keeps0.trans (b := { s with requestD := .none }) ⟨rfl, rfl, rfl, Iff.rfl⟩ (retryFetch_keeps0 _ _ _)
    | exact Keeps0.trans (b := { s with requestD := .none, fetchOffset := cfg.reset.getD s.fetchOffset }) ⟨rfl, rfl, rfl, Iff.rfl⟩ (startErrback_keeps _ _).to0
    | exact Keeps0.trans (b := { s with requestD := .none, fetchOffset := cfg.reset.getD s.fetchOffset }) ⟨rfl, rfl, rfl, Iff.rfl⟩ (retryFetch_keeps0 _ _ _)
theorem handleOffsetError_keeps0 (cfg : Cfg) (f : Fail) (s : St) : Keeps0 s (handleOffsetError cfg f s) := by
  unfold handleOffsetError offsetErrorTail
  simp only []
  repeat' split
  all_goals first
    | exact ⟨rfl, rfl, rfl, Iff.rfl⟩
    | exact Keeps0.trans (b := { s with requestD := .none }) ⟨rfl, rfl, rfl, Iff.rfl⟩ (startErrback_keeps _ _).to0
    | exact Keeps0.trans (b := { s with requestD := .none }) ⟨rfl, rfl, rfl, Iff.rfl⟩ (retryFetch_keeps0 _ _ _)
theorem stopReq_keeps0 (cfg : Cfg) (s : St) : Keeps0 s (stopReq cfg s) := by
  unfold stopReq
  split
  · simp only []
    rename_i k kind c _
    have h1 : Keeps0 s { emit (.cancelReq k) s with requestD := .pending k kind true } := ⟨rfl, rfl, rfl, Iff.rfl⟩
    split
    · split
      · exact Keeps0.trans h1 (handleFetchError_keeps0 _ _ _)
      · exact Keeps0.trans h1 (handleOffsetError_keeps0 _ _ _)
    · exact h1
  · exact Keeps0.refl s

/-- A predicate that only looks at what `Keeps` preserves (and implies that no generator is suspended). -/
structure QOk (Q : St → Prop) : Prop where
  keeps : ∀ s s', Keeps s s' → Q s → Q s'
  procNone : ∀ s, Q s → s.proc = none

/-- no generator is suspended and no refetch is scheduled -/
def Quiet (s : St) : Prop := s.proc = none ∧ retryPending s.retryCall = false

/-- no generator is suspended and no uncancelled request is outstanding -/
def CalmR (s : St) : Prop := activeReq s.requestD = none ∧ s.parked = none

/-- no generator is suspended, no uncancelled request is outstanding, no reply is parked -/
def Calm (s : St) : Prop := s.proc = none ∧ CalmR s

theorem quiet_ok : QOk Quiet :=
  ⟨fun s s' hk h => ⟨hk.1.trans h.1, by rw [hk.2.2.2.2.1]; exact h.2⟩, fun _ h => h.1⟩
theorem calm_ok : QOk Calm :=
  ⟨fun s s' hk h => ⟨hk.1.trans h.1, by rw [hk.2.2.2.2.2.1]; exact h.2.1, hk.2.2.2.2.2.2.trans h.2.2⟩, fun _ h => h.1⟩

theorem CalmR.of_keeps {s s' : St} (hk : Keeps s s') (h : CalmR s) : CalmR s' :=
  ⟨by rw [hk.2.2.2.2.2.1]; exact h.1, hk.2.2.2.2.2.2.trans h.2⟩

/-- `h` preserves `Q` -/
def PN (Q : St → Prop) (h : St → St) : Prop := ∀ s, Q s → Q (h s)

structure OpsPN (Q : St → Prop) (inner : Ops) : Prop where
  stop : PN Q inner.stop
  stopCore : PN Q inner.stopCore
  commit : PN Q inner.commit
  shutdown : PN Q inner.shutdown

section
variable {Q : St → Prop} (hq : QOk Q)
include hq

/-- an explicit update of fields `Keeps` does not mention -/
theorem QOk.upd {s s' : St} (h : Q s) (hk : Keeps s s') : Q s' := hq.keeps s s' hk h

theorem crash_pn (site : String) : PN Q (crash site) := fun _ h => hq.upd h ⟨rfl, rfl, rfl, Iff.rfl, rfl, rfl, rfl⟩
theorem stopTimers_pn : PN Q stopTimers := by
  intro s h
  refine hq.upd h ?_
  unfold Keeps stopTimers emit; grind
theorem commitUser_pn (cfg : Cfg) : PN Q (commitUser cfg) := by
  intro s h
  have hc := hq.upd h (commitState_keeps cfg .user s)
  unfold commitUser
  simp only []
  split <;> exact hq.upd hc ⟨rfl, rfl, rfl, Iff.rfl, rfl, rfl, rfl⟩

variable {cfg : Cfg} {inner : Ops} (hin : OpsPN Q inner)
include hin

theorem nestedStop_pn : PN Q (nestedStop inner) := by
  intro s h
  unfold nestedStop
  repeat' split
  all_goals first | exact h | exact hin.stopCore s h | exact hq.upd h ⟨rfl, rfl, rfl, Iff.rfl, rfl, rfl, rfl⟩

theorem shutdownFinish_pn (r : Option Fail) : PN Q (shutdownFinish inner r) := by
  intro s h
  unfold shutdownFinish
  simp only []
  have h1 : Q (nestedStop inner { s with shutdownD := false }) :=
    nestedStop_pn hq hin _ (hq.upd h ⟨rfl, rfl, rfl, Iff.rfl, rfl, rfl, rfl⟩)
  repeat' split
  all_goals exact hq.upd h1 ⟨rfl, rfl, rfl, Iff.rfl, rfl, rfl, rfl⟩

theorem commitAndStop_pn : PN Q (commitAndStop cfg inner) := by
  intro s h
  have hc : Q (commitState cfg .shut s) := hq.upd h (commitState_keeps cfg .shut s)
  unfold commitAndStop commitAndStop1
  repeat' split
  all_goals first
    | exact shutdownFinish_pn hq hin _ _ h
    | exact shutdownFinish_pn hq hin _ _ hc
    | exact hc

theorem shutdownSuccess_pn : PN Q (shutdownSuccess cfg inner) := by
  intro s h
  unfold shutdownSuccess
  split
  · exact commitAndStop_pn hq hin _ h
  · exact shutdownFinish_pn hq hin _ _ h

theorem fireWaiter_pn (r : DRes) (w : Waiter) : PN Q (fun s => fireWaiter cfg inner r s w) := by
  intro s h
  cases w <;> cases r <;> simp only [fireWaiter]
  all_goals first
    | exact h
    | exact hq.upd h (handleAutoCommitError_keeps _ s)
    | exact hq.upd h (autoCommit_keeps cfg _ s)
    | exact shutdownSuccess_pn hq hin _ h
    | exact shutdownFinish_pn hq hin _ _ h
    | exact commitAndStop_pn hq hin _ h
    | exact hq.upd h ⟨rfl, rfl, rfl, Iff.rfl, rfl, rfl, rfl⟩

theorem waiters_pn (r : DRes) (ws : List Waiter) : PN Q (fun s => ws.foldl (fireWaiter cfg inner r) s) := by
  induction ws with
  | nil => intro s h; exact h
  | cons w ws ih => intro s h; simp only [List.foldl_cons]; exact ih _ (fireWaiter_pn hq hin r w s h)

theorem deliver_pn (r : DRes) : PN Q (deliver cfg inner r) := by
  intro s h
  unfold deliver
  exact waiters_pn hq hin r _ _ (hq.upd h ⟨rfl, rfl, rfl, Iff.rfl, rfl, rfl, rfl⟩)

theorem handleCommitError_pn (f : Fail) (d : Rat) (a : Nat) : PN Q (handleCommitError cfg inner f d a) := by
  intro s h
  unfold handleCommitError
  repeat' split
  all_goals first
    | exact deliver_pn hq hin _ s h
    | exact hq.upd h ⟨rfl, rfl, rfl, Iff.rfl, rfl, rfl, rfl⟩

theorem cancelWaiters_pn : ∀ (fuel : Nat), PN Q (cancelWaiters cfg inner fuel) := by
  intro fuel
  induction fuel with
  | zero => intro s h; unfold cancelWaiters; split <;> first | exact h | exact hq.upd h ⟨rfl, rfl, rfl, Iff.rfl, rfl, rfl, rfl⟩
  | succ n ih =>
    intro s h
    unfold cancelWaiters
    split
    · exact h
    · exact ih _ (fireWaiter_pn hq hin _ _ _ (hq.upd h ⟨rfl, rfl, rfl, Iff.rfl, rfl, rfl, rfl⟩))

theorem stopCommitReq_pn : PN Q (stopCommitReq cfg inner) := by
  intro s h
  unfold stopCommitReq
  split
  · simp only []
    split
    · exact handleCommitError_pn hq hin _ _ _ _ (hq.upd h ⟨rfl, rfl, rfl, Iff.rfl, rfl, rfl, rfl⟩)
    · exact hq.upd h ⟨rfl, rfl, rfl, Iff.rfl, rfl, rfl, rfl⟩
  · exact h

omit hin hq in
theorem stopBlock_proc (s : St) : (stopBlock s).proc = s.proc := by unfold stopBlock; split <;> rfl

omit hin in
/-- the block/processor phase of `stop()` when no generator is suspended -/
theorem stopBlockProc_procNone : ∀ s, Q s → (stopBlockProc cfg inner s).proc = none := by
  intro s h
  have hp := hq.procNone s h
  unfold stopBlockProc
  simp only [stopBlock_proc, hp]

/-- the phases of `stop()` after the block, the processor and the retry timer have been dealt with -/
theorem stopTail_pn {s : St} (h : Q s) :
    Q (stopTimers (stopCommitReq cfg inner (cancelWaiters cfg inner (s.commitDs.length + 4) s))) :=
  stopTimers_pn hq _ (stopCommitReq_pn hq hin _ (cancelWaiters_pn hq hin _ _ h))

end

end Afkak.Proofs.Consumer
