import AfkakProofs.Consumer.Inv3
/-!
# Frame facts: what `stop()`'s later phases and the re-entrant API leave alone

`PN h`: `h` never creates a suspended generator out of nothing (`proc = none` is preserved).
-/
namespace Afkak.Proofs.Consumer
open Afkak.Consumer Afkak.Monitor Afkak.Consts

theorem retryFetch_keeps (cfg : Cfg) (a : Option Rat) (s : St) : Keeps s (retryFetch cfg a s) := by
  unfold Keeps retryFetch emit; grind
theorem handleFetchError_keeps (cfg : Cfg) (f : Fail) (s : St) : Keeps s (handleFetchError cfg f s) := by
  unfold handleFetchError
  simp only []
  repeat' split
  all_goals first
    | exact ⟨rfl, rfl, rfl, Iff.rfl⟩
    | exact Keeps.trans (b := { s with requestD := .none }) ⟨rfl, rfl, rfl, Iff.rfl⟩ (startErrback_keeps _ _)
    | exact Keeps.trans (b := { s with requestD := .none }) ⟨rfl, rfl, rfl, Iff.rfl⟩ (retryFetch_keeps _ _ _)
    | exact Keeps.trans (b := { s with requestD := .none, fetchOffset := cfg.reset.getD s.fetchOffset }) ⟨rfl, rfl, rfl, Iff.rfl⟩ (startErrback_keeps _ _)
    | exact Keeps.trans (b := { s with requestD := .none, fetchOffset := cfg.reset.getD s.fetchOffset }) ⟨rfl, rfl, rfl, Iff.rfl⟩ (retryFetch_keeps _ _ _)
theorem handleOffsetError_keeps (cfg : Cfg) (f : Fail) (s : St) : Keeps s (handleOffsetError cfg f s) := by
  unfold handleOffsetError
  simp only []
  repeat' split
  all_goals first
    | exact ⟨rfl, rfl, rfl, Iff.rfl⟩
    | exact Keeps.trans (b := { s with requestD := .none }) ⟨rfl, rfl, rfl, Iff.rfl⟩ (startErrback_keeps _ _)
    | exact Keeps.trans (b := { s with requestD := .none }) ⟨rfl, rfl, rfl, Iff.rfl⟩ (retryFetch_keeps _ _ _)
theorem stopReq_keeps (cfg : Cfg) (s : St) : Keeps s (stopReq cfg s) := by
  unfold stopReq
  split
  · simp only []
    rename_i k kind c _
    have h1 : Keeps s { emit (.cancelReq k) s with requestD := .pending k kind true } := ⟨rfl, rfl, rfl, Iff.rfl⟩
    split
    · split
      · exact Keeps.trans h1 (handleFetchError_keeps _ _ _)
      · exact Keeps.trans h1 (handleOffsetError_keeps _ _ _)
    · exact h1
  · exact Keeps.refl s

/-- `h` preserves "no generator is suspended" -/
def PN (h : St → St) : Prop := ∀ s, s.proc = none → (h s).proc = none

theorem PN.of_keeps {h : St → St} (hk : ∀ s, Keeps s (h s)) : PN h := fun s hp => (hk s).1.trans hp

structure OpsPN (inner : Ops) : Prop where
  stop : PN inner.stop
  stopCore : PN inner.stopCore
  commit : PN inner.commit
  shutdown : PN inner.shutdown

theorem crash_pn (site : String) : PN (crash site) := fun _ h => h
theorem stopRetry_pn : PN stopRetry := by intro s h; unfold stopRetry emit; grind
theorem stopTimers_pn : PN stopTimers := by intro s h; unfold stopTimers emit; grind
theorem stopFinish_pn : PN stopFinish := by intro s h; unfold stopFinish crash emit; grind
theorem commitUser_pn (cfg : Cfg) : PN (commitUser cfg) := by
  intro s h
  unfold commitUser
  simp only []
  split <;> simp only [emit] <;> exact (commitState_keeps cfg .user s).1.trans h

section
variable {cfg : Cfg} {inner : Ops} (hin : OpsPN inner)
include hin

theorem nestedStop_pn : PN (nestedStop inner) := by
  intro s h
  unfold nestedStop
  repeat' split
  all_goals first | exact h | exact hin.stopCore s h

theorem shutdownFinish_pn (r : Option Fail) : PN (shutdownFinish inner r) := by
  intro s h
  unfold shutdownFinish
  simp only []
  have h1 : (nestedStop inner { s with shutdownD := false }).proc = none := nestedStop_pn hin _ h
  repeat' split
  all_goals simp only [crash, emit] <;> exact h1

theorem commitAndStop_pn : PN (commitAndStop cfg inner) := by
  intro s h
  have hc : (commitState cfg .shut s).proc = none := (commitState_keeps cfg .shut s).1.trans h
  unfold commitAndStop commitAndStop1
  repeat' split
  all_goals first
    | exact shutdownFinish_pn hin _ _ h
    | exact shutdownFinish_pn hin _ _ hc
    | exact hc

theorem shutdownSuccess_pn : PN (shutdownSuccess cfg inner) := by
  intro s h
  unfold shutdownSuccess
  split
  · exact commitAndStop_pn hin _ h
  · exact shutdownFinish_pn hin _ _ h

theorem fireWaiter_pn (r : DRes) (w : Waiter) : PN (fun s => fireWaiter cfg inner r s w) := by
  intro s h
  cases w <;> cases r <;> simp only [fireWaiter]
  all_goals first
    | exact h
    | exact (handleAutoCommitError_keeps _ s).1.trans h
    | exact (autoCommit_keeps cfg _ s).1.trans h
    | exact shutdownSuccess_pn hin _ h
    | exact shutdownFinish_pn hin _ _ h
    | exact commitAndStop_pn hin _ h

theorem waiters_pn (r : DRes) (ws : List Waiter) : PN (fun s => ws.foldl (fireWaiter cfg inner r) s) := by
  induction ws with
  | nil => intro s h; exact h
  | cons w ws ih => intro s h; simp only [List.foldl_cons]; exact ih _ (fireWaiter_pn hin r w s h)

theorem deliver_pn (r : DRes) : PN (deliver cfg inner r) := by
  intro s h
  unfold deliver
  exact waiters_pn hin r _ _ h

theorem handleCommitError_pn (f : Fail) (d : Rat) (a : Nat) : PN (handleCommitError cfg inner f d a) := by
  intro s h
  unfold handleCommitError
  repeat' split
  all_goals first
    | exact deliver_pn hin _ s h
    | exact h

theorem cancelWaiters_pn : ∀ (fuel : Nat), PN (cancelWaiters cfg inner fuel) := by
  intro fuel
  induction fuel with
  | zero => intro s h; unfold cancelWaiters; split <;> exact h
  | succ n ih =>
    intro s h
    unfold cancelWaiters
    split
    · exact h
    · exact ih _ (fireWaiter_pn hin _ _ _ h)

theorem stopCommitReq_pn : PN (stopCommitReq cfg inner) := by
  intro s h
  unfold stopCommitReq
  split
  · simp only []
    split
    · exact handleCommitError_pn hin _ _ _ _ h
    · exact h
  · exact h

omit hin in
theorem stopBlockProc_pn : PN (stopBlockProc cfg inner) := by
  intro s h
  unfold stopBlockProc
  simp only []
  split
  · rename_i g hg
    split at hg <;> simp [h] at hg
  · split <;> exact h

theorem stopCore_pn : PN (stopCore cfg inner) := by
  intro s h
  unfold stopCore
  simp only []
  exact stopFinish_pn _ (stopTimers_pn _ (stopCommitReq_pn hin _ (cancelWaiters_pn hin _ _ (stopRetry_pn _
    (stopBlockProc_pn _ ((stopReq_keeps cfg _).1.trans h))))))

theorem stop_pn : PN (stop cfg inner) := by
  intro s h
  unfold stop
  split
  · exact h
  · exact stopCore_pn hin s h

theorem shutdown_pn : PN (shutdown cfg inner) := by
  intro s h
  unfold shutdown
  split
  · exact h
  · split
    · exact h
    · simp only [h]
      exact commitAndStop_pn hin _ rfl

theorem mkOps_pn : OpsPN (mkOps cfg inner) :=
  ⟨stop_pn hin, stopCore_pn hin, commitUser_pn cfg, shutdown_pn hin⟩

end

theorem opsN_pn (cfg : Cfg) : ∀ n, OpsPN (opsN cfg n)
  | 0 => ⟨crash_pn _, crash_pn _, crash_pn _, crash_pn _⟩
  | n + 1 => mkOps_pn (opsN_pn cfg n)

end Afkak.Proofs.Consumer
