import AfkakProofs.Consumer.A5_Progress3
/-!
# C02, liveness half (12): bounded continuation from a running state that waits for its refetch timer
(`c02_progress_timer`: time passes, the timer fires, the request goes out, one faithful reply delivers the rest of the log)
-/
namespace Afkak.Proofs.Consumer.L
open Afkak.Consumer Afkak.Monitor Afkak.Consts Afkak.Props.Open.C02 Afkak.Proofs.Consumer

theorem notSentinel (fo : Int) (h : 0 ≤ fo) : (fo == offsetEarliest || fo == offsetLatest) = false ∧ (fo == offsetCommitted) = false := by
  simp only [offsetEarliest, offsetLatest, offsetCommitted, Bool.or_eq_false_iff, beq_eq_false_iff_ne, ne_eq]
  omega

/-- the next request id has not been used for a fetch request yet (request ids are never reused; true of every reachable
    state as far as tested, not proved: a hypothesis of the progress theorem) -/
def freshNext (s : St) : Bool :=
  s.out.all fun
    | .ob (.fetch k _ _) => k != s.nextReq
    | _ => true

def noReq : ReqD → Bool
  | .none => true
  | _ => false

/-- running, waiting for the refetch timer at a Kafka offset, nothing being processed, the processor returns at once -/
def WaitingAt (s : St) : Bool :=
  Running s && noReq s.requestD && timerPending s.retryCall && !s.msgBlock && s.proc.isNone && okScript s &&
    decide (0 ≤ s.fetchOffset) && freshNext s

/-- the continuation: time passes until the timer is due, it fires, the broker answers the request with the rest of the log -/
def contT (log : List Msg) (s : St) : List Ev :=
  [.advance (waitFor s), .retryFire, .fetchOk s.nextReq { msgs := restFrom log s.fetchOffset, tail := .done }]

/-- the two timer steps: afterwards the consumer is `IdleAt`, waiting for request `nextReq` at the same position -/
theorem step_timer (cfg : Cfg) (s : St) (hw : WaitingAt s = true) :
    IdleAt (step cfg (step cfg s (.advance (waitFor s))) .retryFire) = true ∧
      reqIdOf (step cfg (step cfg s (.advance (waitFor s))) .retryFire) = s.nextReq ∧
      (step cfg (step cfg s (.advance (waitFor s))) .retryFire).fetchOffset = s.fetchOffset ∧
      s.out <:+ (step cfg (step cfg s (.advance (waitFor s))) .retryFire).out := by
  simp only [WaitingAt, Running, Bool.and_eq_true, Bool.not_eq_true', beq_iff_eq, decide_eq_true_eq, Option.isNone_iff_eq_none] at hw
  obtain ⟨⟨⟨⟨⟨⟨⟨⟨⟨⟨hc, hst⟩, hsh⟩, hstop⟩, hreq⟩, htm⟩, hmb⟩, hproc⟩, hok⟩, h0⟩, hu⟩ := hw
  have hreq' : s.requestD = .none := by cases h : s.requestD <;> simp_all [noReq]
  obtain ⟨due, hrc⟩ : ∃ due, s.retryCall = .pending due := by
    cases h : s.retryCall <;> simp_all [timerPending]
  have hw : ¬ waitFor s < 0 := by
    simp only [waitFor, hrc]; split <;> grind
  have hd : due ≤ s.now + waitFor s := by
    simp only [waitFor, hrc]; split <;> grind
  obtain ⟨n1, n2⟩ := notSentinel s.fetchOffset h0
  have hu' : ∀ i ∈ s.out, (match i with | .ob (.fetch k off _) => k != s.nextReq || off == s.fetchOffset | _ => true) = true := by
    intro i hi
    unfold freshNext at hu
    have := List.all_eq_true.1 hu i hi
    split <;> simp_all
  refine ⟨?_, ?_, ?_, ?_⟩
  · simp [IdleAt, Running, fetchPending, uniqueFetch, reqIdOf, okScript, step, stepCore, hc, hw, probe, emit, hrc, hd, doFetch, hreq',
      n1, n2, hst, hsh, hstop, hmb, hproc, h0]
    refine ⟨by simpa [okScript] using hok, ?_⟩
    intro i hi
    have := hu' i hi
    split <;> simp_all
  · simp [reqIdOf, step, stepCore, hc, hw, probe, emit, hrc, hd, doFetch, hreq', n1, n2]
  · simp [step, stepCore, hc, hw, probe, emit, hrc, hd, doFetch, hreq', n1, n2]
  · simp [step, stepCore, hc, hw, probe, emit, hrc, hd, doFetch, hreq', n1, n2]
    exact ⟨[_, _, _, _, _], rfl⟩

/-- **Progress from a running state that waits for its refetch timer.**  The three-event continuation `contT log s` keeps
    the environment contract, and afterwards every log message at or after the fetch position has been handed to the
    processor in a block observed after `s`; the start Deferred is still pending. -/
theorem c02_progress_timer (log : List Msg) (cfg : Cfg) (script : List PEntry) (evs : List Ev)
    (hf : FaithfulLog log cfg script evs) (hl : Ascending log) (hi : WaitingAt (run cfg script evs) = true) :
    FaithfulLog log cfg script (evs ++ contT log (run cfg script evs)) ∧
      (contT log (run cfg script evs)).length ≤ 3 ∧
      (run cfg script (evs ++ contT log (run cfg script evs))).startD = .pending ∧
      ∀ m ∈ log, (run cfg script evs).fetchOffset ≤ m.off →
        ∃ blk, m ∈ blk ∧
          Fresh (run cfg script evs) (run cfg script (evs ++ contT log (run cfg script evs))) (.ob (.proc blk)) := by
  have hf1 : FaithfulLog log cfg script (evs ++ [.advance (waitFor (run cfg script evs))]) :=
    faithful_snoc log cfg script evs hf _ (fun k r he => by cases he)
  have hf2 : FaithfulLog log cfg script ((evs ++ [.advance (waitFor (run cfg script evs))]) ++ [.retryFire]) :=
    faithful_snoc log cfg script _ hf1 _ (fun k r he => by cases he)
  have hrun : run cfg script ((evs ++ [.advance (waitFor (run cfg script evs))]) ++ [.retryFire]) =
      step cfg (step cfg (run cfg script evs) (.advance (waitFor (run cfg script evs)))) .retryFire := by
    rw [run_snoc, run_snoc]
  obtain ⟨t1, t2, t3, t4⟩ := step_timer cfg (run cfg script evs) hi
  rw [← hrun] at t1 t2 t3 t4
  obtain ⟨p1, _, p3, p4⟩ := c02_progress_idle log cfg script _ hf2 hl t1
  have hcont : (evs ++ [.advance (waitFor (run cfg script evs))]) ++ [.retryFire] ++
      cont log (run cfg script ((evs ++ [.advance (waitFor (run cfg script evs))]) ++ [.retryFire])) =
      evs ++ contT log (run cfg script evs) := by
    unfold cont contT
    rw [t2, t3]
    simp
  rw [hcont] at p1 p3 p4
  refine ⟨p1, by simp [contT], p3, fun m hm hge => ?_⟩
  obtain ⟨blk, hb1, hb2⟩ := p4 m hm (by rw [t3]; exact hge)
  exact ⟨blk, hb1, Fresh.left t4 hb2⟩

/-! Non-vacuity: log with a compaction gap (3, 4, 7); after the first reply (offset 3) the consumer waits for its timer:
`WaitingAt`; the continuation delivers 4 and 7. -/
example :
    let log : List Msg := [⟨3, 1⟩, ⟨4, 2⟩, ⟨7, 3⟩]
    let cfg : Cfg := { group := true, autoN := 1, autoS := 0, bufInit := 100, bufMax := none, retryInit := 1, retryMax := 2,
                       maxAttempts := 0, reset := some Afkak.Consts.offsetEarliest }
    let evs : List Ev := [.start 0, .fetchOk 0 { msgs := [⟨3, 1⟩], tail := .done }]
    FaithfulLog log cfg [] evs ∧ Ascending log ∧ WaitingAt (run cfg [] evs) = true ∧
      (trace cfg [] (evs ++ contT log (run cfg [] evs))).filterMap (fun | .ob (.proc blk) => some blk | _ => none)
        = [[⟨3, 1⟩], [⟨4, 2⟩], [⟨7, 3⟩]] := by
  refine ⟨A.faithfulB_sound _ _ _ _ (by decide +kernel), by decide, by decide +kernel, by decide +kernel⟩

end Afkak.Proofs.Consumer.L
