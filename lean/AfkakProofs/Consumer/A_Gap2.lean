import AfkakProofs.Consumer.A_Gap1
/-!
# No gap, no duplicate (C02): the handlers that reach the re-entrant API (`inner : Ops`)
-/
namespace Afkak.Proofs.Consumer.A
open Afkak.Consumer Afkak.Monitor Afkak.Consts Afkak.Props.Open.C02 Afkak.Proofs.Consumer

/-- The re-entrant API one level down keeps the invariant, and its `stop()` body stops the consumer (or the model has
    given up following re-entrant calls). -/
structure OpsH (log : List Msg) (inner : Ops) : Prop where
  stop : PresH log inner.stop
  stopCore : PresH log inner.stopCore
  commit : PresH log inner.commit
  shutdown : PresH log inner.shutdown
  stopped : ∀ s, (inner.stopCore s).startD = .none ∨ DepthCrash (inner.stopCore s)

section
variable {log : List Msg} {cfg : Cfg} {inner : Ops} (hin : OpsH log inner)
include hin

theorem runAct_h (a : Act) : PresH log (runAct inner a) := by
  cases a
  · exact hin.stop
  · exact hin.commit
  · exact hin.shutdown

theorem acts_h (acts : List Act) : ∀ {s0 s : St}, HRel log s0 s →
    HRel log s0 (acts.foldl (fun s a => runAct inner a (emit (.act a) s)) s) := by
  induction acts with
  | nil => intro s0 s h; exact h
  | cons a as ih =>
    intro s0 s h
    simp only [List.foldl_cons]
    exact ih ((runAct_h hin a).step ((emitAct_k log a).toH.step h))

theorem nestedStop_h : PresH log (nestedStop inner) := by
  intro s hs
  unfold nestedStop
  split
  · exact HRel.refl hs
  · split
    · exact (crash_k log _).toH.step (HRel.refl hs)
    · exact hin.stopCore.step (HRel.refl hs)

theorem nestedStop_post (s : St) : (nestedStop inner s).stopping = true ∨ (nestedStop inner s).startD = .none ∨
    DepthCrash (nestedStop inner s) := by
  unfold nestedStop
  split
  · rename_i h; exact Or.inl h
  · split
    · rename_i h
      right; left
      simpa [crash, emit] using h
    · exact Or.inr (hin.stopped s)

theorem shutdownFinish_h (r : Option Fail) : PresH log (shutdownFinish inner r) := by
  intro s hs
  have hx := HRel.refl hs
  unfold shutdownFinish
  simp only []
  have h1 : HRel log s (nestedStop inner { s with shutdownD := false }) := (nestedStop_h hin).step (by hleaf hx)
  have hp := nestedStop_post hin { s with shutdownD := false }
  generalize nestedStop inner { s with shutdownD := false } = s1 at h1 hp ⊢
  have h2 : HRel log s { s1 with shuttingDown := false } := by
    unfold DepthCrash at hp
    hleaf h1
  split
  · exact (crash_k log _).toH.step h2
  · split
    · hleaf h2
    · hleaf h2

theorem commitAndStop_h : PresH log (commitAndStop cfg inner) := by
  intro s hs
  have hx := HRel.refl hs
  have hc := (commitState_k log cfg .shut).toH.step hx
  unfold commitAndStop commitAndStop1
  repeat' split
  all_goals first
    | exact (shutdownFinish_h hin _).step hx
    | exact (shutdownFinish_h hin _).step hc
    | exact hc

theorem shutdownSuccess_h : PresH log (shutdownSuccess cfg inner) := by
  intro s hs
  unfold shutdownSuccess
  split
  · exact (commitAndStop_h hin).step (HRel.refl hs)
  · exact (shutdownFinish_h hin none).step (HRel.refl hs)

theorem fireWaiter_h (r : DRes) (w : Waiter) : PresH log (fun s => fireWaiter cfg inner r s w) := by
  intro s hs
  have hx := HRel.refl hs
  cases w <;> cases r <;> simp only [fireWaiter]
  all_goals first
    | exact hx
    | exact (handleAutoCommitError_k log _).toH.step hx
    | exact (autoCommit_k log cfg _).toH.step hx
    | exact (shutdownSuccess_h hin).step hx
    | exact (shutdownFinish_h hin _).step hx
    | exact (commitAndStop_h hin).step hx
    | hleaf hx

theorem waiters_h (r : DRes) (ws : List Waiter) : ∀ {s0 s : St}, HRel log s0 s →
    HRel log s0 (ws.foldl (fireWaiter cfg inner r) s) := by
  induction ws with
  | nil => intro s0 s h; exact h
  | cons w ws ih =>
    intro s0 s h
    simp only [List.foldl_cons]
    exact ih ((fireWaiter_h hin r w).step h)

theorem deliver_h (r : DRes) : PresH log (deliver cfg inner r) := by
  intro s hs
  have hx := HRel.refl hs
  unfold deliver
  simp only []
  exact waiters_h hin r _ (by hleaf hx)

theorem handleCommitError_h (f : Fail) (d : Rat) (a : Nat) : PresH log (handleCommitError cfg inner f d a) := by
  intro s hs
  have hx := HRel.refl hs
  unfold handleCommitError
  repeat' split
  all_goals first
    | exact (deliver_h hin _).step hx
    | (simp only []; hleaf hx)

theorem cancelWaiters_h : ∀ (fuel : Nat), PresH log (cancelWaiters cfg inner fuel) := by
  intro fuel
  induction fuel with
  | zero =>
    intro s hs
    unfold cancelWaiters
    split
    · exact HRel.refl hs
    · exact (crash_k log _).toH.step (HRel.refl hs)
  | succ n ih =>
    intro s hs
    have hx := HRel.refl hs
    unfold cancelWaiters
    split
    · exact hx
    · simp only []
      exact (ih).step ((fireWaiter_h hin _ _).step (by hleaf hx))

theorem stopCommitReq_h : PresH log (stopCommitReq cfg inner) := by
  intro s hs
  have hx := HRel.refl hs
  unfold stopCommitReq
  split
  · simp only []
    split
    · exact (handleCommitError_h hin _ _ _).step (by hleaf hx)
    · hleaf hx
  · exact hx

end

end Afkak.Proofs.Consumer.A
