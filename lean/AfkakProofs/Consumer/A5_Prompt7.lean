import AfkakProofs.Consumer.A5_Prompt6
/-!
# C02 prompt delivery (7): a fetch reply arrives (the event the monitor's expectation is about), offset replies
-/
namespace Afkak.Proofs.Consumer.P
open Afkak.Consumer Afkak.Monitor Afkak.Consts Afkak.Proofs.Consumer

/-- what is claimed between events: the tight invariant; not inside `stop()`; no expectation left open -/
def Tp (s : St) : Prop := Hp0 s ∧ (s.crashed = false → s.stopping = false ∧ (pm s).expect = false)

theorem fin {a x : St} (h : HRel0 a x) (hst : a.stopping = false) (hex : (pm a).expect = false) : Tp x :=
  ⟨h.1, fun _ => ⟨h.2.l.stop hst, h.2.l.exp hex⟩⟩

theorem any_headFrom (fo : Int) (ms : List Msg) (h : ms.any (fun x => decide (fo ≤ x.off)) = true) :
    ∃ po, headFrom fo ms = some po := by
  obtain ⟨x, hx, hpx⟩ := List.any_eq_true.mp h
  cases hf : ms.filter (fun x => decide (fo ≤ x.off)) with
  | nil =>
    have : x ∈ ms.filter (fun x => decide (fo ≤ x.off)) := List.mem_filter.mpr ⟨hx, hpx⟩
    rw [hf] at this; cases this
  | cons y ys => exact ⟨y.off, by simp [headFrom, hf]⟩

/-- the monitor's step over a fetch reply to the outstanding request -/
def fetchOkM (m : C02.PrSt) (fo : Int) (k : Nat) (r : Reply) : C02.PrSt :=
  if (r.msgs.any (fun x => decide (fo ≤ x.off)) && !m.cancelled.contains k && m.running && !m.shut && !m.halted) = true then
    (if m.pending = true then { m with parked := headFrom fo r.msgs } else { m with expect := true })
  else m

theorem pm_fetchOk (s : St) (k : Nat) (r : Reply) (h : (pm s).offs.lookup k = some s.fetchOffset) :
    pm { s with out := .ev (.fetchOk k r) :: s.out } = fetchOkM (pm s) s.fetchOffset k r := by
  show C02.prStep (pm s) (.ev (.fetchOk k r)) = _
  simp only [C02.prStep, h, fetchOkM, headFrom]

section
variable {cfg : Cfg} {inner : Ops} (hin : OpsP inner)
include hin

/-- A fetch reply arrives for the outstanding request. -/
theorem fetchOk_p (k : Nat) (r : Reply) (c : Bool) {s : St} (ht : Tp s) (hcr : s.crashed = false) (hfr : s.frame = none)
    (hpb : s.proc.isSome = true → s.msgBlock = true) (hreq : s.requestD = .pending k .fetch c) :
    Tp (handleFetchResponse cfg inner k r { s with out := .ev (.fetchOk k r) :: s.out }) := by
  obtain ⟨hs, htop⟩ := ht
  obtain ⟨hst, hexp⟩ := htop hcr
  obtain ⟨hlk, hcn⟩ := hs.req hcr k c hreq
  have hpm := pm_fetchOk s k r hlk
  have hpk : s.parked = none := by
    cases hp : s.parked with
    | none => rfl
    | some r' =>
      obtain ⟨k', hk'⟩ := hs.pk (by rw [hp]; rfl)
      rw [hreq] at hk'; cases hk'
  have hrun := hs.reqRun hcr k _ c hreq
  have hblk := hs.blk hcr
  have hpend := hs.pend hcr
  have hshut := hs.shut hcr
  have hpark := hs.park hcr
  have hprun := hs.parkRun
  unfold handleFetchResponse
  have hsd : ¬ (({ s with out := .ev (.fetchOk k r) :: s.out } : St).startD == .none) = true := by simpa using hrun
  rw [if_neg hsd]
  simp only []
  split
  · -- a block is in progress: the reply is parked
    rename_i hmb
    have hmb' : s.msgBlock = true := hmb
    have hnp : ¬ ((r.msgs.any (fun x => decide (s.fetchOffset ≤ x.off)) && !(pm s).cancelled.contains k && (pm s).running &&
        !(pm s).shut && !(pm s).halted) = true ∧ (pm s).pending = false) := by
      rintro ⟨hc, hp⟩
      simp only [Bool.and_eq_true, Bool.not_eq_true'] at hc
      rcases hblk hmb' with h | h | h | h
      · exact h
      · rw [hfr] at h; cases h
      · rw [← hpend, hp] at h; cases h
      · rw [hc.2] at h; cases h
    have hm : pm { ({ s with out := .ev (.fetchOk k r) :: s.out } : St) with
        retryDelay := cfg.retryInit, attempts := 1, parked := (some r), requestD := (ReqD.parked k) } =
        fetchOkM (pm s) s.fetchOffset k r := hpm
    refine ⟨?_, fun _ => ⟨hst, ?_⟩⟩
    · obtain ⟨bad, pk, pkb, parkRun, run, runW, shut, pend, stp, procRun, blockRun, blk, reqRun, req, park⟩ := hs
      constructor <;> (simp only [hm, fetchOkM] <;> grind)
    · rw [hm]; unfold fetchOkM; grind
  · -- no block in progress: the messages are delivered now
    rename_i hmb
    have hmb' : s.msgBlock = false := by simpa using hmb
    have hpn : s.proc = none := by
      cases hp : s.proc with
      | none => rfl
      | some g => have := hpb (by rw [hp]; rfl); rw [hmb'] at this; cases this
    have hpf : (pm s).pending = false := by rw [hpend, hpn]; rfl
    unfold fetchBody
    have hm : pm { ({ s with out := .ev (.fetchOk k r) :: s.out } : St) with
        retryDelay := cfg.retryInit, attempts := 1, requestD := .none } = fetchOkM (pm s) s.fetchOffset k r := hpm
    have hb : Hp0 { ({ s with out := .ev (.fetchOk k r) :: s.out } : St) with
        retryDelay := cfg.retryInit, attempts := 1, requestD := .none } := by
      obtain ⟨bad, pk, pkb, parkRun, run, runW, shut, pend, stp, procRun, blockRun, blk, reqRun, req, park⟩ := hs
      constructor <;> (simp only [hm, fetchOkM] <;> grind)
    have f := fetchTail_p (cfg := cfg) hin false r (wP := False) hb hpk hrun rfl (fun w => w.elim)
    refine ⟨f.1.1, fun hc => ⟨f.1.2.stop hst, ?_⟩⟩
    by_cases hcnd : (r.msgs.any (fun x => decide (s.fetchOffset ≤ x.off)) && !(pm s).cancelled.contains k && (pm s).running &&
        !(pm s).shut && !(pm s).halted) = true
    · have hcnd' := hcnd
      simp only [Bool.and_eq_true, Bool.not_eq_true'] at hcnd'
      obtain ⟨po, hpo⟩ := any_headFrom _ _ hcnd'.1.1.1.1
      obtain ⟨x, hx, _⟩ := headFrom_extract _ _ _ hpo
      have hne : (extract s.fetchOffset r.msgs).1.isEmpty = false := by
        cases hh : (extract s.fetchOffset r.msgs).1 with
        | nil => rw [hh] at hx; cases hx
        | cons _ _ => rfl
      exact f.2 hne (hshut hcnd'.1.2) hst
    · refine f.1.2.exp ?_
      rw [hm]; unfold fetchOkM; rw [if_neg hcnd]; exact hexp

end

section
variable {cfg : Cfg}

/-- `_handle_offset_response` -/
theorem handleOffsetResponse_p (isFetch : Bool) (off : Int) {s0 s : St} (hx : HRel0 s0 s) (hpk : s.parked = none) :
    HRel0 s0 (handleOffsetResponse cfg isFetch off s) := by
  unfold handleOffsetResponse offsetResponseTail
  have hb : HRel0 s0 { s with requestD := .none } := by pleaf hx
  split
  · exact hb
  · rename_i hsd
    have hrun : s.startD ≠ .none := by simpa using hsd
    simp only []
    refine doFetch_p cfg _ _ _ _ ?_ (by (repeat' split) <;> exact hrun)
    (repeat' split) <;> pleaf hx

end
end Afkak.Proofs.Consumer.P
