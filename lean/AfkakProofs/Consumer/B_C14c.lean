import AfkakProofs.Consumer.B_C14b
/-!
# C14 at trace level: the re-entrant API, the processing loop, fetch replies, `stop()`, `shutdown()`
-/
namespace Afkak.Proofs.Consumer.B
open Afkak.Consumer Afkak.Monitor Afkak.Consts Afkak.Proofs.Consumer

structure OpsC (cfg : Cfg) (sane : Prop) (inner : Ops) : Prop where
  stop : PresH cfg sane inner.stop
  stopCore : PresH cfg sane inner.stopCore
  commit : PresH cfg sane inner.commit
  shutdown : PresH cfg sane inner.shutdown

section
variable {cfg : Cfg} {sane : Prop} {inner : Ops} (hin : OpsC cfg sane inner)
include hin

theorem runAct_c (a : Act) : PresH cfg sane (runAct inner a) := by
  cases a
  · exact hin.stop
  · exact hin.commit
  · exact hin.shutdown

theorem acts_c (acts : List Act) : ∀ {s0 s : St}, HRel cfg sane s0 s →
    HRel cfg sane s0 (acts.foldl (fun s a => runAct inner a (emit (.act a) s)) s) := by
  induction acts with
  | nil => intro s0 s h; exact h
  | cons a as ih =>
    intro s0 s h
    simp only [List.foldl_cons]
    exact ih ((runAct_c hin a).step ((emitAct_c cfg sane a).step h))

theorem nestedStop_c : PresH cfg sane (nestedStop inner) := by
  intro s hs
  unfold nestedStop
  split
  · exact HRel.refl hs
  · split
    · exact (crash_c cfg sane _).step (HRel.refl hs)
    · exact hin.stopCore.step (HRel.refl hs)

theorem shutdownFinish_c (r : Option Fail) : PresH cfg sane (shutdownFinish inner r) := by
  intro s hs
  have hx := HRel.refl hs
  unfold shutdownFinish
  simp only []
  have h1 : HRel cfg sane s (nestedStop inner { s with shutdownD := false }) := (nestedStop_c hin).step (by cleaf hx)
  generalize nestedStop inner { s with shutdownD := false } = s1 at h1 ⊢
  have h2 : HRel cfg sane s { s1 with shuttingDown := false } := by cleaf h1
  split
  · exact (crash_c cfg sane _).step h2
  · split
    · cleaf h2
    · cleaf h2

theorem commitAndStop_c : PresH cfg sane (commitAndStop cfg inner) := by
  intro s hs
  have hx := HRel.refl hs
  have hc := (commitState_c cfg sane .shut).step hx
  unfold commitAndStop commitAndStop1
  repeat' split
  all_goals first
    | exact (shutdownFinish_c hin _).step hx
    | exact (shutdownFinish_c hin _).step hc
    | exact hc

theorem shutdownSuccess_c : PresH cfg sane (shutdownSuccess cfg inner) := by
  intro s hs
  unfold shutdownSuccess
  split
  · exact (commitAndStop_c hin).step (HRel.refl hs)
  · exact (shutdownFinish_c hin none).step (HRel.refl hs)

theorem fireWaiter_c (r : DRes) (w : Waiter) : PresH cfg sane (fun s => fireWaiter cfg inner r s w) := by
  intro s hs
  have hx := HRel.refl hs
  cases w <;> cases r <;> simp only [fireWaiter]
  all_goals first
    | exact hx
    | exact (handleAutoCommitError_c cfg sane _).step hx
    | exact (autoCommit_c cfg sane _).step hx
    | exact (shutdownSuccess_c hin).step hx
    | exact (shutdownFinish_c hin _).step hx
    | exact (commitAndStop_c hin).step hx
    | cleaf hx

theorem waiters_c (r : DRes) (ws : List Waiter) : ∀ {s0 s : St}, HRel cfg sane s0 s →
    HRel cfg sane s0 (ws.foldl (fireWaiter cfg inner r) s) := by
  induction ws with
  | nil => intro s0 s h; exact h
  | cons w ws ih =>
    intro s0 s h
    simp only [List.foldl_cons]
    exact ih ((fireWaiter_c hin r w).step h)

theorem deliver_c (r : DRes) : PresH cfg sane (deliver cfg inner r) := by
  intro s hs
  have hx := HRel.refl hs
  unfold deliver
  simp only []
  exact waiters_c hin r _ (by cleaf hx)

theorem handleCommitError_c (f : Fail) (d : Rat) (a : Nat) : PresH cfg sane (handleCommitError cfg inner f d a) := by
  intro s hs
  have hx := HRel.refl hs
  unfold handleCommitError
  repeat' split
  all_goals first
    | exact (deliver_c hin _).step hx
    | (simp only []; cleaf hx)

theorem cancelWaiters_c : ∀ (fuel : Nat), PresH cfg sane (cancelWaiters cfg inner fuel) := by
  intro fuel
  induction fuel with
  | zero =>
    intro s hs
    unfold cancelWaiters
    split
    · exact HRel.refl hs
    · exact (crash_c cfg sane _).step (HRel.refl hs)
  | succ n ih =>
    intro s hs
    have hx := HRel.refl hs
    unfold cancelWaiters
    split
    · exact hx
    · simp only []
      exact (ih).step ((fireWaiter_c hin _ _).step (by cleaf hx))

theorem stopCommitReq_c : PresH cfg sane (stopCommitReq cfg inner) := by
  intro s hs
  have hx := HRel.refl hs
  unfold stopCommitReq
  split
  · simp only []
    split
    · exact (handleCommitError_c hin _ _ _).step (by cleaf hx)
    · cleaf hx
  · exact hx

omit hin in
theorem procEnter_c (blk rest' : List Msg) (last : Int) : PresH cfg sane (procEnter blk rest' last) := by
  presc_leaf [procEnter]

omit hin in
theorem procLeave_c (res : PRes) (rest' : List Msg) (last : Int) : PresH cfg sane (procLeave res rest' last) := by
  intro s hs
  have hx := HRel.refl hs
  unfold procLeave
  cases res with
  | ok => dsimp only; cleaf hx
  | err k t => dsimp only; cleaf hx
  | defer =>
    dsimp only
    split
    · cleaf hx
    · cleaf hx

theorem procBody_c (k : St → St × Bool) (hk : ∀ {s0 s : St}, HRel cfg sane s0 s → HRel cfg sane s0 (k s).1)
    (blk rest' : List Msg) (last : Int) (e : PEntry) {s0 s : St} (h : HRel cfg sane s0 s) :
    HRel cfg sane s0 (procBody cfg inner k blk rest' last e s).1 := by
  have g3 : HRel cfg sane s0 (procLeave e.res rest' last (procActs inner e.acts (procEnter blk rest' last s))) :=
    (procLeave_c _ _ _).step (acts_c hin e.acts ((procEnter_c blk rest' last).step h))
  unfold procBody
  simp only []
  generalize procLeave e.res rest' last (procActs inner e.acts (procEnter blk rest' last s)) = s3 at *
  cases e.res with
  | ok =>
    simp only []
    split
    · exact (autoCommit_c cfg sane true).step g3
    · exact hk ((autoCommit_c cfg sane true).step g3)
  | err kd t =>
    simp only []
    split
    · exact (handleProcessorError_c cfg sane _).step g3
    · split
      · exact (handleProcessorError_c cfg sane _).step g3
      · exact hk ((handleProcessorError_c cfg sane _).step g3)
  | defer =>
    simp only []
    split
    · exact g3
    · exact (handleProcessorError_c cfg sane _).step g3

theorem procLoop_c : ∀ (fuel : Nat) (rest : List Msg) {s0 s : St}, HRel cfg sane s0 s →
    HRel cfg sane s0 (procLoop cfg inner fuel rest s).1 := by
  intro fuel
  induction fuel with
  | zero => intro rest s0 s h; exact h
  | succ n ih =>
    intro rest s0 s h
    unfold procLoop
    split
    · exact h
    · split
      · exact h
      · exact procBody_c hin _ (fun h' => ih _ h') _ _ _ _ h

theorem deliverBlock_c (msgs : List Msg) : PresH cfg sane (deliverBlock cfg inner msgs) := by
  intro s hs
  have hx := HRel.refl hs
  unfold deliverBlock
  split
  · exact hx
  · simp only []
    have h2 := procLoop_c hin (msgs.length + 1) msgs (s0 := s) (s := { s with msgBlock := true }) (by cleaf hx)
    generalize (procLoop cfg inner (msgs.length + 1) msgs { s with msgBlock := true }) = res at *
    obtain ⟨s2, done⟩ := res
    simp only [] at *
    split
    · exact h2
    · unfold finishSimple
      split
      · cleaf h2
      · exact h2

end

section
variable {cfg : Cfg} {sane : Prop} {inner : Ops} (hin : OpsC cfg sane inner)
include hin

omit hin in
theorem extract_nil_fo (fo : Int) (ms : List Msg) (h : (extract fo ms).2 ≠ fo) : ms ≠ [] := by
  intro hm; subst hm; exact h rfl

/-- `_handle_fetch_response` after `self._request_d = None` -/
theorem fetchTail_c (via : Bool) (r : Reply) {s : St} (hs : Hc cfg sane s) (hrq : s.requestD = .none) (hpk : s.parked = none)
    (hie : (dlm cfg s).inErr = false) (hfo : (extract s.fetchOffset r.msgs).2 ≠ s.fetchOffset → (nsm s).expect = none)
    (hrx : sane → (rsm cfg s).expect = none ∧ (rsm cfg s).fetchAt = none)
    (htl : ∀ t, r.tail = .raise .outOfRange t → (nsm s).expect = none) :
    HRel cfg sane s (fetchTail cfg inner via r s) := by
  have hx := HRel.refl hs
  unfold fetchTail
  simp only []
  generalize (extract s.fetchOffset r.msgs).2 = fo' at *
  generalize (extract s.fetchOffset r.msgs).1 = msgs at *
  have hb : HRel cfg sane s { s with fetchOffset := fo' } := by
    by_cases hq : fo' = s.fetchOffset
    · subst hq; exact hx
    · have hne := hfo hq
      have hrx' : sane → (runR (C14.rsStep cfg.reset) {} s.out).expect = none ∧ (runR (C14.rsStep cfg.reset) {} s.out).fetchAt = none := hrx
      cleaf hx
  have hE : ∀ (f : Fail) {z : St}, HRel cfg sane s z → (f.isOutOfRange = true → (nsm s).expect = none) →
      HRel cfg sane s (handleFetchError cfg f z) := by
    intro f z hz hf
    refine handleFetchError_c f hz (hz.2.2.2.2 hpk) (fun ho => ⟨by rw [hz.2.1]; exact hf ho, fun hP => ?_⟩)
    rw [hz.2.2.1.1, hz.2.2.1.2]
    exact ⟨Or.inl (hrx hP).1, (hrx hP).2⟩
  have hR : ∀ {z : St}, HRel cfg sane s z → HRel cfg sane s (retryFetch cfg (some 0) z) := by
    intro z hz
    exact retryFetch_c (some 0) hz (fun _ => hz.2.2.2.1.trans hie) (by intro h; cases h) (by intro d h; cases h; rfl)
  split
  · exact hR ((deliverBlock_c hin msgs).step hb)
  · split
    · rename_i b hbb
      exact hR ((deliverBlock_c hin msgs).step (by cleaf hb))
    · have h3 := (deliverBlock_c hin msgs).step ((startErrback_c cfg sane .tooSmall).step hb)
      split
      · exact hE _ h3 (by intro ho; simp [Fail.isOutOfRange] at ho)
      · exact h3
  · rename_i kd t htail
    have h3 := (deliverBlock_c hin msgs).step hb
    split
    · exact h3
    · refine hE _ h3 (fun ho => ?_)
      have : kd = .outOfRange := by cases kd <;> simp [Fail.isOutOfRange] at ho ⊢
      subst this
      exact htl t htail

/-- the end of `_process_messages` when resumed (outside failure handling) -/
theorem finishFull_c {s : St} (hs : Hc cfg sane s) (hie : (dlm cfg s).inErr = false) :
    HRel cfg sane s (finishFull cfg inner s) := by
  have hx := HRel.refl hs
  unfold finishFull
  split
  · simp only []
    split
    · rename_i r hr
      obtain ⟨kp, hkp⟩ := hs.1.parkedReq (by rw [hr]; rfl)
      have hk0 := fun hD => (hs.2.2.1 hD).dPark (by rw [hr]; rfl)
      have hn4 := hs.2.1.n4 r hr
      split
      · cleaf hx
      · rename_i hrun
        have hrun' : s.startD ≠ .none := by simpa using hrun
        have hrs : sane → (rsm cfg s).expect = none ∧ (rsm cfg s).fetchAt = none := by
          intro hP
          constructor
          · cases he : (rsm cfg s).expect with
            | none => rfl
            | some e => have := ((hs.2.2.2 hP).r2 e he).2.1; rw [hkp] at this; cases this
          · cases he : (rsm cfg s).fetchAt with
            | none => rfl
            | some e =>
              rcases (hs.2.2.2 hP).r3 e he with h | h
              · exact absurd h hrun'
              · rw [hkp] at h; cases h.2.1
        unfold fetchBody
        have hd3 : (0 ≤ cfg.retryInit ∧ 0 ≤ cfg.retryMax) → s.retryDelay = C14.delayAt cfg.retryInit cfg.retryMax 0 := by
          intro hD
          have := (hs.2.2.1 hD).d3
          rw [hk0 hD] at this
          exact this
        have h4 : HRel cfg sane s { s with msgBlock := false, parked := none, retryDelay := cfg.retryInit, attempts := 1, requestD := .none } := by
          have hdl0 : C14.delayAt cfg.retryInit cfg.retryMax 0 = cfg.retryInit := rfl
          have hrs' : sane → (runR (C14.rsStep cfg.reset) {} s.out).expect = none ∧ (runR (C14.rsStep cfg.reset) {} s.out).fetchAt = none := hrs
          cleaf hx
        refine h4.trans (fetchTail_c hin true r h4.1 rfl rfl (h4.2.2.2.1.trans hie) (fun hne => ?_) (fun hP => ?_) (fun t ht => ?_))
        · rw [h4.2.1]
          exact hn4 (Or.inl (extract_nil_fo _ _ hne))
        · rw [h4.2.2.1.1, h4.2.2.1.2]; exact hrs hP
        · rw [h4.2.1]
          exact hn4 (Or.inr (by rw [ht]; intro h; cases h))
    · cleaf hx
  · exact hx

end
end Afkak.Proofs.Consumer.B
