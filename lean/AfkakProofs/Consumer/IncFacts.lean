import AfkakProofs.Consumer.InvC
/-!
# Facts about `incFrom`, `lastOff`, `extract` and the increasing-delivery monitor (`C02.incStep`)
-/
namespace Afkak.Proofs.Consumer
open Afkak.Consumer Afkak.Monitor Afkak.Consts

theorem incFrom_cons_some (l : Int) (b : Msg) (t : List Msg) :
    incFrom (some l) (b :: t) = (decide (l < b.off) && incFrom (some b.off) t) := rfl
theorem incFrom_cons_none (b : Msg) (t : List Msg) : incFrom none (b :: t) = incFrom (some b.off) t := rfl

theorem incFrom_weaken : ∀ (rest : List Msg) (lo : Option Int), incFrom lo rest = true → incFrom none rest = true
  | [], _, _ => rfl
  | b :: t, none, h => h
  | b :: t, some l, h => by
    rw [incFrom_cons_some] at h
    rw [incFrom_cons_none]
    exact (Bool.and_eq_true _ _ ▸ h).2

theorem incFrom_mono : ∀ (rest : List Msg) (l l' : Int), l' ≤ l → incFrom (some l) rest = true → incFrom (some l') rest = true
  | [], _, _, _, _ => rfl
  | b :: t, l, l', hl, h => by
    rw [incFrom_cons_some] at h ⊢
    simp only [Bool.and_eq_true, decide_eq_true_eq] at h ⊢
    exact ⟨by omega, h.2⟩

theorem lastOff_cons_cons (a b : Msg) (t : List Msg) : lastOff (a :: b :: t) = lastOff (b :: t) := rfl

theorem lastOff_getLast : ∀ (l : List Msg) (m : Msg), l.getLast? = some m → lastOff l = some m.off
  | [], _, h => by simp at h
  | [a], m, h => by simp at h; simp [lastOff, h]
  | a :: b :: l, m, h => by
    have : (b :: l).getLast? = some m := by simpa [List.getLast?_cons_cons] using h
    simpa [lastOff] using lastOff_getLast (b :: l) m this

theorem lastOff_cons_some (c : Msg) (t : List Msg) : ∃ v, lastOff (c :: t) = some v := by
  obtain ⟨m, hm⟩ : ∃ m, (c :: t).getLast? = some m := by simp [List.getLast?_eq_some_getLast]
  exact ⟨_, lastOff_getLast _ _ hm⟩

theorem lastOff_mem : ∀ (l : List Msg) (v : Int), lastOff l = some v → ∃ x ∈ l, x.off = v
  | [], _, h => by simp [lastOff] at h
  | [a], v, h => by simp [lastOff] at h; exact ⟨a, by simp, h⟩
  | a :: b :: t, v, h => by
    rw [lastOff_cons_cons] at h
    obtain ⟨x, hx, hv⟩ := lastOff_mem (b :: t) v h
    exact ⟨x, List.mem_cons_of_mem _ hx, hv⟩

/-- the last offset of an increasing list is at least its lower bound -/
theorem incFrom_le_top : ∀ (rest : List Msg) (l : Int), incFrom (some l) rest = true → l ≤ topOff l rest
  | [], l, _ => by simp [topOff, lastOff]
  | [a], l, h => by
    rw [incFrom_cons_some] at h
    simp only [Bool.and_eq_true, decide_eq_true_eq] at h
    simp [topOff, lastOff]; omega
  | a :: b :: t, l, h => by
    rw [incFrom_cons_some] at h
    simp only [Bool.and_eq_true, decide_eq_true_eq] at h
    have := incFrom_le_top (b :: t) a.off h.2
    simp only [topOff, lastOff_cons_cons] at this ⊢
    have hb : (lastOff (b :: t)).getD l = (lastOff (b :: t)).getD a.off := by
      cases hx : lastOff (b :: t) with
      | some v => rfl
      | none =>
        exfalso
        cases t with
        | nil => simp [lastOff] at hx
        | cons c t' =>
          obtain ⟨m, hm⟩ : ∃ m, (b :: c :: t').getLast? = some m := by
            simp [List.getLast?_eq_some_getLast]
          rw [lastOff_getLast _ _ hm] at hx; cases hx
    rw [hb]; omega

/-- splitting an increasing list after its first `n` elements -/
theorem incFrom_take_drop (n : Nat) : ∀ (rest : List Msg) (lo : Option Int) (m : Msg), incFrom lo rest = true →
    (rest.take n).getLast? = some m →
    incFrom lo (rest.take n) = true ∧ incFrom (some m.off) (rest.drop n) = true ∧
      lastOff rest = some (topOff m.off (rest.drop n)) := by
  induction n with
  | zero => intro rest lo m _ h; simp at h
  | succ k ih =>
    intro rest lo m h hl
    cases rest with
    | nil => simp at hl
    | cons b t =>
      have hb : incFrom (some b.off) t = true := by
        cases lo with
        | none => exact h
        | some l => rw [incFrom_cons_some] at h; exact (Bool.and_eq_true _ _ ▸ h).2
      simp only [List.take_succ_cons, List.drop_succ_cons] at hl ⊢
      cases hk : (t.take k) with
      | nil =>
        -- the block is `[b]`
        rw [hk] at hl
        simp at hl
        subst hl
        have hd : t.drop k = t := by
          cases k with
          | zero => rfl
          | succ j =>
            cases t with
            | nil => rfl
            | cons c t' => simp at hk
        rw [hd]
        refine ⟨?_, hb, ?_⟩
        · cases lo with
          | none => rfl
          | some l =>
            rw [incFrom_cons_some] at h ⊢
            simp only [Bool.and_eq_true, decide_eq_true_eq] at h ⊢
            exact ⟨h.1, rfl⟩
        · cases t with
          | nil => simp [lastOff, topOff]
          | cons c t' =>
            rw [lastOff_cons_cons]
            obtain ⟨m, hm⟩ : ∃ m, (c :: t').getLast? = some m := by simp [List.getLast?_eq_some_getLast]
            simp [topOff, lastOff_getLast _ _ hm]
      | cons c t' =>
        have hl' : (t.take k).getLast? = some m := by
          rw [hk] at hl ⊢
          simpa [List.getLast?_cons_cons] using hl
        obtain ⟨h1, h2, h3⟩ := ih t (some b.off) m hb hl'
        rw [hk] at h1
        refine ⟨?_, h2, ?_⟩
        · cases lo with
          | none => rw [incFrom_cons_none]; exact h1
          | some l =>
            rw [incFrom_cons_some] at h ⊢
            simp only [Bool.and_eq_true, decide_eq_true_eq] at h ⊢
            exact ⟨h.1, h1⟩
        · cases t with
          | nil => simp at hk
          | cons d t'' => rw [lastOff_cons_cons]; exact h3

/-- what `extract` takes: increasing, at or after the fetch position, from the reply; the position moves just
    past the last one taken -/
theorem extract_spec : ∀ (msgs : List Msg) (fo : Int),
    incFrom (some (fo - 1)) (extract fo msgs).1 = true ∧ (∀ x ∈ (extract fo msgs).1, x ∈ msgs) ∧
      (extract fo msgs).2 = topOff (fo - 1) (extract fo msgs).1 + 1
  | [], fo => by simp [extract, incFrom, topOff, lastOff]
  | m :: ms, fo => by
    unfold extract
    split
    · obtain ⟨h1, h2, h3⟩ := extract_spec ms fo
      exact ⟨h1, fun x hx => List.mem_cons_of_mem _ (h2 x hx), h3⟩
    · rename_i hlt
      obtain ⟨h1, h2, h3⟩ := extract_spec ms (m.off + 1)
      simp only [Int.add_sub_cancel] at h1 h3
      refine ⟨?_, ?_, ?_⟩
      · rw [incFrom_cons_some]
        simp only [Bool.and_eq_true, decide_eq_true_eq]
        exact ⟨by omega, h1⟩
      · intro x hx
        rcases List.mem_cons.1 hx with rfl | hx
        · exact List.mem_cons_self
        · exact List.mem_cons_of_mem _ (h2 x hx)
      · rw [h3]
        cases ht : (extract (m.off + 1) ms).1 with
        | nil => simp only [ht]; simp [topOff, lastOff]
        | cons c t =>
          obtain ⟨v, hv⟩ := lastOff_cons_some c t
          simp only [ht]
          simp [topOff, lastOff_cons_cons, hv]

/-! ### the monitor at a processor call -/

/-- handing an increasing, non-empty block to the processor: with no descent nothing but `last` changes; with
    a descent the monitor uses up its permitted discontinuity (or has none: only then it goes bad) -/
theorem incStep_proc (hr : Bool) (M : C02.IncSt) (blk : List Msg) (m : Msg) (hl : blk.getLast? = some m)
    (h1 : incFrom none blk = true) :
    (incFrom M.last blk = true → C02.incStep hr M (.ob (.proc blk)) = { M with last := some m.off }) ∧
    (M.armed = true → (C02.incStep hr M (.ob (.proc blk))).last = some m.off ∧
      (C02.incStep hr M (.ob (.proc blk))).bad = M.bad) := by
  have hlo := lastOff_getLast _ _ hl
  cases blk with
  | nil => simp at hl
  | cons b t =>
    simp only [C02.incStep, h1, if_true, hlo]
    cases hlast : M.last with
    | none => simp
    | some l =>
      simp only []
      refine ⟨fun hi => ?_, fun ha => ?_⟩
      · rw [incFrom_cons_some] at hi
        simp only [Bool.and_eq_true, decide_eq_true_eq] at hi
        simp [hi.1]
      · by_cases hlt : l < b.off
        · simp [hlt]
        · simp [hlt, ha]

/-- items that are no processor call, no `start`, no restart error, no failed fetch leave the monitor alone -/
theorem incStep_ob (hr : Bool) (M : C02.IncSt) (o : Ob) (h1 : ∀ blk, o ≠ .proc blk) (h2 : o ≠ .raisedRestart) :
    C02.incStep hr M (.ob o) = M := by
  cases o <;> simp_all [C02.incStep]

@[simp] theorem incStep_procRet (hr : Bool) (M : C02.IncSt) (r : PRes) : C02.incStep hr M (.ob (.procRet r)) = M := rfl
@[simp] theorem incStep_procCancel (hr : Bool) (M : C02.IncSt) : C02.incStep hr M (.ob .procCancel) = M := rfl
@[simp] theorem incStep_procOk (hr : Bool) (M : C02.IncSt) : C02.incStep hr M (.ev .procOk) = M := rfl
@[simp] theorem incStep_procErr (hr : Bool) (M : C02.IncSt) (k : ErrKind) (t : Nat) : C02.incStep hr M (.ev (.procErr k t)) = M := rfl

theorem incStep_fetchErr (hr : Bool) (M : C02.IncSt) (k : Nat) (ek : ErrKind) (t : Nat) :
    C02.incStep hr M (.ev (.fetchErr k ek t)) = if ek = .outOfRange ∧ hr = true then { M with armed := true } else M := by
  cases ek <;> cases hr <;> simp [C02.incStep]

/-- the fetch position is a number and no request is outstanding: nothing obliges the monitor to stay armed -/
def NoArmNeed (s : St) : Prop :=
  s.fetchOffset ≠ offsetEarliest ∧ s.fetchOffset ≠ offsetLatest ∧ s.fetchOffset ≠ offsetCommitted ∧ s.requestD = .none

/-- the rest of a block continues the delivered stream -/
def LoopA (cfg : Cfg) (rest : List Msg) (s : St) : Prop :=
  incFrom (runR (C02.incStep cfg.reset.isSome) {} s.out).last rest = true ∧
    ((runR (C02.incStep cfg.reset.isSome) {} s.out).armed = true ∨ ∀ h, lastOff rest = some h → h < s.fetchOffset)

/-- a fresh block right after a permitted discontinuity -/
def LoopB (cfg : Cfg) (rest : List Msg) (s : St) : Prop :=
  (runR (C02.incStep cfg.reset.isSome) {} s.out).armed = true ∧ NoArmNeed s ∧ ∀ h, lastOff rest = some h → h < s.fetchOffset

/-- what the processing loop needs to know about the messages it is about to deliver -/
def LoopInc (cfg : Cfg) (rest : List Msg) (s : St) : Prop :=
  incFrom none rest = true ∧ (LoopA cfg rest s ∨ LoopB cfg rest s)

/-- `s'` differs from `s` in nothing the increasing-delivery invariant looks at -/
def KeepsI (cfg : Cfg) (s s' : St) : Prop :=
  runR (C02.incStep cfg.reset.isSome) {} s'.out = runR (C02.incStep cfg.reset.isSome) {} s.out ∧ s'.fetchOffset = s.fetchOffset

theorem KeepsI.refl (cfg : Cfg) (s : St) : KeepsI cfg s s := ⟨rfl, rfl⟩
theorem KeepsI.trans {cfg : Cfg} {a b c : St} (h1 : KeepsI cfg a b) (h2 : KeepsI cfg b c) : KeepsI cfg a c :=
  ⟨h2.1.trans h1.1, h2.2.trans h1.2⟩

theorem LoopA.keeps {cfg : Cfg} {rest : List Msg} {s s' : St} (hk : KeepsI cfg s s') (h : LoopA cfg rest s) : LoopA cfg rest s' := by
  unfold LoopA at *
  rw [hk.1, hk.2]; exact h

theorem LoopA.loopInc {cfg : Cfg} {rest : List Msg} {s : St} (h : LoopA cfg rest s) : LoopInc cfg rest s :=
  ⟨incFrom_weaken _ _ h.1, Or.inl h⟩

theorem looperReset_keepsI (cfg : Cfg) (s : St) : KeepsI cfg s (looperReset cfg s) := by
  unfold KeepsI looperReset emit; grind [C02.incStep, runR_cons]
theorem sendCommitRequest_keepsI (cfg : Cfg) (d : Option Rat) (a : Option Nat) (s : St) :
    KeepsI cfg s (sendCommitRequest cfg d a s) := by
  unfold KeepsI sendCommitRequest crash emit; grind [C02.incStep, runR_cons]
theorem keepsI_send (cfg : Cfg) (x s : St) (h : KeepsI cfg s x) :
    KeepsI cfg s (looperReset cfg (sendCommitRequest cfg none none x)) :=
  KeepsI.trans (KeepsI.trans h (sendCommitRequest_keepsI cfg none none x)) (looperReset_keepsI cfg _)
theorem commitState_keepsI (cfg : Cfg) (w : Who) (s : St) : KeepsI cfg s (commitState cfg w s) := by
  unfold commitState
  split
  · exact KeepsI.refl cfg s
  · split
    · exact KeepsI.refl cfg s
    · split
      · cases w <;> exact ⟨rfl, rfl⟩
      · simp only []
        exact keepsI_send cfg _ s ⟨rfl, rfl⟩
theorem startErrback_keepsI (cfg : Cfg) (f : Fail) (s : St) : KeepsI cfg s (startErrback f s) := by
  unfold KeepsI startErrback emit; grind [C02.incStep, runR_cons]
theorem handleAutoCommitError_keepsI (cfg : Cfg) (f : Fail) (s : St) : KeepsI cfg s (handleAutoCommitError f s) := by
  unfold handleAutoCommitError
  split
  · exact KeepsI.refl cfg s
  · split
    · exact startErrback_keepsI cfg f s
    · exact KeepsI.refl cfg s
theorem autoCommit_keepsI (cfg : Cfg) (b : Bool) (s : St) : KeepsI cfg s (autoCommit cfg b s) := by
  unfold autoCommit
  simp only []
  repeat' split
  all_goals first
    | exact KeepsI.refl cfg s
    | exact KeepsI.trans (commitState_keepsI cfg .auto s) (handleAutoCommitError_keepsI cfg _ _)
    | exact commitState_keepsI cfg .auto s
    | exact ⟨rfl, rfl⟩
theorem handleProcessorError_keepsI (cfg : Cfg) (f : Fail) (s : St) : KeepsI cfg s (handleProcessorError f s) := by
  unfold handleProcessorError
  split
  · exact KeepsI.refl cfg s
  · exact startErrback_keepsI cfg f s

/-! ### Buffer growth (`C14.grStep`) -/

/-- the model's growth function (constants extracted from the source) is the rule the property states -/
theorem grow_eq_spec (b : Nat) (mx : Option Nat) : grow b mx = C14.growSpec b mx := by
  unfold grow C14.growSpec
  simp only [growSmall_eq, growLarge_eq, growThreshold_eq]
  cases mx with
  | none => simp only []; split <;> rfl
  | some m => simp only []; split <;> (try split) <;> rfl

/-! ### Every delivered message was carried by a fetch reply (`C02.payStep`) -/

/-- the messages the processing loop is about to deliver have all been seen in fetch replies -/
def LoopPay (rest : List Msg) (s : St) : Prop := ∀ x ∈ rest, x ∈ (runR C02.payStep {} s.out).seen

/-- `s'` has seen the same fetch replies as `s` -/
def KeepsP (s s' : St) : Prop := runR C02.payStep {} s'.out = runR C02.payStep {} s.out

theorem KeepsP.refl (s : St) : KeepsP s s := rfl
theorem KeepsP.trans {a b c : St} (h1 : KeepsP a b) (h2 : KeepsP b c) : KeepsP a c := Eq.trans h2 h1
theorem LoopPay.keeps {rest : List Msg} {s s' : St} (hk : KeepsP s s') (h : LoopPay rest s) : LoopPay rest s' := by
  unfold LoopPay at *; rw [hk]; exact h

@[simp] theorem payStep_procRet (M : C02.PaySt) (r : PRes) : C02.payStep M (.ob (.procRet r)) = M := rfl
@[simp] theorem payStep_procCancel (M : C02.PaySt) : C02.payStep M (.ob .procCancel) = M := rfl
@[simp] theorem payStep_procOk (M : C02.PaySt) : C02.payStep M (.ev .procOk) = M := rfl
@[simp] theorem payStep_procErr (M : C02.PaySt) (k : ErrKind) (t : Nat) : C02.payStep M (.ev (.procErr k t)) = M := rfl

theorem payStep_proc (M : C02.PaySt) (blk : List Msg) (h : ∀ x ∈ blk, x ∈ M.seen) : C02.payStep M (.ob (.proc blk)) = M := by
  have : blk.all (fun x => M.seen.contains x) = true := by
    simp only [List.all_eq_true, List.contains_iff_mem]
    exact h
  simp only [C02.payStep, this, if_true]

theorem looperReset_keepsP (cfg : Cfg) (s : St) : KeepsP s (looperReset cfg s) := by
  unfold KeepsP looperReset emit; grind [C02.payStep, runR_cons]
theorem sendCommitRequest_keepsP (cfg : Cfg) (d : Option Rat) (a : Option Nat) (s : St) :
    KeepsP s (sendCommitRequest cfg d a s) := by
  unfold KeepsP sendCommitRequest crash emit; grind [C02.payStep, runR_cons]
theorem keepsP_send (cfg : Cfg) (x s : St) (h : KeepsP s x) :
    KeepsP s (looperReset cfg (sendCommitRequest cfg none none x)) :=
  KeepsP.trans (KeepsP.trans h (sendCommitRequest_keepsP cfg none none x)) (looperReset_keepsP cfg _)
theorem commitState_keepsP (cfg : Cfg) (w : Who) (s : St) : KeepsP s (commitState cfg w s) := by
  unfold commitState
  split
  · exact KeepsP.refl s
  · split
    · exact KeepsP.refl s
    · split
      · cases w <;> exact rfl
      · simp only []
        exact keepsP_send cfg _ s rfl
theorem startErrback_keepsP (f : Fail) (s : St) : KeepsP s (startErrback f s) := by
  unfold KeepsP startErrback emit; grind [C02.payStep, runR_cons]
theorem handleAutoCommitError_keepsP (f : Fail) (s : St) : KeepsP s (handleAutoCommitError f s) := by
  unfold handleAutoCommitError
  split
  · exact KeepsP.refl s
  · split
    · exact startErrback_keepsP f s
    · exact KeepsP.refl s
theorem autoCommit_keepsP (cfg : Cfg) (b : Bool) (s : St) : KeepsP s (autoCommit cfg b s) := by
  unfold autoCommit
  simp only []
  repeat' split
  all_goals first
    | exact KeepsP.refl s
    | exact KeepsP.trans (commitState_keepsP cfg .auto s) (handleAutoCommitError_keepsP _ _)
    | exact commitState_keepsP cfg .auto s
    | exact rfl
theorem handleProcessorError_keepsP (f : Fail) (s : St) : KeepsP s (handleProcessorError f s) := by
  unfold handleProcessorError
  split
  · exact KeepsP.refl s
  · exact startErrback_keepsP f s

/-! ### After a processor failure nothing is delivered (`C03.haltStep`) -/

/-- the halted-delivery monitor is in the same state after `s'` as after `s` -/
def KeepsH (s s' : St) : Prop := runR C03.haltStep {} s'.out = runR C03.haltStep {} s.out

/-- entering the processing loop: after a processor failure only a `stop()` in progress comes through here (and
    the loop lets nothing through then) -/
def LoopH (s : St) : Prop := (runR C03.haltStep {} s.out).halted = true → s.stopping = true

/-- leaving the processing loop normally -/
def HaltPost (s : St) : Prop := (runR C03.haltStep {} s.out).halted = true → s.stopping = true ∨ s.startD = .none

theorem KeepsH.refl (s : St) : KeepsH s s := rfl
theorem KeepsH.trans {a b c : St} (h1 : KeepsH a b) (h2 : KeepsH b c) : KeepsH a c := Eq.trans h2 h1

@[simp] theorem haltStep_procRet_ok (M : C03.HaltSt) : C03.haltStep M (.ob (.procRet .ok)) = M := rfl
@[simp] theorem haltStep_procRet_defer (M : C03.HaltSt) : C03.haltStep M (.ob (.procRet .defer)) = M := rfl
@[simp] theorem haltStep_procCancel (M : C03.HaltSt) : C03.haltStep M (.ob .procCancel) = M := rfl
@[simp] theorem haltStep_procOk (M : C03.HaltSt) : C03.haltStep M (.ev .procOk) = M := rfl

theorem looperReset_keepsH (cfg : Cfg) (s : St) : KeepsH s (looperReset cfg s) := by
  unfold KeepsH looperReset emit; grind [C03.haltStep, runR_cons]
theorem sendCommitRequest_keepsH (cfg : Cfg) (d : Option Rat) (a : Option Nat) (s : St) :
    KeepsH s (sendCommitRequest cfg d a s) := by
  unfold KeepsH sendCommitRequest crash emit; grind [C03.haltStep, runR_cons]
theorem keepsH_send (cfg : Cfg) (x s : St) (h : KeepsH s x) :
    KeepsH s (looperReset cfg (sendCommitRequest cfg none none x)) :=
  KeepsH.trans (KeepsH.trans h (sendCommitRequest_keepsH cfg none none x)) (looperReset_keepsH cfg _)
theorem commitState_keepsH (cfg : Cfg) (w : Who) (s : St) : KeepsH s (commitState cfg w s) := by
  unfold commitState
  split
  · exact KeepsH.refl s
  · split
    · exact KeepsH.refl s
    · split
      · cases w <;> exact rfl
      · simp only []
        exact keepsH_send cfg _ s rfl
theorem startErrback_keepsH (f : Fail) (s : St) : KeepsH s (startErrback f s) := by
  unfold KeepsH startErrback emit; grind [C03.haltStep, runR_cons]
theorem handleAutoCommitError_keepsH (f : Fail) (s : St) : KeepsH s (handleAutoCommitError f s) := by
  unfold handleAutoCommitError
  split
  · exact KeepsH.refl s
  · split
    · exact startErrback_keepsH f s
    · exact KeepsH.refl s
theorem autoCommit_keepsH (cfg : Cfg) (b : Bool) (s : St) : KeepsH s (autoCommit cfg b s) := by
  unfold autoCommit
  simp only []
  repeat' split
  all_goals first
    | exact KeepsH.refl s
    | exact KeepsH.trans (commitState_keepsH cfg .auto s) (handleAutoCommitError_keepsH _ _)
    | exact commitState_keepsH cfg .auto s
    | exact rfl
theorem handleProcessorError_keepsH (f : Fail) (s : St) : KeepsH s (handleProcessorError f s) := by
  unfold handleProcessorError
  split
  · exact KeepsH.refl s
  · exact startErrback_keepsH f s

/-- the messages `_handle_fetch_response` extracts may be handed to the processing loop -/
theorem extract_loop {cfg : Cfg} {s x : St} (hi : Ginc cfg s) (hf : s.frame = none) (hp : s.proc = none)
    (r : Reply) (hr : ReplyOk r)
    (hM : runR (C02.incStep cfg.reset.isSome) {} x.out = runR (C02.incStep cfg.reset.isSome) {} s.out)
    (hfo : x.fetchOffset = (extract s.fetchOffset r.msgs).2) (hrq : x.requestD = .none)
    (hne : (extract s.fetchOffset r.msgs).1 ≠ []) : LoopInc cfg (extract s.fetchOffset r.msgs).1 x := by
  obtain ⟨e1, e2, e3⟩ := extract_spec r.msgs s.fetchOffset
  have hlast : ∀ h, lastOff (extract s.fetchOffset r.msgs).1 = some h → h < x.fetchOffset := by
    intro h hh
    rw [hfo, e3]; simp [topOff, hh]
  refine ⟨incFrom_weaken _ _ e1, ?_⟩
  by_cases ha : (runR (C02.incStep cfg.reset.isSome) {} s.out).armed = true
  · right
    refine ⟨by rw [hM]; exact ha, ?_, hlast⟩
    have hpos : 0 < x.fetchOffset := by
      cases hm : (extract s.fetchOffset r.msgs).1 with
      | nil => exact absurd hm hne
      | cons c t =>
        obtain ⟨v, hv⟩ := lastOff_cons_some c t
        rw [← hm] at hv
        obtain ⟨y, hy, hyv⟩ := lastOff_mem _ _ hv
        have := hr.1 y (e2 y hy)
        have := hlast v hv
        omega
    have c2 : offsetEarliest = -2 := rfl
    have c3 : offsetLatest = -1 := rfl
    have c4 : offsetCommitted = -101 := rfl
    exact ⟨by omega, by omega, by omega, hrq⟩
  · left
    refine ⟨?_, Or.inr hlast⟩
    rw [hM]
    rcases hi.incIdle hf hp with h | h
    · exact absurd h ha
    · cases hl : (runR (C02.incStep cfg.reset.isSome) {} s.out).last with
      | none => exact incFrom_weaken _ _ e1
      | some l => exact incFrom_mono _ _ _ (by have := h l hl; omega) e1

end Afkak.Proofs.Consumer
