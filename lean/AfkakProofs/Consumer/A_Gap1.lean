import AfkakProofs.Consumer.A_Defs
/-!
# No gap, no duplicate (C02): the invariant `Hg` and the handlers that call no other handler
-/
namespace Afkak.Proofs.Consumer.A
open Afkak.Consumer Afkak.Monitor Afkak.Consts Afkak.Props.Open.C02 Afkak.Proofs.Consumer

/-- this run delivers nothing more -/
def DeadS (s : St) : Prop := s.startD = .none ∨ s.stopping = true ∨ s.shuttingDown = true

/-- the model gave up following re-entrant calls (`Cfg.depth` exhausted) -/
def DepthCrash (s : St) : Prop := Item.ob (.crash "re-entrancy depth") ∈ s.out

/-- the fetch position is a sentinel / the position a (re)start permits / just after offset `t` -/
def Pos3 (log : List Msg) (s : St) (t : Int) : Prop :=
  s.fetchOffset < 0 ∨ (gm log s).from? = some s.fetchOffset ∨ s.fetchOffset = t + 1

/-- a queue of extracted messages: it continues the log after the last delivered message, and the fetch position is
    just after it (or was moved by a reset) -/
def QInv (log : List Msg) (s : St) (last : Int) (rest : List Msg) : Prop :=
  (gm log s).last = some last ∧ chainFrom log last rest ∧ Pos3 log s (topOff last rest)

/-- nothing queued: the fetch position is just after the last delivered message (or was moved by a (re)start / reset) -/
def IdlePos (log : List Msg) (s : St) : Prop :=
  s.fetchOffset < 0 ∨ (gm log s).from? = some s.fetchOffset ∨ (gm log s).last = some (s.fetchOffset - 1)

structure Hg (log : List Msg) (s : St) : Prop where
  bad : (gm log s).bad = false
  parkedReq : s.parked.isSome = true → ∃ k, s.requestD = .parked k
  stopPark : s.startD = .none → s.parked = none
  parkedBlock : s.parked.isSome = true → s.msgBlock = true
  stopReqD : s.startD = .none → ∀ k c, s.requestD ≠ .pending k .fetch c
  frameBlock : s.frame.isSome = true → s.msgBlock = true ∨ s.startD = .none ∨ s.stopping = true
  gFrame : ∀ fr, s.frame = some fr → QInv log s fr.last fr.rest
  gProc : ∀ g, s.proc = some g → QInv log s g.last g.rest
  gIdle : s.frame = none → s.proc = none → s.msgBlock = false → DeadS s ∨ DepthCrash s ∨ IdlePos log s
  gParked : ∀ r, s.parked = some r → replyFaithful log s.fetchOffset r = true
  gReq : ∀ k c, s.requestD = .pending k .fetch c → ∃ mb, Item.ob (.fetch k s.fetchOffset mb) ∈ s.out
  depthCr : DepthCrash s → s.crashed = true

/-- `x` is a good successor of `s0`: the invariant holds, the executing generator is untouched, nothing was parked -/
def HRel (log : List Msg) (s0 x : St) : Prop :=
  Hg log x ∧ x.frame = s0.frame ∧ (s0.parked = none → x.parked = none) ∧ (s0.proc = none → x.proc = none)

/-- … and moreover neither the monitor, nor the fetch position, nor what the processing loop looks at was touched -/
def KRel (log : List Msg) (s0 x : St) : Prop :=
  Hg log x ∧ x.frame = s0.frame ∧ x.parked = s0.parked ∧ gm log x = gm log s0 ∧
    x.fetchOffset = s0.fetchOffset ∧ x.proc = s0.proc ∧ x.stopping = s0.stopping ∧
    x.shuttingDown = s0.shuttingDown ∧ x.msgBlock = s0.msgBlock ∧ (x.startD = .none ↔ s0.startD = .none)

def PresH (log : List Msg) (h : St → St) : Prop := ∀ s, Hg log s → HRel log s (h s)
def PresK (log : List Msg) (h : St → St) : Prop := ∀ s, Hg log s → KRel log s (h s)

theorem HRel.refl {log : List Msg} {s : St} (h : Hg log s) : HRel log s s := ⟨h, rfl, fun h => h, fun h => h⟩
theorem KRel.refl {log : List Msg} {s : St} (h : Hg log s) : KRel log s s := ⟨h, rfl, rfl, rfl, rfl, rfl, rfl, rfl, rfl, Iff.rfl⟩

theorem HRel.trans {log : List Msg} {a b c : St} (h1 : HRel log a b) (h2 : HRel log b c) : HRel log a c :=
  ⟨h2.1, h2.2.1.trans h1.2.1, fun hp => h2.2.2.1 (h1.2.2.1 hp), fun hp => h2.2.2.2 (h1.2.2.2 hp)⟩

theorem KRel.trans {log : List Msg} {a b c : St} (h1 : KRel log a b) (h2 : KRel log b c) : KRel log a c := by
  obtain ⟨_, a2, a3, a4, a5, a6, a7, a8, a9, a10⟩ := h1
  obtain ⟨b1, b2, b3, b4, b5, b6, b7, b8, b9, b10⟩ := h2
  exact ⟨b1, b2.trans a2, b3.trans a3, b4.trans a4, b5.trans a5, b6.trans a6, b7.trans a7, b8.trans a8, b9.trans a9, b10.trans a10⟩

theorem KRel.toH {log : List Msg} {a b : St} (h : KRel log a b) : HRel log a b :=
  ⟨h.1, h.2.1, fun hp => h.2.2.1.trans hp, fun hp => h.2.2.2.2.2.1.trans hp⟩

theorem PresH.step {log : List Msg} {h : St → St} (hh : PresH log h) {s x : St} (hx : HRel log s x) : HRel log s (h x) :=
  hx.trans (hh x hx.1)
theorem PresK.step {log : List Msg} {h : St → St} (hh : PresK log h) {s x : St} (hx : KRel log s x) : KRel log s (h x) :=
  hx.trans (hh x hx.1)
theorem PresK.toH {log : List Msg} {h : St → St} (hk : PresK log h) : PresH log h := fun s hs => (hk s hs).toH

/-- close `Hg log X` for an explicit update `X` of `s`, from `hs : Hg log s` -/
syntax "hg_fields" ident : tactic
macro_rules
  | `(tactic| hg_fields $hs) => `(tactic|
      (obtain ⟨q1, q2, q3, q3b, q3c, q4, q5, q6, q7, q8, q9, q10⟩ := $hs
       constructor <;>
         (simp only [gm, DeadS, DepthCrash, Pos3, QInv, IdlePos, emit] at * <;>
          grind [C02.gapStep, runR_cons])))

/-- `KRel log s0 X` for an explicit update `X` of `x`, from `hx : KRel log s0 x` -/
syntax "kleaf" ident : tactic
macro_rules
  | `(tactic| kleaf $hx) => `(tactic|
      (obtain ⟨hs_, e1, e2, e3, e4, e5, e6, e7, e8, e9⟩ := $hx
       refine ⟨?_, ?_, ?_, ?_, ?_, ?_, ?_, ?_, ?_, ?_⟩
       · hg_fields hs_
       all_goals first | assumption | ((simp only [gm, emit] at *) <;> grind [C02.gapStep, runR_cons])))

/-- `HRel log s0 X` for an explicit update `X` of `x`, from `hx : HRel log s0 x` -/
syntax "hleaf" ident : tactic
macro_rules
  | `(tactic| hleaf $hx) => `(tactic|
      (obtain ⟨hs_, e1, e2, e3⟩ := $hx
       refine ⟨?_, ?_, ?_, ?_⟩
       · hg_fields hs_
       all_goals first | assumption | ((simp only [emit] at *) <;> grind)))

/-- `PresK log h` for a handler that calls no other handler -/
syntax "presk_leaf" "[" ident* "]" : tactic
macro_rules
  | `(tactic| presk_leaf [$ds*]) => `(tactic|
      (intro s hs
       have hx := KRel.refl hs
       unfold $ds*
       kleaf hx))

theorem crash_k (log : List Msg) (site : String) : PresK log (crash site) := by presk_leaf [crash]
theorem emitAct_k (log : List Msg) (a : Act) : PresK log (emit (.act a)) := by presk_leaf [emit]
theorem probe_k (log : List Msg) : PresK log probe := by presk_leaf [probe]
theorem startErrback_k (log : List Msg) (f : Fail) : PresK log (startErrback f) := by presk_leaf [startErrback]
theorem retryFetch_k (log : List Msg) (cfg : Cfg) (a : Option Rat) : PresK log (retryFetch cfg a) := by presk_leaf [retryFetch]
theorem looperReset_k (log : List Msg) (cfg : Cfg) : PresK log (looperReset cfg) := by presk_leaf [looperReset]
theorem stopRetry_k (log : List Msg) : PresK log stopRetry := by presk_leaf [stopRetry]
theorem stopTimers_k (log : List Msg) : PresK log stopTimers := by presk_leaf [stopTimers]
theorem sendCommitRequest_k (log : List Msg) (cfg : Cfg) (d : Option Rat) (a : Option Nat) : PresK log (sendCommitRequest cfg d a) := by
  presk_leaf [sendCommitRequest crash]
/-- `_do_fetch` while the consumer is running -/
theorem doFetch_k (log : List Msg) (cfg : Cfg) {s0 s : St} (hx : KRel log s0 s) (hrun : s.startD ≠ .none) :
    KRel log s0 (doFetch cfg s) := by
  unfold doFetch startErrback errbackRaises
  kleaf hx

theorem handleAutoCommitError_k (log : List Msg) (f : Fail) : PresK log (handleAutoCommitError f) := by
  intro s hs
  unfold handleAutoCommitError
  repeat' split
  all_goals first | exact KRel.refl hs | exact startErrback_k log f s hs

theorem handleProcessorError_k (log : List Msg) (f : Fail) : PresK log (handleProcessorError f) := by
  intro s hs
  unfold handleProcessorError
  split
  · exact KRel.refl hs
  · exact startErrback_k log f s hs

theorem commitState_k (log : List Msg) (cfg : Cfg) (w : Who) : PresK log (commitState cfg w) := by
  intro s hs
  have hx := KRel.refl hs
  unfold commitState
  split
  · exact hx
  · split
    · exact hx
    · split
      · cases w <;> simp only [] <;> kleaf hx
      · simp only []
        exact (looperReset_k log cfg).step ((sendCommitRequest_k log cfg none none).step (by kleaf hx))

theorem autoCommit_k (log : List Msg) (cfg : Cfg) (b : Bool) : PresK log (autoCommit cfg b) := by
  intro s hs
  have hx := KRel.refl hs
  have hc := (commitState_k log cfg .auto).step hx
  unfold autoCommit
  simp only []
  repeat' split
  all_goals first
    | exact hx
    | exact hc
    | exact (handleAutoCommitError_k log _).step hc
    | kleaf hx

theorem commitUser_k (log : List Msg) (cfg : Cfg) : PresK log (commitUser cfg) := by
  intro s hs
  have hc := (commitState_k log cfg .user).step (KRel.refl hs)
  unfold commitUser
  simp only []
  split
  · kleaf hc
  · kleaf hc

theorem offsetErrorTail_k (log : List Msg) (cfg : Cfg) (f : Fail) : PresK log (offsetErrorTail cfg f) := by
  intro s hs
  have hx := KRel.refl hs
  unfold offsetErrorTail
  repeat' split
  all_goals first
    | exact hx
    | exact (startErrback_k log f).step hx
    | exact (retryFetch_k log cfg none).step hx

/-- `_handle_offset_error` for a request behind which no reply is parked -/
theorem handleOffsetError_h (log : List Msg) (cfg : Cfg) (f : Fail) {s0 s : St} (hx : HRel log s0 s) (hpk : s.parked = none) :
    HRel log s0 (handleOffsetError cfg f s) := by
  unfold handleOffsetError
  exact (offsetErrorTail_k log cfg f).toH.step (by hleaf hx)

/-- `_handle_fetch_error` for a request behind which no reply is parked -/
theorem handleFetchError_h (log : List Msg) (cfg : Cfg) (hcfg : ∀ v, cfg.reset = some v → v < 0) (f : Fail) {s0 s : St}
    (hx : HRel log s0 s) (hpk : s.parked = none) : HRel log s0 (handleFetchError cfg f s) := by
  unfold handleFetchError fetchErrorTail
  simp only []
  have h0 : HRel log s0 { s with requestD := .none } := by hleaf hx
  split
  · exact h0
  · split
    · exact (startErrback_k log f).toH.step h0
    · have h1 : HRel log s0 (if f.isOutOfRange then { ({ s with requestD := .none } : St) with fetchOffset := cfg.reset.getD s.fetchOffset } else { s with requestD := .none }) := by
        split
        · cases hr : cfg.reset with
          | none => simp only [Option.getD_none]; exact h0
          | some v =>
            have hv := hcfg v hr
            simp only [Option.getD_some]
            hleaf hx
        · exact h0
      generalize (if f.isOutOfRange then { ({ s with requestD := .none } : St) with fetchOffset := cfg.reset.getD s.fetchOffset } else { s with requestD := .none }) = s1 at *
      repeat' split
      all_goals first
        | exact h1
        | exact (startErrback_k log f).toH.step h1
        | exact (retryFetch_k log cfg none).toH.step h1

end Afkak.Proofs.Consumer.A
