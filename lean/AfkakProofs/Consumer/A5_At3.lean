import AfkakProofs.Consumer.A5_At2
/-!
# C14 attempt limit at trace level: the re-entrant API, the processing loop, fetch replies
-/
namespace Afkak.Proofs.Consumer.T
open Afkak.Consumer Afkak.Monitor Afkak.Consts Afkak.Proofs.Consumer

/-- what `stop()`'s body guarantees: everything but "the monitor believes the consumer runs ⇒ `_start_d` is set" (the
    caller reports the stop right after) -/
def WRel (cfg : Cfg) (s0 x : St) : Prop := Core cfg s0 x ∧ (s0.stopping = false → x.stopping = false)

def PresW (cfg : Cfg) (h : St → St) : Prop := ∀ s, Ha cfg s → WRel cfg s (h s)

theorem HRel.w {cfg : Cfg} {a b : St} (h : HRel cfg a b) : WRel cfg a b := ⟨h.1, h.2.1⟩
theorem WRel.trans {cfg : Cfg} {a b c : St} (h1 : WRel cfg a b) (h2 : WRel cfg b c) : WRel cfg a c :=
  ⟨h1.1.trans h2.1, fun h => h2.2 (h1.2 h)⟩

/-- `HRel cfg s0 X` for an explicit update `X` of `x` that reports the end of the run (or crashes), from `hw : WRel cfg s0 x` -/
syntax "wleaf" ident : tactic
macro_rules
  | `(tactic| wleaf $hw) => `(tactic|
      (obtain ⟨hc_, e4⟩ := $hw
       refine ⟨?_, ?_, ?_⟩
       · coreleaf hc_
       · first | assumption | ((simp only [emit, crash] at *) <;> grind)
       · (intro _; simp only [R, atm, emit, crash] at * <;> grind [C14.atStep, C14.atFail, runR_cons])))

structure OpsA (cfg : Cfg) (inner : Ops) : Prop where
  stop : PresH cfg inner.stop
  stopCore : PresW cfg inner.stopCore
  commit : PresH cfg inner.commit
  shutdown : ∀ s, Ha cfg s → ShutPre cfg s → HRel cfg s (inner.shutdown s)

section
variable {cfg : Cfg} {inner : Ops} (hin : OpsA cfg inner)
include hin

/-- the processor makes one API call -/
theorem act_a (a : Act) : PresH cfg (fun s => runAct inner a (emit (.act a) s)) := by
  intro s hs
  cases a with
  | stop => exact hin.stop.step (emitAct_a cfg .stop (by intro h; cases h) s hs)
  | commit => exact hin.commit.step (emitAct_a cfg .commit (by intro h; cases h) s hs)
  | shutdown =>
    obtain ⟨h1, h2⟩ := emitShutdown_a cfg s hs
    exact h1.trans (hin.shutdown _ h1.ha h2)

theorem acts_a (acts : List Act) : ∀ {s0 s : St}, HRel cfg s0 s →
    HRel cfg s0 (acts.foldl (fun s a => runAct inner a (emit (.act a) s)) s) := by
  induction acts with
  | nil => intro s0 s h; exact h
  | cons a as ih =>
    intro s0 s h
    simp only [List.foldl_cons]
    exact ih ((act_a hin a).step h)

theorem nestedStop_a : PresW cfg (nestedStop inner) := by
  intro s hs
  unfold nestedStop
  split
  · exact (HRel.refl hs).w
  · split
    · exact ((crash_a cfg _).step (HRel.refl hs)).w
    · exact hin.stopCore s hs

theorem shutdownFinish_a (r : Option Fail) : PresH cfg (shutdownFinish inner r) := by
  intro s hs
  have hx := HRel.refl hs
  unfold shutdownFinish
  simp only []
  have h0 : HRel cfg s { s with shutdownD := false } := by aleaf hx
  have h1 : WRel cfg s (nestedStop inner { s with shutdownD := false }) := h0.w.trans (nestedStop_a hin _ h0.ha)
  generalize nestedStop inner { s with shutdownD := false } = s1 at h1 ⊢
  split
  · unfold crash; wleaf h1
  · split
    · wleaf h1
    · wleaf h1

theorem commitAndStop_a : PresH cfg (commitAndStop cfg inner) := by
  intro s hs
  have hx := HRel.refl hs
  have hc := (commitState_a cfg .shut).step hx
  unfold commitAndStop commitAndStop1
  repeat' split
  all_goals first
    | exact (shutdownFinish_a hin _).step hx
    | exact (shutdownFinish_a hin _).step hc
    | exact hc

theorem shutdownSuccess_a : PresH cfg (shutdownSuccess cfg inner) := by
  intro s hs
  unfold shutdownSuccess
  split
  · exact (commitAndStop_a hin).step (HRel.refl hs)
  · exact (shutdownFinish_a hin none).step (HRel.refl hs)

theorem fireWaiter_a (r : DRes) (w : Waiter) : PresH cfg (fun s => fireWaiter cfg inner r s w) := by
  intro s hs
  have hx := HRel.refl hs
  cases w <;> cases r <;> simp only [fireWaiter]
  all_goals first
    | exact hx
    | exact (handleAutoCommitError_a cfg _).step hx
    | exact (autoCommit_a cfg _).step hx
    | exact (shutdownSuccess_a hin).step hx
    | exact (shutdownFinish_a hin _).step hx
    | exact (commitAndStop_a hin).step hx
    | aleaf hx

theorem waiters_a (r : DRes) (ws : List Waiter) : ∀ {s0 s : St}, HRel cfg s0 s →
    HRel cfg s0 (ws.foldl (fireWaiter cfg inner r) s) := by
  induction ws with
  | nil => intro s0 s h; exact h
  | cons w ws ih =>
    intro s0 s h
    simp only [List.foldl_cons]
    exact ih ((fireWaiter_a hin r w).step h)

theorem deliver_a (r : DRes) : PresH cfg (deliver cfg inner r) := by
  intro s hs
  have hx := HRel.refl hs
  unfold deliver
  simp only []
  exact waiters_a hin r _ (by aleaf hx)

theorem handleCommitError_a (f : Fail) (d : Rat) (a : Nat) : PresH cfg (handleCommitError cfg inner f d a) := by
  intro s hs
  have hx := HRel.refl hs
  unfold handleCommitError
  repeat' split
  all_goals first
    | exact (deliver_a hin _).step hx
    | (simp only []; aleaf hx)

theorem cancelWaiters_a : ∀ (fuel : Nat), PresH cfg (cancelWaiters cfg inner fuel) := by
  intro fuel
  induction fuel with
  | zero =>
    intro s hs
    unfold cancelWaiters
    split
    · exact HRel.refl hs
    · exact (crash_a cfg _).step (HRel.refl hs)
  | succ n ih =>
    intro s hs
    have hx := HRel.refl hs
    unfold cancelWaiters
    split
    · exact hx
    · simp only []
      exact (ih).step ((fireWaiter_a hin _ _).step (by aleaf hx))

theorem stopCommitReq_a : PresH cfg (stopCommitReq cfg inner) := by
  intro s hs
  have hx := HRel.refl hs
  unfold stopCommitReq
  split
  · simp only []
    split
    · exact (handleCommitError_a hin _ _ _).step (by aleaf hx)
    · aleaf hx
  · exact hx

omit hin in
theorem procEnter_a (blk rest' : List Msg) (last : Int) : PresH cfg (procEnter blk rest' last) := by
  presa_leaf [procEnter]

omit hin in
theorem procLeave_a (res : PRes) (rest' : List Msg) (last : Int) : PresH cfg (procLeave res rest' last) := by
  intro s hs
  have hx := HRel.refl hs
  unfold procLeave
  cases res with
  | ok => dsimp only; aleaf hx
  | err k t => dsimp only; aleaf hx
  | defer =>
    dsimp only
    split
    · aleaf hx
    · aleaf hx

theorem procBody_a (k : St → St × Bool) (hk : ∀ {s0 s : St}, HRel cfg s0 s → HRel cfg s0 (k s).1)
    (blk rest' : List Msg) (last : Int) (e : PEntry) {s0 s : St} (h : HRel cfg s0 s) :
    HRel cfg s0 (procBody cfg inner k blk rest' last e s).1 := by
  have g3 : HRel cfg s0 (procLeave e.res rest' last (procActs inner e.acts (procEnter blk rest' last s))) :=
    (procLeave_a _ _ _).step (acts_a hin e.acts ((procEnter_a blk rest' last).step h))
  unfold procBody
  simp only []
  generalize procLeave e.res rest' last (procActs inner e.acts (procEnter blk rest' last s)) = s3 at *
  cases e.res with
  | ok =>
    simp only []
    split
    · exact (autoCommit_a cfg true).step g3
    · exact hk ((autoCommit_a cfg true).step g3)
  | err kd t =>
    simp only []
    split
    · exact (handleProcessorError_a cfg _).step g3
    · split
      · exact (handleProcessorError_a cfg _).step g3
      · exact hk ((handleProcessorError_a cfg _).step g3)
  | defer =>
    simp only []
    split
    · exact g3
    · exact (handleProcessorError_a cfg _).step g3

theorem procLoop_a : ∀ (fuel : Nat) (rest : List Msg) {s0 s : St}, HRel cfg s0 s →
    HRel cfg s0 (procLoop cfg inner fuel rest s).1 := by
  intro fuel
  induction fuel with
  | zero => intro rest s0 s h; exact h
  | succ n ih =>
    intro rest s0 s h
    unfold procLoop
    split
    · exact h
    · split
      · exact h
      · exact procBody_a hin _ (fun h' => ih _ h') _ _ _ _ h

theorem deliverBlock_a (msgs : List Msg) : PresH cfg (deliverBlock cfg inner msgs) := by
  intro s hs
  have hx := HRel.refl hs
  unfold deliverBlock
  split
  · exact hx
  · simp only []
    have h2 := procLoop_a hin (msgs.length + 1) msgs (s0 := s) (s := { s with msgBlock := true }) (by aleaf hx)
    generalize (procLoop cfg inner (msgs.length + 1) msgs { s with msgBlock := true }) = res at *
    obtain ⟨s2, done⟩ := res
    simp only [] at *
    split
    · exact h2
    · unfold finishSimple
      split
      · aleaf h2
      · exact h2

end

section
variable {cfg : Cfg} {inner : Ops} (hin : OpsA cfg inner)
include hin

/-- `_handle_fetch_response` after `self._request_d = None`: the immediate refetch happens outside failure handling -/
theorem fetchTail_a (via : Bool) (r : Reply) {s : St} (hs : Ha cfg s) (hrq : s.requestD = .none) (hpk : s.parked = none)
    (hie : (∀ k t, r.tail ≠ .raise k t) → (atm cfg s).inErr = false) :
    HRel cfg s (fetchTail cfg inner via r s) := by
  have hx := HRel.refl hs
  have hnp0 : NoPend s := by intro k kind c h; rw [hrq] at h; cases h
  unfold fetchTail
  simp only []
  generalize (extract s.fetchOffset r.msgs).2 = fo' at *
  generalize (extract s.fetchOffset r.msgs).1 = msgs at *
  have hb : HRel cfg s { s with fetchOffset := fo' } := by aleaf hx
  have hE : ∀ (f : Fail) {z : St}, HRel cfg s z → HRel cfg s (handleFetchError cfg f z) := by
    intro f z hz
    exact handleFetchError_a f hz (hz.pk hpk)
  have hR : (∀ k t, r.tail ≠ .raise k t) → ∀ {z : St}, HRel cfg s z → HRel cfg s (retryFetch cfg (some 0) z) := by
    intro ht z hz
    refine retryFetch_a (some 0) hz (hz.1.2.2.2.1 hnp0) (hz.pk hpk) (fun h1 _ => ?_)
    rw [hz.1.2.1, hie ht] at h1
    cases h1
  split
  · rename_i htl
    exact hR (by intro k t h; rw [htl] at h; cases h) ((deliverBlock_a hin msgs).step hb)
  · rename_i htl
    split
    · rename_i b hbb
      exact hR (by intro k t h; rw [htl] at h; cases h) ((deliverBlock_a hin msgs).step (by aleaf hb))
    · have h3 := (deliverBlock_a hin msgs).step ((startErrback_a cfg .tooSmall).step hb)
      split
      · exact hE _ h3
      · exact h3
  · rename_i kd t htail
    have h3 := (deliverBlock_a hin msgs).step hb
    split
    · exact h3
    · exact hE _ h3

/-- the end of `_process_messages` when resumed (outside failure handling) -/
theorem finishFull_a {s : St} (hs : Ha cfg s) (hie : (atm cfg s).inErr = false) :
    HRel cfg s (finishFull cfg inner s) := by
  have hx := HRel.refl hs
  unfold finishFull
  split
  · simp only []
    split
    · rename_i r hr
      obtain ⟨kp, hkp⟩ := hs.parkedReq (by rw [hr]; rfl)
      have hk1 := hs.park (by rw [hr]; rfl)
      have hk2 := hs.pr2 (by rw [hr]; rfl)
      simp only [atm] at hk1
      split
      · aleaf hx
      · unfold fetchBody
        have h4 : HRel cfg s { s with msgBlock := false, parked := none, retryDelay := cfg.retryInit, attempts := 1, requestD := .none } := by
          aleaf hx
        exact h4.trans (fetchTail_a hin true r h4.ha rfl rfl (fun _ => h4.1.2.1.trans hie))
    · aleaf hx
  · exact hx

end
end Afkak.Proofs.Consumer.T
