import AfkakProofs.Consumer.A_Gap2
/-!
# No gap, no duplicate (C02): the processing loop
-/
namespace Afkak.Proofs.Consumer.A
open Afkak.Consumer Afkak.Monitor Afkak.Consts Afkak.Props.Open.C02 Afkak.Proofs.Consumer

/-- What the processing loop needs of the messages still to be handed over: they continue the log after the last
    delivered message, or (a fresh extraction) the monitor accepts the first one and the fetch position is just
    after the last one. -/
def LoopG (log : List Msg) (rest : List Msg) (s : St) : Prop :=
  (∃ l, (gm log s).last = some l ∧ chainFrom log l rest ∧ Pos3 log s (topOff l rest)) ∨
  (∃ x xs, rest = x :: xs ∧ Acc log (gm log s) x ∧ chainFrom log x.off xs ∧ s.fetchOffset = topOff x.off xs + 1)

/-- what holds when the loop is over and no generator is suspended -/
def Post (log : List Msg) (s : St) : Prop := DeadS s ∨ IdlePos log s

theorem LoopG.keeps {log : List Msg} {rest : List Msg} {s x : St} (h1 : gm log x = gm log s) (h2 : x.fetchOffset = s.fetchOffset)
    (h : LoopG log rest s) : LoopG log rest x := by
  unfold LoopG Pos3 at *
  rw [h1, h2]
  exact h

theorem getLast_topOff (blk : List Msg) (m : Msg) (l : Int) (h : blk.getLast? = some m) : topOff l blk = m.off := by
  have : lastOff blk = some m.off := by
    induction blk with
    | nil => cases h
    | cons a t ih =>
      cases t with
      | nil => simp at h; subst h; rfl
      | cons b t' =>
        have : (a :: b :: t').getLast? = (b :: t').getLast? := by simp [List.getLast?_cons_cons]
        rw [this] at h
        exact ih h
  simp [topOff, this]

/-- entering the processor call -/
theorem procEnter_h {log : List Msg} {s : St} (hs : Hg log s) (hp : s.proc = none) (hf : s.frame = none)
    (hb : s.msgBlock = true ∨ s.startD = .none ∨ s.stopping = true)
    (n : Nat) (rest : List Msg) (m : Msg) (hl : (rest.take n).getLast? = some m) (hlg : LoopG log rest s) :
    Hg log (procEnter (rest.take n) (rest.drop n) m.off s) := by
  have hne : rest.take n ≠ [] := by intro h; rw [h] at hl; cases hl
  -- the monitor's verdict on the block
  have key : ∃ M' : C02.GapSt, C02.gapBlock log (gm log s) (rest.take n) = M' ∧ M'.bad = false ∧ M'.last = some m.off ∧
      chainFrom log m.off (rest.drop n) ∧
      (s.fetchOffset < 0 ∨ M'.from? = some s.fetchOffset ∨ s.fetchOffset = topOff m.off (rest.drop n) + 1) := by
    rcases hlg with ⟨l, h1, h2, h3⟩ | ⟨x, xs, h1, h2, h3, h4⟩
    · obtain ⟨c1, c2, c3⟩ := chain_take_drop log rest n l h2
      have ht := getLast_topOff (rest.take n) m l hl
      cases hblk : rest.take n with
      | nil => exact absurd hblk hne
      | cons x xs =>
        rw [hblk] at c1
        obtain ⟨d1, d2⟩ := c1
        obtain ⟨a1, a2, a3, _, _⟩ := gapBlock_acc log (gm log s) x xs (Or.inl ⟨l, h1, d1⟩) d2
        have ht' : topOff x.off xs = m.off := by rw [← topOff_cons l x xs, ← hblk]; exact ht
        refine ⟨_, rfl, a1.trans hs.bad, by rw [a2, ht'], by rw [← ht]; exact c2, ?_⟩
        rw [a3 ⟨l, h1, d1⟩, ← ht, c3]
        exact h3
    · subst h1
      cases n with
      | zero => exact absurd rfl hne
      | succ k =>
        obtain ⟨c1, c2, c3⟩ := chain_take_drop log xs k x.off h3
        have ht : topOff x.off (xs.take k) = m.off := by
          rw [← topOff_cons x.off x (xs.take k)]
          exact getLast_topOff _ m _ (by simpa using hl)
        obtain ⟨a1, a2, _, _, _⟩ := gapBlock_acc log (gm log s) x (xs.take k) h2 c1
        simp only [List.take_succ_cons, List.drop_succ_cons]
        refine ⟨_, rfl, a1.trans hs.bad, by rw [a2, ht], by rw [← ht]; exact c2, ?_⟩
        right; right
        rw [← ht, c3]; exact h4
  obtain ⟨M', hM, k1, k2, k3, k4⟩ := key
  have hgm : gm log (procEnter (rest.take n) (rest.drop n) m.off s) = M' := by
    simp only [gm, procEnter, emit, runR_cons, C02.gapStep]
    exact hM
  generalize rest.take n = blk at *
  generalize rest.drop n = rest' at *
  obtain ⟨q1, q2, q3, q3b, q3c, q4, q5, q6, q7, q8, q9, q10⟩ := hs
  constructor
  · rw [hgm]; exact k1
  · simpa [procEnter, emit] using q2
  · simpa [procEnter, emit] using q3
  · simpa [procEnter, emit] using q3b
  · simpa [procEnter, emit] using q3c
  · intro _; simpa [procEnter, emit] using hb
  · intro fr hfr
    simp only [procEnter, emit, Option.some.injEq] at hfr
    subst hfr
    refine ⟨by rw [hgm]; exact k2, k3, ?_⟩
    unfold Pos3
    rw [hgm]
    simpa [procEnter, emit] using k4
  · intro g hg
    simp only [procEnter, emit] at hg
    rw [hp] at hg; cases hg
  · intro h; simp [procEnter, emit] at h
  · simpa [procEnter, emit] using q8
  · intro k c hreq
    obtain ⟨mb, hmb⟩ := q9 k c (by simpa [procEnter, emit] using hreq)
    exact ⟨mb, by simp only [procEnter, emit]; exact List.mem_cons_of_mem _ hmb⟩
  · intro h
    have : DepthCrash s := by
      simp only [DepthCrash, procEnter, emit, List.mem_cons] at h
      rcases h with h | h
      · cases h
      · exact h
    simpa [procEnter, emit] using q10 this

/-- leaving the processor call -/
theorem procLeave_h {log : List Msg} {s : St} (hs : Hg log s) (rest' : List Msg) (last : Int)
    (hf : s.frame = some { rest := rest', last := last }) (hp : s.proc = none) (res : PRes) :
    Hg log (procLeave res rest' last s) ∧ (procLeave res rest' last s).frame = none ∧
      (procLeave res rest' last s).parked = s.parked ∧
      (res ≠ .defer → (procLeave res rest' last s).proc = none) ∧
      (res = .defer → (procLeave res rest' last s).proc = none →
        (procLeave res rest' last s).startD = .none ∨ (procLeave res rest' last s).stopping = true) ∧
      LoopG log rest' (procLeave res rest' last s) ∧
      ((procLeave res rest' last s).msgBlock = true ∨ (procLeave res rest' last s).startD = .none ∨
        (procLeave res rest' last s).stopping = true) := by
  have hq := hs.gFrame _ hf
  have hfb := hs.frameBlock (by rw [hf]; rfl)
  simp only [] at hq
  have hlg : ∀ x : St, gm log x = gm log s → x.fetchOffset = s.fetchOffset → LoopG log rest' x :=
    fun x h1 h2 => LoopG.keeps (s := s) h1 h2 (Or.inl ⟨last, hq.1, hq.2.1, hq.2.2⟩)
  have hgmE : ∀ (o : Ob) (x : St), (∀ blk, o ≠ .proc blk) → o ≠ .raisedRestart → gm log (emit o x) = gm log x := by
    intro o x h1 h2
    simp only [gm, emit, runR_cons]
    cases o <;> simp_all [C02.gapStep]
  have e1 := hgmE
  unfold procLeave
  cases res with
  | ok =>
    dsimp only
    refine ⟨by hg_fields hs, ?_, ?_, ?_, ?_, hlg _ ?_ rfl, hfb⟩
    · rfl
    · rfl
    · first | exact hp | exact fun _ => hp
    · first | (intro h; cases h) | simp
    · exact hgmE _ _ (by intro b h; cases h) (by intro h; cases h)
  | err k t =>
    dsimp only
    refine ⟨by hg_fields hs, ?_, ?_, ?_, ?_, hlg _ ?_ rfl, hfb⟩
    · rfl
    · rfl
    · first | exact hp | exact fun _ => hp
    · first | (intro h; cases h) | simp
    · exact hgmE _ _ (by intro b h; cases h) (by intro h; cases h)
  | defer =>
    dsimp only
    split
    · rename_i hc
      refine ⟨by hg_fields hs, ?_, ?_, ?_, ?_, hlg _ ?_ rfl, hfb⟩
      · rfl
      · rfl
      · first | (intro h; exact absurd rfl h) | simp
      · simp only [Bool.or_eq_true, beq_iff_eq] at hc
        first | exact fun _ _ => hc.symm | exact fun _ => hc.symm | exact hc.symm
      · exact (hgmE _ _ (by intro b h; cases h) (by intro h; cases h)).trans (hgmE _ _ (by intro b h; cases h) (by intro h; cases h))
    · refine ⟨by hg_fields hs, ?_, ?_, ?_, ?_, hlg _ ?_ rfl, hfb⟩
      · rfl
      · rfl
      · first | (intro h; exact absurd rfl h) | simp
      · first | (intro _ h; cases h) | (intro h; cases h) | simp
      · exact hgmE _ _ (by intro b h; cases h) (by intro h; cases h)

end Afkak.Proofs.Consumer.A
