import AfkakProofs.Crc.Truncate
import Afkak.Consumer
import AfkakProps.Open.C02
/-!
# C02: what the wire DECODER hands to the consumer is a faithful view of the partition log (plain message sets)

`C02_no_gap_no_dup` assumes `replyFaithful log off r` of every DECODED fetch reply `r`.  Here that hypothesis is derived for
the replies the decoder model (`Afkak.C12.decodeSet`, the model of the message-set iteration the C05/C12 theorems are about)
produces from the broker's answer to a fetch at `off ≥ 0` with a byte budget: the grammar encoding of the log from the first
entry at or after `off`, cut after `c` bytes (`C12_truncate`: the complete leading messages, a partial trailing message is
dropped; nothing complete ⇒ `ConsumerFetchSizeTooSmall` = `Tail.small` with no messages).

First the list facts about an ascending log (pure), then the composition.
-/
namespace Afkak.Proofs.Consumer.D
open Afkak.Consumer Afkak.Monitor Afkak.Props.Open.C02

/-! ## An ascending log -/

/-- strictly ascending offsets (compaction gaps allowed) -/
def Asc (l : List Msg) : Prop := l.Pairwise (fun a b => a.off < b.off)

theorem succIn_adjacent (pre : List Msg) (a b : Msg) (rest : List Msg) (h : Asc (pre ++ a :: b :: rest)) :
    C02.succIn (pre ++ a :: b :: rest) a.off = some b := by
  unfold Asc at h
  rw [List.pairwise_append] at h
  obtain ⟨_, h2, h3⟩ := h
  have hab : a.off < b.off := (List.pairwise_cons.mp h2).1 b (by simp)
  have hpre : pre.filter (fun m => decide (a.off + 1 ≤ m.off)) = [] := by
    rw [List.filter_eq_nil_iff]
    intro x hx
    have := h3 x hx a (by simp)
    simp only [decide_eq_true_eq]; omega
  unfold C02.succIn C02.firstFrom
  rw [List.filter_append, hpre, List.nil_append, List.filter_cons, List.filter_cons]
  have h1 : ¬ (a.off + 1 ≤ a.off) := by omega
  have h2' : a.off + 1 ≤ b.off := by omega
  simp [h1, h2']

/-- a contiguous segment of an ascending log is a chain -/
theorem chainOk_segment : ∀ (seg pre post : List Msg), Asc (pre ++ seg ++ post) → chainOk (pre ++ seg ++ post) seg = true
  | [], _, _, _ => rfl
  | [_], _, _, _ => rfl
  | a :: b :: t, pre, post, h => by
    have e : pre ++ (a :: b :: t) ++ post = pre ++ a :: b :: (t ++ post) := by simp
    have e2 : pre ++ (a :: b :: t) ++ post = (pre ++ [a]) ++ (b :: t) ++ post := by simp
    simp only [chainOk, Bool.and_eq_true, beq_iff_eq]
    constructor
    · rw [e]; exact succIn_adjacent pre a b (t ++ post) (by rw [← e]; exact h)
    · rw [e2]; exact chainOk_segment (b :: t) (pre ++ [a]) post (by rw [← e2]; exact h)

/-- an ascending log is its part below `off` followed by its part at or after `off` -/
theorem asc_split : ∀ (l : List Msg) (off : Int), Asc l →
    l = l.filter (fun m => !decide (off ≤ m.off)) ++ l.filter (fun m => decide (off ≤ m.off))
  | [], _, _ => rfl
  | x :: l, off, h => by
    unfold Asc at h
    obtain ⟨hx, hl⟩ := List.pairwise_cons.mp h
    by_cases hc : off ≤ x.off
    · have hall : ∀ y ∈ l, off ≤ y.off := fun y hy => by have := hx y hy; omega
      have e1 : l.filter (fun m => !decide (off ≤ m.off)) = [] := by
        rw [List.filter_eq_nil_iff]; intro y hy; simp [hall y hy]
      have e2 : l.filter (fun m => decide (off ≤ m.off)) = l := by
        rw [List.filter_eq_self]; intro y hy; simp [hall y hy]
      simp [hc, e1, e2]
    · have ih := asc_split l off hl
      simp only [List.filter_cons, hc, decide_false, Bool.not_false, if_true, Bool.false_eq_true, if_false, List.cons_append]
      rw [← ih]

/-- The first `n` log entries at or after `off`, as a fetch reply (whatever the tail), are a faithful view of the log. -/
theorem prefix_faithful (log : List Msg) (hasc : Asc log) (off : Int) (h0 : 0 ≤ off) (n : Nat) (t : Tail) :
    replyFaithful log off { msgs := (log.filter (fun m => decide (off ≤ m.off))).take n, tail := t } = true := by
  have hsplit := asc_split log off hasc
  generalize hS : log.filter (fun m => decide (off ≤ m.off)) = S at hsplit
  have hSp : ∀ x ∈ S, off ≤ x.off := by
    intro x hx; rw [← hS] at hx; simpa using (List.mem_filter.mp hx).2
  have hSl : ∀ x ∈ S, x ∈ log := by
    intro x hx; rw [← hS] at hx; exact (List.mem_filter.mp hx).1
  unfold replyFaithful
  simp only [Bool.and_eq_true, decide_eq_true_eq]
  refine ⟨⟨⟨h0, ?_⟩, ?_⟩, ?_⟩
  · rw [List.all_eq_true]
    intro x hx
    have := hSl x (List.mem_of_mem_take hx)
    simpa using this
  · have e : log = log.filter (fun m => !decide (off ≤ m.off)) ++ S.take n ++ S.drop n := by
      rw [List.append_assoc, List.take_append_drop]; exact hsplit
    have := chainOk_segment (S.take n) (log.filter (fun m => !decide (off ≤ m.off))) (S.drop n) (by rw [← e]; exact hasc)
    rw [← e] at this
    exact this
  · have hf : (S.take n).filter (fun m => decide (off ≤ m.off)) = S.take n := by
      rw [List.filter_eq_self]; intro x hx; simpa using hSp x (List.mem_of_mem_take hx)
    simp only [hf]
    cases hh : (S.take n).head? with
    | none => rfl
    | some m =>
      simp only [beq_iff_eq]
      unfold C02.firstFrom
      rw [hS]
      cases n with
      | zero => simp at hh
      | succ k =>
        cases S with
        | nil => simp at hh
        | cons y ys => simpa using hh

/-! ## The decoder's output -/

/-- How a decoded message set is handed to the consumer model: offsets kept, `pid` any function of the wire entry,
    `ConsumerFetchSizeTooSmall` ↦ `Tail.small`, any other error ↦ `Tail.raise`.  This is `Afkak.C12.replyOf`
    (`AfkakProofs/Crc/TruncRefetch.lean`) VERBATIM, copied because that file's import chain cannot be combined with the
    consumer invariant files (both generate the same auxiliary match lemmas about the consumer model). -/
def replyOf (pid : Int × Afkak.WireCost.Msg → Nat) (other : Afkak.WireCost.Err → Afkak.Consumer.ErrKind × Nat)
    (o : Afkak.WireCost.SetOut) : Afkak.Consumer.Reply :=
  { msgs := o.msgs.map (fun om => { off := om.1, pid := pid om }),
    tail := match o.err with
      | none => .done
      | some .fetchSizeTooSmall => .small
      | some e => .raise (other e).1 (other e).2 }

/-- the consumer-model message of a decoded wire entry (what `replyOf` makes of it) -/
def toMsg (pid : Int × Afkak.WireCost.Msg → Nat) (om : Int × Afkak.WireCost.Msg) : Msg := { off := om.1, pid := pid om }

/-- the entries the broker answers a fetch at `off` with: the log from the first entry at or after `off` -/
def slice (wlog : List (Int × Afkak.WireCost.Msg)) (off : Int) : List (Int × Afkak.WireCost.Msg) :=
  wlog.filter (fun om => decide (off ≤ om.1))

open Afkak.WireCost Afkak.C12 Afkak.Monitor.C12 in
/-- **The decoded reply is faithful** (plain message sets).  `wlog`: the partition log on the wire, strictly ascending
    offsets (gaps allowed), plain messages of either format; a fetch at `off ≥ 0`; the broker answers with the grammar encoding
    of the log from the first entry at or after `off`, of which `c` bytes fit the request's budget (any `c`, also inside a
    message or beyond the end).  The decoder's output, rendered as the consumer's `Reply` (`replyOf`: offsets kept, `pid` any
    function of the wire entry; `ConsumerFetchSizeTooSmall` ↦ `Tail.small`), satisfies `replyFaithful` w.r.t. the log
    rendered the same way; and it ends normally or with `Tail.small` and no message at all - never with another error. -/
theorem decoded_reply_faithful (gz : Gz) (depth : Nat) (pid : Int × Afkak.WireCost.Msg → Nat)
    (other : Err → ErrKind × Nat) (wlog : List (Int × Afkak.WireCost.Msg)) (off : Int) (c : Nat)
    (hasc : (wlog.map (·.1)).Pairwise (· < ·)) (hpl : ∀ om ∈ wlog, plainEntry om = true) (h0 : 0 ≤ off) :
    let r := replyOf pid other (decodeSet gz depth ((encodeSet (slice wlog off)).take c))
    replyFaithful (wlog.map (toMsg pid)) off r = true ∧ (r.tail = .done ∨ (r.tail = .small ∧ r.msgs = [])) := by
  intro r
  have hpls : ∀ om ∈ slice wlog off, plainEntry om = true := fun om h => hpl om (List.mem_filter.mp h).1
  -- what the decoder yields: a prefix of the slice, and how it ends
  have hdec : ∃ n, (decodeSet gz depth ((encodeSet (slice wlog off)).take c)).msgs = (slice wlog off).take n ∧
      ((decodeSet gz depth ((encodeSet (slice wlog off)).take c)).err = none ∨
       ((decodeSet gz depth ((encodeSet (slice wlog off)).take c)).err = some Err.fetchSizeTooSmall ∧ n = 0)) := by
    by_cases hc : c ≤ (encodeSet (slice wlog off)).length
    · obtain ⟨h1, h2⟩ := decodeSet_truncate gz depth (slice wlog off) c hpls hc
      refine ⟨_, h1, ?_⟩
      rw [h2]
      split
      · exact Or.inl rfl
      · rename_i hn
        refine Or.inr ⟨rfl, ?_⟩
        simp only [not_or, Nat.not_lt, Nat.le_zero_eq] at hn
        exact hn.1
    · have ht : (encodeSet (slice wlog off)).take c = encodeSet (slice wlog off) :=
        List.take_of_length_le (by omega)
      obtain ⟨h1, h2⟩ := decodeSet_roundtrip gz depth (slice wlog off) hpls
      rw [ht]
      exact ⟨(slice wlog off).length, by rw [h1, List.take_length], Or.inl h2⟩
  obtain ⟨n, hm, he⟩ := hdec
  have hlog : Asc (wlog.map (toMsg pid)) := by
    unfold Asc
    rw [List.pairwise_map] at hasc ⊢
    exact hasc
  have hmsgs : r.msgs = ((wlog.map (toMsg pid)).filter (fun m => decide (off ≤ m.off))).take n := by
    show (decodeSet gz depth ((encodeSet (slice wlog off)).take c)).msgs.map (fun om => ({ off := om.1, pid := pid om } : Afkak.Consumer.Msg)) = _
    rw [hm, slice, List.map_take, List.filter_map]
    rfl
  constructor
  · have := prefix_faithful (wlog.map (toMsg pid)) hlog off h0 n r.tail
    rw [← hmsgs] at this
    exact this
  · rcases he with he | ⟨he, hn⟩
    · left
      show (match (decodeSet gz depth ((encodeSet (slice wlog off)).take c)).err with
        | none => Tail.done | some .fetchSizeTooSmall => .small | some e => .raise (other e).1 (other e).2) = _
      rw [he]
    · right
      constructor
      · show (match (decodeSet gz depth ((encodeSet (slice wlog off)).take c)).err with
          | none => Tail.done | some .fetchSizeTooSmall => .small | some e => .raise (other e).1 (other e).2) = _
        rw [he]
      · rw [hmsgs, hn]; rfl

open Afkak.WireCost Afkak.C12 Afkak.Monitor.C12 in
/-- Non-vacuity: a three-entry log with a gap (offsets 3, 4, 7; formats 0 and 1; entries of 27, 36, 27 bytes).  A fetch at
    0 with 80 of the 90 bytes: the third message is cut, the first two are delivered, normal end.  A fetch at 4 with 20
    bytes: not even one message fits, `Tail.small`, nothing delivered.  Both hypotheses hold of the log. -/
example :
    let wlog : List (Int × Afkak.WireCost.Msg) :=
      [(3, ⟨0, 0, none, some [1], none⟩), (4, ⟨1, 0, some [9], some [2], some 5⟩), (7, ⟨0, 0, none, some [3], none⟩)]
    let pid : Int × Afkak.WireCost.Msg → Nat := fun om => match om.2.value with | some (b :: _) => b.toNat | _ => 0
    let gz : Gz := fun _ => .error ""
    (wlog.map (·.1)).Pairwise (· < ·) ∧ (∀ om ∈ wlog, plainEntry om = true) ∧
      (encodeSet (slice wlog 0)).length = 90 ∧
      replyOf pid (fun _ => (.other, 0)) (decodeSet gz 1 ((encodeSet (slice wlog 0)).take 80))
        = { msgs := [⟨3, 1⟩, ⟨4, 2⟩], tail := .done } ∧
      replyOf pid (fun _ => (.other, 0)) (decodeSet gz 1 ((encodeSet (slice wlog 4)).take 20))
        = { msgs := [], tail := .small } ∧
      replyFaithful (wlog.map (toMsg pid)) 0 { msgs := [⟨3, 1⟩, ⟨4, 2⟩], tail := .done } = true := by
  refine ⟨by decide, by decide +kernel, by decide +kernel, by decide +kernel, by decide +kernel, by decide +kernel⟩

end Afkak.Proofs.Consumer.D
