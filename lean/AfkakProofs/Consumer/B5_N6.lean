import AfkakProofs.Consumer.B5_N5
/-!
# Quiescence after `stop()`: the commit request, the timers, the end of `stop()`
-/
namespace Afkak.Proofs.Consumer.BN
open Afkak.Consumer Afkak.Monitor Afkak.Consts Afkak.Proofs.Consumer

set_option linter.unusedSectionVars false

variable [EnvHyp]

/-- everything `stop()` has to have cancelled -/
structure Stopped (s : St) : Prop where
  startD : s.startD = .none
  proc : s.proc = none
  retry : retryPending s.retryCall = false
  req : activeReq s.requestD = none
  creq : s.commitReq = none
  ccall : commitPending s.commitCall = false
  looper : s.looper = none

/-- … then the monitor's lists are empty -/
theorem lists_empty {x : Nat} {s : St} (h : QG x s) (hr : retryPending s.retryCall = false) (hc : commitPending s.commitCall = false)
    (hl : looperDue s.looper = false) (ha : activeReq s.requestD = none) (hk : s.commitReq = none) :
    (runR C13.qStep {} s.out).timers = [] ∧ (runR C13.qStep {} s.out).reqs = [] := by
  refine ⟨?_, ?_⟩
  · rw [List.eq_nil_iff_forall_not_mem]
    intro t ht
    cases t with
    | retry => have := h.tmR.mp ht; simp [hr] at this
    | commit => have := h.tmC.mp ht; simp [hc] at this
    | loop => have := h.tmL.mp ht; simp [hl] at this
  · rw [List.eq_nil_iff_forall_not_mem]
    intro k hk'
    have := (h.rqMem k).mp hk'
    simp [ha, commitK, hk] at this

section
variable {cfg : Cfg} {inner : Ops}

theorem deliver_nil (r : DRes) (s : St) (h : s.commitDs = []) : deliver cfg inner r s = { s with commitDs := [] } := by
  unfold deliver; simp [h]

/-- `_handle_commit_error` inside `stop()`, once the Deferreds of `_commit_ds` are gone -/
theorem handleCommitError_stop_q (f : Fail) (d : Rat) (a : Nat) (s : St) (h : QG 0 s) (hst : s.stopping = true)
    (hds : s.commitDs = []) (hcr : s.commitReq = none) (hcp : commitPending s.commitCall = false) (hl : Live s) :
    QG 0 (handleCommitError cfg inner f d a s) ∧ Fr2 s (handleCommitError cfg inner f d a s) ∧
      (handleCommitError cfg inner f d a s).commitReq = none ∧ (handleCommitError cfg inner f d a s).commitDs = [] := by
  unfold handleCommitError Live at *
  simp only [deliver_nil _ _ hds]
  repeat' split
  all_goals exact ⟨by qg_leaf h, ⟨rfl, rfl, rfl, rfl, rfl, rfl⟩, hcr, by first | rfl | exact hds⟩

/-- `stop()`: `if self._commit_req: self._commit_req.cancel()` -/
theorem stopCommitReq_q (s : St) (h : QG 0 s) (hst : s.stopping = true) (hds : s.commitDs = []) :
    QG 0 (stopCommitReq cfg inner s) ∧ Fr2 s (stopCommitReq cfg inner s) ∧ (stopCommitReq cfg inner s).commitReq = none ∧
      (stopCommitReq cfg inner s).commitDs = [] := by
  unfold stopCommitReq
  split
  · rename_i r hr
    have hl : Live (emit (.cancelReq r.k) s) := by
      have := h.cm (Or.inl (by simp [hr]))
      unfold Live emit; simpa [runR_cons, C13.qStep] using this
    have hcp := h.alt (by simp [hr])
    have h1 : QG 0 { emit (.cancelReq r.k) s with commitReq := none } := by qg_leaf h
    simp only []
    split
    · obtain ⟨a, b, c, d⟩ := handleCommitError_stop_q (cfg := cfg) (inner := inner) (.ext ‹ErrKind› ‹Nat›) r.delay r.attempt
        { emit (.cancelReq r.k) s with commitReq := none } h1 hst hds rfl hcp hl
      exact ⟨a, ⟨b.1, b.2.1, b.2.2.1, b.2.2.2.1, b.2.2.2.2.1, b.2.2.2.2.2⟩, c, d⟩
    · exact ⟨h1, ⟨rfl, rfl, rfl, rfl, rfl, rfl⟩, rfl, hds⟩
  · rename_i hn
    exact ⟨h, Fr2.refl _, hn, hds⟩

/-- `stop()`: the commit retry timer -/
def stA (s : St) : St :=
  match s.commitCall with
  | .pending _ _ _ => { emit (.cancelTimer .commit) s with commitCall := .dead }
  | _ => s

/-- `stop()`: the auto-commit looper -/
def stB (s : St) : St :=
  match s.looper with
  | some l =>
    match l.due with
    | some _ => { emit (.cancelTimer .loop) s with looper := none }
    | none => { s with looper := none }
  | none => s

theorem stopTimers_eq (s : St) : stopTimers s = stB (stA s) := rfl

theorem stA_q (x : Nat) (s : St) (h : QG x s) :
    QG x (stA s) ∧ Fr2 s (stA s) ∧ commitPending (stA s).commitCall = false ∧ (stA s).commitReq = s.commitReq := by
  unfold stA
  split
  · exact ⟨by qg_leaf h, ⟨rfl, rfl, rfl, rfl, rfl, rfl⟩, rfl, rfl⟩
  · rename_i hn
    refine ⟨h, Fr2.refl _, ?_, rfl⟩
    cases hcc : s.commitCall with
    | pending d dl a => exact absurd hcc (hn d dl a)
    | none => rfl
    | dead => rfl

theorem stB_q (x : Nat) (s : St) (h : QG x s) :
    QG x (stB s) ∧ Fr2 s (stB s) ∧ (stB s).commitCall = s.commitCall ∧ (stB s).looper = none ∧ (stB s).commitReq = s.commitReq := by
  unfold stB
  split
  · split
    · exact ⟨by qg_leaf h, ⟨rfl, rfl, rfl, rfl, rfl, rfl⟩, rfl, rfl, rfl⟩
    · exact ⟨by qg_leaf h, ⟨rfl, rfl, rfl, rfl, rfl, rfl⟩, rfl, rfl, rfl⟩
  · rename_i hn
    exact ⟨h, Fr2.refl _, rfl, hn, rfl⟩

theorem stopTimers_q (x : Nat) (s : St) (h : QG x s) :
    QG x (stopTimers s) ∧ Fr2 s (stopTimers s) ∧ commitPending (stopTimers s).commitCall = false ∧ (stopTimers s).looper = none ∧
      (stopTimers s).commitReq = s.commitReq := by
  rw [stopTimers_eq]
  obtain ⟨a1, b1, c1, d1⟩ := stA_q x s h
  obtain ⟨a2, b2, c2, d2, e2⟩ := stB_q x _ a1
  exact ⟨a2, Fr2.trans b1 b2, by rw [c2]; exact c1, d2, e2.trans d1⟩


theorem stopTimers_ds (s : St) : (stopTimers s).commitDs = s.commitDs := by
  rw [stopTimers_eq]; unfold stB stA
  repeat' split
  all_goals rfl

theorem stopRetry_q (x : Nat) (s : St) (h : QG x s) : QG x (stopRetry s) ∧ retryPending (stopRetry s).retryCall = false ∧
    (stopRetry s).proc = s.proc ∧ (stopRetry s).requestD = s.requestD ∧ (stopRetry s).parked = s.parked ∧
    (stopRetry s).stopping = s.stopping := by
  unfold stopRetry
  split
  · exact ⟨by qg_leaf h, rfl, rfl, rfl, rfl, rfl⟩
  · rename_i hn
    refine ⟨h, ?_, rfl, rfl, rfl, rfl⟩
    cases hq : s.retryCall with
    | pending d => exact absurd hq (hn d)
    | none => rfl
    | dead => rfl

theorem stopRetry_startD (s : St) : (stopRetry s).startD = s.startD := by
  unfold stopRetry emit; split <;> rfl

/-- `stop()`'s last statements -/
theorem stopFinish_q (s : St) (h : QG 0 s) (hr : retryPending s.retryCall = false) (ha : activeReq s.requestD = none)
    (hpk : s.parked = none) (hp : s.proc = none) (hl : s.looper = none) (hcr : s.commitReq = none)
    (hcp : commitPending s.commitCall = false) (hds : s.commitDs = []) (hrun : s.startD ≠ .none) :
    QS (stopFinish s) ∧ Stopped (stopFinish s) := by
  unfold stopFinish crash
  simp only []
  split
  · exact ⟨⟨by qg_leaf h, rfl⟩, ⟨rfl, hp, hr, rfl, hcr, hcp, hl⟩⟩
  · exact ⟨⟨by qg_leaf h, rfl⟩, ⟨rfl, hp, hr, rfl, hcr, hcp, hl⟩⟩
  · rename_i hn
    exact absurd hn hrun

/-- `stop()`, from ANY running state the invariant holds in (no shutdown continuation in hand): the invariant holds
    afterwards, everything is cancelled, and the model reports no crash -/
theorem stopCore_q (s : St) (h : QG 0 s) (hrun : s.startD ≠ .none) : QS (stopCore cfg inner s) ∧ Stopped (stopCore cfg inner s) := by
  have h0 : QG 0 { s with stopping := true } := by qg_leaf h
  have h1 := stopReq_q (cfg := cfg) 0 _ h0
  have a1 := stopReq_calm cfg { s with stopping := true }
  have k1 := stopReq_keeps0 cfg { s with stopping := true }
  have r1 : (stopReq cfg { s with stopping := true }).startD ≠ .none := fun e => hrun (k1.2.2.2.mp e)
  obtain ⟨h2, p2, a2, pk2, _, sd2, st2⟩ := stopBlockProc_q (cfg := cfg) (inner := inner) _ h1 k1.2.1 a1
  obtain ⟨h3, r3, p3, q3, pk3, st3⟩ := stopRetry_q 0 _ h2
  have sd3 := stopRetry_startD (stopBlockProc cfg inner (stopReq cfg { s with stopping := true }))
  unfold stopCore
  simp only []
  generalize stopRetry (stopBlockProc cfg inner (stopReq cfg { s with stopping := true })) = s3 at h3 r3 p3 q3 pk3 st3 sd3
  have st3' : s3.stopping = true := st3.trans st2
  have r3' : s3.startD ≠ .none := by rw [sd3, sd2]; exact r1
  obtain ⟨h4, f4, d4⟩ := cancelWaiters_stop_q (cfg := cfg) (inner := inner) (s3.commitDs.length + 4) s3 h3 st3' (by omega)
  generalize cancelWaiters cfg inner (s3.commitDs.length + 4) s3 = s4 at h4 f4 d4
  obtain ⟨h5, f5, c5, d5⟩ := stopCommitReq_q (cfg := cfg) (inner := inner) s4 h4 (by rw [f4.2.2.2.2.1]; exact st3') d4
  generalize stopCommitReq cfg inner s4 = s5 at h5 f5 c5 d5
  obtain ⟨h6, f6, c6, l6, cr6⟩ := stopTimers_q 0 s5 h5
  have d6 := stopTimers_ds s5
  generalize stopTimers s5 = s6 at h6 f6 c6 l6 cr6 d6
  have f : Fr2 s3 s6 := Fr2.trans (Fr2.trans f4 f5) f6
  exact stopFinish_q s6 h6 (by rw [f.2.2.1]; exact r3) (by rw [f.1, q3]; exact a2) (by rw [f.2.1, pk3]; exact pk2)
    (by rw [f.2.2.2.2.2, p3]; exact p2) l6 (cr6.trans c5) c6 (d6.trans d5) (by rw [f.2.2.2.1]; exact r3')

/-- `stop()` as an API call -/
theorem stop_q (s : St) (h : QS s) : QS (stop cfg inner s) ∧ (stop cfg inner s).startD = .none ∧
    (s.proc = none → (stop cfg inner s).proc = none) := by
  unfold stop
  split
  · rename_i hn
    have hn' : s.startD = .none := by simpa using hn
    exact ⟨⟨by obtain ⟨h, _⟩ := h; qg_leaf h, h.2⟩, hn', fun hp => hp⟩
  · rename_i hn
    obtain ⟨h1, s1⟩ := stopCore_q (cfg := cfg) (inner := inner) s h.1 (by simpa using hn)
    have hle := lists_empty h1.1 s1.retry s1.ccall (by simp [looperDue, s1.looper]) s1.req s1.creq
    have hp1 := s1.proc
    have hs1 := s1.startD
    have hcr := s1.creq
    have hcc := s1.ccall
    simp only []
    generalize stopCore cfg inner s = s' at h1 s1 hle hp1 hs1 hcr hcc
    obtain ⟨h1, hst1⟩ := h1
    obtain ⟨ht, hq⟩ := hle
    exact ⟨⟨by qg_leaf h1, hst1⟩, hs1, fun _ => hp1⟩

end

end Afkak.Proofs.Consumer.BN
