import AfkakProofs.Consumer.A_Gap5
/-!
# No gap, no duplicate (C02): every event keeps `Hg`; hence every reachable state satisfies it
-/
namespace Afkak.Proofs.Consumer.A
open Afkak.Consumer Afkak.Monitor Afkak.Consts Afkak.Props.Open.C02 Afkak.Proofs.Consumer

/-- what the top level knows of a reachable state from the invariant `G` -/
structure TopF (s : St) : Prop where
  frame : s.frame = none
  procBlock : s.proc.isSome = true → s.msgBlock = true
  procRun : s.proc.isSome = true → s.startD ≠ .none
  retryRun : ∀ due, s.retryCall = .pending due → s.startD ≠ .none

theorem topF_run (cfg : Cfg) (script : List PEntry) (evs : List Ev) : TopF (run cfg script evs) := by
  let _ : EnvHyp := ⟨False⟩
  have h := run_top0 cfg script evs
  exact ⟨h.2.1, h.1.g1.procBlock, h.1.g1.procRun, fun due hd => h.1.sf.retryRun (by rw [hd]; rfl)⟩

theorem req_of_guard' {s : St} {k : Nat} {kind : ReqKind}
    (h : (s.requestD == .pending k kind false || s.requestD == .pending k kind true) = true) :
    ∃ c, s.requestD = .pending k kind c := by
  simp only [Bool.or_eq_true, beq_iff_eq] at h
  rcases h with h | h
  · exact ⟨false, h⟩
  · exact ⟨true, h⟩

section
variable {log : List Msg} {cfg : Cfg} (hcfg : ∀ v, cfg.reset = some v → v < 0)
include hcfg

theorem ev_start_h (off : Int) {s : St} (hs : Hg log s) (ht : TopF s) :
    Hg log (start cfg off { s with out := .ev (.start off) :: s.out }) := by
  obtain ⟨t1, t2, t3, t4⟩ := ht
  unfold start
  split
  · unfold emit; hg_fields hs
  · rename_i hr
    simp only []
    have hr' : s.startD = .none := by simpa using hr
    have hp : s.proc = none := by
      cases hpp : s.proc with
      | none => rfl
      | some g => exact absurd hr' (t3 (by rw [hpp]; rfl))
    have h1 : Hg log { ({ s with out := .ev (.start off) :: s.out } : St) with startD := .pending, fetchOffset := off } := by
      hg_fields hs
    have h2 := doFetch_k log cfg (KRel.refl h1) (by simp)
    split
    · have := h2.1
      unfold emit; hg_fields this
    · exact h2.1

theorem ev_fetchOk_h (k : Nat) (r : Reply) {s : St} (hs : Hg log s) (ht : TopF s) (hcr : s.crashed = false) (c : Bool)
    (hreq : s.requestD = .pending k .fetch c)
    (hr : ∀ off mb, Item.ob (.fetch k off mb) ∈ s.out → replyFaithful log off r = true) :
    Hg log (handleFetchResponse cfg (opsN cfg cfg.depth) k r { s with out := .ev (.fetchOk k r) :: s.out }) := by
  obtain ⟨t1, t2, t3, t4⟩ := ht
  obtain ⟨mb, hmb⟩ := hs.gReq k c hreq
  have hfaith := hr _ _ hmb
  have hpk : s.parked = none := by
    cases hpp : s.parked with
    | none => rfl
    | some r' =>
      obtain ⟨k', hk'⟩ := hs.parkedReq (by rw [hpp]; rfl)
      rw [hreq] at hk'; cases hk'
  unfold handleFetchResponse
  split
  · hg_fields hs
  · rename_i hrun
    simp only []
    split
    · hg_fields hs
    · rename_i hb
      have hp : s.proc = none := by
        cases hpp : s.proc with
        | none => rfl
        | some g => exact absurd (t2 (by rw [hpp]; rfl)) (by simpa using hb)
      unfold fetchBody
      have h4 : Hg log { ({ s with out := .ev (.fetchOk k r) :: s.out } : St) with retryDelay := cfg.retryInit, attempts := 1, requestD := .none } := by
        hg_fields hs
      have hidle := hs.gIdle t1 hp (by simpa using hb)
      have := fetchTail_h (opsN_h log cfg hcfg cfg.depth) hcfg false r h4 hp t1 hpk rfl (by
        simp only [Bool.not_eq_true, beq_eq_false_iff_ne, ne_eq] at hrun
        rcases hidle with (h | h | h) | h | h
        · exact absurd h (by simpa using hrun)
        · exact Or.inl h
        · exact Or.inr (Or.inl h)
        · have := hs.depthCr h; rw [hcr] at this; cases this
        · exact Or.inr (Or.inr (by simpa [IdlePos, gm, runR_cons, C02.gapStep] using h))) hfaith
      exact this.1

theorem ev_offsetOk_h (k : Nat) (off : Int) {s : St} (hs : Hg log s) (ht : TopF s) (c : Bool)
    (hreq : s.requestD = .pending k .offsets c) :
    Hg log (handleOffsetResponse cfg false off { s with out := .ev (.offsetOk k off) :: s.out }) := by
  obtain ⟨t1, t2, t3, t4⟩ := ht
  unfold handleOffsetResponse offsetResponseTail
  simp only []
  split
  · rename_i hrun
    have hp : s.proc = none := by
      cases hpp : s.proc with
      | none => rfl
      | some g => exact absurd (by simpa using hrun) (t3 (by rw [hpp]; rfl))
    hg_fields hs
  · rename_i hrun
    simp only [Bool.not_false, if_true]
    have h1 : Hg log { ({ s with out := .ev (.offsetOk k off) :: s.out } : St) with requestD := .none, retryDelay := cfg.retryInit, attempts := 1, fetchOffset := off } := by
      hg_fields hs
    exact (doFetch_k log cfg (KRel.refl h1) (by simpa using hrun)).1

theorem ev_offsetFetchOk_h (k : Nat) (off : Int) {s : St} (hs : Hg log s) (ht : TopF s) (c : Bool)
    (hreq : s.requestD = .pending k .offsetFetch c) :
    Hg log (handleOffsetResponse cfg true off { s with out := .ev (.offsetFetchOk k off) :: s.out }) := by
  obtain ⟨t1, t2, t3, t4⟩ := ht
  have c1 : offsetNotCommitted = -1 := rfl
  have c2 : offsetEarliest = -2 := rfl
  have c3 : offsetLatest = -1 := rfl
  unfold handleOffsetResponse offsetResponseTail
  simp only []
  split
  · rename_i hrun
    have hp : s.proc = none := by
      cases hpp : s.proc with
      | none => rfl
      | some g => exact absurd (by simpa using hrun) (t3 (by rw [hpp]; rfl))
    hg_fields hs
  · rename_i hrun
    simp only [Bool.not_true, Bool.false_eq_true, if_false]
    split
    · rename_i hnc
      have hoff : off = -1 := by simpa [c1] using hnc
      have h1 : Hg log { ({ s with out := .ev (.offsetFetchOk k off) :: s.out } : St) with requestD := .none, retryDelay := cfg.retryInit, attempts := 1, fetchOffset := if cfg.reset == some offsetLatest then offsetLatest else offsetEarliest } := by
        have hfo : (if cfg.reset == some offsetLatest then offsetLatest else offsetEarliest) < 0 := by
          split <;> simp [c2, c3]
        generalize (if cfg.reset == some offsetLatest then offsetLatest else offsetEarliest) = fo at *
        hg_fields hs
      exact (doFetch_k log cfg (KRel.refl h1) (by simpa using hrun)).1
    · rename_i hnc
      have hoff : off ≠ -1 := by simpa [c1] using hnc
      have h1 : Hg log { ({ s with out := .ev (.offsetFetchOk k off) :: s.out } : St) with requestD := .none, retryDelay := cfg.retryInit, attempts := 1, fetchOffset := off + 1, lastCommitted := some off } := by
        hg_fields hs
      exact (doFetch_k log cfg (KRel.refl h1) (by simpa using hrun)).1

omit hcfg in
theorem tick_set {s x : St} (hx : HRel log s x) (d : Rat) (lp : Option Looper) :
    HRel log s { emit (.setTimer .loop d) x with looper := lp } := by
  hleaf hx

omit hcfg in
theorem ev_advance_h (dt now' : Rat) {s : St} (hs : Hg log s) :
    Hg log { ({ s with out := .ev (.advance dt) :: s.out } : St) with now := now' } := by
  hg_fields hs

omit hcfg in
theorem ev_env_h (rq cm : Option (ErrKind × Nat)) {s : St} (hs : Hg log s) :
    Hg log { ({ s with out := .ev (.env rq cm) :: s.out } : St) with envReq := rq, envCommit := cm } := by
  hg_fields hs

theorem stepCore_h (e : Ev) {s s' : St} (hs : Hg log s) (ht : TopF s) (hcr : s.crashed = false)
    (he : ∀ k r, e = .fetchOk k r → ∀ off mb, Item.ob (.fetch k off mb) ∈ s.out → replyFaithful log off r = true)
    (h : stepCore cfg { s with out := .ev e :: s.out } e = some s') : Hg log s' := by
  have hin := opsN_h log cfg hcfg cfg.depth
  have hx := HRel.refl hs
  have hpk : ∀ k kind c, s.requestD = .pending k kind c → s.parked = none := by
    intro k kind c hreq
    cases hpp : s.parked with
    | none => rfl
    | some r' =>
      obtain ⟨k', hk'⟩ := hs.parkedReq (by rw [hpp]; rfl)
      rw [hreq] at hk'; cases hk'
  cases e with
  | start off => simp only [stepCore, Option.some.injEq] at h; subst h; exact ev_start_h hcfg off hs ht
  | stop =>
    simp only [stepCore, Option.some.injEq] at h; subst h
    exact ((stop_h hin hcfg).step (by hleaf hx)).1
  | shutdown =>
    simp only [stepCore, Option.some.injEq] at h; subst h
    exact ((shutdown_h hin hcfg).step (by hleaf hx)).1
  | commit =>
    simp only [stepCore, Option.some.injEq] at h; subst h
    exact ((commitUser_k log cfg).toH.step (by hleaf hx)).1
  | fetchOk k r =>
    simp only [stepCore] at h
    split at h
    · rename_i hq
      obtain ⟨c, hreq⟩ := req_of_guard' hq
      simp only [Option.some.injEq] at h; subst h
      exact ev_fetchOk_h hcfg k r hs ht hcr c hreq (he k r rfl)
    · cases h
  | fetchErr k ek tag =>
    simp only [stepCore] at h
    split at h
    · rename_i hq
      obtain ⟨c, hreq⟩ := req_of_guard' hq
      simp only [Option.some.injEq] at h; subst h
      have hp := hpk _ _ _ hreq
      have h1 : HRel log s ({ s with out := .ev (.fetchErr k ek tag) :: s.out } : St) := by hleaf hx
      exact (handleFetchError_h log cfg hcfg _ h1 hp).1
    · cases h
  | offsetOk k off =>
    simp only [stepCore] at h
    split at h
    · rename_i hq
      obtain ⟨c, hreq⟩ := req_of_guard' hq
      simp only [Option.some.injEq] at h; subst h
      exact ev_offsetOk_h hcfg k off hs ht c hreq
    · cases h
  | offsetErr k ek tag =>
    simp only [stepCore] at h
    split at h
    · rename_i hq
      obtain ⟨c, hreq⟩ := req_of_guard' hq
      simp only [Option.some.injEq] at h; subst h
      have hp := hpk _ _ _ hreq
      have h1 : HRel log s ({ s with out := .ev (.offsetErr k ek tag) :: s.out } : St) := by hleaf hx
      exact (handleOffsetError_h log cfg _ h1 hp).1
    · cases h
  | offsetFetchOk k off =>
    simp only [stepCore] at h
    split at h
    · rename_i hq
      obtain ⟨c, hreq⟩ := req_of_guard' hq
      simp only [Option.some.injEq] at h; subst h
      exact ev_offsetFetchOk_h hcfg k off hs ht c hreq
    · cases h
  | offsetFetchErr k ek tag =>
    simp only [stepCore] at h
    split at h
    · rename_i hq
      obtain ⟨c, hreq⟩ := req_of_guard' hq
      simp only [Option.some.injEq] at h; subst h
      have hp := hpk _ _ _ hreq
      have h1 : HRel log s ({ s with out := .ev (.offsetFetchErr k ek tag) :: s.out } : St) := by hleaf hx
      exact (handleOffsetError_h log cfg _ h1 hp).1
    · cases h
  | commitOk k =>
    simp only [stepCore] at h
    split at h
    · split at h
      · simp only [Option.some.injEq] at h; subst h
        exact ((deliver_h hin _).step (by hleaf hx)).1
      · cases h
    · cases h
  | commitErr k ek tag =>
    simp only [stepCore] at h
    split at h
    · split at h
      · simp only [Option.some.injEq] at h; subst h
        exact ((handleCommitError_h hin _ _ _).step (by hleaf hx)).1
      · cases h
    · cases h
  | procOk =>
    simp only [stepCore] at h
    split at h
    · rename_i g hp
      simp only [Option.some.injEq] at h; subst h
      exact (procResult_h hin hcfg g none _ hs hp ht.frame (ht.procBlock (by rw [hp]; rfl)) (Or.inl ⟨rfl, rfl⟩)).1
    · cases h
  | procErr ek tag =>
    simp only [stepCore] at h
    split at h
    · rename_i g hp
      simp only [Option.some.injEq] at h; subst h
      exact (procResult_h hin hcfg g _ _ hs hp ht.frame (ht.procBlock (by rw [hp]; rfl)) (Or.inr ⟨ek, tag, rfl, rfl⟩)).1
    · cases h
  | retryFire =>
    simp only [stepCore] at h
    split at h
    · rename_i due hdue
      split at h
      · simp only [Option.some.injEq] at h; subst h
        have hrun := ht.retryRun due hdue
        have hk := KRel.refl hs
        exact (doFetch_k log cfg (s0 := s) (by kleaf hk) (by simpa using hrun)).1
      · cases h
    · cases h
  | commitRetryFire =>
    simp only [stepCore] at h
    split at h
    · split at h
      · simp only [Option.some.injEq] at h; subst h
        exact ((sendCommitRequest_k log cfg _ _).toH.step (by hleaf hx)).1
      · cases h
    · cases h
  | autoCommitTick =>
    simp only [stepCore] at h
    cases hl : s.looper with
    | none => simp [hl] at h
    | some l =>
      cases hd : l.due with
      | none => simp [hl, hd] at h
      | some due =>
        simp only [hl, hd] at h
        split at h
        · have h1 : HRel log s (autoCommit cfg false { s with out := .ev .autoCommitTick :: s.out, looper := some { l with due := none } }) :=
            (autoCommit_k log cfg false).toH.step (by hleaf hx)
          generalize autoCommit cfg false { s with out := .ev .autoCommitTick :: s.out, looper := some { l with due := none } } = x at h h1
          split at h
          · simp only [Option.some.injEq] at h; subst h
            exact (tick_set h1 _ _).1
          · simp only [Option.some.injEq] at h; subst h
            exact h1.1
        · cases h
  | advance dt =>
    simp only [stepCore] at h
    split at h
    · cases h
    · simp only [Option.some.injEq] at h; subst h
      exact ev_advance_h dt _ hs
  | env rq cm =>
    simp only [stepCore, Option.some.injEq] at h; subst h
    exact ev_env_h rq cm hs

theorem step_h (e : Ev) {s : St} (hs : Hg log s) (ht : TopF s)
    (he : ∀ k r, e = .fetchOk k r → ∀ off mb, Item.ob (.fetch k off mb) ∈ s.out → replyFaithful log off r = true) :
    Hg log (step cfg s e) := by
  have hx := HRel.refl hs
  unfold step
  split
  · exact (show HRel log s _ by hleaf hx).1
  · rename_i hcr
    split
    · exact (show HRel log s _ by hleaf hx).1
    · rename_i s' h
      have h1 := stepCore_h hcfg e hs ht (by simpa using hcr) he h
      split
      · exact h1
      · exact (probe_k log s' h1).1

end

theorem init_h (log : List Msg) (cfg : Cfg) (script : List PEntry) : Hg log (init cfg script) := by
  constructor <;> simp [init, gm, DeadS, DepthCrash]

/-- Against a faithful log the no-gap monitor accepts whatever the model has done. -/
theorem run_h (log : List Msg) (cfg : Cfg) (script : List PEntry) (evs : List Ev) (hf : FaithfulLog log cfg script evs) :
    ∀ n, Hg log (run cfg script (evs.take n)) := by
  have hcfg : ∀ v, cfg.reset = some v → v < 0 := by
    intro v hv
    rcases hf.1 v hv with h | h <;> subst h <;> decide
  intro n
  induction n with
  | zero => simpa [run] using init_h log cfg script
  | succ n ih =>
    by_cases hn : n < evs.length
    · have hget : evs[n]? = some evs[n] := List.getElem?_eq_getElem hn
      have htake : evs.take (n + 1) = evs.take n ++ [evs[n]] := by
        rw [List.take_succ, hget]; rfl
      rw [htake]
      unfold run
      rw [List.foldl_append]
      simp only [List.foldl_cons, List.foldl_nil]
      exact step_h hcfg evs[n] ih (topF_run cfg script (evs.take n))
        (fun k r he off mb hmem => hf.2 n k r (by rw [hget, he]) off mb hmem)
    · have : evs.take (n + 1) = evs.take n := by
        rw [List.take_of_length_le (by omega), List.take_of_length_le (by omega)]
      rw [this]; exact ih

theorem faithfulB_sound (log : List Msg) (cfg : Cfg) (script : List PEntry) (evs : List Ev)
    (h : faithfulB log cfg script evs = true) : FaithfulLog log cfg script evs := by
  simp only [faithfulB, Bool.and_eq_true, List.all_eq_true, List.mem_range] at h
  obtain ⟨h1, h2⟩ := h
  refine ⟨fun v hv => ?_, fun n k r hn off mb hmem => ?_⟩
  · rw [hv] at h1
    simpa using h1
  · have hlt : n < evs.length := by
      rcases Nat.lt_or_ge n evs.length with h | h
      · exact h
      · rw [List.getElem?_eq_none h] at hn; cases hn
    have := h2 n hlt
    rw [hn] at this
    simp only [List.all_eq_true] at this
    have := this _ hmem
    simpa using this

end Afkak.Proofs.Consumer.A
