import AfkakProofs.Consumer.B5_N3
import AfkakProofs.Consumer.InvC
/-!
# Quiescence after `stop()`: the fetch path
-/
namespace Afkak.Proofs.Consumer.BN
open Afkak.Consumer Afkak.Monitor Afkak.Consts Afkak.Proofs.Consumer

set_option linter.unusedSectionVars false

variable [EnvHyp]

theorem startErrback_startD (f : Fail) (s : St) : (startErrback f s).startD ≠ .none ↔ s.startD ≠ .none := by
  unfold startErrback; split <;> simp_all

theorem startErrback_proc (f : Fail) (s : St) : (startErrback f s).proc = s.proc := by
  unfold startErrback; split <;> rfl

theorem retryFetch_stopping (cfg : Cfg) (a : Option Rat) (s : St) : (retryFetch cfg a s).stopping = s.stopping :=
  (retryFetch_keeps0 cfg a s).2.1

section
variable {cfg : Cfg} {inner : Ops} (hin : OpsQ inner) (hc : OpsPN Calm inner)
include hin

omit hin in
theorem finishSimple_q (s : St) (h : QS s) (hp : s.proc = none) : QS (finishSimple s) := by
  obtain ⟨h, hst⟩ := h
  unfold finishSimple; split
  · exact ⟨by qg_leaf h, hst⟩
  · exact ⟨h, hst⟩

theorem deliverBlock_q (msgs : List Msg) (s : St) (h : QS s) (hp : s.proc = none) (hr : s.startD ≠ .none) :
    QS (deliverBlock cfg inner msgs s) := by
  unfold deliverBlock
  split
  · exact h
  · have h1 : QN { s with msgBlock := true } := ⟨by obtain ⟨h, _⟩ := h; qg_leaf h, h.2, hp, fun _ => rfl⟩
    have h2 := procLoop_q (cfg := cfg) hin (msgs.length + 1) msgs _ h1 hr
    simp only []
    generalize procLoop cfg inner (msgs.length + 1) msgs { s with msgBlock := true } = res at h2
    obtain ⟨s', done⟩ := res
    simp only []
    split
    · exact h2
    · rename_i hcnd
      apply finishSimple_q _ h2
      cases hq : s'.proc with
      | none => rfl
      | some g => simp [hq] at hcnd

omit hin in
/-- `_handle_fetch_error` when no uncancelled request is outstanding and no reply is parked -/
theorem handleFetchError_q (f : Fail) (x : Nat) (s : St) (h : QG x s) (hc1 : activeReq s.requestD = none) (hc2 : s.parked = none) :
    QG x (handleFetchError cfg f s) := by
  unfold handleFetchError
  apply fetchErrorTail_pq
  qg_leaf h

omit hin in
theorem handleOffsetError_q (f : Fail) (x : Nat) (s : St) (h : QG x s) (hc1 : activeReq s.requestD = none) (hc2 : s.parked = none) :
    QG x (handleOffsetError cfg f s) := by
  unfold handleOffsetError
  apply offsetErrorTail_pq
  qg_leaf h

omit hin in
theorem handleFetchError_stopping (f : Fail) (s : St) : (handleFetchError cfg f s).stopping = s.stopping :=
  (handleFetchError_keeps0 cfg f s).2.1

include hc
/-- `_handle_fetch_response` once no block is in progress -/
theorem fetchTail_q (via : Bool) (r : Reply) (s : St) (h : QS s) (hp : s.proc = none) (hr : s.startD ≠ .none)
    (hc1 : activeReq s.requestD = none) (hc2 : s.parked = none) : QS (fetchTail cfg inner via r s) := by
  unfold fetchTail
  simp only []
  have h1 : QS { s with fetchOffset := (extract s.fetchOffset r.msgs).2 } := ⟨by obtain ⟨h, _⟩ := h; qg_leaf h, h.2⟩
  split
  · have h2 := deliverBlock_q (cfg := cfg) hin (extract s.fetchOffset r.msgs).1 _ h1 hp hr
    exact ⟨retryFetch_pq cfg _ 0 _ h2.1, (retryFetch_stopping cfg _ _).trans h2.2⟩
  · split
    · rename_i b _
      have h2 : QS { s with fetchOffset := (extract s.fetchOffset r.msgs).2, bufferSize := b } := ⟨by obtain ⟨h, _⟩ := h; qg_leaf h, h.2⟩
      have h3 := deliverBlock_q (cfg := cfg) hin (extract s.fetchOffset r.msgs).1 _ h2 hp hr
      exact ⟨retryFetch_pq cfg _ 0 _ h3.1, (retryFetch_stopping cfg _ _).trans h3.2⟩
    · have hk := startErrback_keeps .tooSmall { s with fetchOffset := (extract s.fetchOffset r.msgs).2 }
      have h2 : QS (startErrback .tooSmall { s with fetchOffset := (extract s.fetchOffset r.msgs).2 }) :=
        ⟨startErrback_pq .tooSmall 0 _ h1.1, hk.2.1.trans h1.2⟩
      have hp2 : (startErrback .tooSmall { s with fetchOffset := (extract s.fetchOffset r.msgs).2 }).proc = none :=
        (startErrback_proc _ _).trans hp
      have hr2 := (startErrback_startD .tooSmall { s with fetchOffset := (extract s.fetchOffset r.msgs).2 }).mpr hr
      have h3 := deliverBlock_q (cfg := cfg) hin (extract s.fetchOffset r.msgs).1 _ h2 hp2 hr2
      have hcalm : Calm (startErrback .tooSmall { s with fetchOffset := (extract s.fetchOffset r.msgs).2 }) :=
        ⟨hp2, by rw [hk.2.2.2.2.2.1]; exact hc1, hk.2.2.2.2.2.2.trans hc2⟩
      have h4 := deliverBlock_calm (cfg := cfg) hc (extract s.fetchOffset r.msgs).1 _ hcalm
      split
      · exact ⟨handleFetchError_q _ 0 _ h3.1 h4.1 h4.2, (handleFetchError_stopping _ _).trans h3.2⟩
      · exact h3
  · have h3 := deliverBlock_q (cfg := cfg) hin (extract s.fetchOffset r.msgs).1 _ h1 hp hr
    have h4 := deliverBlock_calm (cfg := cfg) hc (extract s.fetchOffset r.msgs).1
      { s with fetchOffset := (extract s.fetchOffset r.msgs).2 } ⟨hp, hc1, hc2⟩
    split
    · exact h3
    · exact ⟨handleFetchError_q _ 0 _ h3.1 h4.1 h4.2, (handleFetchError_stopping _ _).trans h3.2⟩

/-- the event `fetchOk k r` -/
theorem ev_fetchOk_q (k : Nat) (r : Reply) (c : Bool) (s : St) (h : QS s) (hreq : s.requestD = .pending k .fetch c) :
    QS (handleFetchResponse cfg inner k r { s with out := .ev (.fetchOk k r) :: s.out }) := by
  obtain ⟨h, hst⟩ := h
  unfold handleFetchResponse
  simp only []
  split
  · exact ⟨by cases c <;> qg_leaf h, hst⟩
  · rename_i hrun
    have hrun' : s.startD ≠ .none := by simpa using hrun
    split
    · exact ⟨by cases c <;> qg_leaf h, hst⟩
    · rename_i hmb
      unfold fetchBody
      have hmb' : s.msgBlock = false := by simpa using hmb
      have hp : s.proc = none := by
        cases hq : s.proc with
        | none => rfl
        | some g => have := h.procBlock (by simp [hq]); simp [hmb'] at this
      have hpk : s.parked = none := by
        cases hq : s.parked with
        | none => rfl
        | some g => have := h.parkedBlock (by simp [hq]); simp [hmb'] at this
      apply fetchTail_q hin hc
      · exact ⟨by cases c <;> qg_leaf h, hst⟩
      · exact hp
      · exact hrun'
      · rfl
      · exact hpk

/-- End of `_process_messages` when resumed by the processor's result -/
theorem finishFull_q (s : St) (h : QS s) (hp : s.proc = none) : QS (finishFull cfg inner s) := by
  obtain ⟨h, hst⟩ := h
  unfold finishFull
  split
  · simp only []
    split
    · rename_i r hpk
      have hpr := h.parkedReq (by simp [hpk])
      obtain ⟨k, hk⟩ := hpr
      split
      · exact ⟨by qg_leaf h, hst⟩
      · rename_i hrun
        unfold fetchBody
        apply fetchTail_q hin hc
        · exact ⟨by qg_leaf h, hst⟩
        · exact hp
        · simpa using hrun
        · rfl
        · rfl
    · exact ⟨by qg_leaf h, hst⟩
  · exact ⟨h, hst⟩

end

end Afkak.Proofs.Consumer.BN
