import AfkakProofs.Consumer.Trace
import AfkakProofs.Consumer.A5_Progress7
/-!
# C02, liveness half (8): `c02_never_stuck_partial` - no reachable running state is stuck, for event lists without a
fetch reply whose iteration raises (and whose `start()` calls find the consumer cleanly stopped: `CleanStarts`, a
condition on the run that is discharged for every run in `A5_Progress9 … 11.lean`: `cleanStarts_all`)
-/
namespace Afkak.Proofs.Consumer.L
open Afkak.Consumer Afkak.Proofs.Consumer

/-- every `start()` that is accepted finds no request outstanding, no block in progress and no parked reply -/
def CleanStarts (cfg : Cfg) (script : List PEntry) (evs : List Ev) : Prop :=
  ∀ n off, evs[n]? = some (.start off) → (run cfg script (evs.take n)).startD = .none →
    (run cfg script (evs.take n)).requestD = .none ∧ (run cfg script (evs.take n)).msgBlock = false ∧
      (run cfg script (evs.take n)).parked = none

/-- `CleanStarts` as a computation -/
def cleanStartsB (cfg : Cfg) (script : List PEntry) (evs : List Ev) : Bool :=
  (List.range evs.length).all fun n =>
    match evs[n]? with
    | some (.start _) =>
      (run cfg script (evs.take n)).startD != .none ||
        ((run cfg script (evs.take n)).requestD == .none && !(run cfg script (evs.take n)).msgBlock &&
          (run cfg script (evs.take n)).parked.isNone)
    | _ => true

theorem cleanStartsB_sound (cfg : Cfg) (script : List PEntry) (evs : List Ev) (h : cleanStartsB cfg script evs = true) :
    CleanStarts cfg script evs := by
  intro n off hn hs
  have hlt : n < evs.length := by
    rcases Nat.lt_or_ge n evs.length with h | h
    · exact h
    · rw [List.getElem?_eq_none h] at hn; cases hn
  simp only [cleanStartsB, List.all_eq_true, List.mem_range] at h
  have := h n hlt
  rw [hn] at this
  simp only [Bool.or_eq_true, bne_iff_ne, ne_eq, Bool.and_eq_true, beq_iff_eq, Bool.not_eq_true', Option.isNone_iff_eq_none] at this
  rcases this with h1 | h1
  · exact absurd hs h1
  · exact ⟨h1.1.1, h1.1.2, h1.2⟩

theorem init_live (cfg : Cfg) (script : List PEntry) : Live (init cfg script) := by
  apply Live.of_nr; rfl

theorem step_live (cfg : Cfg) (s : St) (e : Ev) (hl : Live s) (hpb : s.proc.isSome = true → s.msgBlock = true)
    (hstart : (∃ off, e = .start off) → s.startD = .none → s.requestD = .none ∧ s.msgBlock = false ∧ s.parked = none)
    (hne : okEv s e = true) : Live (step cfg s e) := by
  unfold step
  split
  · exact Live.of_fr (by fr_close) hl
  · split
    · exact Live.of_fr (by fr_close) hl
    · rename_i s' h
      have hl0 : Live { s with out := .ev e :: s.out } := Live.of_fr (by fr_close) hl
      have h1 : Live s' := stepCore_live cfg _ s' e hl0 hpb hstart hne h
      split
      · exact h1
      · exact Live.of_fr (by unfold probe; fr_close) h1

/-- Every reachable state is `Live` - for event lists in which no fetch reply whose iteration raises arrives while a
    block is in progress, and with clean starts. -/
theorem run_live (cfg : Cfg) (script : List PEntry) (evs : List Ev)
    (hn : ∀ n (h : n < evs.length), okEv (run cfg script (evs.take n)) evs[n] = true)
    (hc : CleanStarts cfg script evs) : ∀ n, Live (run cfg script (evs.take n)) := by
  intro n
  induction n with
  | zero => simpa [run] using init_live cfg script
  | succ n ih =>
    by_cases hlt : n < evs.length
    · have hget : evs[n]? = some evs[n] := List.getElem?_eq_getElem hlt
      have htake : evs.take (n + 1) = evs.take n ++ [evs[n]] := by
        rw [List.take_add_one, hget]; rfl
      rw [htake]
      unfold run
      rw [List.foldl_append]
      simp only [List.foldl_cons, List.foldl_nil]
      refine step_live cfg _ evs[n] ih (run_g1 cfg script (evs.take n)).procBlock ?_ ?_
      · rintro ⟨off, he⟩ hs
        exact hc n off (by rw [hget, he]) hs
      · exact hn n hlt
    · have : evs.take (n + 1) = evs.take n := by
        rw [List.take_of_length_le (by omega), List.take_of_length_le (by omega)]
      rw [this]; exact ih

/-- **A running consumer is never stuck** (partial: no fetch reply whose iteration raises; clean starts).  In every
    reachable running state the environment owes the consumer an event that it accepts (`enabled_fetch`,
    `enabled_offsets`, `enabled_offsetFetch`, `enabled_timer`, `enabled_proc` in `A5_Progress1.lean`). -/
theorem c02_never_stuck_partial_cs (cfg : Cfg) (script : List PEntry) (evs : List Ev) (hn : evs.all noRaiseEv = true)
    (hc : cleanStartsB cfg script evs = true) :
    Running (run cfg script evs) = true → Enabled (run cfg script evs) = true := by
  have h := run_live cfg script evs
    (fun n hlt => okEv_of_noRaise _ _ (List.all_eq_true.1 hn _ (List.getElem_mem hlt))) (cleanStartsB_sound cfg script evs hc) evs.length
  rw [List.take_length] at h
  exact h.enabled

end Afkak.Proofs.Consumer.L
