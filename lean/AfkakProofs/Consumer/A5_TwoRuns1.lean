import AfkakProofs.Consumer.A_Gap6
/-!
# C03, second sentence: two consecutive runs sharing the coordinator's offset store — trace-level notions and lemmas

Everything here is about TRACES (chronological lists of `Item`) and the monitors `C02.gapStep`, `C03.clpStep`,
`C03.resStep`; nothing about the model.  `A5_TwoRuns2.lean` combines these lemmas with the theorems that every model
trace is accepted by those monitors.
-/
namespace Afkak.Proofs.Consumer.A5
open Afkak.Consumer Afkak.Monitor Afkak.Consts Afkak.Props.Open.C02 Afkak.Proofs.Consumer

/-! ## Notions -/

/-- the messages handed to the processor, in order -/
def delivered (tr : List Item) : List Msg :=
  tr.flatMap fun | .ob (.proc blk) => blk | _ => []

/-- the offsets the commit requests of a trace carry, in order -/
def commitOffs (tr : List Item) : List Int :=
  tr.filterMap fun | .ob (.commitReq _ off) => some off | _ => none

def isProc : Item → Bool
  | .ob (.proc _) => true
  | _ => false

/-- an item after which delivery may jump: a `start()` call (accepted or raising RestartError), the answer to an offset
    look-up (`auto_offset_reset`, `OFFSET_EARLIEST/LATEST`), the coordinator's answer to an OffsetFetchRequest -/
def isJump : Item → Bool
  | .ev (.start _) => true
  | .ob .raisedRestart => true
  | .ev (.offsetOk _ _) => true
  | .ev (.offsetFetchOk _ _) => true
  | _ => false

def isAnswer : Item → Bool
  | .ev (.offsetFetchOk _ _) => true
  | _ => false

/-- One uninterrupted stretch of delivery: from the first block handed to the processor on, no restart and no offset
    reset (whatever happened before the first block: failed starts, stop/start, look-ups). -/
def oneSegment (tr : List Item) : Bool :=
  (tr.dropWhile (fun x => !isProc x)).all (fun x => !isJump x)

/-- The run resumed from the coordinator's answer `stored`: the first answer to an OffsetFetchRequest that the consumer
    took carried `stored`, nothing had been handed to the processor before it, and after it there is no restart, no
    offset reset and no second answer. -/
def resumedFrom (stored : Int) (tr : List Item) : Bool :=
  match tr.dropWhile (fun x => !isAnswer x) with
  | .ev (.offsetFetchOk _ c) :: post =>
    c == stored && (tr.takeWhile (fun x => !isAnswer x)).all (fun x => !isProc x) && post.all (fun x => !isJump x)
  | _ => false

def fetchOff : Item → Option Int
  | .ob (.fetch _ off _) => some off
  | _ => none

/-- the offset of the first FetchRequest issued after the first coordinator answer -/
def firstFetchAfterAnswer (tr : List Item) : Option Int :=
  ((tr.dropWhile (fun x => !isAnswer x)).drop 1).findSome? fetchOff

/-- The coordinator's offset store as the run leaves it: the offset of the last commit request whose success reply the
    consumer took (`commitOk` applied). -/
structure StoreSt where
  reqs : List (Nat × Int) := []
  store : Option Int := none
  deriving DecidableEq, Repr

def storeStep (m : StoreSt) : Item → StoreSt
  | .ob (.commitReq k off) => { m with reqs := (k, off) :: m.reqs }
  | .ev (.commitOk k) =>
    match m.reqs.lookup k with
    | some off => { m with store := some off }
    | none => m
  | _ => m

def storeOf (tr : List Item) : Option Int := (tr.foldl storeStep {}).store

/-- what run 1 processed successfully AND committed: the delivered messages up to the stored offset -/
def committed (stored : Int) (ms : List Msg) : List Msg := ms.filter (fun m => decide (m.off ≤ stored))

/-- each message is the log entry following the previous one, the first one following offset `l` -/
def chainAfter (log : List Msg) : Int → List Msg → Bool
  | _, [] => true
  | l, x :: xs => (C02.succIn log l == some x) && chainAfter log x.off xs

/-! ## Folding monitors over chronological traces -/

theorem runR_append {σ} (f : σ → Item → σ) (i : σ) (a b : List Item) : runR f i (a ++ b) = runR f (runR f i b) a := by
  induction a with
  | nil => rfl
  | cons x a ih => simp [runR_cons, ih]

theorem runR_reverse {σ} (f : σ → Item → σ) (l : List Item) : ∀ i, runR f i l.reverse = l.foldl f i := by
  induction l with
  | nil => intro i; rfl
  | cons x l ih => intro i; simp [runR_append, runR_cons, ih]

theorem accepts_foldl {σ} [HasBad σ] (f : σ → Item → σ) (i : σ) (tr : List Item) :
    accepts f i tr = !HasBad.bad (tr.foldl f i) := by
  simp [accepts, runR_reverse]

theorem delivered_append (a b : List Item) : delivered (a ++ b) = delivered a ++ delivered b := by
  simp [delivered]

theorem delivered_cons_proc (blk : List Msg) (t : List Item) : delivered (.ob (.proc blk) :: t) = blk ++ delivered t := by
  simp [delivered]

theorem delivered_cons_other (x : Item) (t : List Item) (h : isProc x = false) : delivered (x :: t) = delivered t := by
  cases x with
  | ob o => cases o <;> simp_all [delivered, isProc]
  | _ => simp [delivered]

theorem delivered_noProc : ∀ (l : List Item), (l.all (fun x => !isProc x)) = true → delivered l = []
  | [], _ => rfl
  | x :: t, h => by
    simp only [List.all_cons, Bool.and_eq_true, Bool.not_eq_eq_eq_not, Bool.not_true] at h
    rw [delivered_cons_other x t h.1]
    exact delivered_noProc t (by simpa using h.2)

/-! ## The store is the offset of one of the run's commit requests -/

theorem store_inv (tr : List Item) :
    (∀ k off, (k, off) ∈ (tr.foldl storeStep {}).reqs → off ∈ commitOffs tr) ∧
    (∀ v, (tr.foldl storeStep {}).store = some v → v ∈ commitOffs tr) := by
  induction tr using List.reverseRecOn with
  | nil => simp [commitOffs]
  | append_singleton es x ih =>
    obtain ⟨ih1, ih2⟩ := ih
    simp only [List.foldl_append, List.foldl_cons, List.foldl_nil, commitOffs, List.filterMap_append] at *
    generalize es.foldl storeStep {} = m at *
    cases x with
    | ob o =>
      cases o <;> simp only [storeStep] <;> (try (constructor <;> intros <;> simp <;> grind))
    | ev e =>
      cases e <;> simp only [storeStep] <;> (try (constructor <;> intros <;> simp <;> grind))
      rename_i k
      cases hl : m.reqs.lookup k with
      | none => simp only []; constructor <;> intros <;> simp <;> grind
      | some off =>
        simp only []
        have hm : (k, off) ∈ m.reqs := by
          have := List.lookup_eq_some_iff.mp hl
          grind
        constructor <;> intros <;> simp <;> grind
    | rej e => simp only [storeStep]; constructor <;> intros <;> simp <;> grind

theorem storeOf_mem (tr : List Item) (v : Int) (h : storeOf tr = some v) : v ∈ commitOffs tr :=
  (store_inv tr).2 v h

end Afkak.Proofs.Consumer.A5
