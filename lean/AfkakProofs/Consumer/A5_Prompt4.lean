import AfkakProofs.Consumer.A5_Prompt3
/-!
# C02 prompt delivery (4): fetch replies, the end of `_process_messages`
-/
namespace Afkak.Proofs.Consumer.P
open Afkak.Consumer Afkak.Monitor Afkak.Consts Afkak.Proofs.Consumer

/-- `s'` differs from `s` in nothing the fetch/processing machinery or the monitor looks at -/
def Same (s s' : St) : Prop :=
  s'.stopping = s.stopping ∧ s'.shuttingDown = s.shuttingDown ∧ s'.startD = s.startD ∧
    s'.proc = s.proc ∧ s'.msgBlock = s.msgBlock ∧ s'.requestD = s.requestD ∧
    s'.fetchOffset = s.fetchOffset ∧ s'.parked = s.parked ∧ s'.frame = s.frame ∧ pm s' = pm s

theorem Same.refl (s : St) : Same s s := ⟨rfl, rfl, rfl, rfl, rfl, rfl, rfl, rfl, rfl, rfl⟩
theorem Same.trans {a b c : St} (h1 : Same a b) (h2 : Same b c) : Same a c := by
  obtain ⟨a1, a2, a3, a4, a5, a6, a7, a8, a9, a10⟩ := h1
  obtain ⟨b1, b2, b3, b4, b5, b6, b7, b8, b9, b10⟩ := h2
  exact ⟨b1.trans a1, b2.trans a2, b3.trans a3, b4.trans a4, b5.trans a5, b6.trans a6, b7.trans a7, b8.trans a8,
    b9.trans a9, b10.trans a10⟩

macro "same_leaf" : tactic => `(tactic|
  exact ⟨rfl, rfl, rfl, rfl, rfl, rfl, rfl, rfl, rfl, by
    first | rfl | simp [pm, sendCommitRequest, looperReset, emit, crash, runR_cons, pr_commitReq, pr_crash, pr_setTimer, pr_cancelTimer]⟩)

theorem sendCommitRequest_same (cfg : Cfg) (d : Option Rat) (a : Option Nat) (s : St) : Same s (sendCommitRequest cfg d a s) := by
  rcases s with ⟨fo, lp, lc, stp, shd, sdD, lpr, cds, creq, sD, rD, rC, cC, mb, pk, pr, fr, rdl, att, bs, nw, nr, nc, nwt, sc, er, ec, cr, out⟩
  cases cC <;> cases creq <;> cases lp <;> same_leaf
theorem looperReset_same (cfg : Cfg) (s : St) : Same s (looperReset cfg s) := by
  rcases s with ⟨fo, lp, lc, stp, shd, sdD, lpr, cds, creq, sD, rD, rC, cC, mb, pk, pr, fr, rdl, att, bs, nw, nr, nc, nwt, sc, er, ec, cr, out⟩
  rcases lpr with _ | ⟨st, _ | due⟩ <;> same_leaf
theorem commitState_same (cfg : Cfg) (w : Who) (s : St) : Same s (commitState cfg w s) := by
  unfold commitState
  split
  · exact Same.refl _
  split
  · exact Same.refl _
  split
  · cases w <;> same_leaf
  · exact (show Same s { s with commitDs := [_] } by same_leaf).trans
      ((sendCommitRequest_same cfg none none _).trans (looperReset_same cfg _))

theorem commitResult_auto_noerr (cfg : Cfg) (s : St) (hg : cfg.group = true) (he : s.commitDs.isEmpty = true) (f : Fail) :
    commitResult cfg .auto s ≠ some (.err f) := by
  unfold commitResult
  simp only [hg, he, Bool.not_true, Bool.false_eq_true, if_false]
  split <;> simp

/-- `_auto_commit` does not touch fetching and processing -/
theorem autoCommit_same (cfg : Cfg) (b : Bool) (s : St) : Same s (autoCommit cfg b s) := by
  unfold autoCommit
  split
  · exact Same.refl _
  rename_i hg
  have hgroup : cfg.group = true := by
    cases h : cfg.group
    · simp [h] at hg
    · rfl
  repeat' ((try dsimp only); split)
  all_goals first
    | exact Same.refl _
    | same_leaf
    | exact commitState_same _ _ _
    | exact absurd ‹commitResult cfg Who.auto s = some (DRes.err _)› (commitResult_auto_noerr cfg s hgroup ‹_› _)

theorem Obl.same {s s' : St} (h : Same s s') (hc : s'.crashed = false) {po : Int} (ho : Obl s po) : Obl s' po := by
  obtain ⟨a1, a2, a3, a4, a5, a6, a7, a8, a9, a10⟩ := h
  obtain ⟨_, o1, o2, o3, o4, o5, o6⟩ := ho
  refine ⟨hc, ?_, ?_, ?_, ?_, ?_, ?_⟩
  · rw [a10]; exact o1
  · rw [a10]; exact o2
  · rw [a10]; exact o3
  · rw [a10]; exact o4
  · rw [a1]; exact o5
  · rw [a3]; exact o6

section
variable {cfg : Cfg} {inner : Ops} (hin : OpsP inner)
include hin

/-- `_handle_fetch_response` once no block is in progress -/
theorem fetchTail_p (via : Bool) (r : Reply) {wP : Prop} {s : St} (hs : Hp False False False wP s) (hpk : s.parked = none)
    (hrun : s.startD ≠ .none) (hrq : s.requestD = .none)
    (hP : wP → ∀ po, Obl s po → headFrom s.fetchOffset r.msgs = some po) :
    LRel False False False False s (fetchTail cfg inner via r s) ∧
      ((extract s.fetchOffset r.msgs).1.isEmpty = false → s.shuttingDown = false → s.stopping = false →
        (pm (fetchTail cfg inner via r s)).expect = false) := by
  have hP2 : wP → ∀ po, Obl s po → ∃ x, (extract s.fetchOffset r.msgs).1.head? = some x ∧ po ≤ x.off :=
    fun w po ho => headFrom_extract _ _ _ (hP w po ho)
  unfold fetchTail
  simp only []
  generalize (extract s.fetchOffset r.msgs).2 = fo' at *
  generalize (extract s.fetchOffset r.msgs).1 = msgs at *
  clear hP
  have hb : Hp False False False wP { s with fetchOffset := fo' } := by hp_fields hs
  have lb : LFr s { s with fetchOffset := fo' } := ⟨id, id, id, id, id⟩
  have hPb : wP → ∀ po, Obl { s with fetchOffset := fo' } po → ∃ x, msgs.head? = some x ∧ po ≤ x.off := hP2
  -- what follows the delivery keeps the invariant and a met expectation
  have post : ∀ (h : St → St) {y : St}, (∀ z, Hp0 z → z.parked = none → HRel0 z (h z)) →
      (LRel False False False False s y ∧ (msgs.isEmpty = false → s.shuttingDown = false → s.stopping = false → (pm y).expect = false)) →
      (LRel False False False False s (h y) ∧ (msgs.isEmpty = false → s.shuttingDown = false → s.stopping = false → (pm (h y)).expect = false)) := by
    intro h y hh hy
    have h1 := hh y hy.1.1 (hy.1.2.pkd hpk)
    exact ⟨hy.1.trans h1.toL, fun a b c => h1.2.l.exp (hy.2 a b c)⟩
  have hR : ∀ z, Hp0 z → z.parked = none → HRel0 z (retryFetch cfg (some 0) z) := fun z hz _ => retryFetch_p cfg _ _ _ _ _ z hz
  have hE : ∀ f z, Hp0 z → z.parked = none → HRel0 z (handleFetchError cfg f z) := fun f z hz hp => handleFetchError_p f (HRel.refl hz) hp
  split
  · have d := deliverBlock_p (cfg := cfg) hin msgs hb hpk hrun hPb
    exact post _ hR ⟨⟨d.1.1, lb.trans d.1.2⟩, d.2⟩
  · split
    · rename_i bb hbb
      have hb2 : Hp False False False wP { s with fetchOffset := fo', bufferSize := bb } := by hp_fields hs
      have lb2 : LFr s { s with fetchOffset := fo', bufferSize := bb } := ⟨id, id, id, id, id⟩
      have d := deliverBlock_p (cfg := cfg) hin msgs hb2 hpk hrun hPb
      exact post _ hR ⟨⟨d.1.1, lb2.trans d.1.2⟩, d.2⟩
    · have h3 := startErrback_p False False False wP .tooSmall _ hb
      obtain ⟨e1, e2, e3, e4, e5, e6, e7, e8, e9⟩ := startErrback_pm .tooSmall { s with fetchOffset := fo' }
      have hP3 : wP → ∀ po, Obl (startErrback .tooSmall { s with fetchOffset := fo' }) po → ∃ x, msgs.head? = some x ∧ po ≤ x.off := by
        intro w po ho
        refine hPb w po ?_
        obtain ⟨o0, o1, o2, o3, o4, o5, o6⟩ := ho
        rw [e1] at o1 o2 o3 o4
        rw [e2] at o5
        refine ⟨?_, o1, o2, o3, o4, o5, e6.mp o6⟩
        cases hc : ({ s with fetchOffset := fo' } : St).crashed with
        | false => rfl
        | true => have := h3.2.l.cr hc; rw [this] at o0; cases o0
      have d := deliverBlock_p (cfg := cfg) hin msgs h3.1 (by rw [e5]; exact hpk) (e6.mpr hrun) hP3
      have d' : LRel False False False False s (deliverBlock cfg inner msgs (startErrback .tooSmall { s with fetchOffset := fo' })) ∧
          (msgs.isEmpty = false → s.shuttingDown = false → s.stopping = false →
            (pm (deliverBlock cfg inner msgs (startErrback .tooSmall { s with fetchOffset := fo' }))).expect = false) :=
        ⟨⟨d.1.1, (lb.trans h3.2.l).trans d.1.2⟩, fun a b c => d.2 a (by rw [e3]; exact b) (by rw [e2]; exact c)⟩
      split
      · exact post _ (hE _) d'
      · exact d'
  · have d := deliverBlock_p (cfg := cfg) hin msgs hb hpk hrun hPb
    have d' : LRel False False False False s (deliverBlock cfg inner msgs { s with fetchOffset := fo' }) ∧
        (msgs.isEmpty = false → s.shuttingDown = false → s.stopping = false →
          (pm (deliverBlock cfg inner msgs { s with fetchOffset := fo' })).expect = false) :=
      ⟨⟨d.1.1, lb.trans d.1.2⟩, d.2⟩
    split
    · exact d'
    · exact post _ (hE _) d'

/-- the end of `_process_messages` when resumed by the processor's result: a parked reply is handled now -/
theorem finishFull_p {s : St} (hs : Hp False False True False s) :
    LRel False False False False s (finishFull cfg inner s) ∧
      (s.msgBlock = true → s.shuttingDown = false → ∀ po, Obl s po → (pm (finishFull cfg inner s)).expect = false) := by
  unfold finishFull
  split
  · rename_i hmb
    simp only []
    split
    · rename_i r hr
      split
      · rename_i hsd
        have hsd' : s.startD = .none := by simpa using hsd
        refine ⟨⟨by hp_fields hs, ⟨id, id, fun _ => rfl, id, id⟩⟩, fun _ _ po ho => absurd hsd' ho.2.2.2.2.2.2⟩
      · rename_i hsd
        have hrun : s.startD ≠ .none := by simpa using hsd
        unfold fetchBody
        have h4 : Hp False False False True { s with msgBlock := false, parked := none, retryDelay := cfg.retryInit, attempts := 1, requestD := .none } := by
          hp_fields hs
        have hP : True → ∀ po, Obl { s with msgBlock := false, parked := none, retryDelay := cfg.retryInit, attempts := 1, requestD := .none } po →
            headFrom s.fetchOffset r.msgs = some po := by
          intro _ po ho
          obtain ⟨o0, o1, o2, o3, o4, o5, o6⟩ := ho
          rcases hs.park o0 po o1 o2 o3 o4 o5 o6 with w | ⟨r', hr', hh⟩
          · exact w.elim
          · rw [hr] at hr'
            cases hr'
            exact hh
        have l4 : LFr s { s with msgBlock := false, parked := none, retryDelay := cfg.retryInit, attempts := 1, requestD := .none } :=
          ⟨id, id, fun _ => rfl, id, id⟩
        have f := fetchTail_p (cfg := cfg) hin true r h4 rfl hrun rfl hP
        refine ⟨⟨f.1.1, l4.trans f.1.2⟩, fun _ hsh po ho => ?_⟩
        have hne : (extract s.fetchOffset r.msgs).1.isEmpty = false := by
          obtain ⟨x, hx, _⟩ := headFrom_extract _ _ _ (hP trivial po ho)
          cases hh : (extract s.fetchOffset r.msgs).1 with
          | nil => rw [hh] at hx; cases hx
          | cons _ _ => rfl
        exact f.2 hne hsh ho.2.2.2.2.2.1
    · rename_i hr
      refine ⟨⟨by hp_fields hs, ⟨id, id, id, id, id⟩⟩, fun _ _ po ho => ?_⟩
      obtain ⟨o0, o1, o2, o3, o4, o5, o6⟩ := ho
      rcases hs.park o0 po o1 o2 o3 o4 o5 o6 with w | ⟨r', hr', _⟩
      · exact w.elim
      · rw [hr] at hr'; cases hr'
  · rename_i hmb
    exact ⟨⟨hs.closeB (fun _ _ m => absurd m hmb), LFr.refl s⟩, fun m => absurd m hmb⟩

end
end Afkak.Proofs.Consumer.P
