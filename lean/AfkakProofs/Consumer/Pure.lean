import Afkak.Monitor.C14
import Mathlib.Tactic.Linarith
import Mathlib.Tactic.Positivity
import Mathlib.Algebra.Order.Field.Rat
/-!
# Pure kernels of the consumer: retry delays and buffer growth (C14)
-/
namespace Afkak.Proofs.Consumer
open Afkak.Consumer Afkak.Consts Afkak.Monitor.C14

/-! ## Facts about the constants the source contains NOW (regenerated on every run) -/

theorem factor_ge_one : (1 : Rat) ≤ requestRetryFactor := by unfold requestRetryFactor; norm_num
theorem factor_gt_one : (1 : Rat) < requestRetryFactor := by unfold requestRetryFactor; norm_num
theorem growSmall_ge_two : 2 ≤ growFactorSmall := by decide
theorem growLarge_ge_two : 2 ≤ growFactorLarge := by decide
theorem growSmall_eq : growFactorSmall = 16 := by decide
theorem growLarge_eq : growFactorLarge = 2 := by decide
theorem growThreshold_eq : growThreshold = 2 ^ 20 := by decide

/-! ## Retry delays -/

theorem nextDelay_eq (maxD d : Rat) : nextDelay maxD d = min (d * requestRetryFactor) maxD := rfl

/-- closed form of the `k`-th delay -/
theorem delayAt_closed (init maxD : Rat) (h0 : 0 ≤ init) (h1 : init ≤ maxD) (k : Nat) :
    delayAt init maxD k = min (init * requestRetryFactor ^ k) maxD := by
  have hf := factor_ge_one
  induction k with
  | zero => simp [delayAt, min_eq_left h1]
  | succ k ih =>
    simp only [delayAt, nextDelay_eq, ih]
    have hp : 0 ≤ init * requestRetryFactor ^ k := by positivity
    rcases le_total (init * requestRetryFactor ^ k) maxD with h | h
    · rw [min_eq_left h, pow_succ, mul_assoc]
    · rw [min_eq_right h]
      have : maxD ≤ maxD * requestRetryFactor := by nlinarith
      have h2 : maxD ≤ init * requestRetryFactor ^ (k + 1) := by rw [pow_succ, ← mul_assoc]; nlinarith
      rw [min_eq_right this, min_eq_right h2]

/-- delays never decrease and never exceed the maximum -/
theorem delayAt_mono (init maxD : Rat) (h0 : 0 ≤ init) (h1 : init ≤ maxD) (k : Nat) :
    delayAt init maxD k ≤ delayAt init maxD (k + 1) ∧ delayAt init maxD k ≤ maxD := by
  have hf := factor_ge_one
  rw [delayAt_closed init maxD h0 h1, delayAt_closed init maxD h0 h1]
  have hp : 0 ≤ init * requestRetryFactor ^ k := by positivity
  refine ⟨?_, min_le_right _ _⟩
  apply le_min
  · calc min (init * requestRetryFactor ^ k) maxD ≤ init * requestRetryFactor ^ k := min_le_left _ _
      _ ≤ init * requestRetryFactor ^ (k + 1) := by rw [pow_succ, ← mul_assoc]; nlinarith
  · exact min_le_right _ _

/-- strictly growing until the cap is reached (`init > 0`) -/
theorem delayAt_strict (init maxD : Rat) (h0 : 0 < init) (h1 : init ≤ maxD) (k : Nat)
    (hk : delayAt init maxD (k + 1) < maxD) : delayAt init maxD k < delayAt init maxD (k + 1) := by
  have hf := factor_gt_one
  rw [delayAt_closed init maxD h0.le h1] at hk ⊢
  rw [delayAt_closed init maxD h0.le h1]
  have hp : 0 < init * requestRetryFactor ^ k := by positivity
  have hlt : init * requestRetryFactor ^ (k + 1) < maxD := by
    rcases le_total (init * requestRetryFactor ^ (k + 1)) maxD with h | h
    · rw [min_eq_left h] at hk; exact hk
    · rw [min_eq_right h] at hk; exact absurd hk (lt_irrefl _)
  have hstep : init * requestRetryFactor ^ k < init * requestRetryFactor ^ (k + 1) := by
    rw [pow_succ, ← mul_assoc]; nlinarith
  rw [min_eq_left hlt.le, min_eq_left (hstep.le.trans hlt.le)]
  exact hstep

/-! ## Buffer growth -/

theorem grow_none (b : Nat) : grow b none = some (b * (if b ≤ growThreshold then growFactorSmall else growFactorLarge)) := by
  simp [grow]

theorem grow_some (b m : Nat) :
    grow b (some m) = if b < m then some (min (b * (if b ≤ growThreshold then growFactorSmall else growFactorLarge)) m) else none := by
  simp [grow]

/-- growth fails iff a maximum is configured and the buffer is already at (or above) it -/
theorem grow_fails_iff (b : Nat) (mx : Option Nat) : grow b mx = none ↔ ∃ m, mx = some m ∧ m ≤ b := by
  cases mx with
  | none => simp [grow]
  | some m => simp [grow]

theorem grow_gt (b b' : Nat) (mx : Option Nat) (hb : 0 < b) (h : grow b mx = some b') : b < b' := by
  have h16 := growSmall_ge_two; have h2 := growLarge_ge_two
  cases mx with
  | none =>
    simp only [grow] at h
    split at h <;> (injection h with h; subst h; nlinarith)
  | some m =>
    simp only [grow] at h
    split at h
    · injection h with h; subst h
      rename_i hlt
      apply Nat.lt_min.mpr
      refine ⟨?_, hlt⟩
      split <;> nlinarith
    · cases h

theorem grow_le_max (b b' m : Nat) (h : grow b (some m) = some b') : b' ≤ m := by
  simp only [grow] at h
  split at h
  · injection h with h; subst h; exact Nat.min_le_right _ _
  · cases h

/-- iterate growth as long as it succeeds -/
def growN (mx : Option Nat) : Nat → Nat → Nat
  | 0, b => b
  | n + 1, b => match grow b mx with
    | some b' => growN mx n b'
    | none => b

theorem growN_ge (mx : Option Nat) (n b : Nat) (hb : 0 < b) :
    (match mx with | none => b + n ≤ growN mx n b | some m => min (b + n) m ≤ growN mx n b) := by
  induction n generalizing b with
  | zero => cases mx <;> simp [growN]
  | succ n ih =>
    cases hg : grow b mx with
    | none =>
      obtain ⟨m, rfl, hm⟩ := (grow_fails_iff b mx).mp hg
      simp only [growN, hg]
      exact (Nat.min_le_right _ _).trans hm
    | some b' =>
      have hlt := grow_gt b b' mx hb hg
      have := ih b' (by omega)
      simp only [growN, hg]
      cases mx with
      | none => simp only at this ⊢; omega
      | some m =>
        simp only at this ⊢
        exact (by omega : min (b + (n + 1)) m ≤ min (b' + n) m).trans this

/-- every size up to the maximum (any size without a maximum) is reached after finitely many growths -/
theorem grow_reaches (mx : Option Nat) (b size : Nat) (hb : 0 < b) (hs : ∀ m, mx = some m → size ≤ m) :
    ∃ n, size ≤ growN mx n b := by
  refine ⟨size, ?_⟩
  have := growN_ge mx size b hb
  cases mx with
  | none => simp only at this; omega
  | some m =>
    simp only at this
    have := hs m rfl
    omega

end Afkak.Proofs.Consumer
