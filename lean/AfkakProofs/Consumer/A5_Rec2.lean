import AfkakProofs.Consumer.A5_Rec1
/-!
# C03: an acknowledged commit is recorded (`C03.recStep`): every event keeps `Hq false`; every model trace is accepted by
`C03.ackRecordedOk` (until now a monitor evaluated on implementation traces only)
-/
namespace Afkak.Proofs.Consumer.A5
open Afkak.Consumer Afkak.Monitor Afkak.Consts Afkak.Proofs.Consumer

theorem Hq.weaken {s : St} (h : Hq true s) : Hq false s := by
  obtain ⟨r1, r2, r3, _⟩ := h
  exact ⟨r1, r2, r3, fun h => by cases h⟩

theorem rec_ev (m : C03.RecSt) (e : Ev) (h : ∀ k, e ≠ .commitOk k) : C03.recStep m (.ev e) = { m with cur := none } := by
  cases e <;> first | rfl | exact absurd rfl (h _)

/-- pushing the item of an event other than `commitOk`: no acknowledgement is being handled -/
theorem pre_q (e : Ev) (h : ∀ k, e ≠ .commitOk k) {s : St} (hs : Hq false s) (cr : Option CommitReq)
    (hcr : cr = s.commitReq ∨ cr = none) : HrP true (.ev e :: s.out) s.lastCommitted cr := by
  obtain ⟨r1, r2, r3, _⟩ := hs
  constructor <;> simp only [runR_cons, rec_ev _ e h]
  · exact r1
  · intro k hk; cases hk
  · intro r hr
    rcases hcr with rfl | rfl
    · exact r3 r hr
    · cases hr
  · intro _; trivial

section
variable {cfg : Cfg}

theorem start_q (off : Int) (a : Bool) (s : St) (hx : Hq a s) : Hq a (start cfg off s) := by
  unfold start
  split
  · qleaf hx
  · simp only []
    have h2 : Hq a (doFetch cfg { s with startD := .pending, fetchOffset := off }) := doFetch_q cfg a _ hx
    split
    · qleaf h2
    · exact h2

end

theorem stepCore_q {cfg : Cfg} (e : Ev) {s s' : St} (hs : Hq false s)
    (h : stepCore cfg { s with out := .ev e :: s.out } e = some s') : Hq false s' := by
  have hin := opsN_q cfg cfg.depth
  have pre : (∀ k, e ≠ .commitOk k) → Hq true { s with out := .ev e :: s.out } :=
    fun hne => pre_q e hne hs _ (Or.inl rfl)
  cases e with
  | start off => simp only [stepCore, Option.some.injEq] at h; subst h; exact (start_q off true _ (pre (by simp))).weaken
  | stop => simp only [stepCore, Option.some.injEq] at h; subst h; exact (stop_q hin true _ (pre (by simp))).weaken
  | shutdown => simp only [stepCore, Option.some.injEq] at h; subst h; exact (shutdown_q hin true _ (pre (by simp))).weaken
  | commit => simp only [stepCore, Option.some.injEq] at h; subst h; exact (commitUser_q cfg true _ (pre (by simp))).weaken
  | fetchOk k r =>
    simp only [stepCore] at h
    split at h
    · simp only [Option.some.injEq] at h; subst h; exact (handleFetchResponse_q hin k r true _ (pre (by simp))).weaken
    · cases h
  | fetchErr k ek tag =>
    simp only [stepCore] at h
    split at h
    · simp only [Option.some.injEq] at h; subst h; exact (handleFetchError_q cfg _ true _ (pre (by simp))).weaken
    · cases h
  | offsetOk k off =>
    simp only [stepCore] at h
    split at h
    · simp only [Option.some.injEq] at h; subst h; exact (handleOffsetResponse_q cfg _ _ _ (pre (by simp))).weaken
    · cases h
  | offsetErr k ek tag =>
    simp only [stepCore] at h
    split at h
    · simp only [Option.some.injEq] at h; subst h; exact (handleOffsetError_q cfg _ true _ (pre (by simp))).weaken
    · cases h
  | offsetFetchOk k off =>
    simp only [stepCore] at h
    split at h
    · simp only [Option.some.injEq] at h; subst h; exact (handleOffsetResponse_q cfg _ _ _ (pre (by simp))).weaken
    · cases h
  | offsetFetchErr k ek tag =>
    simp only [stepCore] at h
    split at h
    · simp only [Option.some.injEq] at h; subst h; exact (handleOffsetError_q cfg _ true _ (pre (by simp))).weaken
    · cases h
  | commitOk k =>
    simp only [stepCore] at h
    split at h
    · rename_i rq hrq
      split at h
      · rename_i hk
        simp only [Option.some.injEq] at h; subst h
        have hq : Hq false ({ s with out := .ev (.commitOk k) :: s.out, commitReq := none, lastCommitted := some rq.off } : St) := by
          obtain ⟨r1, r2, r3, _⟩ := hs
          have hmem := r3 rq hrq
          constructor <;> simp only [runR_cons, C03.recStep]
          · exact r1
          · intro k' hk'
            simp only [Option.some.injEq] at hk'
            subst hk'
            have hk' : rq.k = k := by simpa using hk
            exact ⟨rq.off, rfl, by rw [← hk']; exact hmem⟩
          · intro r hr; cases hr
          · intro hf; cases hf
        exact deliver_q hin _ false _ hq
      · cases h
    · cases h
  | commitErr k ek tag =>
    simp only [stepCore] at h
    split at h
    · split at h
      · simp only [Option.some.injEq] at h; subst h
        have hq : Hq true ({ s with out := .ev (.commitErr k ek tag) :: s.out, commitReq := none } : St) :=
          pre_q (.commitErr k ek tag) (by simp) hs none (Or.inr rfl)
        exact (handleCommitError_q hin _ _ _ true _ hq).weaken
      · cases h
    · cases h
  | procOk =>
    simp only [stepCore] at h
    split at h
    · simp only [Option.some.injEq] at h; subst h; exact (procResult_q hin _ _ true _ (pre (by simp))).weaken
    · cases h
  | procErr ek tag =>
    simp only [stepCore] at h
    split at h
    · simp only [Option.some.injEq] at h; subst h; exact (procResult_q hin _ _ true _ (pre (by simp))).weaken
    · cases h
  | retryFire =>
    simp only [stepCore] at h
    split at h
    · split at h
      · simp only [Option.some.injEq] at h; subst h
        have hq : Hq true ({ s with out := .ev .retryFire :: s.out, retryCall := .dead } : St) := pre (by simp)
        exact (doFetch_q cfg true _ hq).weaken
      · cases h
    · cases h
  | commitRetryFire =>
    simp only [stepCore] at h
    split at h
    · split at h
      · simp only [Option.some.injEq] at h; subst h
        have hq : Hq true ({ s with out := .ev .commitRetryFire :: s.out, commitCall := .dead } : St) := pre (by simp)
        exact (sendCommitRequest_q cfg _ _ true _ hq).weaken
      · cases h
    · cases h
  | autoCommitTick =>
    simp only [stepCore] at h
    cases hl : s.looper with
    | none => simp [hl] at h
    | some l =>
      cases hd : l.due with
      | none => simp [hl, hd] at h
      | some due =>
        simp only [hl, hd] at h
        split at h
        · have hq1 : Hq true (autoCommit cfg false
              { s with out := .ev .autoCommitTick :: s.out, looper := some { l with due := none } }) :=
            autoCommit_q cfg false true _ (pre (by simp))
          generalize autoCommit cfg false { s with out := .ev .autoCommitTick :: s.out, looper := some { l with due := none } } = x at h hq1
          split at h
          · simp only [Option.some.injEq] at h; subst h
            exact Hq.weaken (by qleaf hq1)
          · simp only [Option.some.injEq] at h; subst h
            exact hq1.weaken
        · cases h
  | advance dt =>
    simp only [stepCore] at h
    split at h
    · cases h
    · simp only [Option.some.injEq] at h; subst h; exact (pre (by simp)).weaken
  | env rq cm =>
    simp only [stepCore, Option.some.injEq] at h; subst h; exact (pre (by simp)).weaken

theorem rej_q (e : Ev) {s : St} (hs : Hq false s) : Hq false { s with out := .rej e :: s.out } := by
  obtain ⟨r1, r2, r3, r4⟩ := hs
  constructor <;> simp only [runR_cons, C03.recStep] <;> assumption

/-- the observation at the end of a step: the acknowledged offset IS recorded -/
theorem probe_q {s : St} (hs : Hq false s) : Hq false (probe s) := by
  unfold probe emit
  obtain ⟨r1, r2, r3, _⟩ := hs
  have key : C03.recStep (runR C03.recStep {} s.out) (.ob (.probe s.lastProcessed s.lastCommitted)) =
      { runR C03.recStep {} s.out with cur := none } := by
    generalize runR C03.recStep {} s.out = m at r2
    obtain ⟨reqs, cur, bad⟩ := m
    cases cur with
    | none => simp [C03.recStep]
    | some k =>
      obtain ⟨v, hv, hm⟩ := r2 k rfl
      simp only [] at hm
      simp [C03.recStep, hv, hm]
  constructor <;> simp only [runR_cons, key]
  · exact r1
  · intro k hk; cases hk
  · exact r3
  · intro hf; cases hf

theorem step_q {cfg : Cfg} (e : Ev) {s : St} (hs : Hq false s) : Hq false (step cfg s e) := by
  unfold step
  split
  · exact rej_q e hs
  · split
    · exact rej_q e hs
    · rename_i s' h
      have hq := stepCore_q e hs h
      split
      · exact hq
      · exact probe_q hq

theorem init_q (cfg : Cfg) (script : List PEntry) : Hq false (init cfg script) := by
  constructor <;> simp [init]

theorem run_q' (cfg : Cfg) (script : List PEntry) (evs : List Ev) : Hq false (run cfg script evs) := by
  induction evs using List.reverseRecOn with
  | nil => exact init_q cfg script
  | append_singleton es e ih =>
    have : run cfg script (es ++ [e]) = step cfg (run cfg script es) e := by
      unfold run; rw [List.foldl_append]; rfl
    rw [this]
    exact step_q e ih

/-- on every trace: when the consumer takes the success reply to a commit request, `last_committed_offset` is that request's
    offset once the reply has been handled -/
theorem ackRecorded_trace (cfg : Cfg) (script : List PEntry) (evs : List Ev) :
    C03.ackRecordedOk (trace cfg script evs) = true :=
  accepts_trace _ _ cfg script evs (run_q' cfg script evs).r1

end Afkak.Proofs.Consumer.A5
