import AfkakProofs.Consumer.Inv5
/-!
# From the invariant to statements about traces
-/
namespace Afkak.Proofs.Consumer
open Afkak.Consumer Afkak.Monitor Afkak.Consts

theorem accepts_trace {σ : Type} [HasBad σ] (f : σ → Item → σ) (i : σ) (cfg : Cfg) (script : List PEntry) (evs : List Ev)
    (h : HasBad.bad (runR f i (run cfg script evs).out) = false) : accepts f i (trace cfg script evs) = true := by
  simp [accepts, trace, h]

/-- The invariant of every reachable state, assuming NOTHING about the environment (`EnvHyp.sane := False`:
    the increasing-delivery part of `G` is vacuous, every other part is unconditional). -/
theorem run_top0 (cfg : Cfg) (script : List PEntry) (evs : List Ev) : @Top' ⟨False⟩ cfg (run cfg script evs) :=
  @run_top ⟨False⟩ cfg script evs (fun h => h.elim)

/-! The parts of the invariant that need no assumption, without the switch in their types. -/
theorem run_g1 (cfg : Cfg) (script : List PEntry) (evs : List Ev) : G1 (run cfg script evs) := by
  letI : EnvHyp := ⟨False⟩; exact (run_top0 cfg script evs).1.g1
theorem run_sf (cfg : Cfg) (script : List PEntry) (evs : List Ev) : Gsf (run cfg script evs) := by
  letI : EnvHyp := ⟨False⟩; exact (run_top0 cfg script evs).1.sf
theorem run_res (cfg : Cfg) (script : List PEntry) (evs : List Ev) : Gres (run cfg script evs) := by
  letI : EnvHyp := ⟨False⟩; exact (run_top0 cfg script evs).1.res
theorem run_ack (cfg : Cfg) (script : List PEntry) (evs : List Ev) : Gack (run cfg script evs) := by
  letI : EnvHyp := ⟨False⟩; exact (run_top0 cfg script evs).1.ack
theorem run_pay (cfg : Cfg) (script : List PEntry) (evs : List Ev) : Gpay (run cfg script evs) := by
  letI : EnvHyp := ⟨False⟩; exact (run_top0 cfg script evs).1.pay
theorem run_gr (cfg : Cfg) (script : List PEntry) (evs : List Ev) : Ggr cfg (run cfg script evs) := by
  letI : EnvHyp := ⟨False⟩; exact (run_top0 cfg script evs).1.gr
theorem run_halt (cfg : Cfg) (script : List PEntry) (evs : List Ev) : Ghalt (run cfg script evs) := by
  letI : EnvHyp := ⟨False⟩; exact (run_top0 cfg script evs).1.halt
theorem run_fo (cfg : Cfg) (script : List PEntry) (evs : List Ev) : Gfo (run cfg script evs) := by
  letI : EnvHyp := ⟨False⟩; exact (run_top0 cfg script evs).1.fo

/-! The last two steps of `stop()`. -/
theorem stopTimers_spec (x : St) : (stopTimers x).looper = none ∧ (∀ d dl a, (stopTimers x).commitCall ≠ .pending d dl a) := by
  unfold stopTimers emit; grind
theorem stopFinish_timers (x : St) : (stopFinish x).looper = x.looper ∧ (stopFinish x).commitCall = x.commitCall := by
  unfold stopFinish crash emit; grind

theorem stopFinish_requestD (x : St) : (stopFinish x).requestD = .none := by
  unfold stopFinish crash emit; grind

/-- The increasing-delivery part of the invariant, for event lists whose every event satisfies `EvOk`
    (`EnvHyp.sane := True`). -/
theorem run_inc (cfg : Cfg) (script : List PEntry) (evs : List Ev) (he : ∀ e ∈ evs, EvOk e) :
    Ginc cfg (run cfg script evs) := by
  letI : EnvHyp := ⟨True⟩
  exact (run_top cfg script evs (fun _ => he)).1.inc trivial

end Afkak.Proofs.Consumer
