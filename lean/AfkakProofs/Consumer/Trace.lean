import AfkakProofs.Consumer.Inv5
/-!
# From the invariant to statements about traces
-/
namespace Afkak.Proofs.Consumer
open Afkak.Consumer Afkak.Monitor Afkak.Consts

theorem accepts_trace {σ : Type} [HasBad σ] (f : σ → Item → σ) (i : σ) (cfg : Cfg) (script : List PEntry) (evs : List Ev)
    (h : HasBad.bad (runR f i (run cfg script evs).out) = false) : accepts f i (trace cfg script evs) = true := by
  simp [accepts, trace, h]

end Afkak.Proofs.Consumer
