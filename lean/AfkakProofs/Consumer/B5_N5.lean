import AfkakProofs.Consumer.B5_N4
/-!
# Quiescence after `stop()`: `stop()` itself
-/
namespace Afkak.Proofs.Consumer.BN
open Afkak.Consumer Afkak.Monitor Afkak.Consts Afkak.Proofs.Consumer

set_option linter.unusedSectionVars false

variable [EnvHyp]

/-- what the phases of `stop()` that follow the cancellation of the request leave alone -/
def Fr (s s' : St) : Prop :=
  s'.requestD = s.requestD ∧ s'.parked = s.parked ∧ s'.retryCall = s.retryCall ∧ s'.startD = s.startD ∧
    s'.stopping = s.stopping ∧ s'.msgBlock = s.msgBlock ∧ s'.commitDs = s.commitDs

theorem Fr.refl (s : St) : Fr s s := ⟨rfl, rfl, rfl, rfl, rfl, rfl, rfl⟩
theorem Fr.trans {a b c : St} (h1 : Fr a b) (h2 : Fr b c) : Fr a c :=
  ⟨h2.1.trans h1.1, h2.2.1.trans h1.2.1, h2.2.2.1.trans h1.2.2.1, h2.2.2.2.1.trans h1.2.2.2.1,
    h2.2.2.2.2.1.trans h1.2.2.2.2.1, h2.2.2.2.2.2.1.trans h1.2.2.2.2.2.1, h2.2.2.2.2.2.2.trans h1.2.2.2.2.2.2⟩

theorem procLoop_stopping (cfg : Cfg) (inner : Ops) (n : Nat) (rest : List Msg) (s : St) (hst : s.stopping = true) :
    procLoop cfg inner (n + 1) rest s = (s, true) := by
  unfold procLoop; simp [hst]

section
variable {cfg : Cfg} {inner : Ops}

/-- a shutdown continuation run by `stop()` itself (it holds the shutdown's token): reports the cancellation, stops
    nothing -/
theorem shutdownFinish_stop_q (f : Fail) (x : Nat) (s : St) (h : QG (x + 1) s) (hst : s.stopping = true) :
    QG x (shutdownFinish inner (some f) s) ∧ Fr s (shutdownFinish inner (some f) s) ∧ (shutdownFinish inner (some f) s).proc = s.proc := by
  refine ⟨?_, ?_, ?_⟩
  · unfold shutdownFinish nestedStop crash
    simp only [hst, if_true]
    split <;> qg_leaf h
  · unfold Fr shutdownFinish nestedStop crash emit
    simp only [hst, if_true]
    split <;> simp
  · unfold shutdownFinish nestedStop crash emit
    simp only [hst, if_true]
    split <;> rfl

/-- `stop()` cancels the processor's Deferred (`s`: after `procCancel` was observed; the generator `g` is gone) -/
theorem procResult_stop_q (g : Gen) (s : St) (h : QG (gShut (some g)) { s with proc := none }) (hst : s.stopping = true)
    (hmb : s.msgBlock = false) :
    QG 0 (procResult cfg inner g (some (.ext .cancelled 0)) s) ∧ Fr s (procResult cfg inner g (some (.ext .cancelled 0)) s) ∧
      (procResult cfg inner g (some (.ext .cancelled 0)) s).proc = none := by
  have e1 : procFired cfg g (some (.ext .cancelled 0)) s = { s with proc := none } := by
    simp [procFired, handleProcessorError, hst, Fail.isCancelled]
  have e2 : procErrPassed (.ext .cancelled 0) s = false := by simp [procErrPassed, hst, Fail.isCancelled]
  have e3 : procResume cfg inner g false { s with proc := none } = { s with proc := none } := by
    unfold procResume
    simp only [Bool.false_eq_true, if_false]
    rw [procLoop_stopping cfg inner _ _ _ (by exact hst)]
    simp [finishFull, hmb]
  unfold procResult
  simp only [e1, e2, e3]
  split
  · rename_i hsw
    have e4 : commitAndStop cfg inner { s with proc := none } =
        shutdownFinish inner (some (.ext .cancelled 0)) { s with proc := none } := by
      unfold commitAndStop commitAndStop1
      rw [if_pos (by exact hst)]
    rw [e4]
    have h' : QG (0 + 1) { s with proc := none } := by simpa [gShut, hsw] using h
    obtain ⟨a, b, c⟩ := shutdownFinish_stop_q (inner := inner) (.ext .cancelled 0) 0 { s with proc := none } h' hst
    exact ⟨a, b, c⟩
  · rename_i hsw
    have h' : QG 0 { s with proc := none } := by simpa [gShut, hsw] using h
    exact ⟨h', ⟨rfl, rfl, rfl, rfl, rfl, rfl, rfl⟩, rfl⟩

theorem stopReq_q (x : Nat) (s : St) (h : QG x s) : QG x (stopReq cfg s) := by
  unfold stopReq
  split
  · rename_i k kind c hreq
    have hpk : s.parked = none := by
      cases hq : s.parked with
      | none => rfl
      | some r => obtain ⟨k', hk'⟩ := h.parkedReq (by simp [hq]); rw [hk'] at hreq; cases hreq
    have h1 : QG x { emit (.cancelReq k) s with requestD := .pending k kind true } := by cases c <;> qg_leaf h
    simp only []
    split
    · split
      · exact handleFetchError_q _ x _ h1 rfl hpk
      · exact handleOffsetError_q _ x _ h1 rfl hpk
    · exact h1
  · exact h

/-- `stop()`: the block of messages, then the processor's Deferred -/
theorem stopBlockProc_q (s : St) (h : QG 0 s) (hst : s.stopping = true) (ha : activeReq s.requestD = none) :
    QG 0 (stopBlockProc cfg inner s) ∧ (stopBlockProc cfg inner s).proc = none ∧
      activeReq (stopBlockProc cfg inner s).requestD = none ∧ (stopBlockProc cfg inner s).parked = none ∧
      (stopBlockProc cfg inner s).retryCall = s.retryCall ∧ (stopBlockProc cfg inner s).startD = s.startD ∧
      (stopBlockProc cfg inner s).stopping = true := by
  have hb := stopBlock_facts s
  have hbp := stopBlock_proc s
  have hbk : (stopBlock s).parked = none ∧ activeReq (stopBlock s).requestD = none ∧ (stopBlock s).retryCall = s.retryCall ∧
      (stopBlock s).startD = s.startD := by
    unfold stopBlock
    split
    · refine ⟨rfl, ?_, rfl, rfl⟩
      simp only []
      split
      · rfl
      · exact ha
    · rename_i hmb
      refine ⟨?_, ha, rfl, rfl⟩
      cases hq : s.parked with
      | none => rfl
      | some r => have := h.parkedBlock (by simp [hq]); simp [this] at hmb
  have hst' : (stopBlock s).stopping = true := by rw [hb.1]; exact hst
  unfold stopBlockProc
  split
  · rename_i g hg'
    have h1 : QG (gShut (some g)) { emit .procCancel (stopBlock s) with proc := none } := by
      rw [hbp] at hg'
      unfold stopBlock
      split <;> qg_leaf h
    obtain ⟨a, b, c⟩ := procResult_stop_q (cfg := cfg) (inner := inner) g (emit .procCancel (stopBlock s)) h1
      (by show (stopBlock s).stopping = true; exact hst') (by show (stopBlock s).msgBlock = false; exact hb.2)
    refine ⟨a, c, ?_, ?_, ?_, ?_, ?_⟩
    · rw [b.1]; exact hbk.2.1
    · rw [b.2.1]; exact hbk.1
    · rw [b.2.2.1]; exact hbk.2.2.1
    · rw [b.2.2.2.1]; exact hbk.2.2.2
    · rw [b.2.2.2.2.1]; exact hst'
  · rename_i hn
    refine ⟨?_, hn, hbk.2.1, hbk.1, hbk.2.2.1, hbk.2.2.2, hst'⟩
    rw [hbp] at hn
    unfold stopBlock
    split <;> qg_leaf h


/-- what the later phases of `stop()` leave alone -/
def Fr2 (s s' : St) : Prop :=
  s'.requestD = s.requestD ∧ s'.parked = s.parked ∧ s'.retryCall = s.retryCall ∧ s'.startD = s.startD ∧
    s'.stopping = s.stopping ∧ s'.proc = s.proc

theorem Fr2.refl (s : St) : Fr2 s s := ⟨rfl, rfl, rfl, rfl, rfl, rfl⟩
theorem Fr2.trans {a b c : St} (h1 : Fr2 a b) (h2 : Fr2 b c) : Fr2 a c :=
  ⟨h2.1.trans h1.1, h2.2.1.trans h1.2.1, h2.2.2.1.trans h1.2.2.1, h2.2.2.2.1.trans h1.2.2.2.1,
    h2.2.2.2.2.1.trans h1.2.2.2.2.1, h2.2.2.2.2.2.trans h1.2.2.2.2.2⟩

/-- the number of shutdown tokens a Deferred of `_commit_ds` carries -/
def bShut (w : Waiter) : Nat := if isShut w then 1 else 0

/-- `stop()` cancels one Deferred of `_commit_ds` -/
theorem fireWaiter_stop_q (w : Waiter) (x : Nat) (s : St) (h : QG (x + bShut w) s) (hst : s.stopping = true) :
    QG x (fireWaiter cfg inner (.err (.ext .cancelled 0)) s w) ∧ Fr2 s (fireWaiter cfg inner (.err (.ext .cancelled 0)) s w) ∧
      (fireWaiter cfg inner (.err (.ext .cancelled 0)) s w).commitDs = s.commitDs := by
  cases w <;> simp only [fireWaiter]
  · have h' : QG x s := by simpa [bShut, isShut] using h
    exact ⟨by qg_leaf h', Fr2.refl _, rfl⟩
  · have h' : QG x s := by simpa [bShut, isShut] using h
    exact ⟨by qg_leaf h', Fr2.refl _, rfl⟩
  · have h' : QG x s := by simpa [bShut, isShut] using h
    have e : handleAutoCommitError (.ext .cancelled 0) s = s := by simp [handleAutoCommitError, hst, Fail.isCancelled]
    rw [e]; exact ⟨h', Fr2.refl _, rfl⟩
  · have h' : QG x s := by simpa [bShut, isShut] using h
    exact ⟨h', Fr2.refl _, trivial⟩
  · have h' : QG (x + 1) s := by simpa [bShut, isShut] using h
    obtain ⟨a, b, c⟩ := shutdownFinish_stop_q (inner := inner) (.ext .cancelled 0) x s h' hst
    exact ⟨a, ⟨b.1, b.2.1, b.2.2.1, b.2.2.2.1, b.2.2.2.2.1, c⟩, b.2.2.2.2.2.2⟩
  · have h' : QG (x + 1) s := by simpa [bShut, isShut] using h
    obtain ⟨a, b, c⟩ := shutdownFinish_stop_q (inner := inner) (.ext .cancelled 0) x s h' hst
    exact ⟨a, ⟨b.1, b.2.1, b.2.2.1, b.2.2.2.1, b.2.2.2.2.1, c⟩, b.2.2.2.2.2.2⟩
  · have h' : QG x s := by simpa [bShut, isShut] using h
    exact ⟨h', Fr2.refl _, trivial⟩

theorem nShut_dropLast (l : List Waiter) (w : Waiter) (h : l.getLast? = some w) : nShut l = nShut l.dropLast + bShut w := by
  have : l = l.dropLast ++ [w] := by
    have hne : l ≠ [] := by intro e; simp [e] at h
    rw [List.getLast?_eq_some_getLast hne] at h
    simp only [Option.some.injEq] at h
    rw [← h]; exact (List.dropLast_append_getLast hne).symm
  conv => lhs; rw [this]
  simp [nShut, bShut, List.countP_append, List.countP_cons]

/-- the `while self._commit_ds:` loop of `stop()` -/
theorem cancelWaiters_stop_q : ∀ (fuel : Nat) (s : St), QG 0 s → s.stopping = true → s.commitDs.length < fuel →
    QG 0 (cancelWaiters cfg inner fuel s) ∧ Fr2 s (cancelWaiters cfg inner fuel s) ∧ (cancelWaiters cfg inner fuel s).commitDs = [] := by
  intro fuel
  induction fuel with
  | zero => intro s _ _ hl; exact absurd hl (Nat.not_lt_zero _)
  | succ n ih =>
    intro s h hst hl
    unfold cancelWaiters
    split
    · rename_i hnone
      refine ⟨h, Fr2.refl _, ?_⟩
      cases hq : s.commitDs with
      | nil => rfl
      | cons a l => simp [hq] at hnone
    · rename_i w hw
      have hcount := nShut_dropLast s.commitDs w hw
      have h1 : QG (0 + bShut w) { s with commitDs := s.commitDs.dropLast } := by
        obtain ⟨q1, q2, q3, q4, q5, q6, q7, q8, q9, q10, q11, q12, q13, q14, q15, q16, q17, q18, q19, q20, q21, q22, q23, q24, q25, q26, q27, q28⟩ := h
        constructor <;> first | assumption | grind
      obtain ⟨a, b, c⟩ := fireWaiter_stop_q (cfg := cfg) (inner := inner) w 0 { s with commitDs := s.commitDs.dropLast } h1 hst
      have hlen : (fireWaiter cfg inner (.err (.ext .cancelled 0)) { s with commitDs := s.commitDs.dropLast } w).commitDs.length < n := by
        rw [c]
        simp only [List.length_dropLast]
        have : s.commitDs ≠ [] := by intro e; simp [e] at hw
        have := List.length_pos_of_ne_nil this
        omega
      obtain ⟨a2, b2, c2⟩ := ih _ a (by rw [b.2.2.2.2.1]; exact hst) hlen
      exact ⟨a2, Fr2.trans (Fr2.trans ⟨rfl, rfl, rfl, rfl, rfl, rfl⟩ b) b2, c2⟩

end

end Afkak.Proofs.Consumer.BN
