import AfkakProofs.Consumer.InvC
import AfkakProofs.Consumer.A5_Progress8
/-!
# C02, liveness half (9): a stopped consumer is clean (no request, no block, no parked reply) - every `start()` is a
clean start, which discharges the hypothesis `cleanStartsB` of `c02_never_stuck_partial_cs`
-/
namespace Afkak.Proofs.Consumer.L
open Afkak.Consumer Afkak.Proofs.Consumer

/-- no request outstanding, no block in progress, no reply parked -/
def CleanAll (s : St) : Prop := s.requestD = .none ∧ s.msgBlock = false

/-- a stopped consumer is clean -/
def K (s : St) : Prop := s.startD = .none → CleanAll s

/-- no block in progress, no reply parked -/
def M (s : St) : Prop := s.msgBlock = false

/-- `s'` has the request, the block flag and the parked reply of `s` and is stopped only if `s` was; or it is clean -/
def Cm (s s' : St) : Prop :=
  (s'.requestD = s.requestD ∧ s'.msgBlock = s.msgBlock ∧ (s'.startD = .none → s.startD = .none)) ∨
    CleanAll s'

theorem Cm.refl (s : St) : Cm s s := Or.inl ⟨rfl, rfl, fun h => h⟩
theorem Cm.trans {a b c : St} (h1 : Cm a b) (h2 : Cm b c) : Cm a c := by
  rcases h2 with ⟨c1, c2, c4⟩ | h2
  · rcases h1 with ⟨b1, b2, b4⟩ | ⟨b1, b2⟩
    · exact Or.inl ⟨c1.trans b1, c2.trans b2, fun h => b4 (c4 h)⟩
    · exact Or.inr ⟨c1.trans b1, c2.trans b2⟩
  · exact Or.inr h2
theorem K.of_cm {s s' : St} (hk : K s) (h : Cm s s') : K s' := by
  intro hs
  rcases h with ⟨c1, c2, c4⟩ | h
  · obtain ⟨k1, k2⟩ := hk (c4 hs)
    exact ⟨c1.trans k1, c2.trans k2⟩
  · exact h
theorem M.of_cm {s s' : St} (hm : M s) (h : Cm s s') : M s' := by
  rcases h with ⟨_, c2, _⟩ | h
  · exact c2.trans hm
  · exact h.2
theorem K.of_running {s : St} (h : s.startD ≠ .none) : K s := fun hs => absurd hs h

macro "cm_close" : tactic => `(tactic|
  first | exact Or.inl ⟨rfl, rfl, fun h => h⟩ | exact Or.inl ⟨rfl, rfl, fun h => by simp at h⟩)

theorem emit_cm (o : Ob) (s : St) : Cm s (emit o s) := by cm_close
theorem crash_cm (site : String) (s : St) : Cm s (crash site s) := by cm_close
theorem startErrback_cm (f : Fail) (s : St) : Cm s (startErrback f s) := by
  unfold startErrback
  split
  · cm_close
  · exact Cm.refl s
theorem sendCommitRequest_cm (cfg : Cfg) (d : Option Rat) (a : Option Nat) (s : St) : Cm s (sendCommitRequest cfg d a s) := by
  rcases s with ⟨fo, lp, lc, stp, shd, sdD, lpr, cds, creq, sD, rD, rC, cC, mb, pk, pr, fr, rdl, att, bs, nw, nr, nc, nwt, sc, er, ec, cr, out⟩
  cases cC <;> cases creq <;> cases lp <;> cm_close
theorem looperReset_cm (cfg : Cfg) (s : St) : Cm s (looperReset cfg s) := by
  rcases s with ⟨fo, lp, lc, stp, shd, sdD, lpr, cds, creq, sD, rD, rC, cC, mb, pk, pr, fr, rdl, att, bs, nw, nr, nc, nwt, sc, er, ec, cr, out⟩
  rcases lpr with _ | ⟨st, _ | due⟩ <;> cm_close
theorem stopTimers_cm (s : St) : Cm s (stopTimers s) := by
  rcases s with ⟨fo, lp, lc, stp, shd, sdD, lpr, cds, creq, sD, rD, rC, cC, mb, pk, pr, fr, rdl, att, bs, nw, nr, nc, nwt, sc, er, ec, cr, out⟩
  cases cC <;> rcases lpr with _ | ⟨st, _ | due⟩ <;> cm_close
theorem stopRetry_cm (s : St) : Cm s (stopRetry s) := by
  unfold stopRetry; split <;> cm_close
theorem commitState_cm (cfg : Cfg) (w : Who) (s : St) : Cm s (commitState cfg w s) := by
  unfold commitState
  split
  · exact Cm.refl _
  split
  · exact Cm.refl _
  split
  · cases w <;> cm_close
  · exact (show Cm s { s with commitDs := [_] } by cm_close).trans
      ((sendCommitRequest_cm cfg none none _).trans (looperReset_cm cfg _))
theorem handleAutoCommitError_cm (f : Fail) (s : St) : Cm s (handleAutoCommitError f s) := by
  unfold handleAutoCommitError
  split
  · exact Cm.refl _
  split
  · exact startErrback_cm _ _
  · exact Cm.refl _
theorem autoCommit_cm (cfg : Cfg) (b : Bool) (s : St) : Cm s (autoCommit cfg b s) := by
  unfold autoCommit
  repeat' ((try dsimp only); split)
  all_goals first
    | exact Cm.refl _
    | exact commitState_cm _ _ _
    | exact (commitState_cm _ _ _).trans (handleAutoCommitError_cm _ _)
theorem commitUser_cm (cfg : Cfg) (s : St) : Cm s (commitUser cfg s) := by
  unfold commitUser
  dsimp only
  split
  · exact (commitState_cm cfg .user s).trans ((show Cm (commitState cfg .user s) { commitState cfg .user s with nextCommit := _ } by cm_close).trans (emit_cm _ _))
  · exact (commitState_cm cfg .user s).trans (show Cm (commitState cfg .user s) { commitState cfg .user s with nextCommit := _ } by cm_close)
theorem retryFetch_cm (cfg : Cfg) (a : Option Rat) (s : St) : Cm s (retryFetch cfg a s) := by
  unfold retryFetch
  split
  · exact Cm.refl _
  split
  · dsimp only; split <;> cm_close
  · exact Cm.refl _
theorem handleProcessorError_cm (f : Fail) (s : St) : Cm s (handleProcessorError f s) := by
  unfold handleProcessorError
  split
  · exact Cm.refl _
  · exact startErrback_cm _ _

/-- what the proofs below need of the re-entrant API one level down -/
structure OpsCm (inner : Ops) : Prop where
  stop : ∀ s, Cm s (inner.stop s)
  stopCore : ∀ s, Cm s (inner.stopCore s)
  commit : ∀ s, Cm s (inner.commit s)
  shutdown : ∀ s, Cm s (inner.shutdown s)

section
variable {cfg : Cfg} {inner : Ops} (hin : OpsCm inner)
include hin

theorem nestedStop_cm (s : St) : Cm s (nestedStop inner s) := by
  unfold nestedStop
  split
  · exact Cm.refl _
  split
  · exact crash_cm _ _
  · exact hin.stopCore _

theorem shutdownFinish_cm (r : Option Fail) (s : St) : Cm s (shutdownFinish inner r s) := by
  unfold shutdownFinish
  dsimp only
  have h1 : Cm s (nestedStop inner { s with shutdownD := false }) :=
    (show Cm s { s with shutdownD := false } by cm_close).trans (nestedStop_cm hin _)
  have h2 : Cm s { nestedStop inner { s with shutdownD := false } with shuttingDown := false } := h1.trans (by cm_close)
  repeat' split
  all_goals first | exact h2.trans (crash_cm _ _) | exact h2.trans (emit_cm _ _)

theorem commitAndStop_cm (s : St) : Cm s (commitAndStop cfg inner s) := by
  unfold commitAndStop commitAndStop1
  repeat' split
  all_goals first
    | exact shutdownFinish_cm hin _ _
    | exact (commitState_cm _ _ _).trans (shutdownFinish_cm hin _ _)
    | exact commitState_cm _ _ _

theorem shutdownSuccess_cm (s : St) : Cm s (shutdownSuccess cfg inner s) := by
  unfold shutdownSuccess
  split
  · exact commitAndStop_cm hin s
  · exact shutdownFinish_cm hin _ _

theorem fireWaiter_cm (r : DRes) (w : Waiter) (s : St) : Cm s (fireWaiter cfg inner r s w) := by
  cases w <;> cases r <;> simp only [fireWaiter]
  all_goals first
    | exact Cm.refl _
    | exact emit_cm _ _
    | exact handleAutoCommitError_cm _ _
    | exact autoCommit_cm _ _ _
    | exact shutdownSuccess_cm hin _
    | exact commitAndStop_cm hin _
    | exact shutdownFinish_cm hin _ _

theorem waiters_cm (r : DRes) : ∀ (ws : List Waiter) (s : St), Cm s (ws.foldl (fireWaiter cfg inner r) s)
  | [], s => Cm.refl s
  | w :: ws, s => (fireWaiter_cm hin r w s).trans (waiters_cm r ws _)

theorem deliver_cm (r : DRes) (s : St) : Cm s (deliver cfg inner r s) := by
  unfold deliver
  exact (show Cm s { s with commitDs := [] } by cm_close).trans (waiters_cm hin r _ _)

theorem handleCommitError_cm (f : Fail) (d : Rat) (a : Nat) (s : St) : Cm s (handleCommitError cfg inner f d a s) := by
  unfold handleCommitError
  repeat' split
  all_goals first
    | exact deliver_cm hin _ _
    | cm_close

theorem cancelWaiters_cm : ∀ (fuel : Nat) (s : St), Cm s (cancelWaiters cfg inner fuel s)
  | 0, s => by
    unfold cancelWaiters
    split
    · exact Cm.refl _
    · exact crash_cm _ _
  | n + 1, s => by
    unfold cancelWaiters
    split
    · exact Cm.refl _
    · exact (show Cm s { s with commitDs := s.commitDs.dropLast } by cm_close).trans
        ((fireWaiter_cm hin _ _ _).trans (cancelWaiters_cm n _))

theorem stopCommitReq_cm (s : St) : Cm s (stopCommitReq cfg inner s) := by
  unfold stopCommitReq
  cases hr : s.commitReq with
  | none => exact Cm.refl _
  | some r =>
    dsimp only
    have h1 : Cm s { emit (.cancelReq r.k) s with commitReq := none } := by cm_close
    split
    · exact h1.trans (handleCommitError_cm hin _ _ _ _)
    · exact h1

theorem shutdown_cm (s : St) : Cm s (shutdown cfg inner s) := by
  unfold shutdown
  split
  · exact emit_cm _ _
  split
  · exact emit_cm _ _
  dsimp only
  split
  · cm_close
  · exact (show Cm s { s with shuttingDown := true, shutdownD := true } by cm_close).trans (commitAndStop_cm hin _)

end

theorem procLoop_stopping' (cfg : Cfg) (inner : Ops) (fuel : Nat) (rest : List Msg) (s : St) (h : s.stopping = true) :
    procLoop cfg inner fuel rest s = (s, true) := by
  cases fuel with
  | zero => rfl
  | succ n => unfold procLoop; simp [h]

section
variable {cfg : Cfg} {inner : Ops} (hin : OpsCm inner)
include hin

/-- `stop()` cancels the processor's Deferred: the generator resumes, sees `_stopping` and ends -/
theorem procResult_stop_m (g : Gen) (y : St) (hst : y.stopping = true) (hm : M y) :
    M (procResult cfg inner g (some (.ext .cancelled 0)) y) := by
  have h1 : procFired cfg g (some (.ext .cancelled 0)) y = { y with proc := none } := by
    simp [procFired, handleProcessorError, hst, Fail.isCancelled]
  have h2 : procErrPassed (.ext .cancelled 0) y = false := by
    simp [procErrPassed, hst, Fail.isCancelled]
  have h3 : procResume cfg inner g false { y with proc := none } = { y with proc := none } := by
    have hpl := procLoop_stopping' cfg inner (g.rest.length + 1) g.rest { y with proc := none } hst
    have hm' : y.msgBlock = false := hm
    unfold procResume
    simp only [Bool.false_eq_true, if_false, hpl, Option.isSome_none, Bool.not_true, Bool.or_self]
    unfold finishFull
    simp only [hm', Bool.false_eq_true, if_false]
  unfold procResult
  simp only [h1, h2, h3]
  split
  · exact M.of_cm (show M { y with proc := none } from hm) (commitAndStop_cm hin _)
  · exact hm

/-- `stop()` leaves the consumer clean -/
theorem stopCore_clean (s : St) : CleanAll (stopCore cfg inner s) := by
  unfold stopCore
  dsimp only
  have hst1 : (stopReq cfg { s with stopping := true }).stopping = true := (@stopReq_keeps0 ⟨False⟩ cfg _).2.1
  generalize stopReq cfg { s with stopping := true } = x1 at hst1
  have hm2 : M (stopBlockProc cfg inner x1) := by
    have hb : M (stopBlock x1) ∧ (stopBlock x1).stopping = true := by
      unfold stopBlock M; split <;> simp_all
    unfold stopBlockProc
    split
    · exact procResult_stop_m hin _ _ hb.2 hb.1
    · exact hb.1
  generalize stopBlockProc cfg inner x1 = x2 at hm2
  have hm3 : M (stopTimers (stopCommitReq cfg inner (cancelWaiters cfg inner ((stopRetry x2).commitDs.length + 4) (stopRetry x2)))) :=
    M.of_cm (M.of_cm (M.of_cm (M.of_cm hm2 (stopRetry_cm _)) (cancelWaiters_cm hin _ _)) (stopCommitReq_cm hin _)) (stopTimers_cm _)
  generalize stopTimers (stopCommitReq cfg inner (cancelWaiters cfg inner ((stopRetry x2).commitDs.length + 4) (stopRetry x2))) = x6 at hm3
  unfold stopFinish
  dsimp only
  split
  · exact ⟨rfl, hm3⟩
  · exact ⟨rfl, hm3⟩
  · exact ⟨rfl, hm3⟩

theorem stop_cm (s : St) : Cm s (stop cfg inner s) := by
  unfold stop
  split
  · exact emit_cm _ _
  · exact Or.inr (stopCore_clean hin s)

theorem runAct_cm (a : Act) (s : St) : Cm s (runAct inner a s) := by
  cases a
  · exact hin.stop s
  · exact hin.commit s
  · exact hin.shutdown s

theorem procActs_cm : ∀ (acts : List Act) (s : St), Cm s (procActs inner acts s)
  | [], s => Cm.refl s
  | a :: t, s => by
    unfold procActs
    simp only [List.foldl_cons]
    exact ((emit_cm (.act a) s).trans (runAct_cm hin a _)).trans (procActs_cm t _)

end

theorem mkOps_cm (cfg : Cfg) (inner : Ops) (hin : OpsCm inner) : OpsCm (mkOps cfg inner) :=
  ⟨stop_cm hin, fun s => Or.inr (stopCore_clean hin s), commitUser_cm cfg, shutdown_cm hin⟩

theorem opsN_cm (cfg : Cfg) : ∀ n, OpsCm (opsN cfg n)
  | 0 => ⟨fun _ => crash_cm _ _, fun _ => crash_cm _ _, fun _ => crash_cm _ _, fun _ => crash_cm _ _⟩
  | n + 1 => mkOps_cm cfg _ (opsN_cm cfg n)

end Afkak.Proofs.Consumer.L
