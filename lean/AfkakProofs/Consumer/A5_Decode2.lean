import AfkakProofs.Consumer.A5_Decode1
import AfkakProofs.Crc.Wrapped
/-!
# C02: the decoded reply is faithful — message sets with gzip wrappers (both formats)

The partition log as the broker stores it: a list of entries, plain messages or gzip wrappers (`Afkak.C12.SetEntry`).  What
the consumer can see of it is `entries.flatMap yields` (inner offsets as stored under a format-0 wrapper, re-based on the
wrapper's offset under a format-1 wrapper): that is "the log".  A fetch at `off` is answered from an ENTRY boundary: from the
entry that contains `off` - so a wrapper also carries messages BELOW `off` - and is cut after `c` bytes, possibly inside a
wrapper (`C12_truncate_wrapped`: only complete entries are yielded).
-/
namespace Afkak.Proofs.Consumer.D
open Afkak.Consumer Afkak.Monitor Afkak.Props.Open.C02

/-- A contiguous segment of an ascending log whose predecessors all lie below `off`, as a fetch reply (whatever the tail), is
    a faithful view of the log.  (The segment may itself begin below `off`.) -/
theorem segment_faithful (pre seg post : List Msg) (hasc : Asc (pre ++ seg ++ post)) (off : Int) (h0 : 0 ≤ off)
    (hpre : ∀ x ∈ pre, x.off < off) (t : Tail) :
    replyFaithful (pre ++ seg ++ post) off { msgs := seg, tail := t } = true := by
  unfold replyFaithful
  simp only [Bool.and_eq_true, decide_eq_true_eq]
  refine ⟨⟨⟨h0, ?_⟩, chainOk_segment seg pre post hasc⟩, ?_⟩
  · rw [List.all_eq_true]
    intro x hx
    have : x ∈ pre ++ seg ++ post := by simp [hx]
    simpa using this
  · cases hh : (seg.filter (fun m => decide (off ≤ m.off))).head? with
    | none => rfl
    | some m =>
      simp only [beq_iff_eq]
      unfold C02.firstFrom
      have hp : pre.filter (fun m => decide (off ≤ m.off)) = [] := by
        rw [List.filter_eq_nil_iff]
        intro x hx
        have := hpre x hx
        simp only [decide_eq_true_eq]; omega
      rw [List.filter_append, List.filter_append, hp, List.nil_append, List.head?_append, hh]
      rfl

open Afkak.WireCost Afkak.C12 Afkak.Monitor.C12 in
/-- **The decoded reply is faithful** (sets with gzip wrappers of either format).  `before ++ after`: the stored entries, all
    well formed for the decompressor `gz` (`SetEntry.WellFormed`: the `gunzip ∘ gzip` hypothesis per payload); what they
    yield has strictly ascending offsets (gaps allowed); everything `before` yields lies below `off ≥ 0` (the broker answers
    from the entry that contains `off`; `after` may begin with messages below `off`).  The answer is the encoding of `after`
    cut after `c` bytes (any `c`).  The decoder's output rendered as the consumer's `Reply` satisfies `replyFaithful`
    w.r.t. the log rendered the same way, and ends normally or with `Tail.small` and no message at all. -/
theorem decoded_reply_faithful_wrapped (gz : Gz) (depth : Nat) (pid : Int × Afkak.WireCost.Msg → Nat)
    (other : Err → ErrKind × Nat) (before after : List SetEntry) (off : Int) (c : Nat)
    (hwf : ∀ e ∈ after, e.WellFormed gz)
    (hasc : (((before ++ after).flatMap SetEntry.yields).map (·.1)).Pairwise (· < ·))
    (hbelow : ∀ om ∈ before.flatMap SetEntry.yields, om.1 < off) (h0 : 0 ≤ off) :
    let r := replyOf pid other (decodeSet gz (depth + 1) ((encodeEntries after).take c))
    replyFaithful (((before ++ after).flatMap SetEntry.yields).map (toMsg pid)) off r = true ∧
      (r.tail = .done ∨ (r.tail = .small ∧ r.msgs = [])) := by
  intro r
  -- what the decoder yields: the yields of the first `n` entries of the answer, and how it ends
  have hdec : ∃ n, (decodeSet gz (depth + 1) ((encodeEntries after).take c)).msgs = (after.take n).flatMap SetEntry.yields ∧
      ((decodeSet gz (depth + 1) ((encodeEntries after).take c)).err = none ∨
       ((decodeSet gz (depth + 1) ((encodeEntries after).take c)).err = some Err.fetchSizeTooSmall ∧
        (after.take n).flatMap SetEntry.yields = [])) := by
    have key : ∀ c', c' ≤ (encodeEntries after).length →
        ∃ n, (decodeSet gz (depth + 1) ((encodeEntries after).take c')).msgs = (after.take n).flatMap SetEntry.yields ∧
        ((decodeSet gz (depth + 1) ((encodeEntries after).take c')).err = none ∨
         ((decodeSet gz (depth + 1) ((encodeEntries after).take c')).err = some Err.fetchSizeTooSmall ∧
          (after.take n).flatMap SetEntry.yields = [])) := by
      intro c' hc'
      obtain ⟨h1, h2⟩ := decodeSet_truncate_entries gz depth after c' hwf hc'
      refine ⟨_, h1, ?_⟩
      rw [h2]
      split
      · exact Or.inl rfl
      · rename_i hn
        refine Or.inr ⟨rfl, ?_⟩
        simp only [Bool.or_eq_true, Bool.not_eq_true', decide_eq_true_eq, not_or] at hn
        simpa using hn.1
    by_cases hc : c ≤ (encodeEntries after).length
    · exact key c hc
    · have ht : (encodeEntries after).take c = (encodeEntries after).take (encodeEntries after).length := by
        rw [List.take_length, List.take_of_length_le (by omega)]
      rw [ht]
      exact key _ (Nat.le_refl _)
  obtain ⟨n, hm, he⟩ := hdec
  -- the log, split around the segment that was decoded
  have hsplit : ((before ++ after).flatMap SetEntry.yields).map (toMsg pid) =
      (before.flatMap SetEntry.yields).map (toMsg pid) ++ ((after.take n).flatMap SetEntry.yields).map (toMsg pid) ++
        ((after.drop n).flatMap SetEntry.yields).map (toMsg pid) := by
    conv => lhs; rw [← List.take_append_drop n after]
    simp only [List.flatMap_append, List.map_append, List.append_assoc]
  have hlog : Asc (((before ++ after).flatMap SetEntry.yields).map (toMsg pid)) := by
    unfold Asc
    rw [List.pairwise_map] at hasc ⊢
    exact hasc
  have hmsgs : r.msgs = ((after.take n).flatMap SetEntry.yields).map (toMsg pid) := by
    show (decodeSet gz (depth + 1) ((encodeEntries after).take c)).msgs.map (fun om => ({ off := om.1, pid := pid om } : Afkak.Consumer.Msg)) = _
    rw [hm]
    rfl
  constructor
  · rw [hsplit] at hlog ⊢
    have := segment_faithful _ _ _ hlog off h0 (by
      intro x hx
      obtain ⟨om, hom, rfl⟩ := List.mem_map.mp hx
      exact hbelow om hom) r.tail
    have hr : r = ({ msgs := ((after.take n).flatMap SetEntry.yields).map (toMsg pid), tail := r.tail } : Reply) := by
      rw [← hmsgs]
    rw [hr]
    exact this
  · rcases he with he | ⟨he, hn⟩
    · left
      show (match (decodeSet gz (depth + 1) ((encodeEntries after).take c)).err with
        | none => Tail.done | some .fetchSizeTooSmall => .small | some e => .raise (other e).1 (other e).2) = _
      rw [he]
    · right
      constructor
      · show (match (decodeSet gz (depth + 1) ((encodeEntries after).take c)).err with
          | none => Tail.done | some .fetchSizeTooSmall => .small | some e => .raise (other e).1 (other e).2) = _
        rw [he]
      · rw [hmsgs, hn]; rfl

end Afkak.Proofs.Consumer.D
