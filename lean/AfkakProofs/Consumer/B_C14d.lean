import AfkakProofs.Consumer.B_C14c
/-!
# C14 at trace level: the processor's result, `stop()`, `shutdown()`, every level of the re-entrant API
-/
namespace Afkak.Proofs.Consumer.B
open Afkak.Consumer Afkak.Monitor Afkak.Consts Afkak.Proofs.Consumer

section
variable {cfg : Cfg} {sane : Prop} {inner : Ops} (hin : OpsC cfg sane inner)
include hin

/-- The processor's Deferred fires at top level (`x` = the event that says so). -/
theorem procResult_c (g : Gen) (r : Option Fail) {s : St} (hs : Hc cfg sane s) (x : Ev)
    (hx : (r = none ∧ x = .procOk) ∨ (∃ k t, r = some (.ext k t) ∧ x = .procErr k t)) :
    Hc cfg sane (procResult cfg inner g r { s with out := .ev x :: s.out }) := by
  have h1' : ∃ s1, procFired cfg g r { s with out := .ev x :: s.out } = s1 ∧ Hc cfg sane s1 ∧ (dlm cfg s1).inErr = false := by
    unfold procFired
    rcases hx with ⟨rfl, rfl⟩ | ⟨k, t, rfl, rfl⟩
    · simp only []
      have a : Hc cfg sane { ({ s with out := Item.ev Ev.procOk :: s.out } : St) with proc := none, lastProcessed := some g.last } := by
        hc_fields hs
      have b := autoCommit_c cfg sane true _ a
      exact ⟨_, rfl, b.1, b.2.2.2.1.trans (by simp [dlm, runR_cons, C14.dlStep])⟩
    · simp only []
      have a : Hc cfg sane { ({ s with out := Item.ev (Ev.procErr k t) :: s.out } : St) with proc := none } := by
        hc_fields hs
      have b := handleProcessorError_c cfg sane (.ext k t) _ a
      exact ⟨_, rfl, b.1, b.2.2.2.1.trans (by simp [dlm, runR_cons, C14.dlStep])⟩
  obtain ⟨s1, e1, r1, ie1⟩ := h1'
  have hres : ∀ passed, HRel cfg sane s1 (procResume cfg inner g passed s1) := by
    intro passed
    unfold procResume
    split
    · exact HRel.refl r1
    · simp only []
      have h3 := procLoop_c hin (g.rest.length + 1) g.rest (HRel.refl r1)
      split
      · exact h3
      · exact h3.trans (finishFull_c hin h3.1 (h3.2.2.2.1.trans ie1))
  unfold procResult
  simp only []
  rw [e1]
  split
  · exact ((commitAndStop_c hin).step (hres _)).1
  · exact (hres _).1

/-- `stop()`: the block is dropped and the suspended generator's Deferred cancelled. -/
theorem stopBlockProc_c {s : St} (hs : Hc cfg sane s) (hst : s.stopping = true) :
    HRel cfg sane s (stopBlockProc cfg inner s) ∧ (stopBlockProc cfg inner s).parked = none := by
  have hsb : HRel cfg sane s (stopBlock s) ∧ (stopBlock s).msgBlock = false ∧ (stopBlock s).stopping = true ∧
      (stopBlock s).parked = none := by
    unfold stopBlock
    split
    · refine ⟨?_, rfl, hst, rfl⟩
      have hx := HRel.refl hs
      cleaf hx
    · rename_i hmb
      refine ⟨HRel.refl hs, by simpa using hmb, hst, ?_⟩
      cases hpp : s.parked with
      | none => rfl
      | some r => exact absurd (hs.1.parkedBlock (by rw [hpp]; rfl)) hmb
  obtain ⟨hb, mb1, st1, pk1⟩ := hsb
  unfold stopBlockProc
  split
  · rename_i g hg
    generalize stopBlock s = t at *
    have hcancel : (Fail.ext ErrKind.cancelled 0).isCancelled = true := rfl
    have a : HRel cfg sane t { emit .procCancel t with proc := none } := by
      have ht := HRel.refl hb.1
      cleaf ht
    have b := (handleProcessorError_c cfg sane (.ext .cancelled 0)).step a
    have hk : (handleProcessorError (.ext .cancelled 0) { emit .procCancel t with proc := none }).stopping = true ∧
        (handleProcessorError (.ext .cancelled 0) { emit .procCancel t with proc := none }).msgBlock = false ∧
        (handleProcessorError (.ext .cancelled 0) { emit .procCancel t with proc := none }).proc = none := by
      unfold handleProcessorError startErrback emit
      simp [st1, Fail.isCancelled, mb1]
    have e : procResult cfg inner g (some (.ext .cancelled 0)) (emit .procCancel t) =
        (if g.shutWait then commitAndStop cfg inner (handleProcessorError (.ext .cancelled 0) { emit .procCancel t with proc := none })
         else handleProcessorError (.ext .cancelled 0) { emit .procCancel t with proc := none }) := by
      have hpass : procErrPassed (.ext .cancelled 0) (emit .procCancel t) = false := by
        simp [procErrPassed, emit, st1, hcancel]
      unfold procResult
      simp only [hpass]
      unfold procFired
      simp only []
      rw [A.procResume_stopping cfg inner g _ hk.1 hk.2.1 hk.2.2]
    rw [e]
    split
    · have c := (commitAndStop_c hin).step b
      exact ⟨hb.trans c, c.2.2.2.2 pk1⟩
    · exact ⟨hb.trans b, b.2.2.2.2 pk1⟩
  · exact ⟨hb, pk1⟩

theorem stopReq_c : PresH cfg sane (stopReq cfg) := by
  intro s hs
  have hx := HRel.refl hs
  unfold stopReq
  split
  · simp only []
    rename_i k kind c hreq
    have hpk : s.parked = none := by
      cases hpp : s.parked with
      | none => rfl
      | some r =>
        obtain ⟨k', hk'⟩ := hs.1.parkedReq (by rw [hpp]; rfl)
        rw [hreq] at hk'; cases hk'
    have hn : (nsm s).expect = none := by
      cases he : (nsm s).expect with
      | none => rfl
      | some e => exact absurd hreq ((hs.2.1.n2 e he).2.1 k kind c)
    have hrs : sane → (rsm cfg s).expect = none ∧ (rsm cfg s).fetchAt = none := by
      intro hP
      constructor
      · cases he : (rsm cfg s).expect with
        | none => rfl
        | some e => have := ((hs.2.2.2 hP).r2 e he).2.1; rw [hreq] at this; cases this
      · cases he : (rsm cfg s).fetchAt with
        | none => rfl
        | some e =>
          rcases (hs.2.2.2 hP).r3 e he with h | h
          · exact absurd h (hs.1.reqRun k kind c hreq)
          · rw [hreq] at h; cases h.2.1
    have hq : HRel cfg sane s { emit (.cancelReq k) s with requestD := .pending k kind true } := by cleaf hx
    split
    · split
      · refine handleFetchError_c _ hq (by simpa [emit] using hpk) (fun _ => ⟨?_, fun hP => ?_⟩)
        · rw [hq.2.1]; exact hn
        · rw [hq.2.2.1.1, hq.2.2.1.2]; exact ⟨Or.inl (hrs hP).1, (hrs hP).2⟩
      · exact handleOffsetError_c _ hq (by simpa [emit] using hpk)
    · exact hq
  · exact hx

omit hin in
theorem stopFinish_c {s0 s : St} (h : HRel cfg sane s0 s) (hpk : s.parked = none) : HRel cfg sane s0 (stopFinish s) := by
  unfold stopFinish crash
  simp only []
  split
  · cleaf h
  · cleaf h
  · cleaf h

omit hin in
theorem stopReq_stopping' (s : St) : (stopReq cfg s).stopping = s.stopping := by
  unfold stopReq handleFetchError handleOffsetError fetchErrorTail offsetErrorTail startErrback retryFetch emit
  grind

theorem stopCore_c : PresH cfg sane (stopCore cfg inner) := by
  intro s hs
  have hq0 : HRel cfg sane s { s with stopping := true } := by
    have hx := HRel.refl hs
    cleaf hx
  have hq1 := (stopReq_c hin).step hq0
  have st1 : (stopReq cfg { s with stopping := true }).stopping = true := by rw [stopReq_stopping']
  obtain ⟨hq2, pk2⟩ := stopBlockProc_c hin hq1.1 st1
  unfold stopCore
  simp only []
  generalize stopBlockProc cfg inner (stopReq cfg { s with stopping := true }) = t at *
  have hq3 : ∀ fuel, HRel cfg sane t (stopTimers (stopCommitReq cfg inner (cancelWaiters cfg inner fuel (stopRetry t)))) :=
    fun fuel => (stopTimers_c cfg sane).step ((stopCommitReq_c hin).step ((cancelWaiters_c hin fuel).step ((stopRetry_c cfg sane).step (HRel.refl hq2.1))))
  exact stopFinish_c (hq1.trans (hq2.trans (hq3 _))) ((hq3 _).2.2.2.2 pk2)

theorem stop_c : PresH cfg sane (stop cfg inner) := by
  intro s hs
  unfold stop
  split
  · have hx := HRel.refl hs
    cleaf hx
  · simp only []
    have hq := stopCore_c hin s hs
    cleaf hq

theorem shutdown_c : PresH cfg sane (shutdown cfg inner) := by
  intro s hs
  have hx := HRel.refl hs
  unfold shutdown
  split
  · cleaf hx
  · split
    · cleaf hx
    · simp only []
      split
      · cleaf hx
      · exact (commitAndStop_c hin).step (by cleaf hx)

theorem mkOps_c : OpsC cfg sane (mkOps cfg inner) :=
  ⟨stop_c hin, stopCore_c hin, commitUser_c cfg sane, shutdown_c hin⟩

end

theorem opsN_c (cfg : Cfg) (sane : Prop) : ∀ n, OpsC cfg sane (opsN cfg n)
  | 0 => ⟨crash_c cfg sane _, crash_c cfg sane _, crash_c cfg sane _, crash_c cfg sane _⟩
  | n + 1 => mkOps_c (opsN_c cfg sane n)

end Afkak.Proofs.Consumer.B
