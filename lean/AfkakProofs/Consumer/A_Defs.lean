import AfkakProofs.Consumer.Trace
import AfkakProps.Open.C02
/-!
# No gap, no duplicate (C02): definitions and the facts about lists, `extract` and the monitor's block test
-/
namespace Afkak.Proofs.Consumer.A
open Afkak.Consumer Afkak.Monitor Afkak.Consts Afkak.Props.Open.C02 Afkak.Proofs.Consumer

/-- the no-gap monitor's state after everything the model has done -/
def gm (log : List Msg) (s : St) : C02.GapSt := runR (C02.gapStep log) {} s.out

/-- `q` continues the log after offset `l`: each message is the log entry following the previous one -/
def chainFrom (log : List Msg) : Int → List Msg → Prop
  | _, [] => True
  | l, x :: xs => C02.succIn log l = some x ∧ chainFrom log x.off xs

/-- the monitor accepts `x` as the head of the next block -/
def Acc (log : List Msg) (m : C02.GapSt) (x : Msg) : Prop :=
  (∃ l, m.last = some l ∧ C02.succIn log l = some x) ∨ (∃ f, m.from? = some f ∧ C02.firstFrom log f = some x)

theorem topOff_nil (l : Int) : topOff l [] = l := rfl

theorem lastOff_some : ∀ (y : Msg) (t : List Msg), ∃ v, lastOff (y :: t) = some v
  | y, [] => ⟨y.off, rfl⟩
  | _, z :: t => lastOff_some z t

theorem topOff_cons (l : Int) (x : Msg) (xs : List Msg) : topOff l (x :: xs) = topOff x.off xs := by
  cases xs with
  | nil => rfl
  | cons y t =>
    unfold topOff
    obtain ⟨v, hv⟩ := lastOff_some y t
    have : lastOff (x :: y :: t) = lastOff (y :: t) := rfl
    rw [this, hv]; rfl

theorem firstFrom_ge (log : List Msg) (off : Int) (x : Msg) (h : C02.firstFrom log off = some x) : off ≤ x.off := by
  unfold C02.firstFrom at h
  have hm : x ∈ log.filter (fun m => decide (off ≤ m.off)) := List.mem_of_mem_head? (by rw [h]; rfl)
  simpa using (List.mem_filter.1 hm).2

theorem succIn_gt (log : List Msg) (l : Int) (x : Msg) (h : C02.succIn log l = some x) : l + 1 ≤ x.off :=
  firstFrom_ge log (l + 1) x h

theorem gapRest_of_chain (log : List Msg) : ∀ (q : List Msg) (l : Int), chainFrom log l q → C02.gapRest log l q = some (topOff l q)
  | [], l, _ => rfl
  | x :: xs, l, h => by
    obtain ⟨h1, h2⟩ := h
    simp only [C02.gapRest, h1, beq_self_eq_true, if_true, topOff_cons]
    exact gapRest_of_chain log xs x.off h2

/-- the monitor's verdict on a block whose head it accepts and whose rest continues the log -/
theorem gapBlock_acc (log : List Msg) (m : C02.GapSt) (x : Msg) (xs : List Msg) (ha : Acc log m x) (hc : chainFrom log x.off xs) :
    (C02.gapBlock log m (x :: xs)).bad = m.bad ∧ (C02.gapBlock log m (x :: xs)).last = some (topOff x.off xs) ∧
      ((∃ l, m.last = some l ∧ C02.succIn log l = some x) → (C02.gapBlock log m (x :: xs)).from? = m.from?) ∧
      (C02.gapBlock log m (x :: xs)).savedFrom = m.savedFrom ∧ (C02.gapBlock log m (x :: xs)).savedLast = m.savedLast := by
  have hr := gapRest_of_chain log xs x.off hc
  simp only [C02.gapBlock, hr]
  rcases ha with ⟨l, h1, h2⟩ | ⟨f, h1, h2⟩
  · simp [h1, h2]
  · simp only [h1, h2, beq_self_eq_true]
    cases hl : m.last with
    | none => simp
    | some l' => by_cases hq : C02.succIn log l' = some x <;> simp [hq]

theorem chain_take_drop (log : List Msg) : ∀ (rest : List Msg) (n : Nat) (l : Int), chainFrom log l rest →
    chainFrom log l (rest.take n) ∧ chainFrom log (topOff l (rest.take n)) (rest.drop n) ∧
      topOff (topOff l (rest.take n)) (rest.drop n) = topOff l rest
  | rest, 0, l, h => by simp [chainFrom, topOff_nil, h]
  | [], n + 1, l, h => by simp [chainFrom, topOff_nil]
  | x :: xs, n + 1, l, h => by
    obtain ⟨h1, h2⟩ := h
    obtain ⟨i1, i2, i3⟩ := chain_take_drop log xs n x.off h2
    simp only [List.take_succ_cons, List.drop_succ_cons, topOff_cons]
    exact ⟨⟨h1, i1⟩, i2, i3⟩

theorem chainOk_cons (log : List Msg) : ∀ (ms : List Msg) (a : Msg), chainOk log (a :: ms) = true ↔ chainFrom log a.off ms
  | [], a => by simp [chainOk, chainFrom]
  | b :: t, a => by
    simp only [chainOk, chainFrom, Bool.and_eq_true, beq_iff_eq]
    rw [chainOk_cons log t b]

theorem chainOk_tail (log : List Msg) (a : Msg) (ms : List Msg) (h : chainOk log (a :: ms) = true) : chainOk log ms = true := by
  cases ms with
  | nil => rfl
  | cons b t => simp only [chainOk, Bool.and_eq_true] at h; exact h.2

/-- a list that continues the log after `l` is taken whole by the message loop from any position ≤ `l + 1` -/
theorem extract_chain (log : List Msg) : ∀ (ms : List Msg) (l fo : Int), chainFrom log l ms → fo ≤ l + 1 →
    extract fo ms = (ms, if ms = [] then fo else topOff l ms + 1)
  | [], l, fo, _, _ => rfl
  | x :: xs, l, fo, h, hle => by
    obtain ⟨h1, h2⟩ := h
    have hx := succIn_gt log l x h1
    have hnot : ¬ x.off < fo := by omega
    have ih := extract_chain log xs x.off (x.off + 1) h2 (Int.le_refl _)
    simp only [extract, hnot, if_false, ih, topOff_cons]
    cases xs with
    | nil => simp [topOff_nil]
    | cons y t => simp

/-- what the message loop takes from a faithful reply -/
theorem extract_faithful (log : List Msg) : ∀ (ms : List Msg) (fo : Int), chainOk log ms = true →
    ((extract fo ms).1 = [] ∧ (extract fo ms).2 = fo ∧ (ms.filter (fun m => decide (fo ≤ m.off))).head? = none) ∨
    ∃ x xs, (extract fo ms).1 = x :: xs ∧ chainFrom log x.off xs ∧
      (ms.filter (fun m => decide (fo ≤ m.off))).head? = some x ∧ (extract fo ms).2 = topOff x.off xs + 1
  | [], fo, _ => Or.inl ⟨rfl, rfl, rfl⟩
  | m :: rest, fo, hc => by
    by_cases hlt : m.off < fo
    · have hnf : ¬ fo ≤ m.off := by omega
      have ih := extract_faithful log rest fo (chainOk_tail log m rest hc)
      simpa [extract, hlt, List.filter_cons, hnf] using ih
    · have hf : fo ≤ m.off := by omega
      have hch := (chainOk_cons log rest m).1 hc
      have he := extract_chain log rest m.off (m.off + 1) hch (Int.le_refl _)
      refine Or.inr ⟨m, rest, ?_, hch, ?_, ?_⟩
      · simp [extract, hlt, he]
      · simp [hf]
      · simp only [extract, hlt, if_false, he]
        cases rest with
        | nil => simp [topOff_nil]
        | cons y t => simp

end Afkak.Proofs.Consumer.A
