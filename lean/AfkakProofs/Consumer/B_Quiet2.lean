import AfkakProofs.Consumer.B_Quiet1
import AfkakProofs.Consumer.InvC
/-!
# Quiescence after `stop()` without a consumer group, part 2: the fetch path, the processor's result, `stop()`,
`shutdown()`
-/
namespace Afkak.Proofs.Consumer.B
open Afkak.Consumer Afkak.Monitor Afkak.Consts Afkak.Proofs.Consumer

set_option linter.unusedSectionVars false

variable [EnvHyp]

theorem startErrback_startD (f : Fail) (s : St) : (startErrback f s).startD ≠ .none ↔ s.startD ≠ .none := by
  unfold startErrback; split <;> simp_all

section
variable {cfg : Cfg} (hg : cfg.group = false) {inner : Ops} (hin : OpsQ inner) (hc : OpsPN Calm inner)
include hg hin

omit hg hin in
theorem finishSimple_q (s : St) (h : QF s) (hp : s.proc = none) : QF (finishSimple s) := by
  unfold finishSimple; split
  · qf_leaf h
  · exact h

theorem deliverBlock_q (msgs : List Msg) (s : St) (h : QF s) (hp : s.proc = none) (hr : s.startD ≠ .none) :
    QF (deliverBlock cfg inner msgs s) := by
  unfold deliverBlock
  split
  · exact h
  · have h1 : QN { s with msgBlock := true } := ⟨by qf_leaf h, hp, fun _ _ => rfl⟩
    have h2 := procLoop_q hg hin (msgs.length + 1) msgs _ h1 hr
    simp only []
    generalize procLoop cfg inner (msgs.length + 1) msgs { s with msgBlock := true } = res at h2
    obtain ⟨s', done⟩ := res
    simp only []
    split
    · exact h2
    · rename_i hcnd
      apply finishSimple_q _ h2
      cases hq : s'.proc with
      | none => rfl
      | some g => simp [hq] at hcnd

omit hin in
/-- `_handle_fetch_error` when no uncancelled request is outstanding and no reply is parked -/
theorem handleFetchError_q (f : Fail) (s : St) (h : QF s) (hc1 : activeReq s.requestD = none) (hc2 : s.parked = none) :
    QF (handleFetchError cfg f s) := by
  unfold handleFetchError
  apply fetchErrorTail_pq
  qf_leaf h


omit hg hin in
theorem startErrback_qc (f : Fail) (s : St) (h : QF s) : QF (startErrback f s) := startErrback_pq f s h

include hc
/-- `_handle_fetch_response` once no block is in progress -/
theorem fetchTail_q (via : Bool) (r : Reply) (s : St) (h : QF s) (hp : s.proc = none) (hr : s.startD ≠ .none)
    (hc1 : activeReq s.requestD = none) (hc2 : s.parked = none) : QF (fetchTail cfg inner via r s) := by
  unfold fetchTail
  simp only []
  have h1 : QF { s with fetchOffset := (extract s.fetchOffset r.msgs).2 } := by qf_leaf h
  split
  · exact retryFetch_pq cfg _ _ (deliverBlock_q hg hin _ _ h1 hp hr)
  · split
    · rename_i b _
      have h2 : QF { s with fetchOffset := (extract s.fetchOffset r.msgs).2, bufferSize := b } := by qf_leaf h
      exact retryFetch_pq cfg _ _ (deliverBlock_q hg hin _ _ h2 hp hr)
    · have h2 := startErrback_pq .tooSmall _ h1
      have hp2 : (startErrback .tooSmall { s with fetchOffset := (extract s.fetchOffset r.msgs).2 }).proc = none :=
        (startErrback_proc _ _).trans hp
      have hr2 := (startErrback_startD .tooSmall { s with fetchOffset := (extract s.fetchOffset r.msgs).2 }).mpr hr
      have hk := startErrback_keeps' .tooSmall { s with fetchOffset := (extract s.fetchOffset r.msgs).2 }
      have h3 := deliverBlock_q hg hin (extract s.fetchOffset r.msgs).1 _ h2 hp2 hr2
      have hcalm : Calm (startErrback .tooSmall { s with fetchOffset := (extract s.fetchOffset r.msgs).2 }) :=
        ⟨hp2, by rw [hk.2.2.2.2.2.1]; exact hc1, hk.2.2.2.2.2.2.trans hc2⟩
      have h4 := deliverBlock_calm (cfg := cfg) hc (extract s.fetchOffset r.msgs).1 _ hcalm
      split
      · exact handleFetchError_q hg _ _ h3 h4.1 h4.2
      · exact h3
  · have h3 := deliverBlock_q hg hin (extract s.fetchOffset r.msgs).1 _ h1 hp hr
    have h4 := deliverBlock_calm (cfg := cfg) hc (extract s.fetchOffset r.msgs).1
      { s with fetchOffset := (extract s.fetchOffset r.msgs).2 } ⟨hp, hc1, hc2⟩
    split
    · exact h3
    · exact handleFetchError_q hg _ _ h3 h4.1 h4.2

/-- the event `fetchOk k r` -/
theorem ev_fetchOk_q (k : Nat) (r : Reply) (c : Bool) (s : St) (h : QF s) (hreq : s.requestD = .pending k .fetch c) :
    QF (handleFetchResponse cfg inner k r { s with out := .ev (.fetchOk k r) :: s.out }) := by
  unfold handleFetchResponse
  simp only []
  split
  · cases c <;> qf_leaf h
  · rename_i hrun
    have hrun' : s.startD ≠ .none := by simpa using hrun
    split
    · cases c <;> qf_leaf h
    · rename_i hmb
      unfold fetchBody
      have hmb' : s.msgBlock = false := by simpa using hmb
      have hp : s.proc = none := by
        cases hq : s.proc with
        | none => rfl
        | some g => have := h.procBlock (by simp [hq]); simp [hmb'] at this
      have hpk : s.parked = none := by
        cases hq : s.parked with
        | none => rfl
        | some g => have := h.parkedBlock (by simp [hq]); simp [hmb'] at this
      apply fetchTail_q hg hin hc
      · cases c <;> qf_leaf h
      · exact hp
      · exact hrun'
      · rfl
      · exact hpk

/-- End of `_process_messages` when resumed by the processor's result -/
theorem finishFull_q (s : St) (h : QF s) (hp : s.proc = none) : QF (finishFull cfg inner s) := by
  unfold finishFull
  split
  · simp only []
    split
    · rename_i r hpk
      have hpr := h.parkedReq (by simp [hpk])
      obtain ⟨k, hk⟩ := hpr
      split
      · qf_leaf h
      · rename_i hrun
        unfold fetchBody
        apply fetchTail_q hg hin hc
        · qf_leaf h
        · exact hp
        · simpa using hrun
        · rfl
        · rfl
    · qf_leaf h
  · exact h


end

/-! ## `stop()` -/

/-- what the phases of `stop()` that follow the cancellation of the request leave alone -/
def Fr (s s' : St) : Prop :=
  s'.requestD = s.requestD ∧ s'.parked = s.parked ∧ s'.retryCall = s.retryCall ∧ s'.startD = s.startD ∧
    s'.stopping = s.stopping ∧ s'.msgBlock = s.msgBlock

theorem procLoop_stopping (cfg : Cfg) (inner : Ops) (n : Nat) (rest : List Msg) (s : St) (hst : s.stopping = true) :
    procLoop cfg inner (n + 1) rest s = (s, true) := by
  unfold procLoop; simp [hst]

section
variable {cfg : Cfg} (hg : cfg.group = false) {inner : Ops}
include hg

omit hg in
/-- the shutdown continuation when `stop()` is what ended the wait: reports the cancellation, stops nothing -/
theorem shutdownFinish_stop_q (f : Fail) (s : St) (h : QF s) (hst : s.stopping = true) :
    QF (shutdownFinish inner (some f) s) ∧ Fr s (shutdownFinish inner (some f) s) ∧ (shutdownFinish inner (some f) s).proc = s.proc := by
  refine ⟨?_, ?_, ?_⟩
  · unfold shutdownFinish nestedStop crash
    simp only [hst, if_true]
    split <;> qf_leaf h
  · unfold Fr shutdownFinish nestedStop crash emit
    simp only [hst, if_true]
    split <;> simp
  · unfold shutdownFinish nestedStop crash emit
    simp only [hst, if_true]
    split <;> rfl

/-- `stop()` cancels the processor's Deferred -/
theorem procResult_stop_q (g : Gen) (s : St) (h : QF { s with proc := none }) (hst : s.stopping = true) (hmb : s.msgBlock = false) :
    QF (procResult cfg inner g (some (.ext .cancelled 0)) s) ∧ Fr s (procResult cfg inner g (some (.ext .cancelled 0)) s) ∧
      (procResult cfg inner g (some (.ext .cancelled 0)) s).proc = none := by
  have e1 : procFired cfg g (some (.ext .cancelled 0)) s = { s with proc := none } := by
    simp [procFired, handleProcessorError, hst, Fail.isCancelled]
  have e2 : procErrPassed (.ext .cancelled 0) s = false := by simp [procErrPassed, hst, Fail.isCancelled]
  have e3 : procResume cfg inner g false { s with proc := none } = { s with proc := none } := by
    unfold procResume
    simp only [Bool.false_eq_true, if_false]
    rw [procLoop_stopping cfg inner _ _ _ (by exact hst)]
    simp [finishFull, hmb]
  unfold procResult
  simp only [e1, e2, e3]
  split
  · have e4 : commitAndStop cfg inner { s with proc := none } =
        shutdownFinish inner (some (.ext .cancelled 0)) { s with proc := none } := by
      unfold commitAndStop commitAndStop1
      rw [if_pos (by exact hst)]
    rw [e4]
    obtain ⟨a, b, c⟩ := shutdownFinish_stop_q (inner := inner) (.ext .cancelled 0) { s with proc := none } h hst
    exact ⟨a, b, c⟩
  · exact ⟨h, ⟨rfl, rfl, rfl, rfl, rfl, rfl⟩, rfl⟩


omit hg in
theorem handleOffsetError_q (f : Fail) (s : St) (h : QF s) (hc1 : activeReq s.requestD = none) (hc2 : s.parked = none) :
    QF (handleOffsetError cfg f s) := by
  unfold handleOffsetError
  apply offsetErrorTail_pq
  qf_leaf h

theorem stopReq_q (s : St) (h : QF s) : QF (stopReq cfg s) := by
  unfold stopReq
  split
  · rename_i k kind c hreq
    have hpk : s.parked = none := by
      cases hq : s.parked with
      | none => rfl
      | some r => obtain ⟨k', hk'⟩ := h.parkedReq (by simp [hq]); rw [hk'] at hreq; cases hreq
    have h1 : QF { emit (.cancelReq k) s with requestD := .pending k kind true } := by cases c <;> qf_leaf h
    simp only []
    split
    · split
      · exact handleFetchError_q hg _ _ h1 rfl hpk
      · exact handleOffsetError_q _ _ h1 rfl hpk
    · exact h1
  · exact h

/-- `stop()`: the block of messages, then the processor's Deferred -/
theorem stopBlockProc_q (s : St) (h : QF s) (hst : s.stopping = true) (ha : activeReq s.requestD = none) :
    QF (stopBlockProc cfg inner s) ∧ (stopBlockProc cfg inner s).proc = none ∧
      activeReq (stopBlockProc cfg inner s).requestD = none ∧ (stopBlockProc cfg inner s).parked = none ∧
      (stopBlockProc cfg inner s).retryCall = s.retryCall ∧ (stopBlockProc cfg inner s).startD = s.startD := by
  have hb := stopBlock_facts s
  have hbp := stopBlock_proc s
  have hbk : (stopBlock s).parked = none ∧ activeReq (stopBlock s).requestD = none ∧ (stopBlock s).retryCall = s.retryCall ∧
      (stopBlock s).startD = s.startD := by
    unfold stopBlock
    split
    · refine ⟨rfl, ?_, rfl, rfl⟩
      simp only []
      split
      · rfl
      · exact ha
    · rename_i hmb
      refine ⟨?_, ha, rfl, rfl⟩
      cases hq : s.parked with
      | none => rfl
      | some r => have := h.parkedBlock (by simp [hq]); simp [this] at hmb
  unfold stopBlockProc
  split
  · rename_i g hg'
    have h1 : QF { emit .procCancel (stopBlock s) with proc := none } := by
      rw [hbp] at hg'
      unfold stopBlock
      split <;> qf_leaf h
    obtain ⟨a, b, c⟩ := procResult_stop_q (cfg := cfg) (inner := inner) hg g (emit .procCancel (stopBlock s)) h1
      (by show (stopBlock s).stopping = true; rw [hb.1]; exact hst) (by show (stopBlock s).msgBlock = false; exact hb.2)
    refine ⟨a, c, ?_, ?_, ?_, ?_⟩
    · rw [b.1]; exact hbk.2.1
    · rw [b.2.1]; exact hbk.1
    · rw [b.2.2.1]; exact hbk.2.2.1
    · rw [b.2.2.2.1]; exact hbk.2.2.2
  · rename_i hn
    refine ⟨?_, hn, hbk.2.1, hbk.1, hbk.2.2.1, hbk.2.2.2⟩
    rw [hbp] at hn
    unfold stopBlock
    split <;> qf_leaf h

omit hg in
theorem cancelWaiters_nil (n : Nat) (s : St) (h : s.commitDs = []) : cancelWaiters cfg inner (n + 1) s = s := by
  unfold cancelWaiters; simp [h]

omit hg in
theorem stopCommitReq_none (s : St) (h : s.commitReq = none) : stopCommitReq cfg inner s = s := by
  unfold stopCommitReq; simp [h]

omit hg in
theorem stopTimers_none (s : St) (h1 : ∀ d dl a, s.commitCall ≠ .pending d dl a) (h2 : s.looper = none) : stopTimers s = s := by
  unfold stopTimers
  cases hcc : s.commitCall with
  | pending d dl a => exact absurd hcc (h1 d dl a)
  | none => simp [h2]
  | dead => simp [h2]

omit hg in
theorem stopFinish_q (s : St) (h : QF s) (hr : retryPending s.retryCall = false) (ha : activeReq s.requestD = none)
    (hpk : s.parked = none) (hp : s.proc = none) :
    QF (stopFinish s) ∧ (stopFinish s).startD = .none ∧ (stopFinish s).proc = none := by
  unfold stopFinish crash
  simp only []
  split
  · exact ⟨by qf_leaf h, rfl, hp⟩
  · exact ⟨by qf_leaf h, rfl, hp⟩
  · rename_i hn
    exact ⟨by qf_leaf h, hn, hp⟩


omit hg in
theorem stopRetry_q (s : St) (h : QF s) : QF (stopRetry s) ∧ retryPending (stopRetry s).retryCall = false ∧
    (stopRetry s).proc = s.proc ∧ (stopRetry s).requestD = s.requestD ∧ (stopRetry s).parked = s.parked := by
  unfold stopRetry
  split
  · exact ⟨by qf_leaf h, rfl, rfl, rfl, rfl⟩
  · rename_i hn
    refine ⟨h, ?_, rfl, rfl, rfl⟩
    cases hq : s.retryCall with
    | pending d => exact absurd hq (hn d)
    | none => rfl
    | dead => rfl

/-- `stop()`, from ANY state the invariant holds in: the invariant holds afterwards, the consumer is stopped and no
    generator is suspended -/
theorem stopCore_q (s : St) (h : QF s) :
    QF (stopCore cfg inner s) ∧ (stopCore cfg inner s).startD = .none ∧ (stopCore cfg inner s).proc = none := by
  have h0 : QF { s with stopping := true } := by qf_leaf h
  have h1 := stopReq_q hg _ h0
  have a1 := stopReq_calm cfg { s with stopping := true }
  have k1 := stopReq_keeps0 cfg { s with stopping := true }
  obtain ⟨h2, p2, a2, pk2, _, _⟩ := stopBlockProc_q hg (inner := inner) _ h1 k1.2.1 a1
  obtain ⟨h3, r3, p3, q3, pk3⟩ := stopRetry_q _ h2
  unfold stopCore
  simp only []
  generalize stopRetry (stopBlockProc cfg inner (stopReq cfg { s with stopping := true })) = s3 at h3 r3 p3 q3 pk3
  rw [cancelWaiters_nil _ _ h3.ds, stopCommitReq_none _ h3.cr, stopTimers_none _ h3.cc h3.lp]
  exact stopFinish_q _ h3 r3 (by rw [q3]; exact a2) (pk3.trans pk2) (p3.trans p2)

omit hg in
/-- after a completed `stop()` the monitor's lists are empty -/
theorem stopped_quiet (s : St) (h : QF s) (hs : s.startD = .none) :
    retryPending s.retryCall = false ∧ activeReq s.requestD = none ∧ s.proc = none := by
  refine ⟨?_, ?_, ?_⟩
  · cases hq : retryPending s.retryCall with
    | false => rfl
    | true => exact absurd hs (h.retryRun hq)
  · cases hq : activeReq s.requestD with
    | none => rfl
    | some k => exact absurd hs (h.reqRun k hq)
  · cases hq : s.proc with
    | none => rfl
    | some g => exact absurd hs (h.procRun (by simp [hq]))

/-- `stop()` as an API call -/
theorem stop_q (s : St) (h : QF s) : QF (stop cfg inner s) ∧ (s.proc = none → (stop cfg inner s).proc = none) ∧
    ((stop cfg inner s).startD = .none) := by
  unfold stop
  split
  · rename_i hn
    have hn' : s.startD = .none := by simpa using hn
    exact ⟨by qf_leaf h, fun hp => hp, hn'⟩
  · obtain ⟨h1, s1, p1⟩ := stopCore_q hg (inner := inner) s h
    obtain ⟨q1, q2, q3⟩ := stopped_quiet _ h1 s1
    simp only []
    generalize stopCore cfg inner s = s' at h1 s1 p1 q1 q2 q3
    exact ⟨by qf_leaf h1, fun _ => p1, s1⟩

theorem stop_pn : PN' (stop cfg inner) := by
  intro s h
  obtain ⟨a, b, c⟩ := stop_q hg (inner := inner) s h.1
  exact ⟨a, b h.2.1, fun hne => absurd c hne⟩

/-- `inner.stopCore` behaves like `stop()`'s body -/
def OpsS (inner : Ops) : Prop :=
  ∀ s, QF s → QF (inner.stopCore s) ∧ (inner.stopCore s).startD = .none ∧ (inner.stopCore s).proc = none

/-- what the caller of a shutdown continuation needs to know about the state it returns -/
def After (s s' : St) : Prop :=
  (s.proc = none → s'.proc = none) ∧
    (s'.startD = .none ∨ (s'.startD = s.startD ∧ s'.stopping = s.stopping ∧ s'.msgBlock = s.msgBlock))

omit hg in
/-- the tail of the shutdown continuations, when they are NOT run by `stop()` itself -/
theorem shutdownFinish_q (hs : OpsS inner) (r : Option Fail) (s : St) (h : QF s) (hst : s.stopping = false) :
    QF (shutdownFinish inner r s) ∧ After s (shutdownFinish inner r s) := by
  have h1 : QF { s with shutdownD := false } := by qf_leaf h
  have h2 : QF (nestedStop inner { s with shutdownD := false }) ∧ (nestedStop inner { s with shutdownD := false }).startD = .none ∧
      (s.proc = none → (nestedStop inner { s with shutdownD := false }).proc = none) := by
    unfold nestedStop
    rw [if_neg (by simp [hst])]
    split
    · rename_i hn
      have hn' : s.startD = .none := by simpa using hn
      exact ⟨crash_pq _ _ h1, hn', fun hp => hp⟩
    · obtain ⟨a, b, c⟩ := hs _ h1
      exact ⟨a, b, fun _ => c⟩
  obtain ⟨a, b, c⟩ := h2
  obtain ⟨q1, q2, q3⟩ := stopped_quiet _ a b
  unfold shutdownFinish
  simp only []
  generalize nestedStop inner { s with shutdownD := false } = s2 at a b c q1 q2 q3
  unfold crash
  split
  · exact ⟨by qf_leaf a, c, Or.inl b⟩
  · split
    · exact ⟨by qf_leaf a, c, Or.inl b⟩
    · exact ⟨by qf_leaf a, c, Or.inl b⟩

/-- `_commit_and_stop` without a consumer group -/
theorem commitAndStop_q (hs : OpsS inner) (s : St) (h : QF s) :
    QF (commitAndStop cfg inner s) ∧ After s (commitAndStop cfg inner s) := by
  unfold commitAndStop commitAndStop1
  split
  · rename_i hst
    obtain ⟨a, b, c⟩ := shutdownFinish_stop_q (inner := inner) (.ext .cancelled 0) s h hst
    exact ⟨a, fun hp => c.trans hp, Or.inr ⟨b.2.2.2.1, b.2.2.2.2.1, b.2.2.2.2.2⟩⟩
  · rename_i hst
    rw [if_pos (by simp [hg])]
    exact shutdownFinish_q hs none s h (by simpa using hst)

/-- `shutdown()` -/
theorem shutdown_q (hs : OpsS inner) (s : St) (h : QF s) :
    QF (shutdown cfg inner s) ∧ After s (shutdown cfg inner s) := by
  unfold shutdown
  split
  · exact ⟨by qf_leaf h, fun hp => hp, Or.inr ⟨rfl, rfl, rfl⟩⟩
  · split
    · exact ⟨by qf_leaf h, fun hp => hp, Or.inr ⟨rfl, rfl, rfl⟩⟩
    · simp only []
      split
      · rename_i g hp
        refine ⟨by qf_leaf h, fun hp' => ?_, Or.inr ⟨rfl, rfl, rfl⟩⟩
        simp [hp] at hp'
      · have h1 : QF { s with shuttingDown := true, shutdownD := true } := by qf_leaf h
        obtain ⟨a, b, c⟩ := commitAndStop_q hg hs _ h1
        exact ⟨a, b, c⟩

theorem shutdown_pn (hs : OpsS inner) : PN' (shutdown cfg inner) := by
  intro s h
  obtain ⟨a, b, c⟩ := shutdown_q hg hs s h.1
  refine ⟨a, b h.2.1, fun hne hst => ?_⟩
  rcases c with c | ⟨c1, c2, c3⟩
  · exact absurd c hne
  · rw [c3]; exact h.2.2 (by rw [← c1]; exact hne) (by rw [← c2]; exact hst)

theorem commitUser_pn : PN' (commitUser cfg) := by
  intro s h
  refine ⟨commitUser_pq cfg hg s h.1, ?_, ?_⟩
  · have e1 : commitResult cfg .user s = some (.err .invalidGroup) := by simp [commitResult, hg]
    have e2 : commitState cfg .user s = s := by simp [commitState, hg]
    unfold commitUser; simp only [e1, e2]; exact h.2.1
  · have e1 : commitResult cfg .user s = some (.err .invalidGroup) := by simp [commitResult, hg]
    have e2 : commitState cfg .user s = s := by simp [commitState, hg]
    unfold commitUser; simp only [e1, e2]; exact h.2.2

end

end Afkak.Proofs.Consumer.B
