import AfkakProofs.Consumer.A5_Progress4
/-!
# C02, liveness half (5): what the processing loop, `_process_messages`, `_retry_fetch`, the error handlers and
`_handle_fetch_response` do to a running consumer
-/
namespace Afkak.Proofs.Consumer.L
open Afkak.Consumer

/-- iterating the reply's messages does not raise (ConsumerFetchSizeTooSmall, which the consumer handles, aside) -/
def noRaiseR (r : Reply) : Bool :=
  match r.tail with
  | .raise _ _ => false
  | _ => true

theorem startErrback_nr (f : Fail) (s : St) : Running (startErrback f s) = true → Running s = true ∧ False := by
  unfold startErrback
  split
  · intro h; simp [Running] at h
  · rename_i hne
    intro h
    exfalso
    simp only [Running, Bool.and_eq_true, beq_iff_eq] at h
    exact hne h.1.1.2

theorem startErrback_nr' (f : Fail) (s : St) : Running (startErrback f s) = false := by
  cases h : Running (startErrback f s)
  · rfl
  · exact (startErrback_nr f s h).2.elim

theorem handleProcessorError_nr (f : Fail) (s : St) : Running (handleProcessorError f s) = false := by
  unfold handleProcessorError
  split
  · rename_i h
    simp only [Bool.and_eq_true] at h
    simp [Running, h.1]
  · exact startErrback_nr' f s

/-- the processing loop: a running result comes from a running start, with the request, the timer, the block flag and
    the parked reply untouched; either the generator is suspended on the processor's Deferred or it is as before and the
    loop has finished -/
def PL (s : St) (r : St × Bool) : Prop :=
  Running r.1 = true → Running s = true ∧ r.1.requestD = s.requestD ∧ r.1.retryCall = s.retryCall ∧
    r.1.msgBlock = s.msgBlock ∧ r.1.parked = s.parked ∧ (r.1.proc.isSome = true ∨ (r.1.proc = s.proc ∧ r.2 = true))

theorem PL.of_fr {s s' : St} (h : Fr s s') : PL s (s', true) := by
  intro hr
  obtain ⟨a, b, c, d, e, f⟩ := h hr
  exact ⟨a, b, c, e, f, Or.inr ⟨d, rfl⟩⟩

theorem PL.of_nr {s s' : St} {b : Bool} (h : Running s' = false) : PL s (s', b) := by
  intro hr; rw [h] at hr; cases hr

theorem PL.left {s s1 : St} {r : St × Bool} (h1 : Fr s s1) (h2 : PL s1 r) : PL s r := by
  intro hr
  obtain ⟨a, b, c, d, e, f⟩ := h2 hr
  obtain ⟨a', b', c', d', e', f'⟩ := h1 a
  refine ⟨a', b.trans b', c.trans c', d.trans e', e.trans f', ?_⟩
  rcases f with f | ⟨f, g⟩
  · exact Or.inl f
  · exact Or.inr ⟨f.trans d', g⟩

section
variable {cfg : Cfg} {inner : Ops} (hin : OpsFr inner)
include hin

theorem procBody_pl (k : St → St × Bool) (hk : ∀ x, PL x (k x)) (blk rest' : List Msg) (last : Int) (e : PEntry) (s : St) :
    PL s (procBody cfg inner k blk rest' last e s) := by
  have h1 : Fr s (procEnter blk rest' last s) := by unfold procEnter; fr_close
  have h2 : Fr s (procActs inner e.acts (procEnter blk rest' last s)) := h1.trans (procActs_fr hin _ _)
  unfold procBody
  generalize procActs inner e.acts (procEnter blk rest' last s) = s2 at h2 ⊢
  cases hres : e.res with
  | ok =>
    dsimp only
    have h3 : Fr s (autoCommit cfg true (procLeave .ok rest' last s2)) :=
      (h2.trans (show Fr s2 (procLeave .ok rest' last s2) by unfold procLeave; fr_close)).trans (autoCommit_fr _ _ _)
    split
    · exact PL.of_fr h3
    · exact PL.left h3 (hk _)
  | err kd t =>
    dsimp only
    have hn := handleProcessorError_nr (.ext kd t) (procLeave (.err kd t) rest' last s2)
    split
    · exact PL.of_nr hn
    split
    · exact PL.of_nr hn
    · exact PL.left (Fr.of_nr hn) (hk _)
  | defer =>
    dsimp only
    split
    · -- the generator is suspended
      rename_i hp
      intro hr
      have hfields : Running (procLeave .defer rest' last s2) = Running s2 ∧
          (procLeave .defer rest' last s2).requestD = s2.requestD ∧ (procLeave .defer rest' last s2).retryCall = s2.retryCall ∧
          (procLeave .defer rest' last s2).msgBlock = s2.msgBlock ∧ (procLeave .defer rest' last s2).parked = s2.parked := by
        unfold procLeave; dsimp only; split <;> exact ⟨rfl, rfl, rfl, rfl, rfl⟩
      obtain ⟨f1, f2, f3, f4, f5⟩ := hfields
      have hr2 : Running s2 = true := by rw [← f1]; exact hr
      obtain ⟨a, b, c, d, e', f⟩ := h2 hr2
      exact ⟨a, f2.trans b, f3.trans c, f4.trans e', f5.trans f, Or.inl hp⟩
    · exact PL.of_nr (handleProcessorError_nr _ _)

theorem procLoop_pl : ∀ (fuel : Nat) (rest : List Msg) (s : St), PL s (procLoop cfg inner fuel rest s)
  | 0, _, s => PL.of_fr (Fr.refl s)
  | fuel + 1, rest, s => by
    unfold procLoop
    split
    · exact PL.of_fr (Fr.refl s)
    split
    · exact PL.of_fr (Fr.refl s)
    · exact procBody_pl hin _ (fun x => procLoop_pl fuel _ x) _ _ _ _ s

/-- `_process_messages` started on extracted messages -/
def DB (s s' : St) : Prop :=
  Running s' = true → Running s = true ∧ s'.requestD = s.requestD ∧ s'.retryCall = s.retryCall ∧
    ((s'.proc.isSome = true ∧ s'.msgBlock = true ∧ s'.parked = s.parked) ∨
     (s'.proc = s.proc ∧ s'.msgBlock = s.msgBlock ∧ s'.parked = s.parked) ∨
     (s'.proc = s.proc ∧ s'.msgBlock = false ∧ s'.parked = none))

theorem deliverBlock_db (msgs : List Msg) (s : St) : DB s (deliverBlock cfg inner msgs s) := by
  unfold deliverBlock
  split
  · intro h; exact ⟨h, rfl, rfl, Or.inr (Or.inl ⟨rfl, rfl, rfl⟩)⟩
  · dsimp only
    have hpl := procLoop_pl (cfg := cfg) hin (msgs.length + 1) msgs { s with msgBlock := true }
    generalize procLoop cfg inner (msgs.length + 1) msgs { s with msgBlock := true } = res at hpl
    obtain ⟨s2, done⟩ := res
    dsimp only
    split
    · rename_i hc
      intro hr
      obtain ⟨a, b, c, d, e, f⟩ := hpl hr
      refine ⟨a, b, c, ?_⟩
      rcases f with f | ⟨f, g⟩
      · exact Or.inl ⟨f, d, e⟩
      · dsimp only at g
        subst g
        simp only [Bool.not_true, Bool.or_false] at hc
        exact Or.inl ⟨hc, d, e⟩
    · rename_i hc
      simp only [Bool.or_eq_true, Bool.not_eq_true', not_or, Bool.not_eq_true, Bool.not_eq_false] at hc
      intro hr
      have hr2 : Running s2 = true := by
        unfold finishSimple at hr; split at hr <;> exact hr
      obtain ⟨a, b, c, d, e, f⟩ := hpl hr2
      have hmb : s2.msgBlock = true := d
      unfold finishSimple
      simp only [hmb, if_true]
      refine ⟨a, b, c, Or.inr (Or.inr ⟨?_, trivial, trivial⟩)⟩
      rcases f with f | ⟨f, _⟩
      · rw [hc.1] at f; cases f
      · exact f

end

/-- `_retry_fetch` -/
theorem retryFetch_spec (cfg : Cfg) (a : Option Rat) (s : St) :
    Running (retryFetch cfg a s) = Running s ∧ (retryFetch cfg a s).requestD = s.requestD ∧
      (retryFetch cfg a s).proc = s.proc ∧ (retryFetch cfg a s).msgBlock = s.msgBlock ∧ (retryFetch cfg a s).parked = s.parked ∧
      (Running s = true → s.retryCall = .none → timerPending (retryFetch cfg a s).retryCall = true) := by
  unfold retryFetch
  split
  · rename_i h
    refine ⟨rfl, rfl, rfl, rfl, rfl, fun hr => ?_⟩
    exfalso
    simp only [Running, Bool.and_eq_true, Bool.not_eq_true', beq_iff_eq] at hr
    simp only [Bool.or_eq_true, beq_iff_eq] at h
    rcases h with (h | h) | h
    · rw [hr.2] at h; cases h
    · rw [hr.1.2] at h; cases h
    · rw [hr.1.1.2] at h; cases h
  · split
    · dsimp only
      refine ⟨?_, ?_, ?_, ?_, ?_, fun _ _ => rfl⟩ <;> split <;> rfl
    · rename_i hne
      exact ⟨rfl, rfl, rfl, rfl, rfl, fun _ h0 => absurd h0 (by simpa using hne)⟩

theorem running_startD {s : St} (h : Running s = true) : s.startD = .pending := by
  simp only [Running, Bool.and_eq_true, beq_iff_eq] at h; exact h.1.1.2
theorem running_stopping {s : St} (h : Running s = true) : s.stopping = false := by
  simp only [Running, Bool.and_eq_true, Bool.not_eq_true'] at h; exact h.2

/-- the common tail of `_handle_fetch_error` / `_handle_offset_error`: report, or schedule the retry -/
def ErrSpec (s s' : St) : Prop :=
  Running s' = true → Running s = true ∧ s'.requestD = s.requestD ∧ s'.proc = s.proc ∧ s'.msgBlock = s.msgBlock ∧
    s'.parked = s.parked ∧ (s.retryCall = .none → timerPending s'.retryCall = true)

theorem ErrSpec.of_nr {s s' : St} (h : Running s' = false) : ErrSpec s s' := by
  intro hr; rw [h] at hr; cases hr

theorem ErrSpec.retry (cfg : Cfg) (a : Option Rat) (s : St) : ErrSpec s (retryFetch cfg a s) := by
  obtain ⟨r1, r2, r3, r4, r5, r6⟩ := retryFetch_spec cfg a s
  intro hr
  rw [r1] at hr
  exact ⟨hr, r2, r3, r4, r5, r6 hr⟩

theorem fetchErrorTail_spec (cfg : Cfg) (f : Fail) (s : St) : ErrSpec s (fetchErrorTail cfg f s) := by
  unfold fetchErrorTail
  split
  · rename_i h
    apply ErrSpec.of_nr
    simp only [beq_iff_eq] at h
    simp [Running, h]
  split
  · exact ErrSpec.of_nr (startErrback_nr' _ _)
  dsimp only
  have key : ∀ x : St, Running x = Running s → x.requestD = s.requestD → x.proc = s.proc → x.msgBlock = s.msgBlock →
      x.parked = s.parked → x.retryCall = s.retryCall →
      ErrSpec s (if x.stopping = true then x else if (cfg.maxAttempts != 0 && decide (x.attempts ≥ cfg.maxAttempts)) = true
        then startErrback f x else retryFetch cfg none x) := by
    intro x e1 e2 e3 e4 e5 e6
    split
    · rename_i h
      apply ErrSpec.of_nr
      simp [Running, h]
    split
    · exact ErrSpec.of_nr (startErrback_nr' _ _)
    · intro hr
      obtain ⟨a, b, c, d, e, g⟩ := ErrSpec.retry cfg none x hr
      exact ⟨e1 ▸ a, b.trans e2, c.trans e3, d.trans e4, e.trans e5, fun h0 => g (e6.trans h0)⟩
  split
  · exact key _ rfl rfl rfl rfl rfl rfl
  · exact key _ rfl rfl rfl rfl rfl rfl

theorem handleFetchError_spec (cfg : Cfg) (f : Fail) (s : St) :
    Running (handleFetchError cfg f s) = true → Running s = true ∧ (handleFetchError cfg f s).requestD = .none ∧
      (handleFetchError cfg f s).proc = s.proc ∧ (handleFetchError cfg f s).msgBlock = s.msgBlock ∧
      (handleFetchError cfg f s).parked = s.parked ∧ (s.retryCall = .none → timerPending (handleFetchError cfg f s).retryCall = true) := by
  unfold handleFetchError
  exact fetchErrorTail_spec cfg f { s with requestD := .none }

theorem offsetErrorTail_spec (cfg : Cfg) (f : Fail) (s : St) : ErrSpec s (offsetErrorTail cfg f s) := by
  unfold offsetErrorTail
  split
  · rename_i h
    apply ErrSpec.of_nr
    simp only [beq_iff_eq] at h
    simp [Running, h]
  split
  · rename_i h
    apply ErrSpec.of_nr
    simp [Running, h]
  split
  · exact ErrSpec.of_nr (startErrback_nr' _ _)
  · exact ErrSpec.retry cfg none s

theorem handleOffsetError_spec (cfg : Cfg) (f : Fail) (s : St) :
    Running (handleOffsetError cfg f s) = true → Running s = true ∧ (handleOffsetError cfg f s).requestD = .none ∧
      (handleOffsetError cfg f s).proc = s.proc ∧ (handleOffsetError cfg f s).msgBlock = s.msgBlock ∧
      (handleOffsetError cfg f s).parked = s.parked ∧ (s.retryCall = .none → timerPending (handleOffsetError cfg f s).retryCall = true) := by
  unfold handleOffsetError
  exact offsetErrorTail_spec cfg f { s with requestD := .none }

/-- `_do_fetch`: the retry timer reference is cleared … -/
def cleared (s : St) : St :=
  match s.retryCall with
  | .pending _ => { emit (.cancelTimer .retry) s with retryCall := .none }
  | _ => { s with retryCall := .none }

/-- … and the request for the current position goes out -/
def issue (cfg : Cfg) (s : St) : St :=
  if s.fetchOffset == Afkak.Consts.offsetEarliest || s.fetchOffset == Afkak.Consts.offsetLatest then
    { emit (.offsets s.nextReq s.fetchOffset) s with requestD := .pending s.nextReq .offsets false, nextReq := s.nextReq + 1 }
  else if s.fetchOffset == Afkak.Consts.offsetCommitted then
    let raised := !cfg.group && errbackRaises s
    let s := if cfg.group then s else startErrback .invalidGroup s
    if raised then s else
    { emit (.offsetFetch s.nextReq) s with requestD := .pending s.nextReq .offsetFetch false, nextReq := s.nextReq + 1 }
  else
    { emit (.fetch s.nextReq s.fetchOffset s.bufferSize) s with requestD := .pending s.nextReq .fetch false, nextReq := s.nextReq + 1 }

theorem doFetch_none (cfg : Cfg) (s : St) (h : s.requestD = .none) : doFetch cfg s = issue cfg (cleared s) := by
  unfold doFetch issue cleared
  rw [h]
  rfl

theorem cleared_spec (s : St) : Running (cleared s) = Running s ∧ (cleared s).retryCall = .none ∧ (cleared s).proc = s.proc ∧
    (cleared s).msgBlock = s.msgBlock ∧ (cleared s).parked = s.parked := by
  unfold cleared; split <;> exact ⟨rfl, rfl, rfl, rfl, rfl⟩

theorem issue_spec (cfg : Cfg) (x : St) :
    Running (issue cfg x) = true → Running x = true ∧ reqPending (issue cfg x).requestD = true ∧
      (issue cfg x).retryCall = x.retryCall ∧ (issue cfg x).proc = x.proc ∧ (issue cfg x).msgBlock = x.msgBlock ∧
      (issue cfg x).parked = x.parked := by
  unfold issue
  split
  · intro hr; exact ⟨hr, rfl, rfl, rfl, rfl, rfl⟩
  split
  · cases hg : cfg.group
    · intro hr
      exfalso
      have hn := startErrback_nr' .invalidGroup x
      simp only [Bool.not_false, Bool.true_and, Bool.false_eq_true, if_false] at hr
      split at hr
      · rw [hn] at hr; cases hr
      · have : Running (startErrback .invalidGroup x) = true := hr
        rw [hn] at this; cases this
    · simp only [Bool.not_true, Bool.false_and, Bool.false_eq_true, if_false, if_true]
      intro hr; exact ⟨hr, rfl, rfl, rfl, rfl, rfl⟩
  · intro hr; exact ⟨hr, rfl, rfl, rfl, rfl, rfl⟩

/-- `_do_fetch` with no request outstanding: a request goes out (or the start Deferred fails) -/
theorem doFetch_spec (cfg : Cfg) (s : St) (hreq : s.requestD = .none) :
    Running (doFetch cfg s) = true → Running s = true ∧ reqPending (doFetch cfg s).requestD = true ∧
      (doFetch cfg s).retryCall = .none ∧ (doFetch cfg s).proc = s.proc ∧ (doFetch cfg s).msgBlock = s.msgBlock ∧
      (doFetch cfg s).parked = s.parked := by
  rw [doFetch_none cfg s hreq]
  intro hr
  obtain ⟨a, b, c, d, e, f⟩ := issue_spec cfg (cleared s) hr
  obtain ⟨c1, c2, c3, c4, c5⟩ := cleared_spec s
  exact ⟨c1 ▸ a, b, c.trans c2, d.trans c3, e.trans c4, f.trans c5⟩

end Afkak.Proofs.Consumer.L
