import AfkakProofs.Consumer.E_3
/-!
# C03 `commit()` reports (`C03.crStep`): every event keeps `He True`; hence every reachable state satisfies it

Between two events the monitor's window (`inCommit`) may be open (a `commit()` call was the last event), so the invariant
of reachable states is `He True`.  Every event item `.ev e` other than `.ev .commit` closes the window, the handler then
runs under `He False`; `commit` runs under `He True` (`commitUser_e`).
-/
namespace Afkak.Proofs.Consumer.A5
open Afkak.Consumer Afkak.Monitor Afkak.Consts Afkak.Proofs.Consumer Afkak.Proofs.Consumer.E

/-- pushing the item of an event other than `commit` / `procOk` closes the window and changes nothing else -/
theorem pre_e (e : Ev) (h1 : e ≠ .commit) (h2 : e ≠ .procOk) {s s' : St} (hs : He True s)
    (ho : s'.out = .ev e :: s.out) (hl : s'.lastProcessed = s.lastProcessed) (hf : s'.frame = s.frame)
    (hp : s'.proc = s.proc) : He False s' := by
  obtain ⟨c1, c2, c3a, c3b, c4⟩ := hs
  constructor <;> simp only [crm, ho, hl, hf, hp, runR_cons] at * <;>
    cases e <;> simp only [C03.crStep, procTrack] at * <;> grind

theorem pre_commit {s : St} (hs : He True s) : He True { s with out := .ev .commit :: s.out } := by
  obtain ⟨c1, c2, c3a, c3b, c4⟩ := hs
  constructor <;> simp only [crm, runR_cons, C03.crStep, procTrack] at * <;> grind

section
variable {cfg : Cfg}

theorem ev_start_e (off : Int) {s : St} (hs : He True s) :
    He False (start cfg off { s with out := .ev (.start off) :: s.out }) := by
  have h0 : He False { s with out := .ev (.start off) :: s.out } :=
    pre_e (.start off) (by simp) (by simp) hs rfl rfl rfl rfl
  unfold start
  split
  · unfold emit; he_fields h0
  · simp only []
    have h1 : He False { ({ s with out := .ev (.start off) :: s.out } : St) with startD := .pending, fetchOffset := off } := by
      he_fields h0
    have h2 := doFetch_e cfg False _ h1
    split
    · have := h2.1
      unfold emit; he_fields this
    · exact h2.1

theorem handleOffsetResponse_e (isFetch : Bool) (off : Int) : PresH False (handleOffsetResponse cfg isFetch off) := by
  intro s hs
  have hx := HRel.refl hs
  unfold handleOffsetResponse offsetResponseTail
  simp only []
  split
  · eleaf hx
  · refine (doFetch_e cfg False).step ?_
    repeat' split
    all_goals eleaf hx

theorem ev_fetchOk_e (hin : OpsE (opsN cfg cfg.depth)) (k : Nat) (r : Reply) {s : St} (hs : He True s) (ht : A.TopF s) :
    He False (handleFetchResponse cfg (opsN cfg cfg.depth) k r { s with out := .ev (.fetchOk k r) :: s.out }) := by
  have h0 : He False { s with out := .ev (.fetchOk k r) :: s.out } :=
    pre_e (.fetchOk k r) (by simp) (by simp) hs rfl rfl rfl rfl
  unfold handleFetchResponse
  split
  · he_fields h0
  · simp only []
    split
    · he_fields h0
    · rename_i hmb
      have hmb' : s.msgBlock = false := by simpa using hmb
      have hp : s.proc = none := by
        cases hpp : s.proc with
        | none => rfl
        | some g =>
          have := ht.procBlock (by rw [hpp]; rfl)
          rw [hmb'] at this; cases this
      unfold fetchBody
      have h4 : He False { ({ s with out := .ev (.fetchOk k r) :: s.out } : St) with
          retryDelay := cfg.retryInit, attempts := 1, requestD := .none } := by he_fields h0
      exact (fetchTail_e hin false r h4 hp ht.frame).1

end

theorem stepCore_e {cfg : Cfg} (e : Ev) {s s' : St} (hs : He True s) (ht : A.TopF s)
    (h : stepCore cfg { s with out := .ev e :: s.out } e = some s') : He True s' := by
  have hin := opsN_e cfg cfg.depth
  have pre : e ≠ .commit → e ≠ .procOk → He False { s with out := .ev e :: s.out } :=
    fun h1 h2 => pre_e e h1 h2 hs rfl rfl rfl rfl
  cases e with
  | start off => simp only [stepCore, Option.some.injEq] at h; subst h; exact (ev_start_e off hs).weaken
  | stop =>
    simp only [stepCore, Option.some.injEq] at h; subst h
    exact ((stop_e hin) _ (pre (by simp) (by simp))).1.weaken
  | shutdown =>
    simp only [stepCore, Option.some.injEq] at h; subst h
    exact ((shutdown_e hin) _ (pre (by simp) (by simp))).1.weaken
  | commit =>
    simp only [stepCore, Option.some.injEq] at h; subst h
    exact ((commitUser_e cfg True) _ (pre_commit hs)).1
  | fetchOk k r =>
    simp only [stepCore] at h
    split at h
    · simp only [Option.some.injEq] at h; subst h
      exact (ev_fetchOk_e hin k r hs ht).weaken
    · cases h
  | fetchErr k ek tag =>
    simp only [stepCore] at h
    split at h
    · simp only [Option.some.injEq] at h; subst h
      exact ((handleFetchError_e _) _ (pre (by simp) (by simp))).1.weaken
    · cases h
  | offsetOk k off =>
    simp only [stepCore] at h
    split at h
    · simp only [Option.some.injEq] at h; subst h
      exact ((handleOffsetResponse_e _ _) _ (pre (by simp) (by simp))).1.weaken
    · cases h
  | offsetErr k ek tag =>
    simp only [stepCore] at h
    split at h
    · simp only [Option.some.injEq] at h; subst h
      exact ((handleOffsetError_e _) _ (pre (by simp) (by simp))).1.weaken
    · cases h
  | offsetFetchOk k off =>
    simp only [stepCore] at h
    split at h
    · simp only [Option.some.injEq] at h; subst h
      exact ((handleOffsetResponse_e _ _) _ (pre (by simp) (by simp))).1.weaken
    · cases h
  | offsetFetchErr k ek tag =>
    simp only [stepCore] at h
    split at h
    · simp only [Option.some.injEq] at h; subst h
      exact ((handleOffsetError_e _) _ (pre (by simp) (by simp))).1.weaken
    · cases h
  | commitOk k =>
    simp only [stepCore] at h
    split at h
    · rename_i rq hrq
      split at h
      · simp only [Option.some.injEq] at h; subst h
        have hq : He False ({ s with out := .ev (.commitOk k) :: s.out, commitReq := none, lastCommitted := some rq.off } : St) :=
          pre_e (.commitOk k) (by simp) (by simp) hs rfl rfl rfl rfl
        exact ((deliver_e hin _) _ hq).1.weaken
      · cases h
    · cases h
  | commitErr k ek tag =>
    simp only [stepCore] at h
    split at h
    · rename_i rq hrq
      split at h
      · simp only [Option.some.injEq] at h; subst h
        have hq : He False ({ s with out := .ev (.commitErr k ek tag) :: s.out, commitReq := none } : St) :=
          pre_e (.commitErr k ek tag) (by simp) (by simp) hs rfl rfl rfl rfl
        exact ((handleCommitError_e hin _ _ _) _ hq).1.weaken
      · cases h
    · cases h
  | procOk =>
    simp only [stepCore] at h
    split at h
    · rename_i g hp
      simp only [Option.some.injEq] at h; subst h
      exact (procResult_e hin g none hs hp ht.frame .procOk (Or.inl ⟨rfl, rfl⟩)).weaken
    · cases h
  | procErr ek tag =>
    simp only [stepCore] at h
    split at h
    · rename_i g hp
      simp only [Option.some.injEq] at h; subst h
      exact (procResult_e hin g _ hs hp ht.frame (.procErr ek tag) (Or.inr ⟨ek, tag, rfl, rfl⟩)).weaken
    · cases h
  | retryFire =>
    simp only [stepCore] at h
    split at h
    · split at h
      · simp only [Option.some.injEq] at h; subst h
        have hq : He False ({ s with out := .ev .retryFire :: s.out, retryCall := .dead } : St) :=
          pre_e .retryFire (by simp) (by simp) hs rfl rfl rfl rfl
        exact ((doFetch_e cfg False) _ hq).1.weaken
      · cases h
    · cases h
  | commitRetryFire =>
    simp only [stepCore] at h
    split at h
    · split at h
      · simp only [Option.some.injEq] at h; subst h
        have hq : He False ({ s with out := .ev .commitRetryFire :: s.out, commitCall := .dead } : St) :=
          pre_e .commitRetryFire (by simp) (by simp) hs rfl rfl rfl rfl
        exact ((sendCommitRequest_e cfg False _ _) _ hq).1.weaken
      · cases h
    · cases h
  | autoCommitTick =>
    simp only [stepCore] at h
    cases hl : s.looper with
    | none => simp [hl] at h
    | some l =>
      cases hd : l.due with
      | none => simp [hl, hd] at h
      | some due =>
        simp only [hl, hd] at h
        split at h
        · have hq : He False ({ s with out := .ev .autoCommitTick :: s.out, looper := some { l with due := none } } : St) :=
            pre_e .autoCommitTick (by simp) (by simp) hs rfl rfl rfl rfl
          have hq1 := (autoCommit_e cfg False false) _ hq
          generalize autoCommit cfg false { s with out := .ev .autoCommitTick :: s.out, looper := some { l with due := none } } = x at h hq1
          split at h
          · simp only [Option.some.injEq] at h; subst h
            have := hq1.1
            exact He.weaken (by unfold emit; he_fields this)
          · simp only [Option.some.injEq] at h; subst h
            exact hq1.1.weaken
        · cases h
  | advance dt =>
    simp only [stepCore] at h
    split at h
    · cases h
    · simp only [Option.some.injEq] at h; subst h
      exact He.weaken (pre_e (.advance dt) (by simp) (by simp) hs rfl rfl rfl rfl)
  | env rq cm =>
    simp only [stepCore, Option.some.injEq] at h; subst h
    exact He.weaken (pre_e (.env rq cm) (by simp) (by simp) hs rfl rfl rfl rfl)

theorem rej_e (e : Ev) {s : St} (hs : He True s) : He True { s with out := .rej e :: s.out } := by
  obtain ⟨c1, c2, c3a, c3b, c4⟩ := hs
  constructor <;> simp only [crm, runR_cons, C03.crStep, procTrack] at * <;> grind

theorem probe_e {s : St} (hs : He True s) : He True (probe s) := by
  unfold probe emit
  obtain ⟨c1, c2, c3a, c3b, c4⟩ := hs
  constructor <;> simp only [crm, runR_cons, C03.crStep, procTrack] at * <;> grind

theorem step_e {cfg : Cfg} (e : Ev) {s : St} (hs : He True s) (ht : A.TopF s) : He True (step cfg s e) := by
  unfold step
  split
  · exact rej_e e hs
  · split
    · exact rej_e e hs
    · rename_i s' h
      have hq := stepCore_e e hs ht h
      split
      · exact hq
      · exact probe_e hq

theorem init_e (cfg : Cfg) (script : List PEntry) : He True (init cfg script) := by
  constructor <;> simp [init, crm]

/-- every reachable state satisfies `He True`: in particular the monitor `C03.crStep` has not failed -/
theorem run_e (cfg : Cfg) (script : List PEntry) (evs : List Ev) : He True (run cfg script evs) := by
  induction evs using List.reverseRecOn with
  | nil => exact init_e cfg script
  | append_singleton es e ih =>
    have : run cfg script (es ++ [e]) = step cfg (run cfg script es) e := by
      unfold run; rw [List.foldl_append]; rfl
    rw [this]
    exact step_e e ih (A.topF_run cfg script es)

end Afkak.Proofs.Consumer.A5
