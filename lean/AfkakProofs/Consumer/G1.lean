import AfkakProofs.Consumer.Basic
/-!
# `G1` is preserved by every handler (processing / commit monitors)
-/
namespace Afkak.Proofs.Consumer
open Afkak.Consumer Afkak.Monitor Afkak.Consts

/-- Prove `Pres1 h` for a handler that calls no other handler: unfold it and let `grind` check every
    field of `G1` on every path. -/
syntax "pres1_leaf" "[" ident* "]" : tactic
macro_rules
  | `(tactic| pres1_leaf [$ds*]) => `(tactic|
      (intro s hs
       obtain ⟨h1, h2, h3, h4, h5, h6, h7, h8, h9, h10, h11, h12, h13⟩ := hs
       refine ⟨⟨?_, ?_, ?_, ?_, ?_, ?_, ?_, ?_, ?_, ?_, ?_, ?_, ?_⟩, ?_⟩ <;>
         (unfold $ds* at *; (try unfold emit at *); (try unfold oifOf at *); grind [C02.ovStep, C03.oifStep, C03.clpStep, procTrack, runR_cons])))

theorem crash_pres1 (site : String) : Pres1 (crash site) := by pres1_leaf [crash]
theorem probe_pres1 : Pres1 probe := by pres1_leaf [probe]
theorem startErrback_pres1 (f : Fail) : Pres1 (startErrback f) := by pres1_leaf [startErrback  startErrback']
theorem startErrback'_pres1 (f : Fail) : Pres1 (fun s => (startErrback' f s).1) := by pres1_leaf [startErrback']
theorem doFetch_pres1 (cfg : Cfg) : Pres1 (doFetch cfg) := by pres1_leaf [doFetch  startErrback']
theorem retryFetch_pres1 (cfg : Cfg) (a : Option Rat) : Pres1 (retryFetch cfg a) := by pres1_leaf [retryFetch]
theorem looperReset_pres1 (cfg : Cfg) : Pres1 (looperReset cfg) := by pres1_leaf [looperReset]
theorem handleAutoCommitError_pres1 (f : Fail) : Pres1 (handleAutoCommitError f) := by
  pres1_leaf [handleAutoCommitError  startErrback  startErrback']
theorem handleProcessorError_pres1 (f : Fail) : Pres1 (fun s => (handleProcessorError f s).1) := by
  pres1_leaf [handleProcessorError  startErrback  startErrback']
theorem stopRetry_pres1 : Pres1 stopRetry := by pres1_leaf [stopRetry]
theorem stopTimers_pres1 : Pres1 stopTimers := by pres1_leaf [stopTimers]
theorem stopFinish_pres1 : Pres1 stopFinish := by pres1_leaf [stopFinish  crash]

theorem handleOffsetResponse_pres1 (cfg : Cfg) (b : Bool) (o : Int) : Pres1 (handleOffsetResponse cfg b o) := by
  pres1_leaf [handleOffsetResponse doFetch startErrback']
theorem handleOffsetError_pres1 (cfg : Cfg) (f : Fail) : Pres1 (handleOffsetError cfg f) := by
  pres1_leaf [handleOffsetError retryFetch startErrback startErrback']
theorem handleFetchError_pres1 (cfg : Cfg) (f : Fail) : Pres1 (handleFetchError cfg f) := by
  pres1_leaf [handleFetchError retryFetch startErrback startErrback']
theorem sendCommitRequest_pres1 (cfg : Cfg) (d : Option Rat) (a : Option Nat) : Pres1 (sendCommitRequest cfg d a) := by
  pres1_leaf [sendCommitRequest crash]

end Afkak.Proofs.Consumer
