import AfkakProofs.Consumer.Inv1
/-!
# Quiescence after `stop()` (monitor `C13.qStep`) AND no crash (`C13.noCrashOk`), with or without a consumer group

`B5_N1` … `B5_N9`: ONE invariant `QG` relating the state of the monitor `C13.qStep` to the model state along every trace
(timers armed, requests outstanding and uncancelled, processor result pending, running/manual; the shutdown
continuations in hand are counted: `x`), with two more fields - no `crash` observation so far, a commit in progress
has something to commit - so that wherever the model would report a crash the proof has to show that the branch is
not reachable.  This file: the invariant, leaf handlers.
-/
namespace Afkak.Proofs.Consumer.BN
open Afkak.Consumer Afkak.Monitor Afkak.Consts Afkak.Proofs.Consumer

theorem nodup_cons_nat (a : Nat) (l : List Nat) : (a :: l).Nodup ↔ a ∉ l ∧ l.Nodup := List.nodup_cons
theorem nodup_cons_tk (a : TimerKind) (l : List TimerKind) : (a :: l).Nodup ↔ a ∉ l ∧ l.Nodup := List.nodup_cons

theorem app_ne_nil (l : List Waiter) (w : Waiter) : l ++ [w] ≠ [] := by simp

theorem activeReq_some {r : ReqD} {k : Nat} (h : activeReq r = some k) : ∃ kind, r = .pending k kind false := by
  unfold activeReq at h
  split at h
  · simp only [Option.some.injEq] at h; subst h; exact ⟨_, rfl⟩
  · cases h

def commitPending : CRef → Bool
  | .pending _ _ _ => true
  | _ => false

def looperDue : Option Looper → Bool
  | some l => l.due.isSome
  | none => false

def commitK (s : St) : Option Nat :=
  match s.commitReq with
  | some r => some r.k
  | none => none

def isShut : Waiter → Bool
  | .shutHead => true
  | .shutInProg => true
  | _ => false

/-- Deferreds of `_commit_ds` that belong to a pending `shutdown()` -/
def nShut (ws : List Waiter) : Nat := ws.countP isShut

/-- … and the processor Deferred a pending `shutdown()` waits for -/
def gShut : Option Gen → Nat
  | some g => if g.shutWait then 1 else 0
  | none => 0

/-- `x`: shutdown continuations in hand that are in neither place (the Deferreds `_deliver_commit_result` is still
    to fire) -/
structure QG (x : Nat) (s : St) : Prop where
  ok : (runR C13.qStep {} s.out).bad = false
  run : s.startD ≠ .none → (runR C13.qStep {} s.out).running = true
  tmNodup : (runR C13.qStep {} s.out).timers.Nodup
  tmR : TimerKind.retry ∈ (runR C13.qStep {} s.out).timers ↔ retryPending s.retryCall = true
  tmC : TimerKind.commit ∈ (runR C13.qStep {} s.out).timers ↔ commitPending s.commitCall = true
  tmL : TimerKind.loop ∈ (runR C13.qStep {} s.out).timers ↔ looperDue s.looper = true
  rqNodup : (runR C13.qStep {} s.out).reqs.Nodup
  rqMem : ∀ k, k ∈ (runR C13.qStep {} s.out).reqs ↔ (activeReq s.requestD = some k ∨ commitK s = some k)
  rqFresh : ∀ k, k ∈ (runR C13.qStep {} s.out).reqs → k < s.nextReq
  reqId : ∀ k kind c, s.requestD = .pending k kind c → k < s.nextReq
  commitId : ∀ r, s.commitReq = some r → r.k < s.nextReq
  idsNe : ∀ k kind c r, s.requestD = .pending k kind c → s.commitReq = some r → k ≠ r.k
  pp : (runR C13.qStep {} s.out).procPending = s.proc.isSome
  retryRun : retryPending s.retryCall = true → s.startD ≠ .none
  reqRun : ∀ k, activeReq s.requestD = some k → s.startD ≠ .none
  procRun : s.proc.isSome = true → s.startD ≠ .none
  looperRun : s.looper.isSome = true → s.startD ≠ .none
  parkedReq : s.parked.isSome = true → ∃ k, s.requestD = .parked k
  parkedBlock : s.parked.isSome = true → s.msgBlock = true
  procBlock : s.proc.isSome = true → s.msgBlock = true
  alt : s.commitReq.isSome = true → commitPending s.commitCall = false
  cm : (s.commitReq.isSome = true ∨ commitPending s.commitCall = true) →
    ((runR C13.qStep {} s.out).running = true ∨ (runR C13.qStep {} s.out).manual = true)
  ds : s.stopping = false → s.commitDs = [] → s.commitReq = none ∧ commitPending s.commitCall = false
  one : nShut s.commitDs + gShut s.proc + x ≤ 1
  sd : s.shutdownD = false → nShut s.commitDs + gShut s.proc + x = 0
  sh : 0 < nShut s.commitDs + gShut s.proc + x → s.startD ≠ .none ∧ s.shuttingDown = true
  ncOut : ∀ site, Item.ob (.crash site) ∉ s.out
  lp : s.commitDs ≠ [] → s.lastProcessed.isSome = true

def PQ (h : St → St) : Prop := ∀ x s, QG x s → QG x (h s)

/-- close a goal about the monitor's lists -/
macro "qg_list" : tactic => `(tactic|
  ((try unfold emit at *); (try simp only [runR_cons, C13.qStep, C13.qActive, C13.qCommitActive, C13.qQuiet]);
   grind [commitK, activeReq, retryPending, commitPending, looperDue, List.Nodup.mem_erase_iff, List.Nodup.erase, nodup_cons_nat, nodup_cons_tk, activeReq_some]))

/-- close a goal that does not look into the monitor's lists -/
macro "qg_plain" : tactic => `(tactic|
  ((try unfold emit at *); (try simp only [runR_cons, C13.qStep, C13.qActive, C13.qCommitActive, C13.qQuiet]);
   grind [commitK, activeReq, retryPending, commitPending, looperDue, nShut, gShut, isShut, app_ne_nil]))

/-- close `QG x X` (X an explicit update of a state whose `QG` fields are in the context) -/
macro "qg_fields" : tactic => `(tactic|
  (constructor
   case tmNodup => qg_list
   case tmR => qg_list
   case tmC => qg_list
   case tmL => qg_list
   case rqNodup => qg_list
   case rqMem => qg_list
   case rqFresh => qg_list
   all_goals qg_plain))

syntax "qg_leaf" ident : tactic
macro_rules
  | `(tactic| qg_leaf $h) => `(tactic|
      (obtain ⟨q1, q2, q3, q4, q5, q6, q7, q8, q9, q10, q11, q12, q13, q14, q15, q16, q17, q18, q19, q20, q21, q22, q23, q24, q25, q26, q27, q28⟩ := $h
       qg_fields))

theorem startErrback_pq (f : Fail) : PQ (startErrback f) := by
  intro x s h; unfold startErrback; split <;> qg_leaf h

theorem retryFetch_pq (cfg : Cfg) (a : Option Rat) : PQ (retryFetch cfg a) := by
  intro x s h; unfold retryFetch; split
  · exact h
  · split <;> qg_leaf h

set_option maxHeartbeats 800000 in
theorem doFetch_q (cfg : Cfg) (x : Nat) (s : St) (h : QG x s) (hr : s.startD ≠ .none) : QG x (doFetch cfg s) := by
  unfold doFetch startErrback errbackRaises
  simp only []
  repeat' split
  all_goals qg_leaf h

end Afkak.Proofs.Consumer.BN
