import AfkakProofs.Consumer.A_Gap6
/-!
# C14 at trace level (never-skips, reset policy, delays): the invariant `Hc` and the handlers that call no other handler
-/
namespace Afkak.Proofs.Consumer.B
open Afkak.Consumer Afkak.Monitor Afkak.Consts Afkak.Proofs.Consumer

def nsm (s : St) : C14.NsSt := runR C14.nsStep {} s.out
def rsm (cfg : Cfg) (s : St) : C14.RsSt := runR (C14.rsStep cfg.reset) {} s.out
def dlm (cfg : Cfg) (s : St) : C14.DlSt := runR (C14.dlStep cfg.retryInit cfg.retryMax) {} s.out

/-- a request is outstanding only while the consumer runs -/
structure Hs (s : St) : Prop where
  reqRun : ∀ k kind c, s.requestD = .pending k kind c → s.startD ≠ .none
  parkedReq : s.parked.isSome = true → ∃ k, s.requestD = .parked k
  parkedBlock : s.parked.isSome = true → s.msgBlock = true

/-- never-skips monitor -/
structure Hn (s : St) : Prop where
  n1 : (nsm s).bad = false
  n2 : ∀ e, (nsm s).expect = some e → s.fetchOffset = e ∧ (∀ k kind c, s.requestD ≠ .pending k kind c) ∧
    e ≠ offsetEarliest ∧ e ≠ offsetLatest ∧ e ≠ offsetCommitted
  n3 : ∀ k c, s.requestD = .pending k .fetch c → (nsm s).offs.lookup k = some s.fetchOffset
  n4 : ∀ r, s.parked = some r → (r.msgs ≠ [] ∨ r.tail ≠ .small) → (nsm s).expect = none
  n5 : ∀ k c, s.requestD = .pending k .fetch c →
    s.fetchOffset ≠ offsetEarliest ∧ s.fetchOffset ≠ offsetLatest ∧ s.fetchOffset ≠ offsetCommitted

/-- reset-policy monitor -/
structure Hr (cfg : Cfg) (s : St) : Prop where
  r1 : (rsm cfg s).bad = false
  r2 : ∀ e, (rsm cfg s).expect = some e → s.fetchOffset = e ∧ s.requestD = .none ∧ cfg.reset = some e
  r3 : ∀ e, (rsm cfg s).fetchAt = some e → s.startD = .none ∨ (s.fetchOffset = e ∧ s.requestD = .none ∧ 0 ≤ e)
  r4a : s.startD = .pending → (rsm cfg s).fired = false
  r4b : s.startD = .called → (rsm cfg s).fired = true
  r5 : (rsm cfg s).fatal = none

/-- delay monitor -/
structure Hd (cfg : Cfg) (s : St) : Prop where
  d1 : (dlm cfg s).bad = false
  d3 : s.retryDelay = C14.delayAt cfg.retryInit cfg.retryMax (dlm cfg s).k
  d4 : (dlm cfg s).prev = prevOf cfg.retryInit cfg.retryMax (dlm cfg s).k
  dPark : s.parked.isSome = true → (dlm cfg s).k = 0

/-- `sane`: the configuration's reset policy is one the constructor accepts and every OffsetResponse so far carried a
    Kafka offset (≥ 0); the reset-policy part is claimed under it only. -/
def Hc (cfg : Cfg) (sane : Prop) (s : St) : Prop :=
  Hs s ∧ Hn s ∧ ((0 ≤ cfg.retryInit ∧ 0 ≤ cfg.retryMax) → Hd cfg s) ∧ (sane → Hr cfg s)

/-- `x` is a good successor of `s0`: the invariant holds; the never-skips monitor, the reset monitor's expectation and
    the delay monitor's error flag are untouched; nothing was parked -/
def HRel (cfg : Cfg) (sane : Prop) (s0 x : St) : Prop :=
  Hc cfg sane x ∧ nsm x = nsm s0 ∧ ((rsm cfg x).expect = (rsm cfg s0).expect ∧ (rsm cfg x).fetchAt = (rsm cfg s0).fetchAt) ∧
    (dlm cfg x).inErr = (dlm cfg s0).inErr ∧ (s0.parked = none → x.parked = none)

def PresH (cfg : Cfg) (sane : Prop) (h : St → St) : Prop := ∀ s, Hc cfg sane s → HRel cfg sane s (h s)

theorem HRel.refl {cfg : Cfg} {sane : Prop} {s : St} (h : Hc cfg sane s) : HRel cfg sane s s := ⟨h, rfl, ⟨rfl, rfl⟩, rfl, fun h => h⟩
theorem HRel.trans {cfg : Cfg} {sane : Prop} {a b c : St} (h1 : HRel cfg sane a b) (h2 : HRel cfg sane b c) : HRel cfg sane a c :=
  ⟨h2.1, h2.2.1.trans h1.2.1, ⟨h2.2.2.1.1.trans h1.2.2.1.1, h2.2.2.1.2.trans h1.2.2.1.2⟩, h2.2.2.2.1.trans h1.2.2.2.1,
    fun hp => h2.2.2.2.2 (h1.2.2.2.2 hp)⟩
theorem PresH.step {cfg : Cfg} {sane : Prop} {h : St → St} (hh : PresH cfg sane h) {s x : St} (hx : HRel cfg sane s x) :
    HRel cfg sane s (h x) := hx.trans (hh x hx.1)

/-- close `Hc cfg sane X` for an explicit update `X` of `s`, from `hs : Hc cfg sane s` -/
syntax "hc_fields" ident : tactic
macro_rules
  | `(tactic| hc_fields $hs) => `(tactic|
      (obtain ⟨⟨s1, s2, s3⟩, ⟨n1, n2, n3, n4, n5⟩, hd_, hr_⟩ := $hs
       refine ⟨?_, ?_, ?_, ?_⟩
       · constructor <;> (simp only [emit] at * <;> grind)
       · constructor <;> (simp only [nsm, emit] at * <;> grind [C14.nsStep, runR_cons, List.lookup])
       · intro hD
         obtain ⟨d1, d3, d4, d5⟩ := hd_ hD
         constructor <;> (simp only [dlm, emit] at * <;> grind [C14.dlStep, runR_cons])
       · intro hP
         obtain ⟨r1, r2, r3, r4a, r4b, r5⟩ := hr_ hP
         constructor <;> (simp only [rsm, emit] at * <;> grind [C14.rsStep, runR_cons])))

/-- `HRel cfg sane s0 X` for an explicit update `X` of `x`, from `hx : HRel cfg sane s0 x` -/
syntax "cleaf" ident : tactic
macro_rules
  | `(tactic| cleaf $hx) => `(tactic|
      (obtain ⟨hs_, e1, ⟨e2, e2b⟩, e3, e4⟩ := $hx
       refine ⟨?_, ?_, ⟨?_, ?_⟩, ?_, ?_⟩
       · hc_fields hs_
       · (simp only [nsm, emit] at * <;> grind [C14.nsStep, runR_cons])
       · (simp only [rsm, emit] at * <;> grind [C14.rsStep, runR_cons])
       · (simp only [rsm, emit] at * <;> grind [C14.rsStep, runR_cons])
       · (simp only [dlm, emit] at * <;> grind [C14.dlStep, runR_cons])
       · first | assumption | ((simp only [emit] at *) <;> grind)))

syntax "presc_leaf" "[" ident* "]" : tactic
macro_rules
  | `(tactic| presc_leaf [$ds*]) => `(tactic|
      (intro s hs
       have hx := HRel.refl hs
       unfold $ds*
       cleaf hx))

section
variable (cfg : Cfg) (sane : Prop)

theorem crash_c (site : String) : PresH cfg sane (crash site) := by presc_leaf [crash]
theorem emitAct_c (a : Act) : PresH cfg sane (emit (.act a)) := by presc_leaf [emit]
theorem startErrback_c (f : Fail) : PresH cfg sane (startErrback f) := by presc_leaf [startErrback]
theorem looperReset_c : PresH cfg sane (looperReset cfg) := by presc_leaf [looperReset]
theorem stopRetry_c : PresH cfg sane stopRetry := by presc_leaf [stopRetry]
theorem stopTimers_c : PresH cfg sane stopTimers := by presc_leaf [stopTimers]
theorem sendCommitRequest_c (d : Option Rat) (a : Option Nat) : PresH cfg sane (sendCommitRequest cfg d a) := by
  presc_leaf [sendCommitRequest crash]

theorem handleAutoCommitError_c (f : Fail) : PresH cfg sane (handleAutoCommitError f) := by
  intro s hs
  unfold handleAutoCommitError
  repeat' split
  all_goals first | exact HRel.refl hs | exact startErrback_c cfg sane f s hs

theorem handleProcessorError_c (f : Fail) : PresH cfg sane (handleProcessorError f) := by
  intro s hs
  unfold handleProcessorError
  split
  · exact HRel.refl hs
  · exact startErrback_c cfg sane f s hs

theorem commitState_c (w : Who) : PresH cfg sane (commitState cfg w) := by
  intro s hs
  have hx := HRel.refl hs
  unfold commitState
  split
  · exact hx
  · split
    · exact hx
    · split
      · cases w <;> simp only [] <;> cleaf hx
      · simp only []
        exact (looperReset_c cfg sane).step ((sendCommitRequest_c cfg sane none none).step (by cleaf hx))

theorem autoCommit_c (b : Bool) : PresH cfg sane (autoCommit cfg b) := by
  intro s hs
  have hx := HRel.refl hs
  have hc := (commitState_c cfg sane .auto).step hx
  unfold autoCommit
  simp only []
  repeat' split
  all_goals first
    | exact hx
    | exact hc
    | exact (handleAutoCommitError_c cfg sane _).step hc
    | cleaf hx

theorem commitUser_c : PresH cfg sane (commitUser cfg) := by
  intro s hs
  have hc := (commitState_c cfg sane .user).step (HRel.refl hs)
  unfold commitUser
  simp only []
  split
  · cleaf hc
  · cleaf hc

/-- what the delay monitor does with the retry the model schedules -/
theorem dl_retry (init maxD : Rat) (h0 : 0 ≤ init) (m : C14.DlSt) (hp : m.prev = prevOf init maxD m.k) :
    C14.dlStep init maxD m (.ob (.setTimer .retry (C14.delayAt init maxD m.k))) =
      if (!m.inErr && C14.delayAt init maxD m.k == 0) = true then m
      else { m with k := m.k + 1, prev := some (C14.delayAt init maxD m.k) } := by
  have hg := dlGate init maxD m.k h0
  rw [← hp] at hg
  simp only [C14.dlStep, closeTo_self, Bool.true_and, hg, if_true]

end

section
variable {cfg : Cfg} {sane : Prop}

/-- `_retry_fetch`: the immediate refetch only outside failure handling; the back-off only with no reply parked -/
theorem retryFetch_c (after : Option Rat) {s0 s : St} (hx : HRel cfg sane s0 s)
    (ha : after = some 0 → (dlm cfg s).inErr = false) (hb : after = none → s.parked = none)
    (hc : ∀ d, after = some d → d = 0) :
    HRel cfg sane s0 (retryFetch cfg after s) := by
  unfold retryFetch
  split
  · exact hx
  · split
    · cases after with
      | some d =>
        have hd := hc d rfl
        subst hd
        have hie := ha rfl
        simp only [Option.getD_some, Option.isNone_some, Bool.false_eq_true, if_false]
        cleaf hx
      | none =>
        have hpk := hb rfl
        simp only [Option.getD_none, Option.isNone_none, if_true]
        obtain ⟨⟨hs1, hn1, hd1, hr1⟩, e1, ⟨e2, e2b⟩, e3, e4⟩ := hx
        have hdl : dlm cfg (emit (.setTimer .retry s.retryDelay) { s with retryDelay := nextDelay cfg.retryMax s.retryDelay }) =
            C14.dlStep cfg.retryInit cfg.retryMax (dlm cfg s) (.ob (.setTimer .retry s.retryDelay)) := by
          simp [dlm, emit, runR_cons]
        refine ⟨⟨?_, ?_, ?_, ?_⟩, ?_, ⟨?_, ?_⟩, ?_, ?_⟩
        · obtain ⟨q, q', q''⟩ := hs1
          constructor
          · simpa [emit] using q
          · simpa [emit] using q'
          · simpa [emit] using q''
        · obtain ⟨n1, n2, n3, n4, n5⟩ := hn1
          constructor <;> (simp only [nsm, emit] at * <;> grind [C14.nsStep, runR_cons])
        · intro hD
          obtain ⟨h0, h1⟩ := hD
          obtain ⟨d1, d3, d4, d5⟩ := hd1 ⟨h0, h1⟩
          have hstep := dl_retry cfg.retryInit cfg.retryMax h0 (dlm cfg s) d4
          rw [← d3] at hstep
          have hk : (dlm cfg { emit (.setTimer .retry s.retryDelay) { s with retryDelay := nextDelay cfg.retryMax s.retryDelay } with
              attempts := s.attempts + 1, retryCall := .pending (s.now + s.retryDelay) }) =
              C14.dlStep cfg.retryInit cfg.retryMax (dlm cfg s) (.ob (.setTimer .retry s.retryDelay)) := hdl
          constructor
          · rw [hk, hstep]; split <;> simpa using d1
          · rw [hk, hstep]
            split
            · rename_i hz
              simp only [Bool.and_eq_true, Bool.not_eq_true', beq_iff_eq] at hz
              simp only [emit]
              rw [hz.2, nextDelay_zero _ h1, ← hz.2]; exact d3
            · simp only [emit]
              rw [d3]; rfl
          · rw [hk, hstep]
            split
            · exact d4
            · rw [d3]; rfl
          · intro hp
            simp only [emit] at hp
            rw [hpk] at hp; cases hp
        · intro hP
          obtain ⟨r1, r2, r3, r4a, r4b, r5⟩ := hr1 hP
          constructor <;> (simp only [rsm, emit] at * <;> grind [C14.rsStep, runR_cons])
        · rw [← e1]; simp [nsm, emit, runR_cons, C14.nsStep]
        · rw [← e2]; simp only [rsm, emit, runR_cons, C14.rsStep]; split <;> rfl
        · rw [← e2b]; simp only [rsm, emit, runR_cons, C14.rsStep]; split <;> rfl
        · rw [← e3]
          show (C14.dlStep cfg.retryInit cfg.retryMax (dlm cfg s) (.ob (.setTimer .retry s.retryDelay))).inErr = _
          simp only [C14.dlStep]
          split
          · rfl
          · split <;> rfl
        · exact e4
    · exact hx

end
end Afkak.Proofs.Consumer.B
