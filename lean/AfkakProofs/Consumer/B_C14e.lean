import AfkakProofs.Consumer.B_C14d
/-!
# C14 at trace level: every event keeps `Hc`; hence every reachable state satisfies it
-/
namespace Afkak.Proofs.Consumer.B
open Afkak.Consumer Afkak.Monitor Afkak.Consts Afkak.Proofs.Consumer

/-- what the reset-policy statement assumes of an event: an OffsetResponse carries a Kafka offset (≥ 0) -/
def EvSane : Ev → Prop
  | .offsetOk _ off => 0 ≤ off
  | _ => True

section
variable {cfg : Cfg} {sane : Prop}
  (hres : sane → ∀ v, cfg.reset = some v → v = offsetEarliest ∨ v = offsetLatest)

include hres in
theorem ev_start_c (off : Int) {s : St} (hs : Hc cfg sane s) :
    Hc cfg sane (start cfg off { s with out := .ev (.start off) :: s.out }) := by
  unfold start
  split
  · unfold emit; hc_fields hs
  · rename_i hr
    simp only []
    have hr' : s.startD = .none := by simpa using hr
    have hq : Hc cfg sane { ({ s with out := .ev (.start off) :: s.out } : St) with startD := .pending, fetchOffset := off } := by
      hc_fields hs
    have h2 := doFetch_c hres hq (by simp)
    split
    · unfold emit; hc_fields h2
    · exact h2

theorem ev_fetchOk_c (k : Nat) (r : Reply) {s : St} (hs : Hc cfg sane s) (c : Bool)
    (hreq : s.requestD = .pending k .fetch c) :
    Hc cfg sane (handleFetchResponse cfg (opsN cfg cfg.depth) k r { s with out := .ev (.fetchOk k r) :: s.out }) := by
  have hin := opsN_c cfg sane cfg.depth
  have hrun := hs.1.reqRun k .fetch c hreq
  have hpk : s.parked = none := by
    cases hpp : s.parked with
    | none => rfl
    | some r' =>
      obtain ⟨k', hk'⟩ := hs.1.parkedReq (by rw [hpp]; rfl)
      rw [hreq] at hk'; cases hk'
  have hn : (nsm s).expect = none := by
    cases he : (nsm s).expect with
    | none => rfl
    | some e => exact absurd hreq ((hs.2.1.n2 e he).2.1 k .fetch c)
  have hlook := hs.2.1.n3 k c hreq
  have hn5 := hs.2.1.n5 k c hreq
  have hrs : sane → (rsm cfg s).expect = none ∧ (rsm cfg s).fetchAt = none := by
    intro hP
    constructor
    · cases he : (rsm cfg s).expect with
      | none => rfl
      | some e => have := ((hs.2.2.2 hP).r2 e he).2.1; rw [hreq] at this; cases this
    · cases he : (rsm cfg s).fetchAt with
      | none => rfl
      | some e =>
        rcases (hs.2.2.2 hP).r3 e he with h | h
        · exact absurd h hrun
        · rw [hreq] at h; cases h.2.1
  have hrs' : sane → (runR (C14.rsStep cfg.reset) {} s.out).expect = none ∧ (runR (C14.rsStep cfg.reset) {} s.out).fetchAt = none := hrs
  have hdl0 : C14.delayAt cfg.retryInit cfg.retryMax 0 = cfg.retryInit := rfl
  have hp0 : prevOf cfg.retryInit cfg.retryMax 0 = none := rfl
  unfold handleFetchResponse
  split
  · rename_i h; exact absurd (by simpa using h) hrun
  · simp only []
    split
    · simp only [nsm] at hn hlook
      hc_fields hs
    · unfold fetchBody
      have h4 : Hc cfg sane { ({ s with out := .ev (.fetchOk k r) :: s.out } : St) with retryDelay := cfg.retryInit, attempts := 1, requestD := .none } := by
        simp only [nsm] at hn hlook
        hc_fields hs
      refine (fetchTail_c hin false r h4 rfl hpk (by simp [dlm, runR_cons, C14.dlStep]) (fun hne => ?_) (fun hP => ?_) (fun t ht => ?_)).1
      · have hm := extract_nil_fo _ _ hne
        simp only [nsm, runR_cons, C14.nsStep]
        have : r.msgs.isEmpty = false := by cases hq : r.msgs <;> simp_all
        simp only [this, Bool.and_false, Bool.false_eq_true, if_false]
        exact hn
      · simp only [rsm, runR_cons, C14.rsStep]
        exact hrs hP
      · simp only [nsm, runR_cons, C14.nsStep, ht]
        have : (Tail.raise ErrKind.outOfRange t == Tail.small) = false := by
          rw [beq_eq_false_iff_ne]; intro h; cases h
        simp only [this, Bool.false_and, Bool.false_eq_true, if_false]
        exact hn

/-- `fetchErr` other than "out of range with no reset policy" -/
theorem ev_fetchErr_c (k : Nat) (ek : ErrKind) (tag : Nat) {s : St} (hs : Hc cfg sane s) (c : Bool)
    (hreq : s.requestD = .pending k .fetch c) (hnf : ¬ (ek = .outOfRange ∧ cfg.reset = none)) :
    Hc cfg sane (handleFetchError cfg (.ext ek tag) { s with out := .ev (.fetchErr k ek tag) :: s.out }) := by
  have hrun := hs.1.reqRun k .fetch c hreq
  have hpk : s.parked = none := by
    cases hpp : s.parked with
    | none => rfl
    | some r' =>
      obtain ⟨k', hk'⟩ := hs.1.parkedReq (by rw [hpp]; rfl)
      rw [hreq] at hk'; cases hk'
  have hrs : sane → (rsm cfg s).expect = none ∧ (rsm cfg s).fetchAt = none := by
    intro hP
    constructor
    · cases he : (rsm cfg s).expect with
      | none => rfl
      | some e => have := ((hs.2.2.2 hP).r2 e he).2.1; rw [hreq] at this; cases this
    · cases he : (rsm cfg s).fetchAt with
      | none => rfl
      | some e =>
        rcases (hs.2.2.2 hP).r3 e he with h | h
        · exact absurd h hrun
        · rw [hreq] at h; cases h.2.1
  have hrs' : sane → (runR (C14.rsStep cfg.reset) {} s.out).expect = none ∧ (runR (C14.rsStep cfg.reset) {} s.out).fetchAt = none := hrs
  by_cases hoor : ek = .outOfRange
  · subst hoor
    cases hr : cfg.reset with
    | none => exact absurd ⟨rfl, hr⟩ hnf
    | some v =>
      have hrun' : (s.startD == StartD.none) = false := by simpa using hrun
      have hA0 : Hc cfg sane { ({ s with out := .ev (.fetchErr k .outOfRange tag) :: s.out } : St) with requestD := .none, fetchOffset := v } := by
        hc_fields hs
      have hA := HRel.refl hA0
      unfold handleFetchError fetchErrorTail
      simp only [hrun', Fail.isOutOfRange, hr, Option.isNone_some, Bool.and_false, Bool.false_eq_true, if_false, if_true, Option.getD_some]
      repeat' split
      all_goals first
        | exact hA.1
        | exact ((startErrback_c cfg sane _).step hA).1
        | exact (retryFetch_c none hA (by intro h; cases h) (fun _ => hpk) (by intro d h; cases h)).1
  · have hq : Hc cfg sane ({ s with out := .ev (.fetchErr k ek tag) :: s.out } : St) := by
      cases ek <;> first | exact absurd rfl hoor | hc_fields hs
    exact (handleFetchError_c _ (HRel.refl hq) hpk (fun ho => by cases ek <;> simp_all [Fail.isOutOfRange])).1

/-- `fetchErr … outOfRange` with no reset policy: the whole step (the failure is reported on the start Deferred, nothing
    is retried) -/
theorem ev_fetchErr_fatal (k : Nat) (tag : Nat) {s : St} (hs : Hc cfg sane s) (c : Bool)
    (hreq : s.requestD = .pending k .fetch c) (hr : cfg.reset = none) :
    Hc cfg sane (probe (handleFetchError cfg (.ext .outOfRange tag) { s with out := .ev (.fetchErr k .outOfRange tag) :: s.out })) ∧
      (handleFetchError cfg (.ext .outOfRange tag) { s with out := .ev (.fetchErr k .outOfRange tag) :: s.out }).crashed = s.crashed := by
  have hrun := hs.1.reqRun k .fetch c hreq
  have hrun' : (s.startD == StartD.none) = false := by simpa using hrun
  have hpk : s.parked = none := by
    cases hpp : s.parked with
    | none => rfl
    | some r' =>
      obtain ⟨k', hk'⟩ := hs.1.parkedReq (by rw [hpp]; rfl)
      rw [hreq] at hk'; cases hk'
  have hrs : sane → (rsm cfg s).expect = none ∧ (rsm cfg s).fetchAt = none := by
    intro hP
    constructor
    · cases he : (rsm cfg s).expect with
      | none => rfl
      | some e => have := ((hs.2.2.2 hP).r2 e he).2.1; rw [hreq] at this; cases this
    · cases he : (rsm cfg s).fetchAt with
      | none => rfl
      | some e =>
        rcases (hs.2.2.2 hP).r3 e he with h | h
        · exact absurd h hrun
        · rw [hreq] at h; cases h.2.1
  have hrs' : sane → (runR (C14.rsStep cfg.reset) {} s.out).expect = none ∧ (runR (C14.rsStep cfg.reset) {} s.out).fetchAt = none := hrs
  have hst : ∀ m : C14.RsSt, C14.rsStep cfg.reset m (.ev (.fetchErr k .outOfRange tag)) = { m with fatal := some tag, reported := m.fired } := by
    intro m; simp [C14.rsStep, hr]
  unfold handleFetchError fetchErrorTail probe startErrback
  simp only [hrun', Fail.isOutOfRange, hr, Option.isNone_none, Bool.and_self, if_true, Bool.false_eq_true, if_false]
  split
  · refine ⟨?_, rfl⟩
    unfold emit; hc_fields hs
  · rename_i hnp
    have hcalled : s.startD = .called := by
      cases hsd : s.startD with
      | none => exact absurd hsd hrun
      | pending => simp [hsd] at hnp
      | called => rfl
    refine ⟨?_, rfl⟩
    unfold emit; hc_fields hs

omit hres in
theorem pend_facts {s : St} (hs : Hc cfg sane s) (k : Nat) (kind : ReqKind) (c : Bool) (hreq : s.requestD = .pending k kind c) :
    s.startD ≠ .none ∧ s.parked = none ∧ (nsm s).expect = none ∧
      (sane → (rsm cfg s).expect = none ∧ (rsm cfg s).fetchAt = none) := by
  have hrun := hs.1.reqRun k kind c hreq
  refine ⟨hrun, ?_, ?_, fun hP => ⟨?_, ?_⟩⟩
  · cases hpp : s.parked with
    | none => rfl
    | some r' =>
      obtain ⟨k', hk'⟩ := hs.1.parkedReq (by rw [hpp]; rfl)
      rw [hreq] at hk'; cases hk'
  · cases he : (nsm s).expect with
    | none => rfl
    | some e => exact absurd hreq ((hs.2.1.n2 e he).2.1 k kind c)
  · cases he : (rsm cfg s).expect with
    | none => rfl
    | some e => have := ((hs.2.2.2 hP).r2 e he).2.1; rw [hreq] at this; cases this
  · cases he : (rsm cfg s).fetchAt with
    | none => rfl
    | some e =>
      rcases (hs.2.2.2 hP).r3 e he with h | h
      · exact absurd h hrun
      · rw [hreq] at h; cases h.2.1

include hres in
theorem ev_offsetOk_c (k : Nat) (off : Int) {s : St} (hs : Hc cfg sane s) (c : Bool)
    (hreq : s.requestD = .pending k .offsets c) (hoff : sane → 0 ≤ off) :
    Hc cfg sane (handleOffsetResponse cfg false off { s with out := .ev (.offsetOk k off) :: s.out }) := by
  obtain ⟨hrun, hpk, hn, hrs⟩ := pend_facts hs k _ c hreq
  have hrs' : sane → (runR (C14.rsStep cfg.reset) {} s.out).expect = none ∧ (runR (C14.rsStep cfg.reset) {} s.out).fetchAt = none := hrs
  have hdl0 : C14.delayAt cfg.retryInit cfg.retryMax 0 = cfg.retryInit := rfl
  have hp0 : prevOf cfg.retryInit cfg.retryMax 0 = none := rfl
  unfold handleOffsetResponse offsetResponseTail
  simp only []
  split
  · rename_i h; exact absurd (by simpa using h) hrun
  · simp only [Bool.not_false, if_true]
    have hq : Hc cfg sane { ({ s with out := .ev (.offsetOk k off) :: s.out } : St) with requestD := .none, retryDelay := cfg.retryInit, attempts := 1, fetchOffset := off } := by
      simp only [nsm] at hn
      hc_fields hs
    exact doFetch_c hres hq (by simpa using hrun)

include hres in
theorem ev_offsetFetchOk_c (k : Nat) (off : Int) {s : St} (hs : Hc cfg sane s) (c : Bool)
    (hreq : s.requestD = .pending k .offsetFetch c) :
    Hc cfg sane (handleOffsetResponse cfg true off { s with out := .ev (.offsetFetchOk k off) :: s.out }) := by
  obtain ⟨hrun, hpk, hn, hrs⟩ := pend_facts hs k _ c hreq
  have hrs' : sane → (runR (C14.rsStep cfg.reset) {} s.out).expect = none ∧ (runR (C14.rsStep cfg.reset) {} s.out).fetchAt = none := hrs
  have hdl0 : C14.delayAt cfg.retryInit cfg.retryMax 0 = cfg.retryInit := rfl
  have hp0 : prevOf cfg.retryInit cfg.retryMax 0 = none := rfl
  unfold handleOffsetResponse offsetResponseTail
  simp only []
  split
  · rename_i h; exact absurd (by simpa using h) hrun
  · simp only [Bool.not_true, Bool.false_eq_true, if_false]
    split
    · have hq : Hc cfg sane { ({ s with out := .ev (.offsetFetchOk k off) :: s.out } : St) with requestD := .none, retryDelay := cfg.retryInit, attempts := 1, fetchOffset := if cfg.reset == some offsetLatest then offsetLatest else offsetEarliest } := by
        generalize (if cfg.reset == some offsetLatest then offsetLatest else offsetEarliest) = fo
        simp only [nsm] at hn
        hc_fields hs
      exact doFetch_c hres hq (by simpa using hrun)
    · have hq : Hc cfg sane { ({ s with out := .ev (.offsetFetchOk k off) :: s.out } : St) with requestD := .none, retryDelay := cfg.retryInit, attempts := 1, fetchOffset := off + 1, lastCommitted := some off } := by
        simp only [nsm] at hn
        hc_fields hs
      exact doFetch_c hres hq (by simpa using hrun)

omit hres in
theorem tick_set_c {s x : St} (hx : HRel cfg sane s x) (d : Rat) (lp : Option Looper) :
    HRel cfg sane s { emit (.setTimer .loop d) x with looper := lp } := by
  cleaf hx

omit hres in
theorem ev_advance_c (dt now' : Rat) {s : St} (hs : Hc cfg sane s) :
    Hc cfg sane { ({ s with out := .ev (.advance dt) :: s.out } : St) with now := now' } := by
  hc_fields hs

omit hres in
theorem ev_env_c (rq cm : Option (ErrKind × Nat)) {s : St} (hs : Hc cfg sane s) :
    Hc cfg sane { ({ s with out := .ev (.env rq cm) :: s.out } : St) with envReq := rq, envCommit := cm } := by
  hc_fields hs

omit hres in
theorem pre_0  {s : St} (hs : Hc cfg sane s) :
    Hc cfg sane ({ s with out := .ev .stop :: s.out } : St) := by
  hc_fields hs

omit hres in
theorem pre_1  {s : St} (hs : Hc cfg sane s) :
    Hc cfg sane ({ s with out := .ev .shutdown :: s.out } : St) := by
  hc_fields hs

omit hres in
theorem pre_2  {s : St} (hs : Hc cfg sane s) :
    Hc cfg sane ({ s with out := .ev .commit :: s.out } : St) := by
  hc_fields hs

omit hres in
theorem pre_3 (k : Nat) (ek : ErrKind) (tag : Nat) {s : St} (hs : Hc cfg sane s) :
    Hc cfg sane ({ s with out := .ev (.offsetErr k ek tag) :: s.out } : St) := by
  hc_fields hs

omit hres in
theorem pre_4 (k : Nat) (ek : ErrKind) (tag : Nat) {s : St} (hs : Hc cfg sane s) :
    Hc cfg sane ({ s with out := .ev (.offsetFetchErr k ek tag) :: s.out } : St) := by
  hc_fields hs

omit hres in
theorem pre_5 (k : Nat) (rq : CommitReq) {s : St} (hs : Hc cfg sane s) :
    Hc cfg sane ({ s with out := .ev (.commitOk k) :: s.out, commitReq := none, lastCommitted := some rq.off } : St) := by
  hc_fields hs

omit hres in
theorem pre_6 (k : Nat) (ek : ErrKind) (tag : Nat) {s : St} (hs : Hc cfg sane s) :
    Hc cfg sane ({ s with out := .ev (.commitErr k ek tag) :: s.out, commitReq := none } : St) := by
  hc_fields hs

omit hres in
theorem pre_7  {s : St} (hs : Hc cfg sane s) :
    Hc cfg sane ({ s with out := .ev .retryFire :: s.out, retryCall := .dead } : St) := by
  hc_fields hs

omit hres in
theorem pre_8  {s : St} (hs : Hc cfg sane s) :
    Hc cfg sane ({ s with out := .ev .commitRetryFire :: s.out, commitCall := .dead } : St) := by
  hc_fields hs

omit hres in
theorem pre_9 (l : Looper) {s : St} (hs : Hc cfg sane s) :
    Hc cfg sane ({ s with out := .ev .autoCommitTick :: s.out, looper := some { l with due := none } } : St) := by
  hc_fields hs

include hres in
theorem stepCore_c (e : Ev) {s s' : St} (hs : Hc cfg sane s) (ht : A.TopF s) (he : sane → EvSane e)
    (hnf : ∀ k tag, e = .fetchErr k .outOfRange tag → cfg.reset ≠ none)
    (h : stepCore cfg { s with out := .ev e :: s.out } e = some s') : Hc cfg sane s' := by
  have hin := opsN_c cfg sane cfg.depth
  cases e with
  | start off => simp only [stepCore, Option.some.injEq] at h; subst h; exact ev_start_c hres off hs
  | stop =>
    simp only [stepCore, Option.some.injEq] at h; subst h
    have hq := pre_0 (cfg := cfg) (sane := sane)  hs
    exact ((stop_c hin) _ hq).1
  | shutdown =>
    simp only [stepCore, Option.some.injEq] at h; subst h
    have hq := pre_1 (cfg := cfg) (sane := sane)  hs
    exact ((shutdown_c hin) _ hq).1
  | commit =>
    simp only [stepCore, Option.some.injEq] at h; subst h
    have hq := pre_2 (cfg := cfg) (sane := sane)  hs
    exact ((commitUser_c cfg sane) _ hq).1
  | fetchOk k r =>
    simp only [stepCore] at h
    split at h
    · rename_i hq
      obtain ⟨c, hreq⟩ := A.req_of_guard' hq
      simp only [Option.some.injEq] at h; subst h
      exact ev_fetchOk_c k r hs c hreq
    · cases h
  | fetchErr k ek tag =>
    simp only [stepCore] at h
    split at h
    · rename_i hq
      obtain ⟨c, hreq⟩ := A.req_of_guard' hq
      simp only [Option.some.injEq] at h; subst h
      exact ev_fetchErr_c k ek tag hs c hreq (fun hc => hnf k tag (by rw [hc.1]) hc.2)
    · cases h
  | offsetOk k off =>
    simp only [stepCore] at h
    split at h
    · rename_i hq
      obtain ⟨c, hreq⟩ := A.req_of_guard' hq
      simp only [Option.some.injEq] at h; subst h
      exact ev_offsetOk_c hres k off hs c hreq he
    · cases h
  | offsetErr k ek tag =>
    simp only [stepCore] at h
    split at h
    · rename_i hq
      obtain ⟨c, hreq⟩ := A.req_of_guard' hq
      simp only [Option.some.injEq] at h; subst h
      have hp := (pend_facts hs k _ c hreq).2.1
      have hq := pre_3 (cfg := cfg) (sane := sane) k ek tag hs
      exact (handleOffsetError_c _ (HRel.refl hq) hp).1
    · cases h
  | offsetFetchOk k off =>
    simp only [stepCore] at h
    split at h
    · rename_i hq
      obtain ⟨c, hreq⟩ := A.req_of_guard' hq
      simp only [Option.some.injEq] at h; subst h
      exact ev_offsetFetchOk_c hres k off hs c hreq
    · cases h
  | offsetFetchErr k ek tag =>
    simp only [stepCore] at h
    split at h
    · rename_i hq
      obtain ⟨c, hreq⟩ := A.req_of_guard' hq
      simp only [Option.some.injEq] at h; subst h
      have hp := (pend_facts hs k _ c hreq).2.1
      have hq := pre_4 (cfg := cfg) (sane := sane) k ek tag hs
      exact (handleOffsetError_c _ (HRel.refl hq) hp).1
    · cases h
  | commitOk k =>
    simp only [stepCore] at h
    split at h
    · rename_i rq hrq
      split at h
      · simp only [Option.some.injEq] at h; subst h
        have hq := pre_5 (cfg := cfg) (sane := sane) k rq hs
        exact ((deliver_c hin _) _ hq).1
      · cases h
    · cases h
  | commitErr k ek tag =>
    simp only [stepCore] at h
    split at h
    · rename_i rq hrq
      split at h
      · simp only [Option.some.injEq] at h; subst h
        have hq := pre_6 (cfg := cfg) (sane := sane) k ek tag hs
        exact ((handleCommitError_c hin _ _ _) _ hq).1
      · cases h
    · cases h
  | procOk =>
    simp only [stepCore] at h
    split at h
    · rename_i g hp
      simp only [Option.some.injEq] at h; subst h
      exact procResult_c hin g none hs .procOk (Or.inl ⟨rfl, rfl⟩)
    · cases h
  | procErr ek tag =>
    simp only [stepCore] at h
    split at h
    · rename_i g hp
      simp only [Option.some.injEq] at h; subst h
      exact procResult_c hin g _ hs (.procErr ek tag) (Or.inr ⟨ek, tag, rfl, rfl⟩)
    · cases h
  | retryFire =>
    simp only [stepCore] at h
    split at h
    · rename_i due hdue
      split at h
      · simp only [Option.some.injEq] at h; subst h
        have hrun := ht.retryRun due hdue
        have hq := pre_7 (cfg := cfg) (sane := sane)  hs
        exact doFetch_c hres hq (by simpa using hrun)
      · cases h
    · cases h
  | commitRetryFire =>
    simp only [stepCore] at h
    split at h
    · split at h
      · simp only [Option.some.injEq] at h; subst h
        have hq := pre_8 (cfg := cfg) (sane := sane)  hs
        exact ((sendCommitRequest_c cfg sane _ _) _ hq).1
      · cases h
    · cases h
  | autoCommitTick =>
    simp only [stepCore] at h
    cases hl : s.looper with
    | none => simp [hl] at h
    | some l =>
      cases hd : l.due with
      | none => simp [hl, hd] at h
      | some due =>
        simp only [hl, hd] at h
        split at h
        · have hq := pre_9 (cfg := cfg) (sane := sane) l hs
          have hq1 := (autoCommit_c cfg sane false) _ hq
          generalize autoCommit cfg false { s with out := .ev .autoCommitTick :: s.out, looper := some { l with due := none } } = x at h hq1
          split at h
          · simp only [Option.some.injEq] at h; subst h
            exact (tick_set_c hq1 _ _).1
          · simp only [Option.some.injEq] at h; subst h
            exact hq1.1
        · cases h
  | advance dt =>
    simp only [stepCore] at h
    split at h
    · cases h
    · simp only [Option.some.injEq] at h; subst h
      exact ev_advance_c dt _ hs
  | env rq cm =>
    simp only [stepCore, Option.some.injEq] at h; subst h
    exact ev_env_c rq cm hs

omit hres in
theorem rej_c (e : Ev) {s : St} (hs : Hc cfg sane s) : Hc cfg sane { s with out := .rej e :: s.out } := by
  hc_fields hs

omit hres in
theorem probe_c {s : St} (hs : Hc cfg sane s) : Hc cfg sane (probe s) := by
  unfold probe emit
  hc_fields hs

include hres in
theorem step_c (e : Ev) {s : St} (hs : Hc cfg sane s) (ht : A.TopF s) (he : sane → EvSane e) : Hc cfg sane (step cfg s e) := by
  unfold step
  split
  · exact rej_c e hs
  · rename_i hcr
    by_cases hfat : ∃ k tag, e = .fetchErr k .outOfRange tag ∧ cfg.reset = none
    · obtain ⟨k, tag, rfl, hr⟩ := hfat
      by_cases hg : (s.requestD == .pending k .fetch false || s.requestD == .pending k .fetch true) = true
      · obtain ⟨c, hreq⟩ := A.req_of_guard' hg
        obtain ⟨f1, f2⟩ := ev_fetchErr_fatal k tag hs c hreq hr
        have hcr' : s.crashed = false := by simpa using hcr
        have hsc : stepCore cfg { s with out := .ev (.fetchErr k .outOfRange tag) :: s.out } (.fetchErr k .outOfRange tag) =
            some (handleFetchError cfg (.ext .outOfRange tag) { s with out := .ev (.fetchErr k .outOfRange tag) :: s.out }) := by
          simp only [stepCore]; rw [if_pos hg]
        have hnc : ¬ (handleFetchError cfg (.ext .outOfRange tag) { s with out := .ev (.fetchErr k .outOfRange tag) :: s.out }).crashed = true := by
          rw [f2, hcr']; simp
        rw [hsc]
        dsimp only
        rw [if_neg hnc]
        exact f1
      · have hsc : stepCore cfg { s with out := .ev (.fetchErr k .outOfRange tag) :: s.out } (.fetchErr k .outOfRange tag) = none := by
          simp only [stepCore]; rw [if_neg hg]
        rw [hsc]
        exact rej_c _ hs
    · split
      · exact rej_c e hs
      · rename_i s' h
        have hq := stepCore_c hres e hs ht he (fun k tag h1' h2' => hfat ⟨k, tag, h1', h2'⟩) h
        split
        · exact hq
        · exact probe_c hq

end

theorem init_c (cfg : Cfg) (sane : Prop) (script : List PEntry) : Hc cfg sane (init cfg script) := by
  refine ⟨?_, ?_, ?_, fun _ => ?_⟩
  · constructor <;> simp [init]
  · constructor <;> simp [init, nsm]
  · intro _; constructor <;> simp [init, dlm, prevOf, C14.delayAt]
  · constructor <;> simp [init, rsm]

/-- every reachable state satisfies `Hc` -/
theorem run_c (cfg : Cfg) (sane : Prop) (script : List PEntry)
    (hres : sane → ∀ v, cfg.reset = some v → v = offsetEarliest ∨ v = offsetLatest) :
    ∀ (evs : List Ev), (sane → ∀ e ∈ evs, EvSane e) → Hc cfg sane (run cfg script evs) := by
  intro evs
  induction evs using List.reverseRecOn with
  | nil => intro _; exact init_c cfg sane script
  | append_singleton es e ih =>
    intro he
    have : run cfg script (es ++ [e]) = step cfg (run cfg script es) e := by
      unfold run; rw [List.foldl_append]; rfl
    rw [this]
    exact step_c hres e (ih (fun hP x hx => he hP x (List.mem_append_left _ hx))) (A.topF_run cfg script es)
      (fun hP => he hP e (by simp))

end Afkak.Proofs.Consumer.B
