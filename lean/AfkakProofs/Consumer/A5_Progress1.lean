import Afkak.Consumer
/-!
# C02, liveness half (1): "a running consumer is never stuck" - definitions, the events `Enabled` speaks of are
really accepted, the full-strength statement `C02_never_stuck` and its COUNTEREXAMPLE.

`Running s`: the consumer was started, the start Deferred has not fired (no failure was reported, not stopped), no
shutdown is in progress, nothing crashed.  `Enabled s`: the environment owes the consumer an event that it will accept
and that makes it go on: the reply to the outstanding fetch/offset request, the refetch timer, the processor's result.

The full-strength statement is FALSE of the model (and of `afkak/consumer.py`, which the model follows here): a fetch
reply that arrives while the processor's result is pending is parked behind `_msg_block_d`
(`self._msg_block_d.addCallbacks(lambda _: self._handle_fetch_response(responses), …)`); when iterating its messages
raises (ChecksumError, a codec error: `Tail.raise`) the exception ends up as the unhandled result of the fired
`_msg_block_d` instead of reaching `_handle_fetch_error` (which is an errback of the REQUEST Deferred): no retry is
scheduled, no request is outstanding, the start Deferred never fires.  `c02_never_stuck_counterexample`.
The partial theorem (`c02_never_stuck_partial`, `A5_Progress11.lean`) excludes exactly that: no fetch reply whose
iteration raises.  Replayed on the real code (harness.lib.consumer_run, scenario: start 0; fetchDone 0 ok 0:1 end (processor
returns a Deferred); retryFire; fetchDone 1 ok 1:2 raise:other:7; procDone ok): [1:2] is delivered, then no timer, no
request, the start Deferred never fires.
-/
namespace Afkak.Proofs.Consumer.L
open Afkak.Consumer

/-- the consumer runs: started, the start Deferred still pending, not stopping, not shutting down, not crashed -/
def Running (s : St) : Bool := !s.crashed && s.startD == .pending && !s.shuttingDown && !s.stopping

def reqPending : ReqD → Bool
  | .pending _ _ _ => true
  | _ => false

def timerPending : TRef → Bool
  | .pending _ => true
  | _ => false

/-- the environment owes the consumer an event: a fetch/offset reply, the refetch timer, the processor's result -/
def Enabled (s : St) : Bool := reqPending s.requestD || timerPending s.retryCall || s.proc.isSome

/-- the event `e` is accepted in state `s` (`step` applies it: it is not answered with `rej`) -/
def Accepted (cfg : Cfg) (s : St) (e : Ev) : Bool :=
  !s.crashed && (stepCore cfg { s with out := .ev e :: s.out } e).isSome

/-- an accepted event is applied by `step` (not answered with `rej`) -/
theorem step_of_accepted (cfg : Cfg) (s : St) (e : Ev) (h : Accepted cfg s e = true) :
    ∃ s', stepCore cfg { s with out := .ev e :: s.out } e = some s' ∧ (step cfg s e = s' ∨ step cfg s e = probe s') := by
  simp only [Accepted, Bool.and_eq_true, Bool.not_eq_true', Option.isSome_iff_exists] at h
  obtain ⟨hc, s', hs'⟩ := h
  refine ⟨s', hs', ?_⟩
  unfold step
  rw [hs']
  by_cases h2 : s'.crashed = true <;> simp [h2, hc]

/-! ### Each disjunct of `Enabled` enables its event -/

/-- a pending fetch request: its reply (any) and its failure (any) are accepted -/
theorem enabled_fetch (cfg : Cfg) (s : St) (k : Nat) (c : Bool) (hc : s.crashed = false) (h : s.requestD = .pending k .fetch c)
    (r : Reply) (ek : ErrKind) (tag : Nat) :
    Accepted cfg s (.fetchOk k r) = true ∧ Accepted cfg s (.fetchErr k ek tag) = true := by
  cases c <;> simp [Accepted, stepCore, hc, h]

theorem enabled_offsets (cfg : Cfg) (s : St) (k : Nat) (c : Bool) (hc : s.crashed = false) (h : s.requestD = .pending k .offsets c)
    (off : Int) (ek : ErrKind) (tag : Nat) :
    Accepted cfg s (.offsetOk k off) = true ∧ Accepted cfg s (.offsetErr k ek tag) = true := by
  cases c <;> simp [Accepted, stepCore, hc, h]

theorem enabled_offsetFetch (cfg : Cfg) (s : St) (k : Nat) (c : Bool) (hc : s.crashed = false) (h : s.requestD = .pending k .offsetFetch c)
    (off : Int) (ek : ErrKind) (tag : Nat) :
    Accepted cfg s (.offsetFetchOk k off) = true ∧ Accepted cfg s (.offsetFetchErr k ek tag) = true := by
  cases c <;> simp [Accepted, stepCore, hc, h]

/-- the time still to pass until the refetch timer is due -/
def waitFor (s : St) : Rat :=
  match s.retryCall with
  | .pending due => if s.now ≤ due then due - s.now else 0
  | _ => 0

/-- a pending refetch timer: letting the time pass is accepted, and then the timer's firing is -/
theorem enabled_timer (cfg : Cfg) (s : St) (due : Rat) (hc : s.crashed = false) (h : s.retryCall = .pending due) :
    Accepted cfg s (.advance (waitFor s)) = true ∧ Accepted cfg (step cfg s (.advance (waitFor s))) .retryFire = true := by
  have hw : ¬ waitFor s < 0 := by
    simp only [waitFor, h]; split <;> grind
  have hd : due ≤ s.now + waitFor s := by
    simp only [waitFor, h]; split <;> grind
  refine ⟨by simp [Accepted, stepCore, hc, hw], ?_⟩
  simp [Accepted, step, stepCore, hc, hw, probe, emit, h, hd]

/-- a pending processor result: its arrival (success or failure) is accepted -/
theorem enabled_proc (cfg : Cfg) (s : St) (g : Gen) (hc : s.crashed = false) (h : s.proc = some g) (ek : ErrKind) (tag : Nat) :
    Accepted cfg s .procOk = true ∧ Accepted cfg s (.procErr ek tag) = true := by
  simp [Accepted, stepCore, hc, h]

/-- `Enabled` is exactly: one of the three kinds of event is owed -/
theorem enabled_iff (s : St) : Enabled s = true ↔
    (∃ k kind c, s.requestD = .pending k kind c) ∨ (∃ due, s.retryCall = .pending due) ∨ (∃ g, s.proc = some g) := by
  unfold Enabled reqPending timerPending
  cases s.requestD <;> cases s.retryCall <;> cases s.proc <;> simp

/-! ### The full-strength statement, and the reply parked behind a block whose iteration raises -/

/-- Full strength: a running consumer is never stuck - in every reachable running state the environment owes it an
    event (reply, timer, processor result) whose arrival it accepts.  FALSE: `c02_never_stuck_counterexample`. -/
def C02_never_stuck : Prop :=
  ∀ (cfg : Cfg) (script : List PEntry) (evs : List Ev),
    Running (run cfg script evs) = true → Enabled (run cfg script evs) = true

def cexCfg : Cfg :=
  { group := false, autoN := 0, autoS := 0, bufInit := 100, bufMax := none, retryInit := 1, retryMax := 2, maxAttempts := 0,
    reset := none }

/-- the processor returns a Deferred for the first block; while it is pending the refetch goes out and its reply -
    one more message, then the iteration raises (e.g. ChecksumError) - is parked; the result arrives -/
def cexEvs : List Ev :=
  [.start 0, .fetchOk 0 { msgs := [⟨0, 1⟩], tail := .done }, .retryFire,
   .fetchOk 1 { msgs := [⟨1, 2⟩], tail := .raise .other 7 }, .procOk]

/-- … the parked reply's message is delivered, the exception is lost: the consumer is running, no request is
    outstanding, no timer is set, no processor result is pending - and the start Deferred has not fired. -/
theorem c02_never_stuck_counterexample : ¬ C02_never_stuck := by
  intro h
  have := h cexCfg [{ acts := [], res := .defer }] cexEvs (by decide +kernel)
  revert this
  decide +kernel

/-- what the model does on the witness: both messages are delivered, nothing is reported, nothing is pending -/
example :
    (trace cexCfg [{ acts := [], res := .defer }] cexEvs).filterMap (fun | .ob (.proc blk) => some blk | _ => none)
        = [[⟨0, 1⟩], [⟨1, 2⟩]] ∧
      (trace cexCfg [{ acts := [], res := .defer }] cexEvs).all (fun | .ob (.startFired _) => false | .rej _ => false | _ => true) = true ∧
      (run cexCfg [{ acts := [], res := .defer }] cexEvs).requestD = .none ∧
      (run cexCfg [{ acts := [], res := .defer }] cexEvs).retryCall = .none := by
  decide +kernel

end Afkak.Proofs.Consumer.L
