import AfkakProofs.Consumer.A5_Succ1
/-!
# C03: a block is handed over only after the previous one succeeded (or a restart): the processing loop, `stop()`, every event
-/
namespace Afkak.Proofs.Consumer.A5
open Afkak.Consumer Afkak.Monitor Afkak.Consts Afkak.Proofs.Consumer

/-- inside the processing loop: the block is in the way (or the consumer stopped) -/
def LoopRel (s0 s : St) : Prop := Hb s ∧ R s ∧ (s0.stopping = false → s.stopping = false)

/-- for the handlers that contain the processing loop -/
def LB (s0 x : St) : Prop := Hb x ∧ (s0.stopping = false → x.stopping = false)

/-- the loop may hand over the next block (the previous one succeeded), or will not try (stopping) -/
def P (s : St) : Prop := (bm s).opn = false ∨ s.stopping = true

/-- when the loop has run to its end (`done`, nothing suspended): the last block succeeded, or the consumer is stopping / stopped -/
def Post (r : St × Bool) : Prop :=
  r.2 = true → r.1.proc = none → (bm r.1).opn = false ∨ r.1.stopping = true ∨ r.1.startD = .none

theorem LB.trans {a b c : St} (h1 : LB a b) (h2 : LB b c) : LB a c := ⟨h2.1, fun h => h2.2 (h1.2 h)⟩
theorem BRel.toLB {a b : St} (h : BRel a b) : LB a b := ⟨h.1, h.2.2.2.1⟩
theorem PresB.stepLB {h : St → St} (hh : PresB h) {s x : St} (hx : LB s x) : LB s (h x) := hx.trans (hh x hx.1).toLB

theorem hpe_keep (f : Fail) (s : St) : (handleProcessorError f s).stopping = s.stopping ∧
    (s.startD = .none → (handleProcessorError f s).startD = .none) := by
  unfold handleProcessorError startErrback emit
  grind

theorem startErrback_stopping (f : Fail) (s : St) : (startErrback f s).stopping = s.stopping := by
  unfold startErrback emit; grind

theorem procEnter_b {s : St} (hs : Hb s) (ho : (bm s).opn = false) (blk rest' : List Msg) (last : Int) :
    Hb (procEnter blk rest' last s) ∧ (R s → R (procEnter blk rest' last s)) ∧
      (procEnter blk rest' last s).stopping = s.stopping := by
  unfold procEnter
  refine ⟨by hb_fields hs, fun h => h, rfl⟩

theorem procLeave_b {s : St} (hs : Hb s) (hR : R s) (rest' : List Msg) (last : Int) (res : PRes) :
    Hb (procLeave res rest' last s) ∧ R (procLeave res rest' last s) ∧
      (procLeave res rest' last s).stopping = s.stopping ∧
      (res = .ok → (bm (procLeave res rest' last s)).opn = false) ∧
      (res = .defer → (procLeave res rest' last s).proc.isSome = true ∨ (procLeave res rest' last s).stopping = true ∨
        (procLeave res rest' last s).startD = .none) := by
  have hR' := hR
  unfold R at hR'
  unfold procLeave
  cases res with
  | ok =>
    dsimp only
    refine ⟨by hb_fields hs, hR, rfl, fun _ => by simp [bm, emit, runR_cons, blkStep], fun h => (by cases h)⟩
  | err k t =>
    dsimp only
    refine ⟨by hb_fields hs, hR, rfl, fun h => (by cases h), fun h => (by cases h)⟩
  | defer =>
    dsimp only
    split
    · rename_i hc
      refine ⟨by hb_fields hs, hR, rfl, fun h => (by cases h), fun _ => ?_⟩
      simp only [emit]
      simp only [Bool.or_eq_true, beq_iff_eq] at hc
      rcases hc with hc | hc
      · exact Or.inr (Or.inl hc)
      · exact Or.inr (Or.inr hc)
    · refine ⟨by hb_fields hs, hR, rfl, fun h => (by cases h), fun _ => Or.inl rfl⟩

section
variable {cfg : Cfg} {inner : Ops} (hin : OpsB inner)
include hin

theorem procBody_b (k : St → St × Bool) {s0 : St}
    (hk : ∀ s', LoopRel s0 s' → P s' → LB s0 (k s').1 ∧ Post (k s'))
    (blk rest' : List Msg) (last : Int) (e : PEntry) {s : St} (h : LoopRel s0 s) (ho : (bm s).opn = false) :
    LB s0 (procBody cfg inner k blk rest' last e s).1 ∧ Post (procBody cfg inner k blk rest' last e s) := by
  obtain ⟨hs, hR, hst⟩ := h
  obtain ⟨g1, r1, st1⟩ := procEnter_b hs ho blk rest' last
  have g2 : BRel (procEnter blk rest' last s) (procActs inner e.acts (procEnter blk rest' last s)) :=
    acts_b hin e.acts (BRel.refl g1)
  have r2 := g2.2.2.1 (r1 hR)
  obtain ⟨g3, r3, st3, ok3, df3⟩ := procLeave_b g2.1 r2 rest' last e.res
  have hst3 : s0.stopping = false →
      (procLeave e.res rest' last (procActs inner e.acts (procEnter blk rest' last s))).stopping = false := by
    intro h0
    rw [st3]
    exact g2.2.2.2.1 (by rw [st1]; exact hst h0)
  unfold procBody
  simp only []
  generalize procLeave e.res rest' last (procActs inner e.acts (procEnter blk rest' last s)) = s3 at *
  clear g1 g2 r1 r2 st1 st3
  cases hres : e.res with
  | ok =>
    simp only []
    have r4 := (autoCommit_b cfg true) s3 g3
    have o4 := r4.2.2.2.2 (ok3 hres)
    split
    · exact ⟨⟨r4.1, fun h0 => r4.2.2.2.1 (hst3 h0)⟩, fun _ _ => Or.inl o4⟩
    · exact hk _ ⟨r4.1, r4.2.2.1 r3, fun h0 => r4.2.2.2.1 (hst3 h0)⟩ (Or.inl o4)
  | err kd t =>
    simp only []
    have r4 := (handleProcessorError_b (.ext kd t)) s3 g3
    have k4 := hpe_keep (.ext kd t) s3
    split
    · rename_i hc
      refine ⟨⟨r4.1, fun h0 => r4.2.2.2.1 (hst3 h0)⟩, fun _ _ => ?_⟩
      simp only [Bool.or_eq_true, beq_iff_eq] at hc
      rcases hc with hc | hc
      · exact Or.inr (Or.inl hc)
      · exact Or.inr (Or.inr hc)
    · split
      · exact ⟨⟨r4.1, fun h0 => r4.2.2.2.1 (hst3 h0)⟩, fun h => (by cases h)⟩
      · rename_i hpass
        have hs3 : s3.stopping = true := by
          unfold procErrPassed at hpass
          simp at hpass
          exact hpass.1
        exact hk _ ⟨r4.1, r4.2.2.1 r3, fun h0 => r4.2.2.2.1 (hst3 h0)⟩ (Or.inr (by rw [k4.1]; exact hs3))
  | defer =>
    simp only []
    split
    · rename_i hp
      refine ⟨⟨g3, hst3⟩, fun _ hpn => ?_⟩
      simp only [] at hpn
      rw [hpn] at hp
      cases hp
    · rename_i hp
      have r4 := (handleProcessorError_b (.ext .cancelled 0)) s3 g3
      have k4 := hpe_keep (.ext .cancelled 0) s3
      refine ⟨⟨r4.1, fun h0 => r4.2.2.2.1 (hst3 h0)⟩, fun _ _ => ?_⟩
      rcases df3 hres with h | h | h
      · exact absurd h hp
      · exact Or.inr (Or.inl (by rw [k4.1]; exact h))
      · exact Or.inr (Or.inr (k4.2 h))

theorem procLoop_b : ∀ (fuel : Nat) (rest : List Msg) {s0 s : St}, LoopRel s0 s → P s →
    LB s0 (procLoop cfg inner fuel rest s).1 ∧ Post (procLoop cfg inner fuel rest s) := by
  intro fuel
  induction fuel with
  | zero =>
    intro rest s0 s h hP
    refine ⟨⟨h.1, h.2.2⟩, fun _ _ => ?_⟩
    rcases hP with h' | h'
    · exact Or.inl h'
    · exact Or.inr (Or.inl h')
  | succ n ih =>
    intro rest s0 s h hP
    have stay : LB s0 s ∧ Post (s, true) := by
      refine ⟨⟨h.1, h.2.2⟩, fun _ _ => ?_⟩
      rcases hP with h' | h'
      · exact Or.inl h'
      · exact Or.inr (Or.inl h')
    unfold procLoop
    split
    · exact stay
    · rename_i hc
      split
      · exact stay
      · have ho : (bm s).opn = false := by
          rcases hP with h' | h'
          · exact h'
          · simp [h'] at hc
        exact procBody_b hin _ (fun s' h' p' => ih _ h' p') _ _ _ _ h ho

theorem deliverBlock_b (msgs : List Msg) {s : St} (hs : Hb s) (hP : P s) : LB s (deliverBlock cfg inner msgs s) := by
  unfold deliverBlock
  split
  · exact ⟨hs, id⟩
  · simp only []
    have h1 : LoopRel s { s with msgBlock := true } := ⟨by hb_fields hs, Or.inl rfl, id⟩
    have h2 := procLoop_b (cfg := cfg) hin (msgs.length + 1) msgs h1 hP
    generalize (procLoop cfg inner (msgs.length + 1) msgs { s with msgBlock := true }) = res at *
    obtain ⟨s2, done⟩ := res
    obtain ⟨h2a, h2b⟩ := h2
    simp only [Post] at h2b
    simp only [] at *
    split
    · exact h2a
    · rename_i hc
      have hq : (bm s2).opn = false ∨ s2.stopping = true ∨ s2.startD = .none := by
        cases hp : s2.proc with
        | none =>
          cases done with
          | true => exact h2b rfl hp
          | false => simp at hc
        | some g => simp [hp] at hc
      unfold finishSimple
      split
      · have := h2a.1
        exact ⟨by hb_fields this, h2a.2⟩
      · exact h2a

theorem fetchTail_b (via : Bool) (r : Reply) {s : St} (hs : Hb s) (hP : P s) : LB s (fetchTail cfg inner via r s) := by
  unfold fetchTail
  simp only []
  generalize (extract s.fetchOffset r.msgs).2 = fo'
  generalize (extract s.fetchOffset r.msgs).1 = msgs
  have hb : Hb { s with fetchOffset := fo' } := by hb_fields hs
  have hD : ∀ y : St, Hb y → P y → LB y (deliverBlock cfg inner msgs y) := fun y a b => deliverBlock_b hin msgs a b
  have l0 : LB s { s with fetchOffset := fo' } := ⟨hb, id⟩
  split
  · exact l0.trans ((retryFetch_b cfg _).stepLB (hD _ hb hP))
  · split
    · rename_i bb hbb
      have hb2 : Hb { s with fetchOffset := fo', bufferSize := bb } := by hb_fields hs
      exact (show LB s { s with fetchOffset := fo', bufferSize := bb } from ⟨hb2, id⟩).trans
        ((retryFetch_b cfg _).stepLB (hD _ hb2 hP))
    · have h3 := (startErrback_b .tooSmall) _ hb
      have hP3 : P (startErrback .tooSmall { s with fetchOffset := fo' }) := by
        rcases hP with h | h
        · exact Or.inl (h3.2.2.2.2 h)
        · exact Or.inr (by rw [startErrback_stopping]; exact h)
      have h5 : LB s (deliverBlock cfg inner msgs (startErrback .tooSmall { s with fetchOffset := fo' })) :=
        l0.trans (h3.toLB.trans (hD _ h3.1 hP3))
      split
      · exact (handleFetchError_b cfg _).stepLB h5
      · exact h5
  · have h5 : LB s (deliverBlock cfg inner msgs { s with fetchOffset := fo' }) := l0.trans (hD _ hb hP)
    split
    · exact h5
    · exact (handleFetchError_b cfg _).stepLB h5

theorem finishFull_b {s : St} (hs : Hb s) (hq : (bm s).opn = false ∨ s.stopping = true ∨ s.startD = .none) :
    LB s (finishFull cfg inner s) := by
  unfold finishFull
  split
  · simp only []
    split
    · split
      · exact ⟨by hb_fields hs, id⟩
      · rename_i hsd
        unfold fetchBody
        have h4 : Hb { s with msgBlock := false, parked := none, retryDelay := cfg.retryInit, attempts := 1, requestD := .none } := by
          hb_fields hs
        have hP : P { s with msgBlock := false, parked := none, retryDelay := cfg.retryInit, attempts := 1, requestD := .none } := by
          rcases hq with h | h | h
          · exact Or.inl h
          · exact Or.inr h
          · simp [h] at hsd
        exact (show LB s { s with msgBlock := false, parked := none, retryDelay := cfg.retryInit, attempts := 1, requestD := .none }
          from ⟨h4, id⟩).trans (fetchTail_b hin true _ h4 hP)
    · exact ⟨by hb_fields hs, id⟩
  · exact ⟨hs, id⟩

/-- The processor's Deferred fires at top level (`x` = the event that says so). -/
theorem procResult_b (g : Gen) (r : Option Fail) {s : St} (hs : Hb s) (hmb : s.msgBlock = true) (hst : s.stopping = false) (x : Ev)
    (hx : (r = none ∧ x = .procOk) ∨ (∃ k t, r = some (.ext k t) ∧ x = .procErr k t)) :
    LB s (procResult cfg inner g r { s with out := .ev x :: s.out }) := by
  unfold procResult
  simp only []
  rcases hx with ⟨rfl, rfl⟩ | ⟨k, t, rfl, rfl⟩
  · simp only []
    unfold procFired
    simp only []
    have a : Hb { ({ s with out := Item.ev Ev.procOk :: s.out } : St) with proc := none, lastProcessed := some g.last } := by
      hb_fields hs
    have oa : (bm { ({ s with out := Item.ev Ev.procOk :: s.out } : St) with proc := none, lastProcessed := some g.last }).opn = false := by
      simp [bm, runR_cons, blkStep]
    have b := autoCommit_b cfg true _ a
    have st1 := b.2.2.2.1 hst
    have o1 := b.2.2.2.2 oa
    have r1 := b.2.2.1 (Or.inl hmb)
    generalize autoCommit cfg true { ({ s with out := Item.ev Ev.procOk :: s.out } : St) with proc := none, lastProcessed := some g.last } = s1 at *
    have hres : LB s1 (procResume cfg inner g false s1) := by
      unfold procResume
      simp only [Bool.false_eq_true, if_false]
      have h3 := procLoop_b (cfg := cfg) hin (g.rest.length + 1) g.rest (s0 := s1) ⟨b.1, r1, id⟩ (Or.inl o1)
      obtain ⟨h3a, h3b⟩ := h3
      split
      · exact h3a
      · rename_i hc
        have hq : (bm (procLoop cfg inner (g.rest.length + 1) g.rest s1).1).opn = false ∨
            (procLoop cfg inner (g.rest.length + 1) g.rest s1).1.stopping = true ∨
            (procLoop cfg inner (g.rest.length + 1) g.rest s1).1.startD = .none := by
          cases hp : (procLoop cfg inner (g.rest.length + 1) g.rest s1).1.proc with
          | none =>
            cases hd : (procLoop cfg inner (g.rest.length + 1) g.rest s1).2 with
            | true => exact h3b hd hp
            | false => simp [hd] at hc
          | some g' => simp [hp] at hc
        exact h3a.trans (finishFull_b hin h3a.1 hq)
    have l1 : LB s s1 := ⟨b.1, fun _ => st1⟩
    split
    · exact (commitAndStop_b hin).stepLB (l1.trans hres)
    · exact l1.trans hres
  · have hpass : procErrPassed (.ext k t) { s with out := .ev (.procErr k t) :: s.out } = true := by
      simp [procErrPassed, hst]
    simp only [hpass]
    unfold procFired procResume
    simp only [if_true]
    have a : Hb { ({ s with out := Item.ev (Ev.procErr k t) :: s.out } : St) with proc := none } := by
      hb_fields hs
    have b := handleProcessorError_b (.ext k t) _ a
    have l1 : LB s (handleProcessorError (.ext k t) { ({ s with out := Item.ev (Ev.procErr k t) :: s.out } : St) with proc := none }) :=
      ⟨b.1, fun h => b.2.2.2.1 h⟩
    split
    · exact (commitAndStop_b hin).stepLB l1
    · exact l1

/-- `stop()`: the block is dropped and the suspended generator's Deferred cancelled. -/
theorem stopBlockProc_b {s : St} (hs : Hb s) (hst : s.stopping = true) :
    Hb (stopBlockProc cfg inner s) ∧ (stopBlockProc cfg inner s).frame = s.frame ∧
      ((bm s).opn = false → (bm (stopBlockProc cfg inner s)).opn = false) := by
  have hsb : Hb (stopBlock s) ∧ (stopBlock s).frame = s.frame ∧ (bm (stopBlock s)).opn = (bm s).opn ∧
      (stopBlock s).msgBlock = false ∧ (stopBlock s).stopping = true := by
    unfold stopBlock
    split
    · exact ⟨by hb_fields hs, rfl, rfl, rfl, hst⟩
    · rename_i hmb
      exact ⟨hs, rfl, rfl, by simpa using hmb, hst⟩
  obtain ⟨hb, fr1, op1, mb1, st1⟩ := hsb
  unfold stopBlockProc
  split
  · rename_i g hg
    generalize stopBlock s = t at *
    have hcancel : (Fail.ext ErrKind.cancelled 0).isCancelled = true := rfl
    have a : Hb { emit .procCancel t with proc := none } := by hb_fields hb
    have oa : (bm { emit .procCancel t with proc := none }).opn = (bm t).opn := by
      simp [bm, emit, runR_cons, blkStep]
    have b := (handleProcessorError_b (.ext .cancelled 0)) _ a
    have hk : (handleProcessorError (.ext .cancelled 0) { emit .procCancel t with proc := none }).stopping = true ∧
        (handleProcessorError (.ext .cancelled 0) { emit .procCancel t with proc := none }).msgBlock = false ∧
        (handleProcessorError (.ext .cancelled 0) { emit .procCancel t with proc := none }).proc = none := by
      unfold handleProcessorError startErrback emit
      simp [st1, Fail.isCancelled, mb1]
    have e : procResult cfg inner g (some (.ext .cancelled 0)) (emit .procCancel t) =
        (if g.shutWait then commitAndStop cfg inner (handleProcessorError (.ext .cancelled 0) { emit .procCancel t with proc := none })
         else handleProcessorError (.ext .cancelled 0) { emit .procCancel t with proc := none }) := by
      have hpass : procErrPassed (.ext .cancelled 0) (emit .procCancel t) = false := by
        simp [procErrPassed, emit, st1, hcancel]
      unfold procResult
      simp only [hpass]
      unfold procFired
      simp only []
      rw [A.procResume_stopping cfg inner g _ hk.1 hk.2.1 hk.2.2]
    rw [e]
    have fb : (handleProcessorError (.ext .cancelled 0) { emit .procCancel t with proc := none }).frame = s.frame := by
      rw [b.2.1]; exact fr1
    have ob : (bm s).opn = false →
        (bm (handleProcessorError (.ext .cancelled 0) { emit .procCancel t with proc := none })).opn = false := by
      intro h0
      exact b.2.2.2.2 (by rw [oa, op1]; exact h0)
    split
    · have c := (commitAndStop_b (cfg := cfg) hin) _ b.1
      exact ⟨c.1, c.2.1.trans fb, fun h0 => c.2.2.2.2 (ob h0)⟩
    · exact ⟨b.1, fb, ob⟩
  · exact ⟨hb, fr1, fun h0 => by rw [op1]; exact h0⟩

omit hin in
theorem stopFinish_b : PresB stopFinish := by presb_leaf [stopFinish crash]

omit hin in
theorem stopFinish_end (x : St) : (stopFinish x).stopping = false ∧ (stopFinish x).startD = .none := by
  unfold stopFinish crash emit
  grind

theorem stopCore_b : PresB (stopCore cfg inner) := by
  intro s hs
  have hq0 : Hb { s with stopping := true } := by hb_fields hs
  have hq1 := (stopReq_b cfg) _ hq0
  have st1 : (stopReq cfg { s with stopping := true }).stopping = true := by rw [B.stopReq_stopping']
  have hq2 := stopBlockProc_b (cfg := cfg) hin hq1.1 st1
  unfold stopCore
  simp only []
  generalize stopBlockProc cfg inner (stopReq cfg { s with stopping := true }) = t at *
  have hq3 : ∀ fuel, BRel t (stopFinish (stopTimers (stopCommitReq cfg inner (cancelWaiters cfg inner fuel (stopRetry t))))) :=
    fun fuel => stopFinish_b.step ((stopTimers_b).step ((stopCommitReq_b hin).step ((cancelWaiters_b hin fuel).step ((stopRetry_b).step (BRel.refl hq2.1)))))
  have hend := fun fuel => stopFinish_end (stopTimers (stopCommitReq cfg inner (cancelWaiters cfg inner fuel (stopRetry t))))
  refine ⟨(hq3 _).1, ?_, fun _ => Or.inr (hend _).2, fun _ => (hend _).1, fun h0 => ?_⟩
  · rw [(hq3 _).2.1, hq2.2.1, hq1.2.1]
  · exact (hq3 _).2.2.2.2 (hq2.2.2 (hq1.2.2.2.2 h0))

theorem stop_b : PresB (stop cfg inner) := by
  intro s hs
  unfold stop
  split
  · have hx := BRel.refl hs
    bleaf hx
  · simp only []
    have hq := stopCore_b (cfg := cfg) hin s hs
    bleaf hq

theorem shutdown_b : PresB (shutdown cfg inner) := by
  intro s hs
  have hx := BRel.refl hs
  unfold shutdown
  split
  · bleaf hx
  · split
    · bleaf hx
    · simp only []
      split
      · bleaf hx
      · exact (commitAndStop_b hin).step (by bleaf hx)

theorem mkOps_b : OpsB (mkOps cfg inner) :=
  ⟨stop_b hin, stopCore_b hin, commitUser_b cfg, shutdown_b hin⟩

end

theorem opsN_b (cfg : Cfg) : ∀ n, OpsB (opsN cfg n)
  | 0 => ⟨crash_b _, crash_b _, crash_b _, crash_b _⟩
  | n + 1 => mkOps_b (opsN_b cfg n)

end Afkak.Proofs.Consumer.A5
