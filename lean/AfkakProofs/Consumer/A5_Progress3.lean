import AfkakProofs.Consumer.A5_Progress1
import AfkakProofs.Consumer.A5_Progress2
/-!
# C02, liveness half (3): bounded continuation from an idle running state - ONE faithful fetch reply delivers the rest of
the log (`c02_progress_idle`)
-/
namespace Afkak.Proofs.Consumer.L
open Afkak.Consumer Afkak.Monitor Afkak.Consts Afkak.Props.Open.C02 Afkak.Proofs.Consumer

/-- the id of the outstanding request -/
def reqIdOf (s : St) : Nat :=
  match s.requestD with
  | .pending k _ _ => k
  | _ => 0

def fetchPending : ReqD → Bool
  | .pending _ .fetch _ => true
  | _ => false

/-- the outstanding request's id was used for no request at another offset (request ids are never reused; true of every
    reachable state as far as tested, not proved: it is a hypothesis of the progress theorem) -/
def uniqueFetch (s : St) : Bool :=
  s.out.all fun
    | .ob (.fetch k off _) => k != reqIdOf s || off == s.fetchOffset
    | _ => true

/-- running, waiting for the reply to a fetch request at a Kafka offset, nothing being processed, and the processor
    returns at once from now on -/
def IdleAt (s : St) : Bool :=
  Running s && fetchPending s.requestD && !s.msgBlock && s.proc.isNone && okScript s && decide (0 ≤ s.fetchOffset) &&
    uniqueFetch s

/-- the continuation: the broker answers the outstanding request with the rest of the log -/
def cont (log : List Msg) (s : St) : List Ev :=
  [.fetchOk (reqIdOf s) { msgs := restFrom log s.fetchOffset, tail := .done }]

/-- the state in which `_handle_fetch_response` starts on the messages of a reply -/
def replied (cfg : Cfg) (s : St) (e : Ev) (fo : Int) : St :=
  { s with out := .ev e :: s.out, retryDelay := cfg.retryInit, attempts := 1, requestD := .none, fetchOffset := fo }

theorem step_fetch_idle' (cfg : Cfg) (s : St) (k : Nat) (c : Bool) (r : Reply) (hr : r.tail = .done) (hc : s.crashed = false)
    (hreq : s.requestD = .pending k .fetch c) (hst : s.startD = .pending) (hmb : s.msgBlock = false) :
    step cfg s (.fetchOk k r) =
      if (retryFetch cfg (some 0) (deliverBlock cfg (opsN cfg cfg.depth) (extract s.fetchOffset r.msgs).1
            (replied cfg s (.fetchOk k r) (extract s.fetchOffset r.msgs).2))).crashed = true
      then retryFetch cfg (some 0) (deliverBlock cfg (opsN cfg cfg.depth) (extract s.fetchOffset r.msgs).1
            (replied cfg s (.fetchOk k r) (extract s.fetchOffset r.msgs).2))
      else probe (retryFetch cfg (some 0) (deliverBlock cfg (opsN cfg cfg.depth) (extract s.fetchOffset r.msgs).1
            (replied cfg s (.fetchOk k r) (extract s.fetchOffset r.msgs).2))) :=
  step_fetch_idle cfg s k c r hr hc hreq hst hmb

theorem run_snoc (cfg : Cfg) (script : List PEntry) (evs : List Ev) (e : Ev) :
    run cfg script (evs ++ [e]) = step cfg (run cfg script evs) e := by
  unfold run; rw [List.foldl_append]; rfl

/-- one more event keeps the environment contract when, if it is a fetch reply, it is faithful to the log -/
theorem faithful_snoc (log : List Msg) (cfg : Cfg) (script : List PEntry) (evs : List Ev) (hf : FaithfulLog log cfg script evs)
    (e : Ev) (he : ∀ k r, e = .fetchOk k r → ∀ off mb, Item.ob (.fetch k off mb) ∈ (run cfg script evs).out →
      replyFaithful log off r = true) : FaithfulLog log cfg script (evs ++ [e]) := by
  refine ⟨hf.1, fun n k r hn off mb hmem => ?_⟩
  rcases Nat.lt_trichotomy n evs.length with hlt | heq | hgt
  · rw [List.getElem?_append_left hlt] at hn
    rw [List.take_append_of_le_length (by omega)] at hmem
    exact hf.2 n k r hn off mb hmem
  · subst heq
    rw [List.getElem?_append_right (by omega)] at hn
    simp only [Nat.sub_self, List.getElem?_cons_zero, Option.some.injEq] at hn
    rw [List.take_left'] at hmem
    · exact he k r hn off mb hmem
    · rfl
  · rw [List.getElem?_eq_none (by simp; omega)] at hn
    cases hn

/-- **Progress from an idle running state.**  For every reachable state `s = run cfg script evs` against a faithful,
    ascending log that is `IdleAt`, the one-event continuation `cont log s` (the reply to the outstanding request, carrying
    the rest of the log) keeps the environment contract, and afterwards EVERY log message at or after the fetch position
    has been handed to the processor in a block that is new (observed after `s`); the start Deferred is still pending
    (nothing was reported). -/
theorem c02_progress_idle (log : List Msg) (cfg : Cfg) (script : List PEntry) (evs : List Ev)
    (hf : FaithfulLog log cfg script evs) (hl : Ascending log) (hi : IdleAt (run cfg script evs) = true) :
    FaithfulLog log cfg script (evs ++ cont log (run cfg script evs)) ∧
      (cont log (run cfg script evs)).length ≤ 1 ∧
      (run cfg script (evs ++ cont log (run cfg script evs))).startD = .pending ∧
      ∀ m ∈ log, (run cfg script evs).fetchOffset ≤ m.off →
        ∃ blk, m ∈ blk ∧
          Fresh (run cfg script evs) (run cfg script (evs ++ cont log (run cfg script evs))) (.ob (.proc blk)) := by
  generalize hs : run cfg script evs = s at *
  simp only [IdleAt, Running, Bool.and_eq_true, Bool.not_eq_true', beq_iff_eq, decide_eq_true_eq, Option.isNone_iff_eq_none] at hi
  obtain ⟨⟨⟨⟨⟨⟨⟨⟨⟨hcr, hst⟩, hsh⟩, hstop⟩, hreq⟩, hmb⟩, hproc⟩, hok⟩, h0⟩, hu⟩ := hi
  obtain ⟨k, c, hreq'⟩ : ∃ k c, s.requestD = .pending k .fetch c := by
    unfold fetchPending at hreq
    split at hreq
    · exact ⟨_, _, by assumption⟩
    · cases hreq
  have hk : reqIdOf s = k := by unfold reqIdOf; rw [hreq']
  unfold cont
  rw [hk]
  refine ⟨?_, by simp, ?_⟩
  · -- the contract
    refine faithful_snoc log cfg script evs hf _ ?_
    intro k' r he off mb hmem
    simp only [Ev.fetchOk.injEq] at he
    obtain ⟨rfl, rfl⟩ := he
    rw [hs] at hmem
    unfold uniqueFetch at hu
    rw [List.all_eq_true] at hu
    have := hu _ hmem
    simp only [hk, bne_self_eq_false, Bool.false_or, beq_iff_eq] at this
    subst this
    exact restFrom_faithful log s.fetchOffset hl h0
  · rw [run_snoc, hs, step_fetch_idle' cfg s k c _ rfl hcr hreq' hst hmb]
    dsimp only
    rw [extract_restFrom log s.fetchOffset hl]
    generalize hs2 : replied cfg s (.fetchOk k { msgs := restFrom log s.fetchOffset, tail := .done })
      (extract s.fetchOffset (restFrom log s.fetchOffset)).2 = s2
    have hext2 : s.out <:+ s2.out := by rw [← hs2]; exact List.suffix_cons _ _
    have hg2 : Going s2 := by rw [← hs2]; exact ⟨hstop, hsh, hst, hok⟩
    have hp2 : s2.proc = none := by rw [← hs2]; exact hproc
    obtain ⟨d1, d2, d3, d4, d5, d6, d7, d8, d9⟩ := deliverBlock_ok cfg (opsN cfg cfg.depth) (restFrom log s.fetchOffset) s2 hg2 hp2
    generalize deliverBlock cfg (opsN cfg cfg.depth) (restFrom log s.fetchOffset) s2 = s3 at *
    have hext3 := retryFetch_ext cfg (some 0) s3
    have hst3 : (retryFetch cfg (some 0) s3).startD = .pending := by
      unfold retryFetch emit
      repeat' split
      all_goals exact d1.2.2.1
    generalize retryFetch cfg (some 0) s3 = s4 at *
    have key : ∀ s5 : St, s4.out <:+ s5.out → s5.startD = .pending →
        s5.startD = .pending ∧ ∀ m ∈ log, s.fetchOffset ≤ m.off → ∃ blk, m ∈ blk ∧ Fresh s s5 (.ob (.proc blk)) := by
      intro s5 h5 h5s
      refine ⟨h5s, fun m hm hge => ?_⟩
      obtain ⟨blk, hb1, hb2⟩ := d9 m (List.mem_filter.2 ⟨hm, by simpa using hge⟩)
      exact ⟨blk, hb1, Fresh.left hext2 ((hb2.right hext3).right h5)⟩
    split
    · exact key s4 (List.suffix_refl _) hst3
    · exact key (probe s4) (List.suffix_cons _ _) hst3

/-! Non-vacuity: a log with a compaction gap (offsets 3, 4, 7); the consumer has received offset 3 and asked again at 4:
the state is `IdleAt`, the contract holds, and the continuation delivers 4 and 7 in one block. -/
example :
    let log : List Msg := [⟨3, 1⟩, ⟨4, 2⟩, ⟨7, 3⟩]
    let cfg : Cfg := { group := false, autoN := 0, autoS := 0, bufInit := 100, bufMax := none, retryInit := 1, retryMax := 2,
                       maxAttempts := 0, reset := some Afkak.Consts.offsetEarliest }
    let evs : List Ev := [.start 0, .fetchOk 0 { msgs := [⟨3, 1⟩], tail := .done }, .retryFire]
    FaithfulLog log cfg [] evs ∧ Ascending log ∧ IdleAt (run cfg [] evs) = true ∧
      cont log (run cfg [] evs) = [.fetchOk 1 { msgs := [⟨4, 2⟩, ⟨7, 3⟩], tail := .done }] ∧
      (trace cfg [] (evs ++ cont log (run cfg [] evs))).filterMap (fun | .ob (.proc blk) => some blk | _ => none)
        = [[⟨3, 1⟩], [⟨4, 2⟩, ⟨7, 3⟩]] := by
  refine ⟨A.faithfulB_sound _ _ _ _ (by decide +kernel), by decide, by decide +kernel, by decide +kernel, by decide +kernel⟩

end Afkak.Proofs.Consumer.L
