import AfkakProofs.Consumer.A5_At1
/-!
# C14 attempt limit at trace level: requests, failures
-/
namespace Afkak.Proofs.Consumer.T
open Afkak.Consumer Afkak.Monitor Afkak.Consts Afkak.Proofs.Consumer

/-- what holds between events -/
def Top (cfg : Cfg) (s : St) : Prop := Ha cfg s ∧ s.stopping = false ∧ R cfg s

/-- close `Top cfg X` for an explicit update `X` of `s`, from `hs : Top cfg s` -/
syntax "top_fields" ident : tactic
macro_rules
  | `(tactic| top_fields $hs) => `(tactic|
      (obtain ⟨ht1_, ht2_, ht3_⟩ := $hs
       refine ⟨?_, ?_, ?_⟩
       · ha_fields ht1_
       · first | assumption | ((simp only [emit] at *) <;> grind)
       · (simp only [R, atm, emit] at * <;> grind [C14.atStep, C14.atFail, runR_cons])))

section
variable {cfg : Cfg}

/-- `_do_fetch` at top level, while the consumer runs and the monitor's failure count is below the attempt count -/
theorem doFetch_top {s : St} (hs : Top cfg s) (hrun : s.startD ≠ .none) (hcf : (atm cfg s).cf < s.attempts) :
    Top cfg (doFetch cfg s) := by
  simp only [atm] at hcf
  unfold doFetch startErrback errbackRaises
  repeat' split
  all_goals ((try simp only []); top_fields hs)

theorem offsetErrorTail_a (f : Fail) {s0 s : St} (hx : HRel cfg s0 s) (hnp : NoPend s) (hpk : s.parked = none) :
    HRel cfg s0 (offsetErrorTail cfg f s) := by
  unfold offsetErrorTail
  repeat' split
  all_goals first
    | exact hx
    | exact (startErrback_a cfg f).step hx
    | (refine retryFetch_a none hx hnp hpk (fun _hie h0 => ?_)
       rename_i hlim
       simp only [Bool.and_eq_true, bne_iff_ne, ne_eq, decide_eq_true_eq, not_and, Nat.not_le, ge_iff_le] at hlim
       exact hlim h0)

theorem handleOffsetError_a (f : Fail) {s0 s : St} (hx : HRel cfg s0 s) (hpk : s.parked = none) :
    HRel cfg s0 (handleOffsetError cfg f s) := by
  unfold handleOffsetError
  exact offsetErrorTail_a f (by aleaf hx) (by intro k kind c h; cases h) hpk

theorem handleFetchError_a (f : Fail) {s0 s : St} (hx : HRel cfg s0 s) (hpk : s.parked = none) :
    HRel cfg s0 (handleFetchError cfg f s) := by
  unfold handleFetchError fetchErrorTail
  simp only []
  have hb : HRel cfg s0 { s with requestD := .none } := by aleaf hx
  split
  · exact hb
  · split
    · exact (startErrback_a cfg f).step hb
    · have hm : HRel cfg s0 (if f.isOutOfRange then { ({ s with requestD := .none } : St) with fetchOffset := cfg.reset.getD s.fetchOffset } else { s with requestD := .none }) := by
        split
        · aleaf hx
        · exact hb
      have hnp : NoPend (if f.isOutOfRange then { ({ s with requestD := .none } : St) with fetchOffset := cfg.reset.getD s.fetchOffset } else { s with requestD := .none }) := by
        split <;> (intro k kind c h; cases h)
      have hpk1 : (if f.isOutOfRange then { ({ s with requestD := .none } : St) with fetchOffset := cfg.reset.getD s.fetchOffset } else { s with requestD := .none }).parked = none := by
        split <;> exact hpk
      have hat : (if f.isOutOfRange then { ({ s with requestD := .none } : St) with fetchOffset := cfg.reset.getD s.fetchOffset } else { s with requestD := .none }).attempts = s.attempts := by
        split <;> rfl
      generalize (if f.isOutOfRange then { ({ s with requestD := .none } : St) with fetchOffset := cfg.reset.getD s.fetchOffset } else { s with requestD := .none }) = s1 at *
      repeat' split
      all_goals first
        | exact hm
        | exact (startErrback_a cfg f).step hm
        | (refine retryFetch_a none hm hnp hpk1 (fun _hie h0 => ?_)
           rename_i hlim
           simp only [Bool.and_eq_true, bne_iff_ne, ne_eq, decide_eq_true_eq, not_and, Nat.not_le, ge_iff_le] at hlim
           exact hlim h0)

end
end Afkak.Proofs.Consumer.T
