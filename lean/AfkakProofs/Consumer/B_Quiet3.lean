import AfkakProofs.Consumer.B_Quiet2
/-!
# Quiescence after `stop()` without a consumer group, part 3: the processor's result while running, the
re-entrant API at every depth ≥ 2, the events, the trace
-/
namespace Afkak.Proofs.Consumer.B
open Afkak.Consumer Afkak.Monitor Afkak.Consts Afkak.Proofs.Consumer

set_option linter.unusedSectionVars false

variable [EnvHyp]

section
variable {cfg : Cfg} (hg : cfg.group = false) {inner : Ops} (hin : OpsQ inner) (hs : OpsS inner) (hc : OpsPN Calm inner)
include hg hin hs hc

/-- the processor's Deferred fires while the consumer runs -/
theorem procResult_run_q (g : Gen) (r : Option Fail) (s : St) (h : QF { s with proc := none }) (hrun : s.startD ≠ .none)
    (hmb : s.msgBlock = true) : QF (procResult cfg inner g r s) := by
  have hn0 : QN { s with proc := none } := ⟨h, rfl, fun _ _ => hmb⟩
  -- the state after the callbacks that precede the generator's own
  have h1 : QN (procFired cfg g r s) ∧ (procFired cfg g r s).startD ≠ .none := by
    unfold procFired
    cases r with
    | none =>
      simp only []
      rw [autoCommit_eq cfg hg]
      exact ⟨⟨by qf_leaf h, rfl, fun _ _ => hmb⟩, hrun⟩
    | some f =>
      simp only []
      have hk := handleProcessorError_keeps' f { s with proc := none }
      exact ⟨qn_keeps hk (handleProcessorError_pq f _ h) hn0, fun e => hrun (hk.2.2.2.1.mp e)⟩
  have h2 : ∀ passed, QF (procResume cfg inner g passed (procFired cfg g r s)) := by
    intro passed
    unfold procResume
    split
    · exact h1.1.1
    · have h3 := procLoop_q hg hin (g.rest.length + 1) g.rest _ h1.1 h1.2
      simp only []
      generalize procLoop cfg inner (g.rest.length + 1) g.rest (procFired cfg g r s) = res at h3
      split
      · exact h3
      · rename_i hcnd
        apply finishFull_q hg hin hc _ h3
        cases hq : res.1.proc with
        | none => rfl
        | some g' => simp [hq] at hcnd
  unfold procResult
  simp only []
  split
  · exact (commitAndStop_q hg hs _ (h2 _)).1
  · exact h2 _

end

/-! ## The re-entrant API, at every depth -/

theorem mkOps_s {cfg : Cfg} (hg : cfg.group = false) (inner : Ops) : OpsS (mkOps cfg inner) :=
  fun s h => stopCore_q hg s h

theorem mkOps_q {cfg : Cfg} (hg : cfg.group = false) (inner : Ops) (hs : OpsS inner) : OpsQ (mkOps cfg inner) where
  stop := stop_pn hg
  stopCore := fun s h => by
    obtain ⟨a, b, c⟩ := stopCore_q hg (inner := inner) s h.1
    exact ⟨a, c, fun hne => absurd b hne⟩
  commit := commitUser_pn hg
  shutdown := shutdown_pn hg hs

theorem opsN_s {cfg : Cfg} (hg : cfg.group = false) (n : Nat) : OpsS (opsN cfg (n + 1)) := mkOps_s hg _
theorem opsN_q {cfg : Cfg} (hg : cfg.group = false) (n : Nat) : OpsQ (opsN cfg (n + 2)) := mkOps_q hg _ (opsN_s hg n)

/-! ## Events -/

section
variable {cfg : Cfg} (hg : cfg.group = false)
include hg

theorem ev_start_q (off : Int) (s : St) (h : QF s) : QF (start cfg off { s with out := .ev (.start off) :: s.out }) := by
  unfold start
  split
  · qf_leaf h
  · rename_i hn
    have hn' : s.startD = .none := by simpa using hn
    obtain ⟨q1, q2, q3⟩ := stopped_quiet s h hn'
    simp only []
    rw [if_neg (by simp [hg])]
    apply doFetch_q cfg hg
    · qf_leaf h
    · simp

theorem stepCore_q (n : Nat) (hd : cfg.depth = n + 2) (e : Ev) (s s' : St) (h : QF s)
    (he : stepCore cfg { s with out := .ev e :: s.out } e = some s') : QF s' := by
  have hin : OpsQ (opsN cfg cfg.depth) := by rw [hd]; exact opsN_q hg n
  have hs : OpsS (opsN cfg cfg.depth) := by rw [hd]; exact opsN_s hg (n + 1)
  have hc : OpsPN Calm (opsN cfg cfg.depth) := opsN_calm cfg cfg.depth
  cases e with
  | start off =>
    simp only [stepCore] at he
    simp only [Option.some.injEq] at he; subst he; exact ev_start_q hg off s h
  | stop =>
    simp only [stepCore] at he
    simp only [Option.some.injEq] at he; subst he
    exact (stop_q hg _ (by qf_leaf h)).1
  | shutdown =>
    simp only [stepCore] at he
    simp only [Option.some.injEq] at he; subst he
    exact (shutdown_q hg hs _ (by qf_leaf h)).1
  | commit =>
    simp only [stepCore] at he
    simp only [Option.some.injEq] at he; subst he
    exact commitUser_pq cfg hg _ (by qf_leaf h)
  | fetchOk k r =>
    simp only [stepCore] at he
    split at he
    · rename_i hreq
      simp only [Option.some.injEq] at he; subst he
      have : ∃ c, s.requestD = .pending k .fetch c := by
        rcases (by simpa using hreq : s.requestD = .pending k .fetch false ∨ s.requestD = .pending k .fetch true) with h' | h'
        · exact ⟨_, h'⟩
        · exact ⟨_, h'⟩
      obtain ⟨c, hc'⟩ := this
      exact ev_fetchOk_q hg hin hc k r c s h hc'
    · cases he
  | fetchErr k ek tag =>
    simp only [stepCore] at he
    split at he
    · rename_i hreq
      simp only [Option.some.injEq] at he; subst he
      unfold handleFetchError
      apply fetchErrorTail_pq
      rcases (by simpa using hreq : s.requestD = .pending k .fetch false ∨ s.requestD = .pending k .fetch true) with h' | h' <;> qf_leaf h
    · cases he
  | offsetOk k off =>
    simp only [stepCore] at he
    split at he
    · rename_i hreq
      simp only [Option.some.injEq] at he; subst he
      unfold handleOffsetResponse
      apply offsetResponseTail_q cfg hg
      rcases (by simpa using hreq : s.requestD = .pending k .offsets false ∨ s.requestD = .pending k .offsets true) with h' | h' <;> qf_leaf h
    · cases he
  | offsetErr k ek tag =>
    simp only [stepCore] at he
    split at he
    · rename_i hreq
      simp only [Option.some.injEq] at he; subst he
      unfold handleOffsetError
      apply offsetErrorTail_pq
      rcases (by simpa using hreq : s.requestD = .pending k .offsets false ∨ s.requestD = .pending k .offsets true) with h' | h' <;> qf_leaf h
    · cases he
  | offsetFetchOk k off =>
    simp only [stepCore] at he
    split at he
    · rename_i hreq
      simp only [Option.some.injEq] at he; subst he
      unfold handleOffsetResponse
      apply offsetResponseTail_q cfg hg
      rcases (by simpa using hreq : s.requestD = .pending k .offsetFetch false ∨ s.requestD = .pending k .offsetFetch true) with h' | h' <;> qf_leaf h
    · cases he
  | offsetFetchErr k ek tag =>
    simp only [stepCore] at he
    split at he
    · rename_i hreq
      simp only [Option.some.injEq] at he; subst he
      unfold handleOffsetError
      apply offsetErrorTail_pq
      rcases (by simpa using hreq : s.requestD = .pending k .offsetFetch false ∨ s.requestD = .pending k .offsetFetch true) with h' | h' <;> qf_leaf h
    · cases he
  | commitOk k =>
    simp only [stepCore] at he
    simp [h.cr] at he
  | commitErr k ek tag =>
    simp only [stepCore] at he
    simp [h.cr] at he
  | procOk =>
    simp only [stepCore] at he
    split at he
    · rename_i g hp
      simp only [Option.some.injEq] at he; subst he
      have hp' : s.proc = some g := hp
      exact procResult_run_q hg hin hs hc g none _ (by qf_leaf h) (h.procRun (by simp [hp'])) (h.procBlock (by simp [hp']))
    · cases he
  | procErr ek tag =>
    simp only [stepCore] at he
    split at he
    · rename_i g hp
      simp only [Option.some.injEq] at he; subst he
      have hp' : s.proc = some g := hp
      exact procResult_run_q hg hin hs hc g _ _ (by qf_leaf h) (h.procRun (by simp [hp'])) (h.procBlock (by simp [hp']))
    · cases he
  | retryFire =>
    simp only [stepCore] at he
    split at he
    · rename_i due hdue
      split at he
      · simp only [Option.some.injEq] at he; subst he
        have hdue' : s.retryCall = .pending due := hdue
        apply doFetch_q cfg hg
        · qf_leaf h
        · exact h.retryRun (by simp [hdue', retryPending])
      · cases he
    · cases he
  | commitRetryFire =>
    simp only [stepCore] at he
    split at he
    · rename_i d dl a hcc
      exact absurd hcc (h.cc d dl a)
    · cases he
  | autoCommitTick =>
    simp only [stepCore] at he
    simp [h.lp] at he
  | advance dt =>
    simp only [stepCore] at he
    split at he
    · cases he
    · simp only [Option.some.injEq] at he; subst he; qf_leaf h
  | env rq cm =>
    simp only [stepCore] at he
    simp only [Option.some.injEq] at he; subst he; qf_leaf h

theorem step_q (n : Nat) (hd : cfg.depth = n + 2) (e : Ev) (s : St) (h : QF s) : QF (step cfg s e) := by
  unfold step
  split
  · qf_leaf h
  · split
    · qf_leaf h
    · rename_i s' he
      have h' := stepCore_q hg n hd e s s' h he
      split
      · exact h'
      · unfold probe; qf_leaf h'

theorem init_q (script : List PEntry) : QF (init cfg script) := by
  constructor <;> simp [init, timersOf, reqsOf, activeReq, retryPending]

theorem run_q (n : Nat) (hd : cfg.depth = n + 2) (script : List PEntry) (evs : List Ev) : QF (run cfg script evs) := by
  unfold run
  have : ∀ (l : List Ev) (s : St), QF s → QF (l.foldl (step cfg) s) := by
    intro l
    induction l with
    | nil => intro s h; exact h
    | cons e l ih => intro s h; exact ih _ (step_q hg n hd e s h)
  exact this evs _ (init_q hg script)

end

end Afkak.Proofs.Consumer.B
