import AfkakProofs.Consumer.A5_Progress11
import AfkakProofs.Consumer.A5_Progress12
/-!
# C02, liveness half: the statements as they are meant to appear in `AfkakProps/C02.lean`
(`open Afkak.Proofs.Consumer.L` there; helper lemmas in `A5_Progress1 … 12.lean`)

* `C02_never_stuck` (open, FALSE: `C02_never_stuck_counterexample` - genuine defect of `afkak/consumer.py`, see
  `A5_Progress1.lean`), `C02_never_stuck_partial` (proved for every event list without a raising fetch reply),
  `C02_never_stuck_sharp` (proved for every run in which no raising reply arrives while a block is in progress).
* `C02_progress` (proved): from every reachable state that is `Ready` (running, waiting for a fetch reply or for the
  refetch timer at a Kafka offset, nothing in processing, the processor returns at once from now on) an explicit
  continuation of at most `bound s` ≤ 3 events delivers every log message at or after the fetch position.
  `C02_progress_proc` (`A5_Progress13.lean`, which imports this file; proved): the same from a state whose processor result
  is pending (consumer without a group or without count-triggered auto-commit): `procOk` first, at most 4 events.
  `C02_progress_full` (open): the same without the two request-id freshness conjuncts of `Ready` (`uniqueFetch`,
  `freshNext`: request ids are never reused - true of every trace tried, not proved).
-/
namespace Afkak.Proofs.Consumer.L
open Afkak.Consumer Afkak.Monitor Afkak.Consts Afkak.Props.Open.C02 Afkak.Proofs.Consumer

/-- the reply-parked-behind-a-block defect: running, nothing owed, start Deferred not fired -/
theorem C02_never_stuck_counterexample : ¬ C02_never_stuck := c02_never_stuck_counterexample

/-- A running consumer is never stuck: for every configuration, processor script and event list in which no fetch
    reply's iteration raises, every reachable running state is owed an event it accepts (fetch/offset reply, refetch timer,
    processor result). -/
theorem C02_never_stuck_partial (cfg : Cfg) (script : List PEntry) (evs : List Ev) (hn : evs.all noRaiseEv = true) :
    Running (run cfg script evs) = true → Enabled (run cfg script evs) = true :=
  c02_never_stuck_partial cfg script evs hn

/-- Sharp form: the only way to get stuck is a fetch reply whose iteration raises arriving while a block of messages is
    in progress (`noRaiseParkedB`: decidable on the run) - i.e. exactly the situation of the counterexample. -/
theorem C02_never_stuck_sharp (cfg : Cfg) (script : List PEntry) (evs : List Ev) (hn : noRaiseParkedB cfg script evs = true) :
    Running (run cfg script evs) = true → Enabled (run cfg script evs) = true :=
  c02_never_stuck_sharp cfg script evs hn

example : noRaiseParkedB cexCfg [] [.start 0, .fetchOk 0 { msgs := [⟨0, 1⟩], tail := .raise .other 7 }] = true ∧
    noRaiseParkedB cexCfg [{ acts := [], res := .defer }] cexEvs = false := by
  decide +kernel

example : [Ev.start 0, .fetchOk 0 { msgs := [⟨0, 1⟩], tail := .small }, .retryFire, .fetchErr 1 .kafka 3].all noRaiseEv = true ∧
    Running (run cexCfg [] [Ev.start 0, .fetchOk 0 { msgs := [⟨0, 1⟩], tail := .small }, .retryFire, .fetchErr 1 .kafka 3]) = true := by
  decide +kernel

/-- an event the environment owes the consumer in state `s`: the (empty, successful) reply to the outstanding request; else
    the passing of time up to the refetch timer's due time (after which `retryFire` is accepted: `enabled_timer`); else the
    processor's result -/
def owedEv (s : St) : Ev :=
  match s.requestD with
  | .pending k .fetch _ => .fetchOk k { msgs := [], tail := .done }
  | .pending k .offsets _ => .offsetOk k 0
  | .pending k .offsetFetch _ => .offsetFetchOk k 0
  | _ =>
    match s.retryCall with
    | .pending _ => .advance (waitFor s)
    | _ => .procOk

/-- … and the consumer accepts it: in every reachable running state (of a run in which no raising reply arrives while a
    block is in progress) the event `owedEv s` is applied by `step`, not rejected. -/
theorem C02_never_stuck_event (cfg : Cfg) (script : List PEntry) (evs : List Ev) (hn : noRaiseParkedB cfg script evs = true)
    (hr : Running (run cfg script evs) = true) : Accepted cfg (run cfg script evs) (owedEv (run cfg script evs)) = true := by
  have he := c02_never_stuck_sharp cfg script evs hn hr
  generalize run cfg script evs = s at *
  have hc : s.crashed = false := by
    simp only [Running, Bool.and_eq_true, Bool.not_eq_true'] at hr; exact hr.1.1.1
  unfold owedEv
  cases hreq : s.requestD with
  | pending k kind c =>
    cases kind
    · exact (enabled_fetch cfg s k c hc hreq _ .kafka 0).1
    · exact (enabled_offsets cfg s k c hc hreq _ .kafka 0).1
    · exact (enabled_offsetFetch cfg s k c hc hreq _ .kafka 0).1
  | none =>
    dsimp only
    cases hrc : s.retryCall with
    | pending due => exact (enabled_timer cfg s due hc hrc).1
    | none =>
      dsimp only
      cases hp : s.proc with
      | some g => exact (enabled_proc cfg s g hc hp .kafka 0).1
      | none => simp [Enabled, reqPending, timerPending, hreq, hrc, hp] at he
    | dead =>
      dsimp only
      cases hp : s.proc with
      | some g => exact (enabled_proc cfg s g hc hp .kafka 0).1
      | none => simp [Enabled, reqPending, timerPending, hreq, hrc, hp] at he
  | parked k =>
    dsimp only
    cases hrc : s.retryCall with
    | pending due => exact (enabled_timer cfg s due hc hrc).1
    | none =>
      dsimp only
      cases hp : s.proc with
      | some g => exact (enabled_proc cfg s g hc hp .kafka 0).1
      | none => simp [Enabled, reqPending, timerPending, hreq, hrc, hp] at he
    | dead =>
      dsimp only
      cases hp : s.proc with
      | some g => exact (enabled_proc cfg s g hc hp .kafka 0).1
      | none => simp [Enabled, reqPending, timerPending, hreq, hrc, hp] at he

/-- the precondition of `C02_progress` -/
def Ready (s : St) : Bool := IdleAt s || WaitingAt s

/-- the continuation: the reply carrying the rest of the log, preceded - when the consumer waits for its refetch timer -
    by the passing of time and the timer's firing -/
def contOf (log : List Msg) (s : St) : List Ev := if IdleAt s then cont log s else contT log s

/-- its length -/
def bound (s : St) : Nat := if IdleAt s then 1 else 3

/-- **Bounded continuation.**  For every reachable state `s = run cfg script evs` against a faithful ascending log that is
    `Ready`, the explicit continuation `contOf log s` (at most `bound s` ≤ 3 events, no failure) keeps the environment
    contract, leaves the start Deferred pending, and afterwards every log message at or after the fetch position has been
    handed to the processor in a block observed after `s`. -/
theorem C02_progress (log : List Msg) (cfg : Cfg) (script : List PEntry) (evs : List Ev)
    (hf : FaithfulLog log cfg script evs) (hl : Ascending log) (hr : Ready (run cfg script evs) = true) :
    FaithfulLog log cfg script (evs ++ contOf log (run cfg script evs)) ∧
      (contOf log (run cfg script evs)).length ≤ bound (run cfg script evs) ∧ bound (run cfg script evs) ≤ 3 ∧
      (run cfg script (evs ++ contOf log (run cfg script evs))).startD = .pending ∧
      ∀ m ∈ log, (run cfg script evs).fetchOffset ≤ m.off →
        ∃ blk, m ∈ blk ∧
          Fresh (run cfg script evs) (run cfg script (evs ++ contOf log (run cfg script evs))) (.ob (.proc blk)) := by
  unfold contOf bound
  by_cases hi : IdleAt (run cfg script evs) = true
  · simp only [hi, if_true]
    obtain ⟨a, b, c, d⟩ := c02_progress_idle log cfg script evs hf hl hi
    exact ⟨a, b, by omega, c, d⟩
  · have hw : WaitingAt (run cfg script evs) = true := by
      simp only [Ready, Bool.or_eq_true] at hr
      rcases hr with h | h
      · exact absurd h hi
      · exact h
    simp only [hi, Bool.false_eq_true, if_false]
    obtain ⟨a, b, c, d⟩ := c02_progress_timer log cfg script evs hf hl hw
    exact ⟨a, b, by omega, c, d⟩

/-- `Ready` without the request-id freshness conjuncts -/
def ReadyNoFresh (s : St) : Bool :=
  Running s && !s.msgBlock && s.proc.isNone && okScript s && decide (0 ≤ s.fetchOffset) &&
    (fetchPending s.requestD || (noReq s.requestD && timerPending s.retryCall))

/-- Full strength (OPEN): `C02_progress` for every reachable `ReadyNoFresh` state.  What is missing is the invariant
    "a request id is used for one request only" (needed to extend `FaithfulLog`, which speaks about every `fetch k …`
    observation with the reply's id, to the continuation). -/
def C02_progress_full : Prop :=
  ∀ (log : List Msg) (cfg : Cfg) (script : List PEntry) (evs : List Ev), FaithfulLog log cfg script evs → Ascending log →
    ReadyNoFresh (run cfg script evs) = true →
    FaithfulLog log cfg script (evs ++ contOf log (run cfg script evs)) ∧
      (contOf log (run cfg script evs)).length ≤ 3 ∧
      ∀ m ∈ log, (run cfg script evs).fetchOffset ≤ m.off →
        ∃ blk, m ∈ blk ∧
          Fresh (run cfg script evs) (run cfg script (evs ++ contOf log (run cfg script evs))) (.ob (.proc blk))

/-! Non-vacuity of `C02_progress`: see the examples next to `c02_progress_idle` (`A5_Progress3.lean`) and
`c02_progress_timer` (`A5_Progress12.lean`): a log with a compaction gap, both kinds of `Ready` state. -/
example :
    let log : List Msg := [⟨3, 1⟩, ⟨4, 2⟩, ⟨7, 3⟩]
    let cfg : Cfg := { group := false, autoN := 2, autoS := 0, bufInit := 100, bufMax := none, retryInit := 1, retryMax := 2,
                       maxAttempts := 0, reset := none }
    let evs : List Ev := [.start 0, .fetchErr 0 .kafka 1]
    FaithfulLog log cfg [] evs ∧ Ascending log ∧ Ready (run cfg [] evs) = true ∧ bound (run cfg [] evs) = 3 ∧
      (trace cfg [] (evs ++ contOf log (run cfg [] evs))).filterMap (fun | .ob (.proc blk) => some blk | _ => none)
        = [[⟨3, 1⟩, ⟨4, 2⟩], [⟨7, 3⟩]] := by
  refine ⟨A.faithfulB_sound _ _ _ _ (by decide +kernel), by decide, by decide +kernel, by decide +kernel, by decide +kernel⟩

end Afkak.Proofs.Consumer.L
