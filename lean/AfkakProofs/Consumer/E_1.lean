import AfkakProofs.Consumer.B_C14e
/-!
# C03 `commit()` reports, at trace level: the invariant `He` and the handlers that call no other handler

`win`: a `commit()` call is being handled (the monitor's `inCommit` may be set).  Everything but `commitUser` itself runs
outside that window (`win := False`).
-/
namespace Afkak.Proofs.Consumer.E
open Afkak.Consumer Afkak.Monitor Afkak.Consts Afkak.Proofs.Consumer

def crm (s : St) : C03.CrSt := runR C03.crStep {} s.out

structure He (win : Prop) (s : St) : Prop where
  c1 : (crm s).bad = false
  c2 : (crm s).p.processed = s.lastProcessed
  c3a : ∀ fr, s.frame = some fr → (crm s).p.cur = some fr.last
  c3b : ∀ g, s.proc = some g → (crm s).p.cur = some g.last
  c4 : (crm s).inCommit = true → win

def HRel (win : Prop) (s0 x : St) : Prop :=
  He win x ∧ x.frame = s0.frame ∧ (s0.proc = none → x.proc = none)

def PresH (win : Prop) (h : St → St) : Prop := ∀ s, He win s → HRel win s (h s)

theorem HRel.refl {win : Prop} {s : St} (h : He win s) : HRel win s s := ⟨h, rfl, fun h => h⟩
theorem HRel.trans {win : Prop} {a b c : St} (h1 : HRel win a b) (h2 : HRel win b c) : HRel win a c :=
  ⟨h2.1, h2.2.1.trans h1.2.1, fun hp => h2.2.2 (h1.2.2 hp)⟩
theorem PresH.step {win : Prop} {h : St → St} (hh : PresH win h) {s x : St} (hx : HRel win s x) : HRel win s (h x) :=
  hx.trans (hh x hx.1)

syntax "he_fields" ident : tactic
macro_rules
  | `(tactic| he_fields $hs) => `(tactic|
      (obtain ⟨c1, c2, c3a, c3b, c4⟩ := $hs
       constructor <;> (simp only [crm, emit] at * <;> grind [C03.crStep, procTrack, runR_cons])))

syntax "eleaf" ident : tactic
macro_rules
  | `(tactic| eleaf $hx) => `(tactic|
      (obtain ⟨hs_, e1, e2⟩ := $hx
       refine ⟨?_, ?_, ?_⟩
       · he_fields hs_
       · first | assumption | ((simp only [emit] at *) <;> grind)
       · first | assumption | ((simp only [emit] at *) <;> grind)))

syntax "prese_leaf" "[" ident* "]" : tactic
macro_rules
  | `(tactic| prese_leaf [$ds*]) => `(tactic|
      (intro s hs
       have hx := HRel.refl hs
       unfold $ds*
       eleaf hx))

section
variable (cfg : Cfg) (win : Prop)

theorem crash_e (site : String) : PresH win (crash site) := by prese_leaf [crash]
theorem startErrback_e (f : Fail) : PresH win (startErrback f) := by prese_leaf [startErrback]
theorem retryFetch_e (a : Option Rat) : PresH win (retryFetch cfg a) := by prese_leaf [retryFetch]
theorem looperReset_e : PresH win (looperReset cfg) := by prese_leaf [looperReset]
theorem stopRetry_e : PresH win stopRetry := by prese_leaf [stopRetry]
theorem stopTimers_e : PresH win stopTimers := by prese_leaf [stopTimers]
theorem sendCommitRequest_e (d : Option Rat) (a : Option Nat) : PresH win (sendCommitRequest cfg d a) := by
  prese_leaf [sendCommitRequest crash]
theorem doFetch_e : PresH win (doFetch cfg) := by prese_leaf [doFetch startErrback errbackRaises]

theorem handleAutoCommitError_e (f : Fail) : PresH win (handleAutoCommitError f) := by
  intro s hs
  unfold handleAutoCommitError
  repeat' split
  all_goals first | exact HRel.refl hs | exact startErrback_e win f s hs

theorem handleProcessorError_e (f : Fail) : PresH win (handleProcessorError f) := by
  intro s hs
  unfold handleProcessorError
  split
  · exact HRel.refl hs
  · exact startErrback_e win f s hs

theorem commitState_e (w : Who) : PresH win (commitState cfg w) := by
  intro s hs
  have hx := HRel.refl hs
  unfold commitState
  split
  · exact hx
  · split
    · exact hx
    · split
      · cases w <;> simp only [] <;> eleaf hx
      · simp only []
        exact (looperReset_e cfg win).step ((sendCommitRequest_e cfg win none none).step (by eleaf hx))

theorem autoCommit_e (b : Bool) : PresH win (autoCommit cfg b) := by
  intro s hs
  have hx := HRel.refl hs
  have hc := (commitState_e cfg win .auto).step hx
  unfold autoCommit
  simp only []
  repeat' split
  all_goals first
    | exact hx
    | exact hc
    | exact (handleAutoCommitError_e win _).step hc
    | eleaf hx

/-- `commit()` called by the application: what it reports at once is justified by the processed offset -/
theorem commitUser_e : PresH win (commitUser cfg) := by
  intro s hs
  have hx := HRel.refl hs
  have hc2 := hs.c2
  unfold commitUser
  by_cases h1 : (!cfg.group) = true
  · simp only [commitResult, commitState, h1, if_true]
    eleaf hx
  · by_cases h2 : (s.lastProcessed.isNone || s.lastProcessed == s.lastCommitted) = true
    · simp only [commitResult, commitState, h1, h2, if_true, if_false]
      have hv : (crm s).p.processed.isSome = true → s.lastCommitted = (crm s).p.processed := by
        intro hp
        rw [hc2] at hp ⊢
        rcases (by simpa using h2 : s.lastProcessed = none ∨ s.lastProcessed = s.lastCommitted) with h | h
        · rw [h] at hp; cases hp
        · exact h.symm
      simp only [crm] at hv
      eleaf hx
    · by_cases h3 : (!s.commitDs.isEmpty) = true
      · simp only [commitResult, commitState, h1, h2, h3, if_true, if_false]
        eleaf hx
      · simp only [commitResult, commitState, h1, h2, h3, if_false]
        have := (looperReset_e cfg win).step ((sendCommitRequest_e cfg win none none).step
          (show HRel win s { s with commitDs := [Waiter.user s.nextCommit] } by eleaf hx))
        eleaf this

end
end Afkak.Proofs.Consumer.E
