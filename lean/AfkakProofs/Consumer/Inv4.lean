import AfkakProofs.Consumer.Inv3
/-!
# `G` is preserved by `stop()`, `shutdown()`, every level of the re-entrant API, and every event
-/
namespace Afkak.Proofs.Consumer
open Afkak.Consumer Afkak.Monitor Afkak.Consts

variable [EnvHyp]

-- every leaf lemma checks nine invariant components on every path of a handler
set_option maxHeartbeats 800000

theorem stopReq_pres (cfg : Cfg) : Pres cfg (stopReq cfg) := by
  intro s hs
  have hx := Good.refl hs
  unfold stopReq
  split
  · simp only []
    rename_i k kind c hreq
    have hpk : s.parked = none := by
      cases hpp : s.parked with
      | none => rfl
      | some r =>
        obtain ⟨k', hk'⟩ := hs.sf.parkedReq (by rw [hpp]; rfl)
        rw [hreq] at hk'; cases hk'
    have hact : (runR C02.sfStep {} s.out).req = (if c then none else some k) := by
      rw [hs.sf.sfReq, hreq]; cases c <;> rfl
    have h1 : Good cfg s { emit (.cancelReq k) s with requestD := .pending k kind true } := by leaf hx
    split
    · rename_i ek tag henv
      split
      · refine handleFetchError_good cfg _ (by intro h; cases h) h1 rfl hpk (fun hP ho => ?_)
        have hek : ek = .outOfRange := by cases ek <;> simp [Fail.isOutOfRange] at ho ⊢
        subst hek
        have : s.envReq = some (.outOfRange, tag) := by simpa [emit] using henv
        exact absurd rfl ((hs.inc hP).envOk _ _ this)
      · exact handleOffsetError_good cfg _ (by intro h; cases h) h1 rfl hpk
    · exact h1
  · exact hx

section
variable {cfg : Cfg} {inner : Ops} (hin : OpsPres cfg inner) (hc : OpsPN Calm inner) (hqt : OpsPN Quiet inner)
  (hpn : OpsPN ProcNone inner)
include hin hc

theorem stopBlockProc_good {s0 s : St} (h : Good cfg s0 s) (hst : s.stopping = true) :
    Good cfg s0 (stopBlockProc cfg inner s) := by
  unfold stopBlockProc
  cases hp : s.proc with
  | none =>
    -- no generator is suspended: only the block flag (and a parked reply) go
    simp only [stopBlock_proc, hp]
    unfold stopBlock
    split
    · leaf h
    · exact h
  | some g =>
    have hf : s.frame = none := by
      cases hff : s.frame with
      | none => rfl
      | some fr => exact absurd (h.1.g1.frameProc (by rw [hff]; rfl)) (by rw [hp]; simp)
    simp only [stopBlock_proc, hp]
    obtain ⟨g1, p1, st1, l1, y1, z1⟩ := procFired_stop_good hin g (.ext .cancelled 0) (by intro h; cases h) h.1 hp hst
    have h2 := fun p => procResume_good hin hc g p g1 p1 (by rw [g1.2]; exact hf) (Or.inr st1) l1 y1 (fun _ => z1)
    refine Good.trans h ?_
    unfold procResult
    simp only []
    split
    · exact (commitAndStop_pres hin).step (h2 _)
    · exact h2 _

omit hc in
theorem stopCommitReq_pres : Pres cfg (stopCommitReq cfg inner) := by
  intro s hs
  have hx := Good.refl hs
  unfold stopCommitReq
  split
  · rename_i r hr
    have hne := sf_ne_commit hs r hr
    simp only []
    split
    · exact (handleCommitError_pres hin _ (by intro h; cases h) _ _).step (by leaf hx)
    · leaf hx
  · exact hx

include hqt hpn in
theorem stopCore_pres : Pres cfg (stopCore cfg inner) := by
  intro s hs
  have h0 : Good cfg s { s with stopping := true } := by
    have hx := Good.refl hs
    leaf hx
  have h1 := (stopReq_pres cfg).step h0
  have k0 := stopReq_keeps0 cfg { s with stopping := true }
  have st1 : (stopReq cfg { s with stopping := true }).stopping = true := k0.2.1
  have h2 := stopBlockProc_good hin hc h1 st1
  have h3 := (stopRetry_pres cfg).step h2
  -- after the block/processor and retry phases nothing is suspended and no refetch is scheduled
  have p2 : (stopBlockProc cfg inner (stopReq cfg { s with stopping := true })).proc = none :=
    stopBlockProc_stopping_procNone hpn _ st1
  have q3 := stopRetry_quiet _ p2
  have q4 := stopTail_pn quiet_ok hqt (cfg := cfg) q3
  -- … no uncancelled request is outstanding and no reply is parked
  have c2 := stopBlockProc_stopping_calm (cfg := cfg) hc hpn (stopReq cfg { s with stopping := true }) st1
    (stopReq_calm cfg _) (by rw [stopReq_parked, k0.2.2.1]; exact hs.sf.parkedBlock)
  have c4 := stopTail_pn calm_ok hc (cfg := cfg) (stopRetry_calm _ c2)
  unfold stopCore
  simp only []
  exact stopFinish_good ((stopTimers_pres cfg).step ((stopCommitReq_pres hin).step ((cancelWaiters_pres hin _).step h3))) q4.2
    c4.2.1 c4.2.2 q4.1

omit hin hc in
theorem stopCore_startD (s : St) : (stopCore cfg inner s).startD = .none := by
  unfold stopCore
  simp only []
  generalize stopTimers _ = x
  unfold stopFinish crash emit
  grind

include hqt hpn in
theorem stop_pres : Pres cfg (stop cfg inner) := by
  intro s hs
  unfold stop
  split
  · have hx := Good.refl hs
    leaf hx
  · simp only []
    have h1 := stopCore_pres hin hc hqt hpn s hs
    have hsd := stopCore_startD (cfg := cfg) (inner := inner) s
    leaf h1

omit hc in
theorem shutdown_pres : Pres cfg (shutdown cfg inner) := by
  intro s hs
  have hx := Good.refl hs
  unfold shutdown
  split
  · leaf hx
  · split
    · leaf hx
    · simp only []
      split
      · rename_i g hg
        leaf hx
      · exact (commitAndStop_pres hin).step (by leaf hx)

include hqt hpn in
theorem mkOps_pres : OpsPres cfg (mkOps cfg inner) :=
  ⟨stop_pres hin hc hqt hpn, stopCore_pres hin hc hqt hpn, commitUser_pres cfg, shutdown_pres hin⟩

end

theorem opsN_pres (cfg : Cfg) : ∀ n, OpsPres cfg (opsN cfg n)
  | 0 => ⟨crash_pres cfg _, crash_pres cfg _, crash_pres cfg _, crash_pres cfg _⟩
  | n + 1 => mkOps_pres (opsN_pres cfg n) (opsN_calm cfg n) (opsN_quiet cfg n) (opsN_procNone cfg n)

theorem start_good_restart (cfg : Cfg) (off : Int) {s : St} (hs : G cfg s) (hf : s.frame = none)
    (hlc : (runR C03.ackStep {} s.out).lc = s.lastCommitted) (hrun : s.startD ≠ .none) :
    Good cfg s (emit .raisedRestart { s with out := .ev (.start off) :: s.out }) := by
  have hx := Good.refl hs
  leaf hx

theorem start_good_fresh (cfg : Cfg) (off : Int) {s : St} (hs : G cfg s) (hf : s.frame = none)
    (hlc : (runR C03.ackStep {} s.out).lc = s.lastCommitted) (hrun : s.startD = .none) :
    Good cfg s { ({ s with out := .ev (.start off) :: s.out } : St) with startD := .pending, fetchOffset := off } := by
  have hx := Good.refl hs
  leaf hx

/-- `start()` (an application call from outside the processor), with its event -/
theorem start_good (cfg : Cfg) (off : Int) {s : St} (hs : G cfg s) (hf : s.frame = none)
    (hlc : (runR C03.ackStep {} s.out).lc = s.lastCommitted) :
    Good cfg s (start cfg off { s with out := .ev (.start off) :: s.out }) := by
  unfold start
  split
  · rename_i hr
    exact start_good_restart cfg off hs hf hlc (by simpa using hr)
  · rename_i hr
    simp only []
    have h1 := doFetch_good cfg (s0 := s)
      (s := { ({ s with out := .ev (.start off) :: s.out } : St) with startD := .pending, fetchOffset := off })
      (start_good_fresh cfg off hs hf hlc (by simpa using hr)) (by simp)
    split
    · leaf h1
    · exact h1

end Afkak.Proofs.Consumer
