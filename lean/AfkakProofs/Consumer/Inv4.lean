import AfkakProofs.Consumer.InvP
/-!
# `G` is preserved by `stop()`, `shutdown()`, every level of the re-entrant API, and every event
-/
namespace Afkak.Proofs.Consumer
open Afkak.Consumer Afkak.Monitor Afkak.Consts

theorem stopReq_pres (cfg : Cfg) : Pres cfg (stopReq cfg) := by
  intro s hs
  have hx := Good.refl hs
  unfold stopReq
  split
  · simp only []
    rename_i k kind c hreq
    have h1 : Good cfg s { emit (.cancelReq k) s with requestD := .pending k kind true } := by leaf hx
    split
    · split
      · exact (handleFetchError_pres cfg _).step h1
      · exact (handleOffsetError_pres cfg _).step h1
    · exact h1
  · exact hx

/-- `stop()`'s last statements, once no generator is suspended any more -/
theorem stopFinish_good {cfg : Cfg} {s0 s : St} (h : Good cfg s0 s) (hp : s.proc = none) : Good cfg s0 (stopFinish s) := by
  unfold stopFinish
  simp only []
  split
  · leaf h
  · leaf h
  · exact (crash_pres cfg _).step (by leaf h)

section
variable {cfg : Cfg} {inner : Ops} (hin : OpsPres cfg inner)
include hin

theorem stopBlockProc_good {s0 s : St} (h : Good cfg s0 s) (hst : s.stopping = true) :
    Good cfg s0 (stopBlockProc cfg inner s) := by
  unfold stopBlockProc
  simp only []
  cases hp : s.proc with
  | none =>
    -- no generator is suspended: only the block flag (and a parked reply) go
    split
    · rename_i g hg
      split at hg <;> simp [hp] at hg
    · split
      · leaf h
      · exact h
  | some g =>
    have hb : s.msgBlock = true := h.1.g1.procBlock (by rw [hp]; rfl)
    have hf : s.frame = none := by
      cases hff : s.frame with
      | none => rfl
      | some fr => exact absurd (h.1.g1.frameProc (by rw [hff]; rfl)) (by rw [hp]; simp)
    simp only [hb, if_true, hp]
    obtain ⟨g1, p1, st1⟩ := procFired_stop_good hin g (.ext .cancelled 0) h.1 hp hst
    have h2 := fun p => procResume_good hin g p g1 p1 (by rw [g1.2]; exact hf) (Or.inr st1)
    refine Good.trans h ?_
    unfold procResult
    simp only []
    split
    · exact (commitAndStop_pres hin).step (h2 _)
    · exact h2 _

theorem stopCommitReq_pres : Pres cfg (stopCommitReq cfg inner) := by
  intro s hs
  have hx := Good.refl hs
  unfold stopCommitReq
  split
  · simp only []
    split
    · exact (handleCommitError_pres hin _ _ _).step (by leaf hx)
    · leaf hx
  · exact hx

theorem stopCore_pres : Pres cfg (stopCore cfg inner) := by
  intro s hs
  have h0 : Good cfg s { s with stopping := true } := by
    have hx := Good.refl hs
    leaf hx
  have h1 := (stopReq_pres cfg).step h0
  have st1 : (stopReq cfg { s with stopping := true }).stopping = true := (stopReq_keeps cfg _).2.1
  have h2 := stopBlockProc_good hin h1 st1
  have h3 := (stopRetry_pres cfg).step h2
  unfold stopCore
  simp only []
  exact (stopFinish_pres cfg).step ((stopTimers_pres cfg).step ((stopCommitReq_pres hin).step ((cancelWaiters_pres hin _).step h3)))

theorem stop_pres : Pres cfg (stop cfg inner) := by
  intro s hs
  unfold stop
  split
  · have hx := Good.refl hs
    leaf hx
  · simp only []
    have h1 := stopCore_pres hin s hs
    leaf h1

theorem shutdown_pres : Pres cfg (shutdown cfg inner) := by
  intro s hs
  have hx := Good.refl hs
  unfold shutdown
  split
  · leaf hx
  · split
    · leaf hx
    · simp only []
      split
      · rename_i g hg
        leaf hx
      · exact (commitAndStop_pres hin).step (by leaf hx)

theorem mkOps_pres : OpsPres cfg (mkOps cfg inner) :=
  ⟨stop_pres hin, stopCore_pres hin, commitUser_pres cfg, shutdown_pres hin⟩

end

theorem opsN_pres (cfg : Cfg) : ∀ n, OpsPres cfg (opsN cfg n)
  | 0 => ⟨crash_pres cfg _, crash_pres cfg _, crash_pres cfg _, crash_pres cfg _⟩
  | n + 1 => mkOps_pres (opsN_pres cfg n)

/-- `start()` (an application call from outside the processor) -/
theorem start_good (cfg : Cfg) (off : Int) {s : St} (hs : G cfg s) (hf : s.frame = none) : Good cfg s (start cfg off s) := by
  have hx := Good.refl hs
  unfold start
  split
  · leaf hx
  · simp only []
    have h1 := (doFetch_pres cfg).step (s := s) (x := { s with startD := .pending, fetchOffset := off }) (by leaf hx)
    split
    · leaf h1
    · exact h1

end Afkak.Proofs.Consumer
