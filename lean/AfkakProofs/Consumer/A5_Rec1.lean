import Afkak.Monitor.C03Store
import AfkakProofs.Consumer.Trace
/-!
# C03: an acknowledged commit is recorded (`C03.recStep`, `ackRecordedOk`) - every handler keeps the invariant `Hq`

(skeleton generated from `A5_TwoRuns4.lean`: same call structure, a different invariant)
-/
namespace Afkak.Proofs.Consumer.A5
open Afkak.Consumer Afkak.Monitor Afkak.Consts Afkak.Proofs.Consumer

/-- the invariant, over the parts of the state it speaks about: the trace so far, `last_committed_offset`, `_commit_req`.
    `c`: additionally, no acknowledgement is being handled (the monitor's `cur` is clear). -/
structure HrP (c : Bool) (out : List Item) (lc : Option Int) (cr : Option CommitReq) : Prop where
  r1 : (runR C03.recStep {} out).bad = false
  r2 : ∀ k, (runR C03.recStep {} out).cur = some k → ∃ v, lc = some v ∧ (k, v) ∈ (runR C03.recStep {} out).reqs
  r3 : ∀ r, cr = some r → (r.k, r.off) ∈ (runR C03.recStep {} out).reqs
  r4 : c = true → (runR C03.recStep {} out).cur = none

def Hq (c : Bool) (s : St) : Prop := HrP c s.out s.lastCommitted s.commitReq

def PresQ (h : St → St) : Prop := ∀ (a : Bool) (s : St), Hq a s → Hq a (h s)

theorem rec_fetch (m : C03.RecSt) (k : _) (off : _) (mb : _) : C03.recStep m (.ob (.fetch k off mb)) = m := rfl
theorem rec_offsets (m : C03.RecSt) (k : _) (t : _) : C03.recStep m (.ob (.offsets k t)) = m := rfl
theorem rec_offsetFetch (m : C03.RecSt) (k : _) : C03.recStep m (.ob (.offsetFetch k)) = m := rfl
theorem rec_proc (m : C03.RecSt) (blk : _) : C03.recStep m (.ob (.proc blk)) = m := rfl
theorem rec_procRet (m : C03.RecSt) (r : _) : C03.recStep m (.ob (.procRet r)) = m := rfl
theorem rec_act (m : C03.RecSt) (a : _) : C03.recStep m (.ob (.act a)) = m := rfl
theorem rec_procCancel (m : C03.RecSt) : C03.recStep m (.ob (.procCancel)) = m := rfl
theorem rec_cancelReq (m : C03.RecSt) (k : _) : C03.recStep m (.ob (.cancelReq k)) = m := rfl
theorem rec_startFired (m : C03.RecSt) (r : _) : C03.recStep m (.ob (.startFired r)) = m := rfl
theorem rec_shutdownFired (m : C03.RecSt) (r : _) : C03.recStep m (.ob (.shutdownFired r)) = m := rfl
theorem rec_shutdownRejected (m : C03.RecSt) : C03.recStep m (.ob (.shutdownRejected)) = m := rfl
theorem rec_commitFired (m : C03.RecSt) (c : _) (r : _) : C03.recStep m (.ob (.commitFired c r)) = m := rfl
theorem rec_waiterFired (m : C03.RecSt) (w : _) (r : _) : C03.recStep m (.ob (.waiterFired w r)) = m := rfl
theorem rec_setTimer (m : C03.RecSt) (t : _) (d : _) : C03.recStep m (.ob (.setTimer t d)) = m := rfl
theorem rec_cancelTimer (m : C03.RecSt) (t : _) : C03.recStep m (.ob (.cancelTimer t)) = m := rfl
theorem rec_stopReturned (m : C03.RecSt) (v : _) : C03.recStep m (.ob (.stopReturned v)) = m := rfl
theorem rec_raisedRestart (m : C03.RecSt) : C03.recStep m (.ob (.raisedRestart)) = m := rfl
theorem rec_raisedRestop (m : C03.RecSt) : C03.recStep m (.ob (.raisedRestop)) = m := rfl
theorem rec_crash (m : C03.RecSt) (site : _) : C03.recStep m (.ob (.crash site)) = m := rfl
theorem rec_commitReq (m : C03.RecSt) (k : Nat) (off : Int) : C03.recStep m (.ob (.commitReq k off)) = { m with reqs := (k, off) :: m.reqs } := rfl

syntax "qleaf" ident : tactic
macro_rules
  | `(tactic| qleaf $h) => `(tactic|
      (simp only [Hq, emit, crash] at *
       obtain ⟨r1, r2, r3, r4⟩ := $h
       constructor <;> ((try simp only [runR_cons, rec_fetch, rec_offsets, rec_offsetFetch, rec_proc, rec_procRet, rec_act, rec_procCancel, rec_cancelReq, rec_startFired, rec_shutdownFired, rec_shutdownRejected, rec_commitFired, rec_waiterFired, rec_setTimer, rec_cancelTimer, rec_stopReturned, rec_raisedRestart, rec_raisedRestop, rec_crash, rec_commitReq] at *) <;> grind [runR_cons, rec_fetch, rec_offsets, rec_offsetFetch, rec_proc, rec_procRet, rec_act, rec_procCancel, rec_cancelReq, rec_startFired, rec_shutdownFired, rec_shutdownRejected, rec_commitFired, rec_waiterFired, rec_setTimer, rec_cancelTimer, rec_stopReturned, rec_raisedRestart, rec_raisedRestop, rec_crash, rec_commitReq])))

syntax "presq_leaf" "[" ident* "]" : tactic
macro_rules
  | `(tactic| presq_leaf [$ds*]) => `(tactic|
      (intro a s hx
       unfold $ds*
       qleaf hx))

section
variable (cfg : Cfg)

theorem crash_q (site : String) : PresQ (crash site) := by presq_leaf [crash]
theorem startErrback_q (f : Fail) : PresQ (startErrback f) := by presq_leaf [startErrback]
theorem doFetch_q : PresQ (doFetch cfg) := by presq_leaf [doFetch startErrback errbackRaises]
theorem retryFetch_q (a : Option Rat) : PresQ (retryFetch cfg a) := by presq_leaf [retryFetch]
theorem looperReset_q : PresQ (looperReset cfg) := by presq_leaf [looperReset]
theorem stopRetry_q : PresQ stopRetry := by presq_leaf [stopRetry]
theorem stopTimers_q : PresQ stopTimers := by presq_leaf [stopTimers]
theorem stopFinish_q : PresQ stopFinish := by presq_leaf [stopFinish crash]
theorem stopBlock_q : PresQ stopBlock := by presq_leaf [stopBlock]
theorem finishSimple_q : PresQ finishSimple := by presq_leaf [finishSimple]
theorem sendCommitRequest_q (d : Option Rat) (a : Option Nat) : PresQ (sendCommitRequest cfg d a) := by
  presq_leaf [sendCommitRequest crash]
theorem handleAutoCommitError_q (f : Fail) : PresQ (handleAutoCommitError f) := by
  presq_leaf [handleAutoCommitError startErrback]
theorem handleProcessorError_q (f : Fail) : PresQ (handleProcessorError f) := by
  presq_leaf [handleProcessorError startErrback]

theorem commitState_q (w : Who) : PresQ (commitState cfg w) := by
  intro a s hx
  unfold commitState
  split
  · exact hx
  · split
    · exact hx
    · split
      · cases w <;> exact hx
      · simp only []
        exact looperReset_q cfg a _ (sendCommitRequest_q cfg none none a _ hx)

theorem autoCommit_q (b : Bool) : PresQ (autoCommit cfg b) := by
  intro a s hx
  have hc := commitState_q cfg .auto a s hx
  unfold autoCommit
  simp only []
  repeat' split
  all_goals first
    | exact hx
    | exact hc
    | exact handleAutoCommitError_q _ a _ hc

theorem commitUser_q : PresQ (commitUser cfg) := by
  intro a s hx
  have hc := commitState_q cfg .user a s hx
  unfold commitUser
  simp only []
  split
  · qleaf hc
  · exact hc

theorem handleFetchError_q (f : Fail) : PresQ (handleFetchError cfg f) := by
  intro a s hx
  unfold handleFetchError fetchErrorTail
  simp only []
  split
  · exact hx
  · split
    · exact startErrback_q f a _ hx
    · repeat' split
      all_goals first
        | exact hx
        | exact startErrback_q f a _ hx
        | exact retryFetch_q cfg none a _ hx

theorem handleOffsetError_q (f : Fail) : PresQ (handleOffsetError cfg f) := by
  intro a s hx
  unfold handleOffsetError offsetErrorTail
  repeat' split
  all_goals first
    | exact hx
    | exact startErrback_q f a _ hx
    | exact retryFetch_q cfg none a _ hx

/-- `_handle_offset_response` sets `last_committed_offset`: only outside the handling of a commit acknowledgement -/
theorem handleOffsetResponse_q (isFetch : Bool) (off : Int) (s : St) (hx : Hq true s) :
    Hq true (handleOffsetResponse cfg isFetch off s) := by
  unfold handleOffsetResponse offsetResponseTail
  simp only []
  split
  · exact hx
  · refine doFetch_q cfg true _ ?_
    repeat' split
    all_goals first | exact hx | qleaf hx

theorem stopReq_q : PresQ (stopReq cfg) := by
  intro a s hx
  unfold stopReq
  split
  · simp only []
    rename_i k kind c hreq
    have hq : Hq a ({ emit (.cancelReq k) s with requestD := .pending k kind true } : St) := (by qleaf hx)
    split
    · split
      · exact handleFetchError_q cfg _ a _ hq
      · exact handleOffsetError_q cfg _ a _ hq
    · exact hq
  · exact hx

theorem procEnter_q (blk rest' : List Msg) (last : Int) : PresQ (procEnter blk rest' last) := by presq_leaf [procEnter]
theorem procLeave_q (res : PRes) (rest' : List Msg) (last : Int) : PresQ (procLeave res rest' last) := by
  intro a s hx
  unfold procLeave
  cases res <;> qleaf hx

end

/-- the re-entrant API one level down -/
structure OpsQ (inner : Ops) : Prop where
  stop : PresQ inner.stop
  stopCore : PresQ inner.stopCore
  commit : PresQ inner.commit
  shutdown : PresQ inner.shutdown

section
variable {cfg : Cfg} {inner : Ops} (hin : OpsQ inner)
include hin

theorem acts_q (a : Bool) (acts : List Act) : ∀ {s : St}, Hq a s →
    Hq a (acts.foldl (fun s a => runAct inner a (emit (.act a) s)) s) := by
  induction acts with
  | nil => intro s h; exact h
  | cons x as ih =>
    intro s h
    simp only [List.foldl_cons]
    refine ih ?_
    cases x with
    | stop => exact hin.stop a _ ((by qleaf h))
    | commit => exact hin.commit a _ ((by qleaf h))
    | shutdown => exact hin.shutdown a _ ((by qleaf h))

theorem nestedStop_q : PresQ (nestedStop inner) := by
  intro a s hx
  unfold nestedStop
  split
  · exact hx
  · split
    · exact crash_q _ a _ hx
    · exact hin.stopCore a _ hx

theorem shutdownFinish_q (r : Option Fail) : PresQ (shutdownFinish inner r) := by
  intro a s hx
  unfold shutdownFinish
  simp only []
  have h1 : Hq a (nestedStop inner { s with shutdownD := false }) := nestedStop_q hin a _ hx
  generalize nestedStop inner { s with shutdownD := false } = s1 at h1 ⊢
  split
  · exact crash_q _ a _ h1
  · split
    · qleaf h1
    · qleaf h1

theorem commitAndStop_q : PresQ (commitAndStop cfg inner) := by
  intro a s hx
  have hc := commitState_q cfg .shut a s hx
  unfold commitAndStop commitAndStop1
  repeat' split
  all_goals first
    | exact shutdownFinish_q hin _ a _ hx
    | exact shutdownFinish_q hin _ a _ hc
    | exact hc

theorem shutdownSuccess_q : PresQ (shutdownSuccess cfg inner) := by
  intro a s hx
  unfold shutdownSuccess
  split
  · exact commitAndStop_q hin a _ hx
  · exact shutdownFinish_q hin none a _ hx

theorem fireWaiter_q (r : DRes) (w : Waiter) : PresQ (fun s => fireWaiter cfg inner r s w) := by
  intro a s hx
  cases w <;> cases r <;> simp only [fireWaiter]
  all_goals first
    | exact hx
    | exact handleAutoCommitError_q _ a _ hx
    | exact autoCommit_q cfg _ a _ hx
    | exact shutdownSuccess_q hin a _ hx
    | exact shutdownFinish_q hin _ a _ hx
    | exact commitAndStop_q hin a _ hx
    | qleaf hx

theorem waiters_q (a : Bool) (r : DRes) (ws : List Waiter) : ∀ {s : St}, Hq a s →
    Hq a (ws.foldl (fireWaiter cfg inner r) s) := by
  induction ws with
  | nil => intro s h; exact h
  | cons w ws ih =>
    intro s h
    simp only [List.foldl_cons]
    exact ih (fireWaiter_q hin r w a _ h)

theorem deliver_q (r : DRes) : PresQ (deliver cfg inner r) := by
  intro a s hx
  unfold deliver
  simp only []
  exact waiters_q hin a r _ hx

theorem handleCommitError_q (f : Fail) (d : Rat) (n : Nat) : PresQ (handleCommitError cfg inner f d n) := by
  intro a s hx
  unfold handleCommitError
  repeat' split
  all_goals first
    | exact deliver_q hin _ a _ hx
    | qleaf hx

theorem cancelWaiters_q : ∀ (fuel : Nat), PresQ (cancelWaiters cfg inner fuel) := by
  intro fuel
  induction fuel with
  | zero =>
    intro a s hx
    unfold cancelWaiters
    split
    · exact hx
    · exact crash_q _ a _ hx
  | succ n ih =>
    intro a s hx
    unfold cancelWaiters
    split
    · exact hx
    · simp only []
      exact ih a _ (fireWaiter_q hin _ _ a _ hx)

theorem stopCommitReq_q : PresQ (stopCommitReq cfg inner) := by
  intro a s hx
  unfold stopCommitReq
  split
  · simp only []
    split
    · exact handleCommitError_q hin _ _ _ a _ ((by qleaf hx))
    · qleaf hx
  · exact hx

theorem procBody_q (a : Bool) (k : St → St × Bool) (hk : ∀ s', Hq a s' → Hq a (k s').1)
    (blk rest' : List Msg) (last : Int) (e : PEntry) {s : St} (h : Hq a s) :
    Hq a (procBody cfg inner k blk rest' last e s).1 := by
  have h3 : Hq a (procLeave e.res rest' last (procActs inner e.acts (procEnter blk rest' last s))) :=
    procLeave_q _ _ _ a _ (acts_q hin a e.acts (procEnter_q blk rest' last a _ h))
  unfold procBody
  simp only []
  generalize procLeave e.res rest' last (procActs inner e.acts (procEnter blk rest' last s)) = s3 at *
  cases hres : e.res with
  | ok =>
    simp only []
    have r4 := autoCommit_q cfg true a s3 h3
    split
    · exact r4
    · exact hk _ r4
  | err kd t =>
    simp only []
    have r4 := handleProcessorError_q (.ext kd t) a s3 h3
    split
    · exact r4
    · split
      · exact r4
      · exact hk _ r4
  | defer =>
    simp only []
    split
    · exact h3
    · exact handleProcessorError_q _ a s3 h3

theorem procLoop_q (a : Bool) : ∀ (fuel : Nat) (rest : List Msg) {s : St}, Hq a s →
    Hq a (procLoop cfg inner fuel rest s).1 := by
  intro fuel
  induction fuel with
  | zero => intro rest s h; exact h
  | succ n ih =>
    intro rest s h
    unfold procLoop
    split
    · exact h
    · split
      · exact h
      · exact procBody_q hin a _ (fun s' h' => ih _ h') _ _ _ _ h

theorem deliverBlock_q (msgs : List Msg) : PresQ (deliverBlock cfg inner msgs) := by
  intro a s hx
  unfold deliverBlock
  split
  · exact hx
  · simp only []
    have h2 := procLoop_q (cfg := cfg) hin a (msgs.length + 1) msgs (s := { s with msgBlock := true }) hx
    generalize (procLoop cfg inner (msgs.length + 1) msgs { s with msgBlock := true }) = res at *
    obtain ⟨s2, done⟩ := res
    simp only [] at *
    split
    · exact h2
    · exact finishSimple_q a _ h2

theorem fetchTail_q (via : Bool) (r : Reply) : PresQ (fetchTail cfg inner via r) := by
  intro a s hx
  unfold fetchTail
  simp only []
  generalize (extract s.fetchOffset r.msgs).2 = fo'
  generalize (extract s.fetchOffset r.msgs).1 = msgs
  split
  · exact retryFetch_q cfg _ a _ (deliverBlock_q hin msgs a _ hx)
  · split
    · exact retryFetch_q cfg _ a _ (deliverBlock_q hin msgs a _ hx)
    · have h5 : Hq a (deliverBlock cfg inner msgs (startErrback .tooSmall { s with fetchOffset := fo' })) :=
        deliverBlock_q hin msgs a _ (startErrback_q _ a _ hx)
      split
      · exact handleFetchError_q cfg _ a _ h5
      · exact h5
  · have h5 : Hq a (deliverBlock cfg inner msgs { s with fetchOffset := fo' }) := deliverBlock_q hin msgs a _ hx
    split
    · exact h5
    · exact handleFetchError_q cfg _ a _ h5

theorem handleFetchResponse_q (k : Nat) (r : Reply) : PresQ (handleFetchResponse cfg inner k r) := by
  intro a s hx
  unfold handleFetchResponse
  split
  · exact hx
  · simp only []
    split
    · exact hx
    · unfold fetchBody
      exact fetchTail_q hin false r a _ hx

theorem finishFull_q : PresQ (finishFull cfg inner) := by
  intro a s hx
  unfold finishFull
  split
  · simp only []
    split
    · split
      · exact hx
      · unfold fetchBody
        exact fetchTail_q hin true _ a _ hx
    · exact hx
  · exact hx

theorem procResult_q (g : Gen) (r : Option Fail) : PresQ (procResult cfg inner g r) := by
  intro a s hx
  have h1 : Hq a (procFired cfg g r s) := by
    unfold procFired
    cases r with
    | none => exact autoCommit_q cfg true a _ hx
    | some f => exact handleProcessorError_q f a _ hx
  have hres : ∀ passed, Hq a (procResume cfg inner g passed (procFired cfg g r s)) := by
    intro passed
    unfold procResume
    split
    · exact h1
    · simp only []
      have h3 := procLoop_q (cfg := cfg) hin a (g.rest.length + 1) g.rest h1
      split
      · exact h3
      · exact finishFull_q hin a _ h3
  unfold procResult
  simp only []
  split
  · exact commitAndStop_q hin a _ (hres _)
  · exact hres _

theorem stopBlockProc_q : PresQ (stopBlockProc cfg inner) := by
  intro a s hx
  have hb := stopBlock_q a s hx
  unfold stopBlockProc
  split
  · exact procResult_q hin _ _ a _ ((by qleaf hb))
  · exact hb

theorem stopCore_q : PresQ (stopCore cfg inner) := by
  intro a s hx
  unfold stopCore
  simp only []
  exact stopFinish_q a _ (stopTimers_q a _ (stopCommitReq_q hin a _ (cancelWaiters_q hin _ a _ (stopRetry_q a _
    (stopBlockProc_q hin a _ (stopReq_q cfg a _ hx))))))

theorem stop_q : PresQ (stop cfg inner) := by
  intro a s hx
  unfold stop
  split
  · qleaf hx
  · simp only []
    have hq := stopCore_q (cfg := cfg) hin a s hx
    qleaf hq

theorem shutdown_q : PresQ (shutdown cfg inner) := by
  intro a s hx
  unfold shutdown
  split
  · qleaf hx
  · split
    · qleaf hx
    · simp only []
      split
      · exact hx
      · exact commitAndStop_q hin a _ hx

theorem mkOps_q : OpsQ (mkOps cfg inner) :=
  ⟨stop_q hin, stopCore_q hin, commitUser_q cfg, shutdown_q hin⟩

end

theorem opsN_q (cfg : Cfg) : ∀ n, OpsQ (opsN cfg n)
  | 0 => ⟨crash_q _, crash_q _, crash_q _, crash_q _⟩
  | n + 1 => mkOps_q (opsN_q cfg n)



end Afkak.Proofs.Consumer.A5
