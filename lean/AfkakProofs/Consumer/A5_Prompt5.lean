import AfkakProofs.Consumer.A5_Prompt4
/-!
# C02 prompt delivery (5): the processor's result, `stop()`, `shutdown()`, every level of the re-entrant API
-/
namespace Afkak.Proofs.Consumer.P
open Afkak.Consumer Afkak.Monitor Afkak.Consts Afkak.Proofs.Consumer

theorem procLoop_stopping (cfg : Cfg) (inner : Ops) (fuel : Nat) (rest : List Msg) (s : St) (h : s.stopping = true) :
    procLoop cfg inner fuel rest s = (s, true) := by
  cases fuel with
  | zero => rfl
  | succ n => unfold procLoop; simp [h]

theorem procResume_stopping (cfg : Cfg) (inner : Ops) (g : Gen) (s : St) (h : s.stopping = true) (hb : s.msgBlock = false)
    (hp : s.proc = none) : procResume cfg inner g false s = s := by
  unfold procResume
  simp [procLoop_stopping cfg inner _ _ s h, hp, finishFull, hb]

theorem stopReq_stopping (cfg : Cfg) (s : St) : (stopReq cfg s).stopping = s.stopping := by
  unfold stopReq handleFetchError handleOffsetError fetchErrorTail offsetErrorTail startErrback retryFetch emit
  grind

theorem LFr.ncr {a b : St} (h : LFr a b) (hb : b.crashed = false) : a.crashed = false := by
  cases ha : a.crashed with
  | false => rfl
  | true => have := h.cr ha; rw [this] at hb; cases hb

theorem Hp.closeS {a wS c d : Prop} {s : St} (h : Hp a wS c d s) (hc : wS → s.crashed = false → s.stopping = true → s.proc = none) :
    Hp a False c d s :=
  ⟨h.bad, h.pk, h.pkb, h.parkRun, h.run, h.runW, h.shut, h.pend,
    fun c' m => by
      rcases h.stp c' m with w | w
      · exact Or.inr (hc w c' m)
      · exact Or.inr w, h.procRun, h.blockRun, h.blk, h.reqRun, h.req, h.park⟩

section
variable {cfg : Cfg} {inner : Ops} (hin : OpsP inner)
include hin


/-- the loop's result, then the end of `_process_messages`: tight again -/
theorem resumeTail_p {a : St} (res : St × Bool) (lp : LoopPost a res) :
    LRel False False False False a (if res.1.proc.isSome || !res.2 then res.1 else finishFull cfg inner res.1) := by
  obtain ⟨⟨g2, l2⟩, hh⟩ := lp
  split
  · rename_i hc
    refine ⟨g2.closeB (fun _ c m => ?_), l2⟩
    rcases (by simpa using hc : res.1.proc.isSome = true ∨ res.2 = false) with h | h
    · exact Or.inr (Or.inl h)
    · exact Or.inr (Or.inr (hh h))
  · have f := (finishFull_p (cfg := cfg) hin g2).1
    exact ⟨f.1, l2.trans f.2⟩

/-- The processor's Deferred fires with a result, at top level. -/
theorem procOk_p (g : Gen) {s : St} (hs : Hp0 s) (hp : s.proc = some g) (hcr : s.crashed = false) (hst : s.stopping = false)
    (hmb : s.msgBlock = true) (hexp : (pm s).expect = false) :
    Hp0 (procResult cfg inner g none { s with out := .ev .procOk :: s.out }) ∧
      ((procResult cfg inner g none { s with out := .ev .procOk :: s.out }).crashed = false →
        (procResult cfg inner g none { s with out := .ev .procOk :: s.out }).stopping = false ∧
        (pm (procResult cfg inner g none { s with out := .ev .procOk :: s.out })).expect = false) := by
  have ha : Hp False False True False { ({ s with out := .ev .procOk :: s.out } : St) with proc := none, lastProcessed := some g.last } := by
    hp_fields hs
  have hob : (pm { ({ s with out := .ev .procOk :: s.out } : St) with proc := none, lastProcessed := some g.last }).expect = true →
      ∃ po, Obl { ({ s with out := .ev .procOk :: s.out } : St) with proc := none, lastProcessed := some g.last } po := by
    have hrun := hs.procRun hcr (by rw [hp]; rfl)
    unfold Obl
    simp only [pm, runR_cons, C02.prStep] at *
    split
    · rename_i hc
      simp only [Bool.and_eq_true, Bool.not_eq_true', Option.isSome_iff_exists] at hc
      obtain ⟨⟨⟨⟨po, hpo⟩, h2⟩, h3⟩, h4⟩ := hc
      intro _
      exact ⟨po, hcr, hpo, h2, h3, h4, hst, hrun⟩
    · intro h; rw [hexp] at h; cases h
  have ast : ({ ({ s with out := .ev .procOk :: s.out } : St) with proc := none, lastProcessed := some g.last } : St).stopping = false := hst
  have amb : ({ ({ s with out := .ev .procOk :: s.out } : St) with proc := none, lastProcessed := some g.last } : St).msgBlock = true := hmb
  have apr : ({ ({ s with out := .ev .procOk :: s.out } : St) with proc := none, lastProcessed := some g.last } : St).proc = none := rfl
  unfold procResult procFired
  simp only []
  generalize ({ ({ s with out := .ev .procOk :: s.out } : St) with proc := none, lastProcessed := some g.last } : St) = a at *
  have h1 := autoCommit_p cfg False False True False true a ha
  obtain ⟨m1, m2, m3, m4, m5, m6, m7, m8, m9, m10⟩ := autoCommit_same cfg true a
  have sm := autoCommit_same cfg true a
  generalize autoCommit cfg true a = s1 at *
  have lp := procLoop_p (cfg := cfg) hin (g.rest.length + 1) g.rest (wP := False) h1.toL (fun w => w.elim) (fun w => w.elim)
  have hz : LRel False False False False a (procResume cfg inner g false s1) ∧
      ((procResume cfg inner g false s1).crashed = false → (pm (procResume cfg inner g false s1)).expect = false) := by
    unfold procResume
    simp only [Bool.false_eq_true, if_false]
    have rt := resumeTail_p (cfg := cfg) hin _ lp.1
    refine ⟨rt, fun hzc => ?_⟩
    cases hex : (pm a).expect with
    | false => exact rt.2.exp hex
    | true =>
      obtain ⟨po, ho⟩ := hob hex
      have hc1 : s1.crashed = false := (show LFr s1 _ from
        ((resumeTail_p (cfg := cfg) hin _ (procLoop_p (cfg := cfg) hin (g.rest.length + 1) g.rest (wP := False)
          (LRel.refl h1.1) (fun w => w.elim) (fun w => w.elim)).1).2)).ncr hzc
      have ho1 : Obl s1 po := ho.same sm hc1
      have hsd : s1.shuttingDown = false := h1.1.shut hc1 ho1.2.2.2.1
      have hs1 : s1.stopping = false := ho1.2.2.2.2.2.1
      cases hre : g.rest.isEmpty with
      | false =>
        have hx := lp.2 (by omega) hre hsd hs1
        have rt' := resumeTail_p (cfg := cfg) hin _ (procLoop_p (cfg := cfg) hin (g.rest.length + 1) g.rest (wP := False)
          (LRel.refl (procLoop_p (cfg := cfg) hin (g.rest.length + 1) g.rest (wP := False) h1.toL (fun w => w.elim) (fun w => w.elim)).1.1.1) (fun w => w.elim) (fun w => w.elim)).1
        split
        · exact hx
        · exact ((finishFull_p (cfg := cfg) hin lp.1.1.1).1.2).exp hx
      | true =>
        have hnil : g.rest = [] := by cases hg : g.rest <;> simp_all
        have hl : procLoop cfg inner (g.rest.length + 1) g.rest s1 = (s1, true) := by
          rw [hnil]; simp [procLoop]
        rw [hl]
        simp only [m4, apr, Option.isSome_none, Bool.not_true, Bool.or_self, Bool.false_eq_true, if_false]
        exact (finishFull_p (cfg := cfg) hin h1.1).2 (by rw [m5]; exact amb) hsd po ho1
  generalize procResume cfg inner g false s1 = z at *
  have lsa : LFr { s with out := .ev .procOk :: s.out } a ∨ True := Or.inr trivial
  split
  · have c := commitAndStop_p (cfg := cfg) hin z hz.1.1
    refine ⟨c.1, fun hc => ?_⟩
    have hzc : z.crashed = false := c.2.l.ncr hc
    exact ⟨c.2.l.stop (hz.1.2.stop ast), c.2.l.exp (hz.2 hzc)⟩
  · exact ⟨hz.1.1, fun hc => ⟨hz.1.2.stop ast, hz.2 hc⟩⟩

/-- The processor's Deferred fires with a failure, at top level: the consumer is halted. -/
theorem procErr_p (g : Gen) (k : ErrKind) (t : Nat) {s : St} (hs : Hp0 s) (hp : s.proc = some g) (hcr : s.crashed = false)
    (hst : s.stopping = false) (hexp : (pm s).expect = false) :
    Hp0 (procResult cfg inner g (some (.ext k t)) { s with out := .ev (.procErr k t) :: s.out }) ∧
      ((procResult cfg inner g (some (.ext k t)) { s with out := .ev (.procErr k t) :: s.out }).crashed = false →
        (procResult cfg inner g (some (.ext k t)) { s with out := .ev (.procErr k t) :: s.out }).stopping = false ∧
        (pm (procResult cfg inner g (some (.ext k t)) { s with out := .ev (.procErr k t) :: s.out })).expect = false) := by
  have ha : Hp0 { ({ s with out := .ev (.procErr k t) :: s.out } : St) with proc := none } := by
    hp_fields hs
  have aex : (pm { ({ s with out := .ev (.procErr k t) :: s.out } : St) with proc := none }).expect = false := by
    simpa [pm, runR_cons, C02.prStep] using hexp
  have ast : ({ ({ s with out := .ev (.procErr k t) :: s.out } : St) with proc := none } : St).stopping = false := hst
  have hpass : procErrPassed (.ext k t) { s with out := .ev (.procErr k t) :: s.out } = true := by
    simp [procErrPassed, hst]
  unfold procResult procFired procResume
  simp only [hpass, if_true]
  generalize ({ ({ s with out := .ev (.procErr k t) :: s.out } : St) with proc := none } : St) = a at *
  have h1 := handleProcessorError_p False False False False (.ext k t) a ha
  generalize handleProcessorError (.ext k t) a = z at *
  split
  · have c := commitAndStop_p (cfg := cfg) hin z h1.1
    exact ⟨c.1, fun _ => ⟨c.2.l.stop (h1.2.l.stop ast), c.2.l.exp (h1.2.l.exp aex)⟩⟩
  · exact ⟨h1.1, fun _ => ⟨h1.2.l.stop ast, h1.2.l.exp aex⟩⟩

end
end Afkak.Proofs.Consumer.P
