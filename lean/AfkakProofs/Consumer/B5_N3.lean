import AfkakProofs.Consumer.B5_N2
/-!
# Quiescence after `stop()`: the processing loop
-/
namespace Afkak.Proofs.Consumer.BN
open Afkak.Consumer Afkak.Monitor Afkak.Consts Afkak.Proofs.Consumer

set_option linter.unusedSectionVars false

variable [EnvHyp]

/-- the invariant between handlers, outside `stop()` -/
def QS (s : St) : Prop := QG 0 s ∧ s.stopping = false

/-- the invariant at a point where the `_process_messages` generator is executing (it is not suspended; while the
    consumer runs its block of messages is in progress) -/
def QN (s : St) : Prop := QG 0 s ∧ s.stopping = false ∧ s.proc = none ∧ (s.startD ≠ .none → s.msgBlock = true)

theorem qn_keeps {s s' : St} (hk : Keeps s s') (hq : QG 0 s') (h : QN s) : QN s' := by
  refine ⟨hq, hk.2.1.trans h.2.1, hk.1.trans h.2.2.1, fun hs' => ?_⟩
  have h1 : s.startD ≠ .none := fun e => hs' (hk.2.2.2.1.mpr e)
  rw [hk.2.2.1]; exact h.2.2.2 h1

/-- the re-entrant API preserves the invariant (it is called while the generator is executing) -/
structure OpsQ (inner : Ops) : Prop where
  stop : ∀ s, QN s → QN (inner.stop s)
  commit : ∀ s, QN s → Live s → QN (inner.commit s)
  shutdown : ∀ s, QN s → QN (inner.shutdown s)

theorem procLeave_keeps' (res : PRes) (rest' : List Msg) (last : Int) (s : St) :
    (procLeave res rest' last s).stopping = s.stopping ∧ (procLeave res rest' last s).msgBlock = s.msgBlock ∧
    (procLeave res rest' last s).startD = s.startD := by
  unfold procLeave emit
  repeat' split
  all_goals exact ⟨rfl, rfl, rfl⟩

section
variable {cfg : Cfg} {inner : Ops} (hin : OpsQ inner)
include hin

theorem procActs_pn (acts : List Act) : ∀ s, QN s → QN (procActs inner acts s) := by
  unfold procActs
  induction acts with
  | nil => intro s h; exact h
  | cons a as ih =>
    intro s h
    simp only [List.foldl_cons]
    apply ih
    have h1 : QN (emit (.act a) s) := ⟨by obtain ⟨h, _⟩ := h; cases a <;> qg_leaf h, h.2⟩
    cases a <;> simp only [runAct]
    · exact hin.stop _ h1
    · refine hin.commit _ h1 ?_
      unfold Live emit
      simp only [runR_cons, C13.qStep]
      split <;> simp_all
    · exact hin.shutdown _ h1

omit hin in
theorem procEnter_q (blk rest' : List Msg) (last : Int) (s : St) (h : QN s) (hr : s.startD ≠ .none) :
    QN (procEnter blk rest' last s) := by
  obtain ⟨h, hp⟩ := h
  refine ⟨?_, hp⟩
  unfold procEnter; qg_leaf h

omit hin in
theorem procLeave_q (res : PRes) (rest' : List Msg) (last : Int) (s : St) (h : QN s) : QG 0 (procLeave res rest' last s) := by
  obtain ⟨h, hst, hp, hb⟩ := h
  unfold procLeave
  repeat' split
  all_goals qg_leaf h

theorem procBody_q (k : St → St × Bool) (hk : ∀ s, QN s → s.startD ≠ .none → QS (k s).1)
    (blk rest' : List Msg) (last : Int) (e : PEntry) (s : St) (h : QN s) (hr : s.startD ≠ .none) :
    QS (procBody cfg inner k blk rest' last e s).1 := by
  have h2 : QN (procActs inner e.acts (procEnter blk rest' last s)) := procActs_pn hin _ _ (procEnter_q blk rest' last s h hr)
  have h3 := procLeave_q e.res rest' last _ h2
  have hk3 := procLeave_keeps' e.res rest' last (procActs inner e.acts (procEnter blk rest' last s))
  unfold procBody
  simp only []
  generalize procActs inner e.acts (procEnter blk rest' last s) = s2 at h2 h3 hk3
  cases hres : e.res with
  | ok =>
    rw [hres] at h3 hk3
    simp only []
    have hp3 : QN (procLeave .ok rest' last s2) :=
      ⟨h3, hk3.1.trans h2.2.1, h2.2.2.1, by rw [hk3.2.2, hk3.2.1]; exact h2.2.2.2⟩
    have h4 := autoCommit_q cfg true 0 _ h3
    have hp4 := qn_keeps (autoCommit_keeps cfg true _) h4 hp3
    split
    · exact ⟨h4, hp4.2.1⟩
    · rename_i hc
      apply hk _ hp4
      intro h0
      simp [h0] at hc
  | err kd t =>
    rw [hres] at h3 hk3
    simp only []
    have hp3 : QN (procLeave (.err kd t) rest' last s2) :=
      ⟨h3, hk3.1.trans h2.2.1, h2.2.2.1, by rw [hk3.2.2, hk3.2.1]; exact h2.2.2.2⟩
    have h4 := handleProcessorError_pq (.ext kd t) 0 _ h3
    have hp4 := qn_keeps (handleProcessorError_keeps (.ext kd t) _) h4 hp3
    split
    · exact ⟨h4, hp4.2.1⟩
    · split
      · exact ⟨h4, hp4.2.1⟩
      · rename_i hc _
        apply hk _ hp4
        intro h0
        simp [h0] at hc
  | defer =>
    rw [hres] at h3 hk3
    simp only []
    have hst3 : (procLeave .defer rest' last s2).stopping = false := hk3.1.trans h2.2.1
    split
    · exact ⟨h3, hst3⟩
    · exact ⟨handleProcessorError_pq _ 0 _ h3, (handleProcessorError_keeps _ _).2.1.trans hst3⟩

theorem procLoop_q : ∀ (fuel : Nat) (rest : List Msg) (s : St), QN s → s.startD ≠ .none →
    QS (procLoop cfg inner fuel rest s).1 := by
  intro fuel
  induction fuel with
  | zero => intro rest s h _; exact ⟨h.1, h.2.1⟩
  | succ n ih =>
    intro rest s h hr
    unfold procLoop
    split
    · exact ⟨h.1, h.2.1⟩
    · split
      · exact ⟨h.1, h.2.1⟩
      · exact procBody_q hin _ (fun s' h' hr' => ih _ s' h' hr') _ _ _ _ s h hr

end

end Afkak.Proofs.Consumer.BN
