import Afkak.Assign
/-!
The model's UTF-8 codec: decoding inverts encoding on every string that can be encoded, and the
fuel of the decoder (one unit per byte) is never exhausted.
-/
namespace Afkak.Assign

theorem toNat_ofNat_of_lt {n : Nat} (h : n < 256) : (UInt8.ofNat n).toNat = n := by
  rw [UInt8.toNat_ofNat']; omega

/-- The strict decoder reads back the code point the encoder wrote, whatever follows. -/
theorem utf8Next_encodeChar {c : Nat} {b : Bytes} (h : utf8EncodeChar c = .ok b) (rest : Bytes) :
    utf8Next (b ++ rest) = some (c, rest) ∧ 0 < b.length := by
  unfold utf8EncodeChar at h
  by_cases h1 : c < 0x80
  · rw [if_pos h1] at h
    simp only [Except.ok.injEq] at h; subst h
    have e0 := toNat_ofNat_of_lt (n := c) (by omega)
    refine ⟨?_, by simp⟩
    simp only [List.cons_append, List.nil_append, utf8Next, e0]
    rw [if_pos h1]
  · rw [if_neg h1] at h
    by_cases h2 : c < 0x800
    · rw [if_pos h2] at h
      simp only [Except.ok.injEq] at h; subst h
      have e0 := toNat_ofNat_of_lt (n := 0xC0 + c / 64) (by omega)
      have e1 := toNat_ofNat_of_lt (n := 0x80 + c % 64) (by omega)
      refine ⟨?_, by simp⟩
      simp only [List.cons_append, List.nil_append, utf8Next, e0, isCont, e1]
      rw [if_neg (by omega), if_pos (by omega)]
      have : (decide (0x80 ≤ 0x80 + c % 64) && decide (0x80 + c % 64 ≤ 0xBF)) = true := by
        simp only [Bool.and_eq_true, decide_eq_true_eq]; omega
      rw [this]
      simp only [if_true, Option.some.injEq, Prod.mk.injEq, and_true]
      omega
    · rw [if_neg h2] at h
      by_cases h3 : c < 0x10000
      · rw [if_pos h3] at h
        by_cases hs : 0xD800 ≤ c ∧ c ≤ 0xDFFF
        · rw [if_pos hs] at h; simp at h
        · rw [if_neg hs] at h
          simp only [Except.ok.injEq] at h; subst h
          have e0 := toNat_ofNat_of_lt (n := 0xE0 + c / 4096) (by omega)
          have e1 := toNat_ofNat_of_lt (n := 0x80 + c / 64 % 64) (by omega)
          have e2 := toNat_ofNat_of_lt (n := 0x80 + c % 64) (by omega)
          refine ⟨?_, by simp⟩
          simp only [List.cons_append, List.nil_append, utf8Next, e0, isCont, e1, e2]
          rw [if_neg (by omega), if_neg (by omega), if_pos (by omega)]
          have hc : (decide (0x80 ≤ 0x80 + c % 64) && decide (0x80 + c % 64 ≤ 0xBF)) = true := by
            simp only [Bool.and_eq_true, decide_eq_true_eq]; omega
          rw [hc]
          have hcond : (if 0xE0 + c / 4096 = 0xE0 then 0xA0 else 0x80) ≤ 0x80 + c / 64 % 64 ∧
              0x80 + c / 64 % 64 ≤ (if 0xE0 + c / 4096 = 0xED then 0x9F else 0xBF) ∧ true = true := by
            refine ⟨?_, ?_, rfl⟩
            · split <;> omega
            · split <;> omega
          rw [if_pos hcond]
          simp only [Option.some.injEq, Prod.mk.injEq, and_true]
          omega
      · rw [if_neg h3] at h
        by_cases h4 : c < 0x110000
        · rw [if_pos h4] at h
          simp only [Except.ok.injEq] at h; subst h
          have e0 := toNat_ofNat_of_lt (n := 0xF0 + c / 262144) (by omega)
          have e1 := toNat_ofNat_of_lt (n := 0x80 + c / 4096 % 64) (by omega)
          have e2 := toNat_ofNat_of_lt (n := 0x80 + c / 64 % 64) (by omega)
          have e3 := toNat_ofNat_of_lt (n := 0x80 + c % 64) (by omega)
          refine ⟨?_, by simp⟩
          simp only [List.cons_append, List.nil_append, utf8Next, e0, isCont, e1, e2, e3]
          rw [if_neg (by omega), if_neg (by omega), if_neg (by omega), if_pos (by omega)]
          have hc2 : (decide (0x80 ≤ 0x80 + c / 64 % 64) && decide (0x80 + c / 64 % 64 ≤ 0xBF)) = true := by
            simp only [Bool.and_eq_true, decide_eq_true_eq]; omega
          have hc3 : (decide (0x80 ≤ 0x80 + c % 64) && decide (0x80 + c % 64 ≤ 0xBF)) = true := by
            simp only [Bool.and_eq_true, decide_eq_true_eq]; omega
          rw [hc2, hc3]
          have hcond : (if 0xF0 + c / 262144 = 0xF0 then 0x90 else 0x80) ≤ 0x80 + c / 4096 % 64 ∧
              0x80 + c / 4096 % 64 ≤ (if 0xF0 + c / 262144 = 0xF4 then 0x8F else 0xBF) ∧ true = true ∧ true = true := by
            refine ⟨?_, ?_, rfl, rfl⟩
            · split <;> omega
            · split <;> omega
          rw [if_pos hcond]
          simp only [Option.some.injEq, Prod.mk.injEq, and_true]
          omega
        · rw [if_neg h4] at h; simp at h

/-- `utf8Next` consumes at least one byte. -/
theorem utf8Next_length {bs rest : Bytes} {c : Nat} (h : utf8Next bs = some (c, rest)) : rest.length < bs.length := by
  unfold utf8Next at h
  split at h
  · simp at h
  · simp only at h
    repeat' split at h
    all_goals first
      | (simp at h; done)
      | (simp at h; obtain ⟨_, _, rfl⟩ := h; simp only [List.length_cons]; omega)
      | (simp at h; obtain ⟨_, rfl⟩ := h; simp only [List.length_cons]; omega)

/-- One unit of fuel per byte is enough: the decoder never runs out. -/
theorem utf8DecodeFuel_ne_diverges (fuel : Nat) (bs : Bytes) (h : bs.length ≤ fuel) :
    utf8DecodeFuel fuel bs ≠ .error .diverges := by
  induction fuel generalizing bs with
  | zero =>
    cases bs with
    | nil => simp [utf8DecodeFuel]
    | cons b bs => simp at h
  | succ fuel ih =>
    cases bs with
    | nil => simp [utf8DecodeFuel]
    | cons b bs =>
      simp only [utf8DecodeFuel]
      cases hn : utf8Next (b :: bs) with
      | none => simp
      | some r =>
        obtain ⟨c, rest⟩ := r
        have hl := utf8Next_length hn
        have := ih rest (by simp only [List.length_cons] at h hl; omega)
        simp only
        cases hd : utf8DecodeFuel fuel rest with
        | error e => simp only; intro he; rw [hd] at this; simp only [Except.error.injEq] at he; exact this (by rw [he])
        | ok s => simp

theorem utf8Encode_length_pos_or_nil {s : Str} {b : Bytes} (h : utf8Encode s = .ok b) : s.length ≤ b.length := by
  induction s generalizing b with
  | nil => simp
  | cons c s ih =>
    rw [utf8Encode] at h
    cases h1 : utf8EncodeChar c with
    | error e => rw [h1] at h; simp at h
    | ok b1 =>
      cases h2 : utf8Encode s with
      | error e => rw [h1, h2] at h; simp at h
      | ok b2 =>
        rw [h1, h2] at h
        simp only [Except.ok.injEq] at h; subst h
        have := (utf8Next_encodeChar h1 []).2
        have := ih h2
        simp only [List.length_cons, List.length_append]; omega

/-- `b.decode("utf-8")` inverts `s.encode("utf-8")`, with any fuel of at least the byte length. -/
theorem utf8DecodeFuel_encode {s : Str} {b : Bytes} (h : utf8Encode s = .ok b) (fuel : Nat) (hf : b.length ≤ fuel) :
    utf8DecodeFuel fuel b = .ok s := by
  induction s generalizing b fuel with
  | nil =>
    simp only [utf8Encode, Except.ok.injEq] at h; subst h
    cases fuel <;> rfl
  | cons c s ih =>
    rw [utf8Encode] at h
    cases h1 : utf8EncodeChar c with
    | error e => rw [h1] at h; simp at h
    | ok b1 =>
      cases h2 : utf8Encode s with
      | error e => rw [h1, h2] at h; simp at h
      | ok b2 =>
        rw [h1, h2] at h
        simp only [Except.ok.injEq] at h; subst h
        obtain ⟨hn, hpos⟩ := utf8Next_encodeChar h1 b2
        cases hb : b1 ++ b2 with
        | nil =>
          have : (b1 ++ b2).length = 0 := by rw [hb]; rfl
          simp only [List.length_append] at this; omega
        | cons x xs =>
          cases fuel with
          | zero => rw [hb] at hf; simp at hf
          | succ fuel =>
            rw [hb] at hn
            simp only [utf8DecodeFuel, hn]
            rw [ih h2 fuel (by
              have : (b1 ++ b2).length = (x :: xs).length := by rw [hb]
              simp only [List.length_append, List.length_cons] at this hf
              omega)]

theorem utf8Decode_encode {s : Str} {b : Bytes} (h : utf8Encode s = .ok b) : utf8Decode b = .ok s :=
  utf8DecodeFuel_encode h b.length (Nat.le_refl _)

end Afkak.Assign
