import Afkak.Monitor.C15
import AfkakProofs.Assign.Order
import AfkakProofs.Assign.Dict
/-!
The round-robin loop: specification of `pick` (the `next` + `while` skip loop), of `assignLoop`,
of `nest` (the `defaultdict` of `defaultdict(list)`), and the facts C15 is made of.
-/
namespace Afkak.Assign
open Afkak.Monitor.C15

/-! ### `memberMetadata` -/

theorem foldl_dset_nodup (ms : List Member) (acc : Dict Str (List Str)) (h : (keys acc).Nodup) :
    (keys (ms.foldl (fun d m => dset m.1 m.2 d) acc)).Nodup := by
  induction ms generalizing acc with
  | nil => exact h
  | cons m ms ih => exact ih _ (nodup_keys_dset h)

theorem nodup_keys_memberMetadata (ms : List Member) : (keys (memberMetadata ms)).Nodup :=
  foldl_dset_nodup ms [] List.nodup_nil

theorem foldl_dset_of_nodup (ms : List Member) (acc : Dict Str (List Str))
    (h : (keys acc ++ ms.map (·.1)).Nodup) :
    ms.foldl (fun d m => dset m.1 m.2 d) acc = acc ++ ms := by
  induction ms generalizing acc with
  | nil => simp
  | cons m ms ih =>
    have hm : m.1 ∉ keys acc := by
      intro hm
      have := (List.nodup_append.mp h).2.2 m.1 hm m.1 (by simp)
      exact this rfl
    simp only [List.foldl_cons, dset_of_not_mem m.2 hm]
    rw [ih]
    · simp
    · have : keys (acc ++ [(m.1, m.2)]) ++ ms.map (·.1) = keys acc ++ (m :: ms).map (·.1) := by
        simp [keys]
      rw [this]; exact h

/-- With distinct member ids the `member_metadata` dict is the member list itself. -/
theorem memberMetadata_of_nodup {ms : List Member} (h : (ms.map (·.1)).Nodup) : memberMetadata ms = ms := by
  have := foldl_dset_of_nodup ms [] (by simpa [keys] using h)
  simpa [memberMetadata] using this

/-! ### `pick` -/

/-- Whatever `pick` returns is a member of the cycle that is subscribed to the topic, and the cycle
    is only rotated. -/
theorem pick_ok_spec {md : Dict Str (List Str)} {t : Str} {fuel : Nat} {rot rot' : List Str} {m : Str}
    (h : pick md t fuel rot = .ok (m, rot')) :
    m ∈ rot ∧ rot'.Perm rot ∧ ∃ subs, dget m md = some subs ∧ t ∈ subs := by
  induction fuel generalizing rot with
  | zero => simp [pick] at h
  | succ fuel ih =>
    cases rot with
    | nil => simp [pick] at h
    | cons x rest =>
      simp only [pick] at h
      cases hx : dget x md with
      | none => rw [hx] at h; simp at h
      | some subs =>
        rw [hx] at h
        simp only at h
        by_cases ht : t ∈ subs
        · rw [if_pos ht] at h
          simp only [Except.ok.injEq, Prod.mk.injEq] at h
          obtain ⟨rfl, rfl⟩ := h
          exact ⟨List.mem_cons_self, List.perm_append_singleton _ _, subs, hx, ht⟩
        · rw [if_neg ht] at h
          obtain ⟨h1, h2, h3⟩ := ih h
          refine ⟨?_, h2.trans (List.perm_append_singleton _ _), h3⟩
          rcases List.mem_append.mp h1 with h1 | h1
          · exact List.mem_cons_of_mem _ h1
          · simp only [List.mem_singleton] at h1; subst h1; exact List.mem_cons_self

/-- The skip loop stops at the first subscribed member it meets. -/
theorem pick_first {md : Dict Str (List Str)} {t : Str} (pre : List Str) (m : Str) (post : List Str)
    (subs : List Str) (fuel : Nat)
    (hpre : ∀ x ∈ pre, ∃ s, dget x md = some s ∧ t ∉ s) (hm : dget m md = some subs) (ht : t ∈ subs)
    (hf : pre.length < fuel) :
    pick md t fuel (pre ++ m :: post) = .ok (m, post ++ pre ++ [m]) := by
  induction pre generalizing post fuel with
  | nil =>
    cases fuel with
    | zero => simp at hf
    | succ fuel => simp [pick, hm, ht]
  | cons x pre ih =>
    cases fuel with
    | zero => simp at hf
    | succ fuel =>
      obtain ⟨s, hs, hts⟩ := hpre x List.mem_cons_self
      simp only [List.cons_append, pick, hs, if_neg hts]
      have := ih (post ++ [x]) fuel (fun y hy => hpre y (List.mem_cons_of_mem _ hy))
        (by simp only [List.length_cons] at hf; omega)
      simp only [List.append_assoc, List.cons_append, List.nil_append] at this ⊢
      exact this

theorem exists_first {α : Type} (P : α → Prop) [DecidablePred P] (l : List α) (h : ∃ x ∈ l, P x) :
    ∃ pre m post, l = pre ++ m :: post ∧ P m ∧ ∀ x ∈ pre, ¬ P x := by
  induction l with
  | nil => obtain ⟨x, hx, _⟩ := h; simp at hx
  | cons a l ih =>
    by_cases ha : P a
    · exact ⟨[], a, l, rfl, ha, by simp⟩
    · obtain ⟨x, hx, hpx⟩ := h
      have : ∃ x ∈ l, P x := by
        rcases List.mem_cons.mp hx with rfl | hx
        · exact absurd hpx ha
        · exact ⟨x, hx, hpx⟩
      obtain ⟨pre, m, post, rfl, hm, hpre⟩ := ih this
      refine ⟨a :: pre, m, post, rfl, hm, ?_⟩
      intro y hy
      rcases List.mem_cons.mp hy with rfl | hy
      · exact ha
      · exact hpre y hy

/-- One full turn of the cycle is enough fuel whenever some member of the cycle wants the topic. -/
theorem pick_total {md : Dict Str (List Str)} {t : Str} {rot : List Str}
    (hall : ∀ x ∈ rot, ∃ s, dget x md = some s)
    (hsome : ∃ x ∈ rot, ∃ s, dget x md = some s ∧ t ∈ s) :
    ∃ m rot', pick md t rot.length rot = .ok (m, rot') := by
  have hsome' : ∃ x ∈ rot, (∃ s, dget x md = some s ∧ t ∈ s) := hsome
  obtain ⟨pre, m, post, rfl, ⟨s, hs, hts⟩, hpre⟩ :=
    exists_first (fun x => ∃ s, dget x md = some s ∧ t ∈ s) rot hsome'
  refine ⟨m, post ++ pre ++ [m], pick_first pre m post s _ ?_ hs hts (by simp)⟩
  intro x hx
  obtain ⟨sx, hsx⟩ := hall x (List.mem_append_left _ hx)
  exact ⟨sx, hsx, fun htx => hpre x hx ⟨sx, hsx, htx⟩⟩

theorem pick_congr {md md' : Dict Str (List Str)} (h : ∀ k, dget k md' = dget k md) (t : Str) (fuel : Nat)
    (rot : List Str) : pick md' t fuel rot = pick md t fuel rot := by
  induction fuel generalizing rot with
  | zero => rfl
  | succ fuel ih =>
    cases rot with
    | nil => rfl
    | cons x rest => simp only [pick, h x, ih]

/-! ### `assignLoop` -/

theorem assignLoop_congr {md md' : Dict Str (List Str)} (h : ∀ k, dget k md' = dget k md)
    (rot : List Str) (atp : List (Str × Int)) : assignLoop md' rot atp = assignLoop md rot atp := by
  induction atp generalizing rot with
  | nil => rfl
  | cons tp atp ih =>
    obtain ⟨t, p⟩ := tp
    simp only [assignLoop, pick_congr h]
    cases pick md t rot.length rot with
    | error e => rfl
    | ok r => obtain ⟨m, rot'⟩ := r; simp only [ih]

/-- What a successful run of the loop did: one operation per `(topic, partition)`, in order, each
    for a member of the cycle that is subscribed to the topic. -/
theorem assignLoop_ok_spec {md : Dict Str (List Str)} {rot : List Str} {atp : List (Str × Int)}
    {log : List (Str × Str × Int)} (h : assignLoop md rot atp = .ok log) :
    log.map (·.2) = atp ∧ ∀ x ∈ log, x.1 ∈ rot ∧ ∃ subs, dget x.1 md = some subs ∧ x.2.1 ∈ subs := by
  induction atp generalizing rot log with
  | nil =>
    simp only [assignLoop, Except.ok.injEq] at h
    subst h; simp
  | cons tp atp ih =>
    obtain ⟨t, p⟩ := tp
    simp only [assignLoop] at h
    cases hp : pick md t rot.length rot with
    | error e => rw [hp] at h; simp at h
    | ok r =>
      obtain ⟨m, rot'⟩ := r
      rw [hp] at h
      simp only at h
      cases hl : assignLoop md rot' atp with
      | error e => rw [hl] at h; simp at h
      | ok log' =>
        rw [hl] at h
        simp only [Except.ok.injEq] at h
        subst h
        obtain ⟨hm, hperm, hsub⟩ := pick_ok_spec hp
        obtain ⟨h1, h2⟩ := ih hl
        refine ⟨by simp [h1], ?_⟩
        intro x hx
        rcases List.mem_cons.mp hx with rfl | hx
        · exact ⟨hm, hsub⟩
        · exact ⟨hperm.mem_iff.mp (h2 x hx).1, (h2 x hx).2⟩

/-- The loop runs to completion whenever every topic it meets is wanted by a member of the cycle. -/
theorem assignLoop_total {md : Dict Str (List Str)} {rot : List Str} {atp : List (Str × Int)}
    (hall : ∀ x ∈ rot, ∃ s, dget x md = some s)
    (hsome : ∀ tp ∈ atp, ∃ x ∈ rot, ∃ s, dget x md = some s ∧ tp.1 ∈ s) :
    ∃ log, assignLoop md rot atp = .ok log := by
  induction atp generalizing rot with
  | nil => exact ⟨[], rfl⟩
  | cons tp atp ih =>
    obtain ⟨t, p⟩ := tp
    obtain ⟨m, rot', hp⟩ := pick_total hall (hsome (t, p) List.mem_cons_self)
    have hperm := (pick_ok_spec hp).2.1
    obtain ⟨log, hl⟩ := ih (rot := rot') (fun x hx => hall x (hperm.mem_iff.mp hx))
      (fun tp htp => by
        obtain ⟨x, hx, hs⟩ := hsome tp (List.mem_cons_of_mem _ htp)
        exact ⟨x, hperm.mem_iff.mpr hx, hs⟩)
    exact ⟨(m, t, p) :: log, by simp only [assignLoop, hp, hl]⟩

/-! ### `allTopicPartitions` -/

theorem allTopicPartitions_some_dget {tp : Dict Str (List Int)} {ts : List Str} {atp : List (Str × Int)}
    (h : allTopicPartitions tp ts = some atp) {t : Str} (ht : t ∈ ts) : ∃ ps, dget t tp = some ps := by
  induction ts generalizing atp with
  | nil => simp at ht
  | cons t' ts ih =>
    simp only [allTopicPartitions] at h
    cases h1 : dget t' tp with
    | none => rw [h1] at h; simp at h
    | some ps =>
      cases h2 : allTopicPartitions tp ts with
      | none => rw [h1, h2] at h; simp at h
      | some rest =>
        rcases List.mem_cons.mp ht with rfl | ht
        · exact ⟨ps, h1⟩
        · exact ih h2 ht

theorem count_map_pair (t t' : Str) (p : Int) (ps : List Int) :
    (ps.map (fun q => (t', q))).count (t, p) = if t' = t then ps.count p else 0 := by
  induction ps with
  | nil => simp
  | cons q ps ih =>
    simp only [List.map_cons, List.count_cons, ih]
    by_cases ht : t' = t
    · subst ht; simp
    · have : ¬ ((t', q) == (t, p)) = true := by simp [ht]
      simp [ht]

theorem count_allTopicPartitions {tp : Dict Str (List Int)} {ts : List Str} {atp : List (Str × Int)}
    (h : allTopicPartitions tp ts = some atp) {t : Str} {ps : List Int} (ht : dget t tp = some ps) (p : Int) :
    atp.count (t, p) = ts.count t * ps.count p := by
  induction ts generalizing atp with
  | nil =>
    simp only [allTopicPartitions, Option.some.injEq] at h
    subst h; simp
  | cons t' ts ih =>
    simp only [allTopicPartitions] at h
    cases h1 : dget t' tp with
    | none => rw [h1] at h; simp at h
    | some ps' =>
      cases h2 : allTopicPartitions tp ts with
      | none => rw [h1, h2] at h; simp at h
      | some rest =>
        rw [h1, h2] at h
        simp only [Option.some.injEq] at h
        subst h
        rw [List.count_append, count_map_pair, ih h2, List.count_cons]
        by_cases htt : t' = t
        · subst htt
          rw [h1] at ht
          simp only [Option.some.injEq] at ht
          subst ht
          simp [Nat.add_mul, Nat.add_comm]
        · have : ¬ (t' == t) = true := by simp [htt]
          simp [htt]

theorem mem_allTopicPartitions {tp : Dict Str (List Int)} {ts : List Str} {atp : List (Str × Int)}
    (h : allTopicPartitions tp ts = some atp) {x : Str × Int} (hx : x ∈ atp) :
    x.1 ∈ ts ∧ ∃ ps, dget x.1 tp = some ps ∧ x.2 ∈ ps := by
  induction ts generalizing atp with
  | nil =>
    simp only [allTopicPartitions, Option.some.injEq] at h
    subst h; simp at hx
  | cons t' ts ih =>
    simp only [allTopicPartitions] at h
    cases h1 : dget t' tp with
    | none => rw [h1] at h; simp at h
    | some ps' =>
      cases h2 : allTopicPartitions tp ts with
      | none => rw [h1, h2] at h; simp at h
      | some rest =>
        rw [h1, h2] at h
        simp only [Option.some.injEq] at h
        subst h
        rcases List.mem_append.mp hx with hx | hx
        · obtain ⟨q, hq, rfl⟩ := List.mem_map.mp hx
          exact ⟨List.mem_cons_self, ps', h1, hq⟩
        · obtain ⟨h3, h4⟩ := ih h2 hx
          exact ⟨List.mem_cons_of_mem _ h3, h4⟩

/-- The list comprehension as a function of the topic list (used for permutation arguments). -/
def atpOf (tp : Dict Str (List Int)) (ts : List Str) : List (Str × Int) :=
  ts.flatMap (fun t => (dgetD t [] tp).map (fun p => (t, p)))

theorem allTopicPartitions_eq {tp : Dict Str (List Int)} {ts : List Str}
    (h : ∀ t ∈ ts, ∃ ps, dget t tp = some ps) : allTopicPartitions tp ts = some (atpOf tp ts) := by
  induction ts with
  | nil => rfl
  | cons t ts ih =>
    obtain ⟨ps, hps⟩ := h t List.mem_cons_self
    simp only [allTopicPartitions, hps, ih (fun t' ht' => h t' (List.mem_cons_of_mem _ ht'))]
    simp [atpOf, dgetD, hps]

theorem allTopicPartitions_none {tp : Dict Str (List Int)} {ts : List Str}
    (h : ∃ t ∈ ts, dget t tp = none) : allTopicPartitions tp ts = none := by
  cases hh : allTopicPartitions tp ts with
  | none => rfl
  | some atp =>
    obtain ⟨t, ht, hn⟩ := h
    obtain ⟨ps, hps⟩ := allTopicPartitions_some_dget hh ht
    rw [hn] at hps; simp at hps

/-! ### `nest` -/

theorem pairsOf_dupd (t : Str) (p : Int) (inner : Dict Str (List Int)) :
    (pairsOf (dupd t [] (fun ps => ps ++ [p]) inner)).Perm (pairsOf inner ++ [(t, p)]) := by
  unfold pairsOf
  refine flatMap_dupd_perm (fun e => e.2.map (fun q => (e.1, q))) t [] _ [(t, p)] rfl ?_ inner
  intro v; simp

theorem triplesOf_addTo (a : Asg) (x : Str × Str × Int) : (triplesOf (addTo a x)).Perm (triplesOf a ++ [x]) := by
  obtain ⟨m, t, p⟩ := x
  unfold triplesOf addTo
  refine flatMap_dupd_perm (fun o => (pairsOf o.2).map (fun y => (o.1, y))) m [] _ [(m, t, p)] ?_ ?_ a
  · simp [pairsOf]
  · intro v
    have := (pairsOf_dupd t p v).map (fun y => (m, y))
    simpa using this

theorem triplesOf_foldl_addTo (log : List (Str × Str × Int)) (acc : Asg) :
    (triplesOf (log.foldl addTo acc)).Perm (triplesOf acc ++ log) := by
  induction log generalizing acc with
  | nil => simp
  | cons x log ih =>
    simp only [List.foldl_cons]
    refine (ih (addTo acc x)).trans ?_
    refine ((triplesOf_addTo acc x).append_right log).trans ?_
    simp

/-- Flattening the nested dict gives back exactly the operations that built it. -/
theorem triplesOf_nest (log : List (Str × Str × Int)) : (triplesOf (nest log)).Perm log := by
  have := triplesOf_foldl_addTo log []
  simpa [nest, triplesOf] using this

theorem keys_foldl_addTo (log : List (Str × Str × Int)) (acc : Asg) (h : (keys acc).Nodup) :
    (keys (log.foldl addTo acc)).Nodup ∧
      ∀ k ∈ keys (log.foldl addTo acc), k ∈ keys acc ∨ k ∈ log.map (·.1) := by
  induction log generalizing acc with
  | nil => exact ⟨h, fun k hk => Or.inl hk⟩
  | cons x log ih =>
    simp only [List.foldl_cons]
    obtain ⟨h1, h2⟩ := ih (addTo acc x) (nodup_keys_dupd h)
    refine ⟨h1, fun k hk => ?_⟩
    rcases h2 k hk with h3 | h3
    · rcases mem_keys_dupd.mp h3 with h4 | h4
      · exact Or.inr (by simp [h4])
      · exact Or.inl h4
    · exact Or.inr (by simp only [List.map_cons, List.mem_cons]; exact Or.inr h3)

theorem keys_nest (log : List (Str × Str × Int)) :
    (keys (nest log)).Nodup ∧ ∀ k ∈ keys (nest log), k ∈ log.map (·.1) := by
  obtain ⟨h1, h2⟩ := keys_foldl_addTo log [] List.nodup_nil
  refine ⟨h1, fun k hk => ?_⟩
  rcases h2 k hk with h | h
  · simp [keys] at h
  · exact h

theorem assignmentOf_eq_dgetD (asg : Asg) (id : Str) : assignmentOf asg id = dgetD id [] asg := by
  unfold assignmentOf dgetD; cases dget id asg <;> rfl

/-- number of partitions member `m` holds in `a` -/
def loadOf (a : Asg) (m : Str) : Nat := (pairsOf (assignmentOf a m)).length

theorem loadOf_addTo (a : Asg) (x : Str × Str × Int) (m : Str) :
    loadOf (addTo a x) m = loadOf a m + (if m = x.1 then 1 else 0) := by
  unfold loadOf addTo
  rw [assignmentOf_eq_dgetD, assignmentOf_eq_dgetD, dgetD_dupd]
  by_cases h : m = x.1
  · subst h
    simp only [if_true]
    rw [(pairsOf_dupd _ _ _).length_eq]; simp
  · simp [h]

theorem loadOf_foldl_addTo (log : List (Str × Str × Int)) (acc : Asg) (m : Str) :
    loadOf (log.foldl addTo acc) m = loadOf acc m + (log.map (·.1)).count m := by
  induction log generalizing acc with
  | nil => simp
  | cons x log ih =>
    simp only [List.foldl_cons, ih, loadOf_addTo, List.map_cons, List.count_cons]
    by_cases h : m = x.1
    · subst h; simp; omega
    · have : ¬ (x.1 == m) = true := by simp; exact fun e => h e.symm
      simp [h, this]

theorem loadOf_nest (log : List (Str × Str × Int)) (m : Str) : loadOf (nest log) m = (log.map (·.1)).count m := by
  have := loadOf_foldl_addTo log [] m
  simpa [nest, loadOf, assignmentOf, dget, pairsOf] using this

/-- What the listed members receive, flattened, is exactly what the loop handed out. -/
theorem triplesOf_perMember {log : List (Str × Str × Int)} {members : List Member}
    (hn : (members.map (·.1)).Nodup) (hsub : ∀ x ∈ log, x.1 ∈ members.map (·.1)) :
    (triplesOf (perMember (nest log) members)).Perm log := by
  refine List.Perm.trans ?_ (triplesOf_nest log)
  obtain ⟨hk1, hk2⟩ := keys_nest log
  have h := flatMap_reindex (fun (o : Str × Dict Str (List Int)) => (pairsOf o.2).map (fun y => (o.1, y))) []
    (by intro k; simp [pairsOf]) (nest log) (members.map (·.1)) hn hk1
    (by
      intro k hk
      obtain ⟨x, hx, rfl⟩ := List.mem_map.mp (hk2 k hk)
      exact hsub x hx)
  unfold triplesOf perMember
  simp only [List.flatMap_map] at h ⊢
  simp only [assignmentOf_eq_dgetD]
  exact h

/-! ### the cycle without skipping -/

/-- the first `n` elements of `itertools.cycle` started at rotation `rot` -/
def cycTake : Nat → List Str → List Str
  | 0, _ => []
  | _ + 1, [] => []
  | n + 1, m :: rest => m :: cycTake n (rest ++ [m])

/-- Counting along a cycle: if the members still to come in this turn (`rest`) have been served
    `k` times and those already served (`served`) `k+1` times, the counts stay within one of each
    other however far the cycle is followed. -/
theorem cycTake_balanced (n : Nat) (pre served rest : List Str) (k : Nat)
    (hn : (rest ++ served).Nodup)
    (hs : ∀ m ∈ served, pre.count m = k + 1) (hr : ∀ m ∈ rest, pre.count m = k) :
    ∀ a ∈ rest ++ served, ∀ b ∈ rest ++ served,
      (pre ++ cycTake n (rest ++ served)).count a ≤ (pre ++ cycTake n (rest ++ served)).count b + 1 := by
  induction n generalizing pre served rest k with
  | zero =>
    intro a ha b hb
    simp only [cycTake, List.append_nil]
    have ha' : pre.count a = k ∨ pre.count a = k + 1 := by
      rcases List.mem_append.mp ha with h | h
      · exact Or.inl (hr a h)
      · exact Or.inr (hs a h)
    have hb' : pre.count b = k ∨ pre.count b = k + 1 := by
      rcases List.mem_append.mp hb with h | h
      · exact Or.inl (hr b h)
      · exact Or.inr (hs b h)
    omega
  | succ n ih =>
    -- one step of the cycle when somebody is still to come in this turn
    have key : ∀ (pre served : List Str) (m : Str) (rest' : List Str) (k : Nat),
        ((m :: rest') ++ served).Nodup → (∀ c ∈ served, pre.count c = k + 1) →
        (∀ c ∈ m :: rest', pre.count c = k) →
        ∀ a ∈ (m :: rest') ++ served, ∀ b ∈ (m :: rest') ++ served,
          (pre ++ cycTake (n + 1) ((m :: rest') ++ served)).count a
            ≤ (pre ++ cycTake (n + 1) ((m :: rest') ++ served)).count b + 1 := by
      intro pre served m rest' k hn hs hr a ha b hb
      have hnd : (m :: (rest' ++ served)).Nodup := by simpa using hn
      obtain ⟨hm, hnd'⟩ := List.nodup_cons.mp hnd
      have hstep : pre ++ cycTake (n + 1) ((m :: rest') ++ served)
          = (pre ++ [m]) ++ cycTake n (rest' ++ (served ++ [m])) := by
        simp [cycTake, List.append_assoc]
      rw [hstep]
      have hn2 : (rest' ++ (served ++ [m])).Nodup := by
        rw [← List.append_assoc]
        exact (List.perm_append_singleton m (rest' ++ served)).nodup_iff.mpr hnd
      have hmem : ∀ c, c ∈ (m :: rest') ++ served → c ∈ rest' ++ (served ++ [m]) := by
        intro c hc
        simp only [List.cons_append, List.mem_cons, List.mem_append] at hc
        simp only [List.mem_append, List.mem_singleton]
        rcases hc with h | h | h
        · exact Or.inr (Or.inr h)
        · exact Or.inl h
        · exact Or.inr (Or.inl h)
      refine ih (pre ++ [m]) (served ++ [m]) rest' k hn2 ?_ ?_ a (hmem a ha) b (hmem b hb)
      · intro c hc
        rcases List.mem_append.mp hc with hc | hc
        · have : c ≠ m := fun e => hm (e ▸ List.mem_append_right _ hc)
          have hne : ¬ (m == c) = true := by simp; exact fun e => this e.symm
          simp [List.count_append, List.count_cons, hs c hc, hne]
        · simp only [List.mem_singleton] at hc; subst hc
          simp [List.count_append, hr c List.mem_cons_self]
      · intro c hc
        have : c ≠ m := fun e => hm (e ▸ List.mem_append_left _ hc)
        have hne : ¬ (m == c) = true := by simp; exact fun e => this e.symm
        simp [List.count_append, List.count_cons, hr c (List.mem_cons_of_mem _ hc), hne]
    cases rest with
    | nil =>
      -- a turn is complete: everybody has `k+1`; start the next turn
      cases served with
      | nil => intro a ha; simp at ha
      | cons s served' =>
        have := key pre [] s served' (k + 1) (by simpa using hn) (by simp) hs
        simpa using this
    | cons m rest' => exact key pre served m rest' k hn hs hr

/-- When every member of the cycle wants every topic met, nobody is skipped: the loop hands the
    partitions out along the cycle. -/
theorem assignLoop_no_skip {md : Dict Str (List Str)} {rot : List Str} {atp : List (Str × Int)}
    {log : List (Str × Str × Int)}
    (hall : ∀ x ∈ rot, ∀ tp ∈ atp, ∃ s, dget x md = some s ∧ tp.1 ∈ s)
    (h : assignLoop md rot atp = .ok log) : log.map (·.1) = cycTake atp.length rot := by
  induction atp generalizing rot log with
  | nil =>
    simp only [assignLoop, Except.ok.injEq] at h
    subst h; simp [cycTake]
  | cons tp atp ih =>
    obtain ⟨t, p⟩ := tp
    cases rot with
    | nil => simp [assignLoop, pick] at h
    | cons m rest =>
      obtain ⟨s, hs, hts⟩ := hall m List.mem_cons_self (t, p) List.mem_cons_self
      have hp : pick md t (m :: rest).length (m :: rest) = .ok (m, rest ++ [m]) := by
        simp [pick, hs, hts]
      simp only [assignLoop, hp] at h
      cases hl : assignLoop md (rest ++ [m]) atp with
      | error e => rw [hl] at h; simp at h
      | ok log' =>
        rw [hl] at h
        simp only [Except.ok.injEq] at h
        subst h
        have := ih (rot := rest ++ [m]) (fun x hx tp htp => by
          refine hall x ?_ tp (List.mem_cons_of_mem _ htp)
          rcases List.mem_append.mp hx with hx | hx
          · exact List.mem_cons_of_mem _ hx
          · simp only [List.mem_singleton] at hx; subst hx; exact List.mem_cons_self) hl
        simp [cycTake, this]

end Afkak.Assign
