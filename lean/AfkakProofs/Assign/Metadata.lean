import AfkakProofs.Assign.Codec
import AfkakProofs.Assign.Utf8
import AfkakProofs.Assign.Facts
/-!
Round trip of the member-metadata codec (`join_group_protocols` → `generate_assignments`' first
loop), and the leader's two-call glue.
-/
namespace Afkak.Assign
open Afkak.Consts

theorem readShortBytes_at {b bs : Bytes} (h : writeShortBytes b = .ok bs) (pre post : Bytes) :
    readShortBytes (pre ++ (bs ++ post)) (pre.length : Int) = .ok (some b, ((pre ++ bs).length : Nat)) := by
  simp only [writeShortBytes] at h
  split at h
  · simp at h
  · cases hl : packInt asgShortLenEncW (b.length : Int) with
    | error e => rw [hl] at h; simp at h
    | ok l =>
      rw [hl] at h
      simp only [Except.ok.injEq] at h
      subst h
      obtain ⟨hll, hlv⟩ := packInt_roundtrip hl
      have hll2 : l.length = 2 := hll
      unfold readShortBytes
      have hskip : ((asgShortLenSkip : Nat) : Int) = ((l.length : Nat) : Int) := by rw [hll2]; rfl
      have hs1 : pySlice (pre ++ (l ++ b ++ post)) (pre.length : Int) ((pre.length : Int) + (asgShortLenSkip : Int)) = l := by
        have := pySlice_at pre l (b ++ post)
        rw [hskip, ← Int.natCast_add]
        simpa [List.append_assoc] using this
      have hs2 : pySlice (pre ++ (l ++ b ++ post)) ((pre.length : Int) + (asgShortLenSkip : Int))
          ((pre.length : Int) + (asgShortLenSkip : Int) + (b.length : Int)) = b := by
        have := pySlice_at (pre ++ l) b post
        rw [hskip, ← Int.natCast_add, ← Int.natCast_add]
        simpa [List.append_assoc] using this
      rw [if_neg (by simp only [List.length_append, hll2, asgShortLenSkip]; omega)]
      simp only [hs1]
      rw [if_neg (by simp [hll2, asgShortLenDecW])]
      simp only [hlv]
      rw [if_neg (by simp only [asgShortNull]; omega), if_neg (by simp only [asgShortLenFloor]; omega)]
      rw [if_neg (by simp only [List.length_append, hll2, asgShortLenSkip]; omega)]
      simp only [hs2]
      simp only [List.length_append, hll2, asgShortLenSkip]
      congr 2
      omega

theorem readShortText_at {s : Str} {bs : Bytes} (h : writeShortText s = .ok bs) (pre post : Bytes) :
    readShortText (pre ++ (bs ++ post)) (pre.length : Int) = .ok (s, ((pre ++ bs).length : Nat)) := by
  unfold writeShortText at h
  cases hb : utf8Encode s with
  | error e => rw [hb] at h; simp at h
  | ok b =>
    rw [hb] at h
    unfold readShortText
    rw [readShortBytes_at h]
    simp only [utf8Decode_encode hb]

theorem decodeSubs_at {ts : List Str} {bs : Bytes} (h : encodeSubs ts = .ok bs) (pre post : Bytes) (acc : List Str) :
    decodeSubs (pre ++ (bs ++ post)) ts.length (pre.length : Int) acc = .ok (acc ++ ts, ((pre ++ bs).length : Nat)) := by
  induction ts generalizing bs pre acc with
  | nil =>
    simp only [encodeSubs, Except.ok.injEq] at h
    subst h; simp [decodeSubs]
  | cons t ts ih =>
    rw [encodeSubs] at h
    cases ht : writeShortText t with
    | error e => rw [ht] at h; simp at h
    | ok tb =>
      rw [ht] at h
      simp only at h
      cases hr : encodeSubs ts with
      | error e => rw [hr] at h; simp at h
      | ok rb =>
        rw [hr] at h
        simp only [Except.ok.injEq] at h
        subst h
        simp only [List.length_cons, decodeSubs]
        have e1 : pre ++ (tb ++ rb ++ post) = pre ++ (tb ++ (rb ++ post)) := by simp [List.append_assoc]
        rw [e1, readShortText_at ht]
        simp only
        have e2 : pre ++ (tb ++ (rb ++ post)) = (pre ++ tb) ++ (rb ++ post) := by simp [List.append_assoc]
        rw [e2, ih hr]
        simp [List.append_assoc]

/-- `decode_join_group_protocol_metadata` reads back what `encode_join_group_protocol_metadata`
    wrote (whenever the encoder did not raise). -/
theorem decodeMetadata_encode {v : Int} {subs : List Str} {ud bs : Bytes} (h : encodeMetadata v subs ud = .ok bs) :
    decodeMetadata bs = .ok (v, subs, some ud) := by
  unfold encodeMetadata at h
  cases h1 : packInt asgMmEncVersionW v with
  | error e => rw [h1] at h; simp at h
  | ok vb =>
    cases h2 : packInt asgMmEncNumSubsW (subs.length : Int) with
    | error e => rw [h1, h2] at h; simp at h
    | ok nb =>
      rw [h1, h2] at h
      simp only at h
      cases h3 : encodeSubs subs with
      | error e => rw [h3] at h; simp at h
      | ok sb =>
        rw [h3] at h
        simp only at h
        cases h4 : writeIntString ud with
        | error e => rw [h4] at h; simp at h
        | ok ub =>
          rw [h4] at h
          simp only [Except.ok.injEq] at h
          subst h
          unfold decodeMetadata
          have h1' : packInt asgMmDecVersionW v = .ok vb := h1
          have h2' : packInt asgMmDecNumSubsW (subs.length : Int) = .ok nb := h2
          have e1 : vb ++ nb ++ sb ++ ub = [] ++ (vb ++ (nb ++ (sb ++ ub))) := by simp [List.append_assoc]
          have r1 := relUnpack2_at h1' h2' [] (sb ++ ub)
          simp only [List.length_nil] at r1
          have : ((0 : Nat) : Int) = 0 := rfl
          rw [this] at r1
          rw [e1, r1]
          simp only [Int.toNat_natCast]
          have e2 : [] ++ (vb ++ (nb ++ (sb ++ ub))) = ([] ++ vb ++ nb) ++ (sb ++ (ub ++ [])) := by simp [List.append_assoc]
          rw [e2, decodeSubs_at h3]
          simp only
          have e3 : ([] ++ vb ++ nb) ++ (sb ++ (ub ++ [])) = ([] ++ vb ++ nb ++ sb) ++ (ub ++ []) := by simp [List.append_assoc]
          rw [e3, readIntString_at h4]
          simp

/-- The first loop of `generate_assignments` recovers every member's subscriptions from what
    `join_group_protocols` encoded. -/
theorem decodeMembers_wireOf {ms : List Member} {w : List (Str × Bytes)} (h : wireOf ms = .ok w) :
    decodeMembers w = .ok ms := by
  induction ms generalizing w with
  | nil =>
    simp only [wireOf, Except.ok.injEq] at h
    subst h; rfl
  | cons m ms ih =>
    rw [wireOf] at h
    cases h1 : joinGroupMetadata m.2 with
    | error e => rw [h1] at h; simp at h
    | ok b =>
      rw [h1] at h
      simp only at h
      cases h2 : wireOf ms with
      | error e => rw [h2] at h; simp at h
      | ok r =>
        rw [h2] at h
        simp only [Except.ok.injEq] at h
        subst h
        rw [decodeMembers, decodeMetadata_encode h1, ih h2]

theorem generateAssignmentsB_wireOf {ms : List Member} {w : List (Str × Bytes)} (h : wireOf ms = .ok w)
    (tp : Dict Str (List Int)) : generateAssignmentsB w tp = generateAssignments ms tp := by
  unfold generateAssignmentsB
  rw [decodeMembers_wireOf h]

/-! ### the leader's glue -/

/-- The leader's first call (empty partition map) asks for exactly the subscribed topics, and the
    second call, made with a map that has an entry for every topic asked for, cannot ask again. -/
theorem leaderAssign_spec {w : List (Str × Bytes)} {ms : List Member} (hd : decodeMembers w = .ok ms)
    (load : List Str → Dict Str (List Int)) (hload : ∀ ts, ∀ t ∈ ts, ∃ ps, dget t (load ts) = some ps) :
    (allTopics (memberMetadata ms) = [] ∧ leaderAssign w load = .error .assertion) ∨
    (allTopics (memberMetadata ms) ≠ [] ∧
      ∃ asg, roundRobin (memberMetadata ms) (load (sortBy strLe (allTopics (memberMetadata ms)))) = .ok asg ∧
        leaderAssign w load = encodeEach asg ms) := by
  have hn := nodup_keys_memberMetadata ms
  unfold leaderAssign generateAssignmentsB
  rw [hd]
  simp only
  rcases roundRobin_outcome hn [] with ⟨h0, h1⟩ | ⟨h0, -, h1⟩ | ⟨h0, h1, -⟩
  · left
    exact ⟨h0, by simp only [generateAssignments, h1]⟩
  · right
    refine ⟨h0, ?_⟩
    simp only [generateAssignments, h1]
    rcases roundRobin_outcome hn (load (sortBy strLe (allTopics (memberMetadata ms)))) with
      ⟨h0', -⟩ | ⟨-, ⟨t, ht, hnone⟩, -⟩ | ⟨-, -, asg, hasg⟩
    · exact absurd h0' h0
    · obtain ⟨ps, hps⟩ := hload _ t ((mem_sortBy strLe).mpr ht)
      rw [hnone] at hps; simp at hps
    · exact ⟨asg, hasg, by simp only [hasg]⟩
  · exfalso
    cases hts : allTopics (memberMetadata ms) with
    | nil => exact h0 hts
    | cons t ts =>
      obtain ⟨ps, hps⟩ := h1 t (by rw [hts]; exact List.mem_cons_self)
      simp [dget] at hps

end Afkak.Assign
